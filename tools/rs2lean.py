#!/usr/bin/env python3
"""
rs2lean — a small, dependency-free translator from a straight-line SUBSET of Rust `f64` code to Lean 4.

Purpose (see /verif/DESIGN.md section 2, "tie"): the hand-written Lean model of the crate is tied to the Rust
source by bit-exact differential execution and by table/constant extraction.  This translator adds the third
tie: for straight-line arithmetic functions the Lean term is REGENERATED FROM THE SOURCE on every run and a
theorem `Cv.SrcTie.Cxx.<name>_eq : <regenerated> = <hand model>` (closed by `rfl` / unfolding only) must keep
checking.  An edit of a formula in the Rust source therefore breaks a proof obligation.

The subset
----------
A function (free `fn`, `impl` method, trait default method, or a method inside a `macro_rules!` body), located
by file + path, whose body consists of
  * `assert!(c, ..)`, `assert_eq!(a, b)`, `if c { panic!(..) }`                         (-> `Option`, `none` = panic)
  * `let x = e;`  `let x: f64 = e;`  `let (a, b) = (e1, e2);`                            (shadowing allowed)
  * `if / else if / else` expressions and statements, early `return e;`
  * comparisons `< <= > >= == !=`, `&& || !` (and the non-short-circuit `& |` on bools),
    `(a..=b).contains(&x)`, `(a..b).contains(&x)`
  * f64 expressions: literals, identifiers, `self.field`, `+ - * /`, unary `-`, parentheses, `&x`/`*x` (identity
    on scalars), method calls `.exp() .ln() .ln_1p() .exp_m1() .sqrt() .abs() .powi(k) .powf(y) .sin() .cos()
    .tan() .floor() .ceil() .recip() .max(y) .min(y)`, casts `as f64` of integer values (and of f64: identity),
    calls of crate functions and constants (spelled through the option tables `fns` / `consts`).
  * integer expressions (`i64/usize/u64` -> `Int`/`Nat`) only with the explicit option `int_arith=True`
    (unbounded: overflow is NOT modelled; the option is the acknowledgement).
Optional extras, each an explicit option: `loops_as_params` (a `let mut x = ..; for .. { .. }` pair is skipped
and `x` becomes a parameter: the straight-line code AFTER a loop), `branch` (select the then/else block of the
top-level `if` of the body), `moment` (tail leaves `f64::INFINITY` / `f64::NAN` become constructors), and
FRAGMENTS of functions whose body as a whole is outside the subset (option `closure`, see
`Translator._closure_def`): the n-th closure of the body / of a `match` arm, the initializer of the n-th
`let name = e;`, the argument of the n-th call `callee(e)`; the fragment's free variables (`free`), indexed
values (`index_vars`: `y[i]`, `x[n - 1]` are scalars) and closure parameters are declared by the caller.
With `vectors=True` a match arm whose value is a `Vector` expression (`&[f64]` parameters, `Vector::from`,
`Vector::ones(v.len())`, `vmul(..)`, the operator overloads `f64 ∘ Vector`, `Vector ∘ f64`, `Vector ∘ Vector`, unary
minus, `.exp()`) is translated onto the shared element-wise kernels of Model/Vops.lean (fragment kind "arm").

Loops and iterator chains (option `loops=True`, second pass; whole functions, no fragments)
  * parameters / results: `&[f64]`, `Vec<f64>`, `Vector` (-> `List α`), tuples of scalars (-> `×`), `usize`/`i32`;
    generic closure parameters `f: F` listed in `fn_params` become function binders
  * `let mut x = e;`, `let (mut a, mut b) = (..);`, `let (a, _, c) = tuple_value;`, `x = e;`, `x op= e;` (a shadowing
    `let`; tuple components are substituted by projections), `v.push(e)` on a `let mut` Vec (`v ++ [e]`)
  * `for pat in iter { body }` without early exit whose body re-assigns `let mut` variables of the enclosing scope:
    `List.foldl (fun state item => body; new state) state iter`; the state is the assigned variable, or the tuple of
    the assigned variables IN DECLARATION ORDER; nested `for` loops are folds inside the body
  * ranges `lo..hi` of usize: `List.range hi` (lo = 0) / `List.range' lo (hi - lo)`; slices and `.iter()`,
    `.into_iter()`, `.collect()`, `.to_vec()`: the list itself; `.map(|x| e)` `List.map`, `.zip(ys)` `List.zip`,
    `.enumerate()` `List.zipIdx` (pairs are `(item, index)`: the pattern `(i, x)` is bound accordingly),
    `.fold(init, |acc, x| e)` `List.foldl`, `.windows(2)` `List.zip l l.tail` (`w[0]`, `w[1]` are `.1`, `.2`),
    `.skip(k)` `List.drop`, `.take(n)` `List.take`, `.rev()` `List.reverse`, `.len()` `.length`,
    `.sum::<f64>()` the option `iter_sum` (default `Cv.iterSum`: LEFT FOLD FROM -0.0, as `Iterator::sum` for f64),
    `.product()` `List.foldl (· * ·) 1`; tuple fields `.0 .1 ..`; calls with slice / tuple arguments (`fns`), whose
    result type is declared (`fn_ret`), read off the signature of a function of the same file, or f64
  * panics are values: `usize` subtraction `a - b` is CHECKED — the statement containing it is wrapped in the guard
    `if b ≤ a then .. else none` (not needed when `a` is the index of a range whose lower bound is literally `b`);
    `usize` division `a / b` is guarded by `0 < b`; a call of a function listed in `opt_fns` (its Lean spelling
    returns `Option`) is bound before the statement (`(call).bind fun r => ..`); `Ok(e)` / `Err(..)` of a function
    returning `Result<T, String>` are `some e` / `none` (callers `.unwrap()`).  A panic source inside a closure or a
    loop body cannot be hoisted: `Unsupported`.
  * acknowledged by the option (as `int_arith` for overflow): `x[i]` is `x[i]!` — the out-of-bounds panic of slice
    indexing is NOT modelled; `k.abs() as usize` of an `i32` is `Int.natAbs k` (overflow at `i32::MIN` not modelled).
  Still outside: `while`/`loop`, `break`/`continue`/`return`/`assert!`/`if` statements inside a loop body, assignment to
  anything but a plain `let mut` variable (`v[i] = e`, fields), `.filter`, `.flat_map`, `.chunks`, `match`, `if let`,
  closures that are not the argument of `.map` / `.fold`.

In-place mutation, nested loops, decision trees (option `mut=True`, third pass; implies `loops`)
  * `let mut v: Vec<f64>` (from `x.to_vec()`, `vec![e; n]` = `List.replicate n e`, `vec![a, b]`, `Vec::with_capacity(n)` followed by
    `unsafe { v.set_len(n); }` = `n` uninitialised cells, spelled by the option `uninit`) updated by `v[e] = rhs;` /
    `v[e] op= rhs;` (`let v := List.set v e rhs'`), `v.swap(a, b);` (`let v := <swap_fn> v a b`), `v.extend_from_slice(w);`
    (`v ++ w`), `v.push(e);` — inside nested `for` loops over `lo..hi` / `(lo..hi).rev()`; the loop state is the tuple of the
    assigned `let mut` variables in declaration order, as in the second pass.  `Vec<i32>` / `Vec<usize>` are `List Int` /
    `List Nat`; `x as i32` of a usize is the cast `Nat → Int`, `p as usize` of an i32 is `Int.toNat` (wrap-around NOT modelled).
  * reads `v[i]` of an f64 vector are spelled by the option `index_read` (e.g. `Cv.LA.rd v i`; default `v[i]!`), slices
    `&v[lo..hi]` / `&v[..hi]` / `&v[lo..]` are `take (hi - lo) (drop lo v)` / `take hi v` / `drop lo v`, `x.split_at(k)` is the pair
    `(take k x, drop k x)`, `x.split_first().unwrap()` is `(x[0]!, x.tail)`.  As for reads in the second pass, the panics of
    indexing / slicing (and the no-op of `List.set` out of range) are NOT modelled; the option is the acknowledgement.
  * `if c { .. } [else { .. }]` statements whose blocks fall through and only mutate: `let state := if c then (..; state') else
    (..; state')`.  Nothing inside a branch (of an `if` statement or expression) is hoisted in front of the `if`.
  * early exit: a function returning `Option<T>` (`Some(e)` = `some e`, `None` = `none`; with panics the result is
    `Option (Option T)`, outer `none` = panic) may `return None` inside (nested) `for` loops: such a loop is
    `List.foldlM (m := Option)`, its body ends in `some state'`, an `if` containing the `return` is translated in continuation
    style (`if c then (A; rest) else (B; rest)`); after the loop `match fold with | none => <None> | some state => rest`
    (inside another such loop: `(fold).bind fun state => rest`).  `opt.unwrap()` / `.expect(..)` of an `Option` VALUE is a bind.
  * calls through the table `fns`; a spelling containing `{0}` is a template (`"Cv.LA.isSquare {0}.length"`); `bool_methods` for
    f64 methods returning bool (`x.is_nan()`); `assert!(f(x))` of a panicking bool function binds the call first.
  * decision trees on shapes: a parameter of a struct type listed in `struct_types` is one binder per field (`m.nrows` =
    `m_nrows`), `m.shape()` (`struct_methods`) the tuple of fields; fixed-size arrays `[a, b]` / `[T; 2]` / `let [a, b] = e;` are
    tuples; `==` on such tuples of integers is the conjunction of the component equalities, `.contains(&k)` the disjunction;
    enum values `Enum::Ctor(args)` are spelled by `adts` / `adt_ctors`; a recursive call goes through `fns` to a parameter.
  * fragment kind `for` (`closure=dict(kind="for", index=n, free={rust name: (lean binder, type[, "mut"])})`): the n-th
    outermost `for` loop of a function whose body as a whole is outside the subset, as a function of its declared free
    variables; the value is the tuple of the `mut` ones after the loop.
  * fragment kind `assign` (`closure=dict(kind="assign", name=x, index=n, free=.., index_vars=..)`): the right-hand side of the n-th
    assignment `x = e;` / `x[..] = e;` as a scalar formula.  An `index_vars` entry `(binder, "var")` declares an element of a
    `Vec<reverse::Var>` (a tape variable, represented by its value): `Var - f64` / `Var + f64` are spelled as the `reverse` crate
    implements them, `val + (-rhs)` / `val + rhs`.
  Fourth pass (same option):
  * `#[cfg(feature = "x")] { .. }` / `#[cfg(not(..))] { .. }` (also `all` / `any`) blocks inside a function body are resolved
    with the option `cfg_features` (the features the crate is built with): a block that is not compiled in is skipped, the
    enabled one must end the enclosing block and is inlined.  Without the option: `Unsupported`.
  * panic sources inside a branch of an `if` EXPRESSION (`let a = if t { transpose(a, r) } else { a.to_vec() };`): the `if` is
    evaluated in `Option` (each branch carries its own guards / binds and ends in `some v`) and bound; the short circuits
    `p && q` / `p || q` with a panicking `q`: `q` is only evaluated when `p` does not decide (same construction).
  * panic sources inside a LOOP BODY (`assert!`, calls of panicking functions, `.unwrap()`): the loop is a
    `List.foldlM (m := Option)` in the panic `Option` (body statements carry their guards / binds, the body ends in
    `some state'`), followed by `.bind fun state => rest`.  A guard that already wraps an enclosing statement (the `0 < bsize` of
    an outer loop header) is not repeated inside.  Checked `usize` subtraction / division inside a loop body stay outside.
  * `if let Some(x) = e { A } else { B }` (tail position, or as a statement: the rest of the block is duplicated into both arms):
    `match e with | some x => A | none => B`; `match x { Enum::A => e1, .., _ => en }` on an enum value as a pure value.
  * ranges of `i32` (`0..n as i32`): the list of the casts `lo + (k : Int)`, `k < toNat (hi - lo)`; `x as usize` of an f64 is
    spelled by the option `f64_to_usize`; `true` / `false`; an array literal of f64 is a list.
  * a struct literal `Name { a, b: e }` is `struct_mk[Name]` applied to the fields in the order of `struct_types[Name]` (the field
    expressions are evaluated in the order of the literal); `self.<field>.<m>()` / `T::f(..).<m>()` listed in `field_calls` (the
    draw of a cached sub-sampler) is a parameter; `type_alias` for associated types (`Self::Output`).
  * a `let mut m = <value of a struct type listed in struct_mk>` is exploded into its fields (`m.data[i] = e` updates the field
    `data`), the value `m` is rebuilt with the constructor `struct_mk[type]`; the return type `Self` is the impl's type.
  Normal form (option `normalize`, default on with `mut`): harmless tidying of the source gives the SAME Lean text —
  * an immutable `let` of a pure integer expression (no calls, no panic source, no `let mut` variable mentioned) or of a slice
    `&v[a..b]` is not emitted: the name stands for its initializer (a use after one of the mentioned names was bound again is
    refused); `row[k]` / `&row[p..q]` of such a slice `row = &v[a..b]` is index arithmetic on the base: `v[a + k]`,
    `&v[a + p .. a + q]` (`&row[p..]` ends at `b`);
  * `usize` sums are left-associated (`a + (b + c)` is `(a + b) + c`);
  * `for pat in it { v.push(e); }` is `v ++ it.map(|pat| e)` (what `.map(..).collect()` gives), `for pat in it { v.extend(w); }` and
    a loop whose body is one such loop are `v ++ it.flat_map(..)`; nothing is appended to a literally empty vector.
  Floating-point expression trees are never touched: no re-association, no commutation, no `x / 2.` ↔ `0.5 * x`.
  Fifth pass: `&mut self` methods as state transformers (option `state_fn`, see `Translator._state_def`); fragment kind `cond` (the
  condition of the n-th `if` as a `Bool` function) and Boolean `let` fragments (`bool=True`); a `field_calls` spelling containing
  `{0}` keeps the constructor's arguments (`Gamma::new(a, b).sample()` = `gsample a b`); `self.m(args)` through `self_methods`
  (applied to the self binders, bound if it can panic); `a.saturating_sub(b)` of usize is the truncated `a - b`; `mut_self_value`: a
  `&mut self` method whose effect is spelled by its value; a tail `if` whose branches contain checked subtractions keeps the
  guards inside the branches.
  Kernels: `a % b` of usize (a non-zero literal divisor of `/` or `%` cannot panic: no guard); `x.is_empty()` is `x.isEmpty` (also in the
  `loops` subset).
  Redraw loops: option `redraw=dict(draws=[..], state=.., [while_index=n])` translates a body (or the block containing the n-th
  `while`) of the exact shape `let mut v = D; while c(v) { v = D; } tail(v)`, `D` a listed draw of an abstract generator, as
  `(Cv.SrcDraw.redrawWhile (fun v => c v) draw fuel g).map fun r => (tail r.1, r.2)` (fuel-bounded; Model/SrcDraw.lean); fragment kind
  `after_while`: the value of the block after the n-th `while` loop, as a function of its declared free variables.  Any other
  `while` stays outside the subset.
  Private helpers (option `inline_helpers`, default on with `mut`): a call `Self::h(args)` / `h(args)` of a PRIVATE function of the same
  file that has no spelling in `fns` is inlined when its body is straight-line (`assert!`, `if c { panic!() }`, immutable `let`s, an
  optional value): the helper's panics are guards of the calling statement, in the helper's order; `h(x);` of a unit helper is a
  statement.  Public functions are never inlined (they have their own tie).
  Still outside: `while` / `loop`, `break` / `continue`, `return` of anything but `None` inside a loop, checked `usize`
  subtraction / division inside a loop body or a branch, `match` with bindings or guards, `if let` on other patterns,
  `&mut self` / `&mut` arguments, iterator adaptors not listed above.

Everything else raises `Unsupported` — never a silent approximation.

What is preserved exactly: the expression tree of every float operation (association, operand order, where
the unary minus sits), the order and nesting of the conditions, which comparison is used (`a > b` is emitted
as `a > b`, which Lean unfolds to `b < a`; nothing is negated or flipped by the translator).
What the translator decides (the spelling "dialect", shared with the hand models, see `Dialect`):
  * float literal `0.` -> `0` (`Zero`), `1.` -> `1` (`One`), integer-valued `n.` -> `((n : Nat) : α)`,
    dyadic `p/2^k` (e.g. `0.5`) -> `((p) / ((2^k : Nat) : α))` (all exact at `Float`); any other literal must be
    named by the caller (`named_lits`, e.g. an entry of a generated table of bits) or `Unsupported` is raised.
  * `.exp()` etc. -> `Cv.Transc.exp` etc.; `.powi(k)` -> `Cv.powi x k`; `.ln_1p() .exp_m1() .max() .min()` and the
    constants `PI`, `f64::NAN` … have no default spelling: the caller supplies one (`methods`, `consts`).
  * `k as f64` -> `((k : Nat) : α)` / `((k : Int) : α)`.
  * FALLBACKS (options `default_consts`, `auto_lits`, both on): an f64 associated constant / `std::f64::consts` constant without a
    spelling in `consts` is a field of the class `Cv.F64Consts` (Model/F64Consts.lean: `f64::EPSILON` = `Cv.F64Consts.eps`, `PI` =
    `Cv.F64Consts.pi`, …); an inexact decimal literal without a name in `named_lits` is `Cv.LitBits.ofBits 0x<bits of the f64 it rounds
    to>`.  They exist so that a source edit that INTRODUCES a constant or a literal still regenerates — the regenerated definition
    mentions it and the equivalence theorem against the hand model fails — instead of leaving the subset (a mere note).
    `tools/cv/srctie.py` adds the import and the two instance binders to a generated file only when it uses them.

Usage
-----
  from rs2lean import translate, Opts
  lean_def = translate(open(path).read(), "Normal::pdf", Opts(name="Normal_pdf", ...))
  python3 tools/rs2lean.py --selftest
  python3 tools/rs2lean.py FILE.rs PATH            (prints the Lean definition with default options)
"""
import re
import sys
from fractions import Fraction


class Unsupported(Exception):
    """The function is outside the translated subset (or an option needed to spell something is missing)."""


class NotFound(Exception):
    """The function / impl / struct was not found (or is ambiguous) in the source."""


# ======================================================================================= lexer
PUNCT = ["..=", "...", "<<=", ">>=", "::", "->", "=>", "==", "!=", "<=", ">=", "&&", "||", "+=", "-=", "*=", "/=",
         "%=", "^=", "&=", "|=", "<<", ">>", ".."]
INT_SUFFIXES = ("u8", "u16", "u32", "u64", "u128", "usize", "i8", "i16", "i32", "i64", "i128", "isize")
FLOAT_SUFFIXES = ("f32", "f64")


class Tok:
    __slots__ = ("k", "s", "pos")

    def __init__(self, k, s, pos):
        self.k, self.s, self.pos = k, s, pos

    def __repr__(self):
        return "%s:%r" % (self.k, self.s)


def lex(src):
    toks = []
    i, n = 0, len(src)
    while i < n:
        c = src[i]
        if c.isspace():
            i += 1
            continue
        if src.startswith("//", i):
            j = src.find("\n", i)
            i = n if j < 0 else j
            continue
        if src.startswith("/*", i):
            depth, j = 1, i + 2
            while j < n and depth:
                if src.startswith("/*", j):
                    depth += 1
                    j += 2
                elif src.startswith("*/", j):
                    depth -= 1
                    j += 2
                else:
                    j += 1
            i = j
            continue
        if c == '"' or (c == "b" and src.startswith('b"', i)):
            j = i + (2 if c == "b" else 1)
            while j < n and src[j] != '"':
                j += 2 if src[j] == "\\" else 1
            toks.append(Tok("str", src[i:j + 1], i))
            i = j + 1
            continue
        if c == "r" and re.match(r'r#*"', src[i:i + 8]):
            m = re.match(r'r(#*)"', src[i:])
            close = '"' + m.group(1)
            j = src.find(close, i + len(m.group(0)))
            if j < 0:
                raise Unsupported("unterminated raw string at %d" % i)
            toks.append(Tok("str", src[i:j + len(close)], i))
            i = j + len(close)
            continue
        if c == "'":
            m = re.match(r"'(\\.[^']*|[^'\\])'", src[i:])
            if m:
                toks.append(Tok("char", m.group(0), i))
                i += len(m.group(0))
                continue
            m = re.match(r"'[A-Za-z_][A-Za-z0-9_]*", src[i:])
            if m:
                toks.append(Tok("life", m.group(0), i))
                i += len(m.group(0))
                continue
            raise Unsupported("stray quote at %d" % i)
        if c.isdigit():
            j = i
            if src.startswith(("0x", "0o", "0b"), i) and not src.startswith("0b", i) or re.match(r"0b[01_]", src[i:i + 3]):
                j = i + 2
                while j < n and (src[j].isalnum() or src[j] == "_"):
                    j += 1
                toks.append(Tok("num", src[i:j], i))
                i = j
                continue
            while j < n and (src[j].isdigit() or src[j] == "_"):
                j += 1
            # fractional part: a '.' belongs to the number unless followed by '.' (range) or an identifier (method)
            if j < n and src[j] == "." and not (j + 1 < n and (src[j + 1] == "." or src[j + 1].isalpha() or src[j + 1] == "_")):
                j += 1
                while j < n and (src[j].isdigit() or src[j] == "_"):
                    j += 1
            m = re.match(r"[eE][+-]?[0-9][0-9_]*", src[j:])
            if m:
                j += len(m.group(0))
            m = re.match(r"[A-Za-z_][A-Za-z0-9_]*", src[j:])
            if m:
                j += len(m.group(0))
            toks.append(Tok("num", src[i:j], i))
            i = j
            continue
        if c.isalpha() or c == "_":
            m = re.match(r"[A-Za-z_][A-Za-z0-9_]*", src[i:])
            toks.append(Tok("id", m.group(0), i))
            i += len(m.group(0))
            continue
        for p in PUNCT:
            if src.startswith(p, i):
                toks.append(Tok("p", p, i))
                i += len(p)
                break
        else:
            toks.append(Tok("p", c, i))
            i += 1
    return toks


def match_brackets(toks):
    """index of the matching bracket for every ( [ { token"""
    close = {"(": ")", "[": "]", "{": "}"}
    stack, mt = [], {}
    for i, t in enumerate(toks):
        if t.k != "p":
            continue
        if t.s in close:
            stack.append(i)
        elif t.s in (")", "]", "}"):
            if not stack or close[toks[stack[-1]].s] != t.s:
                raise Unsupported("unbalanced bracket %r at offset %d" % (t.s, t.pos))
            j = stack.pop()
            mt[j] = i
            mt[i] = j
    if stack:
        raise Unsupported("unclosed bracket at offset %d" % toks[stack[-1]].pos)
    return mt


# ======================================================================================= item scanner
class FnItem:
    def __init__(self, name, macro, impl, trait, mod, params, ret, body):
        self.name, self.macro, self.impl, self.trait, self.mod = name, macro, impl, trait, mod
        self.params, self.ret, self.body = params, ret, body   # token index ranges (lo, hi) exclusive of brackets


class Source:
    """Token-level index of one Rust file: functions, struct fields, consts."""

    def __init__(self, text):
        self.text = text
        self.toks = lex(text)
        self.mt = match_brackets(self.toks)
        self.fns = []
        self.structs = {}    # name -> [(field, type string)]
        self.consts = {}     # name -> (type string, (lo, hi)) of the initializer tokens  (top level only)
        self.macros = {}     # macro_rules name -> dict(params=[$names of the first arm], invocations=[[arg text]])
        self._scan(0, len(self.toks), dict(macro=None, impl=None, trait=None, mod=None))

    def _scan(self, lo, hi, ctx):
        T, mt = self.toks, self.mt
        i = lo
        while i < hi:
            t = T[i]
            if t.k == "id" and t.s == "macro_rules" and i + 2 < hi and T[i + 1].s == "!":
                name = T[i + 2].s
                j = i + 3
                if T[j].s not in ("{", "(", "["):
                    raise Unsupported("macro_rules shape")
                pl = j + 1                                   # first arm: ( $a: ty, $b: ty ) => { .. }
                mparams = []
                if T[pl].s in ("(", "[", "{"):
                    q = pl + 1
                    while q < mt[pl]:
                        if T[q].s == "$" and T[q + 1].k == "id":
                            mparams.append("$" + T[q + 1].s)
                        q += 1
                self.macros.setdefault(name, dict(params=mparams, invocations=[]))["params"] = mparams
                self._scan(j + 1, mt[j], dict(ctx, macro=name))
                i = mt[j] + 1
                continue
            if t.k == "id" and i + 2 < hi and T[i + 1].s == "!" and T[i + 2].s in ("(", "[", "{") \
                    and ctx["impl"] is None and ctx["macro"] is None and (i == lo or T[i - 1].s != "macro_rules"):
                # top-level macro invocation  name!(a, b);
                close = mt[i + 2]
                args, cur, q = [], [], i + 3
                while q < close:
                    if T[q].s == "," :
                        args.append("".join(cur)); cur = []
                    else:
                        cur.append(T[q].s)
                    q += 1
                if cur:
                    args.append("".join(cur))
                self.macros.setdefault(t.s, dict(params=[], invocations=[]))["invocations"].append(args)
                i = close + 1
                continue
            if t.k == "id" and t.s in ("impl", "trait", "mod") and (i == lo or T[i - 1].s not in (".", "::")):
                j = i + 1
                while j < hi and T[j].s not in ("{", ";"):
                    j = mt[j] + 1 if T[j].s in ("(", "[") else j + 1
                if j >= hi or T[j].s == ";":
                    i = j + 1
                    continue
                header = T[i + 1:j]
                if t.s == "impl":
                    # skip a leading generic list
                    k, depth = 0, 0
                    if header and header[0].s == "<":
                        depth = 1
                        k = 1
                        while k < len(header) and depth:
                            depth += header[k].s == "<"
                            depth -= header[k].s == ">"
                            if header[k].s == ">>":
                                depth -= 2
                            k += 1
                    names = [h.s for h in header[k:]]
                    if "for" in names:
                        after = names[names.index("for") + 1:]
                    else:
                        after = names
                    after = [a for a in after if a not in ("&", "mut", "dyn")]
                    ty = after[0] if after else None
                    # a path type a::b::C -> last segment before any '<'
                    idx = 0
                    while idx + 2 < len(after) and after[idx + 1] == "::":
                        idx += 2
                        ty = after[idx]
                    self._scan(j + 1, mt[j], dict(ctx, impl=ty))
                elif t.s == "trait":
                    self._scan(j + 1, mt[j], dict(ctx, trait=header[0].s if header else None))
                else:
                    self._scan(j + 1, mt[j], dict(ctx, mod=header[0].s if header else None))
                i = mt[j] + 1
                continue
            if t.k == "id" and t.s == "fn" and i + 1 < hi and T[i + 1].k == "id":
                name = T[i + 1].s
                j = i + 2
                if T[j].s == "<":   # generics
                    depth = 1
                    j += 1
                    while depth:
                        depth += T[j].s == "<"
                        depth -= T[j].s == ">"
                        j += 1
                if T[j].s != "(":
                    raise Unsupported("fn %s: parameter list not found" % name)
                p_lo, p_hi = j + 1, mt[j]
                j = mt[j] + 1
                r_lo = j
                while j < hi and T[j].s not in ("{", ";"):
                    j = mt[j] + 1 if T[j].s in ("(", "[") else j + 1
                r_hi = j
                if j < hi and T[j].s == "{":
                    self.fns.append(FnItem(name, ctx["macro"], ctx["impl"], ctx["trait"], ctx["mod"],
                                           (p_lo, p_hi), (r_lo, r_hi), (j + 1, mt[j])))
                    i = mt[j] + 1
                else:
                    i = j + 1
                continue
            if t.k == "id" and t.s == "struct" and i + 2 < hi and T[i + 1].k == "id":
                name = T[i + 1].s
                j = i + 2
                while j < hi and T[j].s not in ("{", ";", "("):
                    j += 1
                if j < hi and T[j].s == "{":
                    self.structs[name] = self._fields(j + 1, mt[j])
                    i = mt[j] + 1
                    continue
                i = j + 1
                continue
            if t.k == "id" and t.s == "const" and i + 2 < hi and T[i + 1].k == "id" and T[i + 2].s == ":" \
                    and ctx["impl"] is None:
                name = T[i + 1].s
                j = i + 3
                while T[j].s != "=":
                    j = mt[j] + 1 if T[j].s in ("(", "[", "{") else j + 1
                ty = "".join(x.s for x in T[i + 3:j])
                e_lo = j + 1
                while T[j].s != ";":
                    j = mt[j] + 1 if T[j].s in ("(", "[", "{") else j + 1
                if ctx["mod"] is None:
                    self.consts[name] = (ty, (e_lo, j))
                i = j + 1
                continue
            if t.k == "p" and t.s == "{":
                self._scan(i + 1, mt[i], ctx)
                i = mt[i] + 1
                continue
            i += 1

    def _fields(self, lo, hi):
        T, mt = self.toks, self.mt
        out, i = [], lo
        while i < hi:
            if T[i].s == "#":          # attribute
                i = mt[i + 1] + 1
                continue
            if T[i].s == "pub":
                i += 1
                if T[i].s == "(":
                    i = mt[i] + 1
                continue
            if T[i].k == "id" and i + 1 < hi and T[i + 1].s == ":":
                name = T[i].s
                j = i + 2
                depth = 0
                while j < hi and not (T[j].s == "," and depth == 0):
                    if T[j].s == "<":
                        depth += 1
                    elif T[j].s == ">":
                        depth -= 1
                    elif T[j].s in ("(", "["):
                        j = mt[j]
                    j += 1
                out.append((name, "".join(x.s for x in T[i + 2:j])))
                i = j + 1
                continue
            i += 1
        return out

    def find_fn(self, path):
        """`name` (free fn) | `Type::name` (any impl of Type) | `Trait::name` (default method) |
        `macro_name!::name` or `macro_name!::Type::name` (inside a macro_rules body)."""
        parts = path.split("::")
        macro = None
        if parts[0].endswith("!"):
            macro = parts[0][:-1]
            parts = parts[1:]
        name = parts[-1]
        owner = parts[-2] if len(parts) >= 2 else None
        cands = []
        for f in self.fns:
            if f.name != name or f.mod is not None:
                continue
            if macro != f.macro:
                continue
            if owner is None:
                if f.impl is None and f.trait is None or macro is not None:
                    cands.append(f)
            elif f.impl == owner or (f.impl is None and f.trait == owner):
                cands.append(f)
        if not cands:
            raise NotFound("function %r not found" % path)
        if len(cands) > 1:
            # identical token text (e.g. one macro body instantiated twice) is not an ambiguity
            texts = {" ".join(t.s for t in self.toks[c.body[0]:c.body[1]]) for c in cands}
            if len(texts) > 1:
                raise NotFound("function %r is ambiguous (%d definitions with different bodies)" % (path, len(cands)))
        return cands[0]

    def snippet(self, rng):
        lo, hi = rng
        if lo >= hi:
            return ""
        return self.text[self.toks[lo].pos:self.toks[hi - 1].pos + len(self.toks[hi - 1].s)]

    KEYWORDS = {"if", "else", "return", "let", "in", "as", "for", "while", "match", "mut", "loop"}

    def pretty(self, rng):
        """the tokens of the range re-spaced canonically (comments and layout of the source do not matter)"""
        lo, hi = rng
        out, prev = [], None
        unary_ctx = True
        for t in self.toks[lo:hi]:
            s = t.s
            space = prev is not None
            if prev is not None:
                if s in (".", ",", ";", ")", "]", "?", "::", ":"):
                    space = False
                if prev.s in (".", "(", "[", "::", "!") or (prev.s in ("-", "&", "*", "!") and prev_unary):
                    space = False
                if s in ("(", "[") and ((prev.k == "id" and prev.s not in self.KEYWORDS) or prev.s in (")", "]", "!")):
                    space = False
                if s == "!" and prev.k == "id" and prev.s not in self.KEYWORDS:
                    space = False
            prev_unary = t.k == "p" and s in ("-", "&", "*", "!") and unary_ctx
            unary_ctx = (t.k == "p" and s not in (")", "]", "}")) or (t.k == "id" and s in self.KEYWORDS)
            out.append((" " if space else "") + s)
            prev = t
        return "".join(out)


# ======================================================================================= AST + parser
class N:
    """AST node: kind + fields."""

    def __init__(self, kind, **kw):
        self.kind = kind
        self.__dict__.update(kw)

    def __repr__(self):
        return "N(%s)" % ", ".join("%s=%r" % kv for kv in self.__dict__.items())


BINPREC = {"*": 12, "/": 12, "%": 12, "+": 11, "-": 11, "<<": 10, ">>": 10, "&": 9, "^": 8, "|": 7,
           "==": 6, "!=": 6, "<": 6, ">": 6, "<=": 6, ">=": 6, "&&": 5, "||": 4, "..": 3, "..=": 3}
AS_PREC = 13
ASSIGN_OPS = ("=", "+=", "-=", "*=", "/=", "%=", "^=", "&=", "|=", "<<=", ">>=")


class Parser:
    def __init__(self, src, lo, hi):
        self.T, self.mt, self.i, self.hi = src.toks, src.mt, lo, hi
        self.src = src

    def peek(self, k=0):
        j = self.i + k
        return self.T[j] if j < self.hi else Tok("eof", "", -1)

    def at(self, s):
        t = self.peek()
        return t.k in ("p", "id") and t.s == s

    def eat(self, s):
        if not self.at(s):
            t = self.peek()
            raise Unsupported("expected %r, found %r (offset %d)" % (s, t.s, t.pos))
        self.i += 1

    def sub(self, lo, hi):
        return Parser(self.src, lo, hi)

    # ---- blocks / statements
    def block_body(self):
        """statements up to self.hi -> N(block, stmts, tail)"""
        stmts, tail = [], None
        while self.i < self.hi:
            if self.at(";"):
                self.i += 1
                continue
            t = self.peek()
            if t.k == "id" and t.s == "let":
                stmts.append(self.let_stmt())
                continue
            if t.k == "id" and t.s in ("for", "while", "loop"):
                start = self.i
                while not self.at("{"):
                    self.i = self.mt[self.i] + 1 if self.peek().s in ("(", "[") else self.i + 1
                head = (start, self.i)
                end = self.mt[self.i]
                stmts.append(N("loop", head=self.src.snippet(head), rng=(start, end + 1)))
                self.i = end + 1
                continue
            if t.k == "id" and t.s == "return":
                self.i += 1
                e = None if (self.at(";") or self.i >= self.hi) else self.expr()
                if self.at(";"):
                    self.i += 1
                stmts.append(N("return", e=e))
                continue
            if t.k == "p" and t.s == "#" and self.peek(1).s == "[" and getattr(self.src, "allow_mut", False):
                close = self.mt[self.i + 1]
                feats = getattr(self.src, "cfg_features", None)
                if self.peek(2).s != "cfg" or self.peek(3).s != "(" or self.mt[self.i + 3] != close - 1:
                    raise Unsupported("attribute `#[%s ..]` inside a function body" % self.peek(2).s)
                if feats is None:
                    raise Unsupported("`#[cfg(..)]` inside a function body (option cfg_features)")
                on = self._cfg_eval(self.i + 4, close - 1, feats)
                self.i = close + 1
                if not self.at("{"):
                    raise Unsupported("`#[cfg(..)]` on something that is not a block")
                if not on:
                    self.i = self.mt[self.i] + 1            # not compiled in: skipped
                    continue
                blk = self.braced_block()                   # compiled in: must end the enclosing block; inlined
                if self.i < self.hi:
                    raise Unsupported("code after an enabled `#[cfg(..)]` block")
                stmts.extend(blk.stmts)
                tail = blk.tail
                continue
            if t.k == "id" and t.s == "unsafe" and self.peek(1).s == "{" and getattr(self.src, "allow_mut", False):
                self.i += 1                                   # `unsafe { x.set_len(n); }` (checked by the translator)
                stmts.append(N("unsafe", body=self.braced_block()))
                continue
            if t.k == "id" and t.s in ("match", "unsafe", "fn", "use", "const", "static", "struct", "impl") \
                    and not (t.s == "match" and getattr(self.src, "allow_mut", False)):
                raise Unsupported("`%s` inside a function body" % t.s)
            e = self.expr()
            if self.at(";"):
                self.i += 1
                stmts.append(N("exprstmt", e=e))
            elif self.i >= self.hi:
                tail = e
            elif e.kind in ("if", "block", "iflet"):
                stmts.append(N("exprstmt", e=e))     # block-like expression statement without ';'
            elif any(self.at(op) for op in ASSIGN_OPS):
                op = self.peek().s
                if not getattr(self.src, "allow_assign", False):      # set by the translator with the option `loops`
                    raise Unsupported("assignment `%s` (mutation is outside the subset)" % op)
                self.i += 1
                rhs = self.expr()
                if self.at(";"):
                    self.i += 1
                elif self.i < self.hi:
                    raise Unsupported("unexpected token %r after assignment" % self.peek().s)
                stmts.append(N("assign", target=e, op=op, e=rhs))
            else:
                t = self.peek()
                raise Unsupported("unexpected token %r after expression (offset %d)" % (t.s, t.pos))
        return N("block", stmts=stmts, tail=tail)

    def _cfg_eval(self, lo, hi, feats):
        """value of a cfg predicate (tokens lo..hi): `feature = "x"`, `not(p)`, `all(p, ..)`, `any(p, ..)`"""
        T = self.T
        if lo >= hi:
            raise Unsupported("empty cfg predicate")
        if T[lo].s == "feature" and hi - lo == 3 and T[lo + 1].s == "=" and T[lo + 2].k == "str":
            return T[lo + 2].s.strip('"') in feats
        if T[lo].s in ("not", "all", "any") and T[lo + 1].s == "(" and self.mt[lo + 1] == hi - 1:
            parts, start, i = [], lo + 2, lo + 2
            while i < hi - 1:
                if T[i].s in ("(", "[", "{"):
                    i = self.mt[i]
                elif T[i].s == ",":
                    parts.append((start, i))
                    start = i + 1
                i += 1
            if start < hi - 1:
                parts.append((start, hi - 1))
            vals = [self._cfg_eval(a, b, feats) for a, b in parts]
            if T[lo].s == "not":
                if len(vals) != 1:
                    raise Unsupported("cfg `not` arity")
                return not vals[0]
            return all(vals) if T[lo].s == "all" else any(vals)
        raise Unsupported("cfg predicate `%s`" % " ".join(t.s for t in T[lo:hi]))

    def let_stmt(self):
        self.eat("let")
        mut = False
        if self.at("mut"):
            mut = True
            self.i += 1
        if self.at("(") or (self.at("[") and getattr(self.src, "allow_mut", False)):
            close = self.mt[self.i]
            names = []
            p = self.sub(self.i + 1, close)
            muts = []
            while p.i < p.hi:
                m_ = False
                if p.at("mut"):
                    m_ = True
                    p.i += 1
                if p.peek().k != "id":
                    raise Unsupported("let pattern")
                muts.append(m_)
                names.append(p.peek().s)
                p.i += 1
                if p.i < p.hi:
                    p.eat(",")
            self.i = close + 1
            pat = names
            if any(muts):
                mut = muts
        elif self.peek().k == "id":
            pat = self.peek().s
            self.i += 1
        else:
            raise Unsupported("let pattern %r" % self.peek().s)
        ty = None
        if self.at(":"):
            self.i += 1
            start = self.i
            while not self.at("=") and not self.at(";"):
                self.i += 1
            ty = "".join(t.s for t in self.T[start:self.i])
        if not self.at("="):
            raise Unsupported("`let` without initializer")
        self.i += 1
        e = self.expr()
        self.eat(";")
        return N("let", pat=pat, ty=ty, e=e, mut=mut)

    def braced_block(self):
        if not self.at("{"):
            raise Unsupported("expected a block, found %r" % self.peek().s)
        close = self.mt[self.i]
        b = self.sub(self.i + 1, close).block_body()
        self.i = close + 1
        return b

    # ---- expressions
    def _range_end(self):
        """is the token after a `..` the end of the expression (an open range `lo..` / `..`)"""
        return self.i >= self.hi or (self.peek().k == "p" and self.peek().s in (",", ";", ")", "]", "}", "{"))

    def expr(self, minprec=0):
        if self.at("..") and getattr(self.src, "allow_mut", False) and minprec <= BINPREC[".."]:
            self.i += 1                                       # `..hi` / `..`
            hi = None if self._range_end() else self.expr(BINPREC[".."] + 1)
            return N("range", lo=None, hi=hi, incl=False)
        left = self.unary()
        while True:
            t = self.peek()
            if t.k == "id" and t.s == "as":
                if AS_PREC < minprec:
                    break
                self.i += 1
                start = self.i
                # a type: path with optional generics; we only accept simple scalar types
                while (self.peek().k == "id" and self.peek().s != "as") or self.at("::"):
                    self.i += 1
                left = N("cast", e=left, ty="".join(x.s for x in self.T[start:self.i]))
                continue
            if t.k != "p" or t.s not in BINPREC:
                break
            prec = BINPREC[t.s]
            if prec < minprec:
                break
            op = t.s
            self.i += 1
            if op == ".." and getattr(self.src, "allow_mut", False) and self._range_end():
                left = N("range", lo=left, hi=None, incl=False)    # `lo..`
                continue
            if op in ("..", "..="):
                right = self.expr(prec + 1)
                left = N("range", lo=left, hi=right, incl=(op == "..="))
                continue
            right = self.expr(prec + 1)
            if prec == 6 and self.peek().k == "p" and BINPREC.get(self.peek().s) == 6:
                raise Unsupported("chained comparison")
            left = N("bin", op=op, l=left, r=right)
        return left

    def unary(self):
        t = self.peek()
        if t.k == "p" and t.s in ("-", "!", "&", "*", "&&"):
            self.i += 1
            if t.s in ("&", "&&") and self.at("mut"):
                raise Unsupported("`&mut`")
            e = self.unary()
            if t.s == "&&":
                return N("un", op="&", e=N("un", op="&", e=e))
            return N("un", op=t.s, e=e)
        return self.postfix(self.primary())

    def args(self):
        """at '(' : parse comma separated expressions"""
        close = self.mt[self.i]
        p = self.sub(self.i + 1, close)
        out = []
        while p.i < p.hi:
            out.append(p.expr())
            if p.i < p.hi:
                p.eat(",")
        self.i = close + 1
        return out

    def postfix(self, e):
        while True:
            if self.at("."):
                nxt = self.peek(1)
                if nxt.k == "id":
                    name = nxt.s
                    self.i += 2
                    turbofish = None
                    if self.at("::"):
                        # `.sum::<f64>()`, `.collect::<Vec<_>>()`: the generic arguments are recorded as text
                        if self.peek(1).s != "<":
                            raise Unsupported("turbofish on method `%s`" % name)
                        self.i += 2
                        depth, start = 1, self.i
                        while depth > 0:
                            if self.i >= self.hi:
                                raise Unsupported("turbofish on method `%s`" % name)
                            t_ = self.peek().s
                            depth += (t_ == "<") - (t_ == ">") - 2 * (t_ == ">>")
                            self.i += 1
                        turbofish = "".join(x.s for x in self.T[start:self.i - 1])
                        if depth < 0 or not self.at("("):
                            raise Unsupported("turbofish on method `%s`" % name)
                    if self.at("("):
                        e = N("method", recv=e, name=name, args=self.args(), turbofish=turbofish)
                    else:
                        e = N("field", e=e, name=name)
                    continue
                if nxt.k == "num":
                    if not nxt.s.isdigit():
                        raise Unsupported("tuple field access `.%s`" % nxt.s)
                    self.i += 2
                    e = N("tfield", e=e, idx=int(nxt.s))
                    continue
                raise Unsupported("token after `.`: %r" % nxt.s)
            if self.at("["):
                close = self.mt[self.i]
                idx = self.sub(self.i + 1, close).expr()
                e = N("index", e=e, idx=idx, rng=(self.i + 1, close))
                self.i = close + 1
                continue
            if self.at("?"):
                raise Unsupported("`?` operator")
            return e

    def primary(self):
        t = self.peek()
        if t.k == "num":
            self.i += 1
            return N("lit", text=t.s)
        if t.k == "str":
            self.i += 1
            return N("str", text=t.s)
        if t.k == "p" and t.s == "(":
            close = self.mt[self.i]
            p = self.sub(self.i + 1, close)
            items, trailing = [], False
            while p.i < p.hi:
                items.append(p.expr())
                trailing = False
                if p.i < p.hi:
                    p.eat(",")
                    trailing = True
            self.i = close + 1
            if len(items) == 1 and not trailing:
                return N("paren", e=items[0])
            return N("tuple", items=items)
        if t.k == "p" and t.s == "[" and getattr(self.src, "allow_mut", False):
            close = self.mt[self.i]
            p = self.sub(self.i + 1, close)
            items = []
            while p.i < p.hi:
                items.append(p.expr())
                if p.i < p.hi:
                    p.eat(",")
            self.i = close + 1
            return N("array", items=items)
        if t.k == "p" and t.s == "{":
            return self.braced_block()
        if t.k == "p" and t.s in ("|", "||"):
            return self.closure()
        if t.k == "id" and t.s == "move" and self.peek(1).s in ("|", "||"):
            self.i += 1
            return self.closure()
        if t.k == "id" and t.s == "if":
            return self.if_expr()
        if t.k == "id" and t.s == "match" and getattr(self.src, "allow_mut", False):
            return self.match_expr()
        if t.k == "id" and t.s in ("match", "loop", "while", "for", "unsafe"):
            raise Unsupported("`%s` expression" % t.s)
        if t.k == "id":
            segs = [t.s]
            self.i += 1
            while self.at("::"):
                nxt = self.peek(1)
                if nxt.k != "id":
                    raise Unsupported("turbofish / generic path")
                segs.append(nxt.s)
                self.i += 2
            if self.at("!"):
                if self.peek(1).s not in ("(", "[", "{"):
                    raise Unsupported("macro shape")
                self.i += 1
                close = self.mt[self.i]
                rng = (self.i + 1, close)
                self.i = close + 1
                return N("macro", name=segs[-1], rng=rng)
            if self.at("("):
                return N("call", path=segs, args=self.args())
            if self.at("{") and getattr(self.src, "allow_mut", False) and not getattr(self, "no_struct", 0) \
                    and len(segs) == 1 and segs[0][:1].isupper():
                # struct literal `Name { a, b: e, }`
                close = self.mt[self.i]
                p = self.sub(self.i + 1, close)
                fields = []
                while p.i < p.hi:
                    if p.peek().k != "id" or p.at(".."):
                        raise Unsupported("struct literal field %r" % p.peek().s)
                    fname = p.peek().s
                    p.i += 1
                    if p.at(":"):
                        p.i += 1
                        fields.append((fname, p.expr()))
                    else:
                        fields.append((fname, N("var", name=fname)))
                    if p.i < p.hi:
                        p.eat(",")
                self.i = close + 1
                return N("structlit", name=segs[0], fields=fields)
            if len(segs) == 1:
                return N("var", name=segs[0])
            return N("path", segs=segs)
        raise Unsupported("unexpected token %r (offset %d)" % (t.s, t.pos))

    def match_expr(self):
        """`match scrutinee { Path => e, Path(x) => e, _ => e }` (patterns: enum paths with identifier arguments, `_`)"""
        self.eat("match")
        j = self.i
        while not (self.T[j].k == "p" and self.T[j].s == "{"):
            if self.T[j].s in ("(", "["):
                j = self.mt[j]
            j += 1
            if j >= self.hi:
                raise Unsupported("`match` shape")
        scrut = self.sub(self.i, j).expr()
        close = self.mt[j]
        p = self.sub(j + 1, close)
        arms = []
        while p.i < p.hi:
            if p.at("_"):
                pat, pargs = None, []
                p.i += 1
            else:
                if p.peek().k != "id":
                    raise Unsupported("`match` pattern %r" % p.peek().s)
                segs = [p.peek().s]
                p.i += 1
                while p.at("::"):
                    segs.append(p.peek(1).s)
                    p.i += 2
                pargs = []
                if p.at("("):
                    cl = p.mt[p.i]
                    q = p.sub(p.i + 1, cl)
                    while q.i < q.hi:
                        if q.peek().k != "id":
                            raise Unsupported("`match` pattern argument %r" % q.peek().s)
                        pargs.append(q.peek().s)
                        q.i += 1
                        if q.i < q.hi:
                            q.eat(",")
                    p.i = cl + 1
                pat = segs
            if p.at("if"):
                raise Unsupported("`match` guard")
            p.eat("=>")
            body = p.expr()
            if p.i < p.hi:
                if p.at(","):
                    p.i += 1
                elif body.kind not in ("block", "if", "match"):
                    raise Unsupported("`match` arm separator")
            arms.append((pat, pargs, body))
        self.i = close + 1
        return N("match", scrut=scrut, arms=arms)

    def if_expr(self):
        self.eat("if")
        if self.at("let") and getattr(self.src, "allow_mut", False):
            # `if let Some(x) = e { A } else { B }`
            self.i += 1
            if not (self.at("Some") and self.peek(1).s == "(" and self.peek(2).k == "id" and self.peek(3).s == ")"
                    and self.peek(4).s == "="):
                raise Unsupported("`if let` pattern (only `Some(x)`)")
            var = self.peek(2).s
            self.i += 5
            scrut = self.expr()
            then = self.braced_block()
            els = None
            if self.at("else"):
                self.i += 1
                if self.at("if"):
                    raise Unsupported("`if let .. else if`")
                els = self.braced_block()
            return N("iflet", var=var, scrut=scrut, then=then, els=els)
        if self.at("let"):
            raise Unsupported("`if let`")
        self.no_struct = getattr(self, "no_struct", 0) + 1      # no struct literal in a condition (as in Rust)
        try:
            c = self.expr()
        finally:
            self.no_struct -= 1
        then = self.braced_block()
        els = None
        if self.at("else"):
            self.i += 1
            if self.at("if"):
                inner = self.if_expr()
                els = N("block", stmts=[], tail=inner)
            else:
                els = self.braced_block()
        return N("if", c=c, then=then, els=els)

    def closure(self):
        params = []
        pats = []            # one entry per closure parameter: a name, or the list of names of a tuple pattern
        if self.at("||"):
            self.i += 1
        else:
            self.eat("|")
            while not self.at("|"):
                if self.at("&") and self.peek(1).s == "(":
                    self.i += 1
                if self.at("("):
                    close = self.mt[self.i]
                    p = self.sub(self.i + 1, close)
                    group = []
                    while p.i < p.hi:
                        while p.at("&") or p.at("mut"):
                            p.i += 1
                        params.append(p.peek().s)
                        group.append(p.peek().s if p.peek().k == "id" else None)
                        p.i += 1
                        if p.i < p.hi:
                            p.eat(",")
                    self.i = close + 1
                    pats.append(group)
                else:
                    while self.at("&") or self.at("mut"):
                        self.i += 1
                    if self.peek().k != "id":
                        raise Unsupported("closure parameter pattern")
                    params.append(self.peek().s)
                    pats.append(self.peek().s)
                    self.i += 1
                    if self.at(":"):
                        self.i += 1
                        while not self.at(",") and not self.at("|"):
                            self.i += 1
                if self.at(","):
                    self.i += 1
            self.eat("|")
        body = self.expr()
        return N("closure", params=params, pats=pats, body=body)


# ======================================================================================= options / dialect
LEAN_KEYWORDS = {"at", "from", "end", "fun", "in", "then", "else", "if", "do", "let", "have", "show", "by", "match",
                 "with", "where", "def", "theorem", "open", "section", "namespace", "variable", "instance", "class",
                 "structure", "Type", "Prop", "Sort", "import", "return", "for", "mut", "local", "deriving", "using",
                 "this", "nat", "λ"}

# default spellings of the f64 associated constants / `std::f64::consts` (class `Cv.F64Consts`, Model/F64Consts.lean): the FALLBACK
# when the caller gives none (`consts`), so that a source edit that introduces such a constant still regenerates (and the
# equivalence theorem fails) instead of leaving the subset
_F64C = {"EPSILON": "eps", "MAX": "maxv", "MIN": "minv", "MIN_POSITIVE": "minPositive", "INFINITY": "inf",
         "NEG_INFINITY": "negInf", "NAN": "nan"}
_F64M = {"PI": "pi", "TAU": "tau", "E": "e", "LN_2": "ln2", "LN_10": "ln10", "LOG2_E": "log2e", "LOG10_E": "log10e",
         "SQRT_2": "sqrt2", "FRAC_1_SQRT_2": "frac1Sqrt2", "FRAC_PI_2": "fracPi2", "FRAC_PI_3": "fracPi3", "FRAC_PI_4": "fracPi4",
         "FRAC_PI_6": "fracPi6", "FRAC_PI_8": "fracPi8", "FRAC_1_PI": "frac1Pi", "FRAC_2_PI": "frac2Pi",
         "FRAC_2_SQRT_PI": "frac2SqrtPi"}
DEFAULT_CONSTS = {}
for _k, _v in _F64C.items():
    for _pre in ("f64::", "std::f64::", "core::f64::"):
        DEFAULT_CONSTS[_pre + _k] = "Cv.F64Consts." + _v
for _k, _v in _F64M.items():
    for _pre in ("", "consts::", "f64::consts::", "std::f64::consts::", "core::f64::consts::"):
        DEFAULT_CONSTS[_pre + _k] = "Cv.F64Consts." + _v

DEFAULT_METHODS = {          # receiver-first spelling;  {0} receiver, {1}.. arguments
    "exp": "Cv.Transc.exp {0}", "ln": "Cv.Transc.ln {0}", "sqrt": "Cv.Transc.sqrt {0}", "abs": "Cv.Transc.abs {0}",
    "sin": "Cv.Transc.sin {0}", "cos": "Cv.Transc.cos {0}", "tan": "Cv.Transc.tan {0}",
    "floor": "Cv.Transc.floor {0}", "ceil": "Cv.Transc.ceil {0}",
    "powf": "Cv.Transc.pow {0} {1}",
    "recip": "((1 : α) / {0})",
    # no default: ln_1p, exp_m1, max, min  (their Float spelling is model specific: Cv.log1pF, Cv.fmax, ...)
}


class Opts:
    def __init__(self, name=None, **kw):
        self.name = name
        self.extra_binders = []       # [(lean name, lean type)] put first, e.g. ("F", "Cv.Dist.Fns α")
        self.binders = None           # explicit order: list of rust names ("self.mu" or "mu", "x"); None = fields then params
        self.self_fields = None       # which struct fields become binders (None = all f64/integer fields, in struct order)
        self.self_struct = None       # (lean var, lean type, {rust field: lean projection}) : `self` is ONE structure binder
        self.rename = {}              # rust identifier -> lean identifier
        self.consts = {}              # "PI" / "std::f64::consts::PI" / "f64::NAN" -> lean term
        self.fns = {}                 # rust fn name -> lean function term
        self.self_calls = {}          # method name on self -> lean function applied to the self binders
        self.methods = {}             # overrides / additions to DEFAULT_METHODS
        self.named_lits = {}          # literal text as in the source -> lean term
        self.int_arith = False
        self.wrapping_casts = False   # `k as u64` of an i64 is emitted as `(k % 2^64).toNat` (two's complement wrap)
        self.moment = None            # (fin, inf, nan) constructor spellings, e.g. (".fin", ".inf", ".nan")
        self.ret_type = None          # override the Lean return type
        self.loops_as_params = []     # names of `let mut` accumulators of skipped loops
        self.branch = None            # "then" | "else": translate only that block of the top-level `if`
        self.closure = None           # fragment selection, see Translator._closure_def
        self.vectors = False          # allow `&[f64]` / `Vector` values (element-wise kernels of Model/Vops.lean)
        self.loops = False            # the simple loop / iterator-chain subset (see "Loops and iterator chains" below)
        self.iter_sum = "Cv.iterSum"  # spelling of `Iterator::sum::<f64>()` (left fold from -0.0)
        self.fn_ret = {}              # rust fn name -> return type of a called function, e.g. ("tup", ("nat","f64","f64"))
        self.opt_fns = ()             # called functions whose Lean spelling returns `Option` (the Rust function can panic)
        self.fn_params = {}           # generic closure parameters `f: F` -> Lean type of the binder, e.g. {"f": "α → α"}
        # ---- third pass (option `mut`): in-place mutation / nested loops / decision trees, see the module docstring
        self.mut = False              # implies `loops`
        self.index_read = None        # spelling of a read `v[i]` of an f64 vector, e.g. "Cv.LA.rd {0} {1}"; None: `v[i]!`
        self.swap_fn = "Cv.LA.swapIdx"   # spelling of `v.swap(a, b)`: `let v := <swap_fn> v a b`
        self.uninit = "(List.replicate {0} 0)"   # contents of `Vec::with_capacity(n)` + `set_len(n)` (uninitialised memory)
        self.bool_methods = {}        # f64 methods returning bool, e.g. {"is_nan": "Cv.LA.isNan {0} = true"}
        self.adts = {}                # Rust enum type name -> Lean type, e.g. {"Broadcast": "Cv.Bc"}
        self.adt_ctors = {}           # "Broadcast::Vstack" -> Lean constructor term (applied to the translated arguments)
        self.struct_types = {}        # struct type of a parameter -> [(field, type)]: binders `<param>_<field>`
        self.struct_methods = {}      # method on such a parameter -> list of fields: `m.shape()` = the tuple of these fields
        self.redraw = None            # (implies `mut`) the whole body `let mut v = D; while c(v) { v = D; } tail(v)` with `D` a draw of an abstract
                                      # generator: dict(draws=[source texts of D], state="Cv.Rng"); see Translator._redraw_def
        self.default_consts = True    # `f64::EPSILON`, `consts::PI`, … without a spelling in `consts`: `Cv.F64Consts.*` (Model/F64Consts.lean)
        self.auto_lits = True         # an inexact decimal literal without a name in `named_lits`: `Cv.LitBits.ofBits 0x…` (its f64 bits)
        self.inline_helpers = True    # (mut) a call `Self::h(args)` / `h(args)` of a PRIVATE function of the same file that is not in `fns`
                                      # is inlined when its body is straight-line: `assert!` / `if c { panic!() }` / immutable `let`s, then
                                      # an optional value (the asserts become guards of the calling statement)
        self.mut_self_value = False   # (mut) accept `&mut self` like `&self` for a method whose effect is spelled by its VALUE (e.g. `fit`
                                      # ending in `self.update(&coeffs)` with `self_methods={"update": ("{0}", "vec", False)}`: the new field)
        self.self_methods = {}        # (mut) `self.m(args)` with arguments -> (lean fn, return type, can_panic): applied to the self
                                      # binders, then the arguments
        self.state_fn = False         # (implies `mut`) a `&mut self` method as a state transformer `S → args → S × Bool` (new state, panicked):
                                      # the convention of Model/DistState.lean; see Translator._state_def
        self.state_calls = {}         # method on `self` (setter) -> Lean state transformer, e.g. {"set_alpha": "Beta_setAlpha"}
        self.f64_to_i64 = None        # spelling of `x as i64` of an f64
        self.normalize = True         # (option `mut`) normal form that absorbs harmless tidying: immutable `let`s of pure integer
                                      # expressions and of slices are inlined (a slice of a slice is index arithmetic on the base),
                                      # `usize` sums are left-associated, a loop that only pushes / extends is `++ map` / `++ flatMap`
        self.type_alias = {}          # Rust type text -> Rust type text, e.g. {"Self::Output": "f64"} (associated types)
        self.field_calls = {}         # `self.<field>.<method>()` -> (lean term, type): e.g. {"rng.sample": ("u", "f64")} (an RNG
                                      # draw of a cached sub-sampler as a parameter); also "Type::ctor.method" for `T::f(..).m()`
        self.cfg_features = None      # the cargo features the crate is built with (tuple of names): `#[cfg(feature = ..)] { .. }`
                                      # blocks that are not compiled in are skipped, the enabled one is inlined; None: Unsupported
        self.f64_to_usize = None      # spelling of `x as usize` of an f64 (saturating cast), e.g. "toUsize {0}"
        self.struct_mk = {}           # struct type -> Lean constructor: a `let mut m = <struct value>` is exploded into its
                                      # fields (`m.data[i] = e` mutates the field), the value `m` is rebuilt with it
        self.doc = None
        self.__dict__.update(kw)
        if self.state_fn or self.redraw:
            self.mut = True
        if self.mut:
            self.loops = True


# ======================================================================================= literals
def parse_float_literal(text):
    """-> (Fraction value of the decimal text, is_float_syntax, suffix)"""
    s = text.replace("_", "")
    suffix = None
    for suf in FLOAT_SUFFIXES + INT_SUFFIXES:
        if s.endswith(suf):
            suffix = suf
            s = s[:-len(suf)]
            break
    if s.startswith(("0x", "0o", "0b")):
        return Fraction(int(s, 0)), False, suffix
    is_float = ("." in s) or ("e" in s.lower()) or suffix in FLOAT_SUFFIXES
    if s.endswith("."):
        s += "0"
    return Fraction(s), is_float, suffix


def lit_to_lean(text, named, auto=False):
    """exact spelling of an f64 literal (see module docstring)"""
    if text in named:
        return named[text]
    q, _isf, _suf = parse_float_literal(text)
    if Fraction(float(q)) != q and auto:
        # an inexact decimal literal without a name: the f64 it is rounded to, by its bit pattern (class `Cv.LitBits`)
        import struct
        return "(Cv.LitBits.ofBits 0x%016X : α)" % struct.unpack("<Q", struct.pack("<d", float(q)))[0]
    if Fraction(float(q)) != q:
        raise Unsupported("float literal %s is not exactly representable: name it with `named_lits`" % text)
    if q < 0:
        raise Unsupported("negative literal token")   # cannot happen: '-' is a separate token
    if q.denominator == 1:
        n = q.numerator
        if n == 0:
            return "0"
        if n == 1:
            return "1"
        if n >= 2 ** 53:
            raise Unsupported("integer-valued literal %s beyond 2^53" % text)
        return "((%d : Nat) : α)" % n
    d = q.denominator
    if d & (d - 1):
        raise Unsupported("literal %s" % text)
    if q.numerator >= 2 ** 53 or d > 2 ** 60:
        raise Unsupported("dyadic literal %s too fine: name it with `named_lits`" % text)
    num = "(1 : α)" if q.numerator == 1 else "((%d : Nat) : α)" % q.numerator
    return "(%s / ((%d : Nat) : α))" % (num, d)


# ======================================================================================= translator
F, I, U, B, V = "f64", "int", "nat", "bool", "vec"
VAR = "var"        # a tape variable `reverse::Var` (third pass, fragments only): its VALUE, with the crate's operator overloads
INTLIT = "intlit"


def rust_ty(ty):
    ty = ty.replace("&", "").replace("mut", "").strip()
    if ty.startswith("'"):
        ty = re.sub(r"^'\w+", "", ty)
    if ty in ("f64", "Self::PDFType", "Self::MeanType", "Self::VarianceType"):
        return F
    if ty in ("i64", "i32", "isize", "i16", "i8"):
        return I
    if ty in ("u64", "usize", "u32", "u16", "u8"):
        return U
    if ty == "bool":
        return B
    if ty in ("[f64]", "Vector", "Vec<f64>"):
        return V
    return None


LEAN_TY = {F: "α", I: "Int", U: "Nat", B: "Bool", V: "List α", VAR: "α"}


# ---- types of the loop / iterator subset (option `loops`): scalars as above, and
#   ("tup", (t1, .., tn))  Rust tuple            -> Lean `t1 × .. × tn` (right-nested pairs)
#   ("list", t)            slice / Vec / iterator-> `List t`          (V is the same as ("list", F))
#   ("range", lo)          `lo..hi` of usize     -> `List Nat`        (remembers the Lean text of its lower bound)
#   ("enum", t)            item of `.enumerate()`-> `t × Nat`         (`List.zipIdx`: the INDEX IS THE SECOND component)
#   ("win", 2)             item of `.windows(2)` -> `α × α`           (`w[0]` = `.1`, `w[1]` = `.2`)
def is_tup(t):
    return isinstance(t, tuple) and t[0] == "tup"


def is_list(t):
    return t == V or (isinstance(t, tuple) and t[0] in ("list", "range"))


def elem_ty(t):
    if t == V:
        return F
    if t[0] == "range":
        return U
    return t[1]


def mk_list(t):
    return V if t == F else ("list", t)


def norm_list(t):
    return mk_list(elem_ty(t))


def _tyatom(t):
    s = lean_ty(t)
    return s if re.fullmatch(r"[\w.α]+", s) else "(" + s + ")"


def lean_ty(t):
    if isinstance(t, str):
        if t not in LEAN_TY:
            raise Unsupported("value of type %s has no Lean type here" % t)
        return LEAN_TY[t]
    k = t[0]
    if k == "tup":
        return " × ".join(_tyatom(x) for x in t[1])
    if k == "list":
        return "List " + _tyatom(t[1])
    if k == "range":
        return "List Nat"
    if k == "enum":
        return "%s × Nat" % _tyatom(t[1])
    if k == "win":
        return "α × α"
    if k == "opt":
        return "Option " + _tyatom(t[1])
    if k == "adt":
        return t[2]
    raise Unsupported("type %r" % (t,))


def rust_ty2(s, adts=None):
    """Rust type text (tokens joined without spaces) -> type of the loop subset, or None
    (`adts`: None, or — third pass, option `mut` — the enum type names of the option `adts`; only then `Option<T>` and
    `[T; k]` are types of the subset)"""
    s = re.sub(r"&('\w+)?", "", s.strip())
    if s.startswith("mut"):
        s = s[3:]
    if s.startswith("(") and s.endswith(")"):
        parts, depth, cur = [], 0, ""
        for ch in s[1:-1]:
            if ch in "(<[":
                depth += 1
            elif ch in ")>]":
                depth -= 1
            if ch == "," and depth == 0:
                parts.append(cur)
                cur = ""
            else:
                cur += ch
        if cur:
            parts.append(cur)
        tys = tuple(rust_ty2(x, adts) for x in parts)
        if None in tys or not tys:
            return None
        return tys[0] if len(tys) == 1 else ("tup", tys)
    m = re.fullmatch(r"Option<(.*)>", s) if adts is not None else None
    if m:
        inner = rust_ty2(m.group(1), adts)
        return None if inner is None else ("opt", inner)
    m = re.fullmatch(r"\[(.*);(\d+)\]", s) if adts is not None else None
    if m:                                       # a fixed-size array `[T; k]` is a k-tuple
        inner = rust_ty2(m.group(1), adts)
        k = int(m.group(2))
        return None if inner is None or k < 1 else (inner if k == 1 else ("tup", (inner,) * k))
    if adts and s in adts:
        return ("adt", s, adts[s])
    m = re.fullmatch(r"Vec<(.*)>|\[(.*)\]", s)
    if m:
        inner = rust_ty2(m.group(1) or m.group(2), adts)
        return None if inner is None else mk_list(inner)
    if s == "Vector":
        return V
    return rust_ty(s)


def compat(a, b):
    """may a value of (inferred) type a be used where type b is expected"""
    if a == b:
        return True
    if a == INTLIT:
        return b in (I, U)
    if is_list(a) and is_list(b):
        return compat(elem_ty(a), elem_ty(b))
    if is_tup(a) and is_tup(b) and len(a[1]) == len(b[1]):
        return all(compat(x, y) for x, y in zip(a[1], b[1]))
    if isinstance(a, tuple) and isinstance(b, tuple) and a[0] == "opt" and b[0] == "opt":
        return a[1] is None or b[1] is None or compat(a[1], b[1])      # `None` literal: ("opt", None)
    return False


def deflt(t):
    """untyped integer literals inside tuples / fold seeds are `usize`"""
    if t == INTLIT:
        return U
    if is_tup(t):
        return ("tup", tuple(deflt(x) for x in t[1]))
    return t

# `Vector` / `&[f64]` values (option `vectors=True` only): the operator overloads and helpers of src/linalg are spelled
# with the shared element-wise kernels of Model/Vops.lean, exactly as the hand models spell them.
VEC_BIN = {(F, V): "(Cv.Vops.sv (· {op} ·) {l} {r})", (V, F): "(Cv.Vops.vs (· {op} ·) {l} {r})",
           (V, V): "(Cv.Vops.vbinGo (· {op} ·) {l} {r})"}
VEC_FNS = {"vmul": "*", "vadd": "+", "vsub": "-", "vdiv": "/"}


class Translator:
    def __init__(self, src, fn, opts):
        self.src, self.fn, self.o = src, fn, opts
        self.uses = set()
        self.option_mode = False
        self.pre_stack = []           # hoisted panic sources of the statement being translated (option `loops`)
        self.in_closure = 0           # > 0 inside a closure / loop body: nothing can be hoisted out of it
        self.need_option = False
        self.fresh_n = 0
        self.decl_order = []          # `let mut` names in declaration order (order of the loop-state tuple)
        self.mloop = 0                # > 0 inside the body of a loop with an early `return None` (a `List.foldlM` in `Option`)
        self.ploop = 0                # > 0 inside the body of a loop that can panic (a `List.foldlM` in the panic `Option`)

    def ty2(self, s):
        return rust_ty2(s, self.o.adts if self.o.mut else None)

    # ---- names
    def lname(self, rust):
        n = self.o.rename.get(rust, rust).replace(".", "_")
        if n in LEAN_KEYWORDS:
            n = n + "_"
        return n

    # ---- entry
    def run(self):
        self.src.allow_assign = bool(self.o.loops)
        self.src.allow_mut = bool(self.o.mut)
        self.src.cfg_features = self.o.cfg_features if self.o.mut else None
        try:
            out = self._run(False)
            if self.need_option and not self.started_option:
                # a panic source (checked `usize` subtraction, call of a panicking function) was met in a function
                # without assert!/panic!: translate again with `Option` as the result type
                self.fresh_n, self.decl_order, self.need_option = 0, [], False
                out = self._run(True)
            return out
        finally:
            self.src.allow_assign = False
            self.src.allow_mut = False
            self.src.cfg_features = None

    def _run(self, force_option):
        o, fn, src = self.o, self.fn, self.src
        if o.closure is not None:      # a closure of an iterator pipeline: the rest of the body is not parsed
            self.started_option = True
            return self._closure_def()
        if o.state_fn:
            self.started_option = True
            return self._state_def()
        if o.redraw:
            self.started_option = True
            return self._redraw_def()
        body = Parser(src, *fn.body).block_body()
        params = self._params()
        env = {}
        binders = []          # [(lean name, lean type)]
        has_self = any(p[0] == "self" for p in params)
        self.self_args = []
        if has_self:
            if o.self_struct:
                v, ty, proj = o.self_struct
                binders.append((v, ty))
                self.self_args.append(v)
                struct = dict(src.structs.get(fn.impl, []))
                for f, lp in proj.items():
                    if f not in struct:
                        raise NotFound("struct %s has no field %s" % (fn.impl, f))
                    env["self." + f] = ("%s.%s" % (v, lp), rust_ty(struct[f]))
            else:
                if fn.impl not in src.structs:
                    raise NotFound("struct %s not found (needed for self.field)" % fn.impl)
                for f, ty in src.structs[fn.impl]:
                    if o.self_fields is not None and f not in o.self_fields:
                        continue
                    rt = self.ty2(ty) if o.loops else rust_ty(ty)
                    if rt is None or (rt == V and not (o.vectors or o.loops)):
                        if o.self_fields is not None:
                            raise Unsupported("field %s: type %s" % (f, ty))
                        continue      # helper fields (samplers, rngs) are not scalars: not binders
                    env["self." + f] = (self.lname(f), rt)
                    binders.append((self.lname(f), lean_ty(rt)))
                    self.self_args.append(self.lname(f))
        for name, ty in params:
            if name == "self":
                continue
            if name in o.fn_params:                 # a closure parameter `f: F where F: Fn(f64) -> f64`
                binders.append((self.lname(name), o.fn_params[name]))
                o.fns.setdefault(name, self.lname(name))
                continue
            rt = self.ty2(self._macro_ty(ty)) if o.loops else rust_ty(self._macro_ty(ty))
            sname = re.sub(r"&('\w+)?", "", ty)
            if rt is None and o.mut and sname in o.struct_types:
                # a struct parameter `m: &Matrix`: one binder per listed field, `m.field` / `m.method()` are spelled with them
                comps = []
                for f, fty in o.struct_types[sname]:
                    ln = self.lname("%s_%s" % (name, f))
                    env["%s.%s" % (name, f)] = (ln, fty)
                    binders.append((ln, lean_ty(fty)))
                    comps.append(ln)
                for mname, fields in o.struct_methods.get(sname, {}).items():
                    fl = dict(o.struct_types[sname])
                    env["%s.%s" % (name, mname)] = ("(%s)" % ", ".join(env["%s.%s" % (name, f)][0] for f in fields),
                                                   ("tup", tuple(fl[f] for f in fields)))
                env[name] = (" ".join(comps), ("struct", sname))
                continue
            if rt is None or (rt == V and not (o.vectors or o.loops)):
                raise Unsupported("parameter %s: type %s" % (name, ty))
            env[name] = (self.lname(name), rt)
            binders.append((self.lname(name), lean_ty(rt)))
        # ---- fragment selection
        if o.branch:
            if body.stmts or body.tail is None or body.tail.kind != "if":
                raise Unsupported("`branch` needs a body that is a single if/else")
            blk = body.tail.then if o.branch == "then" else body.tail.els
            if blk is None:
                raise Unsupported("no else branch")
            body = blk
        for x in o.loops_as_params:
            env[x] = (self.lname(x), F)
            binders.append((self.lname(x), "α"))
        if o.binders is not None:
            bd = dict(binders)
            order = []
            for b in o.binders:
                key = self.lname(b[5:] if b.startswith("self.") else b)
                if key not in bd:
                    raise NotFound("binder %s" % b)
                order.append((key, bd.pop(key)))
            if bd:
                raise Unsupported("binders not listed: %s" % ", ".join(bd))
            binders = order
        self.option_mode = self._can_panic(body) or force_option
        self.started_option = self.option_mode
        ret = self._ret_type()
        self.ret_ty = F
        if o.loops:
            names = [t.s for t in self.src.toks[fn.ret[0]:fn.ret[1]]]
            rtxt = "".join(names[1:]).split("where")[0] if names and names[0] == "->" else ""
            m_ = re.fullmatch(r"Result<(.*),String>", rtxt)
            self.result_ret = bool(m_)
            if m_:                                          # `Ok(e)` = `some e`, `Err(..)` = `none`
                rtxt = m_.group(1)
                self.option_mode = self.started_option = True
            if o.mut and rtxt == "Self" and fn.impl:
                rtxt = fn.impl
            if o.mut:
                rtxt = o.type_alias.get(rtxt, rtxt)
            self.ret_ty = self.ty2(rtxt) if rtxt else None
            if self.ret_ty is None:
                raise Unsupported("return type %s" % self.src.snippet(fn.ret))
        elif ret != F and not o.closure:
            raise Unsupported("return type %s" % self.src.snippet(fn.ret))
        lean_body = self.tail_block(body, env, 1)
        if o.ret_type:
            rty = o.ret_type
        elif o.moment:
            rty = o.moment[3] if len(o.moment) > 3 else "Moment α"
        else:
            rty = lean_ty(self.ret_ty)
        if self.option_mode:
            rty = "Option (%s)" % rty if " " in rty else "Option %s" % rty
        return self._emit_def(binders, rty, lean_body)

    # ---- the redraw loop `let mut v = D; while c(v) { v = D; }` (option `redraw`, fragment kind `after_while`)
    def _while_parts(self, node):
        """a `while cond { body }` loop node -> (condition AST, body block)"""
        T, mt = self.src.toks, self.src.mt
        lo, hi = node.rng
        if T[lo].s != "while":
            raise Unsupported("loop `%s` (expected `while`)" % node.head)
        body_open = mt[hi - 1]
        p = Parser(self.src, lo + 1, body_open)
        p.no_struct = 1
        c = p.expr()
        if p.i != body_open:
            raise Unsupported("`while` condition shape")
        return c, Parser(self.src, body_open + 1, hi - 1).block_body()

    def _redraw_shape(self, stmts):
        """`let mut v = D; while c(v) { v = D; }` at the head of `stmts` -> (v, D text, condition AST)"""
        if len(stmts) < 2 or stmts[0].kind != "let" or not stmts[0].mut or not isinstance(stmts[0].pat, str) \
                or stmts[1].kind != "loop":
            raise Unsupported("body is not `let mut v = D; while c(v) { v = D; } ..`")
        v = stmts[0].pat
        T = self.src.toks
        # the source text of the initializer: tokens between `=` and `;` of the `let`
        def text_of(e):
            return " ".join(self._ast_text(e).split())
        d0 = text_of(stmts[0].e)
        c, body = self._while_parts(stmts[1])
        bs = self._stmt_block(body)
        if len(bs) != 1 or bs[0].kind != "assign" or bs[0].op != "=" or bs[0].target.kind != "var" or bs[0].target.name != v \
                or text_of(bs[0].e) != d0:
            raise Unsupported("`while` body is not the re-assignment `%s = <the same draw>;`" % v)
        if self._ast_vars(c, set()) - {v} and any(x != v and not x[0].isupper() for x in self._ast_vars(c, set())):
            raise Unsupported("`while` condition mentions other variables than `%s`" % v)
        return v, d0, c

    def _ast_text(self, e):
        k = e.kind
        if k == "var":
            return e.name
        if k == "path":
            return "::".join(e.segs)
        if k == "lit":
            return e.text
        if k == "field":
            return self._ast_text(e.e) + "." + e.name
        if k == "method":
            return "%s.%s(%s)" % (self._ast_text(e.recv), e.name, ",".join(self._ast_text(a) for a in e.args))
        if k == "call":
            return "%s(%s)" % ("::".join(e.path), ",".join(self._ast_text(a) for a in e.args))
        if k == "paren":
            return "(" + self._ast_text(e.e) + ")"
        if k == "un":
            return e.op + self._ast_text(e.e)
        if k == "bin":
            return "%s %s %s" % (self._ast_text(e.l), e.op, self._ast_text(e.r))
        raise Unsupported("draw expression of kind %s" % k)

    def _redraw_def(self):
        """A sampler body `let mut v = D; while c(v) { v = D; } tail(v)` where `D` is a draw of an abstract generator (one of the source
        texts listed in `redraw["draws"]`):
            def f (draw : σ → α × σ) (fuel : Nat) (params) (g : σ) : Option (α × σ) :=
              (Cv.SrcDraw.redrawWhile (fun v => c v) draw fuel g).map fun r => (let v := r.1; tail v, r.2)
        `σ` is `redraw["state"]`; the loop is fuel-bounded (`none` = `fuel` draws all satisfied `c`), as the models' rejection loops."""
        o, fn, src = self.o, self.fn, self.src
        blo, bhi = fn.body
        if o.redraw.get("while_index") is not None:
            # the BLOCK that contains the n-th `while` of the body (e.g. the `then` block of an `if`) instead of the whole body
            T, mt = src.toks, src.mt
            hits = [i for i in range(blo, bhi - 1) if T[i].k == "id" and T[i].s == "while"]
            n_ = o.redraw["while_index"]
            if n_ >= len(hits):
                raise NotFound("`while` #%d (found %d)" % (n_, len(hits)))
            k_ = hits[n_] - 1
            while k_ >= blo and not (T[k_].k == "p" and T[k_].s == "{"):
                k_ = mt[k_] - 1 if T[k_].s in (")", "]", "}") else k_ - 1
            if k_ >= blo:
                blo, bhi = k_ + 1, mt[k_]
        body = Parser(src, blo, bhi).block_body()
        if body.tail is None or len(body.stmts) != 2:
            raise Unsupported("body is not `let mut v = D; while c(v) { v = D; } tail`")
        v, d0, c = self._redraw_shape(body.stmts)
        draws = [" ".join(x.split()) for x in o.redraw.get("draws", [])]
        if d0 not in draws:
            raise Unsupported("the redrawn expression `%s` is not a listed generator draw" % d0)
        st = o.redraw.get("state", "σ")
        env, binders = {}, []
        if fn.impl in src.structs:
            for f, ty in src.structs[fn.impl]:
                if o.self_fields is not None and f not in o.self_fields:
                    continue
                rt = self.ty2(ty)
                if rt is None:
                    continue
                env["self." + f] = (self.lname(f), rt)
                binders.append((self.lname(f), lean_ty(rt)))
        self.self_args = [b[0] for b in binders]
        vn = self.lname(v)
        cenv = dict(env)
        cenv[v] = (vn, F)
        self._declare(v, cenv, False)
        self.option_mode = False
        self.ret_ty = F
        self.in_closure += 1
        try:
            ctext = self.cond(c, cenv)
            tail, tty = self.expr(body.tail, cenv)
            if tty != F and not (is_tup(tty) and all(t == F for t in tty[1])):
                raise Unsupported("value after the redraw loop of type %s" % (tty,))
        finally:
            self.in_closure -= 1
        rty = _tyatom(tty)
        lean_body = ("  (Cv.SrcDraw.redrawWhile (fun (%s : α) => decide (%s)) draw fuel g).map fun (r : α × %s) =>\n"
                     "    (let %s : α := r.1\n     %s, r.2)") % (vn, ctext, st, vn, tail)
        allb = [("draw", "%s → α × %s" % (st, st)), ("fuel", "Nat")] + binders + [("g", st)]
        return self._emit_def(allb, "Option (%s × %s)" % (rty, st), lean_body)

    # ---- `&mut self` methods as state transformers (option `state_fn`)
    def _state_def(self):
        """A method `fn m(&mut self, args) [-> &mut Self]` of a struct listed in `struct_types` / `adts` as
        `def m (d : S) (args) : S × Bool` — the new state and whether the call panicked; a panic keeps the assignments made
        before it (no roll-back), exactly the convention of Model/DistState.lean.  The body is a sequence of
          `if c { panic!(..) }` / `assert!(c)`           -> `if c then (d, true) else ..` / `if c then .. else (d, true)`
          `self.f = e;`                                   -> `let d := { d with f := e }`   (a panicking constructor in `e`: `match`)
          `self.set_a(x).set_b(y);` / `self.set_a(x);`    -> the listed state transformers (`state_calls`), left to right, stopping at
                                                             the first that panics
          `*self = Self::new(x, y);`                      -> `match new x y with | some d' => .. d' .. | none => (d, true)`
          `self` / nothing                                -> `(d, false)`
        A read `params[k]` of a slice parameter is `match ps[k]? with | none => (d, true) | some a => ..`, evaluated where the
        source evaluates it (argument by argument, call by call)."""
        o, fn, src = self.o, self.fn, self.src
        name = fn.impl
        if name not in o.adts or name not in o.struct_types:
            raise Unsupported("state transformer of `%s` (options adts / struct_types)" % name)
        T, mt = src.toks, src.mt
        lo, hi = fn.params
        segs, i = [], lo
        while i < hi:
            j, depth = i, 0
            while j < hi and not (T[j].s == "," and depth == 0):
                if T[j].s in ("(", "[", "{"):
                    j = mt[j]
                elif T[j].s == "<":
                    depth += 1
                elif T[j].s == ">":
                    depth -= 1
                j += 1
            segs.append([t.s for t in T[i:j]])
            i = j + 1
        if not segs or segs[0] != ["&", "mut", "self"]:
            raise Unsupported("state transformer: the first parameter is not `&mut self`")
        env, binders = {}, [("d", o.adts[name])]
        TY = {"nat": U, "int": I, "f64": F, "vec": V, "bool": B}
        for f, fty in o.struct_types[name]:
            env["self." + f] = ("d.%s" % f, TY.get(fty, fty))
        self.slices = set()
        for seg in segs[1:]:
            if ":" not in seg or seg.index(":") != 1:
                raise Unsupported("parameter pattern %s" % " ".join(seg))
            pn, pty = seg[0], self.ty2("".join(seg[2:]))
            if pty is None:
                raise Unsupported("parameter %s: type %s" % (pn, "".join(seg[2:])))
            env[pn] = (self.lname(pn), pty)
            self._declare(pn, env, False)
            binders.append((self.lname(pn), lean_ty(pty)))
            if pty == V:
                self.slices.add(pn)
        self.self_args = []
        self.option_mode = False
        self.ret_ty = ("adt", name, o.adts[name])
        body = Parser(src, *fn.body).block_body()
        sts = list(body.stmts)
        if body.tail is not None:
            sts.append(N("exprstmt", e=body.tail))
        text = self._state_stmts(sts, 0, env, 1)
        return self._emit_def(binders, "%s × Bool" % self.atom(o.adts[name]) if " " in o.adts[name] else o.adts[name] + " × Bool", text)

    PANICKED = "(d, true)"

    def _st_reads(self, node, env, reads):
        """replace the reads `ps[k]` of a slice parameter by fresh variables (in evaluation order)"""
        if isinstance(node, list):
            return [self._st_reads(x, env, reads) for x in node]
        if not isinstance(node, N):
            return node
        if node.kind == "index" and node.e.kind == "var" and node.e.name in self.slices and node.idx.kind == "lit":
            v = self.fresh("a")
            reads.append((v, env[node.e.name][0], node.idx.text))
            env[v] = (v, F)
            return N("var", name=v)
        new = N(node.kind)
        for k_, v_ in node.__dict__.items():
            new.__dict__[k_] = self._st_reads(v_, env, reads) if isinstance(v_, (N, list)) and k_ != "parsed" else v_
        return new

    def _st_wrap(self, reads, pre, inner, d):
        """`match ps[k]? with ..` for the slice reads, then guards / constructor binds, around `inner` (text at depth d)"""
        for item in reversed(pre):
            if item[0] == "guard":
                inner = "%sif %s then\n%s\n%selse %s" % (self.ind(d), item[1], self._indent_more(inner), self.ind(d), self.PANICKED)
            elif item[0] == "panic_if":
                inner = "%sif %s then %s\n%selse\n%s" % (self.ind(d), item[1], self.PANICKED, self.ind(d), self._indent_more(inner))
            else:
                inner = "%smatch %s with\n%s| none => %s\n%s| some %s =>\n%s" % (
                    self.ind(d), item[2], self.ind(d), self.PANICKED, self.ind(d), item[1], self._indent_more(inner))
        for v, ps, k in reversed(reads):
            inner = "%smatch %s[%s]? with\n%s| none => %s\n%s| some %s =>\n%s" % (
                self.ind(d), ps, k, self.ind(d), self.PANICKED, self.ind(d), v, self._indent_more(inner))
        return inner

    def _state_stmts(self, sts, i, env, d):
        o = self.o
        if i == len(sts):
            return self.ind(d) + "(d, false)"
        s = sts[i]
        rest = lambda: self._state_stmts(sts, i + 1, env, d)
        e = s.e if s.kind == "exprstmt" else None
        if e is not None and e.kind == "var" and e.name == "self" and i + 1 == len(sts):
            return self.ind(d) + "(d, false)"
        if e is not None and e.kind == "if" and e.els is None and self._diverges(e.then) and not self._has_return(e.then):
            return "%sif %s then %s\n%selse\n%s" % (self.ind(d), self.cond(e.c, env), self.PANICKED, self.ind(d),
                                                     self._indent_more(rest()))
        if e is not None and e.kind == "macro" and e.name in ("assert", "assert_eq"):
            p = Parser(self.src, *e.rng)
            c = p.expr()
            if e.name == "assert_eq":
                p.eat(",")
                c = N("bin", op="==", l=c, r=p.expr())
            return "%sif %s then\n%s\n%selse %s" % (self.ind(d), self.cond(c, env), self._indent_more(rest()), self.ind(d),
                                                    self.PANICKED)
        if s.kind == "assign" and s.op == "=" and s.target.kind == "field" and s.target.e.kind == "var" \
                and s.target.e.name == "self" and ("self." + s.target.name) in env:
            reads = []
            rhs = self._st_reads(s.e, env, reads)
            (v, ty), pre = self.collect(lambda: self.expr(rhs, env))
            if not compat(ty, env["self." + s.target.name][1]):
                raise Unsupported("assignment of a %s to `self.%s`" % (ty, s.target.name))
            inner = "%slet d := { d with %s := %s }\n%s" % (self.ind(d), s.target.name, v, rest())
            return self._st_wrap(reads, pre, inner, d)
        if s.kind == "assign" and s.op == "=" and s.target.kind == "un" and s.target.op == "*" and s.target.e.kind == "var" \
                and s.target.e.name == "self":
            reads = []
            rhs = self._st_reads(s.e, env, reads)
            if rhs.kind != "call" or "::".join(rhs.path) not in o.opt_fns:
                raise Unsupported("`*self = ..`: the right-hand side is not a listed constructor call")
            key = "::".join(rhs.path)
            args = [self.atom(self.expr(a, env)[0]) for a in rhs.args]
            call = "(%s)" % " ".join([o.fns[key]] + args)
            inner = "%smatch %s with\n%s| none => %s\n%s| some d =>\n%s" % (
                self.ind(d), call, self.ind(d), self.PANICKED, self.ind(d), self._indent_more(rest()))
            return self._st_wrap(reads, [], inner, d)
        if e is not None and e.kind == "call" and self._helper(e) is not None:
            _v, pre = self.collect(lambda: self.inline_helper(self._helper(e), e, env))
            return self._st_wrap([], pre, rest(), d)
        if e is not None and e.kind == "method":
            chain, r = [], e
            while r.kind == "method":
                chain.append(r)
                r = r.recv
            if r.kind == "var" and r.name == "self" and all(c.name in o.state_calls for c in chain):
                chain.reverse()

                def calls(k):
                    if k == len(chain):
                        return rest()
                    c = chain[k]
                    reads = []
                    cargs = [self._st_reads(a, env, reads) for a in c.args]
                    vals, pre = self.collect(lambda: [self.atom(self.expr(a, env)[0]) for a in cargs])
                    r_ = self.fresh("r")
                    inner = "%slet %s := %s\n%sif %s.2 then %s\n%selse\n%s  let d := %s.1\n%s" % (
                        self.ind(d), r_, " ".join([o.state_calls[c.name], "d"] + vals), self.ind(d), r_, r_, self.ind(d),
                        self.ind(d), r_, self._indent_more(calls(k + 1)))
                    return self._st_wrap(reads, pre, inner, d)
                return calls(0)
        raise Unsupported("statement of a `&mut self` method outside the state-transformer subset (%s)" % (
            s.kind if e is None else e.kind))

    def _emit_def(self, binders, rty, lean_body):
        o = self.o
        allb = list(o.extra_binders) + binders
        bs = " ".join("(%s : %s)" % b for b in allb)
        doc = o.doc or self._doc()
        return "/-- %s -/\ndef %s %s: %s :=\n%s\n" % (doc, o.name or self.fn.name, bs + " " if bs else "", rty, lean_body)

    def _doc(self):
        fn = self.fn
        where = "::".join(x for x in [(fn.macro + "!") if fn.macro else None, fn.impl or fn.trait, fn.name] if x)
        body = self.src.pretty(fn.body).replace("-/", "- /").replace("/-", "/ -")
        return "`%s`: `%s`" % (where, body)

    def _params(self):
        lo, hi = self.fn.params
        T, mt = self.src.toks, self.src.mt
        out, i = [], lo
        while i < hi:
            j, depth = i, 0
            while j < hi and not (T[j].s == "," and depth == 0):
                if T[j].s in ("(", "[", "{"):
                    j = mt[j]
                elif T[j].s == "<":
                    depth += 1
                elif T[j].s == ">":
                    depth -= 1
                j += 1
            seg = T[i:j]
            names = [t.s for t in seg]
            if "self" in names and ":" not in names:
                if "mut" in names and not (self.o.mut and self.o.mut_self_value):
                    raise Unsupported("`&mut self`")
                out.append(("self", "Self"))
            else:
                k = names.index(":")
                pn = [n for n in names[:k] if n != "mut"]
                if len(pn) != 1:
                    raise Unsupported("parameter pattern %s" % " ".join(names[:k]))
                if "mut" in names[:k]:
                    raise Unsupported("`mut` parameter")
                out.append((pn[0], "".join(names[k + 1:])))
            i = j + 1
        return out

    def _macro_ty(self, ty):
        """a `$t` type variable of the enclosing macro_rules: the type every invocation instantiates it with
        (`f64` and `&f64` are the same scalar); Unsupported if the invocations disagree or there is none"""
        if not ty.startswith("$"):
            return ty
        m = self.src.macros.get(self.fn.macro)
        if not m or ty not in m["params"] or not m["invocations"]:
            raise Unsupported("macro type variable %s cannot be resolved" % ty)
        k = m["params"].index(ty)
        insts = {inv[k].replace("&", "") if k < len(inv) else None for inv in m["invocations"]}
        if len(insts) != 1 or None in insts:
            raise Unsupported("macro type variable %s is instantiated with different types: %s" % (ty, sorted(map(str, insts))))
        return insts.pop()

    def _ret_type(self):
        lo, hi = self.fn.ret
        names = [t.s for t in self.src.toks[lo:hi]]
        if not names:
            return None
        if names[0] != "->":
            raise Unsupported("return type")
        ty = "".join(names[1:]).split("where")[0]
        return rust_ty(ty) or ty

    # ---- panic analysis
    def _can_panic(self, node):
        if node is None:
            return False
        if isinstance(node, list):
            return any(self._can_panic(x) for x in node)
        if not isinstance(node, N):
            return False
        if node.kind == "macro" and node.name in ("assert", "assert_eq", "assert_ne", "panic", "unreachable",
                                                   "unimplemented", "todo", "debug_assert"):
            return True
        if node.kind == "loop":
            return bool(self.o.mut) and self._loop_can_panic(self._parse_for(node)[2])
        if self.o.mut and node.kind == "call" and ("::".join(node.path) in self.o.opt_fns or node.path[-1] in self.o.opt_fns):
            return True
        if self.o.mut and node.kind == "call" and self._helper(node) is not None:
            hb = Parser(self.src, *self._helper(node).body).block_body()
            if self._can_panic(hb):
                return True
        if self.o.mut and node.kind == "method" and node.recv.kind == "var" and node.recv.name == "self" \
                and node.name in self.o.self_methods and self.o.self_methods[node.name][2]:
            return True
        if self.o.mut and node.kind == "method" and node.name in ("unwrap", "expect") and not (
                node.recv.kind == "method" and node.recv.name == "split_first"):      # (an index panic: not modelled)
            return True
        return any(self._can_panic(v) for v in node.__dict__.values() if isinstance(v, (N, list)))

    def _has_return(self, node):
        if isinstance(node, list):
            return any(self._has_return(x) for x in node)
        if not isinstance(node, N):
            return False
        if node.kind == "return":
            return True
        if node.kind == "loop" and self.o.mut:
            return self._has_return(self._parse_for(node)[2])
        return any(self._has_return(v) for v in node.__dict__.values() if isinstance(v, (N, list)))

    def _diverges(self, blk):
        """does the block always leave the function (return / panic)?"""
        if blk is None:
            return False
        if blk.tail is not None:
            t = blk.tail
            if t.kind == "macro" and t.name in ("panic", "unreachable"):
                return True
            if t.kind == "if":
                return t.els is not None and self._diverges(t.then) and self._diverges(t.els)
            return False
        if not blk.stmts:
            return False
        s = blk.stmts[-1]
        if s.kind == "return":
            return True
        if s.kind == "exprstmt":
            e = s.e
            if e.kind == "macro" and e.name in ("panic", "unreachable"):
                return True
            if e.kind == "if":
                return e.els is not None and self._diverges(e.then) and self._diverges(e.els)
        return False

    # ---- tail-position translation (value of the function)
    def ind(self, d):
        return "  " * d

    def leaf(self, e, env, d):
        """an expression whose value is returned"""
        if e.kind == "paren" and e.e.kind in ("if", "block"):
            e = e.e
        if e.kind == "iflet" and self.o.mut:
            return self.iflet_stmt(e, env, d, None)
        if self.mloop:
            # inside the body of a loop with early exit (`List.foldlM` in `Option`): the only `return` is `return None`
            if e.kind == "var" and e.name == "None" and isinstance(self.ret_ty, tuple) and self.ret_ty[0] == "opt":
                return self.ind(d) + "none"
            raise Unsupported("`return` of anything but `None` inside a loop body")
        if e.kind == "if" and self.option_mode and not self._can_panic(e) and not self._has_return(e) \
                and not getattr(self, "result_ret", False):
            # a pure conditional value of a function that can panic elsewhere: `some (if .. then .. else ..)`
            if not self.o.mut:
                return self.ind(d) + "some %s" % self.atom(self.expr(e, env)[0])
            saved = (self.fresh_n, self.need_option)
            try:
                return self.ind(d) + "some %s" % self.atom(self.expr(e, env)[0])
            except Unsupported:          # a branch has a panic source after all (checked subtraction): branch by branch
                self.fresh_n, self.need_option = saved
        if e.kind == "if":
            if e.els is None:
                raise Unsupported("`if` without `else` in value position")
            c, pre = self.collect(lambda: self.cond(e.c, env))
            return self.wrap(pre, "%sif %s then\n%s\n%selse\n%s" % (
                self.ind(d), c, self.tail_block(e.then, env, d + 1), self.ind(d), self.tail_block(e.els, env, d + 1)), d)
        if e.kind == "block":
            return self.tail_block(e, env, d)
        if e.kind == "macro" and e.name in ("panic", "unreachable"):
            return self.ind(d) + "none"
        if self.o.moment:
            fin, inf, nan = self.o.moment[:3]
            key = self._const_key(e)
            if key in ("f64::INFINITY", "INFINITY", "std::f64::INFINITY"):
                v = inf
            elif key in ("f64::NAN", "NAN", "std::f64::NAN"):
                v = nan
            else:
                v = "%s %s" % (fin, self.atom(self.fexpr(e, env)))
        elif self.o.loops:
            if getattr(self, "result_ret", False):
                if e.kind == "call" and e.path == ["Err"]:
                    return self.ind(d) + "none"
                if e.kind == "call" and e.path == ["Ok"] and len(e.args) == 1:
                    e = e.args[0]
                else:
                    raise Unsupported("value of a `Result` function that is neither `Ok(..)` nor `Err(..)`")
            (v, ty), pre = self.collect(lambda: self.expr(e, env))
            if not compat(ty, self.ret_ty):
                raise Unsupported("value of type %s returned from a function of type %s" % (ty, self.ret_ty))
            if self.option_mode:
                v = "some %s" % self.atom(v)
            return self.wrap(pre, self.ind(d) + v, d)
        else:
            v = self.fexpr(e, env)
        if self.option_mode:
            v = "some %s" % self.atom(v)
        return self.ind(d) + v

    # ---- hoisted panic sources (option `loops`): a checked `usize` subtraction `a - b` registers the guard `b ≤ a`,
    # a call of a panicking function registers a bind; the STATEMENT that contains them is wrapped
    # (`if b ≤ a then .. else none`, `(call).bind fun r => ..`).  Inside a closure or a loop body nothing can be hoisted.
    def collect(self, f):
        self.pre_stack.append([])
        try:
            v = f()
        finally:
            pre = self.pre_stack.pop()
        return v, pre

    def add_pre(self, item, what):
        if item[0] == "guard" and any(item in lst for lst in self.pre_stack):
            return                    # the same guard already wraps an enclosing statement (e.g. `0 < bsize` of an outer loop header)
        if self.in_closure:
            raise Unsupported("%s inside a closure / loop body (a panic there cannot be hoisted)" % what)
        if not self.pre_stack:
            raise Unsupported("%s in a position that cannot carry a guard" % what)
        self.need_option = True
        self.pre_stack[-1].append(item)

    def wrap(self, pre, inner, d):
        for item in reversed(pre):
            if item[0] == "guard":
                inner = "%sif %s then\n%s\n%selse none" % (self.ind(d), item[1], self._indent_more(inner), self.ind(d))
            elif item[0] == "panic_if":
                inner = "%sif %s then\n%s  none\n%selse\n%s" % (self.ind(d), item[1], self.ind(d), self.ind(d), self._indent_more(inner))
            else:
                inner = "%s%s.bind fun (%s : %s) =>\n%s" % (self.ind(d), self.atom(item[2]), item[1], lean_ty(item[3]),
                                                             self._indent_more(inner))
        return inner

    def fresh(self, base):
        self.fresh_n += 1
        return "%s%d" % (base, self.fresh_n)

    def _const_key(self, e):
        if e.kind == "path":
            return "::".join(e.segs)
        if e.kind == "var":
            return e.name
        return None

    def tail_block(self, blk, env, d):
        env = dict(env)
        return self.tail_stmts(blk.stmts, 0, blk.tail, env, d)

    def tail_stmts(self, stmts, i, tail, env, d, finish=None):
        if i == len(stmts):
            if finish is not None:            # body of a `for` loop: the value is the new loop state
                if tail is not None:
                    raise Unsupported("loop body with a value")
                return finish(env, d)
            if tail is None:
                raise Unsupported("block without a value")
            return self.leaf(tail, env, d)
        s = stmts[i]
        rest = lambda env2=env: self.tail_stmts(stmts, i + 1, tail, env2, d, finish)
        loops = self.o.loops
        if s.kind == "let":
            if s.mut:
                if isinstance(s.pat, str) and s.pat in self.o.loops_as_params:
                    return rest()         # accumulator of a skipped loop: it is a parameter
                if not loops:
                    raise Unsupported("`let mut %s`" % (s.pat,))
            if loops:
                lines, pre = self.collect(lambda: self.let_lines(s, env, d))
                return self.wrap(pre, lines + rest(env), d)
            return self.let_lines(s, env, d) + rest(env)
        if s.kind == "loop":
            if self.o.loops_as_params:
                return rest()
            if self.o.mut and self._has_return(self._parse_for(s)[2]):
                return self.mloop_stmt(s, env, d, rest)
            if self.o.mut and self._loop_can_panic(self._parse_for(s)[2]):
                return self.mloop_stmt(s, env, d, rest, panic=True)
            if loops:
                lines, pre = self.collect(lambda: self.loop_lines(s, env, d))
                return self.wrap(pre, lines + rest(env), d)
            raise Unsupported("loop `%s`" % s.head)
        if self.o.mut:
            handler = None
            if s.kind == "assign" and s.target.kind == "index":
                handler = lambda: self.index_assign_lines(s, env, d)
            elif s.kind == "exprstmt" and s.e.kind == "method" and s.e.name == "swap":
                handler = lambda: self.swap_lines(s.e, env, d)
            elif s.kind == "exprstmt" and s.e.kind == "method" and s.e.name in ("extend_from_slice", "extend"):
                handler = lambda: self.extend_lines(s.e, env, d)
            elif s.kind == "unsafe":
                handler = lambda: self.unsafe_lines(s, env, d)
            elif s.kind == "exprstmt" and s.e.kind == "if" and not self._has_return(s.e) and not self._can_panic(s.e):
                handler = lambda: self.mut_if_lines(s.e, env, d)
            if handler is not None:
                lines, pre = self.collect(handler)
                return self.wrap(pre, lines + rest(env), d)
        if s.kind == "assign":
            if not loops:
                raise Unsupported("assignment `%s` (mutation is outside the subset)" % s.op)
            lines, pre = self.collect(lambda: self.assign_lines(s, env, d))
            return self.wrap(pre, lines + rest(env), d)
        if loops and s.kind == "exprstmt" and s.e.kind == "method" and s.e.name == "push":
            lines, pre = self.collect(lambda: self.push_lines(s.e, env, d))
            return self.wrap(pre, lines + rest(env), d)
        if self.o.mut and s.kind == "exprstmt" and s.e.kind == "iflet":
            return self.iflet_stmt(s.e, env, d, rest)
        if self.o.mut and s.kind == "exprstmt" and s.e.kind == "if" and self._has_return(s.e) and not self._can_panic(s.e) \
                and (finish is None or self.mloop) and not self._diverges_if(s.e):
            return self.cont_if_stmt(s.e, env, d, rest)
        if finish is not None and not self.mloop and not self.ploop and (
                s.kind == "return" or (s.kind == "exprstmt" and s.e.kind in ("macro", "if"))):
            raise Unsupported("`%s` inside a loop body (early exit / panic)" % (s.kind if s.kind == "return" else s.e.kind))
        if finish is not None and s.kind == "exprstmt" and s.e.kind == "macro" and not self.ploop:
            raise Unsupported("macro `%s!` inside a loop body (a panic there cannot be hoisted)" % s.e.name)
        if s.kind == "return":
            if s.e is None:
                raise Unsupported("`return;`")
            if i + 1 != len(stmts) or tail is not None:
                raise Unsupported("code after `return`")
            return self.leaf(s.e, env, d)
        if s.kind == "exprstmt" and s.e.kind == "call" and self._helper(s.e) is not None:
            def _unit():
                v, _t = self.inline_helper(self._helper(s.e), s.e, env)
                return ""
            self.option_mode = True
            _lines, pre = self.collect(_unit)
            return self.wrap(pre, rest(env), d)
        if s.kind == "exprstmt":
            e = s.e
            if e.kind == "macro":
                return self.macro_stmt(e, env, d, rest)
            if e.kind == "if":
                return self.if_stmt(e, env, d, rest)
            raise Unsupported("expression statement `%s` (side effects are outside the subset)" % e.kind)
        raise Unsupported("statement %s" % s.kind)

    def let_lines(self, s, env, d):
        """emits `let` lines and updates env"""
        loops = self.o.loops
        if isinstance(s.pat, list) and loops and s.e.kind != "tuple":
            # `let (a, _, c) = e;` of a tuple-valued variable / call: projections (`_` binds nothing)
            v, ty = self.expr(s.e, env)
            if not is_tup(ty) or len(ty[1]) != len(s.pat):
                raise Unsupported("tuple `let` of a value of type %s" % (ty,))
            out = ""
            if s.e.kind != "var":
                tmp = self.fresh("t")
                out = "%slet %s : %s := %s\n" % (self.ind(d), tmp, lean_ty(ty), v)
                v = tmp
            muts = s.mut if isinstance(s.mut, list) else [False] * len(s.pat)
            for k, name in enumerate(s.pat):
                if name == "_":
                    continue
                env[name] = (self.proj(v, k, len(s.pat)), ty[1][k])     # substituted, not re-bound
                self._declare(name, env, muts[k])
            return out
        if isinstance(s.pat, list):
            if s.e.kind != "tuple" or len(s.e.items) != len(s.pat):
                raise Unsupported("tuple `let` needs a tuple of the same arity on the right")
            vals = [self.expr(x, env) for x in s.e.items]      # all evaluated in the OLD scope
            # later components must not mention (after renaming) an earlier bound name of the same let
            out = ""
            for k, (name, (v, ty)) in enumerate(zip(s.pat, vals)):
                ln = self.lname(name)
                for v2, _ in vals[k + 1:]:
                    if re.search(r"(?<![\w.])%s(?![\w])" % re.escape(ln), v2):
                        raise Unsupported("tuple `let`: component mentions a name bound earlier in the same pattern")
                out += "%slet %s : %s := %s\n" % (self.ind(d), ln, self._lean_ty(ty), v)
            muts = s.mut if isinstance(s.mut, list) else [False] * len(s.pat)
            for k, (name, (v, ty)) in enumerate(zip(s.pat, vals)):
                env[name] = (self.lname(name), ty)
                if loops:
                    self._declare(name, env, muts[k])
            return out
        npre = len(self.pre_stack[-1]) if self.pre_stack else 0
        v, ty = self.expr(s.e, env)
        pure_init = (len(self.pre_stack[-1]) if self.pre_stack else 0) == npre
        if loops:
            ty = deflt(ty) if is_tup(ty) else ty
            if ty == ("list", None) and self.o.mut and s.ty is not None and self.ty2(s.ty) not in (None, V) \
                    and is_list(self.ty2(s.ty)):
                want = self.ty2(s.ty)             # `let mut v: Vec<Vec<f64>> = Vec::with_capacity(n);`: the declared type
                env[s.pat] = ("([] : %s)" % lean_ty(want), want)
                self._declare(s.pat, env, bool(s.mut))
                return ""
            if ty == ("list", None):              # `let mut v = Vec::new();`: no `let` line, the empty list is substituted
                env[s.pat] = ("[]", ty)
                self._declare(s.pat, env, bool(s.mut))
                env.pop(self.CAP + s.pat, None)
                if self.o.mut and s.e.kind == "call" and s.e.path == ["Vec", "with_capacity"] and len(s.e.args) == 1:
                    env[self.CAP + s.pat] = self.atom(self.expr(s.e.args[0], env)[0])
                return ""
        if s.ty is not None:
            want = self.ty2(s.ty) if loops else rust_ty(s.ty)
            if want is None or (want != ty and not (ty == INTLIT and want in (I, U)) and not (loops and compat(ty, want))):
                raise Unsupported("let %s: %s := <%s>" % (s.pat, s.ty, ty))
            ty = want
        if loops and pure_init and self._inline_let(s, env, ty):
            return ""
        ln = self.lname(s.pat)
        env[s.pat] = (ln, ty)
        if loops:
            self._declare(s.pat, env, bool(s.mut))
        if self.o.mut and isinstance(ty, tuple) and ty[0] == "adt" and ty[1] in self.o.struct_mk and ty[1] in self.o.struct_types:
            for f, fty in self.o.struct_types[ty[1]]:          # a struct value: its fields are places of their own
                env["%s.%s" % (s.pat, f)] = ("%s.%s" % (ln, f), fty)
                self._declare("%s.%s" % (s.pat, f), env, bool(s.mut))
        return "%slet %s : %s := %s\n" % (self.ind(d), ln, self._lean_ty(ty), v)

    # ---- mutation and loops (option `loops`)
    MUT = "\0mut:"        # env keys: is the Rust variable `mut`;  LO: known lower bound (Lean text) of a usize variable
    LO = "\0lo:"
    GEN = "\0gen:"        # binding generation of a Rust name (bumped whenever the name is bound again)
    INL = "\0inl:"        # an inlined immutable `let`: (initializer AST, {mentioned name: generation at the `let`})
    CAP = "\0cap:"        # capacity (Lean text) of a `let mut x = Vec::with_capacity(n)` (option `mut`: checked by `set_len`)

    def _declare(self, name, env, mut):
        self.gen_n = getattr(self, "gen_n", 0) + 1
        env[self.GEN + name] = self.gen_n
        env.pop(self.INL + name, None)
        env.pop(self.LO + name, None)
        env[self.MUT + name] = bool(mut)
        if mut:
            if name in self.decl_order:
                self.decl_order.remove(name)
            self.decl_order.append(name)

    def proj(self, v, k, n):
        """component k of an n-tuple (right-nested pairs)"""
        v = self.atom(v)
        if n == 1:
            return v
        return v + ".2" * k + ("" if k == n - 1 else ".1")

    def assign_lines(self, s, env, d):
        """`x = e;` / `x op= e;` on a `let mut` variable: a shadowing `let`"""
        t = s.target
        if t.kind != "var":
            raise Unsupported("assignment to `%s` (only plain `let mut` variables)" % t.kind)
        name = t.name
        if name not in env or not env.get(self.MUT + name):
            raise Unsupported("assignment to `%s`, which is not a `let mut` variable in scope" % name)
        old_ty = env[name][1]
        if s.op == "=":
            v, ty = self.expr(s.e, env)
        elif s.op in ("+=", "-=", "*=", "/="):
            v, ty = self.expr(N("bin", op=s.op[0], l=t, r=s.e), env)
        else:
            raise Unsupported("assignment operator `%s`" % s.op)
        if not compat(ty, old_ty):
            raise Unsupported("assignment of a %s to `%s` of type %s" % (ty, name, old_ty))
        ln = self.lname(name)
        env[name] = (ln, old_ty)
        env.pop(self.LO + name, None)
        return "%slet %s : %s := %s\n" % (self.ind(d), ln, lean_ty(old_ty), v)

    def push_lines(self, e, env, d):
        """`v.push(e);` on a `let mut` vector: `v ++ [e]`"""
        if e.recv.kind != "var" or len(e.args) != 1:
            raise Unsupported("`push` shape")
        name = e.recv.name
        if name not in env or not env.get(self.MUT + name) or not is_list(env[name][1]):
            raise Unsupported("`push` on `%s`, which is not a `let mut` vector in scope" % name)
        lty = env[name][1]
        v, ty = self.expr(e.args[0], env)
        if lty == ("list", None):              # `Vec::new()` / `Vec::with_capacity(n)`: element type from the first push
            lty = mk_list(deflt(ty))
        if not compat(ty, elem_ty(lty)):
            raise Unsupported("push of a %s onto %s" % (ty, lty))
        ln = self.lname(name)
        out = "%slet %s : %s := (%s ++ [%s])\n" % (self.ind(d), ln, lean_ty(lty), self.atom(env[name][0]), v)
        env[name] = (ln, lty)
        return out

    def _parse_for(self, node):
        """`for pat in iter { body }` -> (pattern: name | [names], iterator expression, body block)"""
        if getattr(node, "parsed", None):
            return node.parsed
        T, mt = self.src.toks, self.src.mt
        lo, hi = node.rng
        if T[lo].s != "for":
            raise Unsupported("loop `%s` (only `for` loops)" % node.head)
        i = lo + 1
        if T[i].s == "(":
            close = mt[i]
            pat, j = [], i + 1
            while j < close:
                while T[j].s in ("&", "mut"):
                    j += 1
                if T[j].k != "id":
                    raise Unsupported("`for` pattern")
                pat.append(T[j].s)
                j += 1
                if j < close:
                    if T[j].s != ",":
                        raise Unsupported("`for` pattern")
                    j += 1
            i = close + 1
        elif T[i].k == "id":
            pat = T[i].s
            i += 1
        else:
            raise Unsupported("`for` pattern")
        if T[i].s != "in":
            raise Unsupported("`for` pattern")
        body_open = mt[hi - 1]
        p = Parser(self.src, i + 1, body_open)
        it = p.expr()
        if p.i != body_open:
            raise Unsupported("`for` iterator expression")
        body = Parser(self.src, body_open + 1, hi - 1).block_body()
        if body.tail is not None:
            body = N("block", stmts=body.stmts + [N("exprstmt", e=body.tail)], tail=None)
        node.parsed = (pat, it, body)
        return node.parsed

    def _assigned(self, blk, acc):
        stmts = list(blk.stmts)
        if self.o.mut and blk.tail is not None:
            stmts.append(N("exprstmt", e=blk.tail))
        for s in stmts:
            if s.kind == "assign" and s.target.kind == "var":
                acc.append(s.target.name)
            elif s.kind == "exprstmt" and s.e.kind == "method" and s.e.name == "push" and s.e.recv.kind == "var":
                acc.append(s.e.recv.name)
            elif s.kind == "loop":
                self._assigned(self._parse_for(s)[2], acc)
            elif not self.o.mut:
                continue
            elif s.kind == "assign" and s.target.kind == "index" and s.target.e.kind == "var":
                acc.append(s.target.e.name)
            elif s.kind == "assign" and s.target.kind == "index" and s.target.e.kind == "field" and s.target.e.e.kind == "var":
                acc.append("%s.%s" % (s.target.e.e.name, s.target.e.name))
            elif s.kind == "exprstmt" and s.e.kind == "method" and s.e.name in ("swap", "extend_from_slice", "extend") \
                    and s.e.recv.kind == "var":
                acc.append(s.e.recv.name)
            elif s.kind == "exprstmt" and s.e.kind == "if":
                self._assigned_if(s.e, acc)
        return acc

    def _assigned_if(self, e, acc):
        self._assigned(e.then, acc)
        if e.els is not None:
            self._assigned(e.els, acc)

    # ---- third pass (option `mut`): in-place mutation of `let mut` vectors, `if` statements that only mutate
    def _ast_vars(self, node, acc):
        if isinstance(node, list):
            for x in node:
                self._ast_vars(x, acc)
        elif isinstance(node, tuple):
            for x in node:
                self._ast_vars(x, acc)
        elif isinstance(node, N):
            if node.kind == "var":
                acc.add(node.name)
            for k_, v_ in node.__dict__.items():
                if k_ != "parsed" and isinstance(v_, (N, list, tuple)):
                    self._ast_vars(v_, acc)
        return acc

    def _strip(self, e):
        while e.kind == "paren" or (e.kind == "un" and e.op == "&"):
            e = e.e
        return e

    def _is_view(self, e):
        """`&base[lo..hi]` (a slice of a variable / of another slice)"""
        e = self._strip(e)
        return e.kind == "index" and e.idx.kind == "range" and not e.idx.incl and self._strip(e.e).kind == "var"

    def _inline_let(self, s, env, ty):
        """(normal form) an immutable `let x = e;` of a pure integer expression or of a slice `&v[a..b]` that mentions no
        `let mut` variable is not emitted: `x` stands for `e` (re-translated at each use; a use after one of the names in `e`
        was bound again is refused)."""
        if not (self.o.mut and self.o.normalize) or s.mut or not isinstance(s.pat, str) or s.pat == "_":
            return False
        if not (ty in (U, I) or (self._is_view(s.e) and is_list(ty))):
            return False
        names = self._ast_vars(s.e, set())
        if any(env.get(self.MUT + x) for x in names) or s.pat in names:
            return False
        if self._has_closure(s.e):
            return False
        self._declare(s.pat, env, False)
        env[s.pat] = ("\0inlined", ty)
        env[self.INL + s.pat] = (s.e, {x: env.get(self.GEN + x) for x in names})
        return True

    def _has_closure(self, node):
        if isinstance(node, (list, tuple)):
            return any(self._has_closure(x) for x in node)
        if not isinstance(node, N):
            return False
        if node.kind in ("closure", "call", "method", "macro", "if", "block", "match"):
            return node.kind != "method" or node.name not in ("len",) or self._has_closure(node.recv)
        return any(self._has_closure(v) for k_, v in node.__dict__.items() if k_ != "parsed" and isinstance(v, (N, list, tuple)))

    def _inlined(self, name, env):
        """the AST an inlined `let` stands for (checked: none of the names it mentions was bound again since)"""
        ast, snap = env[self.INL + name]
        for x, g in snap.items():
            if env.get(self.GEN + x) != g:
                raise Unsupported("`%s` (an inlined `let`) is used after `%s` was bound again" % (name, x))
        return ast

    def _view_compose(self, e, env):
        """`row[k]` / `&row[p..q]` where `row` is an inlined slice `&base[lo..hi]`: index arithmetic on the base
        (`base[lo + k]`, `&base[lo + p .. lo + q]`); None if `e.e` is not such a variable"""
        b = self._strip(e.e)
        if not (self.o.mut and self.o.normalize and b.kind == "var" and (self.INL + b.name) in env):
            return None
        v = self._strip(self._inlined(b.name, env))
        if not (v.kind == "index" and v.idx.kind == "range"):
            return None
        lo, hi = v.idx.lo, v.idx.hi
        add = lambda a, x: x if a is None else (a if x is None else N("bin", op="+", l=a, r=x))
        if e.idx.kind == "range":
            if e.idx.incl:
                return None
            nlo = add(lo, e.idx.lo)
            nhi = add(lo, e.idx.hi) if e.idx.hi is not None else hi
            return N("index", e=v.e, idx=N("range", lo=nlo, hi=nhi, incl=False), rng=e.rng)
        return N("index", e=v.e, idx=add(lo, e.idx), rng=e.rng)

    def _mut_list(self, name, env, what):
        if name not in env or not env.get(self.MUT + name):
            raise Unsupported("%s `%s`, which is not a `let mut` variable in scope" % (what, name))
        ty = env[name][1]
        if not is_list(ty) or ty == ("list", None) or (isinstance(ty, tuple) and ty[0] == "range"):
            raise Unsupported("%s `%s` of type %s" % (what, name, ty))
        return ty

    def index_assign_lines(self, s, env, d):
        """`v[e] = rhs;` / `v[e] op= rhs;` on a `let mut` vector: `let v := List.set v e rhs'` (a shadowing `let`; an index
        out of range panics in Rust and is a no-op of `List.set`: NOT modelled, as for reads)"""
        t = s.target
        if self.o.mut and t.e.kind == "field" and t.e.e.kind == "var" and ("%s.%s" % (t.e.e.name, t.e.name)) in env:
            name = "%s.%s" % (t.e.e.name, t.e.name)            # `m.data[i] = e` on an exploded struct value
        elif t.e.kind != "var":
            raise Unsupported("element assignment to a `%s` expression" % t.e.kind)
        else:
            name = t.e.name
        lty = self._mut_list(name, env, "element assignment to")
        if t.idx.kind == "range":
            raise Unsupported("assignment to a slice")
        i, ti = self.expr(t.idx, env)
        if ti not in (U, INTLIT):
            raise Unsupported("element assignment with an index of type %s" % (ti,))
        if s.op == "=":
            v, ty = self.expr(s.e, env)
        elif s.op in ("+=", "-=", "*=", "/="):
            v, ty = self.expr(N("bin", op=s.op[0], l=t, r=s.e), env)
        else:
            raise Unsupported("assignment operator `%s`" % s.op)
        if not compat(ty, elem_ty(lty)):
            raise Unsupported("assignment of a %s to an element of `%s` of type %s" % (ty, name, lty))
        ln = self.lname(name)
        out = "%slet %s : %s := (List.set %s %s %s)\n" % (self.ind(d), ln, lean_ty(lty), self.atom(env[name][0]),
                                                          self.atom(i), self.atom(v))
        env[name] = (ln, lty)
        return out

    def swap_lines(self, e, env, d):
        """`v.swap(a, b);` on a `let mut` vector: `let v := <swap_fn> v a b`"""
        if e.recv.kind != "var" or len(e.args) != 2:
            raise Unsupported("`swap` shape")
        name = e.recv.name
        lty = self._mut_list(name, env, "`swap` on")
        a, ta = self.expr(e.args[0], env)
        b, tb = self.expr(e.args[1], env)
        if ta not in (U, INTLIT) or tb not in (U, INTLIT):
            raise Unsupported("`swap` with indices of type %s, %s" % (ta, tb))
        ln = self.lname(name)
        out = "%slet %s : %s := (%s %s %s %s)\n" % (self.ind(d), ln, lean_ty(lty), self.o.swap_fn, self.atom(env[name][0]),
                                                    self.atom(a), self.atom(b))
        env[name] = (ln, lty)
        return out

    def extend_lines(self, e, env, d):
        """`v.extend_from_slice(w);` on a `let mut` vector: `let v := v ++ w`"""
        if e.recv.kind != "var" or len(e.args) != 1:
            raise Unsupported("`extend_from_slice` shape")
        name = e.recv.name
        if env.get(name, (None, None))[1] == ("list", None) and env.get(self.MUT + name):
            env[name] = ("([] : List α)", V)          # a fresh `Vec::with_capacity(..)`: assumed `Vec<f64>` (checked below)
        lty = self._mut_list(name, env, "`extend_from_slice` on")
        w, tw = self.expr(e.args[0], env)
        if not is_list(tw) or not compat(elem_ty(tw), elem_ty(lty)):
            raise Unsupported("`extend_from_slice` of a %s onto %s" % (tw, lty))
        ln = self.lname(name)
        out = "%slet %s : %s := %s\n" % (self.ind(d), ln, lean_ty(lty), self._append(env[name][0], w))
        env[name] = (ln, lty)
        return out

    def _append(self, cur, w):
        """`cur ++ w` (normal form: nothing is appended to a literally empty list)"""
        if self.o.normalize and re.fullmatch(r"\[\]|\(\[\] : [^()]*\)", cur.strip()):
            return self.atom(w)
        return "(%s ++ %s)" % (self.atom(cur), self.atom(w))

    def push_loop_lines(self, s, env, d):
        """(normal form) `for pat in it { v.push(e); }` is `v ++ it.map(|pat| e)`, `for pat in it { v.extend(w); }` is
        `v ++ it.flat_map(|pat| w)`, and a loop whose body is one such loop is the `flat_map` of the inner list (`e`, `w` do not
        mention `v`; `v` is the only variable the loop assigns); None otherwise"""
        if not (self.o.mut and self.o.normalize):
            return None
        r = self._push_loop_value(s, env, None)
        if r is None:
            return None
        name, new, lty = r
        ln = self.lname(name)
        out = "%slet %s : %s := %s\n" % (self.ind(d), ln, lean_ty(lty), self._append(env[name][0], new))
        env[name] = (ln, lty)
        return out

    def _push_loop_value(self, s, env, target):
        """-> (vector name, Lean text of the list the loop appends to it, type of the vector) or None"""
        pat, it, body = self._parse_for(s)
        sts = self._stmt_block(body)
        if len(sts) != 1:
            return None
        st = sts[0]
        inner_loop = st.kind == "loop"
        if inner_loop:
            call = None
        elif st.kind == "exprstmt" and st.e.kind == "method" and st.e.recv.kind == "var" \
                and st.e.name in ("push", "extend", "extend_from_slice") and len(st.e.args) == 1:
            call = st.e
            name = call.recv.name
            if name in self._ast_vars(call.args[0], set()) or self._can_panic(call.args[0]):
                return None
        else:
            return None
        if self._can_panic(it):
            return None
        saved_fresh = self.fresh_n
        itv, itty = self.expr(it, env)
        if not is_list(itty):
            raise Unsupported("`for` over a value of type %s" % (itty,))
        benv = dict(env)
        pn, pty = self.bind_pattern(pat, elem_ty(itty), benv)
        if isinstance(pat, str) and isinstance(itty, tuple) and itty[0] == "range":
            benv[self.LO + pat] = itty[1]
        self.in_closure += 1
        try:
            if inner_loop:
                r = self._push_loop_value(st, benv, target)
                if r is None:
                    self.fresh_n = saved_fresh
                    return None
                name, v, lty = r
                ty = lty
                kind = "extend"
            else:
                v, ty = self.expr(call.args[0], benv)
                kind = "push" if call.name == "push" else "extend"
        finally:
            self.in_closure -= 1
        if name not in env or not env.get(self.MUT + name) or not is_list(env[name][1]) or name in self._ast_vars(it, set()) \
                or (target is not None and target != name):
            self.fresh_n = saved_fresh
            return None
        lty = env[name][1]
        if kind == "push":
            if lty == ("list", None):
                lty = mk_list(deflt(ty))
            if not compat(ty, elem_ty(lty)):
                raise Unsupported("push of a %s onto %s" % (ty, lty))
            new = "(List.map (fun (%s : %s) => %s) %s)" % (pn, lean_ty(pty), v, self.atom(itv))
        else:
            if lty == ("list", None) and is_list(ty) and ty != ("list", None):
                lty = norm_list(ty)
            if not is_list(ty) or ty == ("list", None) or not compat(elem_ty(ty), elem_ty(lty)):
                raise Unsupported("extend of a %s onto %s" % (ty, lty))
            new = "(List.flatMap (fun (%s : %s) => %s) %s)" % (pn, lean_ty(pty), v, self.atom(itv))
        return name, new, lty

    def unsafe_lines(self, s, env, d):
        """`unsafe { x.set_len(n); }` right after `let mut x = Vec::with_capacity(n);`: a vector of `n` uninitialised f64
        (spelled by the option `uninit`)"""
        b = s.body
        sts = list(b.stmts) + ([N("exprstmt", e=b.tail)] if b.tail is not None else [])
        if len(sts) != 1 or sts[0].kind != "exprstmt" or sts[0].e.kind != "method" or sts[0].e.name != "set_len" \
                or sts[0].e.recv.kind != "var" or len(sts[0].e.args) != 1:
            raise Unsupported("`unsafe` block (only `x.set_len(n);`)")
        name = sts[0].e.recv.name
        if name not in env or not env.get(self.MUT + name) or env[name] != ("[]", ("list", None)):
            raise Unsupported("`set_len` on `%s`, which is not a fresh `Vec::with_capacity(..)`" % name)
        n, tn = self.expr(sts[0].e.args[0], env)
        if tn not in (U, INTLIT):
            raise Unsupported("`set_len` argument of type %s" % (tn,))
        if env.get(self.CAP + name) != self.atom(n):
            raise Unsupported("`set_len(%s)` differs from the capacity of `%s`" % (n, name))
        ln = self.lname(name)
        env[name] = (ln, V)
        return "%slet %s : List α := %s\n" % (self.ind(d), ln, self.o.uninit.format(self.atom(n)))

    def _state(self, M, env):
        """the loop / branch state of the `let mut` variables M -> (types, finish function)"""
        tys = [env[x][1] for x in M]
        finish = lambda e, dd: self.ind(dd) + ("(%s)" % ", ".join(e[x][0] for x in M) if len(M) > 1 else e[M[0]][0])
        return tys, finish

    def _stmt_block(self, blk):
        """a block used as a statement: its tail expression (if any) is its last statement"""
        if blk.tail is None:
            return blk.stmts
        return blk.stmts + [N("exprstmt", e=blk.tail)]

    def mut_if_lines(self, e, env, d):
        """`if c { .. } [else { .. }]` whose blocks fall through and only mutate `let mut` variables of the enclosing scope:
        `let state := if c then (block; state') else (block; state')`, state as for loops (declaration order)."""
        acc = []
        self._assigned_if(e, acc)
        M = [x for x in self.decl_order if x in acc and x in env and env.get(self.MUT + x)]
        if not M:
            raise Unsupported("`if` statement that assigns no `let mut` variable of the enclosing scope")
        for x in M:
            if env[x][1] == ("list", None):
                env[x] = ("([] : List α)", V)
        c = self.cond(e.c, env)
        tys, finish = self._state(M, env)
        self.in_closure += 1            # nothing inside a branch can be hoisted in front of the `if`
        try:
            then = self.tail_stmts(self._stmt_block(e.then), 0, None, dict(env), d + 2, finish)
            if e.els is None:
                els = finish(env, d + 2)
            else:
                els = self.tail_stmts(self._stmt_block(e.els), 0, None, dict(env), d + 2, finish)
        finally:
            self.in_closure -= 1
        if len(M) == 1:
            st, sty = self.lname(M[0]), tys[0]
        else:
            st, sty = self.fresh("st"), ("tup", tuple(tys))
        out = "%slet %s : %s := if %s then\n%s\n%selse\n%s\n" % (self.ind(d), st, lean_ty(sty), c, then, self.ind(d + 1), els)
        if len(M) == 1:
            env[M[0]] = (st, sty)
        else:
            for k, x in enumerate(M):
                env[x] = (self.proj(st, k, len(M)), tys[k])
        return out

    def bind_pattern(self, pat, ty, env, hint="p"):
        """bind a closure / `for` pattern to a value of type ty -> (binder name, binder type); tuple components are
        SUBSTITUTED by projections of the binder (no `let`)"""
        if isinstance(pat, str):
            ln = self.lname(pat)
            env[pat] = (ln, ty)
            self._declare(pat, env, False)
            return ln, ty
        p = self.fresh(hint)
        if is_tup(ty) and len(ty[1]) == len(pat):
            comps = [(self.proj(p, k, len(pat)), ty[1][k]) for k in range(len(pat))]
        elif isinstance(ty, tuple) and ty[0] == "enum" and len(pat) == 2:
            comps = [(p + ".2", U), (p + ".1", ty[1])]          # Rust `(index, item)`; `List.zipIdx` is `(item, index)`
        else:
            raise Unsupported("pattern (%s) on a value of type %s" % (", ".join(map(str, pat)), ty))
        for name, (v, t) in zip(pat, comps):
            if name in (None, "_"):
                continue
            env[name] = (v, t)
            self._declare(name, env, False)
        return p, ty

    def loop_lines(self, s, env, d):
        """`for pat in iter { body }` whose body only re-assigns `let mut` variables of the enclosing scope:
        `List.foldl (fun state item => body; new state) (current state) iter`, state = the assigned variables in
        declaration order (a single variable: itself; several: a tuple)."""
        nf = self.push_loop_lines(s, env, d)
        if nf is not None:
            return nf
        pat, it, body = self._parse_for(s)
        assigned = self._assigned(body, [])
        M = [x for x in self.decl_order if x in assigned and x in env and env.get(self.MUT + x)]
        if not M:
            raise Unsupported("loop `%s` assigns no `let mut` variable of the enclosing scope" % s.head)
        itv, itty = self.expr(it, env)
        if not is_list(itty):
            raise Unsupported("`for` over a value of type %s" % (itty,))
        for x in M:
            if env[x][1] == ("list", None):       # assumed `Vec<f64>`; every `push` is checked against it
                env[x] = ("([] : List α)", V)
        tys = [env[x][1] for x in M]
        init = [env[x][0] for x in M]
        benv = dict(env)
        if len(M) == 1:
            st, sty = self.lname(M[0]), tys[0]
            benv[M[0]] = (st, sty)
            init_txt = init[0]
        else:
            st, sty = self.fresh("st"), ("tup", tuple(tys))
            for k, x in enumerate(M):
                benv[x] = (self.proj(st, k, len(M)), tys[k])
            init_txt = "(%s)" % ", ".join(init)
        pn, pty = self.bind_pattern(pat, elem_ty(itty), benv)
        if isinstance(pat, str) and isinstance(itty, tuple) and itty[0] == "range":
            benv[self.LO + pat] = itty[1]
        finish = lambda e, dd: self.ind(dd) + ("(%s)" % ", ".join(e[x][0] for x in M) if len(M) > 1 else e[M[0]][0])
        self.in_closure += 1
        try:
            btxt = self.tail_stmts(body.stmts, 0, None, benv, d + 2, finish)
        finally:
            self.in_closure -= 1
        out = "%slet %s : %s := List.foldl (fun (%s : %s) (%s : %s) =>\n%s) %s %s\n" % (
            self.ind(d), st, lean_ty(sty), st, lean_ty(sty), pn, lean_ty(pty), btxt, self.atom(init_txt), self.atom(itv))
        if len(M) == 1:
            env[M[0]] = (st, sty)
        else:
            for k, x in enumerate(M):
                env[x] = (self.proj(st, k, len(M)), tys[k])
        return out

    def _loop_can_panic(self, blk):
        """does the body of a loop contain a panic source that the subset can express (assert!, call of a panicking function,
        unwrap) — nested loops included"""
        for st in self._stmt_block(blk):
            if st.kind == "loop":
                if self._loop_can_panic(self._parse_for(st)[2]):
                    return True
            elif self._can_panic(st):
                return True
        return False

    def _diverges_if(self, e):
        return self._diverges(e.then) and (e.els is None or self._diverges(e.els) or (
            e.els.tail is not None and e.els.tail.kind == "if" and not e.els.stmts and self._diverges_if(e.els.tail)))

    def _let_names(self, blk, acc):
        for s in self._stmt_block(blk):
            if s.kind == "let":
                acc.extend(s.pat if isinstance(s.pat, list) else [s.pat])
        return acc

    def cont_if_stmt(self, e, env, d, rest):
        """`if c { A } [else { B }]` followed by the rest R of the block, where A or B contains an early `return`:
        `if c then (A; R) else (B; R)` — the continuation is duplicated into the branches (each branch may leave early)."""
        c, pre = self.collect(lambda: self.cond(e.c, env))

        def branch(blk):
            if blk is None:
                return self._indent_more(rest(env))
            shadow = [x for x in self._let_names(blk, []) if x in env]
            if shadow:
                raise Unsupported("`let %s` inside a branch with an early `return` shadows a variable of the enclosing scope" % shadow[0])
            benv = dict(env)

            def fin(e2, dd):
                env3 = dict(env)
                for x in env:
                    if not x.startswith("\0") and env.get(self.MUT + x) and x in e2:
                        env3[x] = e2[x]                      # the mutated variables; block-local `let`s go out of scope
                return self._indent_more(rest(env3))
            return self.tail_stmts(self._stmt_block(blk), 0, None, benv, d + 1, fin)
        self.in_closure += 1
        try:
            then = branch(e.then)
            if e.els is not None and e.els.tail is not None and e.els.tail.kind == "if" and not e.els.stmts \
                    and self._has_return(e.els.tail) and not self._diverges_if(e.els.tail):
                els = self.cont_if_stmt(e.els.tail, env, d + 1, lambda env2=env: self._indent_more(rest(env2)))
            else:
                els = branch(e.els)
        finally:
            self.in_closure -= 1
        return self.wrap(pre, "%sif %s then\n%s\n%selse\n%s" % (self.ind(d), c, then, self.ind(d), els), d)

    def iflet_stmt(self, e, env, d, rest):
        """`if let Some(x) = e { A } else { B }`: `match e with | some x => A' | none => B'`.  In tail position (`rest` None) the
        blocks are values; as a statement the rest R of the enclosing block is duplicated into both arms (`A; R`, `B; R`)."""
        (sv, sty), pre = self.collect(lambda: self.expr(e.scrut, env))
        if not (isinstance(sty, tuple) and sty[0] == "opt" and sty[1] is not None):
            raise Unsupported("`if let Some(..)` on a value of type %s" % (sty,))
        if e.els is None and rest is None:
            raise Unsupported("`if let` without `else` in value position")

        def arm(blk, bind):
            benv = dict(env)
            if bind:
                benv[e.var] = (self.lname(e.var), sty[1])
                self._declare(e.var, benv, False)
            if rest is None:
                return self.tail_block(blk, benv, d + 2)
            if blk is None:
                return self._indent_more(self._indent_more(rest(env)))
            shadow = [x for x in self._let_names(blk, []) if x in env]
            if shadow:
                raise Unsupported("`let %s` inside an `if let` arm shadows a variable of the enclosing scope" % shadow[0])

            def fin(e2, dd):
                env3 = dict(env)
                for x in env:
                    if not x.startswith("\0") and env.get(self.MUT + x) and x in e2:
                        env3[x] = e2[x]
                return self._indent_more(self._indent_more(rest(env3)))
            return self.tail_stmts(self._stmt_block(blk), 0, None, benv, d + 2, fin)
        some_arm = arm(e.then, True)
        none_arm = arm(e.els, False)
        out = "%smatch %s with\n%s| some %s =>\n%s\n%s| none =>\n%s" % (
            self.ind(d), sv, self.ind(d), self.lname(e.var), some_arm, self.ind(d), none_arm)
        return self.wrap(pre, out, d)

    def mloop_stmt(self, s, env, d, rest, panic=False):
        """`panic=True`: a loop whose body can PANIC (`assert!`, call of a panicking function): the same `List.foldlM` in the
        panic `Option` (the body's statements carry their guards / binds, it ends in `some state'`), followed by
        `(<fold>).bind fun state => rest`.
        `for pat in iter { body }` whose body contains `return None` (a function returning `Option<T>`):
        `List.foldlM (m := Option) (fun state item => body; some state') state iter`; `return None` is `none`.
        At function level:  `match <fold> with | none => <the function's None> | some state => rest`;
        inside the body of another such loop:  `(<fold>).bind fun state => rest`."""
        if panic:
            if self.mloop or self._has_return(self._parse_for(s)[2]):
                raise Unsupported("a loop body with both a panic source and an early `return`")
            self.need_option = True
            if not self.option_mode:
                raise Unsupported("panic source inside a loop body of a function translated without `Option`")
        elif not (isinstance(self.ret_ty, tuple) and self.ret_ty[0] == "opt"):
            raise Unsupported("early `return` inside a loop of a function that does not return `Option`")
        pat, it, body = self._parse_for(s)
        assigned = self._assigned(body, [])
        M = [x for x in self.decl_order if x in assigned and x in env and env.get(self.MUT + x)]
        if not M:
            raise Unsupported("loop `%s` assigns no `let mut` variable of the enclosing scope" % s.head)
        (itv, itty), pre = self.collect(lambda: self.expr(it, env))
        if not is_list(itty):
            raise Unsupported("`for` over a value of type %s" % (itty,))
        for x in M:
            if env[x][1] == ("list", None):
                env[x] = ("([] : List α)", V)
        tys, _ = self._state(M, env)
        init = [env[x][0] for x in M]
        benv = dict(env)
        if len(M) == 1:
            st, sty = self.lname(M[0]), tys[0]
            benv[M[0]] = (st, sty)
            init_txt = init[0]
        else:
            st, sty = self.fresh("st"), ("tup", tuple(tys))
            for k, x in enumerate(M):
                benv[x] = (self.proj(st, k, len(M)), tys[k])
            init_txt = "(%s)" % ", ".join(init)
        pn, pty = self.bind_pattern(pat, elem_ty(itty), benv)
        if isinstance(pat, str) and isinstance(itty, tuple) and itty[0] == "range":
            benv[self.LO + pat] = itty[1]
        finish = lambda e, dd: self.ind(dd) + "some " + (
            "(%s)" % ", ".join(e[x][0] for x in M) if len(M) > 1 else self.atom(e[M[0]][0]))
        saved = (self.in_closure, self.ploop)
        if panic:
            self.in_closure, self.ploop = 0, self.ploop + 1     # statements of the body carry their own guards / binds
        else:
            self.in_closure += 1
            self.mloop += 1
        try:
            btxt = self.tail_stmts(body.stmts, 0, None, benv, d + 2, finish)
        finally:
            self.in_closure, self.ploop = saved
            if not panic:
                self.mloop -= 1
        fold = "List.foldlM (m := Option) (fun (%s : %s) (%s : %s) =>\n%s) %s %s" % (
            st, lean_ty(sty), pn, lean_ty(pty), btxt, self.atom(init_txt), self.atom(itv))
        env2 = dict(env)
        if len(M) == 1:
            env2[M[0]] = (st, sty)
        else:
            for k, x in enumerate(M):
                env2[x] = (self.proj(st, k, len(M)), tys[k])
        if self.mloop or panic:
            out = "%s(%s).bind fun (%s : %s) =>\n%s" % (self.ind(d), fold, st, lean_ty(sty), self._indent_more(rest(env2)))
        else:
            none = "some none" if self.option_mode else "none"
            out = "%smatch %s with\n%s| none => %s\n%s| some %s =>\n%s" % (
                self.ind(d), fold, self.ind(d), none, self.ind(d), st, self._indent_more(rest(env2)))
        return self.wrap(pre, out, d)

    def _lean_ty(self, ty):
        if self.o.loops and (ty == V or not isinstance(ty, str)):
            return lean_ty(ty)
        if ty == V and not self.o.vectors:
            raise Unsupported("vector value (option vectors)")
        if ty == INTLIT:
            raise Unsupported("untyped integer literal bound by let")
        if ty == B:
            raise Unsupported("`let` of a bool")
        return LEAN_TY[ty]

    def macro_stmt(self, e, env, d, rest):
        if self.in_closure:
            raise Unsupported("macro `%s!` inside a closure / loop body" % e.name)
        if e.name in ("assert", "debug_assert"):
            if e.name == "debug_assert":
                raise Unsupported("debug_assert (build dependent)")
            p = Parser(self.src, *e.rng)
            c = p.expr()
            self.option_mode = True
            if self.o.mut:                # the condition may call a panicking function (`assert!(is_symmetric(a))`)
                cv, pre = self.collect(lambda: self.cond(c, env))
                return self.wrap(pre, "%sif %s then\n%s\n%selse none" % (
                    self.ind(d), cv, self._indent_more(rest()), self.ind(d)), d)
            return "%sif %s then\n%s\n%selse none" % (self.ind(d), self.cond(c, env), self._indent_more(rest()), self.ind(d))
        if e.name in ("assert_eq", "assert_ne"):
            p = Parser(self.src, *e.rng)
            a = p.expr()
            p.eat(",")
            b = p.expr()
            c = N("bin", op="==" if e.name == "assert_eq" else "!=", l=a, r=b)
            self.option_mode = True
            return "%sif %s then\n%s\n%selse none" % (self.ind(d), self.cond(c, env), self._indent_more(rest()), self.ind(d))
        if e.name in ("panic", "unreachable"):
            return self.ind(d) + "none"
        raise Unsupported("macro `%s!`" % e.name)

    def _indent_more(self, s):
        return "\n".join("  " + l if l else l for l in s.split("\n"))

    def if_stmt(self, e, env, d, rest):
        """`if c { ..diverges.. } [else if ..]`  followed by the rest of the block"""
        if not self._diverges(e.then):
            raise Unsupported("`if` statement whose block falls through (side effects only)")
        c = self.cond(e.c, env)
        then = self.tail_block(e.then, env, d + 1)
        if e.els is None:
            els = self._indent_more(rest())
        elif e.els.tail is not None and e.els.tail.kind == "if" and not e.els.stmts:
            els = self.if_stmt(e.els.tail, env, d + 1, lambda: self._indent_more(rest()))
        elif self._diverges(e.els):
            els = self.tail_block(e.els, env, d + 1)
        else:
            raise Unsupported("`else` block of an `if` statement falls through")
        return "%sif %s then\n%s\n%selse\n%s" % (self.ind(d), c, then, self.ind(d), els)

    # ---- expressions
    def atom(self, s):
        s = s.strip()
        if re.fullmatch(r"[\w.«»']+", s) or re.fullmatch(r"[\w.']+\[[^\[\]]*\]!", s):
            return s
        if s.startswith("(") and self._balanced_outer(s):
            return s
        return "(" + s + ")"

    @staticmethod
    def _balanced_outer(s):
        depth = 0
        for k, ch in enumerate(s):
            if ch == "(":
                depth += 1
            elif ch == ")":
                depth -= 1
                if depth == 0 and k != len(s) - 1:
                    return False
        return depth == 0

    def fexpr(self, e, env):
        v, ty = self.expr(e, env)
        if ty != F:
            raise Unsupported("expected an f64 expression, found %s: %s" % (ty, v))
        return v

    def cond(self, e, env):
        v, ty = self.expr(e, env)
        if ty != B:
            raise Unsupported("condition of type %s" % ty)
        return v

    def expr(self, e, env):
        """-> (lean text, type)"""
        o = self.o
        k = e.kind
        if k == "paren":
            return self.expr(e.e, env)
        if k == "lit":
            q, isf, suf = parse_float_literal(e.text)
            if isf:
                if suf == "f32":
                    raise Unsupported("f32 literal")
                return lit_to_lean(e.text, o.named_lits, o.auto_lits), F
            if suf in INT_SUFFIXES:
                return "(%d : %s)" % (q, "Int" if suf.startswith("i") else "Nat"), I if suf.startswith("i") else U
            return str(int(q)), INTLIT
        if k == "var" and o.mut and (self.INL + e.name) in env:
            return self.expr(self._inlined(e.name, env), env)
        if k == "var":
            if o.mut and e.name in env and isinstance(env[e.name][1], tuple) and env[e.name][1][0] == "adt" \
                    and env[e.name][1][1] in o.struct_mk and (self.MUT + e.name + "." + o.struct_types[env[e.name][1][1]][0][0]) in env:
                sty = env[e.name][1]                           # the struct rebuilt from its (possibly updated) fields
                return "(%s %s)" % (o.struct_mk[sty[1]], " ".join(
                    self.atom(env["%s.%s" % (e.name, f)][0]) for f, _ in o.struct_types[sty[1]])), sty
            if e.name in env:
                return env[e.name]
            if o.mut and e.name == "None":
                return "none", ("opt", None)
            if o.mut and e.name in ("true", "false"):
                return e.name, B
            return self.const(e.name, env), F
        if k == "path":
            if o.mut and "::".join(e.segs) in o.adt_ctors:
                return self.adt_value("::".join(e.segs), [], env)
            return self.const("::".join(e.segs), env), F
        if k == "field":
            if o.mut and e.e.kind == "var" and (e.e.name + "." + e.name) in env:
                return env[e.e.name + "." + e.name]            # field of a struct parameter (option `struct_types`)
            if e.e.kind == "var" and e.e.name == "self":
                key = "self." + e.name
                if key not in env:
                    raise Unsupported("self.%s is not a scalar field binder" % e.name)
                return env[key]
            raise Unsupported("field access on a non-self value")
        if k == "un":
            if e.op in ("&", "*"):
                v, ty = self.expr(e.e, env)
                if ty not in (F, I, U, INTLIT, V) and not (o.mut and (is_list(ty) or is_tup(ty) or ty == B)):
                    raise Unsupported("`%s` on %s" % (e.op, ty))
                return v, ty                                   # reference / dereference of a Copy scalar (or a slice)
            v, ty = self.expr(e.e, env)
            if e.op == "-":
                if ty == F:
                    return "(-%s)" % self.atom(v), F
                if ty == V:
                    return "(List.map (- ·) %s)" % self.atom(v), V      # `impl Neg for Vector`
                if ty in (I, INTLIT) and o.int_arith:
                    return "(-%s)" % self.atom(v), I
                raise Unsupported("unary minus on %s" % ty)
            if e.op == "!":
                if ty != B:
                    raise Unsupported("`!` on %s" % ty)
                return "¬ %s" % self.atom(v), B
        if k == "bin":
            return self.binop(e, env)
        if k == "cast":
            inner = e.e
            while inner.kind == "paren":
                inner = inner.e
            if o.loops and rust_ty(e.ty) == U and inner.kind == "method" and inner.name == "abs" and not inner.args:
                v, ty = self.expr(inner.recv, env)
                if ty == I:                                   # `k.abs() as usize` of a signed integer: |k|
                    return "(Int.natAbs %s)" % self.atom(v), U
            v, ty = self.expr(e.e, env)
            want = rust_ty(e.ty)
            if want == F:
                if ty == F:
                    return v, F
                if ty == U:
                    return "((%s : Nat) : α)" % v, F
                if ty == I:
                    return "((%s : Int) : α)" % v, F
                if ty == INTLIT:
                    return "((%s : Nat) : α)" % v, F
            if want == ty:
                return v, ty
            if want == I and ty == U and o.int_arith:
                return "((%s : Nat) : Int)" % v, I
            if want == U and ty == F and o.mut and o.f64_to_usize:
                return "(%s)" % o.f64_to_usize.format(self.atom(v)), U
            if want == I and ty == F and o.mut and o.f64_to_i64:
                return "(%s)" % o.f64_to_i64.format(self.atom(v)), I
            if want == U and ty == I and o.mut and o.int_arith:
                # `p as usize` of a signed integer: a negative `p` wraps to a huge index (out of bounds: not modelled)
                return "(Int.toNat %s)" % self.atom(v), U
            if e.ty == "u64" and ty == I and o.wrapping_casts:
                return "(%s %% 18446744073709551616).toNat" % self.atom(v), U
            raise Unsupported("cast of %s to %s" % (ty, e.ty))
        if k == "method":
            return self.method(e, env)
        if k == "call":
            return self.call(e, env)
        if k == "if":
            if e.els is None:
                raise Unsupported("`if` without else as a value")
            c = self.cond(e.c, env)
            if o.mut and self.pre_stack and not self.in_closure and (self._can_panic(e.then) or self._can_panic(e.els)):
                # a branch can panic: the `if` is evaluated in `Option` (each branch hoists its own panic sources) and bound
                def branch(blk):
                    (v, ty), pre = self.collect(lambda: self.block_value(blk, env))
                    return self.wrap(pre, "some %s" % self.atom(v), 0), ty
                a, ta = branch(e.then)
                b, tb = branch(e.els)
                if not compat(ta, tb) and not compat(tb, ta):
                    raise Unsupported("if branches of different types")
                ty = tb if ta == INTLIT or (isinstance(ta, tuple) and ta[0] == "opt" and ta[1] is None) else ta
                r = self.fresh("r")
                self.add_pre(("bind", r, "(if %s then\n%s\nelse\n%s)" % (c, self._indent_more(a), self._indent_more(b)), deflt(ty)),
                             "`if` with a panicking branch")
                return r, deflt(ty)
            self.in_closure += 1 if o.mut else 0      # a panic source inside a branch must not be hoisted in front of the `if`
            try:
                a, ta = self.block_value(e.then, env)
                b, tb = self.block_value(e.els, env)
            finally:
                self.in_closure -= 1 if o.mut else 0
            if ta != tb and o.mut and compat(ta, tb):
                ta = tb = (tb if ta == INTLIT or (isinstance(ta, tuple) and ta[0] == "opt" and ta[1] is None) else ta)
            if ta != tb:
                raise Unsupported("if branches of different types")
            return "(if %s then %s else %s)" % (c, a, b), ta
        if k == "block":
            return self.block_value(e, env)
        if o.mut and k == "array":
            if not e.items:
                raise Unsupported("empty array literal")
            vals = [self.expr(x, env) for x in e.items]       # `[a, b]`: a fixed-size array is a tuple
            if all(t == F for _, t in vals):                  # .. except arrays of f64, which are only used as data: a list
                return "[%s]" % ", ".join(v for v, _ in vals), V
            if len(vals) == 1:
                return "[%s]" % vals[0][0], mk_list(deflt(vals[0][1]))
            return "(%s)" % ", ".join(v for v, _ in vals), ("tup", tuple(deflt(t) for _, t in vals))
        if o.mut and k == "macro" and e.name == "vec":
            return self.vec_macro(e, env)
        if o.mut and k == "match":
            return self.match_value(e, env)
        if o.mut and k == "structlit":
            name = self.fn.impl if e.name == "Self" and self.fn.impl else e.name
            if name not in o.struct_mk or name not in o.struct_types or name not in o.adts:
                raise Unsupported("struct literal `%s` (options struct_mk / struct_types / adts)" % name)
            decl = o.struct_types[name]
            if sorted(f for f, _ in e.fields) != sorted(f for f, _ in decl):
                raise Unsupported("struct literal `%s`: fields differ from the declared ones" % name)
            vals = {}
            for f, fe in e.fields:                             # evaluated in the order of the literal
                v, ty = self.expr(fe, env)
                want = dict(decl)[f]
                want = {"nat": U, "int": I, "f64": F, "vec": V, "bool": B}.get(want, want)
                if not compat(ty, want):
                    raise Unsupported("struct literal `%s`: field `%s` of type %s" % (name, f, ty))
                vals[f] = self.atom(v)
            return "(%s %s)" % (o.struct_mk[name], " ".join(vals[f] for f, _ in decl)), ("adt", name, o.adts[name])
        if o.mut and k == "index" and o.closure and e.e.kind == "var" and \
                (e.e.name, self.src.pretty(e.rng)) in o.closure.get("index_vars", {}):
            ivv = o.closure["index_vars"][(e.e.name, self.src.pretty(e.rng))]     # a declared scalar of a fragment
            if isinstance(ivv, tuple):                         # (binder, "var"): an element of a `Vec<Var>`
                return ivv[0], {"var": VAR, "f64": F}[ivv[1]]
            return ivv, F
        if o.loops and k in ("tuple", "tfield", "range", "closure", "index"):
            return self.loop_expr(e, env)
        if k == "index":
            cl = o.closure or {}
            iv = cl.get("index_vars", {})
            if e.e.kind == "var":
                key = (e.e.name, self.src.pretty(e.rng))
                if key in iv:
                    if isinstance(iv[key], tuple):             # (binder, "var"): an element of a `Vec<Var>`
                        return iv[key][0], {"var": VAR, "f64": F}[iv[key][1]]
                    return iv[key], F
                raise Unsupported("indexing `%s[%s]` (option index_vars)" % key)
            raise Unsupported("indexing")
        if k == "range":
            raise Unsupported("range outside `.contains`")
        if k == "macro":
            raise Unsupported("macro `%s!` in expression position" % e.name)
        raise Unsupported("expression kind %s" % k)

    def block_value(self, blk, env):
        """a block used as a pure value: lets + tail"""
        env = dict(env)
        out = ""
        for s in blk.stmts:
            if s.kind != "let" or s.mut:
                raise Unsupported("statement `%s` inside an expression block" % s.kind)
            out += self.let_lines(s, env, 0).strip() + "; "
        if blk.tail is None:
            raise Unsupported("expression block without value")
        v, ty = self.expr(blk.tail, env)
        return ("(" + out + v + ")" if out else v), ty

    def const(self, key, env):
        o = self.o
        if key in o.consts:
            return o.consts[key]
        last = key.split("::")[-1]
        if "::" not in key and key in self.src.consts:
            ty, rng = self.src.consts[key]
            if rust_ty(ty) != F:
                raise Unsupported("const %s: %s" % (key, ty))
            e = Parser(self.src, *rng).expr()
            return self.atom(self.fexpr(e, {}))            # inlined initializer (consts see no locals)
        if o.default_consts and key in DEFAULT_CONSTS and key not in env:
            self.uses.add("Cv.F64Consts")
            return "(%s : α)" % DEFAULT_CONSTS[key]
        raise Unsupported("constant `%s` has no spelling (option `consts`)" % key) if last else None

    def binop(self, e, env):
        o = self.o
        op = e.op
        if op in ("&&", "||") and o.mut and self._can_panic(e.r) and self.pre_stack and not self.in_closure:
            # short circuit: the right operand (which can panic) is only evaluated when the left one does not decide
            a = self.cond(e.l, env)
            b, pre = self.collect(lambda: self.cond(e.r, env))
            inner = self.wrap(pre, "some (decide %s)" % self.atom(b), 0)
            r = self.fresh("r")
            if op == "&&":
                text = "(if %s then\n%s\nelse some false)" % (a, self._indent_more(inner))
            else:
                text = "(if %s then some true else\n%s)" % (a, self._indent_more(inner))
            self.add_pre(("bind", r, text, B), "`%s` with a panicking right operand" % op)
            return r, B
        if op in ("&&", "||"):
            a, b = self.cond(e.l, env), self.cond(e.r, env)
            return "%s %s %s" % (self.atom(a), "∧" if op == "&&" else "∨", self.atom(b)), B
        if op == "+" and o.mut and o.normalize:
            rr = e.r
            while rr.kind == "paren":
                rr = rr.e
            if rr.kind == "bin" and rr.op == "+":
                # (normal form) `a + (b + c)` of usize is `(a + b) + c`; f64 sums are NEVER re-associated
                saved_fresh = self.fresh_n
                try:
                    (tl0, tr0), _ = self.collect(lambda: (self.expr(e.l, env)[1], self.expr(rr, env)[1]))
                except Unsupported:
                    tl0 = tr0 = None
                self.fresh_n = saved_fresh
                if tl0 in (U, INTLIT) and tr0 in (U, INTLIT):
                    return self.binop(N("bin", op="+", l=N("bin", op="+", l=e.l, r=rr.l), r=rr.r), env)
        l, tl = self.expr(e.l, env)
        r, tr = self.expr(e.r, env)
        if op in ("&", "|") and tl == B and tr == B:
            return "%s %s %s" % (self.atom(l), "∧" if op == "&" else "∨", self.atom(r)), B
        if op == "%" and o.mut and o.int_arith and tl in (U, INTLIT) and tr in (U, INTLIT) and (tl, tr) != (INTLIT, INTLIT):
            if not (tr == INTLIT and r.strip().isdigit() and int(r) > 0):
                self.add_pre(("guard", "0 < %s" % self.atom(r)), "`usize` remainder `%s %% %s`" % (l, r))
            return "(%s %% %s)" % (self.atom(l), self.atom(r)), U
        if op in ("+", "-", "*", "/"):
            if tl == F and tr == F:
                return "(%s %s %s)" % (self.atom(l), op, self.atom(r)), F
            if o.mut and tl == VAR and tr == F and op in ("+", "-"):
                # `impl Sub<f64> for Var` of the `reverse` crate: `self.add(rhs.neg())`, i.e. `val + (-rhs)`; `Add<f64>`: `val + rhs`
                return ("(%s + (-%s))" if op == "-" else "(%s + %s)") % (self.atom(l), self.atom(r)), VAR
            if (tl, tr) in VEC_BIN:
                return VEC_BIN[(tl, tr)].format(op=op, l=self.atom(l), r=self.atom(r)), V
            ints = (I, U, INTLIT)
            if tl in ints and tr in ints:
                if not o.int_arith:
                    raise Unsupported("integer arithmetic `%s` (option int_arith: overflow is not modelled)" % op)
                ty = tl if tl != INTLIT else tr
                if ty == INTLIT:
                    raise Unsupported("arithmetic on two untyped integer literals")
                if tl != INTLIT and tr != INTLIT and tl != tr:
                    raise Unsupported("mixed signed/unsigned arithmetic")
                if ty == U and op == "-":
                    if not o.loops:
                        raise Unsupported("unsigned subtraction (underflow panics)")
                    # `usize` subtraction panics on underflow: guard `r ≤ l`, unless `l` is the index of a range whose
                    # lower bound IS `r` (then `r ≤ l` holds by construction)
                    safe = e.l.kind == "var" and env.get(self.LO + e.l.name) == self.atom(r)
                    if not safe:
                        self.add_pre(("guard", "%s ≤ %s" % (self.atom(r), self.atom(l))), "checked subtraction `%s - %s`" % (l, r))
                if op == "/":
                    if not (o.loops and ty == U):
                        raise Unsupported("integer division")
                    if not (o.mut and tr == INTLIT and r.strip().isdigit() and int(r) > 0):     # a non-zero literal divisor cannot panic
                        self.add_pre(("guard", "0 < %s" % self.atom(r)), "`usize` division `%s / %s`" % (l, r))
                return "(%s %s %s)" % (self.atom(l), op, self.atom(r)), ty
            raise Unsupported("operator `%s` on %s and %s" % (op, tl, tr))
        if op == "==" and o.mut and is_tup(tl) and is_tup(tr) and len(tl[1]) == len(tr[1]):
            # arrays / tuples of integers: component-wise conjunction
            cl, cr = self.components(e.l, l, tl), self.components(e.r, r, tr)
            parts = []
            for (a, ta), (b, tb) in zip(cl, cr):
                if ta not in (I, U, INTLIT) or tb not in (I, U, INTLIT) or (ta != tb and INTLIT not in (ta, tb)):
                    raise Unsupported("`==` on tuples with components of type %s, %s" % (ta, tb))
                parts.append("%s = %s" % (self.atom(a), self.atom(b)))
            return " ∧ ".join(parts), B
        if op in ("==", "!=", "<", ">", "<=", ">="):
            if tl == F and tr == F:
                sym = {"==": "==", "!=": "!=", "<": "<", ">": ">", "<=": "≤", ">=": "≥"}[op]
                return "%s %s %s" % (self.atom(l), sym, self.atom(r)), B
            ints = (I, U, INTLIT)
            if tl in ints and tr in ints:
                if tl != INTLIT and tr != INTLIT and tl != tr:
                    raise Unsupported("comparison of signed with unsigned")
                sym = {"==": "=", "!=": "≠", "<": "<", ">": ">", "<=": "≤", ">=": "≥"}[op]
                return "%s %s %s" % (self.atom(l), sym, self.atom(r)), B
            raise Unsupported("comparison `%s` of %s and %s" % (op, tl, tr))
        raise Unsupported("operator `%s`" % op)

    def method(self, e, env):
        o = self.o
        name = e.name
        # (a..=b).contains(&x)
        recv = e.recv
        while recv.kind == "paren":
            recv = recv.e
        if name == "contains" and recv.kind == "range":
            if len(e.args) != 1:
                raise Unsupported("contains arity")
            lo, tlo = self.expr(recv.lo, env)
            hi, thi = self.expr(recv.hi, env)
            x, tx = self.expr(e.args[0], env)
            if not (tlo == thi == tx == F):
                raise Unsupported("`contains` on non-f64 range")
            # RangeInclusive::contains: `lo <= x && x <= hi`
            return "%s ≤ %s ∧ %s %s %s" % (self.atom(lo), self.atom(x), self.atom(x), "≤" if recv.incl else "<",
                                            self.atom(hi)), B
        if recv.kind == "var" and recv.name == "self" and o.mut and name in o.self_methods:
            fnm, rty, can_panic = o.self_methods[name]
            rty = {"nat": U, "int": I, "f64": F, "vec": V, "bool": B}.get(rty, rty)
            args = [self.atom(self.expr(a, env)[0]) for a in e.args]
            text = fnm.format(*args) if "{0}" in fnm else "(%s)" % " ".join([fnm] + self.self_args + args)
            if can_panic:
                v = self.fresh("r")
                self.add_pre(("bind", v, text, rty), "call of the panicking method `self.%s`" % name)
                return v, rty
            return text, rty
        if recv.kind == "var" and recv.name == "self":
            if name in o.self_calls and not e.args:
                return "(%s)" % " ".join([o.self_calls[name]] + self.self_args), F
            raise Unsupported("method call self.%s(..) (option self_calls)" % name)
        if o.loops and name == "unwrap" and not e.args and recv.kind == "call" and (
                "::".join(recv.path) in o.opt_fns or recv.path[-1] in o.opt_fns):
            return self.expr(recv, env)             # `f(..).unwrap()`: the call is bound (`none` = Err / panic)
        if o.mut and not e.args and recv.kind == "field" and recv.e.kind == "var" and recv.e.name == "self" \
                and (recv.name + "." + name) in o.field_calls:
            t_, ty_ = o.field_calls[recv.name + "." + name]
            return t_, {"nat": U, "int": I, "f64": F, "vec": V, "bool": B}.get(ty_, ty_)
        if o.mut and not e.args and recv.kind == "call" and ("::".join(recv.path) + "." + name) in o.field_calls:
            t_, ty_ = o.field_calls["::".join(recv.path) + "." + name]
            if "{0}" in t_:                      # the constructor's arguments are kept: e.g. "(gsample {0} {1})"
                cargs = [self.atom(self.expr(a, env)[0]) for a in recv.args]
                if len(set(re.findall(r"\{(\d)\}", t_))) != len(cargs):
                    raise Unsupported("`%s(..).%s()`: arity" % ("::".join(recv.path), name))
                t_ = t_.format(*cargs)
            return t_, {"nat": U, "int": I, "f64": F, "vec": V, "bool": B}.get(ty_, ty_)
        if o.mut and name == "unwrap" and not e.args and recv.kind == "method" and recv.name == "split_first" and not recv.args:
            # `x.split_first().unwrap()` = `(&x[0], &x[1..])`: an index / slice panic on an empty slice, NOT modelled
            r, tr = self.expr(recv.recv, env)
            if not is_list(tr) or (isinstance(tr, tuple) and tr[0] == "range") or tr == ("list", None):
                raise Unsupported("`.split_first()` on a value of type %s" % (tr,))
            ra = self.atom(r)
            return "(%s[0]!, (List.tail %s))" % (ra, ra), ("tup", (elem_ty(tr), norm_list(tr)))
        if o.mut and recv.kind == "var" and (recv.name + "." + name) in env and not e.args:
            return env[recv.name + "." + name]         # `m.shape()` of a struct parameter (option `struct_methods`)
        r, tr = self.expr(e.recv, env)
        if o.mut and isinstance(tr, tuple) and tr[0] == "opt":
            if name in ("unwrap", "expect") and tr[1] is not None:
                v = self.fresh("r")                    # `None.unwrap()` panics: the value is bound (`none` = panic)
                self.add_pre(("bind", v, r, tr[1]), "`.%s()` of an `Option`" % name)
                return v, tr[1]
            raise Unsupported("method `.%s` on an `Option`" % name)
        if o.mut and is_tup(tr):
            return self.tuple_method(e, r, tr, env)
        if o.loops and (is_list(tr) or isinstance(tr, tuple)):
            return self.iter_method(e, r, tr, env)
        if tr == V:
            if name == "len" and not e.args:
                return "%s.length" % self.atom(r), U
            if name in ("exp", "ln", "sqrt", "abs", "sin", "cos") and not e.args:
                return "(Cv.Vops.vun Cv.Transc.%s %s)" % (name, self.atom(r)), V
            raise Unsupported("method `.%s` on a vector" % name)
        if o.mut and tr == U and name == "saturating_sub" and len(e.args) == 1:
            a, ta = self.expr(e.args[0], env)
            if ta in (U, INTLIT):
                return "(%s - %s)" % (self.atom(r), self.atom(a)), U         # truncated subtraction of `Nat`
        if tr != F:
            raise Unsupported("method `.%s` on %s" % (name, tr))
        if o.mut and name in o.bool_methods and not e.args:
            return o.bool_methods[name].format(self.atom(r)), B
        if name == "powi":
            if len(e.args) != 1:
                raise Unsupported("powi arity")
            a, ta = self.expr(e.args[0], env)
            if ta == INTLIT:
                return "(Cv.powi %s %s)" % (self.atom(r), a), F
            if ta == I:
                return "(Cv.powi %s %s)" % (self.atom(r), self.atom(a)), F
            raise Unsupported("powi exponent of type %s" % ta)
        table = dict(DEFAULT_METHODS)
        table.update(o.methods)
        if name not in table:
            raise Unsupported("method `.%s()` has no spelling (option `methods`)" % name)
        args = [self.atom(r)] + [self.atom(self.fexpr(a, env)) for a in e.args]
        tmpl = table[name]
        need = len(set(re.findall(r"\{(\d)\}", tmpl)))
        if need != len(args):
            raise Unsupported("method `.%s` arity" % name)
        out = tmpl.format(*args)
        return (out if out.startswith("(") else "(" + out + ")"), F

    def _helper(self, e):
        """the private function of the same file a call `Self::h(..)` / `h(..)` refers to, if it is to be inlined"""
        o = self.o
        if not (o.mut and o.inline_helpers) or "::".join(e.path) in o.fns or e.path[-1] in o.fns:
            return None
        if len(e.path) == 2 and e.path[0] in ("Self", self.fn.impl or "\0"):
            cands = [f for f in self.src.fns if f.name == e.path[1] and f.impl == self.fn.impl and f.mod is None and f.macro is None]
        elif len(e.path) == 1:
            cands = [f for f in self.src.fns if f.name == e.path[0] and f.impl is None and f.trait is None and f.mod is None
                     and f.macro is None]
        else:
            return None
        if len(cands) != 1 or cands[0] is self.fn:
            return None
        f = cands[0]
        T = self.src.toks
        k = f.params[0] - 2                       # `fn name (`: look backwards for `pub`
        while k >= 0 and T[k].s not in (";", "}", "{", "]"):
            if T[k].s == "pub":
                return None                       # only PRIVATE helpers are inlined (public functions have their own tie)
            k -= 1
        return f

    def inline_helper(self, f, e, env):
        """-> (value text, type) or (None, None) for a unit helper; the helper's `assert!` / `if c { panic!() }` are registered as
        guards of the calling statement, its immutable `let`s are substituted"""
        if getattr(self, "inline_depth", 0) > 4:
            raise Unsupported("helper calls nested too deeply")
        T, mt = self.src.toks, self.src.mt
        segs, i = [], f.params[0]
        while i < f.params[1]:
            j, depth = i, 0
            while j < f.params[1] and not (T[j].s == "," and depth == 0):
                if T[j].s in ("(", "[", "{"):
                    j = mt[j]
                elif T[j].s == "<":
                    depth += 1
                elif T[j].s == ">":
                    depth -= 1
                j += 1
            segs.append([t.s for t in T[i:j]])
            i = j + 1
        if any("self" in sg and ":" not in sg for sg in segs):
            raise Unsupported("helper `%s` takes `self`" % f.name)
        if len(segs) != len(e.args):
            raise Unsupported("helper `%s`: arity" % f.name)
        henv = {k_: v_ for k_, v_ in env.items() if k_.startswith("self.")}
        for sg, a in zip(segs, e.args):
            if ":" not in sg or sg.index(":") != 1:
                raise Unsupported("helper `%s`: parameter pattern" % f.name)
            v, ty = self.expr(a, env)
            want = self.ty2("".join(sg[2:]))
            if want is None or not compat(ty, want):
                raise Unsupported("helper `%s`: argument of type %s for `%s`" % (f.name, ty, "".join(sg[2:])))
            henv[sg[0]] = (self.atom(v), want)
            self._declare(sg[0], henv, False)
        body = Parser(self.src, *f.body).block_body()
        self.inline_depth = getattr(self, "inline_depth", 0) + 1
        try:
            for st in body.stmts:
                if st.kind == "exprstmt" and st.e.kind == "macro" and st.e.name in ("assert", "assert_eq"):
                    p = Parser(self.src, *st.e.rng)
                    c = p.expr()
                    if st.e.name == "assert_eq":
                        p.eat(",")
                        c = N("bin", op="==", l=c, r=p.expr())
                    self.add_pre(("guard", self.cond(c, henv)), "`assert!` of the helper `%s`" % f.name)
                elif st.kind == "exprstmt" and st.e.kind == "if" and st.e.els is None and self._diverges(st.e.then) \
                        and not self._has_return(st.e.then):
                    self.add_pre(("panic_if", self.cond(st.e.c, henv)), "`panic!` of the helper `%s`" % f.name)
                elif st.kind == "let" and not st.mut and isinstance(st.pat, str):
                    v, ty = self.expr(st.e, henv)
                    henv[st.pat] = (self.atom(v), ty)
                    self._declare(st.pat, henv, False)
                else:
                    raise Unsupported("helper `%s`: statement outside the inlined subset (%s)" % (f.name, st.kind))
            if body.tail is None:
                return None, None
            return self.expr(body.tail, henv)
        finally:
            self.inline_depth -= 1

    def call(self, e, env):
        o = self.o
        key = "::".join(e.path)
        name = e.path[-1]
        hf = self._helper(e)
        if hf is not None:
            v, ty = self.inline_helper(hf, e, env)
            if v is None:
                raise Unsupported("helper `%s` has no value" % hf.name)
            return v, ty
        if o.vectors and key not in o.fns:
            vals = [self.expr(a, env) for a in e.args]
            if key == "Vector::from" and len(vals) == 1 and vals[0][1] == V:
                return vals[0]                                    # a copy of the slice
            if key == "Vector::ones" and len(vals) == 1 and vals[0][1] == U:
                return "(List.replicate %s 1)" % self.atom(vals[0][0]), V
            if key in VEC_FNS and len(vals) == 2 and vals[0][1] == V and vals[1][1] == V:
                return VEC_BIN[(V, V)].format(op=VEC_FNS[key], l=self.atom(vals[0][0]), r=self.atom(vals[1][0])), V
        if o.mut and key in ("Vector::new", "Vector::from") and len(e.args) == 1 and key not in o.fns:
            v, ty = self.expr(e.args[0], env)
            if is_list(ty) and not (isinstance(ty, tuple) and ty[0] == "range"):
                return v, ty                                  # `Vector` is a newtype of `Vec<f64>`
            raise Unsupported("`%s` of a value of type %s" % (key, ty))
        if o.mut and key == "Some" and len(e.args) == 1:
            v, ty = self.expr(e.args[0], env)
            return "(some %s)" % self.atom(v), ("opt", deflt(ty))
        if o.mut and key in o.adt_ctors:
            return self.adt_value(key, e.args, env)
        if o.loops and (key in ("Vec::new", "Vec::with_capacity") or (o.mut and key in ("Vector::with_capacity",))):
            for a in e.args:
                self.expr(a, env)
            return "[]", ("list", None)                    # element type: fixed by the first `push`
        fn = o.fns.get(key, o.fns.get(name))
        if fn is None:
            raise Unsupported("call of `%s` has no spelling (option `fns`)" % key)
        if o.loops:
            # arguments of any type (slices, tuples); the result type is declared (`fn_ret`), read off the signature of a
            # function of the same file, or f64; a function that can panic (`opt_fns`) is bound before the statement
            args = []
            for a in e.args:
                av, aty = self.expr(a, env)
                args.append(av if isinstance(aty, tuple) and aty[0] == "struct" else self.atom(av))
            rty = o.fn_ret.get(key, o.fn_ret.get(name)) or (self._sig_ret(name) if len(e.path) == 1 else None) or F
            if "{0}" in fn:                                    # a template: e.g. "Cv.LA.isSquare {0}.length"
                if len(set(re.findall(r"\{(\d)\}", fn))) != len(args):
                    raise Unsupported("call of `%s`: arity" % key)
                text = "(%s)" % fn.format(*args)
            else:
                text = "(%s)" % " ".join([fn] + args)
            if key in o.opt_fns or name in o.opt_fns:
                v = self.fresh("r")
                self.add_pre(("bind", v, text, rty), "call of the panicking function `%s`" % key)
                return v, rty
            return text, rty
        args = [self.atom(self.fexpr(a, env)) for a in e.args]
        return "(%s)" % " ".join([fn] + args), F

    def _sig_ret(self, name):
        try:
            f = self.src.find_fn(name)
        except NotFound:
            return None
        names = [t.s for t in self.src.toks[f.ret[0]:f.ret[1]]]
        if not names or names[0] != "->":
            return None
        rtxt = "".join(names[1:]).split("where")[0]
        m_ = re.fullmatch(r"Result<(.*),String>", rtxt)
        return self.ty2(m_.group(1) if m_ else rtxt)

    # ---- the loop / iterator-chain subset: expressions (option `loops`)
    def loop_expr(self, e, env):
        k = e.kind
        if k == "tuple":
            vals = [self.expr(x, env) for x in e.items]
            if not vals:
                raise Unsupported("unit value")
            return "(%s)" % ", ".join(v for v, _ in vals), ("tup", tuple(deflt(t) for _, t in vals))
        if k == "tfield":
            v, ty = self.expr(e.e, env)
            if not is_tup(ty) or e.idx >= len(ty[1]):
                raise Unsupported("tuple field `.%d` of a value of type %s" % (e.idx, ty))
            return self.proj(v, e.idx, len(ty[1])), ty[1][e.idx]
        if k == "range":
            if e.incl:
                raise Unsupported("inclusive range")
            lo, tlo = self.expr(e.lo, env)
            hi, thi = self.expr(e.hi, env)
            if self.o.mut and self.o.int_arith and I in (tlo, thi) and tlo in (I, INTLIT) and thi in (I, INTLIT):
                # a range of signed integers: `lo + k` for `k = 0 .. (hi - lo)` (empty when `hi ≤ lo`: `Int.toNat` truncates)
                lo, hi = self.atom(lo), self.atom(hi)
                if lo == "0":
                    return "(List.map (fun (k : Nat) => ((k : Nat) : Int)) (List.range (Int.toNat %s)))" % hi, ("list", I)
                return "(List.map (fun (k : Nat) => (%s + ((k : Nat) : Int))) (List.range (Int.toNat (%s - %s))))" % (
                    lo, hi, lo), ("list", I)
            if tlo not in (U, INTLIT) or thi not in (U, INTLIT):
                raise Unsupported("range of %s .. %s (only usize)" % (tlo, thi))
            lo, hi = self.atom(lo), self.atom(hi)
            # `lo..hi` of usize: empty when hi ≤ lo (Lean's truncated `hi - lo` is the length)
            return ("(List.range %s)" % hi if lo == "0" else "(List.range' %s (%s - %s))" % (lo, hi, lo)), ("range", lo)
        if k == "index":
            composed = self._view_compose(e, env)
            if composed is not None:
                return self.expr(composed, env)
        if k == "index" and e.idx.kind == "range" and self.o.mut:
            # a slice `v[lo..hi]` / `v[..hi]` / `v[lo..]`: `take (hi - lo) (drop lo v)` (the panics of slicing — `hi < lo`,
            # `hi > len` — are NOT modelled, as for element reads)
            v, ty = self.expr(e.e, env)
            if not is_list(ty) or (isinstance(ty, tuple) and ty[0] == "range") or ty == ("list", None):
                raise Unsupported("slice of a value of type %s" % (ty,))
            r = e.idx
            if r.incl:
                raise Unsupported("inclusive slice")
            lo = hi = None
            if r.lo is not None:
                lo, tlo = self.expr(r.lo, env)
                if tlo not in (U, INTLIT):
                    raise Unsupported("slice bound of type %s" % (tlo,))
                lo = self.atom(lo)
            if r.hi is not None:
                hi, thi = self.expr(r.hi, env)
                if thi not in (U, INTLIT):
                    raise Unsupported("slice bound of type %s" % (thi,))
                hi = self.atom(hi)
            va = self.atom(v)
            if lo is None and hi is None:
                return v, ty
            if lo is None:
                return "(List.take %s %s)" % (hi, va), norm_list(ty)
            if hi is None:
                return "(List.drop %s %s)" % (lo, va), norm_list(ty)
            return "(List.take (%s - %s) (List.drop %s %s))" % (hi, lo, lo, va), norm_list(ty)
        if k == "range" and (e.lo is None or e.hi is None):
            raise Unsupported("open range outside a slice")
        if k == "index":
            v, ty = self.expr(e.e, env)
            i, ti = self.expr(e.idx, env)
            if isinstance(ty, tuple) and ty[0] == "win":
                if ti != INTLIT or i not in ("0", "1"):
                    raise Unsupported("index `%s` into a window of 2" % i)
                return self.atom(v) + (".1" if i == "0" else ".2"), F
            if not is_list(ty) or ti not in (U, INTLIT):
                raise Unsupported("indexing a %s with a %s" % (ty, ti))
            # `x[i]`: the out-of-bounds panic is NOT modelled (`getElem!`); the option `loops` is the acknowledgement
            if self.o.mut and self.o.index_read and elem_ty(ty) == F:
                return "(%s)" % self.o.index_read.format(self.atom(v), self.atom(i)), F
            return "%s[%s]!" % (self.atom(v), i), elem_ty(ty)
        raise Unsupported("closure outside an iterator adaptor")

    def components(self, e, v, ty):
        """the components of a tuple-typed value: the items of a literal `(a, b)` / `[a, b]` text, else projections"""
        n = len(ty[1])
        v = v.strip()
        if v.startswith("(") and self._balanced_outer(v):
            parts, depth, cur = [], 0, ""
            for ch in v[1:-1]:
                if ch in "([":
                    depth += 1
                elif ch in ")]":
                    depth -= 1
                if ch == "," and depth == 0:
                    parts.append(cur.strip())
                    cur = ""
                else:
                    cur += ch
            parts.append(cur.strip())
            if len(parts) == n:
                return list(zip(parts, ty[1]))
        return [(self.proj(v, k, n), ty[1][k]) for k in range(n)]

    def tuple_method(self, e, r, tr, env):
        """`[a, b].contains(&x)` on an array of integers: `a = x ∨ b = x`"""
        if e.name == "contains" and len(e.args) == 1:
            x, tx = self.expr(e.args[0], env)
            comps = self.components(e.recv, r, tr)
            if tx not in (I, U, INTLIT) or any(t not in (I, U) for _, t in comps):
                raise Unsupported("`.contains` on an array of %s" % (tr,))
            return " ∨ ".join("%s = %s" % (self.atom(a), self.atom(x)) for a, _ in comps), B
        raise Unsupported("method `.%s` on a value of type %s" % (e.name, tr))

    def adt_value(self, key, args, env):
        """an enum value `Enum::Ctor` / `Enum::Ctor(e, ..)` (options `adts`, `adt_ctors`)"""
        o = self.o
        tname = key.split("::")[0]
        if tname not in o.adts:
            raise Unsupported("enum `%s` has no Lean type (option `adts`)" % tname)
        vals = []
        for a in args:
            v, ty = self.expr(a, env)
            if ty not in (U, I, INTLIT, F):
                raise Unsupported("enum constructor argument of type %s" % (ty,))
            vals.append(self.atom(v))
        text = " ".join([o.adt_ctors[key]] + vals)
        return ("(%s)" % text if vals else text), ("adt", tname, o.adts[tname])

    def match_value(self, e, env):
        """`match x { Enum::A => e1, Enum::B => e2, _ => e3 }` on an enum value (option `adts`) as a pure value"""
        sv, sty = self.expr(e.scrut, env)
        if not (isinstance(sty, tuple) and sty[0] == "adt"):
            raise Unsupported("`match` on a value of type %s" % (sty,))
        arms, rty = [], None
        self.in_closure += 1
        try:
            for pat, pargs, body in e.arms:
                if pat is None:
                    lp = "_"
                else:
                    key = "::".join(pat)
                    if key not in self.o.adt_ctors or key.split("::")[0] != sty[1]:
                        raise Unsupported("`match` pattern `%s` (option `adt_ctors`)" % key)
                    if pargs:
                        raise Unsupported("`match` pattern with arguments")
                    lp = self.o.adt_ctors[key]
                v, ty = (self.block_value(body, env) if body.kind == "block" else self.expr(body, env))
                if rty is None:
                    rty = deflt(ty)
                elif not compat(ty, rty):
                    raise Unsupported("`match` arms of different types")
                arms.append("| %s => %s" % (lp, v))
        finally:
            self.in_closure -= 1
        if not arms:
            raise Unsupported("empty `match`")
        return "(match %s with %s)" % (sv, " ".join(arms)), rty

    def vec_macro(self, e, env):
        """`vec![v; n]` -> `List.replicate n v`; `vec![a, b, ..]` -> `[a, b, ..]`"""
        T = self.src.toks
        lo, hi = e.rng
        semi, i = None, lo
        while i < hi:
            if T[i].s in ("(", "[", "{"):
                i = self.src.mt[i]
            elif T[i].s == ";":
                semi = i
                break
            i += 1
        if semi is not None:
            p = Parser(self.src, lo, semi)
            ve = p.expr()
            q = Parser(self.src, semi + 1, hi)
            ne = q.expr()
            if p.i != semi or q.i != hi:
                raise Unsupported("`vec![v; n]` shape")
            v, tv = self.expr(ve, env)
            n, tn = self.expr(ne, env)
            if tn not in (U, INTLIT):
                raise Unsupported("`vec![v; n]` with a length of type %s" % (tn,))
            return "(List.replicate %s %s)" % (self.atom(n), self.atom(v)), mk_list(deflt(tv))
        p = Parser(self.src, lo, hi)
        items = []
        while p.i < p.hi:
            items.append(p.expr())
            if p.i < p.hi:
                p.eat(",")
        if not items:
            raise Unsupported("`vec![]`")
        vals = [self.expr(x, env) for x in items]
        t0 = deflt(vals[0][1])
        if any(not compat(t, t0) for _, t in vals):
            raise Unsupported("`vec![..]` of mixed types")
        return "[%s]" % ", ".join(v for v, _ in vals), mk_list(t0)

    def closure_fun(self, c, types, env, lo=None):
        """`|pats| body` applied to items of the given types -> (Lean `fun`, type of the body)"""
        if c.kind != "closure":
            raise Unsupported("expected a closure, found %s" % c.kind)
        if len(c.pats) != len(types):
            raise Unsupported("closure arity")
        cenv = dict(env)
        binders = []
        for pat, ty in zip(c.pats, types):
            binders.append(self.bind_pattern(pat, ty, cenv))
            if lo is not None and isinstance(pat, str) and ty == U:
                cenv[self.LO + pat] = lo
        self.in_closure += 1
        try:
            body, bty = self.expr(c.body, cenv)
        finally:
            self.in_closure -= 1
        return "(fun %s => %s)" % (" ".join("(%s : %s)" % (n, lean_ty(t)) for n, t in binders), body), bty

    def iter_method(self, e, r, tr, env):
        """slices / Vec / ranges / iterator chains.  Every adaptor is spelled with the core `List` function that visits
        the same items in the same order; `.iter()`, `.into_iter()`, `.collect()` are the identity on `List`."""
        o, name, args = self.o, e.name, e.args
        if not is_list(tr):
            raise Unsupported("method `.%s` on a value of type %s" % (name, tr))
        T = elem_ty(tr)
        ra = self.atom(r)

        def nat_arg():
            if len(args) != 1:
                raise Unsupported("`.%s` arity" % name)
            a, ta = self.expr(args[0], env)
            if ta not in (U, INTLIT):
                raise Unsupported("`.%s(%s)`: argument of type %s" % (name, a, ta))
            return self.atom(a)

        if name in ("iter", "into_iter", "to_vec", "clone", "copied", "cloned") and not args:
            return r, tr
        if name == "len" and not args:
            return "%s.length" % ra, U
        if name == "is_empty" and not args:
            return "%s.isEmpty" % ra, B
        if name == "collect" and not args:
            return r, norm_list(tr)
        if name == "rev" and not args:
            return "(List.reverse %s)" % ra, norm_list(tr)
        if name == "skip":
            return "(List.drop %s %s)" % (nat_arg(), ra), norm_list(tr)
        if name == "take":
            return "(List.take %s %s)" % (nat_arg(), ra), norm_list(tr)
        if name == "enumerate" and not args:
            return "(List.zipIdx %s)" % ra, ("list", ("enum", T))
        if name == "windows":
            if nat_arg() != "2" or T != F:
                raise Unsupported("`.windows(k)` only for k = 2 on f64 slices")
            return "(List.zip %s (List.tail %s))" % (ra, ra), ("list", ("win", 2))
        if name == "zip":
            if len(args) != 1:
                raise Unsupported("`.zip` arity")
            a, ta = self.expr(args[0], env)
            if not is_list(ta):
                raise Unsupported("`.zip` with a value of type %s" % (ta,))
            return "(List.zip %s %s)" % (ra, self.atom(a)), ("list", ("tup", (T, elem_ty(ta))))
        if name == "map":
            if len(args) != 1:
                raise Unsupported("`.map` arity")
            lo = tr[1] if isinstance(tr, tuple) and tr[0] == "range" else None
            fun, bty = self.closure_fun(args[0], [T], env, lo)
            return "(List.map %s %s)" % (fun, ra), mk_list(deflt(bty))
        if name == "fold":
            if len(args) != 2:
                raise Unsupported("`.fold` arity")
            init, tinit = self.expr(args[0], env)
            tinit = deflt(tinit)
            fun, bty = self.closure_fun(args[1], [tinit, T], env)
            if not compat(bty, tinit):
                raise Unsupported("`.fold`: closure of type %s, seed of type %s" % (bty, tinit))
            return "(List.foldl %s %s %s)" % (fun, self.atom(init), ra), tinit
        if o.mut and name == "split_at" and len(args) == 1:
            k = nat_arg()                    # `(&x[..k], &x[k..])` (the panic for `k > len` is not modelled)
            lt = norm_list(tr)
            return "((List.take %s %s), (List.drop %s %s))" % (k, ra, k, ra), ("tup", (lt, lt))
        if name == "sum" and not args:
            if T != F or e.turbofish not in (None, "f64"):
                raise Unsupported("`.sum` of items of type %s" % (T,))
            return "(%s %s)" % (o.iter_sum, ra), F           # `Iterator::sum::<f64>()`: left fold from -0.0
        if name == "product" and not args:
            if T != F or e.turbofish not in (None, "f64"):
                raise Unsupported("`.product` of items of type %s" % (T,))
            return "(List.foldl (· * ·) 1 %s)" % ra, F        # `Iterator::product::<f64>()`: left fold from 1.0
        raise Unsupported("iterator / slice method `.%s` on %s" % (name, tr))

    # ---- closures (per-observation scalar formulas of iterator pipelines)
    def _closure_def(self):
        """A FRAGMENT of a function whose body as a whole is outside the subset (loops, iterator pipelines, match):
        kind "closure"  : the n-th closure `|params| body` (of a match arm, if `arm` is given)
        kind "let"      : the initializer of the n-th `let <name> = e;`
        kind "call_arg" : the first argument of the n-th call `<callee>(e)` / `.callee(e)`
        The fragment's expression must itself be in the subset.  Its free variables are declared by the caller:
        `free` {rust name: lean binder} (f64 values in scope: parameters, earlier lets), `index_vars`
        {(array, index text): lean binder} (`y[i]`, `x[n - 1]` ... as scalars), closure parameters (f64, or
        `param_types` {name: "nat"|"int"}).  Anything else in the expression raises Unsupported."""
        o = self.o
        cl = o.closure
        toks, mt = self.src.toks, self.src.mt
        lo, hi = self.fn.body
        if cl.get("arm"):
            # find `... :: Arm =>` inside the body and restrict to that arm's expression
            arm = cl["arm"]
            found = None
            for i in range(lo, hi - 1):
                if toks[i].k == "id" and toks[i].s == arm and toks[i + 1].s == "=>":
                    found = i + 2
                    break
            if found is None:
                raise NotFound("match arm %s" % arm)
            if toks[found].s == "{":
                lo, hi = found + 1, mt[found]
            else:
                j = found
                while j < hi and toks[j].s != ",":
                    j = mt[j] + 1 if toks[j].s in ("(", "[", "{") else j + 1
                lo, hi = found, j
        kind = cl.get("kind", "closure")
        idx = cl.get("index", 0)
        where = "::".join(x for x in [self.fn.impl or self.fn.trait, self.fn.name] if x)
        armtxt = (", match arm `%s`" % cl["arm"]) if cl.get("arm") else ""
        cparams = []
        if kind == "closure":
            closures = []
            i = lo
            while i < hi:
                t = toks[i]
                if t.k == "p" and t.s == "|" and toks[i - 1].s in ("(", ","):
                    p = Parser(self.src, i, hi)
                    c = p.closure()
                    closures.append((c, (i, p.i)))
                    i = p.i
                    continue
                i += 1
            if idx >= len(closures):
                raise NotFound("closure #%d (found %d)" % (idx, len(closures)))
            c, crng = closures[idx]
            expr, cparams = c.body, c.params
            doc = "`%s`%s, closure #%d: `%s`" % (where, armtxt, idx, self.src.pretty(crng))
        elif kind == "let":
            name = cl["name"]
            hits = [i for i in range(lo, hi - 2) if toks[i].k == "id" and toks[i].s == "let" and toks[i + 1].s == name
                    and toks[i + 2].s in ("=", ":")]
            if idx >= len(hits):
                raise NotFound("`let %s` #%d (found %d)" % (name, idx, len(hits)))
            i = hits[idx]
            j = i
            while toks[j].s != "=":
                j += 1
            p = Parser(self.src, j + 1, hi)
            expr = p.expr()
            if not p.at(";"):
                raise Unsupported("`let %s`: initializer does not end with `;`" % name)
            doc = "`%s`%s, `let %s` #%d: `%s`" % (where, armtxt, name, idx, self.src.pretty((i, p.i + 1)))
        elif kind == "call_arg":
            callee = cl["callee"]
            hits = [i for i in range(lo, hi - 1) if toks[i].k == "id" and toks[i].s == callee and toks[i + 1].s == "("]
            if idx >= len(hits):
                raise NotFound("call of `%s` #%d (found %d)" % (callee, idx, len(hits)))
            i = hits[idx]
            p = Parser(self.src, i + 2, mt[i + 1])
            expr = p.expr()
            if p.i != p.hi:
                raise Unsupported("call of `%s`: more than one argument" % callee)
            doc = "`%s`%s, argument of `%s(..)` #%d: `%s`" % (where, armtxt, callee, idx, self.src.pretty((i, mt[i + 1] + 1)))
        elif kind == "after_while":
            # the value of the block that contains the n-th `while` loop (the expression after the loop), option `mut`
            if not o.mut:
                raise Unsupported("fragment kind `after_while` needs the option `mut`")
            hits = [i for i in range(lo, hi - 1) if toks[i].k == "id" and toks[i].s == "while"]
            if idx >= len(hits):
                raise NotFound("`while` #%d (found %d)" % (idx, len(hits)))
            i = hits[idx]
            j = i + 1
            while not (toks[j].k == "p" and toks[j].s == "{"):
                j = mt[j] + 1 if toks[j].s in ("(", "[") else j + 1
            after = mt[j] + 1
            # the end of the enclosing block: the first unmatched `}` (or the end of the body)
            k_ = after
            while k_ < hi and not (toks[k_].k == "p" and toks[k_].s == "}"):
                k_ = mt[k_] + 1 if toks[k_].s in ("(", "[", "{") else k_ + 1
            p = Parser(self.src, after, k_)
            expr = p.expr()
            if p.i != k_:
                raise Unsupported("code after the `while` loop is not a single expression")
            doc = "`%s`%s, value after `while` #%d: `%s`" % (where, armtxt, idx, self.src.pretty((after, k_)))
        elif kind == "cond":
            # the condition of the n-th `if` of the body (option `mut`), as a Boolean function of its declared free variables
            if not o.mut:
                raise Unsupported("fragment kind `cond` needs the option `mut`")
            hits = [i for i in range(lo, hi - 1) if toks[i].k == "id" and toks[i].s == "if" and toks[i + 1].s != "let"]
            if idx >= len(hits):
                raise NotFound("`if` #%d (found %d)" % (idx, len(hits)))
            i = hits[idx]
            j = i + 1
            while not (toks[j].k == "p" and toks[j].s == "{"):
                j = mt[j] + 1 if toks[j].s in ("(", "[") else j + 1
            p = Parser(self.src, i + 1, j)
            expr = p.expr()
            if p.i != j:
                raise Unsupported("`if` #%d: condition shape" % idx)
            doc = "`%s`%s, condition of `if` #%d: `%s`" % (where, armtxt, idx, self.src.pretty((i + 1, j)))
        elif kind == "assign":
            # the right-hand side of the n-th assignment `<name> = e;` / `<name>[..] = e;` (option `mut`)
            if not o.mut:
                raise Unsupported("fragment kind `assign` needs the option `mut`")
            name = cl["name"]
            hits = []
            for i in range(lo + 1, hi - 1):
                if toks[i].k == "id" and toks[i].s == name and toks[i - 1].s in (";", "{", "}"):
                    j = mt[i + 1] + 1 if toks[i + 1].s == "[" else i + 1
                    if toks[j].s == "=":
                        hits.append((i, j))
            if idx >= len(hits):
                raise NotFound("assignment to `%s` #%d (found %d)" % (name, idx, len(hits)))
            i, j = hits[idx]
            p = Parser(self.src, j + 1, hi)
            expr = p.expr()
            if not (p.at(";") or p.at("}") or p.i >= p.hi):
                raise Unsupported("assignment to `%s`: the right-hand side does not end the statement" % name)
            doc = "`%s`%s, assignment to `%s` #%d: `%s`" % (where, armtxt, name, idx, self.src.pretty((i, p.i)))
        elif kind == "for":
            # the n-th OUTERMOST `for` loop of the body as a function of its free variables (option `mut`):
            # `free` {rust name: (lean binder, type[, "mut"])}; the value is the tuple of the `mut` variables after the loop
            if not o.mut:
                raise Unsupported("fragment kind `for` needs the option `mut`")
            outer, end = [], -1
            for i in range(lo, hi - 1):
                if toks[i].k == "id" and toks[i].s == "for" and toks[i + 1].s != "<" and i > end:
                    j = i
                    while toks[j].s != "{":
                        j = mt[j] + 1 if toks[j].s in ("(", "[") else j + 1
                    outer.append((i, mt[j]))
                    end = mt[j]
            if idx >= len(outer):
                raise NotFound("`for` loop #%d (found %d)" % (idx, len(outer)))
            i, close = outer[idx]
            blk = Parser(self.src, i, close + 1).block_body()
            if not o.doc:
                o.doc = "`%s`%s, `for` loop #%d: `%s`" % (where, armtxt, idx, self.src.pretty((i, close + 1)).replace(
                    "-/", "- /").replace("/-", "/ -"))
            TY = {"nat": U, "int": I, "f64": F, "vec": V, "bool": B}
            env, binders, M = {}, [], []
            for rn, spec in cl.get("free", {}).items():
                ln, ty = spec[0], TY.get(spec[1], spec[1])
                env[rn] = (ln, ty)
                self._declare(rn, env, len(spec) > 2 and spec[2] == "mut")
                if len(spec) > 2 and spec[2] == "mut":
                    M.append(rn)
                binders.append((ln, lean_ty(ty)))
            if not M:
                raise Unsupported("fragment kind `for`: no `mut` variable declared")
            tys, finish = self._state(M, env)
            self.option_mode = self.started_option = False
            self.ret_ty = tys[0] if len(M) == 1 else ("tup", tuple(tys))
            body = self.tail_stmts(blk.stmts, 0, None, env, 1, finish)
            if self.need_option:
                raise Unsupported("fragment kind `for`: a panic source outside the loops")
            return self._emit_def(binders, lean_ty(self.ret_ty), body)
        elif kind == "arm":
            if not cl.get("arm") or not o.vectors:
                raise Unsupported("fragment kind `arm` needs `arm` and the option `vectors`")
            p = Parser(self.src, lo, hi)
            blk = p.block_body()
            doc = "`%s`%s: `%s`" % (where, armtxt, self.src.pretty((lo, hi)))
            if not o.doc:
                o.doc = doc
            env, binders = {}, []
            for pn, pty in self._params():
                if pn == "self":
                    continue
                rt = rust_ty(pty)
                if rt is None:
                    raise Unsupported("parameter %s: type %s" % (pn, pty))
                env[pn] = (self.lname(pn), rt)
                binders.append((self.lname(pn), LEAN_TY[rt]))
            v, ty = self.block_value(blk, env)
            if ty != V:
                raise Unsupported("match arm of type %s" % ty)
            return self._emit_def(binders, "List α", "  " + v)
        else:
            raise Unsupported("fragment kind %s" % kind)
        if not o.doc:
            o.doc = doc
        cenv, binders = {}, []
        for rn, ln in cl.get("free", {}).items():
            ty = F
            if isinstance(ln, tuple):
                ln, ty = ln[0], {"nat": U, "int": I, "f64": F, "bool": B}[ln[1]]
            cenv[rn] = (ln, ty)
            binders.append((ln, LEAN_TY[ty]))
        for _key, ln in cl.get("index_vars", {}).items():
            if isinstance(ln, tuple):
                ln = ln[0]
            if (ln, "α") not in binders:
                binders.append((ln, "α"))
        ptypes = cl.get("param_types", {})
        names = cl.get("params")
        if cl.get("index_vars") and kind == "closure" and names is None:
            for p_ in cparams:            # closure over an index: |i| f(y[i], mu[i])
                cenv[p_] = (p_, U)
        else:
            if names is None:
                names = [self.lname(p_) for p_ in cparams]
            if len(names) != len(cparams):
                raise Unsupported("closure arity")
            for p_, ln in zip(cparams, names):
                ty = {"nat": U, "int": I}.get(ptypes.get(p_), F)
                cenv[p_] = (ln, ty)
                binders.append((ln, LEAN_TY[ty]))
        if cl.get("binders"):
            bd = dict(binders)
            binders = [(b, bd[b]) for b in cl["binders"]]
            if len(binders) != len(bd):
                raise Unsupported("fragment binders not all listed")
        self.option_mode = False
        if o.mut and (kind == "cond" or (kind == "let" and cl.get("bool"))):
            v, vty = self.expr(expr, cenv)
            if vty != B:
                raise Unsupported("expected a condition, found %s: %s" % (vty, v))
            return self._emit_def(binders, "Bool", "  decide (%s)" % v)
        if o.mut and kind == "after_while":
            v, vty = self.expr(expr, cenv)
            if vty != F and not (is_tup(vty) and all(t == F for t in vty[1])):
                raise Unsupported("expected an f64 expression or a tuple of them, found %s: %s" % (vty, v))
            return self._emit_def(binders, lean_ty(vty), "  " + v)
        if o.mut and kind == "assign":
            v, vty = self.expr(expr, cenv)
            if vty not in (F, VAR):
                raise Unsupported("expected an f64 / Var expression, found %s: %s" % (vty, v))
        else:
            v = self.fexpr(expr, cenv)
        return self._emit_def(binders, "α", "  " + v)


def translate(text_or_source, path, opts=None):
    """Lean definition (text) of the Rust function `path` of the given source text."""
    src = text_or_source if isinstance(text_or_source, Source) else Source(text_or_source)
    fn = src.find_fn(path)
    opts = opts or Opts()
    if opts.name is None:
        opts.name = path.replace("!", "").replace("::", "_")
    return Translator(src, fn, opts).run()


# ======================================================================================= self-test
SELFTEST_SRC = r'''
use std::f64::consts::PI;
const K2: f64 = PI * PI / 6.;
const BAD: f64 = 0.3275911;
pub struct P { a: f64, n: u64, helper: Vec<f64> }
/// doc
pub fn logistic(x: f64) -> f64 {
    1. / (1. + (-x).exp())
}
pub fn logit(p: f64) -> f64 {
    if !(0. ..=1.).contains(&p) {
        panic!("p must be in [0, 1] {}", p);
    }
    (p / (1. - p)).ln()
}
pub fn boxcox(x: f64, lambda: f64) -> f64 {
    assert!(x > 0., "x must be positive");
    if lambda == 0. { x.ln() } else { (x.powf(lambda) - 1.) / lambda }
}
fn assoc(a: f64, b: f64, c: f64) -> f64 { a - b - c * a / b + -a * b }
fn assoc2(a: f64, b: f64, c: f64) -> f64 { a - (b - c) * (a / b) }
fn early(x: f64, m: f64) -> f64 {
    if x < m { return 0.; }
    let z = (x - m) / 2.; // comment with { brace
    0.5 * z.powi(2) + 2_f64.ln() + 1e-3_f64.abs() * 0.25
}
fn chain(x: f64, p: f64) -> f64 {
    if x < 0. || x > 1. { return 0.; }
    let (n, k) = (x + 1., p * 2.);
    if p == 0. {
        return if k == 0. { 1. } else { 0. };
    } else if p == 1. {
        return if k == n { 1. } else { 0. };
    }
    n * k
}
fn looped(x: f64) -> f64 { let mut s = 0.; for i in 0..3 { s += x; } s }
fn mutates(x: f64) -> f64 { let mut s = x; s += 1.; s }
fn closure(x: &[f64]) -> f64 { x.iter().map(|v| v * 2.).sum() }
fn inexact(x: f64) -> f64 { x * 0.1 }
fn named(x: f64) -> f64 { x * BAD + K2 }
fn unknown_method(x: f64) -> f64 { x.cbrt() }
fn ln1p(x: f64) -> f64 { (-x).ln_1p() }
fn ints(k: i64, lo: i64) -> f64 { if k < lo { 0. } else { 1. / (k - lo + 1) as f64 } }
fn after_loop(z: f64) -> f64 {
    if z < 0.5 { PI / after_loop(1. - z) } else {
        let mut x = 0.5;
        for i in 0..3 { x += z; }
        let t = (z - 1.) + 0.5;
        t * x
    }
}
impl P {
    pub fn f(&self, x: f64) -> f64 { self.a * x + self.n as f64 }
    pub fn m(&self) -> f64 { if self.a > 1. { self.a } else if (0. < self.a) & (self.a <= 1.) { f64::INFINITY } else { f64::NAN } }
    pub fn g(&self) -> f64 { self.m() * 2. }
}
macro_rules! mk { ($t: ty) => { impl Tr<$t> for P { fn fwd(&self, x: $t, y: $t) -> f64 { (-(x - y).powi(2) / (2. * self.a)).exp() } } }; }
mk!(f64);
mk!(&f64);
macro_rules! mk2 { ($t: ty) => { impl Tr<$t> for P { fn fwd2(&self, x: $t) -> f64 { x } } }; }
mk2!(f64);
mk2!(Vector);
fn dev(y: &[f64], mu: &[f64]) -> f64 {
    match 1 { Fam::A => (0..3).map(|i| y[i] * mu[i].ln() + (1. - y[i])).sum::<f64>(),
              Fam::B => y.iter().zip(mu).map(|(yv, muv)| (yv - muv) / (muv) - (yv / muv).ln()).sum::<f64>() }
}
fn quad<G>(f: G, a: f64, b: f64, n: usize) -> f64 where G: Fn(f64) -> f64 {
    let xm = 0.5 * (b + a);
    let mut out = Vec::new();
    for i in 0..n { let s = (y[n - 1] - y[0]) / xm; out.push(-s * (x[0] - t[i]) + y[0]); }
    (0..5).map(|i| { let dx = xm * NODES[i]; W[i] * (f(xm + dx) + f(xm - dx)) }).sum::<f64>() * (1..n).map(|k| f(a + k as f64 * xm)).sum::<f64>()
}
impl Fam { pub fn link(&self, eta: &[f64], mu: &[f64]) -> Vector { match self {
    Fam::A => Vector::ones(eta.len()),
    Fam::B => { let e = Vector::from(eta); 1. / (1. + (-e).exp()) }
    Fam::C => Vector::from(vmul(&mu, &mu)),
    Fam::D => { let m = Vector::from(mu); &m * (1. - &m) } } } }
fn l_welford(agg: (usize, f64, f64), v: &f64) -> (usize, f64, f64) { let (mut c, mut m, mut s) = agg; c += 1; let d = v - m; m += d / c as f64; s += d * (v - m); (c, m, s) }
fn l_fold(data: &[f64]) -> (usize, f64, f64) { let mut a = (0_usize, 0., 0.); for i in data { a = l_welford(a, i); } a }
fn l_acc(x: &[f64], y: &[f64]) -> f64 { assert_eq!(x.len(), y.len()); let n = x.len(); let (mut s, mut t) = (0., 0.);
    for i in 0..n { let d = x[i] - y[i]; s += d * d; t += d; } (s - t) / (n - 1) as f64 }
fn l_chain(x: &[f64], m: f64) -> f64 { x.iter().map(|v| (v - m).exp()).sum::<f64>() / x.len() as f64 }
fn l_zip(x: &[f64], y: &[f64]) -> f64 { let mut c = 0.; for (a, b) in x.iter().zip(y.iter()) { c += a * b; } c }
fn l_arg(d: &[f64]) -> usize { d.iter().enumerate().fold((0, f64::MAX), |acc, (i, j)| if acc.1 > *j { (i, *j) } else { acc }).0 }
fn l_win(e: &[f64]) -> Vec<f64> { e.windows(2).map(|w| (w[0] + w[1]) / 2.).collect() }
fn l_lag(ts: &[f64], k: i32) -> f64 { (k.abs() as usize..ts.len()).into_iter().map(|i| ts[i] * ts[i - k.abs() as usize]).sum::<f64>() }
fn l_diff(v: Vec<f64>) -> Vec<f64> { (0..v.len() - 1).map(|i| v[i + 1] - v[i]).collect() }
fn l_skip(x: &[f64]) -> f64 { x.iter().skip(1).take(3).rev().fold(0., |a, c| a * 2. + c) }
fn l_push(n: usize, x: &[f64]) -> Vec<f64> { let mut out = Vec::with_capacity(n); for i in 0..n { let mut s = 0.; for j in 0..2 { s += x[i * 2 + j]; } out.push(s); } out }
fn l_sqrt(x: &[f64]) -> f64 { l_opt(x).sqrt() * x.iter().product::<f64>() }
fn l_res(m: &[f64], r: usize) -> Result<usize, String> { let c = m.len() / r; if r * c == m.len() { Ok(c) } else { Err("no".to_string()) } }
fn l_unw(m: &[f64], r: usize) -> f64 { let c = l_res(m, r).unwrap(); c as f64 }
fn l_break(x: &[f64]) -> f64 { let mut s = 0.; for v in x { if *v < 0. { break; } s += v; } s }
fn l_while(x: f64) -> f64 { let mut s = x; while s > 1. { s /= 2.; } s }
fn l_sub(ts: &[f64], k: usize) -> f64 { (0..ts.len()).map(|i| ts[i - k]).sum::<f64>() }
fn l_idxassign(x: &[f64]) -> f64 { let mut v = x.to_vec(); v[0] = 1.; v[0] }
fn l_filter(x: &[f64]) -> f64 { x.iter().filter(|v| **v > 0.).sum::<f64>() }
fn l_assert(x: &[f64]) -> f64 { let mut s = 0.; for v in x { assert!(*v > 0.); s += v; } s }
fn l_immut(x: &[f64]) -> f64 { let s = 0.; for v in x { s += v; } s }
fn m_fwd(l: &[f64], b: &[f64]) -> Vec<f64> { let n = sq(l).unwrap(); assert_eq!(b.len(), n); let mut x = Vec::with_capacity(n);
    unsafe { x.set_len(n); } for i in 0..n { x[i] = (b[i] - dot(&l[(i * n)..(i * n + i)], &x[..i])) / l[i * n + i]; } x }
fn m_rev(u: &[f64]) -> Vec<f64> { let n = u.len(); let mut x = vec![0.; n]; for k in (0..n).rev() { x[k] /= u[k]; for i in 0..k { x[i] -= x[k] * u[i]; } } x }
fn m_piv(a: &[f64], n: usize) -> (Vec<f64>, Vec<i32>) { let mut lu = a.to_vec(); let mut piv: Vec<i32> = (0..n).map(|x| x as i32).collect();
    for j in 0..n { let mut p = j; for i in (j + 1)..n { if lu[i].abs() > lu[p].abs() { p = i; } }
        if p != j { lu.swap(p, j); piv.swap(p, j); } } (lu, piv) }
fn m_perm(p: &[i32], b: &[f64]) -> Vec<f64> { let mut x = vec![0.; b.len()]; for i in 0..p.len() { x[i] = b[p[i] as usize]; } x }
fn m_early(a: &[f64], n: usize) -> Option<Vec<f64>> { let mut l = vec![0.; n]; for i in 0..n { for j in 0..(i + 1) { let s = a[i] - l[j];
    if i == j { if s <= 0. || s.is_nan() { return None; } l[i] = s.sqrt(); } else { l[i] = s / l[j]; } } } Some(l) }
fn m_expect(a: &[f64]) -> Vec<f64> { m_early(a, 2).expect("no") }
fn m_tree(m1: &Mx, m2: &Mx) -> [Bc; 2] { if m1.shape() == m2.shape() { [Bc::No, Bc::No] } else if m1.shape().contains(&1) {
    assert!(m1.ncols == m2.ncols || m2.ncols == 1); if m1.nrows == 1 { [Bc::V(m2.nrows), Bc::No] } else { [Bc::Bad, Bc::Bad] } }
    else { let [b1, b2] = m_tree(m2, m1); [b2, b1] } }
fn m_jack(d: &[f64]) -> Vec<Vec<f64>> { let mut r: Vec<Vec<f64>> = Vec::with_capacity(d.len()); for i in 0..d.len() {
    let (f, b) = d.split_at(i); let (_, rest) = b.split_first().unwrap(); let mut v = f.to_vec(); v.extend_from_slice(rest); r.push(v); } r }
fn m_frag(a: &[f64], n: usize) -> Vec<f64> { let c0 = weird!(n); let mut c = c0; for i in 0..n { let t = a[i]; for j in 0..n { c[i * n + j] += t * a[j]; } } c }
impl P { fn step(&self, g: &[f64]) { for p in 0..2 { m[p] = self.a * m[p] + g[p]; params[p] = params[p] - self.a * m[p] } } }
fn m_hoist(a: &[f64], t: bool) -> Vec<f64> { let b = if t { tr(a).unwrap() } else { a.to_vec() }; b }
fn m_while(a: &[f64]) -> Vec<f64> { let mut x = a.to_vec(); let mut k: usize = 0; while k < 2 { x[k] = 0.; k += 1; } x }
fn m_assert(a: &[f64]) -> Vec<f64> { let mut x = a.to_vec(); for i in 0..2 { assert!(a[i] > 0.); x[i] = 1.; } x }
fn m_retsome(a: &[f64]) -> Option<Vec<f64>> { let mut x = a.to_vec(); for i in 0..2 { if a[i] > 0. { return Some(x); } x[i] = 1.; } None }
fn m_sub(a: &[f64], k: usize) -> Vec<f64> { let mut x = a.to_vec(); for i in 0..2 { x[i - k] = 1.; } x }
fn m_setlen(n: usize) -> Vec<f64> { let mut x = Vec::with_capacity(n); unsafe { x.set_len(n + 1); } x }
fn n_cfg(a: &[f64]) -> Vec<f64> { let n = a.len();
    #[cfg(feature = "fast")] { unsafe { ext(n, b'T') } }
    #[cfg(not(feature = "fast"))] { let mut x = a.to_vec(); for i in 0..n { x[i] = 0.; } x } }
fn n_route(a: &[f64], b: &[f64]) -> Vec<f64> { let l = if pd(a) && sym(a) { chol(a) } else { None };
    if let Some(l) = l { csolve(&l, b) } else { b.to_vec() } }
fn n_cols(a: &[f64], n: usize, k: usize) -> Vec<f64> { let mut out = Vec::with_capacity(a.len());
    for i in 0..k { let s = csolve(a, &a[(i * n)..((i + 1) * n)]); assert_eq!(s.len(), n); out.extend_from_slice(&s); } out }
fn n_tiles(a: &[f64], n: usize, bs: usize) -> Vec<f64> { let mut c = vec![0.; n]; for jj in 0..(n / bs + 1) { for kk in 0..(n / bs + 1) { c[jj] += a[kk]; } } c }
fn n_rot(angle: f64, axis: Ax) -> Vec<f64> { let d = match axis { Ax::X => [1., angle.cos()], Ax::Y => [angle.sin(), -1.] }; d.to_vec() }
fn n_toep(x: &[f64]) -> Vec<f64> { let n = x.len(); let mut v = vec![0.; n]; for i in 0..n as i32 { v[i as usize] = x[(i - 1).abs() as usize]; } v }
fn n_ar(a: f64, b: f64) -> Vec<f64> { let n = (b - a).ceil(); (0..n as usize).map(|i| a + i as f64).collect::<Vec<f64>>() }
impl Mx { fn eye(d: usize) -> Self { let mut m = Self::zeros(d, d); for i in 0..d { m.data[i * d + i] = 1.; } m } }
fn q_row(l: &[f64], b: &[f64], n: usize) -> Vec<f64> { let mut x = vec![0.; n]; for i in 0..n { let start = i * n; let row = &l[start..(start + n)];
    x[i] = (b[i] - dot(&row[..i], &x[..i])) / row[i]; } x }
fn q_flat(l: &[f64], b: &[f64], n: usize) -> Vec<f64> { let mut x = vec![0.; n]; for i in 0..n {
    x[i] = (b[i] - dot(&l[(i * n)..(i * n + i)], &x[..i])) / l[i * n + i]; } x }
fn q_push(a: f64, n: usize) -> Vec<f64> { let mut v = Vec::with_capacity(n); for i in 0..n { v.push(a + i as f64); } v }
fn q_coll(a: f64, n: usize) -> Vec<f64> { (0..n).map(|i| a + i as f64).collect() }
fn q_nest(x: &[f64], n: usize) -> Vec<f64> { let mut v = Vec::with_capacity(n); for a in x { for i in 0..n { v.push(a.powi(i as i32)); } } v }
fn q_ext(x: &[f64], n: usize) -> Vec<f64> { let mut v = Vec::with_capacity(n); for a in x { v.extend((0..n).map(|i| a.powi(i as i32))); } v }
fn q_assoc(x: &[f64], i: usize, j: usize, a: f64, b: f64, c: f64) -> f64 { x[i + (j + 1)] + (a + (b + c)) }
fn q_stale(x: &[f64], n: usize) -> f64 { let k = n + 1; let n = k * 2; x[k + n] }
fn q_mutdep(x: &[f64]) -> f64 { let mut p: usize = 0; let k = p + 1; p += 2; x[k + p] }
pub struct Bt { alpha: f64, gen: Un }
impl Bt { pub fn set_alpha(&mut self, alpha: f64) -> &mut Self { if alpha <= 0. { panic!("no"); } self.alpha = alpha; self.gen = Un::new(alpha, 1.); self }
    pub fn set_b(&mut self, b: f64) -> &mut Self { self }
    fn update(&mut self, params: &[f64]) { self.set_alpha(params[0]).set_b(params[1] as usize as f64); }
    fn reset(&mut self, params: &[f64]) { *self = Self::new(params[0]); }
    fn pick(&self) -> f64 { if self.alpha < 10. { 1. } else { 2. } } }
fn k_sum(x: &[f64]) -> f64 { let n = x.len(); let chunks = (n - (n % 4)) / 4; let mut s = 0.;
    for i in 0..chunks { let idx = i * 4; assert!(n > idx + 3); s += x[idx] + x[idx + 1] + x[idx + 2] + x[idx + 3]; }
    for j in x.iter().take(n).skip(chunks * 4) { s += j; } s }
fn k_empty(x: &[f64]) -> f64 { if x.is_empty() { return f64::NEG_INFINITY; } x.iter().sum::<f64>() }
impl Ex { fn redraw(&self) -> f64 { let mut u = self.rng.sample(); while u == 0. { u = self.rng.sample(); } -u.ln() / self.lambda }
    fn redraw2(&self) -> f64 { let mut u = self.rng.sample(); while u == 0. { u = other(); } u }
    fn boost(&self) -> f64 { let (a, b) = if self.lambda < 1. { let mut u = self.rng.sample(); while u <= 0. { u = self.rng.sample(); }
        (self.lambda + 1., u.powf(2.)) } else { (self.lambda, 1.) }; a * b } }
pub struct Nm { mu: f64, sigma: f64 }
impl Nm { pub fn new(mu: f64, sigma: f64) -> Self { let sigma = Self::checked(sigma); Self::must(mu); Self { mu, sigma } }
    fn checked(s: f64) -> f64 { if s < 0. { panic!("neg") } s }
    fn must(m: f64) { assert!(m > 0., "pos"); }
    fn bad(k: f64) -> bool { k <= 0. }
    pub fn set_sigma(&mut self, sigma: f64) -> &mut Self { if Self::bad(sigma) { panic!("no") } self.sigma = Self::checked(sigma); self }
    pub fn pubhelper(x: f64) -> f64 { x }
    pub fn uses_pub(x: f64) -> f64 { Self::pubhelper(x) } }
pub struct Ar { coeffs: Vec<f64>, c: f64 }
impl Ar { fn centred(&self, d: &[f64]) -> f64 { let n = d.len(); let k = self.coeffs.len(); if n >= k { dot(&d[n - k..], &self.coeffs) } else { dot(d, &self.coeffs[k - n..]) } }
    fn one(&self, d: &[f64]) -> f64 { let s = d.len().saturating_sub(self.coeffs.len()); self.centred(&d[s..]) + self.c }
    fn refit(&mut self, d: &[f64]) -> &mut Self { let c2 = inv(d); self.store(&c2) } }
pub struct Ex { lambda: f64, rng: Un }
impl Ex { pub fn new(lambda: f64) -> Self { if lambda <= 0. { panic!("no"); } Ex { lambda, rng: Un::new(0., 1.), } }
    fn sample(&self) -> f64 { -self.rng.sample().ln() / self.lambda } }
#[cfg(test)]
mod tests { fn logistic(x: f64) -> f64 { x } }
'''


def _selftest():
    S = Source(SELFTEST_SRC)
    ok = [0]

    def body(s):
        return " ".join(s.split(":=", 1)[1].split())

    def check(path, want, **kw):
        got = translate(S, path, Opts(**kw))
        if body(got) != " ".join(want.split()):
            raise AssertionError("%s:\n  got  %s\n  want %s" % (path, body(got), want))
        ok[0] += 1

    def refuse(path, frag, **kw):
        try:
            translate(S, path, Opts(**kw))
        except Unsupported as ex:
            if frag not in str(ex):
                raise AssertionError("%s: wrong reason %s" % (path, ex))
            ok[0] += 1
            return
        raise AssertionError("%s: should be refused" % path)

    check("logistic", "(1 / (1 + (Cv.Transc.exp (-x))))")
    check("logit", "if ¬ (0 ≤ p ∧ p ≤ 1) then none else some (Cv.Transc.ln (p / (1 - p)))")
    check("boxcox", "if x > 0 then some (if lambda == 0 then (Cv.Transc.ln x) else (((Cv.Transc.pow x lambda) - 1) / lambda)) else none")
    # association, precedence of unary minus over `*`, of `*`,`/` over `+`,`-`, left associativity
    check("assoc", "(((a - b) - ((c * a) / b)) + ((-a) * b))")
    check("assoc2", "(a - ((b - c) * (a / b)))")
    check("early", "if x < m then 0 else let z : α := ((x - m) / ((2 : Nat) : α)) "
          "(((((1 : α) / ((2 : Nat) : α)) * (Cv.powi z 2)) + (Cv.Transc.ln ((2 : Nat) : α))) + "
          "((Cv.Transc.abs C) * ((1 : α) / ((4 : Nat) : α))))", named_lits={"1e-3_f64": "C"})
    check("chain", "if (x < 0) ∨ (x > 1) then 0 else let n : α := (x + 1) let k : α := (p * ((2 : Nat) : α)) "
          "if p == 0 then if k == 0 then 1 else 0 else if p == 1 then if k == n then 1 else 0 else (n * k)")
    refuse("looped", "let mut")
    refuse("mutates", "assignment")
    refuse("closure", "parameter x")
    refuse("inexact", "not exactly representable", auto_lits=False)
    refuse("named", "0.3275911", auto_lits=False)
    refuse("named", "PI", consts={"BAD": "c"}, default_consts=False)
    # fallbacks (so that an edit introducing a literal / constant regenerates and fails its theorem instead of leaving the subset):
    # an inexact literal is the f64 it rounds to, by bits; f64 / consts constants are the fields of `Cv.F64Consts`
    check("inexact", "(x * (Cv.LitBits.ofBits 0x3FB999999999999A : α))")
    check("named", "((x * (Cv.LitBits.ofBits 0x3FD4F740A93D7B8C : α)) + (((Cv.F64Consts.pi : α) * (Cv.F64Consts.pi : α)) / ((6 : Nat) : α)))")
    check("named", "((x * c) + ((pi * pi) / ((6 : Nat) : α)))", consts={"BAD": "c", "PI": "pi"})
    refuse("unknown_method", "cbrt")
    refuse("ln1p", "ln_1p")
    check("ln1p", "(L (-x))", methods={"ln_1p": "L {0}"})
    refuse("ints", "integer arithmetic")
    check("ints", "if k < lo then 0 else (1 / ((((k - lo) + 1) : Int) : α))", int_arith=True)
    check("after_loop", "let t : α := ((z - 1) + ((1 : α) / ((2 : Nat) : α))) (t * x)", branch="else", loops_as_params=["x"])
    check("after_loop", "(pi / (g (1 - z)))", branch="then", consts={"PI": "pi"}, fns={"after_loop": "g"})
    check("P::f", "((a * x) + ((n : Nat) : α))")
    check("P::m", "if a > 1 then .fin a else if (0 < a) ∧ (a ≤ 1) then .inf else .nan", moment=(".fin", ".inf", ".nan"))
    refuse("P::m", "f64::INFINITY", default_consts=False)
    check("P::g", "((P_m a n) * ((2 : Nat) : α))", self_calls={"m": "P_m"})
    check("mk!::fwd", "(Cv.Transc.exp ((-(Cv.powi (x - y) 2)) / (((2 : Nat) : α) * k.a)))",
          self_struct=("k", "K α", {"a": "a"}))
    refuse("mk2!::fwd2", "different types")
    check("dev", "((yi * (Cv.Transc.ln mi)) + (1 - yi))",
          closure=dict(arm="A", index=0, index_vars={("y", "i"): "yi", ("mu", "i"): "mi"}))
    check("dev", "(((yv - muv) / muv) - (Cv.Transc.ln (yv / muv)))", closure=dict(arm="B", index=0))
    check("quad", "(((1 : α) / ((2 : Nat) : α)) * (b + a))", closure=dict(kind="let", name="xm", free={"a": "a", "b": "b"}))
    refuse("quad", "constant `b`", closure=dict(kind="let", name="xm", free={"a": "a"}))
    check("quad", "((yn1 - y0) / xm)", closure=dict(kind="let", name="s", free={"xm": "xm"},
                                                    index_vars={("y", "n - 1"): "yn1", ("y", "0"): "y0"}))
    check("quad", "(((-s) * (x0 - ti)) + y0)", closure=dict(kind="call_arg", callee="push", free={"s": "s"},
          index_vars={("x", "0"): "x0", ("t", "i"): "ti", ("y", "0"): "y0"}))
    check("quad", "(let dx : α := (xm * t); (w * ((f (xm + dx)) + (f (xm - dx)))))", fns={"f": "f"},
          closure=dict(index=0, free={"xm": "xm"}, index_vars={("NODES", "i"): "t", ("W", "i"): "w"}))
    check("quad", "(f (a + (((k : Nat) : α) * xm)))", fns={"f": "f"},
          closure=dict(index=1, free={"a": "a", "xm": "xm"}, param_types={"k": "nat"}))
    check("Fam::link", "(List.replicate eta.length 1)", vectors=True, closure=dict(kind="arm", arm="A"))
    check("Fam::link", "(let e : List α := eta; (Cv.Vops.sv (· / ·) 1 (Cv.Vops.sv (· + ·) 1 (Cv.Vops.vun Cv.Transc.exp (List.map (- ·) e)))))",
          vectors=True, closure=dict(kind="arm", arm="B"))
    check("Fam::link", "(Cv.Vops.vbinGo (· * ·) mu mu)", vectors=True, closure=dict(kind="arm", arm="C"))
    check("Fam::link", "(let m : List α := mu; (Cv.Vops.vbinGo (· * ·) m (Cv.Vops.sv (· - ·) 1 m)))", vectors=True,
          closure=dict(kind="arm", arm="D"))
    refuse("Fam::link", "vectors", closure=dict(kind="arm", arm="D"))
    # ---- loops and iterator chains (option `loops`)
    L = dict(loops=True, int_arith=True)
    check("l_welford", "let c : Nat := (agg.1 + 1) let d : α := (v - agg.2.1) let m : α := (agg.2.1 + (d / ((c : Nat) : α))) "
          "let s : α := (agg.2.2 + (d * (v - m))) (c, m, s)", **L)
    check("l_fold", "let a : Nat × α × α := ((0 : Nat), 0, 0) let a : Nat × α × α := List.foldl (fun (a : Nat × α × α) (i : α) => "
          "let a : Nat × α × α := (W a i) a) a data a", fns={"l_welford": "W"}, **L)
    # two accumulators: state tuple in declaration order; assert -> Option; checked `n - 1` -> guard around the statement
    check("l_acc", "if x.length = y.length then let n : Nat := x.length let s : α := 0 let t : α := 0 "
          "let st1 : α × α := List.foldl (fun (st1 : α × α) (i : Nat) => let d : α := (x[i]! - y[i]!) "
          "let s : α := (st1.1 + (d * d)) let t : α := (st1.2 + d) (s, t)) (s, t) (List.range n) "
          "if 1 ≤ n then some ((st1.1 - st1.2) / (((n - 1) : Nat) : α)) else none else none", **L)
    check("l_chain", "((Cv.iterSum (List.map (fun (v : α) => (Cv.Transc.exp (v - m))) x)) / ((x.length : Nat) : α))", **L)
    check("l_chain", "((S (List.map (fun (v : α) => (Cv.Transc.exp (v - m))) x)) / ((x.length : Nat) : α))", iter_sum="S", **L)
    check("l_zip", "let c : α := 0 let c : α := List.foldl (fun (c : α) (p1 : α × α) => let c : α := (c + (p1.1 * p1.2)) c) c "
          "(List.zip x y) c", **L)
    check("l_arg", "(List.foldl (fun (acc : Nat × α) (p1 : α × Nat) => (if acc.2 > p1.1 then (p1.2, p1.1) else acc)) (0, big) "
          "(List.zipIdx d)).1", consts={"f64::MAX": "big"}, **L)
    check("l_win", "(List.map (fun (w : α × α) => ((w.1 + w.2) / ((2 : Nat) : α))) (List.zip e (List.tail e)))", **L)
    # `i - |k|` inside the closure needs no guard: `i` ranges over `|k|..n`
    check("l_lag", "(Cv.iterSum (List.map (fun (i : Nat) => (ts[i]! * ts[(i - (Int.natAbs k))]!)) "
          "(List.range' (Int.natAbs k) (ts.length - (Int.natAbs k)))))", **L)
    check("l_diff", "if 1 ≤ v.length then some (List.map (fun (i : Nat) => (v[(i + 1)]! - v[i]!)) (List.range (v.length - 1))) else none", **L)
    check("l_skip", "(List.foldl (fun (a : α) (c : α) => ((a * ((2 : Nat) : α)) + c)) 0 (List.reverse (List.take 3 (List.drop 1 x))))", **L)
    check("l_push", "let out : List α := List.foldl (fun (out : List α) (i : Nat) => let s : α := 0 "
          "let s : α := List.foldl (fun (s : α) (j : Nat) => let s : α := (s + x[((i * 2) + j)]!) s) s (List.range 2) "
          "let out : List α := (out ++ [s]) out) ([] : List α) (List.range n) out", **L)
    check("l_sqrt", "(G x).bind fun (r1 : α) => some ((Cv.Transc.sqrt r1) * (List.foldl (· * ·) 1 x))", fns={"l_opt": "G"},
          opt_fns=("l_opt",), **L)
    check("l_res", "if 0 < r then let c : Nat := (m.length / r) if (r * c) = m.length then some c else none else none", **L)
    check("l_unw", "(R m r).bind fun (r1 : Nat) => let c : Nat := r1 some ((c : Nat) : α)", fns={"l_res": "R"}, opt_fns=("l_res",), **L)
    refuse("l_break", "inside a loop body", **L)
    refuse("l_while", "only `for` loops", **L)
    refuse("l_sub", "inside a closure", **L)
    refuse("l_idxassign", "assignment to `index`", **L)
    refuse("l_filter", ".filter", **L)
    refuse("l_assert", "inside a loop body", **L)
    refuse("l_immut", "assigns no `let mut` variable", **L)
    refuse("l_fold", "parameter data")                       # without the option nothing changes
    refuse("l_chain", "parameter x")
    # ---- in-place mutation / nested loops / decision trees (option `mut`)
    M = dict(mut=True, int_arith=True, index_read="R {0} {1}")
    check("m_fwd", "(SQ l.length).bind fun (r1 : Nat) => let n : Nat := r1 if b.length = n then let x : List α := (List.map junk (List.range n)) "
          "let x : List α := List.foldl (fun (x : List α) (i : Nat) => let x : List α := (List.set x i (((R b i) - (D (List.take (((i * n) + i) - (i * n)) "
          "(List.drop (i * n) l)) (List.take i x))) / (R l ((i * n) + i)))) x) x (List.range n) some x else none",
          fns={"sq": "SQ {0}.length", "dot": "D"}, fn_ret={"sq": "nat"}, opt_fns=("sq",), uninit="(List.map junk (List.range {0}))", **M)
    check("m_rev", "let x : List α := (List.replicate u.length 0) let x : List α := List.foldl (fun (x : List α) (k : Nat) => "
          "let x : List α := (List.set x k ((R x k) / (R u k))) let x : List α := List.foldl (fun (x : List α) (i : Nat) => "
          "let x : List α := (List.set x i ((R x i) - ((R x k) * (R u i)))) x) x (List.range k) x) x (List.reverse (List.range u.length)) x", **M)
    # two vectors in the loop state (declaration order), `if` statements that only mutate, `swap`, `Vec<i32>`
    check("m_piv", "let lu : List α := a let piv : List Int := (List.map (fun (x : Nat) => ((x : Nat) : Int)) (List.range n)) "
          "let st1 : (List α) × (List Int) := List.foldl (fun (st1 : (List α) × (List Int)) (j : Nat) => let p : Nat := j "
          "let p : Nat := List.foldl (fun (p : Nat) (i : Nat) => let p : Nat := if (Cv.Transc.abs (R st1.1 i)) > (Cv.Transc.abs (R st1.1 p)) then "
          "let p : Nat := i p else p p) p (List.range' (j + 1) (n - (j + 1))) let st2 : (List α) × (List Int) := if p ≠ j then "
          "let lu : List α := (SW st1.1 p j) let piv : List Int := (SW st1.2 p j) (lu, piv) else (st1.1, st1.2) (st2.1, st2.2)) (lu, piv) (List.range n) "
          "(st1.1, st1.2)", swap_fn="SW", **M)
    check("m_perm", "let x : List α := (List.replicate b.length 0) let x : List α := List.foldl (fun (x : List α) (i : Nat) => "
          "let x : List α := (List.set x i (R b (Int.toNat p[i]!))) x) x (List.range p.length) x", **M)
    # early `return None` inside nested loops: foldlM in Option, continuation-style `if`, `match` after the outermost loop
    check("m_early", "let l : List α := (List.replicate n 0) match List.foldlM (m := Option) (fun (l : List α) (i : Nat) => "
          "(List.foldlM (m := Option) (fun (l : List α) (j : Nat) => let s : α := ((R a i) - (R l j)) if i = j then "
          "if (s ≤ 0) ∨ (NAN s) then none else let l : List α := (List.set l i (Cv.Transc.sqrt s)) some l else "
          "let l : List α := (List.set l i (s / (R l j))) some l) l (List.range (i + 1))).bind fun (l : List α) => some l) l (List.range n) with "
          "| none => none | some l => (some l)", bool_methods={"is_nan": "NAN {0}"}, **M)
    check("m_expect", "(E a 2).bind fun (r1 : Option (List α)) => r1.bind fun (r2 : List α) => some r2", fns={"m_early": "E"},
          opt_fns=("m_early",), fn_ret={"m_early": ("opt", "vec")}, **M)
    check("m_tree", "if m1_nrows = m2_nrows ∧ m1_ncols = m2_ncols then some (B.no, B.no) else if m1_nrows = 1 ∨ m1_ncols = 1 then "
          "if (m1_ncols = m2_ncols) ∨ (m2_ncols = 1) then some (if m1_nrows = 1 then ((B.v m2_nrows), B.no) else (B.bad, B.bad)) else none else "
          "(rec m2_nrows m2_ncols m1_nrows m1_ncols).bind fun (r1 : B × B) => let t2 : B × B := r1 some (t2.2, t2.1)",
          mut=True, int_arith=True, adts={"Bc": "B"}, adt_ctors={"Bc::No": "B.no", "Bc::V": "B.v", "Bc::Bad": "B.bad"},
          struct_types={"Mx": [("nrows", "nat"), ("ncols", "nat")]}, struct_methods={"Mx": {"shape": ["nrows", "ncols"]}},
          fns={"m_tree": "rec"}, opt_fns=("m_tree",))
    check("m_jack", "let r : List (List α) := List.foldl (fun (r : List (List α)) (i : Nat) => "
          "let t1 : (List α) × (List α) := ((List.take i d), (List.drop i d)) let t2 : α × (List α) := (t1.2[0]!, (List.tail t1.2)) "
          "let v : List α := t1.1 let v : List α := (v ++ t2.2) let r : List (List α) := (r ++ [v]) r) ([] : List (List α)) (List.range d.length) r",
          mut=True, int_arith=True)
    check("m_frag", "let c : List α := List.foldl (fun (c : List α) (i : Nat) => let t : α := a[i]! let c : List α := List.foldl (fun (c : List α) (j : Nat) => "
          "let c : List α := (List.set c ((i * n) + j) (c[((i * n) + j)]! + (t * a[j]!))) c) c (List.range n) c) c (List.range n) c",
          mut=True, int_arith=True, closure=dict(kind="for", index=0, free={"a": ("a", "vec"), "c": ("c", "vec", "mut"), "n": ("n", "nat")}))
    check("P::step", "((a * m) + g)", mut=True, closure=dict(kind="assign", name="m", index=0, free={"self.a": "a"},
          index_vars={("m", "p"): "m", ("g", "p"): "g"}))
    # `Var - f64` of the `reverse` crate is `val + (-rhs)`
    check("P::step", "(θ + (-(a * m')))", mut=True, closure=dict(kind="assign", name="params", index=0, free={"self.a": "a"},
          index_vars={("m", "p"): "m'", ("params", "p"): ("θ", "var")}))
    refuse("m_frag", "macro `weird!`", mut=True, int_arith=True)           # the function as a whole is outside the subset
    # a panic source inside a branch of an `if` expression is not hoisted in front of the `if`: the `if` is evaluated in `Option`
    check("m_hoist", "(if t then (T a).bind fun (r1 : List α) => some r1 else some a).bind fun (r2 : List α) => let b : List α := r2 some b",
          fns={"tr": "T"}, opt_fns=("tr",), fn_ret={"tr": "vec"}, **M)
    refuse("m_while", "only `for` loops", **M)
    # a panic source inside a loop body: the loop is a `foldlM` in the panic `Option`
    check("m_assert", 'let x : List α := a (List.foldlM (m := Option) (fun (x : List α) (i : Nat) => if (R a i) > 0 then let x : List α := (List.set x i 1) some x else none) x (List.range 2)).bind fun (x : List α) => some x', **M)
    refuse("m_retsome", "anything but `None`", **M)
    refuse("m_sub", "inside a closure / loop body", **M)
    refuse("m_setlen", "differs from the capacity", **M)
    refuse("m_rev", "macro `vec!`", **L)                                   # without the option nothing changes
    refuse("m_fwd", "`unsafe` inside a function body", **L)
    refuse("m_tree", "unexpected token '['", **L)
    # ---- fourth pass
    check("n_cfg", "let x : List α := a let x : List α := List.foldl (fun (x : List α) (i : Nat) => "
          "let x : List α := (List.set x i 0) x) x (List.range a.length) x", cfg_features=(), **M)
    refuse("n_cfg", "option cfg_features", **M)
    refuse("n_cfg", "found", cfg_features=("fast",), **M)       # the other configuration is outside the subset
    # short-circuit `&&` of panicking predicates, `if` with a panicking branch, `if let`
    check("n_route", "(PD a).bind fun (r1 : Bool) => (if r1 then (SY a).bind fun (r2 : Bool) => some (decide r2) else some false).bind fun (r3 : Bool) => "
          "(if r3 then (CH a).bind fun (r4 : Option (List α)) => some r4 else some none).bind fun (r5 : Option (List α)) => "
          "let l : Option (List α) := r5 match l with | some l => (CS l b).bind fun (r6 : List α) => some r6 | none => some b",
          fns={"pd": "PD", "sym": "SY", "chol": "CH", "csolve": "CS"}, opt_fns=("pd", "sym", "chol", "csolve"),
          fn_ret={"pd": "bool", "sym": "bool", "chol": ("opt", "vec"), "csolve": "vec"}, **M)
    # panic sources inside a loop body: foldlM in the panic Option
    check("n_cols", "(List.foldlM (m := Option) (fun (out : List α) (i : Nat) => (CS a (List.take (((i + 1) * n) - (i * n)) (List.drop (i * n) a))).bind "
          "fun (r1 : List α) => let s : List α := r1 if s.length = n then let out : List α := (out ++ s) some out else none) ([] : List α) "
          "(List.range k)).bind fun (out : List α) => some out", fns={"csolve": "CS"}, opt_fns=("csolve",), fn_ret={"csolve": "vec"}, **M)
    # the division of the inner loop header repeats the guard of the outer one
    check("n_tiles", "let c : List α := (List.replicate n 0) if 0 < bs then let c : List α := List.foldl (fun (c : List α) (jj : Nat) => "
          "let c : List α := List.foldl (fun (c : List α) (kk : Nat) => let c : List α := (List.set c jj ((R c jj) + (R a kk))) c) c "
          "(List.range ((n / bs) + 1)) c) c (List.range ((n / bs) + 1)) some c else none", **M)
    check("n_rot", "let d : List α := (match axis with | A.x => [1, (Cv.Transc.cos angle)] | A.y => [(Cv.Transc.sin angle), (-1)]) d",
          adts={"Ax": "A"}, adt_ctors={"Ax::X": "A.x", "Ax::Y": "A.y"}, **M)
    check("n_toep", "let v : List α := (List.replicate x.length 0) let v : List α := List.foldl (fun (v : List α) (i : Int) => "
          "let v : List α := (List.set v (Int.toNat i) (R x (Int.natAbs (i - 1)))) v) v "
          "(List.map (fun (k : Nat) => ((k : Nat) : Int)) (List.range (Int.toNat ((x.length : Nat) : Int)))) v", **M)
    check("n_ar", "let n : α := (Cv.Transc.ceil (b - a)) (List.map (fun (i : Nat) => (a + ((i : Nat) : α))) (List.range (TU n)))",
          f64_to_usize="TU {0}", **M)
    refuse("n_ar", "cast of f64 to usize", **M)
    check("Mx::eye", "(Z d d).bind fun (r1 : MX) => let m : MX := r1 let m_data : List α := List.foldl (fun (m_data : List α) (i : Nat) => "
          "let m_data : List α := (List.set m_data ((i * d) + i) 1) m_data) m.data (List.range d) some (MK m_data m.nrows m.ncols)",
          adts={"Mx": "MX"}, struct_types={"Mx": [("data", "vec"), ("nrows", "nat"), ("ncols", "nat")]}, struct_mk={"Mx": "MK"},
          fns={"Self::zeros": "Z"}, fn_ret={"Self::zeros": ("adt", "Mx", "MX")}, opt_fns=("Self::zeros",), **M)
    # ---- normal form (robustness against harmless tidying): a hoisted offset and a row slice give the SAME text as flat indices
    NF = dict(fns={"dot": "D"}, **M)
    assert body(translate(S, "q_row", Opts(**NF))) == body(translate(S, "q_flat", Opts(**NF))), "slice view"
    assert "List.take (((i * n) + i) - (i * n)) (List.drop (i * n) l)" in body(translate(S, "q_row", Opts(**NF)))
    ok[0] += 2
    # a loop that only pushes is the `map` a `collect` gives; nested pushes / `extend` of a mapped range are one `flatMap`
    check("q_push", "let v : List α := (List.map (fun (i : Nat) => (a + ((i : Nat) : α))) (List.range n)) v", **M)
    check("q_coll", "(List.map (fun (i : Nat) => (a + ((i : Nat) : α))) (List.range n))", **M)
    assert body(translate(S, "q_nest", Opts(**M))) == body(translate(S, "q_ext", Opts(**M))), "push loop / extend"
    check("q_ext", "let v : List α := (List.flatMap (fun (a : α) => (List.map (fun (i : Nat) => (Cv.powi a ((i : Nat) : Int))) (List.range n))) x) v", **M)
    ok[0] += 1
    # usize sums are left-associated, f64 sums are NEVER re-associated
    check("q_assoc", "((R x ((i + j) + 1)) + (a + (b + c)))", **M)
    # an inlined `let` is not used after a name it mentions was bound again; a `let` that reads a `let mut` variable is kept
    refuse("q_stale", "was bound again", **M)
    check("q_mutdep", "let p : Nat := 0 let k : Nat := (p + 1) let p : Nat := (p + 2) (R x (k + p))", **M)
    check("q_push", "let v : List α := List.foldl (fun (v : List α) (i : Nat) => let v : List α := (v ++ [(a + ((i : Nat) : α))]) v) "
          "([] : List α) (List.range n) v", normalize=False, **M)
    # ---- `&mut self` methods as state transformers `S → args → S × Bool` (new state, panicked)
    ST = dict(state_fn=True, adts={"Bt": "BT", "Un": "U'"}, struct_types={"Bt": [("alpha", "f64"), ("gen", ("adt", "Un", "U'"))]},
              fns={"Un::new": "UN", "Self::new": "NEW"}, fn_ret={"Un::new": ("adt", "Un", "U'"), "Self::new": ("adt", "Bt", "BT")},
              opt_fns=("Un::new", "Self::new"), f64_to_usize="TU {0}", int_arith=True)
    check("Bt::set_alpha", "if alpha ≤ 0 then (d, true) else let d := { d with alpha := alpha } match (UN alpha 1) with | none => (d, true) "
          "| some r1 => let d := { d with gen := r1 } (d, false)", **ST)
    check("Bt::update", "match params[0]? with | none => (d, true) | some a1 => let r2 := SA d a1 if r2.2 then r2 else let d := r2.1 "
          "match params[1]? with | none => (d, true) | some a3 => let r4 := SB d (((TU a3) : Nat) : α) if r4.2 then r4 else let d := r4.1 (d, false)",
          state_calls={"set_alpha": "SA", "set_b": "SB"}, **ST)
    check("Bt::reset", "match params[0]? with | none => (d, true) | some a1 => match (NEW a1) with | none => (d, true) | some d => (d, false)", **ST)
    refuse("Bt::update", "outside the state-transformer subset", **ST)              # setters not listed
    refuse("Bt::set_alpha", "`&mut self`", mut=True)
    check("Bt::pick", "decide (alpha < ((10 : Nat) : α))", mut=True, closure=dict(kind="cond", index=0, free={"self.alpha": "alpha"}))
    # checked subtractions inside the branches of a tail `if` are guards inside the branches; `self.m(args)`; `saturating_sub`
    AR = dict(mut=True, int_arith=True, fns={"dot": "D"}, self_fields=["coeffs", "c"])
    check("Ar::centred", "if d.length ≥ coeffs.length then if coeffs.length ≤ d.length then some (D (List.drop (d.length - coeffs.length) d) coeffs) "
          "else none else if d.length ≤ coeffs.length then some (D d (List.drop (coeffs.length - d.length) coeffs)) else none", **AR)
    check("Ar::one", "let s : Nat := (d.length - coeffs.length) (CEN coeffs c (List.drop s d)).bind fun (r1 : α) => some (r1 + c)",
          self_methods={"centred": ("CEN", "f64", True)}, **AR)
    check("Ar::refit", "(INV d).bind fun (r1 : List α) => let c2 : List α := r1 some c2", mut_self_value=True,
          type_alias={"&mutSelf": "Vec<f64>"}, self_methods={"store": ("{0}", "vec", False)}, fns={"inv": "INV"}, fn_ret={"inv": "vec"},
          opt_fns=("inv",), mut=True, self_fields=["coeffs", "c"])
    refuse("Ar::refit", "`&mut self`", mut=True, self_fields=["coeffs", "c"])
    # an unrolled kernel: `%` / a literal divisor, the `assert!` inside the loop (foldlM), ONE accumulator in the source's association
    check("k_sum", "if (x.length % 4) ≤ x.length then let chunks : Nat := ((x.length - (x.length % 4)) / 4) let s : α := 0 "
          "(List.foldlM (m := Option) (fun (s : α) (i : Nat) => if x.length > ((i * 4) + 3) then "
          "let s : α := (s + (((x[(i * 4)]! + x[((i * 4) + 1)]!) + x[((i * 4) + 2)]!) + x[((i * 4) + 3)]!)) some s else none) s (List.range chunks)).bind "
          "fun (s : α) => let s : α := List.foldl (fun (s : α) (j : α) => let s : α := (s + j) s) s (List.drop (chunks * 4) (List.take x.length x)) "
          "some s else none", mut=True, int_arith=True)
    check("k_empty", "if x.isEmpty then ninf else (Cv.iterSum x)", consts={"f64::NEG_INFINITY": "ninf"}, **L)
    # the redraw loop `let mut u = D; while c(u) { u = D; } tail(u)` over an abstract generator; the value after a `while` as a fragment
    RD = dict(redraw=dict(draws=["self.rng.sample()"], state="G"), self_fields=["lambda"])
    check("Ex::redraw", "(Cv.SrcDraw.redrawWhile (fun (u : α) => decide (u == 0)) draw fuel g).map fun (r : α × G) => "
          "(let u : α := r.1 ((-(Cv.Transc.ln u)) / lambda), r.2)", **RD)
    refuse("Ex::redraw2", "re-assignment", **RD)
    refuse("Ex::redraw", "not a listed generator draw", redraw=dict(draws=["alea::f64()"], state="G"), self_fields=["lambda"])
    check("Ex::boost", "(Cv.SrcDraw.redrawWhile (fun (u : α) => decide (u ≤ 0)) draw fuel g).map fun (r : α × G) => "
          "(let u : α := r.1 ((lambda + 1), (Cv.Transc.pow u ((2 : Nat) : α))), r.2)",
          redraw=dict(draws=["self.rng.sample()"], state="G", while_index=0), self_fields=["lambda"])
    check("Ex::redraw", "((-(Cv.Transc.ln u)) / lambda)", mut=True,
          closure=dict(kind="after_while", index=0, free={"u": "u", "self.lambda": "lambda"}))
    refuse("Ex::redraw", "only `for` loops", mut=True, self_fields=["lambda"], field_calls={"rng.sample": ("u", "f64")},
           extra_binders=[("u", "α")])
    # private helpers of the same file are inlined: their `panic!` / `assert!` become guards of the calling statement
    NM = dict(adts={"Nm": "NM"}, struct_types={"Nm": [("mu", "f64"), ("sigma", "f64")]}, struct_mk={"Nm": "MK"})
    check("Nm::new", "if sigma < 0 then none else let sigma : α := sigma if mu > 0 then some (MK mu sigma) else none", mut=True, **NM)
    check("Nm::set_sigma", "if sigma ≤ 0 then (d, true) else if sigma < 0 then (d, true) else let d := { d with sigma := sigma } (d, false)",
          state_fn=True, **NM)
    refuse("Nm::uses_pub", "call of `Self::pubhelper`", mut=True, **NM)          # public functions are not inlined
    refuse("Nm::new", "call of `Self::checked`", mut=True, inline_helpers=False, **NM)
    # struct literals (fields in declaration order, nested constructor bound first); a sub-sampler draw as a parameter
    check("Ex::new", "if lambda ≤ 0 then none else (UN 0 1).bind fun (r1 : U') => some (MK lambda r1)", mut=True,
          adts={"Ex": "E'", "Un": "U'"}, struct_types={"Ex": [("lambda", "f64"), ("rng", ("adt", "Un", "U'"))]},
          struct_mk={"Ex": "MK"}, fns={"Un::new": "UN"}, fn_ret={"Un::new": ("adt", "Un", "U'")}, opt_fns=("Un::new",))
    check("Ex::sample", "((-(Cv.Transc.ln u)) / lambda)", mut=True, field_calls={"rng.sample": ("u", "f64")},
          extra_binders=[("u", "α")], self_fields=["lambda"])
    refuse("Ex::sample", "self.rng is not a scalar field binder", mut=True, self_fields=["lambda"])
    # the test module's `logistic` is not a candidate; unknown names are reported
    try:
        S.find_fn("nope")
        raise AssertionError("nope found")
    except NotFound:
        ok[0] += 1
    # lexer: `0. ..=1.`, `0..n`, `2_f64.ln()`, `1.max`
    ks = [t.s for t in lex("0. ..=1. 0..n 2_f64.ln() 1e-3 x.0")]
    assert ks[:9] == ["0.", "..=", "1.", "0", "..", "n", "2_f64", ".", "ln"], ks
    ok[0] += 1
    print("rs2lean selftest: %d checks passed" % ok[0])


if __name__ == "__main__":
    if len(sys.argv) >= 2 and sys.argv[1] == "--selftest":
        _selftest()
    elif len(sys.argv) == 3:
        print(translate(open(sys.argv[1]).read(), sys.argv[2]))
    else:
        print(__doc__)
        sys.exit(2)
