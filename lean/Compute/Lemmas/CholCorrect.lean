import Compute.Lemmas.DecompChol
import Compute.Lemmas.DecompTri
import Mathlib.Algebra.BigOperators.Ring.Finset
import Mathlib.Algebra.BigOperators.Intervals
import Mathlib.Tactic.Ring
import Mathlib.Tactic.FieldSimp
import Mathlib.Tactic.Linarith
/-
Correctness of the Cholesky–Banachiewicz sweep of decomposition/cholesky.rs (model `Cv.LA.cholLoops`) in
exact arithmetic: every cell written by the sweep satisfies its defining equation with respect to the
*final* factor (loop invariant `Written`), hence `L·Lᵀ = A`.
-/
set_option linter.unusedSectionVars false
namespace Cv.LA
open Finset

/-- list sums over `List.range` are `Finset.range` sums -/
theorem list_sum_range {M : Type} [AddCommMonoid M] (f : Nat → M) (n : Nat) :
    ((List.range n).map f).sum = ∑ i ∈ range n, f i := by
  induction n with
  | zero => simp
  | succ n ih => rw [List.range_succ, List.map_append, List.sum_append, ih, Finset.sum_range_succ]; simp

section
variable {F : Type} [Field F]

/-- the prefix dot product of two rows of a flat matrix, as a plain sum -/
theorem dot8_rows (l : List F) (p q m : Nat) (hp : p + m ≤ l.length) (hq : q + m ≤ l.length) :
    dot8 ((l.drop p).take m) ((l.drop q).take m) = ∑ k ∈ range m, rd l (p + k) * rd l (q + k) := by
  have hlen : ((l.drop q).take m).length = m := by simp; omega
  have h := dot8_segment l ((l.drop q).take m) p (by rw [hlen]; exact hp)
  rw [hlen] at h
  rw [h, list_sum_range]
  apply Finset.sum_congr rfl
  intro k hk
  rw [rd_take _ _ _ (Finset.mem_range.mp hk), rd_drop]

end

section
variable {α : Type} [Zero α]

/-- writing cell `(i,j)` leaves every other cell alone -/
theorem rd_set_cell (l : List α) (n i j r c : Nat) (v : α) (hj : j < n) (hc : c < n)
    (hne : ¬(r = i ∧ c = j)) (hidx : i * n + j < l.length) :
    rd (l.set (i * n + j) v) (r * n + c) = rd l (r * n + c) := by
  rw [rd_set _ _ _ _ hidx]
  split
  · rename_i he
    obtain ⟨h1, h2⟩ := idx_inj hj hc he
    exact absurd ⟨h1.symm, h2.symm⟩ hne
  · rfl

end

section chol
variable {F : Type} [Field F] [LinearOrder F] [IsStrictOrderedRing F] [Transc F] [BEq F] [ReflBEq F]

/-- the pivot of row `r` with respect to the factor `l`: `a_rr − Σ_{k<r} l_rk²` -/
def cholPivot (n : Nat) (a l : List F) (r : Nat) : F :=
  rd a (r * n + r) - ∑ k ∈ range r, rd l (r * n + k) * rd l (r * n + k)

/-- cell `(r,c)`, `c ≤ r`, holds the value the source assigns to it, computed from `l` itself:
`sqrt(pivot)` with a positive pivot on the diagonal, `(a_rc − Σ_{k<c} l_ck l_rk) / l_cc` below it. -/
def CellOk (n : Nat) (a l : List F) (r c : Nat) : Prop :=
  if r = c then 0 < cholPivot n a l r ∧ rd l (r * n + r) = Transc.sqrt (cholPivot n a l r)
  else rd l (r * n + c) =
    (rd a (r * n + c) - ∑ k ∈ range c, rd l (c * n + k) * rd l (r * n + k)) / rd l (c * n + c)

/-- `CellOk` only reads the cells `(r,k)`, `(c,k)` with `k ≤ c`. -/
theorem CellOk_congr (n : Nat) (a l l' : List F) (r c : Nat)
    (h1 : ∀ k, k ≤ c → rd l' (r * n + k) = rd l (r * n + k))
    (h2 : ∀ k, k ≤ c → rd l' (c * n + k) = rd l (c * n + k)) (h : CellOk n a l r c) : CellOk n a l' r c := by
  unfold CellOk at *
  by_cases hrc : r = c
  · subst hrc
    have hp : cholPivot n a l' r = cholPivot n a l r := by
      unfold cholPivot
      congr 1
      apply Finset.sum_congr rfl
      intro k hk
      rw [h1 k (Nat.le_of_lt (Finset.mem_range.mp hk))]
    simp only [if_true] at h ⊢
    rw [hp, h1 r (Nat.le_refl r)]
    exact h
  · simp only [hrc, if_false] at h ⊢
    rw [h1 c (Nat.le_refl c), h2 c (Nat.le_refl c), h]
    congr 2
    apply Finset.sum_congr rfl
    intro k hk
    have hk' := Nat.le_of_lt (Finset.mem_range.mp hk)
    rw [h1 k hk', h2 k hk']

/-- loop invariant of the sweep: all cells before `(i,j)` in row-major order of the lower triangle
are final -/
def Written (n : Nat) (a l : List F) (i j : Nat) : Prop :=
  l.length = n * n ∧ ∀ r c, c ≤ r → r < n → (r < i ∨ (r = i ∧ c < j)) → CellOk n a l r c

theorem cholCell_written (n : Nat) (a l l' : List F) (i j : Nat) (hi : i < n) (hj : j ≤ i)
    (hw : Written n a l i j) (h : cholCell n a l i j = some l') : Written n a l' i (j + 1) := by
  obtain ⟨hlen, hcells⟩ := hw
  have hjn : j < n := by omega
  have hidx : i * n + j < l.length := by rw [hlen, Nat.mul_comm n n]; exact idx_lt' hjn hi
  have hrow : ∀ t, t < n → t * n + j ≤ l.length := by
    intro t ht
    have : t * n + j < l.length := by rw [hlen, Nat.mul_comm n n]; exact idx_lt' hjn ht
    omega
  -- the prefix dot product, as a sum
  have hdot : dot8 ((l.drop (j * n)).take j) ((l.drop (i * n)).take j) =
      ∑ k ∈ range j, rd l (j * n + k) * rd l (i * n + k) :=
    dot8_rows l (j * n) (i * n) j (hrow j hjn) (hrow i hi)
  -- shape of the result
  have hset : ∃ v, l' = l.set (i * n + j) v ∧
      (if i = j then 0 < cholPivot n a l i ∧ v = Transc.sqrt (cholPivot n a l i)
        else v = (rd a (i * n + j) - ∑ k ∈ range j, rd l (j * n + k) * rd l (i * n + k)) / rd l (j * n + j)) := by
    unfold cholCell at h
    by_cases hij : i = j
    · subst hij
      simp only [if_true] at h ⊢
      split at h
      · cases h
      · rename_i hp
        cases h
        have hp' := not_le.mp (not_or.mp hp).1
        rw [hdot] at hp' ⊢
        exact ⟨_, rfl, hp', rfl⟩
    · simp only [hij, if_false, Option.some.injEq] at h ⊢
      subst h
      rw [hdot]
      exact ⟨_, rfl, rfl⟩
  obtain ⟨v, hl', hv⟩ := hset
  subst hl'
  -- frame: every cell other than (i,j) is unchanged
  have hframe : ∀ r c, c < n → ¬(r = i ∧ c = j) →
      rd (l.set (i * n + j) v) (r * n + c) = rd l (r * n + c) :=
    fun r c hc hne => rd_set_cell l n i j r c v hjn hc hne hidx
  refine ⟨by simp [hlen], ?_⟩
  intro r c hcr hrn hlt
  by_cases hnew : r = i ∧ c = j
  · -- the cell just written
    obtain ⟨hr, hc⟩ := hnew
    subst hr; subst hc
    have hv0 : rd (l.set (r * n + c) v) (r * n + c) = v := by rw [rd_set _ _ _ _ hidx, if_pos rfl]
    unfold CellOk
    by_cases hrc : r = c
    · subst hrc
      simp only [if_true] at hv ⊢
      have hp : cholPivot n a (l.set (r * n + r) v) r = cholPivot n a l r := by
        unfold cholPivot
        congr 1
        apply Finset.sum_congr rfl
        intro k hk
        have hk' := Finset.mem_range.mp hk
        rw [hframe r k (by omega) (by omega)]
      rw [hp, hv0]
      exact hv
    · simp only [hrc, if_false] at hv ⊢
      have hsum : ∑ k ∈ range c, rd (l.set (r * n + c) v) (c * n + k) * rd (l.set (r * n + c) v) (r * n + k) =
          ∑ k ∈ range c, rd l (c * n + k) * rd l (r * n + k) := by
        apply Finset.sum_congr rfl
        intro k hk
        have hk' := Finset.mem_range.mp hk
        rw [hframe c k (by omega) (by omega), hframe r k (by omega) (by omega)]
      rw [hv0, hframe c c (by omega) (by omega), hsum]
      exact hv
  · -- an earlier cell: it reads only cells different from (i,j)
    have hold : CellOk n a l r c := by
      apply hcells r c hcr hrn
      rcases hlt with h1 | ⟨h1, h2⟩
      · exact Or.inl h1
      · refine Or.inr ⟨h1, ?_⟩
        rcases Nat.lt_succ_iff_lt_or_eq.mp h2 with h3 | h3
        · exact h3
        · exact absurd ⟨h1, h3⟩ hnew
    apply CellOk_congr n a l _ r c _ _ hold
    · intro k hk
      apply hframe r k (by omega)
      rintro ⟨h1, h2⟩
      rcases hlt with h3 | ⟨h3, h4⟩
      · omega
      · apply hnew; constructor
        · exact h1
        · omega
    · intro k hk
      apply hframe c k (by omega)
      rintro ⟨h1, h2⟩
      rcases hlt with h3 | ⟨h3, h4⟩
      · omega
      · omega

theorem cholCells_written (n : Nat) (a : List F) (i : Nat) (hi : i < n) (m : Nat) (hm : m ≤ i + 1)
    (l l' : List F) (hw : Written n a l i 0)
    (h : (List.range m).foldlM (fun l j => cholCell n a l i j) l = some l') : Written n a l' i m := by
  induction m generalizing l' with
  | zero => simp at h; subst h; exact hw
  | succ m ih =>
    rw [List.range_succ, List.foldlM_append] at h
    cases h1 : (List.range m).foldlM (fun l j => cholCell n a l i j) l with
    | none => simp [h1] at h
    | some l1 =>
      simp only [h1, Option.bind_eq_bind, Option.bind_some, List.foldlM_cons, List.foldlM_nil] at h
      cases hc : cholCell n a l1 i m with
      | none => simp [hc] at h
      | some l2 =>
        simp only [hc, Option.bind_some, Option.pure_def, Option.some.injEq] at h
        subst h
        exact cholCell_written n a l1 l2 i m hi (by omega) (ih (by omega) l1 h1) hc

theorem cholRow_written (n : Nat) (a l l' : List F) (i : Nat) (hi : i < n) (hw : Written n a l i 0)
    (h : cholRow n a l i = some l') : Written n a l' (i + 1) 0 := by
  obtain ⟨hlen, hcells⟩ := cholCells_written n a i hi (i + 1) (Nat.le_refl _) l l' hw h
  refine ⟨hlen, fun r c hcr hrn hlt => hcells r c hcr hrn ?_⟩
  rcases hlt with h1 | ⟨_, h2⟩
  · rcases Nat.lt_succ_iff_lt_or_eq.mp h1 with h3 | h3
    · exact Or.inl h3
    · exact Or.inr ⟨h3, by omega⟩
  · omega

theorem cholRows_written (n : Nat) (a : List F) (k : Nat) (hk : k ≤ n) (l0 l' : List F)
    (hw : Written n a l0 0 0)
    (h : (List.range k).foldlM (fun l i => cholRow n a l i) l0 = some l') : Written n a l' k 0 := by
  induction k generalizing l' with
  | zero => simp at h; subst h; exact hw
  | succ k ih =>
    rw [List.range_succ, List.foldlM_append] at h
    cases h1 : (List.range k).foldlM (fun l i => cholRow n a l i) l0 with
    | none => simp [h1] at h
    | some l1 =>
      simp only [h1, Option.bind_eq_bind, Option.bind_some, List.foldlM_cons, List.foldlM_nil] at h
      cases hc : cholRow n a l1 k with
      | none => simp [hc] at h
      | some l2 =>
        simp only [hc, Option.bind_some, Option.pure_def, Option.some.injEq] at h
        subst h
        exact cholRow_written n a l1 l2 k (by omega) (ih (by omega) l1 h1) hc

/-- **Every cell of the returned factor satisfies its defining equation** (with respect to the returned
factor itself): diagonal cells are `sqrt` of a positive pivot, cells below the diagonal are
`(a_rc − Σ_{k<c} l_ck l_rk) / l_cc`.  No assumption on `sqrt`. -/
theorem cholLoops_cells (n : Nat) (a l : List F) (h : cholLoops n a = some l) :
    l.length = n * n ∧ ∀ r c, c ≤ r → r < n → CellOk n a l r c := by
  have h0 : Written n a (List.replicate (n * n) (0 : F)) 0 0 :=
    ⟨by simp, fun r c _ _ hlt => by omega⟩
  obtain ⟨hlen, hcells⟩ := cholRows_written n a n (Nat.le_refl n) _ l h0 h
  exact ⟨hlen, fun r c hcr hrn => hcells r c hcr hrn (Or.inl hrn)⟩

/-- the hypothesis on `sqrt` that `L·Lᵀ = A` needs: it squares back on the `n` pivots that occur -/
def SqrtExactOn (n : Nat) (a l : List F) : Prop :=
  ∀ r, r < n → Transc.sqrt (cholPivot n a l r) * Transc.sqrt (cholPivot n a l r) = cholPivot n a l r

/-- **`L·Lᵀ = A` on the lower triangle** (which is all the sweep reads of `a`). -/
theorem cholLoops_lower (hsqrt : ∀ x : F, 0 < x → 0 < Transc.sqrt x) (n : Nat) (a l : List F)
    (h : cholLoops n a = some l) (hsq : SqrtExactOn n a l) (r c : Nat) (hcr : c ≤ r) (hrn : r < n) :
    ∑ k ∈ range n, rd l (r * n + k) * rd l (c * n + k) = rd a (r * n + c) := by
  obtain ⟨_, hup, hdiag⟩ := cholLoops_shape hsqrt n a l h
  obtain ⟨_, hcells⟩ := cholLoops_cells n a l h
  have hcn : c < n := by omega
  -- only k ≤ c contributes (row c vanishes beyond the diagonal)
  have hcut : ∑ k ∈ range n, rd l (r * n + k) * rd l (c * n + k) =
      ∑ k ∈ range (c + 1), rd l (r * n + k) * rd l (c * n + k) := by
    symm
    apply Finset.sum_subset (Finset.range_subset_range.mpr (by omega))
    intro k hk hk'
    have h1 := Finset.mem_range.mp hk
    have h2 : ¬ k < c + 1 := fun hh => hk' (Finset.mem_range.mpr hh)
    rw [hup c k hcn h1 (by omega), mul_zero]
  rw [hcut, Finset.sum_range_succ]
  have hcell := hcells r c hcr hrn
  unfold CellOk at hcell
  by_cases hrc : r = c
  · subst hrc
    simp only [if_true] at hcell
    rw [hcell.2, hsq r hrn]
    unfold cholPivot
    ring
  · simp only [hrc, if_false] at hcell
    have hd : rd l (c * n + c) ≠ 0 := ne_of_gt (hdiag c hcn)
    rw [hcell]
    field_simp
    have : ∑ k ∈ range c, rd l (c * n + k) * rd l (r * n + k) =
        ∑ k ∈ range c, rd l (r * n + k) * rd l (c * n + k) :=
      Finset.sum_congr rfl fun k _ => mul_comm _ _
    rw [this]
    ring

/-- **`L·Lᵀ = A`** for an (exactly) symmetric `a`. -/
theorem cholLoops_factor (hsqrt : ∀ x : F, 0 < x → 0 < Transc.sqrt x) (n : Nat) (a l : List F)
    (h : cholLoops n a = some l) (hsq : SqrtExactOn n a l)
    (hsym : ∀ i j, i < n → j < n → rd a (i * n + j) = rd a (j * n + i)) (i j : Nat) (hi : i < n) (hj : j < n) :
    ∑ k ∈ range n, rd l (i * n + k) * rd l (j * n + k) = rd a (i * n + j) := by
  rcases Nat.le_total j i with hji | hij
  · exact cholLoops_lower hsqrt n a l h hsq i j hji hi
  · rw [hsym i j hi hj, ← cholLoops_lower hsqrt n a l h hsq j i hij hj]
    exact Finset.sum_congr rfl fun k _ => mul_comm _ _

end chol
end Cv.LA
