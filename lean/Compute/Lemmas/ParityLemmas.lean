import Compute.Model.Solve
import Mathlib.GroupTheory.Perm.Sign
import Mathlib.GroupTheory.Perm.Support
import Mathlib.GroupTheory.Perm.Fin
/-
Loop invariants of `ipiv_parity` (`Cv.LA.parityWhile` / `parityLoop` / `ipivParity`, Model/Solve.lean)
for permutation vectors of EVERY size, against Mathlib's `Equiv.Perm.sign`.

The working vector is `vec τ = [τ 0, …, τ (n-1)]` for `τ : Equiv.Perm (Fin n)`.  One pass of the inner
`while` at position `i` with `τ i ≠ i` replaces `τ` by `τ * swap i (τ i)`: the sign flips, the point
`τ i` becomes fixed and no fixed point is lost, so the support shrinks strictly.
-/
namespace Cv.Parity
open Cv Cv.LA Equiv

variable {n : ℕ}

/-- the permutation vector `[τ 0, …, τ (n-1)]` as the model takes it (`&[i32]`) -/
def vec (τ : Perm (Fin n)) : List Int := List.ofFn fun k => (((τ k : Fin n) : ℕ) : ℤ)

@[simp] theorem vec_length (τ : Perm (Fin n)) : (vec τ).length = n := by simp [vec]

theorem vec_getElem? (τ : Perm (Fin n)) (i : Fin n) : (vec τ)[(i : ℕ)]? = some (((τ i : Fin n) : ℕ) : ℤ) := by
  simp [vec]

theorem vec_injective : Function.Injective (vec : Perm (Fin n) → List Int) := by
  intro σ τ h
  ext i
  have h1 := vec_getElem? σ i
  rw [h, vec_getElem? τ i] at h1
  have := Option.some.inj h1
  exact_mod_cast this.symm

/-- swapping two cells of `List.ofFn f` = precomposing `f` with the transposition -/
theorem swapIdx_ofFn {β : Type} (f : Fin n → β) (i j : Fin n) :
    swapIdx (List.ofFn f) i j = List.ofFn fun k => f (Equiv.swap i j k) := by
  unfold swapIdx
  simp only [List.getElem?_ofFn, i.isLt, j.isLt, dite_true, Fin.eta]
  apply List.ext_getElem
  · simp
  · intro k h1 h2
    have hk : k < n := by simpa using h2
    simp only [List.getElem_set, List.getElem_ofFn]
    by_cases hj : (j : ℕ) = k
    · have : (⟨k, hk⟩ : Fin n) = j := Fin.ext hj.symm
      simp [hj, this]
    · have hj' : (⟨k, hk⟩ : Fin n) ≠ j := fun h => hj (by rw [← h])
      by_cases hi : (i : ℕ) = k
      · have : (⟨k, hk⟩ : Fin n) = i := Fin.ext hi.symm
        simp [hj, hi, this]
      · have hi' : (⟨k, hk⟩ : Fin n) ≠ i := fun h => hi (by rw [← h])
        simp [hj, hi, Equiv.swap_apply_of_ne_of_ne hi' hj']

theorem swapIdx_vec (τ : Perm (Fin n)) (i j : Fin n) :
    swapIdx (vec τ) i j = vec (τ * Equiv.swap i j) := by
  unfold vec
  rw [swapIdx_ofFn]
  rfl

/-- one swap of the inner loop: the support loses `τ i` and gains nothing -/
theorem support_step_ssubset (τ : Perm (Fin n)) (i : Fin n) (h : τ i ≠ i) :
    (τ * Equiv.swap i (τ i)).support ⊂ τ.support := by
  have hti : τ (τ i) ≠ τ i := fun e => h (τ.injective e)
  rw [Finset.ssubset_iff_of_subset]
  · refine ⟨τ i, Perm.mem_support.mpr hti, ?_⟩
    rw [Perm.mem_support]
    simp
  · intro k hk
    rw [Perm.mem_support] at hk ⊢
    by_cases hki : k = i
    · subst hki; exact h
    · by_cases hkt : k = τ i
      · subst hkt; exact hti
      · rw [Perm.mul_apply, Equiv.swap_apply_of_ne_of_ne hki hkt] at hk
        exact hk

theorem fixed_step (τ : Perm (Fin n)) (i : Fin n) (h : τ i ≠ i) (j : Fin n) (hj : τ j = j) :
    (τ * Equiv.swap i (τ i)) j = j := by
  have h1 : j ≠ i := fun e => h (e ▸ hj)
  have h2 : j ≠ τ i := fun e => h (τ.injective (by rw [← e, hj]))
  rw [Perm.mul_apply, Equiv.swap_apply_of_ne_of_ne h1 h2, hj]

/-- swap accounting between a start permutation `τ`, the current one `τ'` and the number `k` of swaps
so far: every swap fixes at least one more point, no swap means no change, and the swap that reaches
the identity fixes two points at once — so a complete run needs at most `#support − 1` swaps. -/
def Budget (τ τ' : Perm (Fin n)) (k : ℕ) : Prop :=
  τ'.support.card + k ≤ τ.support.card ∧ (k = 0 → τ' = τ) ∧ (k ≠ 0 → τ' = 1 → k + 1 ≤ τ.support.card)

theorem Budget.refl (τ : Perm (Fin n)) : Budget τ τ 0 :=
  ⟨le_refl _, fun _ => rfl, fun h => absurd rfl h⟩

theorem Budget.step (τ τ' : Perm (Fin n)) (i : Fin n) (h : τ i ≠ i) (k : ℕ)
    (hb : Budget (τ * Equiv.swap i (τ i)) τ' k) : Budget τ τ' (k + 1) := by
  obtain ⟨h1, h2, h3⟩ := hb
  have hcard := Finset.card_lt_card (support_step_ssubset τ i h)
  refine ⟨by omega, fun h0 => absurd h0 (Nat.succ_ne_zero k), fun _ hone => ?_⟩
  by_cases hk : k = 0
  · have e1 : τ * Equiv.swap i (τ i) = 1 := by rw [← h2 hk, hone]
    have e2 : τ = Equiv.swap i (τ i) := by
      have := mul_eq_one_iff_eq_inv.mp e1
      rwa [Equiv.swap_inv] at this
    have : τ.support.card = 2 :=
      (congrArg (fun σ : Perm (Fin n) => σ.support.card) e2).trans (Perm.card_support_swap (Ne.symm h))
    omega
  · have := h3 hk hone
    omega

theorem Budget.trans {τ τ₁ τ₂ : Perm (Fin n)} {k₁ k₂ : ℕ} (h₁ : Budget τ τ₁ k₁) (h₂ : Budget τ₁ τ₂ k₂) :
    Budget τ τ₂ (k₁ + k₂) := by
  obtain ⟨a1, a2, a3⟩ := h₁
  obtain ⟨b1, b2, b3⟩ := h₂
  refine ⟨by omega, fun h0 => ?_, fun hne hone => ?_⟩
  · rw [b2 (by omega), a2 (by omega)]
  · by_cases hk2 : k₂ = 0
    · have e : τ₂ = τ₁ := b2 hk2
      have := a3 (by omega) (by rw [← e, hone])
      omega
    · have := b3 hk2 hone
      omega

/-- **The inner `while` at position `i`.**  With fuel exceeding the number of non-fixed points it
terminates without panic, having performed `k` swaps; afterwards `i` is fixed, every previously fixed
point is still fixed, `sign τ = (-1)^k · sign τ'`, and `k` is at most the number of points that became
fixed. -/
theorem parityWhile_spec (i : Fin n) : ∀ (fuel : ℕ) (τ : Perm (Fin n)) (par : ℕ), τ.support.card < fuel →
    ∃ (τ' : Perm (Fin n)) (k : ℕ), parityWhile i fuel (vec τ) par = .ok (vec τ', par + k) ∧ τ' i = i ∧
      (∀ j, τ j = j → τ' j = j) ∧ Perm.sign τ = (-1) ^ k * Perm.sign τ' ∧ Budget τ τ' k := by
  intro fuel
  induction fuel with
  | zero => intro τ par h; exact absurd h (Nat.not_lt_zero _)
  | succ fuel ih =>
    intro τ par hf
    unfold parityWhile
    rw [vec_getElem? τ i]
    by_cases hfix : τ i = i
    · refine ⟨τ, 0, ?_, hfix, fun _ h => h, by simp, Budget.refl τ⟩
      simp [hfix]
    · have hne : (((τ i : Fin n) : ℕ) : ℤ) ≠ ((i : ℕ) : ℤ) := by
        intro e; exact hfix (Fin.ext (by exact_mod_cast e))
      have hnn : ¬ (((τ i : Fin n) : ℕ) : ℤ) < 0 := by omega
      have hti : τ (τ i) ≠ τ i := fun e => hfix (τ.injective e)
      have hne2 : (((τ (τ i) : Fin n) : ℕ) : ℤ) ≠ (((τ i : Fin n) : ℕ) : ℤ) := by
        intro e; exact hti (Fin.ext (by exact_mod_cast e))
      simp only [hne, if_false, hnn, Int.toNat_natCast, vec_getElem? τ (τ i), hne2]
      rw [swapIdx_vec]
      have hss := support_step_ssubset τ i hfix
      have hcard := Finset.card_lt_card hss
      obtain ⟨τ', k, hrun, hi, hfx, hsg, hc⟩ := ih (τ * Equiv.swap i (τ i)) (par + 1) (by omega)
      refine ⟨τ', k + 1, ?_, hi, fun j hj => hfx j (fixed_step τ i hfix j hj), ?_, Budget.step τ τ' i hfix k hc⟩
      · rw [hrun]; congr 2; omega
      · have hs : Perm.sign (τ * Equiv.swap i (τ i)) = -Perm.sign τ := by
          rw [Perm.sign_mul, Perm.sign_swap (Ne.symm hfix)]; simp
        rw [hs] at hsg
        rw [pow_succ, mul_assoc, neg_one_mul, mul_neg, ← hsg, neg_neg]

/-- **The outer `for`.**  Every listed position ends up fixed. -/
theorem parityLoop_spec (fuel : ℕ) (hf : n < fuel) : ∀ (is : List (Fin n)) (τ : Perm (Fin n)) (par : ℕ),
    ∃ (τ' : Perm (Fin n)) (k : ℕ),
      parityLoop fuel (is.map Fin.val) (vec τ) par = .ok (vec τ', par + k) ∧
      (∀ i ∈ is, τ' i = i) ∧ (∀ j, τ j = j → τ' j = j) ∧ Perm.sign τ = (-1) ^ k * Perm.sign τ' ∧
      Budget τ τ' k := by
  intro is
  induction is with
  | nil =>
    intro τ par
    exact ⟨τ, 0, by simp [parityLoop], by simp, fun _ h => h, by simp, Budget.refl τ⟩
  | cons i is ih =>
    intro τ par
    have hc : τ.support.card < fuel :=
      lt_of_le_of_lt (le_trans (Finset.card_le_univ _) (by simp)) hf
    obtain ⟨τ₁, k₁, hrun₁, hi₁, hfx₁, hsg₁, hc₁⟩ := parityWhile_spec i fuel τ par hc
    obtain ⟨τ₂, k₂, hrun₂, hi₂, hfx₂, hsg₂, hc₂⟩ := ih τ₁ (par + k₁)
    refine ⟨τ₂, k₁ + k₂, ?_, ?_, fun j hj => hfx₂ j (hfx₁ j hj), ?_, hc₁.trans hc₂⟩
    · simp only [List.map_cons, parityLoop, hrun₁, hrun₂]
      congr 2; omega
    · intro j hj
      rcases List.mem_cons.mp hj with rfl | hj
      · exact hfx₂ _ hi₁
      · exact hi₂ j hj
    · rw [hsg₁, hsg₂, pow_add, mul_assoc]

/-- the whole double loop on `vec τ`: it ends on the identity after `k` swaps, `sign τ = (-1)^k`,
and `k` is below the number of non-fixed points of `τ` (so `k ≤ n - 1`). -/
theorem parityLoop_full (τ : Perm (Fin n)) (fuel : ℕ) (hf : n < fuel) :
    ∃ k : ℕ, parityLoop fuel (List.range n) (vec τ) 0 = .ok (vec (1 : Perm (Fin n)), k) ∧
      Perm.sign τ = (-1) ^ k ∧ k ≤ τ.support.card - 1 := by
  obtain ⟨τ', k, hrun, hall, -, hsg, hc⟩ := parityLoop_spec fuel hf (List.finRange n) τ 0
  have h1 : τ' = 1 := by
    ext i
    simp [hall i (List.mem_finRange i)]
  subst h1
  have hk : k ≤ τ.support.card - 1 := by
    by_cases h0 : k = 0
    · omega
    · have := hc.2.2 h0 rfl
      omega
  refine ⟨k, ?_, by simpa using hsg, hk⟩
  rw [← List.map_coe_finRange_eq_range, hrun]
  simp

/-! ### arbitrary input vectors: the fuel always suffices -/

/-- positions already holding their own index -/
def fixSet (l : List Int) : Finset ℕ := (Finset.range l.length).filter fun j => l[j]? = some (j : ℤ)

theorem fixSet_card_le (l : List Int) : (fixSet l).card ≤ l.length := by
  have := Finset.card_filter_le (Finset.range l.length) fun j => l[j]? = some (j : ℤ)
  simpa [fixSet] using this

theorem swapIdx_length {β : Type} (l : List β) (i j : ℕ) : (swapIdx l i j).length = l.length := by
  unfold swapIdx; split <;> simp

/-- a swap executed by the inner loop (on ANY vector that passes the bounds check and the assert)
creates a new fixed position and destroys none -/
theorem fixSet_swap_ssubset (l : List Int) (i J : ℕ) (pj : ℤ) (hi : l[i]? = some (J : ℤ)) (hJ : l[J]? = some pj)
    (hiJ : (J : ℤ) ≠ (i : ℤ)) (hpj : pj ≠ (J : ℤ)) : fixSet l ⊂ fixSet (swapIdx l i J) := by
  have hil : i < l.length := (List.getElem?_eq_some_iff.mp hi).1
  have hJl : J < l.length := (List.getElem?_eq_some_iff.mp hJ).1
  have hsw : swapIdx l i J = (l.set i pj).set J (J : ℤ) := by simp only [swapIdx, hi, hJ]
  have hne : i ≠ J := fun e => hiJ (by rw [e])
  rw [Finset.ssubset_iff_of_subset]
  · refine ⟨J, ?_, ?_⟩
    · simp only [fixSet, Finset.mem_filter, Finset.mem_range, swapIdx_length]
      refine ⟨hJl, ?_⟩
      rw [hsw, List.getElem?_set]; simp [hJl]
    · simp only [fixSet, Finset.mem_filter, Finset.mem_range, not_and]
      intro _; rw [hJ]; intro e; exact hpj (Option.some.inj e)
  · intro j hj
    simp only [fixSet, Finset.mem_filter, Finset.mem_range, swapIdx_length] at hj ⊢
    refine ⟨hj.1, ?_⟩
    have h1 : i ≠ j := by
      rintro rfl; rw [hi] at hj; exact hiJ (Option.some.inj hj.2)
    have h2 : J ≠ j := by
      rintro rfl; rw [hJ] at hj; exact hpj (Option.some.inj hj.2)
    rw [hsw, List.getElem?_set, if_neg h2, List.getElem?_set, if_neg h1]
    exact hj.2

theorem parityWhile_no_diverge (i : ℕ) : ∀ (fuel : ℕ) (l : List Int) (par : ℕ),
    l.length - (fixSet l).card < fuel →
      parityWhile i fuel l par ≠ .diverged ∧
      ∀ l' par', parityWhile i fuel l par = .ok (l', par') → l'.length = l.length := by
  intro fuel
  induction fuel with
  | zero => intro l par h; exact absurd h (Nat.not_lt_zero _)
  | succ fuel ih =>
    intro l par hf
    unfold parityWhile
    cases hi : l[i]? with
    | none => simp
    | some pi =>
      simp only
      by_cases h1 : pi = (i : ℤ)
      · simp only [h1, if_true]
        refine ⟨by simp, ?_⟩
        intro l' par' h; cases h; rfl
      · simp only [h1, if_false]
        by_cases h2 : pi < 0
        · simp [h2]
        · simp only [h2, if_false]
          cases hJ : l[pi.toNat]? with
          | none => simp
          | some pj =>
            simp only
            by_cases h3 : pj = pi
            · simp [h3]
            · simp only [h3, if_false]
              have hpi : ((pi.toNat : ℕ) : ℤ) = pi := Int.toNat_of_nonneg (not_lt.mp h2)
              have hss := fixSet_swap_ssubset l i pi.toNat pj (by rw [hpi]; exact hi) hJ
                (by rw [hpi]; exact h1) (by rw [hpi]; exact h3)
              have hcard := Finset.card_lt_card hss
              have hle := fixSet_card_le (swapIdx l i pi.toNat)
              have hlen := swapIdx_length l i pi.toNat
              obtain ⟨g1, g2⟩ := ih (swapIdx l i pi.toNat) (par + 1) (by omega)
              exact ⟨g1, fun l' par' h => (g2 l' par' h).trans hlen⟩

theorem parityLoop_no_diverge (fuel : ℕ) : ∀ (is : List ℕ) (l : List Int) (par : ℕ), l.length < fuel →
    parityLoop fuel is l par ≠ .diverged := by
  intro is
  induction is with
  | nil => intro l par _; simp [parityLoop]
  | cons i is ih =>
    intro l par hf
    obtain ⟨g1, g2⟩ := parityWhile_no_diverge i fuel l par (by omega)
    unfold parityLoop
    cases h : parityWhile i fuel l par with
    | ok r =>
      obtain ⟨l', par'⟩ := r
      exact ih l' par' (by rw [g2 l' par' h]; exact hf)
    | panic => simp
    | diverged => exact absurd h g1

end Cv.Parity
