import Compute.Model.Mat
import Compute.Model.Kernels
import Compute.Model.Matmul
import Compute.Generated.C05Wiring
/-
Model of `src/linalg/array/dot.rs`: the `Dot` trait for Matrix·Matrix, Matrix·Vector, Vector·Matrix
and Vector·Vector.  The per-method wiring (shape assert, `matmul` arguments, output shape, inner
method after vector promotion) is *data* read from the generated table `Generated/C05Wiring.lean`;
this file is its interpreter.  The four ownership forms of every impl share one body (the macro is
instantiated four times with the same body), hence one model.  `none` = panic.
-/
namespace Cv.DotT
open Cv Cv.C05W
variable {α : Type}

def dimOf (d : Dim) (s o : Mat α) : Nat :=
  match d with
  | .selfRows => s.nrows | .selfCols => s.ncols | .otherRows => o.nrows | .otherCols => o.ncols

/-- `Matrix::new(data, nrows as i32, ncols as i32)`: a `1 × len` matrix reshaped in place;
`reshape_mut` asserts `nrows * ncols == size`.  (The `i32` casts are exact below 2³¹.) -/
def matrixNew (data : List α) (r c : Nat) : Option (Mat α) :=
  if r * c = data.length then some ⟨data, r, c⟩ else none

/-- `Vector::to_matrix`: `Matrix::new(self, 1, n)`. -/
def toMatrix (v : List α) : Option (Mat α) := matrixNew v 1 v.length

/-- `Matrix::t_mut`: `data = transpose(&data, nrows)`, then swap `nrows`/`ncols`. -/
def tMut [Inhabited α] (m : Mat α) : Option (Mat α) :=
  match transpose m.data m.nrows with
  | none => none
  | some d => some ⟨d, m.ncols, m.nrows⟩

def mmRow (meth : Meth) : Option MMRow := matMat.find? (fun r => r.meth = meth)

variable [Inhabited α] [Add α] [Mul α] [Zero α]

/-- Interpreter of one Matrix·Matrix wiring row. -/
def runRow (row : MMRow) (s o : Mat α) : Option (Mat α) :=
  if dimOf row.assertL s o ≠ dimOf row.assertR s o then none
  else
    match matmul s.data o.data (dimOf row.rowsArgA s o) (dimOf row.rowsArgB s o) row.ta row.tb with
    | none => none
    | some out => matrixNew out (dimOf row.outRows s o) (dimOf row.outCols s o)

/-- `impl Dot<Matrix, Matrix> for Matrix` (all four ownership forms). -/
def dotMM (meth : Meth) (s o : Mat α) : Option (Mat α) :=
  match mmRow meth with
  | none => none
  | some row => runRow row s o

/-- `impl Dot<Vector, Vector> for Matrix`: `let mut o = other.clone().to_owned().to_matrix(); o.t_mut();
self.$innerop(o).to_vec()`. -/
def dotMV (meth : Meth) (s : Mat α) (v : List α) : Option (List α) :=
  match matVec.lookup meth, toMatrix v with
  | some inner, some o1 =>
    match tMut o1 with
    | none => none
    | some o => (dotMM inner s o).map (·.data)
  | _, _ => none

/-- `impl Dot<Matrix, Vector> for Vector`: `self.clone().to_owned().to_matrix().$innerop(other).to_vec()`. -/
def dotVM (meth : Meth) (v : List α) (o : Mat α) : Option (List α) :=
  match vecMat.lookup meth, toMatrix v with
  | some inner, some s => (dotMM inner s o).map (·.data)
  | _, _ => none

/-- `impl Dot<Vector, f64> for Vector`: `dot(&self.data(), &other.data())` for every method name. -/
def dotVV (meth : Meth) (x y : List α) : Option α :=
  if meth ∈ vecVec then dot? x y else none

end Cv.DotT
