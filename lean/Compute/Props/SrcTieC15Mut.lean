import Compute.Model.Constructors
import Compute.Model.Rotations
import Compute.Generated.SrcC15Mut
import Compute.Lemmas.SrcMut
/-
Source tie for C15, third pass: the constructors `linspace`, `diag`, `vandermonde` of `src/linalg/utils.rs` as whole
functions (`Compute/Generated/SrcC15Mut.lean`, regenerated from the Rust source on every run by `tools/rs2lean.py`, option
`mut`), each proved equal to the hand model of `Compute/Model/Constructors.lean` for every scalar type; no algebra on the
scalar is used.

Fourth pass: `transpose` (nested push loops = row-major enumeration, `flatMap_range_map_range`), `row_to_col_major` /
`col_to_row_major` (in-place scatter `x[j*nrows+i] = a[i*ncols+j]` over a copy of `a`: the pairs `(i, j)` are sent bijectively
onto the cells, so every cell is written exactly once and the initial copy is irrelevant — `foldl_set_bij_eq_map`),
`diag_matrix` (only the diagonal cells are written, once each; the others keep the zero of `vec![0.; n * n]`).

Shape tolerance (robustness pass): a vector built by `collect`, by a push loop, by nested push loops or by `extend` of a mapped
range has ONE normal form on the generated side (`map` / `flatMap`); the theorems nevertheless try the older fold spellings too
(`first | rfl | ..`, bridging lemmas `foldl_push_map`, `foldl_foldl_push_eq_flatMap`, `foldl_append_eq_flatMap`).

Where the hand model is not syntactically the source:
* `linspace`: the source's checked `num - 1` is the guard `1 ≤ num` on the generated side, the model tests `num = 0`
  (`Nat` case analysis); the formula `start + i as f64 * width` and `width` are the model's by `rfl`.
* `diag`: the source pushes `a[i*n+i]` in a loop, the model maps over the range (`foldl_push_map`).
* `vandermonde`: nested push loops vs `flatMap` of `map` (`foldl_foldl_push_eq_flatMap`); `v.powi(i as i32)` is `Cv.powi v (i : Int)`
  on both sides.
-/
set_option linter.unusedSectionVars false
namespace Cv.SrcTie.C15Mut

variable {α : Type} [Add α] [Sub α] [Mul α] [Div α] [Neg α] [Zero α] [One α] [NatCast α] [IntCast α]
  [LT α] [DecidableLT α] [LE α] [DecidableLE α] [BEq α] [Cv.Transc α] [Inhabited α]

open Cv.Ctor

/-- `linspace(start, stop, num)`: one point, the underflow panic of `num - 1` for `num = 0`, the grid. -/
theorem linspace_eq (start stop : α) (num : Nat) :
    Cv.Src.C15Mut.linspace start stop num = Cv.Ctor.linspace start stop num := by
  unfold Cv.Src.C15Mut.linspace Cv.Ctor.linspace
  by_cases h1 : num = 1
  · rw [if_pos h1, if_pos h1]
  · rw [if_neg h1, if_neg h1]
    by_cases h0 : num = 0
    · rw [if_pos h0, if_neg (by omega)]
    · rw [if_neg h0, if_pos (by omega)] <;> rfl

/-- `diag(a)`: `is_square(a).unwrap()`, then the pushes of the diagonal entries. -/
theorem diag_eq (a : List α) : Cv.Src.C15Mut.diag a = Cv.Ctor.diagU a := by
  unfold Cv.Src.C15Mut.diag Cv.Ctor.diagU
  cases isSquareLen a.length with
  | none => rfl
  | some n =>
    -- shape-tolerant: the source may build the vector with `collect` (a `map`, `rfl`) or with a push loop (a fold)
    first
      | rfl
      | (simp only [Option.bind_some, Option.map_some]
         first
           | rfl
           | (rw [Cv.SrcMut.foldl_push_map (fun i => a[i * n + i]!)]; rfl))

/-- `vandermonde(x, n)`: for each `v`, the pushes of `v.powi(0), …, v.powi(n-1)`. -/
theorem vandermonde_eq (x : List α) (n : Nat) : Cv.Src.C15Mut.vandermonde x n = Cv.Ctor.vandermonde x n := by
  unfold Cv.Src.C15Mut.vandermonde Cv.Ctor.vandermonde
  -- shape-tolerant: `flat_map` / nested push loops / a loop that extends by a mapped range
  first
    | rfl
    | (rw [Cv.SrcMut.foldl_foldl_push_eq_flatMap (fun _ => List.range n) (fun v (i : Nat) => Cv.powi v ((i : Nat) : Int))]
       rfl)
    | (rw [Cv.SrcMut.foldl_append_eq_flatMap
        (fun v => List.map (fun (i : Nat) => Cv.powi v ((i : Nat) : Int)) (List.range n))]
       rfl)

/-! ### fourth pass: `transpose`, `row_to_col_major`, `col_to_row_major`, `diag_matrix` -/

open Cv.Shape

theorem divmod_of_lt (j n i : Nat) (h : i < n) : (j * n + i) / n = j ∧ (j * n + i) % n = i := by
  have hn : 0 < n := by omega
  constructor
  · rw [Nat.mul_comm, Nat.mul_add_div hn, Nat.div_eq_of_lt h, Nat.add_zero]
  · rw [Nat.mul_comm, Nat.mul_add_mod, Nat.mod_eq_of_lt h]

/-- `is_matrix(a, nrows).unwrap() = ncols`: `nrows ≠ 0` and `nrows * ncols = len`. -/
theorem isMatrixU_some (len nrows ncols : Nat) (h : isMatrixU len nrows = some ncols) :
    0 < nrows ∧ nrows * ncols = len := by
  unfold isMatrixU isMatrix at h
  by_cases h0 : nrows = 0
  · simp [h0] at h
  · by_cases h1 : nrows * (len / nrows) = len
    · simp [h0, h1] at h
      subst h
      exact ⟨by omega, h1⟩
    · simp [h0, h1] at h

/-- `transpose(a, nrows)`: the nested push loops (`j` outer, `i` inner) fill the `ncols × nrows` result in row-major order. -/
theorem transpose_eq (a : List α) (nrows : Nat) :
    Cv.Src.C15Mut.transpose a nrows = Cv.Shape.transposeData a nrows := by
  unfold Cv.Src.C15Mut.transpose Cv.Shape.transposeData
  cases isMatrixU a.length nrows with
  | none => rfl
  | some ncols =>
    simp only [Option.bind_some, Option.map_some]
    -- shape-tolerant: `flat_map` of mapped ranges / nested push loops / a loop that extends by a mapped range
    first
      | (rw [Cv.SrcMut.flatMap_range_map_range]; rfl)
      | (rw [Cv.SrcMut.foldl_foldl_push_eq_flatMap (fun _ => List.range nrows) (fun j i => a[i * ncols + j]!),
          List.nil_append, Cv.SrcMut.flatMap_range_map_range]
         rfl)
      | (rw [Cv.SrcMut.foldl_append_eq_flatMap (fun j => List.map (fun i => a[i * ncols + j]!) (List.range nrows)),
          List.nil_append, Cv.SrcMut.flatMap_range_map_range]
         rfl)

/-- `row_to_col_major(a, nrows)`: the copy `x = a.to_vec()` is overwritten cell by cell, `x[j*nrows+i] = a[i*ncols+j]`; the
pairs `(i, j)` hit every cell exactly once (`p ↦ (p % nrows, p / nrows)`), so the result is the model's `map`. -/
theorem rowToColMajor_eq (a : List α) (nrows : Nat) :
    Cv.Src.C15Mut.rowToColMajor a nrows = Cv.Shape.rowToColMajor a nrows := by
  unfold Cv.Src.C15Mut.rowToColMajor Cv.Shape.rowToColMajor
  cases h : isMatrixU a.length nrows with
  | none => rfl
  | some ncols =>
    have ⟨hr, hlen⟩ := isMatrixU_some _ _ _ h
    simp only [Option.bind_some, Option.map_some]
    rw [Cv.SrcMut.foldl_foldl_eq_foldl_pairs (fun (x : List α) i j => x.set (j * nrows + i) a[i * ncols + j]!)
      (fun _ => List.range ncols)]
    rw [Cv.SrcMut.foldl_set_bij_eq_map (fun q : Nat × Nat => q.2 * nrows + q.1) (fun q => a[q.1 * ncols + q.2]!) _ ?_
      a.length (fun p => (p % nrows, p / nrows)) ?_ a rfl]
    · intro q hq q' hq' e
      have h1 := (Cv.SrcMut.mem_pairs_range _ _ q).mp hq
      have h2 := (Cv.SrcMut.mem_pairs_range _ _ q').mp hq'
      have d1 := divmod_of_lt q.2 nrows q.1 h1.1
      have d2 := divmod_of_lt q'.2 nrows q'.1 h2.1
      rw [e] at d1
      exact Prod.ext (d1.2.symm.trans d2.2) (d1.1.symm.trans d2.1)
    · intro p hp
      refine ⟨(Cv.SrcMut.mem_pairs_range _ _ _).mpr ⟨Nat.mod_lt _ hr, ?_⟩, ?_⟩
      · exact Nat.div_lt_of_lt_mul (by rw [hlen]; exact hp)
      · exact Nat.div_add_mod' p nrows

/-- `col_to_row_major(a, nrows)`: `x[i*ncols+j] = a[j*nrows+i]`, every cell written exactly once. -/
theorem colToRowMajor_eq (a : List α) (nrows : Nat) :
    Cv.Src.C15Mut.colToRowMajor a nrows = Cv.Shape.colToRowMajor a nrows := by
  unfold Cv.Src.C15Mut.colToRowMajor Cv.Shape.colToRowMajor
  cases h : isMatrixU a.length nrows with
  | none => rfl
  | some ncols =>
    have ⟨hr, hlen⟩ := isMatrixU_some _ _ _ h
    simp only [Option.bind_some, Option.map_some]
    rw [Cv.SrcMut.foldl_foldl_eq_foldl_pairs (fun (x : List α) i j => x.set (i * ncols + j) a[j * nrows + i]!)
      (fun _ => List.range ncols)]
    rw [Cv.SrcMut.foldl_set_bij_eq_map (fun q : Nat × Nat => q.1 * ncols + q.2) (fun q => a[q.2 * nrows + q.1]!) _ ?_
      a.length (fun p => (p / ncols, p % ncols)) ?_ a rfl]
    · intro q hq q' hq' e
      have h1 := (Cv.SrcMut.mem_pairs_range _ _ q).mp hq
      have h2 := (Cv.SrcMut.mem_pairs_range _ _ q').mp hq'
      have d1 := divmod_of_lt q.1 ncols q.2 h1.2
      have d2 := divmod_of_lt q'.1 ncols q'.2 h2.2
      rw [e] at d1
      exact Prod.ext (d1.1.symm.trans d2.1) (d1.2.symm.trans d2.2)
    · intro p hp
      have hc : 0 < ncols := by
        rcases Nat.eq_zero_or_pos ncols with h0 | h0
        · rw [h0, Nat.mul_zero] at hlen; omega
        · exact h0
      refine ⟨(Cv.SrcMut.mem_pairs_range _ _ _).mpr ⟨?_, Nat.mod_lt _ hc⟩, ?_⟩
      · exact Nat.div_lt_of_lt_mul (by rw [Nat.mul_comm, hlen]; exact hp)
      · exact Nat.div_add_mod' p ncols

/-- `for i in 0..n { v[i*n+i] = f(i) }` on `vec![z; n * n]`: only the diagonal cells are written, once each. -/
theorem diag_scatter (f : Nat → α) (z : α) (n : Nat) :
    (List.range n).foldl (fun (x : List α) i => x.set (i * n + i) (f i)) (List.replicate (n * n) z) =
      (List.range (n * n)).map fun k => if k / n = k % n then f (k / n) else z := by
  apply List.ext_getElem?
  intro p
  have hinj : ∀ i ∈ List.range n, ∀ i' ∈ List.range n, i * n + i = i' * n + i' → i = i' := by
    intro i hi i' hi' e
    have d1 := divmod_of_lt i n i (List.mem_range.mp hi)
    have d2 := divmod_of_lt i' n i' (List.mem_range.mp hi')
    rw [e] at d1
    exact d1.1.symm.trans d2.1
  by_cases hp : p < n * n
  · rw [List.getElem?_map, List.getElem?_range hp, Option.map_some]
    by_cases hd : p / n = p % n
    · have hi : p / n < n := Nat.div_lt_of_lt_mul hp
      have hidx : p / n * n + p / n = p := by
        conv => lhs; rhs; rw [hd]
        exact Nat.div_add_mod' p n
      have := Cv.SrcMut.foldl_set_getElem?_of_mem (fun i => i * n + i) f (List.range n) hinj
        (List.replicate (n * n) z) (p / n) (List.mem_range.mpr hi)
        (by simp only [List.length_replicate]; rw [hidx]; exact hp)
      simp only [hidx] at this
      rw [this, if_pos hd]
    · rw [Cv.SrcMut.foldl_set_getElem?_of_not_mem (fun i => i * n + i) f]
      · rw [List.getElem?_replicate, if_pos hp, if_neg hd]
      · intro i hi e
        have d := divmod_of_lt i n i (List.mem_range.mp hi)
        rw [e] at d
        exact hd (d.1.trans d.2.symm)
  · rw [List.getElem?_eq_none (by rw [Cv.SrcMut.foldl_set_length, List.length_replicate]; omega),
      List.getElem?_eq_none (by simp only [List.length_map, List.length_range]; omega)]

/-- `diag_matrix(a)`: zeros, then `new[i*n+i] = a[i]` — the diagonal cells are written once each, the others keep their zero. -/
theorem diagMatrix_eq (a : List α) : Cv.Src.C15Mut.diagMatrix a = Cv.Ctor.diagMatrix a := by
  unfold Cv.Src.C15Mut.diagMatrix Cv.Ctor.diagMatrix Cv.Mat.build
  exact diag_scatter (fun i => a[i]!) 0 a.length

/-! ### fourth pass: `arange`, `toeplitz`, `Matrix::eye`, rotation matrices -/

/-- `arange(start, stop, step)`.  The source rounds up (`.ceil()`) and then casts `n as usize` (a saturating cast: NaN and
negatives give 0, large values `usize::MAX`); the generated definition takes that cast as the parameter `toUsize`, the model
packages `ceil` + cast as the class method `CeilNat.ceilNat`.  Honest domain: any scalar type and any cast with
`toUsize (ceil x) = ceilNat x` — at `Float` both are `(Float.ceil x).toUInt64.toNat` (next `example`, by `rfl`). -/
theorem arange_eq [CeilNat α] (toUsize : α → Nat) (h : ∀ x : α, toUsize (Cv.Transc.ceil x) = CeilNat.ceilNat x)
    (start stop step : α) :
    Cv.Src.C15Mut.arange toUsize start stop step = Cv.Ctor.arange start stop step := by
  unfold Cv.Src.C15Mut.arange Cv.Ctor.arange
  simp only [h]

example (x : Float) : (fun y : Float => y.toUInt64.toNat) (Cv.Transc.ceil x) = CeilNat.ceilNat x := rfl

/-- `toeplitz(x)`: the `i32` loops `for i in 0..n as i32 { for j in 0..n as i32 { v[(i*n+j) as usize] = x[|i-j| as usize] } }` write
every cell of `vec![0.; n * n]` exactly once (row-major), the model is `Mat.build`. -/
theorem toeplitz_eq (x : List α) : Cv.Src.C15Mut.toeplitz x = Cv.Ctor.toeplitz x := by
  unfold Cv.Src.C15Mut.toeplitz Cv.Ctor.toeplitz Cv.Mat.build
  simp only [Int.toNat_natCast, List.foldl_map]
  have hidx : ∀ i j : Nat, Int.toNat ((i : Int) * (x.length : Int) + (j : Int)) = i * x.length + j := by
    intro i j
    rw [← Int.natCast_mul, ← Int.natCast_add, Int.toNat_natCast]
  simp only [hidx]
  rw [Cv.SrcMut.foldl_foldl_eq_foldl_pairs
    (fun (v : List α) (i j : Nat) => v.set (i * x.length + j) x[Int.natAbs ((i : Int) - (j : Int))]!)
    (fun _ => List.range x.length)]
  rw [Cv.SrcMut.foldl_set_bij_eq_map (fun q : Nat × Nat => q.1 * x.length + q.2)
    (fun q => x[Int.natAbs ((q.1 : Int) - (q.2 : Int))]!) _ ?_
    (x.length * x.length) (fun p => (p / x.length, p % x.length)) ?_ _ (by simp)]
  · apply List.map_congr_left
    intro p _
    congr 1
    split <;> omega
  · intro q hq q' hq' e
    have h1 := (Cv.SrcMut.mem_pairs_range _ _ q).mp hq
    have h2 := (Cv.SrcMut.mem_pairs_range _ _ q').mp hq'
    have d1 := divmod_of_lt q.1 x.length q.2 h1.2
    have d2 := divmod_of_lt q'.1 x.length q'.2 h2.2
    rw [e] at d1
    exact Prod.ext (d1.1.symm.trans d2.1) (d1.2.symm.trans d2.2)
  · intro p hp
    have hc : 0 < x.length := by
      rcases Nat.eq_zero_or_pos x.length with h0 | h0
      · rw [h0] at hp; omega
      · exact h0
    refine ⟨(Cv.SrcMut.mem_pairs_range _ _ _).mpr ⟨Nat.div_lt_of_lt_mul hp, Nat.mod_lt _ hc⟩, ?_⟩
    exact Nat.div_add_mod' p x.length

/-- `Matrix::new(d, r as i32, c as i32)` on data of the right length is the record. -/
theorem mnewN_of_length (d : List α) (r c : Nat) (h : d.length = r * c) : mnewN d r c = some ⟨d, r, c⟩ := by
  unfold mnewN mnew reshapeMut reshapeDims
  have h1 : (0 : Int) ≤ (r : Int) ∧ (0 : Int) ≤ (c : Int) := ⟨Int.natCast_nonneg _, Int.natCast_nonneg _⟩
  have h2 : (r : Int) * (c : Int) = ((1 * d.length : Nat) : Int) := by
    rw [Nat.one_mul, h, Int.natCast_mul]
  simp only [h1, and_self, if_true, h2, Option.map_some, Int.toNat_natCast]

/-- `Matrix::eye(dims)`: `Self::zeros(dims, dims)`, then `m.data[i*dims+i] = 1.` — the record with the diagonal written. -/
theorem eye_eq (dims : Nat) : Cv.Src.C15Mut.eye dims = (Cv.Ctor.eye dims : Option (Mat α)) := by
  unfold Cv.Src.C15Mut.eye Cv.Ctor.eye Cv.Ctor.zeros
  rw [mnewN_of_length _ _ _ (by simp), mnewN_of_length _ _ _ (by simp [Cv.Mat.build])]
  simp only [Option.bind_some]
  congr 2
  exact diag_scatter (fun _ => (1 : α)) 0 dims

theorem rotationMatrixCw_eq (angle : α) (ax : Cv.Rot.Axis) :
    Cv.Src.C15Mut.rotationMatrixCw angle ax = Cv.Rot.rotationMatrixCw angle ax := by
  unfold Cv.Src.C15Mut.rotationMatrixCw Cv.Rot.rotationMatrixCw Cv.Rot.cwCS
  rw [Option.bind_fun_some]
  cases ax <;> rfl

theorem rotationMatrixCcw_eq (angle : α) (ax : Cv.Rot.Axis) :
    Cv.Src.C15Mut.rotationMatrixCcw angle ax = Cv.Rot.rotationMatrixCcw angle ax := by
  unfold Cv.Src.C15Mut.rotationMatrixCcw Cv.Rot.rotationMatrixCcw Cv.Rot.ccwCS
  rw [Option.bind_fun_some]
  cases ax <;> rfl

end Cv.SrcTie.C15Mut
