import Compute.Model.Scalar
import Mathlib.Algebra.Group.Basic
import Mathlib.Algebra.Group.Defs
import Mathlib.Algebra.Field.Basic
import Mathlib.Tactic.Ring
/-
C04 — the square-and-multiply `powi` of the model (`Cv.powi`, compiler-rt `__powidf2`) is the monoid /
field power in exact arithmetic, for every exponent an `i32` can hold.
-/
namespace Cv.C04
open Cv
variable {α : Type}

theorem powiNat_go_eq [Monoid α] (fuel : Nat) (a : α) (n : Nat) (r : α) (h : n < 2 ^ fuel) :
    powiNat.go fuel a n r = r * a ^ n := by
  induction fuel generalizing a n r with
  | zero =>
    have : n = 0 := by simpa using h
    subst this; simp [powiNat.go]
  | succ k ih =>
    have hq : n / 2 < 2 ^ k := by
      rw [pow_succ] at h; omega
    have hn : n = n % 2 + 2 * (n / 2) := by omega
    unfold powiNat.go
    simp only
    by_cases hq0 : n / 2 = 0
    · simp only [hq0, if_true]
      have hlt : n < 2 := by omega
      by_cases hb : n % 2 = 1
      · have : n = 1 := by omega
        subst this; simp
      · have : n = 0 := by omega
        subst this; simp
    · simp only [hq0, if_false]
      rw [ih _ _ _ hq]
      conv_rhs => rw [hn]
      rw [pow_add, pow_mul, pow_two]
      by_cases hb : n % 2 = 1
      · simp [hb, mul_assoc]
      · have : n % 2 = 0 := by omega
        simp [this]

/-- the square-and-multiply `powi` is the monoid power for every exponent below `2^64` (all of `i32`) -/
theorem powiNat_eq_pow [Monoid α] (x : α) (n : Nat) (h : n < 2 ^ 64) : powiNat x n = x ^ n := by
  rw [powiNat, powiNat_go_eq 64 x n 1 h, one_mul]

/-- `f64::powi` (model) in exact arithmetic: `xⁿ` for `n ≥ 0`, `1 / x^|n|` for `n < 0`
(`|n| < 2^64`, in particular every `i32`). -/
theorem powi_eq_pow [Monoid α] [Div α] (x : α) (n : Int) (h : n.natAbs < 2 ^ 64) :
    powi x n = if n < 0 then 1 / x ^ n.natAbs else x ^ n.natAbs := by
  simp only [powi, powiNat_eq_pow x _ h]

/-- in a field: `powi x n = x ^ n` (integer power) -/
theorem powi_eq_zpow [Field α] (x : α) (n : Int) (h : n.natAbs < 2 ^ 64) : powi x n = x ^ n := by
  rw [powi_eq_pow x n h]
  split
  · next hn =>
    have : n = -(n.natAbs : Int) := by omega
    conv_rhs => rw [this]
    rw [zpow_neg, zpow_natCast, one_div]
  · next hn =>
    have : n = (n.natAbs : Int) := by omega
    conv_rhs => rw [this]
    rw [zpow_natCast]

end Cv.C04
