import Compute.Drv.LinalgStep
/- Driver for C01 (linear solves through every entry point); the handler is shared with C11. -/
def main (args : List String) : IO UInt32 := Cv.mainWith () (fun _ t => ((), Cv.LinalgDrv.step t)) args
