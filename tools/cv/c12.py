"""C12 — broadcast arithmetic follows NumPy semantics."""
from .common import Failure, f2h, h2f, parse_reply

ID = "C12"
BIN = "c12"
PROOF_MODULES = ["Compute.Props.C12"]
REQUIRED_THEOREMS = ["Cv.C12.broadcast_total", "Cv.C12.broadcast_shape", "Cv.C12.broadcast_entry"]
RULE = ("operand-coincidence stratum (column against row with bit-identical data up to 40x40, a matrix row / column equal to the row / column operand with infinities, signed zeros, huge and subnormal entries, A op A; every operator, operand kind and both operand orders); value-pattern stratum (all-zero / all-negative-zero / constant / all-ones / tiny-distinct / within-epsilon-of-one / round-off-residual / tiny-constant operands on the left, right or both sides x every shape pair with rows, cols in 1..4, compatible and incompatible x operators x operand kinds); special-value stratum (every classifier leaf x operator x operand kind with NaN / inf / signed zeros / subnormals in the data and as the 1x1 operand); size-boundary shapes (7..9, 15..17, 31..33, 40, products around 1024) against row / column / scalar partners in both orders; every shape pair with rows, cols in 1..6 (1296 pairs): Matrix∘Matrix with 4 of the 16 (operator, ownership form) combinations per pair in the quick tier (each operator once, forms rotating) and all 16 in the thorough tier, Matrix∘Vector and Vector∘Matrix with every operator for every eligible pair (ownership form rotating in quick, all four in thorough), "
        "with distinct non-commuting entries, plus random shapes up to 40x40; non-trivial = distinct (op, kind, shapes) class")
EXHAUSTIVE = {"quick": False, "thorough": False}
NOT_PROVED = [
    "the theorems are about the hand-written model of `broadcast_op!` (lean/Compute/Model/Broadcast.lean) with ONE abstract operator; only the classifier "
    "`calc_broadcast_shape` is regenerated from the Rust text (Props/SrcTieC12). That the macro's leaves apply the operator with left and right operands "
    "in the modelled order - through the four distinct Rust paths f64 op f64, `y op *x` inside apply_along_row / zip loops, `f64 op &Matrix` (sv kernels) "
    "and `&Matrix op f64` (vs kernels) -, that the 48 operator impls (4 operators x {Matrix,Vector} operand kinds x 4 ownership forms) all reach that macro, "
    "and that a Vector operand is promoted to a 1 x n matrix, is tied at run time only: every (operator, kind, ownership form) is executed against the model "
    "bit for bit with non-commuting data, and judged by the independent NumPy-rule oracle",
    "zero-dimension operands (0 rows or 0 columns) are outside the theorems (hypothesis Good: rows, cols >= 1) and outside the generator",
]
TRUSTED = ["element operators are IEEE + - * / on f64 (one operation per entry, compared bit for bit)",
           "the driver lean/Compute/Drv/C12.lean maps the three operand kinds (mm, mv, vm) and all four ownership forms to the one model function (hand-written; checked by the correspondence run on every form)"]
OPS = ["add", "sub", "mul", "div"]


def model_line(line):
    t = line.split()
    return " ".join(t[:3] + t[4:])  # drop the ownership form: all four forms share one model


def mk(op, kind, own, r1, c1, r2, c2, d1, d2):
    return "bc %s %s %d %d %d %d %d %s %s" % (op, kind, own, r1, c1, r2, c2,
                                              " ".join(f2h(x) for x in d1), " ".join(f2h(x) for x in d2))


def data(rng, n, base):
    # distinct, non-commuting-friendly values (never 0 so that / is informative)
    return [base + i + rng.randint(1, 9) / 16.0 for i in range(n)]


def gen(rng, tier):
    lines = []
    cover = {"compatible": 0, "incompatible": 0}
    for r1 in range(1, 7):
        for c1 in range(1, 7):
            for r2 in range(1, 7):
                for c2 in range(1, 7):
                    ok = (r1 == r2 or r1 == 1 or r2 == 1) and (c1 == c2 or c1 == 1 or c2 == 1)
                    cover["compatible" if ok else "incompatible"] += 1
                    combos = [(op, own) for op in OPS for own in range(4)]
                    if tier == "quick":
                        combos = [combos[(r1 * 7 + c1 * 5 + r2 * 3 + c2 + k * 5) % 16] for k in range(4)]
                        combos = [(OPS[k], combos[k][1]) for k in range(4)]
                    for op, own in combos:
                        lines.append(mk(op, "mm", own, r1, c1, r2, c2, data(rng, r1 * c1, 1.0), data(rng, r2 * c2, 100.0)))
                    # Matrix∘Vector / Vector∘Matrix: every operator for every eligible pair (ownership form rotating in quick, all four in thorough)
                    if r2 == 1:
                        for oi, op in enumerate(OPS):
                            for own in (range(4) if tier == "thorough" else [(r1 + c1 + c2 + oi) % 4]):
                                lines.append(mk(op, "mv", own, r1, c1, 1, c2, data(rng, r1 * c1, 1.0), data(rng, c2, 100.0)))
                    if r1 == 1:
                        for oi, op in enumerate(OPS):
                            for own in (range(4) if tier == "thorough" else [(c1 + r2 + c2 + oi) % 4]):
                                lines.append(mk(op, "vm", own, 1, c1, r2, c2, data(rng, c1, 1.0), data(rng, r2 * c2, 100.0)))
    # size-boundary strata (block / unroll / parallel fast-path boundaries seen in seeded changes: 8, 16, 32, 1024 …)
    edge = [7, 8, 9, 15, 16, 17, 31, 32, 33, 40] if tier == "quick" else [7, 8, 9, 15, 16, 17, 23, 24, 25, 31, 32, 33, 39, 40, 63, 64, 65]
    bshapes = []
    for c in edge:
        for r in ([2, 9, 33] if tier == "quick" else [2, 8, 9, 17, 32, 33]):
            bshapes += [((r, c), (1, c)), ((1, c), (r, c)), ((r, c), (r, 1)), ((r, 1), (r, c)), ((r, 1), (1, c)), ((1, c), (r, 1)),
                        ((r, c), (1, 1)), ((1, 1), (r, c)), ((r, c), (r, c))]
    for (r, c) in [(32, 32), (31, 33), (26, 40), (40, 26), (33, 32), (1, 1024), (1024, 1)]:
        bshapes += [((1, c), (r, c)), ((r, c), (1, c)), ((r, 1), (r, c)), ((r, c), (r, 1))]
    for k, ((r1, c1), (r2, c2)) in enumerate(bshapes):
        for op in (OPS if tier == "thorough" else [OPS[k % 4], OPS[(k + 1) % 4]]):
            own = (k + len(op)) % 4
            lines.append(mk(op, "mm", own, r1, c1, r2, c2, data(rng, r1 * c1, 1.0), data(rng, r2 * c2, 100.0)))
            if r2 == 1:
                lines.append(mk(op, "mv", own, r1, c1, 1, c2, data(rng, r1 * c1, 1.0), data(rng, c2, 100.0)))
            if r1 == 1:
                lines.append(mk(op, "vm", own, 1, c1, r2, c2, data(rng, c1, 1.0), data(rng, r2 * c2, 100.0)))
    cover["boundary_shape_lines"] = len(bshapes)
    # special-value stratum: every leaf of the classifier (equal shapes, row / column / outer / 1x1 on either side) x every operator
    # x operand kinds with IEEE special values in the data, and in particular a 1x1 / length-1 operand that IS a special value
    # (+0, -0, inf, -inf, NaN, 1, -1, subnormal): a route that replaces `x op s` by a shortcut (zero-fill for s = 0, copy for
    # s = 1, reciprocal-multiply, sign flips) is only visible on these bit patterns (round-6 seed C12n).
    SPEC = [0.0, -0.0, float("inf"), float("-inf"), float("nan"), 1.0, -1.0, 5e-324, -2.5, 1e308, 2.0 ** -1070]
    def sdata(n, k):
        # a mix of negative, zero, infinite, NaN and ordinary entries in a position-dependent but deterministic order
        pool = [-3.5, 0.0, -0.0, float("inf"), float("-inf"), float("nan"), 7.25, -1e-310, 1e308, 0.1]
        return [pool[(i * 7 + k) % len(pool)] for i in range(n)]
    leafs = [((2, 3), (2, 3)), ((2, 3), (1, 3)), ((1, 3), (2, 3)), ((2, 3), (2, 1)), ((2, 1), (2, 3)), ((3, 1), (1, 2)), ((1, 2), (3, 1)),
             ((2, 3), (1, 1)), ((1, 1), (2, 3)), ((1, 1), (1, 1)), ((1, 4), (1, 1)), ((1, 1), (1, 4)), ((4, 1), (1, 1)), ((1, 1), (4, 1)),
             ((3, 3), (1, 1)), ((1, 1), (3, 3))]
    nspec = 0
    for li, ((r1, c1), (r2, c2)) in enumerate(leafs):
        for oi, op in enumerate(OPS):
            scal = SPEC if tier == "thorough" else [SPEC[(li + oi + j * 3) % len(SPEC)] for j in range(5)] + [0.0, -0.0]
            for si, sv in enumerate(scal if (r1 * c1 == 1 or r2 * c2 == 1) else [None]):
                d1 = [sv] if (r1 * c1 == 1 and sv is not None) else sdata(r1 * c1, li + oi)
                d2 = [sv] if (r2 * c2 == 1 and sv is not None and r1 * c1 != 1) else sdata(r2 * c2, li + oi + 3)
                if r1 * c1 == 1 and r2 * c2 == 1 and sv is not None:
                    d2 = [SPEC[(si + 4) % len(SPEC)]]
                owns = range(4) if tier == "thorough" else [(li + oi + si) % 4, (li + oi + si + 2) % 4]
                for own in owns:
                    lines.append(mk(op, "mm", own, r1, c1, r2, c2, d1, d2)); nspec += 1
                    if r2 == 1:
                        lines.append(mk(op, "mv", own, r1, c1, 1, c2, d1, d2)); nspec += 1
                    if r1 == 1:
                        lines.append(mk(op, "vm", own, 1, c1, r2, c2, d1, d2)); nspec += 1
    cover["special_value_lines"] = nspec
    # value-pattern stratum (round-10 seeds C12v, C12w): shortcuts keyed on the VALUES of an operand - an all-zero operand of a product,
    # a row whose entries are "all the same" up to an absolute tolerance, a constant operand - are invisible with distinct ordinary
    # entries. Every shape pair with rows, cols in 1..4 (compatible and incompatible) x 8 value patterns on the left / right / both
    # operands x operators, through Matrix∘Matrix and, where eligible, Matrix∘Vector and Vector∘Matrix.
    EPS = 2.0 ** -52
    PATS = ["zeros", "negzeros", "const", "ones", "tiny", "near1", "resid", "tinyconst"]
    def pdata(pat, n, k):
        if pat == "zeros": return [0.0] * n
        if pat == "negzeros": return [-0.0] * n
        if pat == "const": return [2.5 + k] * n
        if pat == "ones": return [1.0] * n
        if pat == "tiny": return [(i + 1 + 3 * k) * 1e-20 for i in range(n)]            # distinct, all within f64::EPSILON of each other
        if pat == "near1": return [1.0 + ((i + k) % 2) * EPS for i in range(n)]          # 1, 1+eps, 1, … (not uniform, within eps)
        if pat == "resid": return [(-1) ** i * (i + 1 + k) * 1e-17 for i in range(n)]     # round-off sized residuals of both signs
        return [3e-300 * (1 + k)] * n                                                      # tinyconst
    npat = 0
    pidx = 0
    for r1 in range(1, 5):
        for c1 in range(1, 5):
            for r2 in range(1, 5):
                for c2 in range(1, 5):
                    for pi, pat in enumerate(PATS):
                        pidx += 1
                        sides = [0, 1, 2] if tier == "thorough" else [(pidx + pi) % 3]
                        ops = OPS if tier == "thorough" else [OPS[(pidx // 3 + pi) % 4]]
                        if tier == "quick" and pat in ("zeros", "negzeros") and "mul" not in ops and pidx % 2 == 0:
                            ops = ops + ["mul"]
                        for side in sides:
                            d1 = pdata(pat, r1 * c1, 0) if side in (0, 2) else data(rng, r1 * c1, 1.0)
                            d2 = pdata(pat, r2 * c2, 1) if side in (1, 2) else data(rng, r2 * c2, 100.0)
                            for op in ops:
                                own = (pidx + len(op) + side) % 4
                                lines.append(mk(op, "mm", own, r1, c1, r2, c2, d1, d2)); npat += 1
                                if r2 == 1:
                                    lines.append(mk(op, "mv", own, r1, c1, 1, c2, d1, d2)); npat += 1
                                if r1 == 1:
                                    lines.append(mk(op, "vm", own, 1, c1, r2, c2, d1, d2)); npat += 1
    cover["value_pattern_lines"] = npat
    # operand-coincidence stratum (round-11 seeds C12x, C12y): shortcuts keyed on the two operands holding THE SAME data bit for bit -
    # a column against a row with identical entries (pairwise "ratio table", sizes up to 40), a matrix row / column equal to the row /
    # column operand (reference-row subtraction) with infinities, signed zeros, huge and subnormal entries in it, and A op A.
    INF = float("inf")
    CPOOL = [INF, -INF, -0.0, 0.0, 1e308, -1e308, 5e-324, 0.7, 4.69, -3.25, 1.0 / 3.0, 2.5e-310]   # no NaN: a NaN breaks bit-equality tests
    ncoin = 0
    for n in ([2, 3, 7, 8, 9, 12, 16, 17, 33, 40] if tier == "quick" else [2, 3, 5, 7, 8, 9, 10, 12, 15, 16, 17, 24, 31, 32, 33, 40]):
        d = data(rng, n, 0.5)
        for oi, op in enumerate(OPS):
            own = (n + oi) % 4
            lines.append(mk(op, "mm", own, n, 1, 1, n, d, d)); lines.append(mk(op, "mm", (own + 1) % 4, 1, n, n, 1, d, d))
            lines.append(mk(op, "mv", own, n, 1, 1, n, d, d)); lines.append(mk(op, "vm", own, 1, n, n, 1, d, d)); ncoin += 4
    for (r, c) in ([(2, 3), (3, 4), (4, 4), (9, 8), (17, 5)] if tier == "quick" else [(2, 2), (2, 3), (3, 4), (4, 4), (5, 2), (9, 8), (8, 9), (17, 5), (6, 33)]):
        for k in sorted({0, r - 1, r // 2}):
            row = [CPOOL[(j * 5 + k + c) % len(CPOOL)] for j in range(c)]
            mat = []
            for i in range(r):
                mat += row if i == k else [CPOOL[(i * 7 + j * 3 + 1) % len(CPOOL)] if (i + j) % 3 == 0 else float(i * c + j) + 0.25 for j in range(c)]
            for oi, op in enumerate(OPS):
                own = (r + c + k + oi) % 4
                lines.append(mk(op, "mm", own, r, c, 1, c, mat, row)); lines.append(mk(op, "mm", (own + 2) % 4, 1, c, r, c, row, mat))
                lines.append(mk(op, "mv", own, r, c, 1, c, mat, row)); lines.append(mk(op, "vm", own, 1, c, r, c, row, mat)); ncoin += 4
        for k in sorted({0, c - 1}):
            col = [CPOOL[(i * 5 + k + r) % len(CPOOL)] for i in range(r)]
            mat = []
            for i in range(r):
                mat += [col[i] if j == k else (CPOOL[(i * 7 + j * 3 + 2) % len(CPOOL)] if (i + j) % 3 == 0 else float(i * c + j) + 0.75) for j in range(c)]
            for oi, op in enumerate(OPS):
                own = (r + c + k + oi + 1) % 4
                lines.append(mk(op, "mm", own, r, c, r, 1, mat, col)); lines.append(mk(op, "mm", (own + 2) % 4, r, 1, r, c, col, mat)); ncoin += 2
        same = [CPOOL[(i * 5 + 3) % len(CPOOL)] for i in range(r * c)]
        for oi, op in enumerate(OPS):
            lines.append(mk(op, "mm", (r + oi) % 4, r, c, r, c, same, same)); ncoin += 1
    cover["operand_coincidence_lines"] = ncoin
    nrand = 300 if tier == "quick" else 6000
    for _ in range(nrand):
        r, c = rng.randint(1, 40), rng.randint(1, 40)
        shapes = [(r, c), (1, c), (r, 1), (1, 1), (rng.randint(1, 40), c), (r, rng.randint(1, 40))]
        (r1, c1), (r2, c2) = rng.choice(shapes), rng.choice(shapes)
        kind = rng.choice(["mm", "mm", "mv", "vm"])
        if kind == "mv":
            r2 = 1
        if kind == "vm":
            r1 = 1
        vals = lambda n: [rng.choice([rng.normal() * 10 ** rng.randint(-3, 3), float(rng.randint(-5, 5)), 0.0, -0.0, float("inf"), 1e-310]) if rng.chance(0.1) else rng.normal() for _ in range(n)]
        lines.append(mk(rng.choice(OPS), kind, rng.randint(0, 3), r1, c1, r2, c2, vals(r1 * c1), vals(r2 * c2)))
    return lines, cover


def nontrivial(line, reply):
    t = line.split()
    return " ".join(t[1:3] + t[4:8])


def pyop(op, a, b):
    import math
    if op == "add":
        return a + b
    if op == "sub":
        return a - b
    if op == "mul":
        return a * b
    try:
        return a / b
    except ZeroDivisionError:
        if a != a or a == 0:
            return float("nan")
        return math.copysign(float("inf"), a) * math.copysign(1.0, b)


def oracle(lines, impl):
    """NumPy rule evaluated independently in Python on the implementation's replies."""
    fails = []
    for i, (l, rep) in enumerate(zip(lines, impl)):
        t = l.split()
        op, kind = t[1], t[2]
        r1, c1, r2, c2 = map(int, t[4:8])
        d1 = [h2f(x) for x in t[8:8 + r1 * c1]]
        d2 = [h2f(x) for x in t[8 + r1 * c1:]]
        st, toks = parse_reply(rep)
        if st == "skip":
            continue
        compat = (r1 == r2 or r1 == 1 or r2 == 1) and (c1 == c2 or c1 == 1 or c2 == 1)
        key = "%s:%s:%dx%d:%dx%d" % (op, kind, r1, c1, r2, c2)
        if not compat:
            if st != "panic":
                fails.append(Failure(i, key, "incompatible shapes %dx%d, %dx%d yielded a value instead of a panic" % (r1, c1, r2, c2)))
            continue
        if st != "ok":
            fails.append(Failure(i, key, "compatible shapes %dx%d, %dx%d: %s instead of a value" % (r1, c1, r2, c2, st)))
            continue
        R, C = max(r1, r2), max(c1, c2)
        if int(toks[0]) != R or int(toks[1]) != C or len(toks) != 2 + R * C:
            fails.append(Failure(i, key, "result shape %sx%s with %d entries, expected %dx%d" % (toks[0], toks[1], len(toks) - 2, R, C)))
            continue
        for a in range(R):
            for b in range(C):
                x = d1[(a if r1 > 1 else 0) * c1 + (b if c1 > 1 else 0)]
                y = d2[(a if r2 > 1 else 0) * c2 + (b if c2 > 1 else 0)]
                e = f2h(pyop(op, x, y))
                if toks[2 + a * C + b] != e:
                    fails.append(Failure(i, key, "entry (%d,%d) is %s, expected %s = %r %s %r" % (a, b, toks[2 + a * C + b], e, x, op, y), e))
                    break
            else:
                continue
            break
    return fails

# --- source tie, in-place mutation / nested loops / decision trees (tools/rs2lean.py mut=True: regenerated from /repo/src into
# Generated/SrcC12.lean and proved equal to the hand model in Props/SrcTieC12.lean)
from . import srctie
srctie.wire(globals(), 'C12')
