import Compute.Model.Samplers
import Compute.Generated.SrcC03
/-
Source tie for C03: the inverse-CDF `sample()` bodies of `Exponential`, `Gumbel`, `Pareto`, `Uniform`
(`src/distributions/*.rs`; `Compute/Generated/SrcC03.lean`, regenerated from the Rust source on every run by `tools/rs2lean.py`).

The generated definitions are functions of the RNG draw `u` (`alea::f64()`, or the draw of the cached `Uniform(0, 1)`
sub-sampler); the hand models of `Compute/Model/Samplers.lean` thread the generator state `g : Rng` and return `(value, g')`.
What is proved, for every scalar type: the model's value is the generated formula applied to the draw the model takes, and the
model's new generator state is the state after exactly that one draw.  For `Exponential` / `Gumbel` the draw is
`UniformF.sample 0 1 g` (the sub-sampler, itself tied by `Uniform_sample_eq`), for `Pareto` / `Uniform` it is `g.f64`.
No algebra on the scalar is used (`rfl` after unfolding the pair).
-/
set_option linter.unusedSectionVars false
namespace Cv.SrcTie.C03

variable {α : Type} [Add α] [Sub α] [Mul α] [Div α] [Neg α] [Zero α] [One α] [NatCast α] [IntCast α]
  [LT α] [DecidableLT α] [LE α] [DecidableLE α] [BEq α] [Cv.Transc α] [Inhabited α] [Cv.FiniteTest α]

open Cv

theorem Uniform_sample_eq (lower upper : α) (g : Rng) :
    UniformF.sample lower upper g = (Cv.Src.C03.Uniform_sample (g.f64 (α := α)).1 lower upper, (g.f64 (α := α)).2) := by
  unfold UniformF.sample Cv.Src.C03.Uniform_sample
  simp only
  split <;> rfl

/- F53 (29daf79): `Exponential::sample`, `Gumbel::sample`, `Pareto::sample` redraw while `u == 0.`.  The three theorems below
tie the formula AFTER the loop (`*.ofU`) to the straight-line translation of that formula; the whole bodies including the
`while` loop are regenerated and tied in `Props/SrcTieC03Mut.lean` (`*_sampleLoop_eq`, `Gamma_prepareLoop_eq`). -/
theorem Exponential_sample_eq (lambda u : α) :
    Exponential.ofU lambda u = Cv.Src.C03.Exponential_sample u lambda := rfl

theorem Gumbel_sample_eq (mu beta u : α) :
    Gumbel.ofU mu beta u = Cv.Src.C03.Gumbel_sample u mu beta := rfl

theorem Pareto_sample_eq (alpha minval u : α) :
    Pareto.ofU alpha minval u = Cv.Src.C03.Pareto_sample u alpha minval := rfl

end Cv.SrcTie.C03
