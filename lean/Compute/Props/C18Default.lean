import Compute.Props.C18
import Compute.Props.SrcTieC18Mut
/-
C18 — the construction route `Default` (round-8 seed C18r: `ChiSquared::default()` written as a struct literal with
`Gamma::default()` = Gamma(1, 1) as sampler instead of the `Gamma(1/2, 1/2)` that `ChiSquared::new(1)` installs).

Two layers:
* model: `defaultD k = newD k (defaultArgs k)` (`Model/DistState.lean`).  `defaultD_record` spells out, for each of the 13
  kinds, the whole record this is — *including the stored sub-samplers* — and `defaultD_reachable` makes the default object a
  start state of the history theorems (so `valid_inv`, `coherent_inv`, `observational_equality`, … apply to histories that
  start with `Default`, `Clone` / `Copy` being the identity on records).
* source: `Cv.Src.C18Mut.X_default` is the `impl Default for X` body regenerated from the Rust text on every run;
  `SrcTieC18Mut.X_default_eq` (translator) shows it is `X.new <default arguments>`; the theorems `X_default_record` below
  combine that with the normal forms of the constructors: the default object *as written in the Rust source* is the
  record with the sub-samplers the constructor installs (`ChiSquared_default_record`: sampler `Gamma(1/2, 1/2)`;
  `Beta_default_record`: `alpha_gen = beta_gen = Gamma(1, 1)`; `Gamma`, `Exponential`, `Gumbel`: `Normal(0,1)`, `Uniform(0,1)`).
  A `Default` body that builds the struct directly with other sub-samplers fails these (or leaves the translated subset:
  translator alarm).
All over any linearly ordered field.
-/
set_option linter.unusedSectionVars false
namespace Cv.C18
open Cv.DS

section Model
variable {α : Type} [Field α] [LinearOrder α] [IsStrictOrderedRing α] [CastInt α]

theorem half_mem : (0 : α) ≤ (1 : α) / ((2 : Nat) : α) ∧ (1 : α) / ((2 : Nat) : α) ≤ 1 := by
  have h2 : (0 : α) < ((2 : Nat) : α) := by exact_mod_cast (by norm_num : (0 : ℕ) < 2)
  refine ⟨le_of_lt (div_pos one_pos h2), ?_⟩
  rw [div_le_one h2]
  exact_mod_cast (by norm_num : (1 : ℕ) ≤ 2)

theorem inv_two_le_one : (2 : α)⁻¹ ≤ 1 := by
  simpa using (half_mem (α := α)).2

/-- **The default object, record by record, stored sub-samplers included.** -/
theorem defaultD_record :
    defaultD (α := α) .bernoulli = some (.bernoulli ⟨(1 : α) / ((2 : Nat) : α)⟩) ∧
    defaultD (α := α) .beta = some (.beta ⟨1, 1, gammaOf 1 1, gammaOf 1 1⟩) ∧
    defaultD (α := α) .binomial = some (.binomial ⟨1, (1 : α) / ((2 : Nat) : α)⟩) ∧
    defaultD (α := α) .chisquared = some (.chisquared ⟨1, chiSampler 1⟩) ∧
    defaultD (α := α) .discreteuniform = some (.discreteuniform ⟨0, 1⟩) ∧
    defaultD (α := α) .exponential = some (.exponential ⟨1, stdUniform⟩) ∧
    defaultD (α := α) .gamma = some (.gamma (gammaOf 1 1)) ∧
    defaultD (α := α) .gumbel = some (.gumbel ⟨0, 1, stdUniform⟩) ∧
    defaultD (α := α) .normal = some (.normal ⟨0, 1⟩) ∧
    defaultD (α := α) .pareto = some (.pareto ⟨1, 1⟩) ∧
    defaultD (α := α) .poisson = some (.poisson ⟨1⟩) ∧
    defaultD (α := α) .t = some (.t ⟨1⟩) ∧
    defaultD (α := α) .uniform = some (.uniform ⟨0, 1⟩) := by
  have hh := inv_two_le_one (α := α)
  refine ⟨?_, ?_, ?_, ?_, ?_, ?_, ?_, ?_, ?_, ?_, ?_, ?_, ?_⟩ <;>
    simp [defaultD, defaultArgs, newD, Bernoulli.new, Beta.new_eq, Binomial.new, ChiSquared.new_eq,
      DiscreteUniform.new_eq, Exponential.new_eq, Gamma.new_eq, Gumbel.new_eq, Normal.new_eq, Pareto.new_eq,
      Poisson.new_eq, T.new_eq, Uniform.new_eq, hh]

/-- `ChiSquared::default()` carries the sampler of one degree of freedom, `Gamma(1/2, 1/2)` — not `Gamma(1, 1)`. -/
theorem ChiSquared_default_eq_new :
    defaultD (α := α) .chisquared = newD .chisquared [.int 1] ∧
    defaultD (α := α) .chisquared =
      some (.chisquared ⟨1, gammaOf ((1 : α) / ((2 : Nat) : α)) ((1 : α) / ((2 : Nat) : α))⟩) := by
  refine ⟨rfl, ?_⟩
  rw [defaultD_record.2.2.2.1]
  simp [chiSampler]

/-- `Default` never panics, and the default object is a start state of every history theorem. -/
theorem defaultD_reachable (k : Kind) : ∃ d : Dist α, defaultD k = some d ∧ Reachable d ∧ Inv d ∧ d.kind = k := by
  have h := defaultD_record (α := α)
  obtain ⟨d, hd⟩ : ∃ d : Dist α, defaultD k = some d := by
    cases k
    · exact ⟨_, h.1⟩
    · exact ⟨_, h.2.1⟩
    · exact ⟨_, h.2.2.1⟩
    · exact ⟨_, h.2.2.2.1⟩
    · exact ⟨_, h.2.2.2.2.1⟩
    · exact ⟨_, h.2.2.2.2.2.1⟩
    · exact ⟨_, h.2.2.2.2.2.2.1⟩
    · exact ⟨_, h.2.2.2.2.2.2.2.1⟩
    · exact ⟨_, h.2.2.2.2.2.2.2.2.1⟩
    · exact ⟨_, h.2.2.2.2.2.2.2.2.2.1⟩
    · exact ⟨_, h.2.2.2.2.2.2.2.2.2.2.1⟩
    · exact ⟨_, h.2.2.2.2.2.2.2.2.2.2.2.1⟩
    · exact ⟨_, h.2.2.2.2.2.2.2.2.2.2.2.2⟩
  have hn := new_inv (k := k) (args := defaultArgs k) (d := d) hd
  exact ⟨d, hd, ⟨k, defaultArgs k, d, [], hd, rfl⟩, hn.2.2.2, hn.1⟩

/-- Histories that start from `Default` (then any calls): the object equals `new(current parameters)` as a whole record. -/
theorem default_history_inv (k : Kind) (d0 : Dist α) (h0 : defaultD k = some d0) (h : List (Op α)) :
    Inv (run d0 h) ∧ Valid (run d0 h) ∧ Coherent (run d0 h) := by
  have hr : Reachable (run d0 h) := ⟨k, defaultArgs k, d0, h, h0, rfl⟩
  exact ⟨reachable_inv hr, valid_inv hr, coherent_inv hr⟩

end Model

section Source
variable {α : Type} [Field α] [LinearOrder α] [IsStrictOrderedRing α] [CastInt α] [BEq α] [Cv.Transc α] [Inhabited α]
open Cv.Src.C18Mut Cv.SrcTie.C18Mut

/-- `impl Default for ChiSquared` as written in the Rust source is the record with `dof = 1` and sampler `Gamma(1/2, 1/2)`. -/
theorem ChiSquared_default_record : ChiSquared_default (α := α) = some ⟨1, chiSampler 1⟩ := by
  rw [ChiSquared_default_eq, ChiSquared.new_eq]; simp

theorem Beta_default_record : Beta_default (α := α) = some ⟨1, 1, gammaOf 1 1, gammaOf 1 1⟩ := by
  rw [Beta_default_eq, Beta.new_eq]; simp

theorem Gamma_default_record : Gamma_default (α := α) = some (gammaOf 1 1) := by
  rw [Gamma_default_eq, Gamma.new_eq]; simp

theorem Exponential_default_record : Exponential_default (α := α) = some ⟨1, stdUniform⟩ := by
  rw [Exponential_default_eq, Exponential.new_eq]; simp

theorem Gumbel_default_record : Gumbel_default (α := α) = some ⟨0, 1, stdUniform⟩ := by
  rw [Gumbel_default_eq, Gumbel.new_eq]; simp

theorem Normal_default_record : Normal_default (α := α) = some ⟨0, 1⟩ := by
  rw [Normal_default_eq, Normal.new_eq]; simp

theorem Uniform_default_record : Uniform_default (α := α) = some ⟨0, 1⟩ := by
  rw [Uniform_default_eq, Uniform.new_eq]; simp

theorem Pareto_default_record : Pareto_default (α := α) = some ⟨1, 1⟩ := by
  rw [Pareto_default_eq, Pareto.new_eq]; simp

theorem Poisson_default_record : Poisson_default (α := α) = some ⟨1⟩ := by
  rw [Poisson_default_eq, Poisson.new_eq]; simp

theorem T_default_record : T_default (α := α) = some ⟨1⟩ := by
  rw [T_default_eq, T.new_eq]; simp

theorem DiscreteUniform_default_record : DiscreteUniform_default = some ⟨0, 1⟩ := by
  rw [DiscreteUniform_default_eq, DiscreteUniform.new_eq]; simp

theorem Bernoulli_default_record : Bernoulli_default (α := α) = some ⟨(1 : α) / ((2 : Nat) : α)⟩ := by
  rw [Bernoulli_default_eq]; simp [Bernoulli.new, inv_two_le_one]

theorem Binomial_default_record : Binomial_default (α := α) = some ⟨1, (1 : α) / ((2 : Nat) : α)⟩ := by
  rw [Binomial_default_eq]; simp [Binomial.new, inv_two_le_one]

end Source

end Cv.C18
