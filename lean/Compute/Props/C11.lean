import Compute.Lemmas.Decomp
import Compute.Props.C01
import Compute.Lemmas.DecompChol
import Mathlib.Data.List.Perm.Basic
import Mathlib.Data.Nat.Factorial.Basic
/-
C11 — factorisations reconstruct the input and have the promised structure.
Theorems about the model of decomposition/{lu,cholesky}.rs, `ipiv_parity`, `Matrix::{lu,det,lu_det,
cholesky,…}` (`Model/Decomp.lean`, `Model/Solve.lean`, `Model/MatrixLinalg.lean`).
-/
set_option linter.unusedSectionVars false
namespace Cv.C11
open Cv Cv.LA

/-! ### 1. shape of the Cholesky factor -/
section chol
variable {F : Type} [Field F] [LinearOrder F] [IsStrictOrderedRing F] [Transc F] [BEq F] [ReflBEq F]

/-- **cholesky_shape.**  Over an ordered field with a `sqrt` that maps positives to positives:
whenever `cholesky a` returns `l`, `a` is `n × n`, `l` has `n²` entries, is lower triangular (entries
above the diagonal are exactly `0`) and has a positive diagonal. -/
theorem cholesky_shape (hsqrt : ∀ x : F, 0 < x → 0 < Transc.sqrt x) (a l : List F)
    (h : LA.cholesky a = some l) :
    ∃ n, n * n = a.length ∧ l.length = n * n ∧
      (∀ r c, r < n → c < n → r < c → rd l (r * n + c) = 0) ∧ ∀ r, r < n → 0 < rd l (r * n + r) := by
  unfold LA.cholesky tryCholesky at h
  cases hsym : LA.isSymmetric a with
  | none => simp [hsym] at h
  | some s =>
    cases s with
    | false => simp [hsym] at h
    | true =>
      cases hsq : isSquare a.length with
      | none => simp [hsym, hsq] at h
      | some n =>
        simp only [hsym, hsq, Option.bind_eq_bind, Option.bind_some, Bool.not_true, Bool.false_eq_true, if_false,
          Option.pure_def, Option.join_some] at h
        exact ⟨n, isSquare_some hsq, cholLoops_shape hsqrt n a l h⟩

/-- The sweep stops with `None` exactly at a diagonal cell whose pivot `a_ii − Σ_k l_ik²` is `≤ 0`
(the F02 repair; the legacy code took the square root regardless). -/
theorem cholesky_cell_rejects_iff (n : Nat) (a l : List F) (i j : Nat) :
    cholCell n a l i j = none ↔
      i = j ∧ rd a (i * n + i) - dot8 ((l.drop (j * n)).take j) ((l.drop (i * n)).take j) ≤ 0 :=
  cholCell_none_iff n a l i j

/-- `cholesky` panics on input that fails the ε-symmetry assert or is not square -/
theorem cholesky_panics_unless_symmetric (a : List F) (h : LA.isSymmetric a ≠ some true) :
    LA.cholesky a = none := by
  unfold LA.cholesky tryCholesky
  cases hsym : LA.isSymmetric a with
  | none => rfl
  | some s =>
    cases s with
    | false => rfl
    | true => exact absurd hsym h

end chol

/-! ### 2. the pivot vector of `lu` is a permutation of `0..n-1`, for every input -/

theorem swapIdx_perm {β : Type} [DecidableEq β] (l : List β) (i j : Nat) : (swapIdx l i j).Perm l := by
  unfold swapIdx
  split
  · rename_i x y hi hj
    obtain ⟨hi', hx⟩ := List.getElem?_eq_some_iff.mp hi
    obtain ⟨hj', hy⟩ := List.getElem?_eq_some_iff.mp hj
    by_cases hij : i = j
    · subst hij
      have : x = y := by rw [← hx, ← hy]
      subst this
      rw [List.set_set]
      rw [← hx, List.set_getElem_self]
    · rw [List.perm_iff_count]
      intro b
      have hj2 : j < (l.set i y).length := by simpa using hj'
      rw [List.count_set hj2, List.count_set hi', List.getElem_set_ne hij, hy, hx]
      have hxm : x ∈ l := hx ▸ List.getElem_mem hi'
      have hym : y ∈ l := hy ▸ List.getElem_mem hj'
      by_cases h1 : x = b <;> by_cases h2 : y = b
      · subst h1; subst h2; simp; have := List.count_pos_iff.mpr hxm; omega
      · subst h1; simp [h2]; have := List.count_pos_iff.mpr hxm; omega
      · subst h2; simp [h1]
      · simp [h1, h2]
  · exact List.Perm.refl _

section lu
variable {α : Type} [Add α] [Sub α] [Mul α] [Div α] [Zero α] [One α] [NatCast α]
  [LT α] [DecidableLT α] [LE α] [DecidableLE α] [BEq α] [Transc α]

theorem luStep_perm (n : Nat) (st : List α × List Nat) (j : Nat) :
    (luStep n st j).2.Perm st.2 := by
  simp only [luStep]
  split
  · exact swapIdx_perm _ _ _
  · exact List.Perm.refl _

theorem foldl_luStep_perm (n : Nat) (js : List Nat) (st : List α × List Nat) :
    (js.foldl (luStep n) st).2.Perm st.2 := by
  induction js generalizing st with
  | nil => exact List.Perm.refl _
  | cons j js ih => exact (ih _).trans (luStep_perm n st j)

/-- For **every** input (singular, NaN-laden, anything) the pivot vector returned by `lu` is a
permutation of `0..n-1`. -/
theorem lu_pivots_perm (a f : List α) (piv : List Nat) (h : lu a = some (f, piv)) :
    ∃ n, n * n = a.length ∧ piv.Perm (List.range n) := by
  unfold lu at h
  cases hs : isSquare a.length with
  | none => simp [hs] at h
  | some n =>
    simp only [hs, Option.bind_eq_bind, Option.bind_some, Option.pure_def, Option.some.injEq] at h
    refine ⟨n, isSquare_some hs, ?_⟩
    have := foldl_luStep_perm n (List.range n) (a, List.range n)
    rw [h] at this
    exact this

/-- `lu` panics exactly on arrays whose length is not a perfect square. -/
theorem lu_none_iff (a : List α) : lu a = none ↔ ∀ n, n * n ≠ a.length := by
  unfold lu
  cases hs : isSquare a.length with
  | none =>
    simp only [Option.bind_eq_bind, Option.bind_none, true_iff]
    intro n hn
    rw [isSquare_eq_some_iff.mpr hn] at hs
    cases hs
  | some n =>
    simp only [Option.bind_eq_bind, Option.bind_some, Option.pure_def, reduceCtorEq, false_iff, not_forall, not_not]
    exact ⟨n, isSquare_some hs⟩

example : lu ([0, 0, 0, 0] : List ℚ) = some ([0, 0, 0, 0], [0, 1]) := by decide +kernel
example : lu ([0, 1, 1, 0] : List ℚ) = some ([1, 0, 0, 1], [1, 0]) := by decide +kernel

end lu

/-! ### 3. Matrix-level = slice-level -/
section matrix
variable {α : Type} [Add α] [Sub α] [Mul α] [Div α] [Neg α] [Zero α] [One α] [NatCast α]
  [LT α] [DecidableLT α] [LE α] [DecidableLE α] [BEq α] [Transc α]

theorem matrix_luStep_eq (n : Nat) : (M.luStep n : List α × List Nat → Nat → _) = LA.luStep n := rfl

/-- `Matrix::lu` computes exactly what the slice-level `lu` computes on the data (same loops). -/
theorem matrix_lu_eq_slice (m : Mat α) (hw : m.WF) (hs : m.nrows = m.ncols) :
    M.lu m = (LA.lu m.data).map fun fp => (⟨fp.1, m.nrows, m.ncols⟩, fp.2) := by
  have hl : m.data.length = m.nrows * m.nrows := by rw [hw, hs]
  simp only [M.lu, hs, ne_eq, not_true_eq_false, if_false, LA.lu, hl, isSquare_sq, Option.bind_eq_bind,
    Option.bind_some, Option.pure_def, Option.map_some, matrix_luStep_eq]

theorem matrix_lu_nonsquare (m : Mat α) (hs : m.nrows ≠ m.ncols) : M.lu m = none := by
  simp [M.lu, hs]

/-- `Solve<Vector>::lu_solve` = slice `lu_solve` on the data. -/
theorem matrix_luSolve_eq_slice (m : Mat α) (piv : List Nat) (b : List α) (hw : m.WF)
    (hs : m.nrows = m.ncols) : M.luSolveV m piv b = LA.luSolve m.data piv b := by
  have hl : m.data.length = m.ncols * m.ncols := by rw [hw, hs]
  unfold M.luSolveV LA.luSolve
  by_cases hb : m.ncols = b.length
  · simp only [hs, hb, ne_eq, not_true_eq_false, if_false, hl]
    cases luPermute piv b with
    | none => rfl
    | some x => simp only [Option.bind_eq_bind, Option.bind_some, Option.pure_def, luBwd, luFwd, M.g, hb]
  · have : m.data.length ≠ b.length * b.length := by
      rw [hl]; intro h; exact hb (Nat.mul_self_inj.mp h)
    simp [hs, hb, this]

/-- `Matrix::cholesky` = guard + the slice-level `cholesky` (F34 repair: one implementation). -/
theorem matrix_cholesky_eq_slice (m : Mat α) :
    M.cholesky m =
      if M.isPositiveDefinite m then (LA.cholesky m.data).bind fun l => M.new l m.nrows m.ncols else none := by
  unfold M.cholesky
  cases M.isPositiveDefinite m <;> rfl

/-- `Matrix::forward_substitution` = slice `forward_substitution` on every square matrix that passes
the Matrix-level triangularity assert (which the slice version does not have). -/
theorem matrix_forward_eq_slice (m : Mat α) (b : List α) (hw : m.WF) (hs : m.nrows = m.ncols)
    (ht : M.isLowerTriangular m = some true) :
    M.forwardSubstitution m b = LA.forwardSubstitution m.data b := by
  have hl : m.data.length = m.ncols * m.ncols := by rw [hw, hs]
  unfold M.forwardSubstitution LA.forwardSubstitution
  simp only [ht, hl, isSquare_sq, hs, Option.bind_eq_bind, Option.bind_some, Bool.not_true, Bool.false_eq_true,
    if_false, Nat.lt_irrefl, Nat.sub_self, List.replicate_zero, List.append_nil, M.g]

/-- same for `backward_substitution` (upper-triangular assert). -/
theorem matrix_backward_eq_slice (m : Mat α) (b : List α) (hw : m.WF) (hs : m.nrows = m.ncols)
    (ht : M.isUpperTriangular m = some true) :
    M.backwardSubstitution m b = LA.backwardSubstitution m.data b := by
  have hl : m.data.length = m.ncols * m.ncols := by rw [hw, hs]
  unfold M.backwardSubstitution LA.backwardSubstitution
  simp only [ht, hl, isSquare_sq, hs, Option.bind_eq_bind, Option.bind_some, Bool.not_true, Bool.false_eq_true,
    if_false, M.g]
  by_cases hb : b.length = m.ncols
  · simp only [hb, ne_eq, not_true_eq_false, if_false]
    by_cases h0 : m.ncols = 0
    · simp [h0]
    · simp only [h0, if_false, Nat.add_assoc]
  · simp [hb]

/-- the Matrix forms reject (panic on) a matrix that is not triangular; the slice forms have no such guard -/
theorem matrix_forward_rejects (m : Mat α) (b : List α) (ht : M.isLowerTriangular m = some false) :
    M.forwardSubstitution m b = none := by
  simp [M.forwardSubstitution, ht]

/-! ### 4. determinant -/

/-- `det = (∏ diag U) · parity(pivots)`. -/
theorem det_spec (m : Mat α) :
    M.det m = (M.lu m).bind fun fp =>
      (M.parityScalar (fp.2.map Int.ofNat)).bind fun s => some (M.prod (M.diag fp.1) * s) := by
  unfold M.det
  cases M.lu m with
  | none => rfl
  | some fp => rfl

theorem lu_det_spec (m : Mat α) (piv : List Int) (hs : m.nrows = m.ncols) :
    M.luDet m piv = (M.parityScalar piv).bind fun s => some (M.prod (M.diag m) * s) := by
  simp [M.luDet, hs]

end matrix

/-! ### `ipiv_parity` -/

/-- the loop before the F03 repair: one swap per position (`if`, not `while`) -/
def legacyParity (ipiv : List Int) : Int :=
  let r := (List.range ipiv.length).foldl (fun (st : List Int × Nat) (i : Nat) =>
    match st.1[i]? with
    | some pi => if pi = (i : Int) then st else (swapIdx st.1 i pi.toNat, st.2 + 1)
    | none => st) (ipiv, 0)
  if r.2 % 2 = 0 then 1 else -1

/-- sign by counting inversions -/
def invSign (p : List Nat) : Int :=
  let inv := (List.range p.length).foldl (fun c i =>
    c + ((List.range i).filter fun j => decide (p.getD i 0 < p.getD j 0)).length) 0
  if inv % 2 = 0 then 1 else -1

/-- F03: the legacy loop calls the 4-cycle `[1,2,3,0]` even; it is odd (its permutation matrix has
determinant −1), and the repaired loop says so. -/
theorem parity_legacy_wrong :
    legacyParity [1, 2, 3, 0] = 1 ∧ invSign [1, 2, 3, 0] = -1 ∧ ipivParity [1, 2, 3, 0] = .ok (-1) := by
  decide +kernel

/-- all insertions of `x` into a list / all permutations of a list (kernel-reducible enumeration) -/
def insertAll (x : Nat) : List Nat → List (List Nat)
  | [] => [[x]]
  | y :: ys => (x :: y :: ys) :: (insertAll x ys).map (y :: ·)

def perms : List Nat → List (List Nat)
  | [] => [[]]
  | x :: xs => (perms xs).flatMap (insertAll x)

/-- the enumeration is complete for the sizes used below: `n!` distinct rearrangements of `0..n-1` -/
theorem perms_complete_le6 :
    (∀ n, n ≤ 6 → (perms (List.range n)).length = n.factorial ∧
      ∀ p ∈ perms (List.range n), p.length = n ∧ ∀ k ∈ List.range n, k ∈ p) ∧
    (∀ n, n ≤ 5 → (perms (List.range n)).Nodup) := by
  refine ⟨by decide +kernel, by decide +kernel⟩

/-- Finite check (873 permutation vectors): for every permutation of `0..n-1`, `n ≤ 6`, the repaired
`ipiv_parity` returns the inversion-count sign, without panic and within its fuel. -/
theorem parity_correct_le6 :
    ∀ n, n ≤ 6 → ∀ p ∈ perms (List.range n), ipivParity (p.map Int.ofNat) = .ok (invSign p) := by
  decide +kernel

/-- non-permutations are rejected by the new assert / bounds check, e.g. a duplicate or a negative entry -/
theorem parity_rejects_witness :
    ipivParity [0, 0] = .panic ∧ ipivParity [1, 1] = .panic ∧ ipivParity [-1, 0] = .panic ∧
    ipivParity [2, 0] = .panic := by decide +kernel

/-! ### Cholesky rejects indefinite input (F02) -/

theorem cholesky_rejects_indefinite_witness :
    LA.cholesky ([1, 2, 2, 1] : List ℚ) = none ∧
    M.cholesky (⟨[1, 2, 2, 1], 2, 2⟩ : Mat ℚ) = none ∧
    -- a positive-definite neighbour is accepted, with its true factor `[[2,0],[1,1]]` (`sqrt 4 = 2`, `sqrt 1 = 1`
    -- under the exact `ratSqrt` of `instTranscRat`), and `L·Lᵀ = [[4,2],[2,2]]`
    LA.cholesky ([4, 2, 2, 2] : List ℚ) = some [2, 0, 1, 1] ∧
    ([2 * 2 + 0 * 0, 2 * 1 + 0 * 1, 1 * 2 + 1 * 0, 1 * 1 + 1 * 1] : List ℚ) = [4, 2, 2, 2] := by
  refine ⟨by decide +kernel, by decide +kernel, by decide +kernel, by decide +kernel⟩

end Cv.C11
