import Compute.Lemmas.StatRounding
/-
Worst-case rounding-error analysis of the second moment `M2` of Welford's algorithm
(`welfordStatistics`, `var`, `sampleVar` of `Model/Stats.lean`) in the standard model.

Exact arithmetic: `M2_k = M2_{k-1} + t_k`, `t_k = (x_k − μ_{k-1})(x_k − μ_k) = (x_k − μ_{k-1})²·(k−1)/k ≥ 0`.
Rounded arithmetic: `M̂2_n = Σ t̂_k·F_k`, `t̂_k = (x_k − m̂_{k-1})(x_k − m̂_k)` with the *computed* running
means `m̂`, and `F_k` a product of at most `n + 3` rounding factors.  Hence

  `|M̂2 − M2| ≤ γ_{n+3}·M2 + (1+γ_{n+3})·Σ|t̂_k − t_k|`,  `|t̂_k − t_k| ≤ 2·R·E + E²`

where `R` bounds the spread `|x_i − x_j|` and `E` the errors of the running means.  The first term is
the shift-invariant relative error `≈ n·u`; the second is first order in `u` *and proportional to the
size of the data* (`E ≈ (n/2+6.5)·u·max|x_i|`, `welfordMean_error`): this is the known behaviour of
the updating algorithm — its worst-case bound is `n·κ·u` with `κ ≈ |x̄|/σ` the condition number
(Chan–Golub–LeVeque 1983, Table 1), between the two-pass algorithm (`n·u + n²κ²u²`,
`covariance_self_error`) and the textbook one-pass formula (`n·κ²·u`).
-/
namespace Cv.Rounding2
open Cv Cv.FlModel Cv.Rounding Cv.C08

variable {M : FlModel}

/-! ### exact recurrences -/

theorem mu_snoc (l : List ℝ) (x : ℝ) :
    mu (l ++ [x]) = mu l + (x - mu l) / ((l.length : ℝ) + 1) := runMean_snoc l x

theorem m2_snoc (l : List ℝ) (x : ℝ) :
    m2 (l ++ [x]) = m2 l + (x - mu l) * (x - mu (l ++ [x])) := by
  have h := welford_inv (l ++ [x])
  rw [C08.welfordStatistics_snoc, welford_inv l] at h
  have h1 := congrArg (fun t => t.2.1) h
  have h2 := congrArg (fun t => t.2.2) h
  simp only [welfordUpdate] at h1 h2
  rw [← h2, ← h1]

theorem sub_mu_snoc (l : List ℝ) (x : ℝ) :
    x - mu (l ++ [x]) = (x - mu l) * (l.length / ((l.length : ℝ) + 1)) := by
  rw [mu_snoc]
  have : (l.length : ℝ) + 1 ≠ 0 := by positivity
  field_simp
  ring

theorem welford_term_nonneg (l : List ℝ) (x : ℝ) : 0 ≤ (x - mu l) * (x - mu (l ++ [x])) := by
  rw [sub_mu_snoc]
  have : (0 : ℝ) ≤ l.length / ((l.length : ℝ) + 1) := by positivity
  nlinarith [sq_nonneg (x - mu l)]

theorem abs_sub_mu_snoc_le (l : List ℝ) (x : ℝ) : |x - mu (l ++ [x])| ≤ |x - mu l| := by
  rw [sub_mu_snoc, abs_mul]
  have h0 : (0 : ℝ) ≤ l.length / ((l.length : ℝ) + 1) := by positivity
  have h1 : (l.length : ℝ) / ((l.length : ℝ) + 1) ≤ 1 := by
    rw [div_le_one (by positivity)]; linarith
  rw [abs_of_nonneg h0]
  nlinarith [abs_nonneg (x - mu l)]

/-- a point is at most `R` from the mean of points that are all within `R` of it -/
theorem abs_sub_mu_le (l : List ℝ) (x R : ℝ) (hl : l ≠ []) (h : ∀ q ∈ l, |x - q| ≤ R) :
    |x - mu l| ≤ R := by
  have hlen : 0 < l.length := List.length_pos_iff.mpr hl
  have hp : (0 : ℝ) < l.length := Nat.cast_pos.mpr hlen
  have hs : (l.map fun q => x - q).sum = l.length * x - l.sum := by
    induction l with
    | nil => simp
    | cons a t ih =>
      by_cases ht : t = []
      · subst ht; simp
      · simp only [List.map_cons, List.sum_cons, List.length_cons]
        rw [ih ht (fun q hq => h q (by simp [hq])) (List.length_pos_iff.mpr ht)
          (Nat.cast_pos.mpr (List.length_pos_iff.mpr ht))]
        push_cast; ring
  have hb := abs_sum_le (l.map fun q => x - q) R (by
    intro y hy
    obtain ⟨q, hq, rfl⟩ := List.mem_map.mp hy
    exact h q hq)
  rw [hs, List.length_map] at hb
  have e : x - mu l = (l.length * x - l.sum) / l.length := by
    unfold mu; field_simp
  rw [e, abs_div, abs_of_pos hp, div_le_iff₀ hp]
  linarith

/-! ### list lemmas -/

theorem sum_abs_le_of_close (ts es : List ℝ) (hl : ts.length = es.length) :
    (ts.map (|·|)).sum ≤ (es.map (|·|)).sum + (List.zipWith (fun a b => |a - b|) ts es).sum ∧
    |ts.sum - es.sum| ≤ (List.zipWith (fun a b => |a - b|) ts es).sum := by
  induction ts generalizing es with
  | nil => cases es with
    | nil => simp
    | cons e es => simp at hl
  | cons t ts ih =>
    cases es with
    | nil => simp at hl
    | cons e es =>
      obtain ⟨h1, h2⟩ := ih es (by simpa using hl)
      simp only [List.map_cons, List.sum_cons, List.zipWith_cons_cons]
      constructor
      · have : |t| ≤ |e| + |t - e| := by
          have : t = e + (t - e) := by ring
          conv_lhs => rw [this]
          exact abs_add_le _ _
        linarith
      · have : t + ts.sum - (e + es.sum) = (t - e) + (ts.sum - es.sum) := by ring
        rw [this]
        exact le_trans (abs_add_le _ _) (add_le_add (le_refl _) h2)

theorem sum_map_abs_of_nonneg (es : List ℝ) (h : ∀ e ∈ es, 0 ≤ e) : (es.map (|·|)).sum = es.sum := by
  induction es with
  | nil => simp
  | cons e es ih =>
    simp only [List.map_cons, List.sum_cons]
    rw [ih (fun a ha => h a (by simp [ha])), abs_of_nonneg (h e (by simp))]

/-- a perturbed sum of terms `ts` that are close to non-negative terms `es` -/
theorem pert_close {k : Nat} {v : ℝ} {ts es : List ℝ} (hp : M.Pert k v ts) (hk : k * M.u < 1)
    (hl : ts.length = es.length) (hes : ∀ e ∈ es, 0 ≤ e) (D : ℝ)
    (hD : (List.zipWith (fun a b => |a - b|) ts es).sum ≤ D) :
    |v - es.sum| ≤ M.γ k * es.sum + (1 + M.γ k) * D := by
  have herr := hp.error hk
  obtain ⟨h1, h2⟩ := sum_abs_le_of_close ts es hl
  rw [sum_map_abs_of_nonneg es hes] at h1
  have hγ := M.γ_nonneg k hk
  have e : v - es.sum = (v - ts.sum) + (ts.sum - es.sum) := by ring
  rw [e]
  refine le_trans (abs_add_le _ _) ?_
  have h3 : M.γ k * (ts.map (|·|)).sum ≤ M.γ k * (es.sum + D) :=
    mul_le_mul_of_nonneg_left (by linarith) hγ
  nlinarith

/-! ### one step -/

/-- the `M2` component of one Welford step in rounded arithmetic: two subtractions and a product
(`g`), then the accumulation (`δ`) -/
theorem welfordUpdate_m2 (agg : Nat × Fl M × Fl M) (x : Fl M) :
    ∃ g δ : ℝ, M.Fac 3 g ∧ |δ| ≤ M.u ∧
      (welfordUpdate agg x).2.2.val =
        (agg.2.2.val + (x.val - agg.2.1.val) * (x.val - (welfordUpdate agg x).2.1.val) * g) * (1 + δ) := by
  obtain ⟨δ1, hδ1, h1⟩ := M.std (x.val - agg.2.1.val)
  obtain ⟨δ2, hδ2, h2⟩ := M.std (x.val - (welfordUpdate agg x).2.1.val)
  obtain ⟨δ3, hδ3, h3⟩ := M.std (M.rnd (x.val - agg.2.1.val) * M.rnd (x.val - (welfordUpdate agg x).2.1.val))
  obtain ⟨δ4, hδ4, h4⟩ := M.std (agg.2.2.val +
    M.rnd (M.rnd (x.val - agg.2.1.val) * M.rnd (x.val - (welfordUpdate agg x).2.1.val)))
  refine ⟨(1 + δ1) * (1 + δ2) * (1 + δ3), δ4,
    ((Fac.one_add hδ1).mul (Fac.one_add hδ2)).mul (Fac.one_add hδ3), hδ4, ?_⟩
  show M.rnd (agg.2.2.val +
    M.rnd (M.rnd (x.val - agg.2.1.val) * M.rnd (x.val - (welfordUpdate agg x).2.1.val))) = _
  rw [h4, h3, h1, h2]
  ring

/-- the first data point is absorbed exactly when it is representable and `1 as f64` is exact -/
theorem welford_first (x : Fl M) (h1 : M.rnd 1 = 1) (hx : x.Rep) :
    (welfordStatistics [x]).2.1.val = x.val ∧ (welfordStatistics [x]).2.2.val = 0 := by
  have hx' : M.rnd x.val = x.val := hx
  have hm : (welfordStatistics [x]).2.1.val = x.val := by
    show M.rnd ((0 : ℝ) + M.rnd (M.rnd (x.val - 0) / M.rnd (((0 + 1 : Nat) : ℝ)))) = x.val
    simp [h1, hx']
  refine ⟨hm, ?_⟩
  show M.rnd ((0 : ℝ) + M.rnd (M.rnd (x.val - 0) * M.rnd (x.val - (welfordStatistics [x]).2.1.val))) = 0
  rw [hm]
  simp [M.rnd_zero]

/-! ### the invariant -/

/-- **structure of the computed `M2`**: a perturbed sum (`n + 3` rounding factors per term) of terms
`t̂_k` each within `2·R·E + E²` of the exact non-negative Welford increments, whose sum is `M2`. -/
theorem welfordM2_invariant (R E : ℝ) (h1 : M.rnd 1 = 1) (data : List (Fl M)) :
    (∀ a ∈ data, a.Rep) →
    (∀ a ∈ data, ∀ b ∈ data, |a.val - b.val| ≤ R) →
    (∀ p : List (Fl M), p <+: data → p ≠ [] →
      |(welfordStatistics p).2.1.val - mu (vals p)| ≤ E) →
    ∃ ts es : List ℝ, ts.length = es.length ∧
      M.Pert (data.length + 3) (welfordStatistics data).2.2.val ts ∧
      es.sum = m2 (vals data) ∧ (∀ e ∈ es, 0 ≤ e) ∧
      (List.zipWith (fun a b => |a - b|) ts es).sum ≤ data.length * (2 * R * E + E ^ 2) := by
  induction data using List.reverseRecOn with
  | nil =>
    intro _ _ _
    refine ⟨[], [], rfl, ?_, by simp [m2, vals], by simp, by simp⟩
    show M.Pert (0 + 3) (0 : ℝ) []
    exact Pert.nil _
  | append_singleton p x ih =>
    intro hrep hR hE
    obtain ⟨ts, es, hl, hp, hsum, hnn, hclose⟩ := ih (fun a ha => hrep a (by simp [ha]))
      (fun a ha b hb => hR a (by simp [ha]) b (by simp [hb]))
      (fun q hq hne => hE q (hq.trans (List.prefix_append p [x])) hne)
    have hvals : vals (p ++ [x]) = vals p ++ [x.val] := by simp [vals]
    have hlen : (vals p).length = p.length := by simp [vals]
    set m := (welfordStatistics p).2.1.val with hm
    set m' := (welfordStatistics (p ++ [x])).2.1.val with hm'
    set μ := mu (vals p) with hμ
    set μ' := mu (vals p ++ [x.val]) with hμ'
    have hE' : |m' - μ'| ≤ E := by
      have := hE (p ++ [x]) (List.prefix_refl _) (by simp)
      rwa [hvals] at this
    have hE0 : 0 ≤ E := le_trans (abs_nonneg _) hE'
    have hR0 : 0 ≤ R := by
      have := hR x (by simp) x (by simp)
      simpa using this
    obtain ⟨g, δ, hg, hδ, hstep⟩ := welfordUpdate_m2 (welfordStatistics p) x
    rw [← Rounding.welfordStatistics_snoc] at hstep
    refine ⟨ts ++ [(x.val - m) * (x.val - m')], es ++ [(x.val - μ) * (x.val - μ')], by simp [hl],
      ?_, ?_, ?_, ?_⟩
    · rw [hstep]
      have hs : M.Pert (p.length + 3) ((x.val - m) * (x.val - m') * g) [(x.val - m) * (x.val - m')] :=
        ((Pert.single 0 _).scale hg).mono (by omega)
      have := (hp.append hs).scale (Fac.one_add hδ)
      simp only [List.length_append, List.length_cons, List.length_nil]
      rw [show p.length + (0 + 1) + 3 = p.length + 3 + 1 by omega]
      exact this
    · rw [List.sum_append, hsum, hvals, m2_snoc, List.sum_singleton]
    · intro e he
      rcases List.mem_append.mp he with he | he
      · exact hnn e he
      · simp only [List.mem_singleton] at he
        subst he
        exact welford_term_nonneg (vals p) x.val
    · rw [List.zipWith_append hl, List.sum_append]
      simp only [List.zipWith_cons_cons, List.zipWith_nil_right, List.sum_cons, List.sum_nil, add_zero,
        List.length_append, List.length_cons, List.length_nil]
      push_cast
      have hB0 : 0 ≤ 2 * R * E + E ^ 2 := by positivity
      suffices hstepB : |(x.val - m) * (x.val - m') - (x.val - μ) * (x.val - μ')| ≤ 2 * R * E + E ^ 2 by
        linarith
      by_cases hpn : p = []
      · subst hpn
        obtain ⟨hf, _⟩ := welford_first x h1 (hrep x (by simp))
        have hm0 : m = 0 := rfl
        have hμ0 : μ = 0 := by simp [hμ, vals, mu]
        have hm1 : m' = x.val := hf
        have hμ1 : μ' = x.val := by simp [hμ', vals, mu]
        rw [hm0, hμ0, hm1, hμ1]
        simpa using hB0
      · have he : |m - μ| ≤ E := hE p (List.prefix_append p [x]) hpn
        have ha : |x.val - μ| ≤ R := by
          apply abs_sub_mu_le (vals p) x.val R (by simpa [vals] using hpn)
          intro q hq
          obtain ⟨b, hb, rfl⟩ := List.mem_map.mp hq
          exact hR x (by simp) b (by simp [hb])
        have hb : |x.val - μ'| ≤ R := le_trans (abs_sub_mu_snoc_le (vals p) x.val) ha
        have key : (x.val - m) * (x.val - m') - (x.val - μ) * (x.val - μ') =
            -((x.val - μ) * (m' - μ')) - (m - μ) * (x.val - μ') + (m - μ) * (m' - μ') := by ring
        rw [key]
        have a1 : |(x.val - μ) * (m' - μ')| ≤ R * E := by
          rw [abs_mul]; exact mul_le_mul ha hE' (abs_nonneg _) hR0
        have a2 : |(m - μ) * (x.val - μ')| ≤ E * R := by
          rw [abs_mul]; exact mul_le_mul he hb (abs_nonneg _) hE0
        have a3 : |(m - μ) * (m' - μ')| ≤ E * E := by
          rw [abs_mul]; exact mul_le_mul he hE' (abs_nonneg _) hE0
        have b1 := abs_add_le (-((x.val - μ) * (m' - μ')) - (m - μ) * (x.val - μ')) ((m - μ) * (m' - μ'))
        have b2 := abs_sub (-((x.val - μ) * (m' - μ'))) ((m - μ) * (x.val - μ'))
        rw [abs_neg] at b2
        nlinarith

/-! ### the bounds -/

/-- uniform bound for the errors of all running means of `n` data points bounded by `X`
(`welfordMean_error`): `≈ (n/2 + 6.5)·u·X` -/
noncomputable def wE (M : FlModel) (n : Nat) (X : ℝ) : ℝ :=
  (1 + M.γ (4 * n)) * (2 * (1 + M.u) * M.γ 3 + ((n : ℝ) + 1) * M.u / 2) * X

theorem welford_prefix_mean_error (data : List (Fl M)) (X : ℝ) (hX : ∀ a ∈ data, |a.val| ≤ X)
    (h : ((4 * data.length : Nat) : ℝ) * M.u < 1) :
    ∀ p : List (Fl M), p <+: data → p ≠ [] →
      |(welfordStatistics p).2.1.val - mu (vals p)| ≤ wE M data.length X := by
  intro p hp hne
  have hk : 1 ≤ p.length := List.length_pos_iff.mpr hne
  have hkn : p.length ≤ data.length := hp.length_le
  have hu := M.u_nonneg
  have hX' : ∀ a ∈ p, |a.val| ≤ X := fun a ha => hX a (hp.subset ha)
  have hX0 : 0 ≤ X := by
    cases p with
    | nil => simp at hne
    | cons a l => exact le_trans (abs_nonneg _) (hX' a (by simp))
  have h4k : ((4 * p.length : Nat) : ℝ) * M.u < 1 := by
    refine lt_of_le_of_lt (mul_le_mul_of_nonneg_right ?_ hu) h
    exact_mod_cast Nat.mul_le_mul_left 4 hkn
  have h3 : ((3 : Nat) : ℝ) * M.u < 1 := by
    refine lt_of_le_of_lt (mul_le_mul_of_nonneg_right ?_ hu) h4k
    exact_mod_cast (by omega : 3 ≤ 4 * p.length)
  have := welfordMean_error p X hX' hk h4k
  rw [mu_vals]
  refine le_trans this ?_
  unfold wE
  have hγ3 := M.γ_nonneg 3 h3
  have hγk := M.γ_nonneg (4 * p.length) h4k
  have hmono : M.γ (4 * p.length) ≤ M.γ (4 * data.length) :=
    M.γ_mono (Nat.mul_le_mul_left 4 hkn) h
  have hkn' : (p.length : ℝ) ≤ data.length := by exact_mod_cast hkn
  have hB : 2 * (1 + M.u) * M.γ 3 + ((p.length : ℝ) + 1) * M.u / 2 ≤
      2 * (1 + M.u) * M.γ 3 + ((data.length : ℝ) + 1) * M.u / 2 := by nlinarith
  have hB0 : 0 ≤ 2 * (1 + M.u) * M.γ 3 + ((p.length : ℝ) + 1) * M.u / 2 := by positivity
  apply mul_le_mul_of_nonneg_right _ hX0
  exact mul_le_mul (by linarith) hB hB0 (by linarith)

theorem m2_nonneg (l : List ℝ) : 0 ≤ m2 l := by
  unfold m2
  apply List.sum_nonneg
  intro a ha
  obtain ⟨p, _, rfl⟩ := List.mem_map.mp ha
  positivity

/-- **Forward error of Welford's `M2`** (`welford_statistics`).  Data bounded by `X`, spread bounded by
`R`, representable data and `1 as f64` exact (so that the first point is absorbed exactly),
`E = wE M n X ≈ (n/2+6.5)·u·X` the bound for the running means:

  `|M̂2 − M2| ≤ γ_{n+3}·M2 + (1+γ_{n+3})·n·(2·R·E + E²)`.

The term `γ_{n+3}·M2` is the shift-invariant part; `n·2RE ≈ n²·u·R·X` is the (first-order)
condition-number term of the updating algorithm, see the file header. -/
theorem welfordM2_error (data : List (Fl M)) (X R : ℝ) (hX : ∀ a ∈ data, |a.val| ≤ X)
    (hR : ∀ a ∈ data, ∀ b ∈ data, |a.val - b.val| ≤ R) (h1 : M.rnd 1 = 1)
    (hrep : ∀ a ∈ data, a.Rep) (hn : 1 ≤ data.length)
    (h : ((4 * data.length : Nat) : ℝ) * M.u < 1) :
    |(welfordStatistics data).2.2.val - m2 (vals data)| ≤
      M.γ (data.length + 3) * m2 (vals data)
        + (1 + M.γ (data.length + 3)) *
            (data.length * (2 * R * wE M data.length X + wE M data.length X ^ 2)) := by
  obtain ⟨ts, es, hl, hp, hsum, hnn, hclose⟩ := welfordM2_invariant R (wE M data.length X) h1 data
    hrep hR (welford_prefix_mean_error data X hX h)
  have hk : ((data.length + 3 : Nat) : ℝ) * M.u < 1 := by
    refine lt_of_le_of_lt (mul_le_mul_of_nonneg_right ?_ M.u_nonneg) h
    exact_mod_cast (by omega : data.length + 3 ≤ 4 * data.length)
  have := pert_close hp hk hl hnn _ hclose
  rwa [hsum] at this

/-- a computed `M2` divided by a rounded integer (`n`: `var`, `n − 1`: `sample_var`) -/
theorem m2_div_error (v : Fl M) (d : Nat) (m D : ℝ) (hm : 0 ≤ m) (hv : |v.val - m| ≤ D)
    (h2 : ((2 : Nat) : ℝ) * M.u < 1) :
    |(v / (d : Fl M)).val - m / d| ≤ (M.γ 2 * m + (1 + M.γ 2) * D) / d := by
  obtain ⟨f, hf, he⟩ := div_natCast_fac v d
  have hγ := hf.abs_sub_one_le h2
  have hγ0 := M.γ_nonneg 2 h2
  have hd0 : (0 : ℝ) ≤ d := Nat.cast_nonneg d
  have hD0 : 0 ≤ D := le_trans (abs_nonneg _) hv
  rw [he]
  have e : v.val / d * f - m / d = ((v.val - m) * f + m * (f - 1)) / d := by ring
  rw [e, abs_div, abs_of_nonneg hd0]
  apply div_le_div_of_nonneg_right _ hd0
  have hf1 : |f| ≤ 1 + M.γ 2 := by
    have : f = 1 + (f - 1) := by ring
    rw [this]
    refine le_trans (abs_add_le _ _) ?_
    simpa using hγ
  have a1 : |(v.val - m) * f| ≤ D * (1 + M.γ 2) := by
    rw [abs_mul]; exact mul_le_mul hv hf1 (abs_nonneg _) hD0
  have a2 : |m * (f - 1)| ≤ m * M.γ 2 := by
    rw [abs_mul, abs_of_nonneg hm]; exact mul_le_mul_of_nonneg_left hγ hm
  refine le_trans (abs_add_le _ _) ?_
  linarith

theorem welford_count (data : List (Fl M)) : (welfordStatistics data).1 = data.length := by
  induction data using List.reverseRecOn with
  | nil => rfl
  | append_singleton p x ih =>
    rw [Rounding.welfordStatistics_snoc]
    simp [welfordUpdate, ih]

/-- **Forward error of `var`** (population variance via Welford), same hypotheses as
`welfordM2_error`, `D` its right-hand side: `|var − M2/n| ≤ (γ₂·M2 + (1+γ₂)·D)/n`. -/
theorem var_error (data : List (Fl M)) (X R : ℝ) (hX : ∀ a ∈ data, |a.val| ≤ X)
    (hR : ∀ a ∈ data, ∀ b ∈ data, |a.val - b.val| ≤ R) (h1 : M.rnd 1 = 1)
    (hrep : ∀ a ∈ data, a.Rep) (hn : 1 ≤ data.length)
    (h : ((4 * data.length : Nat) : ℝ) * M.u < 1) :
    |(var data).val - m2 (vals data) / data.length| ≤
      (M.γ 2 * m2 (vals data) + (1 + M.γ 2) *
        (M.γ (data.length + 3) * m2 (vals data)
          + (1 + M.γ (data.length + 3)) *
              (data.length * (2 * R * wE M data.length X + wE M data.length X ^ 2)))) / data.length := by
  have h2 : ((2 : Nat) : ℝ) * M.u < 1 := by
    refine lt_of_le_of_lt (mul_le_mul_of_nonneg_right ?_ M.u_nonneg) h
    exact_mod_cast (by omega : 2 ≤ 4 * data.length)
  have := m2_div_error (welfordStatistics data).2.2 data.length _ _ (m2_nonneg (vals data))
    (welfordM2_error data X R hX hR h1 hrep hn h) h2
  show |((welfordStatistics data).2.2 / (((welfordStatistics data).1 : Nat) : Fl M)).val - _| ≤ _
  rw [welford_count]
  exact this

/-- **Forward error of `sample_var`** (divisor `n − 1`). -/
theorem sampleVar_error (data : List (Fl M)) (X R : ℝ) (hX : ∀ a ∈ data, |a.val| ≤ X)
    (hR : ∀ a ∈ data, ∀ b ∈ data, |a.val - b.val| ≤ R) (h1 : M.rnd 1 = 1)
    (hrep : ∀ a ∈ data, a.Rep) (hn : 2 ≤ data.length)
    (h : ((4 * data.length : Nat) : ℝ) * M.u < 1) :
    ∃ v, sampleVar data = some v ∧
    |v.val - m2 (vals data) / ((data.length - 1 : Nat) : ℝ)| ≤
      (M.γ 2 * m2 (vals data) + (1 + M.γ 2) *
        (M.γ (data.length + 3) * m2 (vals data)
          + (1 + M.γ (data.length + 3)) *
              (data.length * (2 * R * wE M data.length X + wE M data.length X ^ 2))))
        / ((data.length - 1 : Nat) : ℝ) := by
  have h2 : ((2 : Nat) : ℝ) * M.u < 1 := by
    refine lt_of_le_of_lt (mul_le_mul_of_nonneg_right ?_ M.u_nonneg) h
    exact_mod_cast (by omega : 2 ≤ 4 * data.length)
  have := m2_div_error (welfordStatistics data).2.2 (data.length - 1) _ _ (m2_nonneg (vals data))
    (welfordM2_error data X R hX hR h1 hrep (by omega) h) h2
  refine ⟨(welfordStatistics data).2.2 / ((data.length - 1 : Nat) : Fl M), ?_, this⟩
  unfold sampleVar
  simp only [welford_count]
  rw [if_neg (by omega)]

end Cv.Rounding2
