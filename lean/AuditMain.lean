import Lean
/-
`lake env lean --run AuditMain.lean Compute.Props.C12 [more modules…]`
Prints, for every theorem declared in the given (already compiled) modules, one line
  `THEOREM <name> AXIOMS <ax1,ax2,…>`
and one line `SORRY <name>` for any declaration depending on `sorryAx`.  Used by /verif/check to
count proof obligations and to audit the axioms every property theorem depends on.
-/
open Lean

instance : MonadEnv (StateM Environment) := ⟨get, modify⟩

unsafe def auditMain (args : List String) : IO UInt32 := do
  initSearchPath (← findSysroot)
  enableInitializersExecution
  let mods := args.map fun s => s.toName
  let env ← importModules (mods.toArray.map fun m => { module := m }) {} (trustLevel := 1024) (loadExts := true) 
  let mut bad : UInt32 := 0
  for m in mods do
    match env.getModuleIdx? m with
    | none => IO.eprintln s!"module {m} not found"; bad := 1
    | some idx =>
      let names := env.header.moduleData[idx.toNat]!.constNames
      for n in names do
        match env.find? n with
        | some (.thmInfo _) =>
          if n.isInternal then continue
          let (axsA, _) := (collectAxioms (m := StateM Environment) n).run env
          let axs := axsA.toList.map toString
          IO.println s!"THEOREM {n} AXIOMS {",".intercalate axs}"
        | _ => pure ()
  return bad

unsafe def main (args : List String) : IO UInt32 := auditMain args
