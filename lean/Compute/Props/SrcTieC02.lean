import Compute.Model.DistPdf
import Compute.Generated.SrcC02
/-
Source tie for C02 (`src/distributions/*.rs`): `Compute/Generated/SrcC02.lean` is regenerated from the Rust source
by `tools/rs2lean.py` on every run (`tools/cv/srctie.py`): `xlogy` and the `pdf`/`pmf`, `ln_pdf`, `cdf`, `mean`, `var`
of the 13 univariate distributions.  Each theorem says that the regenerated function IS the hand-written model
function of `Compute/Model/DistPdf.lean` — as functions, for every scalar type carrying the classes and every
record `F : Fns α` of special functions (so in particular at `Float` with the C09 models: the same computation,
operation by operation).

Proofs: `rfl` (the model only names sub-terms: `two`, `half`, `xlogy`, `halfK`), or unfolding plus the Boolean
identity `ite_not` where the source tests a negated condition and the model swaps the branches.  No arithmetic
rewriting.  One exception, stated honestly below: `Binomial::pmf` (`k as u64 > self.n`, a wrapping cast in the
source, `(n : Int) < k` in the model) — equal on the whole `i64`/`u64` range of the arguments, by integer reasoning.
-/
set_option linter.unusedSectionVars false
namespace Cv.SrcTie.C02
open Cv.Dist

variable {α : Type} [Add α] [Sub α] [Mul α] [Div α] [Neg α] [Zero α] [One α] [NatCast α] [IntCast α]
  [LT α] [DecidableLT α] [LE α] [DecidableLE α] [BEq α] [Cv.Transc α]

theorem xlogy_eq : (Cv.Src.C02.xlogy : α → α → α) = Cv.Dist.xlogy := rfl

/-! ### Normal -/
theorem Normal_pdf_eq : (Cv.Src.C02.Normal_pdf : Fns α → α → α → α → α) = Normal.pdf := rfl
theorem Normal_lnPdf_eq : (Cv.Src.C02.Normal_lnPdf : Fns α → α → α → α → α) = Normal.lnPdf := rfl
theorem Normal_cdf_eq : (Cv.Src.C02.Normal_cdf : Fns α → α → α → α → α) = Normal.cdf := rfl
theorem Normal_mean_eq : (Cv.Src.C02.Normal_mean : α → α → α) = Normal.mean := rfl
theorem Normal_var_eq : (Cv.Src.C02.Normal_var : α → α → α) = Normal.var := rfl

/-! ### Gamma -/
theorem Gamma_pdf_eq : (Cv.Src.C02.Gamma_pdf : Fns α → α → α → α → α) = Gamma.pdf := rfl
theorem Gamma_mean_eq : (Cv.Src.C02.Gamma_mean : α → α → α) = Gamma.mean := rfl
theorem Gamma_var_eq : (Cv.Src.C02.Gamma_var : α → α → α) = Gamma.var := rfl

/-! ### Beta (the source returns `0.` when `!(0. ..=1.).contains(&x)`; the model tests the range and swaps) -/
theorem Beta_pdf_eq : (Cv.Src.C02.Beta_pdf : Fns α → α → α → α → α) = Beta.pdf := by
  funext F a b x
  simp only [Cv.Src.C02.Beta_pdf, Beta.pdf, ite_not]
  rfl
theorem Beta_mean_eq : (Cv.Src.C02.Beta_mean : α → α → α) = Beta.mean := rfl
theorem Beta_var_eq : (Cv.Src.C02.Beta_var : α → α → α) = Beta.var := rfl

/-! ### ChiSquared (`var` is `self.mean() * 2.`: the regenerated `var` calls the regenerated `mean`) -/
theorem ChiSquared_pdf_eq : (Cv.Src.C02.ChiSquared_pdf : Fns α → Nat → α → α) = ChiSquared.pdf := rfl
theorem ChiSquared_mean_eq : (Cv.Src.C02.ChiSquared_mean : Nat → α) = ChiSquared.mean := rfl
theorem ChiSquared_var_eq : (Cv.Src.C02.ChiSquared_var : Nat → α) = ChiSquared.var := rfl

/-! ### Student's T (`f64::NAN` / `f64::INFINITY` leaves are the `Moment` constructors) -/
theorem T_pdf_eq : (Cv.Src.C02.T_pdf : Fns α → α → α → α) = T.pdf := rfl
theorem T_mean_eq : (Cv.Src.C02.T_mean : α → Moment α) = T.mean := rfl
theorem T_var_eq : (Cv.Src.C02.T_var : α → Moment α) = T.var := rfl

/-! ### Pareto -/
theorem Pareto_pdf_eq : (Cv.Src.C02.Pareto_pdf : α → α → α → α) = Pareto.pdf := rfl
theorem Pareto_mean_eq : (Cv.Src.C02.Pareto_mean : α → α → Moment α) = Pareto.mean := rfl
theorem Pareto_var_eq : (Cv.Src.C02.Pareto_var : α → α → Moment α) = Pareto.var := rfl

/-! ### Gumbel (`PISQ6` is inlined from its initializer `PI * PI / 6.`) -/
theorem Gumbel_pdf_eq : (Cv.Src.C02.Gumbel_pdf : α → α → α → α) = Gumbel.pdf := rfl
theorem Gumbel_mean_eq : (Cv.Src.C02.Gumbel_mean : Fns α → α → α → α) = Gumbel.mean := rfl
theorem Gumbel_var_eq : (Cv.Src.C02.Gumbel_var : Fns α → α → α → α) = Gumbel.var := rfl

/-! ### Exponential -/
theorem Exponential_pdf_eq : (Cv.Src.C02.Exponential_pdf : α → α → α) = Exponential.pdf := rfl
theorem Exponential_mean_eq : (Cv.Src.C02.Exponential_mean : α → α) = Exponential.mean := rfl
theorem Exponential_var_eq : (Cv.Src.C02.Exponential_var : α → α) = Exponential.var := rfl

/-! ### Uniform -/
theorem Uniform_pdf_eq : (Cv.Src.C02.Uniform_pdf : α → α → α → α) = Uniform.pdf := rfl
theorem Uniform_mean_eq : (Cv.Src.C02.Uniform_mean : α → α → α) = Uniform.mean := rfl
theorem Uniform_var_eq : (Cv.Src.C02.Uniform_var : α → α → α) = Uniform.var := rfl

/-! ### Poisson -/
theorem Poisson_pmf_eq : (Cv.Src.C02.Poisson_pmf : Fns α → α → Int → α) = Poisson.pmf := rfl
theorem Poisson_mean_eq : (Cv.Src.C02.Poisson_mean : α → α) = Poisson.mean := rfl
theorem Poisson_var_eq : (Cv.Src.C02.Poisson_var : α → α) = Poisson.var := rfl

/-! ### Binomial
The source guards with `k < 0 || k as u64 > self.n` (`k : i64`, `n : u64`); the translator emits the wrapping cast
`(k % 2^64).toNat`; the model says `k < 0 ∨ (n : Int) < k`.  The two guards agree for every `k < 2^64` (all of
`i64`), by linear integer arithmetic; everything after the guard is the same term.  Outside that range the Lean
functions differ (`k = 2^64` passes the wrapping guard), which is why the hypothesis cannot be dropped. -/
theorem Binomial_pmf_eq_of_i64 (F : Fns α) (n : Nat) (p : α) (k : Int) (hk : k < 18446744073709551616) :
    Cv.Src.C02.Binomial_pmf F n p k = Binomial.pmf F n p k := by
  have h : (k < 0 ∨ (k % 18446744073709551616).toNat > n) ↔ (k < 0 ∨ (n : Int) < k) := by omega
  unfold Cv.Src.C02.Binomial_pmf Binomial.pmf
  exact ite_congr (propext h) (fun _ => rfl) (fun _ => rfl)
theorem Binomial_mean_eq : (Cv.Src.C02.Binomial_mean : Nat → α → α) = Binomial.mean := rfl
theorem Binomial_var_eq : (Cv.Src.C02.Binomial_var : Nat → α → α) = Binomial.var := rfl

/-! ### Bernoulli -/
theorem Bernoulli_pmf_eq : (Cv.Src.C02.Bernoulli_pmf : α → Int → α) = Bernoulli.pmf := rfl
theorem Bernoulli_mean_eq : (Cv.Src.C02.Bernoulli_mean : α → α) = Bernoulli.mean := rfl
theorem Bernoulli_var_eq : (Cv.Src.C02.Bernoulli_var : α → α) = Bernoulli.var := rfl

/-! ### DiscreteUniform (`i64` arithmetic of the bounds is `Int` arithmetic on both sides: no overflow modelled) -/
theorem DiscreteUniform_pmf_eq : (Cv.Src.C02.DiscreteUniform_pmf : Int → Int → Int → α) = DiscreteUniform.pmf := rfl
theorem DiscreteUniform_mean_eq : (Cv.Src.C02.DiscreteUniform_mean : Int → Int → α) = DiscreteUniform.mean := rfl
theorem DiscreteUniform_var_eq : (Cv.Src.C02.DiscreteUniform_var : Int → Int → α) = DiscreteUniform.var := rfl

end Cv.SrcTie.C02
