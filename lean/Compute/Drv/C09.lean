import Compute.Drv.Common
import Compute.Model.Scalar
import Compute.Model.Special
/-
Driver for C09 (model at `Float`).  Requests (floats as 16 hex digits):
  `gamma x` | `lngamma x` | `digamma x` | `erf x` | `beta a b`      -> `= y`
  `gammav n x1 … xn` (also lngammav, digammav, erfv)                 -> `= y1 … yn`
  `betav n a1 b1 … an bn`                                            -> `= y1 … yn`
`gamma`, `lngamma`, `erf` are evaluated through the fuelled transcription of the Rust recursion (`gammaF` …) AND
through the closed form (`gammaFn` …); a difference between the two is reported as `! model-mismatch`, fuel
exhaustion as `! diverged`.  `digamma x` with `x < -100000` is `! diverged` on both sides (see exec/src/bin/c09.rs).
-/
open Cv Cv.Special

def sameF (a b : Float) : Bool := showFloat a == showFloat b

/-- `none` = diverged, `some none` = closed form disagrees with the recursion -/
def c09Fun (op : String) : Option (Float → Option (Option Float)) :=
  let both (r : Option Float) (c : Float) : Option (Option Float) :=
    r.map fun y => if sameF y c then some y else none
  match op with
  | "gamma" => some fun x => both (gammaF 8 x) (gammaFn x)
  | "lngamma" => some fun x => both (lnGammaF 8 x) (lnGammaFn x)
  | "erf" => some fun x => both (erfF 8 x) (erfFn x)
  | "digamma" => some fun x =>
      if x < -100000.0 then none else both (digammaF digammaFuel x) (digammaFn x)
  | _ => none

def c09Many (f : Float → Option (Option Float)) (xs : List Float) : String :=
  let rec go (xs : List Float) (acc : List Float) : String :=
    match xs with
    | [] => ok (showFloats acc.reverse)
    | x :: rest =>
      match f x with
      | none => diverged
      | some none => "! model-mismatch"
      | some (some y) => go rest (y :: acc)
  go xs []

def pairs : List Float → List (Float × Float)
  | a :: b :: rest => (a, b) :: pairs rest
  | _ => []

def c09Step (args : List String) : String :=
  match args with
  | "beta" :: rest =>
    withArgs (do let a ← pFloat; let b ← pFloat; pure (a, b)) rest fun (a, b) => ok (showFloat (betaFn a b))
  | "betav" :: rest =>
    withArgs (do let n ← pNat; pMany pFloat (2 * n)) rest fun xs =>
      ok (showFloats ((pairs xs).map fun (a, b) => betaFn a b))
  | op :: rest =>
    if op.endsWith "v" then
      match c09Fun ((op.dropEnd 1).toString) with
      | none => badOp
      | some f => withArgs pVec rest fun xs => c09Many f xs
    else
      match c09Fun op with
      | none => badOp
      | some f => withArgs pFloat rest fun x => c09Many f [x]
  | _ => badOp

def main (args : List String) : IO UInt32 := mainWith () (fun _ t => ((), c09Step t)) args
