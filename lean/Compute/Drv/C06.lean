import Compute.Drv.Common
import Compute.Model.Scalar
import Compute.Model.Solve
import Compute.Model.Glm
/-
Driver for C06 (GLM fitting).  Request:
  `glm <family> n p <x: n*p floats> <y: n floats> <0 | 1 len w…> <0 | 1 len off…> alpha tol maxiter`
  family ∈ gaussian bernoulli quasipoisson poisson gamma exponential
Reply:
  `= <ok:0|1> <coef vec> <deviance> <dispersion|P> <covariance vec|P> <std errors vec|P> <predict(x) vec|P> <aic> <bic>`
  (`P` = that accessor panicked) or `! panic` when `fit` itself panics.
-/
open Cv Cv.Glm

def c06Family (s : String) : Option Family :=
  match s with
  | "gaussian" => some .gaussian
  | "bernoulli" => some .bernoulli
  | "quasipoisson" => some .quasiPoisson
  | "poisson" => some .poisson
  | "gamma" => some .gamma
  | "exponential" => some .exponential
  | _ => none

def c06Opt : P (Option (List Float)) := do
  let h ← pNat
  if h = 0 then pure none else do let v ← pVec; pure (some v)

def c06ShowOptVec (v : Option (List Float)) : String :=
  match v with
  | some l => showVec l
  | none => "P"

def c06Step (args : List String) : String :=
  match args with
  | "glm" :: famS :: rest =>
    match c06Family famS with
    | none => badOp
    | some fam =>
      withArgs (do
        let n ← pNat; let p ← pNat
        let x ← pMany pFloat (n * p); let y ← pMany pFloat n
        let w ← c06Opt; let off ← c06Opt
        let alpha ← pFloat; let tol ← pFloat; let mi ← pNat
        pure (x, y, w, off, alpha, tol, mi)) rest fun (x, y, w, off, alpha, tol, mi) =>
        match fit (α := Float) Cv.solve fam x y w off alpha tol mi with
        | none => panicked
        | some r =>
          let disp := match dispersion r with | some d => showFloat d | none => "P"
          ok s!"{showBool r.ok} {showVec r.coef} {showFloat r.deviance} {disp} {c06ShowOptVec (coefCovariance Cv.invertMatrix r)} {c06ShowOptVec (coefStandardError Cv.invertMatrix r)} {c06ShowOptVec (predict r x)} {showFloat (aic r)} {showFloat (bic r)}"
  | _ => badOp

def main (args : List String) : IO UInt32 := mainWith () (fun _ t => ((), c06Step t)) args
