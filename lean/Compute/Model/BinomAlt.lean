import Compute.Model.Scalar
import Compute.Model.Special
/-
Model of `src/functions/combinatorial.rs::binom_coeff_alt` on top of the log-gamma model of `Model/Special.lean`
(`Cv.Special.lnGammaFn`, the Lanczos code path in logarithmic form that C09 ties bit for bit).  Core Lean only.

    pub fn binom_coeff_alt(n: u64, k: u64) -> u64 {
        (ln_gamma(n as f64 + 1.) - ln_gamma(k as f64 + 1.) - ln_gamma((n - k) as f64 + 1.))
            .exp()
            .round() as u64
    }

(Since the repair F52, commit 268026e: the logarithms used to be `gamma(..).ln()`, which is `inf` for `n >= 171`.)

* `n as f64`, `k as f64`, `(n - k) as f64` are `NatCast` (round to nearest even for values above 2^53);
* `n - k` underflows for `k > n`: `none` (panic with overflow checks, as the executor is built);
* the two subtractions are left-associated: `(lg(n+1) - lg(k+1)) - lg(n-k+1)`;
* `.round() as u64` is the class method `RoundU64.roundToU64`: round half away from zero, then the saturating cast
  (negative and NaN → 0, values ≥ 2^64 → 2^64 - 1).
The log-gamma function is a parameter of `binomCoeffAltWith` so that the theorems can be stated for any log-gamma with
a given accuracy; `binomCoeffAlt` instantiates it with the model of the Rust `ln_gamma`.
-/
namespace Cv

/-- `x.round() as u64` -/
class RoundU64 (α : Type) where
  roundToU64 : α → Nat

instance : RoundU64 Float := ⟨fun x => x.round.toUInt64.toNat⟩

section
variable {α : Type} [Add α] [Sub α] [One α] [NatCast α] [Transc α] [RoundU64 α]

/-- The body of `binom_coeff_alt` with the log-gamma function as a parameter. -/
def binomCoeffAltWith (lg : α → α) (n k : Nat) : Option Nat :=
  if k > n then none
  else
    some (RoundU64.roundToU64
      (exp ((lg ((n : α) + 1) - lg ((k : α) + 1)) - lg (((n - k : Nat) : α) + 1))))

end

/-- `binom_coeff_alt` with the model of the Rust `ln_gamma`. -/
def binomCoeffAlt (α : Type) [Add α] [Sub α] [Mul α] [Div α] [Neg α] [One α] [NatCast α] [Transc α] [OfLit α]
    [LT α] [DecidableLT α] [RoundU64 α] (n k : Nat) : Option Nat :=
  binomCoeffAltWith (Special.lnGammaFn : α → α) n k

end Cv
