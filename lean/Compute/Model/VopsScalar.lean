import Compute.Model.Scalar
/-
Scalar `f64` methods behind the unary maps of `vops.rs` that Rust's std does NOT take from libm but computes with
its own formulas on top of `ln_1p`, `hypot`, `sqrt`, `ln` (std/src/num/f64.rs of the toolchain that builds the
executor).  `Float` only; used by the C04 driver so that the `asinh / acosh / atanh` maps and scalar loops are compared
bit for bit instead of being supplied as tables.  Core Lean only.
-/
namespace Cv

/-- C `hypot` (glibc), the function Rust's `f64::hypot` calls; same mechanism as `log1pF`. -/
@[extern "hypot"] opaque hypotF : Float → Float → Float

/-- `f64::copysign`: magnitude of `a`, sign bit of `s`. -/
def copysignF (a s : Float) : Float :=
  Float.ofBits ((a.toBits &&& 0x7FFFFFFFFFFFFFFF) ||| (s.toBits &&& 0x8000000000000000))

/-- `f64::asinh`: `(|x| + |x| / (hypot(1, 1/|x|) + 1/|x|)).ln_1p().copysign(x)`. -/
def asinhF (x : Float) : Float :=
  let ax := x.abs
  let ix := 1.0 / ax
  copysignF (log1pF (ax + ax / (hypotF 1.0 ix + ix))) x

/-- `f64::acosh`: `if x < 1 { NaN } else { (x + sqrt(x-1)·sqrt(x+1)).ln() }`. -/
def acoshF (x : Float) : Float :=
  if x < 1.0 then 0.0 / 0.0 else Float.log (x + Float.sqrt (x - 1.0) * Float.sqrt (x + 1.0))

/-- `f64::atanh`: `0.5 · ((2x) / (1 − x)).ln_1p()`. -/
def atanhF (x : Float) : Float :=
  0.5 * log1pF ((2.0 * x) / (1.0 - x))

/-! ### `f64::cbrt`

Rust's `f64::cbrt` (`core::f64::math::cbrt`, the `libm` crate's port of the CORE-MATH routine) is the *correctly
rounded* cube root; glibc's `cbrt` (what Lean's `Float.cbrt` calls) is not (measured: they differ on 52.7 % of 10⁷
arguments, by up to 3 ulp).  The model therefore computes round-to-nearest of the exact cube root with integer
arithmetic: `|x| = m·2^e`, `N = m·2^(e+3k) ≥ 2^168`, `r = ⌊∛N⌋` (≥ 57 bits), rounded to 53 bits with the sticky bit
`N ≠ r³` (a tie is impossible: a 54-bit cube root would need a ≥ 160-bit radicand), result `q·2^(sh−k)` — always a
normal number, so the scaling is exact. -/

/-- `⌊∛n⌋` by Newton's iteration from above (fuel never runs out for the 223-bit arguments used). -/
def icbrtGo (n : Nat) : Nat → Nat → Nat
  | 0, r => r
  | fuel + 1, r =>
    let r' := (2 * r + n / (r * r)) / 3
    if r' < r then icbrtGo n fuel r' else r

def icbrt (n : Nat) : Nat :=
  if n = 0 then 0 else icbrtGo n 400 (2 ^ (Nat.log2 n / 3 + 1))

/-- `f64::cbrt`: correctly rounded (to nearest) cube root. -/
def cbrtF (x : Float) : Float :=
  if x.isNaN then 0.0 / 0.0 else
  let bits := x.toBits.toNat
  let ex := (bits >>> 52) % 2048
  let fr := bits % 2 ^ 52
  if ex = 2047 then x                       -- ±inf
  else if ex = 0 ∧ fr = 0 then x            -- ±0
  else
    let m : Nat := if ex = 0 then fr else fr + 2 ^ 52
    let e : Int := if ex = 0 then -1074 else (ex : Int) - 1075
    let k : Int := (168 - e + 2) / 3
    let t : Nat := (e + 3 * k).toNat
    let n := m * 2 ^ t
    let r := icbrt n
    let sh := Nat.log2 r + 1 - 53
    let q := r >>> sh
    let low := r % 2 ^ sh
    let half := 2 ^ (sh - 1)
    let sticky := decide (r * r * r ≠ n)
    let q := if low > half ∨ (low = half ∧ (sticky ∨ q % 2 = 1)) then q + 1 else q
    let y := (Float.ofNat q).scaleB ((sh : Int) - k)
    if bits >>> 63 = 1 then -y else y

end Cv
