import Compute.Model.Mat
/- Helper lemmas about `Mat.build`, `Mat.get` (core Lean only). -/
namespace Cv.Mat
variable {α : Type}

theorem build_wf (r c : Nat) (f : Nat → Nat → α) : (build r c f).WF := by
  simp [build, WF]

@[simp] theorem build_nrows (r c : Nat) (f : Nat → Nat → α) : (build r c f).nrows = r := rfl
@[simp] theorem build_ncols (r c : Nat) (f : Nat → Nat → α) : (build r c f).ncols = c := rfl

theorem idx_lt {r c i j : Nat} (hi : i < r) (hj : j < c) : i * c + j < r * c := by
  have : (i + 1) * c ≤ r * c := Nat.mul_le_mul_right c hi
  rw [Nat.add_mul] at this
  omega

theorem build_get [Inhabited α] {r c i j : Nat} (f : Nat → Nat → α) (hi : i < r) (hj : j < c) :
    (build r c f).get i j = f i j := by
  have hk := idx_lt hi hj
  have hc : 0 < c := by omega
  simp only [get, build]
  rw [getElem!_pos _ _ (by simpa using hk)]
  simp only [List.getElem_map, List.getElem_range]
  have h1 : (i * c + j) / c = i := by
    rw [Nat.add_comm, Nat.add_mul_div_right _ _ hc, Nat.div_eq_of_lt hj]; simp
  have h2 : (i * c + j) % c = j := by
    rw [Nat.add_comm, Nat.add_mul_mod_self_right, Nat.mod_eq_of_lt hj]
  rw [h1, h2]

theorem getBang [Inhabited α] {l : List α} {k : Nat} (h : k < l.length) : l[k]! = l[k] :=
  getElem!_pos l k h

theorem get_mk_map [Inhabited α] (f : α → α) (d : List α) (r c i j : Nat) (hk : i * c + j < d.length) :
    (Mat.mk (d.map f) r c).get i j = f ((Mat.mk d r c).get i j) := by
  have hk' : i * c + j < (d.map f).length := by simpa using hk
  simp only [get]
  rw [getBang hk, getBang hk', List.getElem_map]

theorem get_mk_zipWith [Inhabited α] (f : α → α → α) (d1 d2 : List α) (r c i j : Nat)
    (h1 : i * c + j < d1.length) (h2 : i * c + j < d2.length) :
    (Mat.mk (List.zipWith f d1 d2) r c).get i j = f ((Mat.mk d1 r c).get i j) ((Mat.mk d2 r c).get i j) := by
  have h3 : i * c + j < (List.zipWith f d1 d2).length := by simp; omega
  simp only [get]
  rw [getBang h1, getBang h2, getBang h3, List.getElem_zipWith]

end Cv.Mat
