import Compute.Model.Scalar
/-
Model of `src/functions/interpolate.rs` (`interp1d_linear`, `interp1d_linear_unchecked`,
`ExtrapolationMode`).  Polymorphic in the scalar; core Lean only.  `none` = panic.

Per target `t` the source does

    let mut idx = 0;
    for j in 0..n - 1 { if x[j] > t { break; } idx += 1; }          // `n - 1` underflows for n = 0
    if idx == 0 || t > x[n - 1] {
        match mode {
            Panic => panic!(),
            Fill(left, right) => if idx == 0 { push(left) } else if t > x[n - 1] { push(right) }
            Extrapolate => if idx == 0 { slope = (y[1]-y[0])/(x[1]-x[0]); push(-slope*(x[0]-t)+y[0]) }
                           else if t > x[n - 1] { slope = (y[n-1]-y[n-2])/(x[n-1]-x[n-2]);
                                                  push(slope*(t-x[n-1])+y[n-1]) }
        }
    } else { ratio = (t-x[idx-1])/(x[idx]-x[idx-1]); push(ratio*y[idx] + (1.-ratio)*y[idx-1]) }

In the two `else if t > x[n-1]` arms the test is the second disjunct of the enclosing condition
with the first one (`idx == 0`) already refuted, so it is true whenever it is reached (the same
comparison on the same operands); the model therefore takes that arm unconditionally.
-/
namespace Cv

inductive ExtrapMode (α : Type) where
  | panic
  | fill (left right : α)
  | extrapolate

section
variable {α : Type} [Add α] [Sub α] [Mul α] [Div α] [Neg α] [Zero α] [One α]
  [LT α] [DecidableLT α] [Inhabited α]

/-- The scan over a list of abscissae: number of leading entries that are not `> t`. -/
def scanIdx (t : α) : List α → Nat
  | [] => 0
  | a :: rest => if a > t then 0 else scanIdx t rest + 1

/-- One target of `interp1d_linear_unchecked` (after the length assert). -/
def interpOne (x y : List α) (mode : ExtrapMode α) (t : α) : Option α :=
  let n := x.length
  if n = 0 then none
  else
    let idx := scanIdx t (x.take (n - 1))
    if idx = 0 ∨ t > x[n - 1]! then
      match mode with
      | .panic => none
      | .fill l r => if idx = 0 then some l else some r
      | .extrapolate =>
        if idx = 0 then
          if n < 2 then none   -- `y[1]` out of bounds
          else
            let slope := (y[1]! - y[0]!) / (x[1]! - x[0]!)
            some ((-slope) * (x[0]! - t) + y[0]!)
        else
          let slope := (y[n - 1]! - y[n - 2]!) / (x[n - 1]! - x[n - 2]!)
          some (slope * (t - x[n - 1]!) + y[n - 1]!)
    else
      let ratio := (t - x[idx - 1]!) / (x[idx]! - x[idx - 1]!)
      some (ratio * y[idx]! + (1 - ratio) * y[idx - 1]!)

/-- the loop over the targets: the first panicking target aborts the call -/
def interpAll (x y : List α) (mode : ExtrapMode α) : List α → Option (List α)
  | [] => some []
  | t :: ts =>
    match interpOne x y mode t with
    | none => none
    | some v =>
      match interpAll x y mode ts with
      | none => none
      | some vs => some (v :: vs)

/-- `interp1d_linear_unchecked` -/
def interpUnchecked (x y tgt : List α) (mode : ExtrapMode α) : Option (List α) :=
  if x.length ≠ y.length then none
  else interpAll x y mode tgt

/-- the sortedness loop of the checked variant: `x[i+1] - x[i] < 0` anywhere → panic -/
def sortedOk : List α → Bool
  | a :: b :: rest => if b - a < 0 then false else sortedOk (b :: rest)
  | _ => true

/-- `interp1d_linear` -/
def interpChecked (x y tgt : List α) (mode : ExtrapMode α) : Option (List α) :=
  if x.length ≠ y.length then none
  else if x.length = 0 then none   -- `0..n - 1` underflows
  else if !sortedOk x then none
  else interpUnchecked x y tgt mode

end
end Cv
