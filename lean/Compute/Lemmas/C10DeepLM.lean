import Compute.Lemmas.C10DeepEval
import Compute.Lemmas.C10LMAlg
import Compute.Props.C11Lu
/-
C10 (deep) — Levenberg–Marquardt without the two hypotheses of `lm_descends`:

* the evaluator laws are discharged for the evaluator of the source (`tapeEval_laws`, relative to the
  well-formedness invariant of the tape state), and the loop invariant carries that invariant;
* "exact LU solve at every reachable state" is replaced by NON-SINGULARITY of the damped normal matrix
  (`solveExact_of_nonsingular`, from `Cv.C11Lu`: partial pivoting never meets a zero pivot on a
  non-singular matrix and the substitution is then exact), which in turn holds whenever `μ > 0` and no
  column of `J` vanishes (`damped_nonsingular`: `JᵀJ + μ·diag(JᵀJ)` is positive definite).
-/
namespace Cv.C10D
open Cv Cv.AD Cv.Opt Cv.C10 Cv.LA Finset

set_option linter.unusedSectionVars false
set_option linter.unusedVariables false

section lm
variable {α : Type} [Field α] [LinearOrder α] [IsStrictOrderedRing α] [Inhabited α] [BEq α]
  [LawfulBEq α] [Transc α] [FMax α]

/-! ### non-singular systems are solved exactly -/

/-- the `p × p` matrix `a` (row-major) has a trivial kernel -/
def NonSingular (p : Nat) (a : List α) : Prop :=
  ∀ v : Nat → α, (∀ i, i < p → ∑ j ∈ range p, nth a (i * p + j) * v j = 0) → ∀ j, j < p → v j = 0

theorem damp_length (p : Nat) (mu : α) (a : List α) : (damp p mu a).length = p * p := by
  simp [damp]

/-- `damped.solve(b)` (`lu()` then `lu_solve`) on a non-singular matrix returns the solution -/
theorem solveExact_of_nonsingular (habs : ∀ x : α, Transc.abs x = |x|) (p : Nat) (a b δ : List α)
    (ha : a.length = p * p) (hb : b.length = p) (hns : NonSingular p a)
    (h : luSolveVec a b = some δ) : δ.length = p ∧ IsSolution p a δ b := by
  unfold luSolveVec at h
  split at h
  · exact absurd h (by simp)
  next f piv hlu =>
    have hd := C11Lu.lu_pivots_ne_zero_of_nonsingular habs p a f piv ha hlu hns
    exact C11Lu.luSolve_spec p a b f δ piv ha hb hlu hd h

/-! ### `JᵀJ + μ·diag(JᵀJ)` is positive definite -/

/-- **the damped normal matrix is non-singular** when `μ > 0` and no column of `J` vanishes. -/
theorem damped_nonsingular (n p : Nat) (hn : 0 < n) (J jtj : List α) (mu : α)
    (hJ : J.length = n * p) (hjtj : jtjOf n J = some jtj) (hmu : 0 < mu)
    (hcol : ∀ i, i < p → ∃ k, k < n ∧ nth J (k * p + i) ≠ 0) :
    NonSingular p (damp p mu jtj) := by
  obtain ⟨_, hent⟩ := jtj_entry n p hn J jtj hJ hjtj
  intro v hv
  set S : Nat → α := fun i => ∑ k ∈ range n, nth J (k * p + i) * nth J (k * p + i) with hS
  have hSpos : ∀ i, i < p → 0 < S i := by
    intro i hi
    obtain ⟨k, hk, hne⟩ := hcol i hi
    have h1 : nth J (k * p + i) * nth J (k * p + i) ≤ S i :=
      Finset.single_le_sum (f := fun k => nth J (k * p + i) * nth J (k * p + i))
        (fun k _ => mul_self_nonneg _) (Finset.mem_range.mpr hk)
    exact lt_of_lt_of_le (mul_self_pos.mpr hne) h1
  -- the system with damping `0` has right-hand side `-(μ Sᵢ vᵢ)`
  have hb : ∀ i, i < p → -(mu * S i * v i) = ∑ j ∈ range p,
      (if i = j then (∑ k ∈ range n, nth J (k * p + i) * nth J (k * p + i))
          + 0 * (∑ k ∈ range n, nth J (k * p + i) * nth J (k * p + i))
        else ∑ k ∈ range n, nth J (k * p + i) * nth J (k * p + j)) * v j := by
    intro i hi
    have h0 := hv i hi
    have hterm : ∀ j ∈ range p, nth (damp p mu jtj) (i * p + j) * v j =
        (if i = j then (∑ k ∈ range n, nth J (k * p + i) * nth J (k * p + i))
            + 0 * (∑ k ∈ range n, nth J (k * p + i) * nth J (k * p + i))
          else ∑ k ∈ range n, nth J (k * p + i) * nth J (k * p + j)) * v j
        + (if i = j then mu * S i * v j else 0) := by
      intro j hj
      have hjp : j < p := Finset.mem_range.mp hj
      rw [nth_damp p mu jtj i j hi hjp]
      by_cases hij : i = j
      · subst hij
        simp only [if_true]
        rw [hent i i hi hi]
        ring
      · simp only [hij, if_false]
        rw [hent i j hi hjp]
        ring
    rw [Finset.sum_congr rfl hterm, Finset.sum_add_distrib, Finset.sum_ite_eq (range p) i,
      if_pos (Finset.mem_range.mpr hi)] at h0
    linarith
  have hcore := pred_core n p (fun k i => nth J (k * p + i)) v (fun i => -(mu * S i * v i)) 0
    (le_refl _) hb
  have hsum : ∑ i ∈ range p, v i * (0 * v i + -(mu * S i * v i))
      = -∑ i ∈ range p, mu * S i * (v i * v i) := by
    rw [← Finset.sum_neg_distrib]
    apply Finset.sum_congr rfl
    intro i _
    ring
  rw [hsum] at hcore
  intro j hj
  have hterm_nonneg : ∀ i ∈ range p, 0 ≤ mu * S i * (v i * v i) := by
    intro i hi
    exact mul_nonneg (mul_nonneg (le_of_lt hmu) (le_of_lt (hSpos i (Finset.mem_range.mp hi))))
      (mul_self_nonneg _)
  have hle : mu * S j * (v j * v j) ≤ ∑ i ∈ range p, mu * S i * (v i * v i) :=
    Finset.single_le_sum (f := fun i => mu * S i * (v i * v i)) hterm_nonneg
      (Finset.mem_range.mpr hj)
  have hz : mu * S j * (v j * v j) ≤ 0 := by linarith
  have hpos : 0 < mu * S j := mul_pos hmu (hSpos j hj)
  have : v j * v j ≤ 0 := by
    by_contra hc
    have := mul_pos hpos (not_le.mp hc)
    linarith
  have h2 : v j * v j = 0 := le_antisymm this (mul_self_nonneg _)
  exact mul_self_eq_zero.mp h2

/-! ### the loop invariant, relative to the tape-state invariant -/

/-- the property of the damping parameters carried through the loop (`0 ≤ ·` or `0 < ·`) -/
structure MuPred (Pm : α → Prop) : Prop where
  mul : ∀ a b, Pm a → Pm b → Pm (a * b)
  two : Pm (((2 : Nat) : α))
  third : ∀ a, Pm (max (1 / ((3 : Nat) : α)) a)
  nonneg : ∀ a, Pm a → 0 ≤ a

theorem muPred_nonneg : MuPred (fun x : α => 0 ≤ x) := by
  have three : (0 : α) < ((3 : Nat) : α) := by exact_mod_cast (by norm_num : (0 : Nat) < 3)
  refine ⟨fun a b => mul_nonneg, by exact_mod_cast (by norm_num : (0 : Nat) ≤ 2), fun a => ?_,
    fun a h => h⟩
  exact le_trans (le_of_lt (div_pos one_pos three)) (le_max_left _ _)

theorem muPred_pos : MuPred (fun x : α => 0 < x) := by
  have three : (0 : α) < ((3 : Nat) : α) := by exact_mod_cast (by norm_num : (0 : Nat) < 3)
  refine ⟨fun a b => mul_pos, by exact_mod_cast (by norm_num : (0 : Nat) < 2), fun a => ?_,
    fun a h => le_of_lt h⟩
  exact lt_of_lt_of_le (div_pos one_pos three) (le_max_left _ _)

theorem lmBody_mu {σ : Type} {Pm : α → Prop} (hPm : MuPred Pm) (hF : FMaxLaw α) (E : LMEval σ α)
    (h : LMHP α) (s s' : LMSt σ α) (hb : lmBody E h s = some s') (hmu : Pm s.mu) (hnu : Pm s.nu) :
    Pm s'.mu ∧ Pm s'.nu := by
  unfold lmBody at hb
  simp only at hb
  split at hb
  · exact absurd hb (by simp)
  · split at hb
    · simp only [Option.some.injEq] at hb; subst hb; exact ⟨hmu, hnu⟩
    · split at hb
      · exact absurd hb (by simp)
      · split at hb
        · split at hb
          · exact absurd hb (by simp)
          · split at hb
            · exact absurd hb (by simp)
            · split at hb
              · split at hb
                · simp only [Option.some.injEq] at hb; subst hb; exact ⟨hmu, hnu⟩
                · simp only [Option.some.injEq] at hb; subst hb
                  refine ⟨?_, hPm.two⟩
                  show Pm (FMax.fmax _ _)
                  rw [hF]
                  exact hPm.third _
              · exact absurd hb (by simp)
        · simp only [Option.some.injEq] at hb; subst hb
          exact ⟨hPm.mul _ _ hmu hnu, hPm.mul _ _ hnu hPm.two⟩

/-- loop invariant: well-formed tape state, stored quantities belong to the current parameters,
damping parameters in `Pm`, parameter count unchanged -/
def InvW {σ : Type} (E : LMEval σ α) (WF : σ → Prop) (R Jf : List α → List α) (Pm : α → Prop)
    (p : Nat) (s : LMSt σ α) : Prop :=
  WF s.tp ∧ Belongs E R Jf s ∧ Pm s.mu ∧ Pm s.nu ∧ (E.vals s.tp).length = p

theorem invW_body {σ : Type} (E : LMEval σ α) (WF : σ → Prop) (R Jf : List α → List α)
    (L : EvalLawsOn E WF R Jf) {Pm : α → Prop} (hPm : MuPred Pm) (hF : FMaxLaw α) (p : Nat)
    (h : LMHP α) (s s' : LMSt σ α) (hI : InvW E WF R Jf Pm p s) (hex : SolveExactAt E s)
    (hb : lmBody E h s = some s') : InvW E WF R Jf Pm p s' := by
  obtain ⟨hwf, hB, hmu, hnu, hlen⟩ := hI
  obtain ⟨m1, m2⟩ := lmBody_mu hPm hF E h s s' hb hmu hnu
  rcases lmBody_cases E h s s' hb with h1 | h1 |
    ⟨δ, tp', res', jac, jtj, jtr, hsolve, htry, _, hjac, hjtj, hjtr, hres, hj1, hj2, htp⟩
  · subst h1; exact ⟨hwf, hB, hmu, hnu, hlen⟩
  · refine ⟨?_, ?_, m1, m2, ?_⟩
    · rw [h1]; exact (L.fresh s.tp).1
    · rw [h1]
      unfold Belongs at hB ⊢
      simp only [(L.fresh s.tp).2]
      exact hB
    · rw [h1]; simp only [(L.fresh s.tp).2]; exact hlen
  · obtain ⟨hwf', hv', hr⟩ := L.try_ s.tp δ tp' res' hwf htry
    have hj := L.jac tp' jac hwf' hjac
    have hδ := (hex δ hsolve).1
    have hv : E.vals s'.tp = E.vals tp' := by
      rcases htp with h2 | h2
      · rw [h2]
      · rw [h2, (L.fresh tp').2]
    refine ⟨?_, ?_, m1, m2, ?_⟩
    · rcases htp with h2 | h2
      · rw [h2]; exact hwf'
      · rw [h2]; exact (L.fresh tp').1
    · unfold Belongs
      rw [hv, hres, hj1, hj2, ← hr, ← hj]
      exact ⟨rfl, hjtj, hjtr⟩
    · rw [hv, hv', List.length_zipWith, hδ, hlen, Nat.min_self]

theorem invW_start {σ : Type} (E : LMEval σ α) (WF : σ → Prop) (R Jf : List α → List α)
    (L : EvalLawsOn E WF R Jf) (h : LMHP α) (θ0 : List α) (s0 : LMSt σ α)
    (hs : lmStart E h θ0 = some s0) :
    WF s0.tp ∧ Belongs E R Jf s0 ∧ E.vals s0.tp = θ0 ∧ s0.nu = ((2 : Nat) : α) ∧
      s0.mu = h.tau * (statMax (diagOf θ0.length s0.jtj)).getD (0 / 0) := by
  unfold lmStart at hs
  split at hs
  · exact absurd hs (by simp)
  next tp res jac hinit =>
    obtain ⟨hwf, hv, hr, hj⟩ := L.init θ0 tp res jac hinit
    simp only at hs
    split at hs
    · exact absurd hs (by simp)
    · split at hs
      next jtj jtr h1 h2 =>
        simp only [Option.some.injEq] at hs
        subst hs
        subst hr hj
        exact ⟨hwf, ⟨by rw [hv], by rw [hv]; exact h1, by rw [hv]; exact h2⟩, hv, rfl, rfl⟩
      · exact absurd hs (by simp)

/-- the damped systems of an invariant state are solved exactly when they are non-singular -/
theorem solveExactAt_of_nonsingular {σ : Type} (E : LMEval σ α) (R Jf : List α → List α)
    (habs : ∀ x : α, Transc.abs x = |x|) (hn : 0 < E.n)
    (hshape : ∀ θ, (Jf θ).length = E.n * θ.length ∧ (R θ).length = E.n)
    (s : LMSt σ α) (hB : Belongs E R Jf s)
    (hns : NonSingular (E.vals s.tp).length (damp (E.vals s.tp).length s.mu s.jtj)) :
    SolveExactAt E s := by
  intro δ hδ
  have hl := jtr_length E.n (E.vals s.tp).length hn _ _ _ (hshape _).1 (hshape _).2 hB.2.2
  exact solveExact_of_nonsingular habs _ _ _ δ (damp_length _ _ _) hl hns hδ

/-- **LM descends on every evaluator obeying the relativised laws**, given exact solves on the
invariant states. -/
theorem lm_core {σ : Type} (E : LMEval σ α) (WF : σ → Prop) (R Jf : List α → List α)
    (L : EvalLawsOn E WF R Jf) {Pm : α → Prop} (hPm : MuPred Pm) (hF : FMaxLaw α) (hn : 0 < E.n)
    (hshape : ∀ θ, (Jf θ).length = E.n * θ.length ∧ (R θ).length = E.n)
    (h : LMHP α) (θ0 : List α)
    (hex : ∀ s, InvW E WF R Jf Pm θ0.length s → SolveExactAt E s)
    (k : Nat) (s0 s : LMSt σ α) (hs0 : lmStart E h θ0 = some s0) (hmu0 : Pm s0.mu)
    (hl : lmLoop E h k s0 = some s) :
    rss s ≤ rss s0 ∧ rss s0 = dot8 (R θ0) (R θ0) ∧
      rss s = dot8 (R (E.vals s.tp)) (R (E.vals s.tp)) ∧ Belongs E R Jf s ∧
      (E.vals s.tp).length = θ0.length := by
  obtain ⟨hwf, hB, hv, hnu, _⟩ := invW_start E WF R Jf L h θ0 s0 hs0
  have hI0 : InvW E WF R Jf Pm θ0.length s0 :=
    ⟨hwf, hB, hmu0, by rw [hnu]; exact hPm.two, by rw [hv]⟩
  have hd := lmLoop_descent E h (InvW E WF R Jf Pm θ0.length)
    (fun s1 h1 => by
      intro δ hδ
      obtain ⟨hl1, hsol⟩ := hex s1 h1 δ hδ
      obtain ⟨_, ⟨_, b2, b3⟩, hmu, _, _⟩ := h1
      exact lm_pred_nonneg E.n _ hn _ _ _ _ δ s1.mu (hshape _).1 (hshape _).2 b2 b3
        (hPm.nonneg _ hmu) hl1 hsol)
    (fun s1 s2 h1 hb => invW_body E WF R Jf L hPm hF θ0.length h s1 s2 h1 (hex s1 h1) hb)
    k s0 s hI0 hl
  refine ⟨hd.1, ?_, ?_, hd.2.2.1, hd.2.2.2.2.2⟩
  · unfold rss; rw [hB.1, hv]
  · unfold rss; rw [hd.2.2.1.1]

/-! ### the initial damping parameter -/

theorem foldl_fmax_pos (hF : FMaxLaw α) (xs : List α) (x : α) (hx : 0 < x) :
    0 < xs.foldl FMax.fmax x := by
  induction xs generalizing x with
  | nil => simpa
  | cons a as ih =>
    simp only [List.foldl_cons]
    apply ih
    rw [hF]
    exact lt_of_lt_of_le hx (le_max_left _ _)

/-- `max(diag(JᵀJ)) > 0` when there is at least one parameter and its column does not vanish -/
theorem statMax_diag_pos (hF : FMaxLaw α) (n p : Nat) (hn : 0 < n) (hp : 0 < p) (J jtj : List α)
    (hJ : J.length = n * p) (hjtj : jtjOf n J = some jtj)
    (hcol : ∀ i, i < p → ∃ k, k < n ∧ nth J (k * p + i) ≠ 0) :
    0 < (statMax (diagOf p jtj)).getD (0 / 0) := by
  obtain ⟨_, hent⟩ := jtj_entry n p hn J jtj hJ hjtj
  obtain ⟨q, rfl⟩ : ∃ q, p = q + 1 := ⟨p - 1, by omega⟩
  have hd : diagOf (q + 1) jtj =
      jtj.getD (0 * (q + 1) + 0) 0 ::
        (List.range q).map (fun i => jtj.getD ((i + 1) * (q + 1) + (i + 1)) 0) := by
    unfold diagOf
    rw [List.range_succ_eq_map]
    simp
  rw [hd]
  simp only [statMax, Option.getD_some]
  apply foldl_fmax_pos hF
  show 0 < nth jtj (0 * (q + 1) + 0)
  rw [hent 0 0 (by omega) (by omega)]
  obtain ⟨k, hk, hne⟩ := hcol 0 (by omega)
  have h1 : nth J (k * (q + 1) + 0) * nth J (k * (q + 1) + 0) ≤
      ∑ k ∈ range n, nth J (k * (q + 1) + 0) * nth J (k * (q + 1) + 0) :=
    Finset.single_le_sum (f := fun k => nth J (k * (q + 1) + 0) * nth J (k * (q + 1) + 0))
      (fun k _ => mul_self_nonneg _) (Finset.mem_range.mpr hk)
  exact lt_of_lt_of_le (mul_self_pos.mpr hne) h1

theorem statMax_diag_nonneg (hF : FMaxLaw α) (n p : Nat) (hn : 0 < n) (J jtj : List α)
    (hJ : J.length = n * p) (hjtj : jtjOf n J = some jtj) :
    0 ≤ (statMax (diagOf p jtj)).getD (0 / 0) := by
  have hdiag := jtj_diag_nonneg n p hn J jtj hJ hjtj
  cases hd : diagOf p jtj with
  | nil => simp [statMax]
  | cons x xs =>
    rw [hd] at hdiag
    simp only [statMax, Option.getD_some]
    exact foldl_fmax_nonneg hF xs x (hdiag x (by simp))

end lm
end Cv.C10D
