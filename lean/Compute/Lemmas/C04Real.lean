import Compute.Lemmas.C04Maps
import Compute.Lemmas.C04Reductions
import Mathlib.Analysis.SpecialFunctions.Pow.Real
import Mathlib.Analysis.SpecialFunctions.Trigonometric.Basic
import Mathlib.Algebra.Order.BigOperators.Group.List
import Mathlib.Tactic.Ring
import Mathlib.Tactic.Linarith
/-
C04 — the reductions of `utils.rs` in exact (real / ordered-field) arithmetic: `max`, `norm`,
`logsumexp`, `logmeanexp`, `inf_norm`.
-/
namespace Cv.C04
open Cv Cv.Vops Cv.VecOps Cv.C04W

/-- `Transc ℝ`: Mathlib's real functions. -/
noncomputable scoped instance instTranscRealC04 : Transc ℝ where
  sqrt := Real.sqrt
  exp := Real.exp
  ln := Real.log
  pow := fun x y => x ^ y
  sin := Real.sin
  cos := Real.cos
  tan := Real.tan
  abs := fun x => |x|
  floor := fun x => (⌊x⌋ : ℝ)
  ceil := fun x => (⌈x⌉ : ℝ)

section Max
variable {α : Type} [LinearOrder α]

theorem fmaxN_of_not_nan (isNaN : α → Bool) (a b : α) (ha : isNaN a = false) (hb : isNaN b = false) :
    fmaxN isNaN a b = max a b := by
  unfold fmaxN
  simp only [ha, hb, Bool.false_eq_true, if_false]
  by_cases h : a < b
  · simp [h, max_eq_right (le_of_lt h)]
  · simp [h, max_eq_left (le_of_not_gt h)]

theorem foldl_fmaxN (isNaN : α → Bool) (l : List α) (a : α) (ha : isNaN a = false)
    (hl : ∀ v ∈ l, isNaN v = false) : l.foldl (fmaxN isNaN) a = l.foldl max a := by
  induction l generalizing a with
  | nil => rfl
  | cons b l ih =>
    have hb := hl b (by simp)
    simp only [List.foldl_cons]
    rw [fmaxN_of_not_nan isNaN a b ha hb]
    apply ih
    · rcases max_choice a b with h | h <;> rw [h] <;> assumption
    · intro v hv; exact hl v (by simp [hv])

theorem foldl_max_ge (l : List α) (a : α) : a ≤ l.foldl max a ∧ ∀ v ∈ l, v ≤ l.foldl max a := by
  induction l generalizing a with
  | nil => simp
  | cons b l ih =>
    obtain ⟨h1, h2⟩ := ih (max a b)
    refine ⟨le_trans (le_max_left a b) h1, ?_⟩
    intro v hv
    rcases List.mem_cons.mp hv with rfl | hv
    · exact le_trans (le_max_right a v) h1
    · exact h2 v hv

theorem foldl_max_mem (l : List α) (a : α) : l.foldl max a = a ∨ l.foldl max a ∈ l := by
  induction l generalizing a with
  | nil => simp
  | cons b l ih =>
    simp only [List.foldl_cons, List.mem_cons]
    rcases ih (max a b) with h | h
    · rw [h]; rcases max_choice a b with h' | h' <;> simp [h']
    · exact Or.inr (Or.inr h)

/-- `statistics::max` (fold from NaN with the NaN-ignoring `f64::max`) on a non-empty list without
NaN returns the greatest element. -/
theorem maxL_isGreatest (isNaN : α → Bool) (nan : α) (x : List α) (hn : isNaN nan = true)
    (hx : ∀ v ∈ x, isNaN v = false) (hne : x ≠ []) :
    maxL isNaN nan x ∈ x ∧ ∀ v ∈ x, v ≤ maxL isNaN nan x := by
  cases x with
  | nil => exact absurd rfl hne
  | cons a l =>
    have h0 : maxL isNaN nan (a :: l) = l.foldl max a := by
      simp only [maxL, List.foldl_cons]
      have : fmaxN isNaN nan a = a := by simp [fmaxN, hn]
      rw [this]
      exact foldl_fmaxN isNaN l a (hx a (by simp)) (fun v hv => hx v (by simp [hv]))
    rw [h0]
    obtain ⟨h1, h2⟩ := foldl_max_ge l a
    refine ⟨?_, ?_⟩
    · rcases foldl_max_mem l a with h | h
      · rw [h]; simp
      · exact List.mem_cons_of_mem _ h
    · intro v hv
      rcases List.mem_cons.mp hv with rfl | hv
      · exact h1
      · exact h2 v hv

end Max

/-! ### `norm` -/

/-- `utils::norm` in exact arithmetic: `√(Σ xᵢ²)`. -/
theorem normL_real (x : List ℝ) : normL x = Real.sqrt ((x.map fun v => v * v).sum) := by
  show Real.sqrt (dot8 x x) = _
  rw [dot8, dot8Go_eq, zero_add, List.zipWith_self]

/-! ### `logsumexp`, `logmeanexp` -/

theorem shiftedExpSum_real (m : ℝ) (x : List ℝ) :
    shiftedExpSum m x = (x.map Real.exp).sum / Real.exp m := by
  unfold shiftedExpSum
  rw [foldl_add_eq, zero_add]
  show (x.map fun v => Real.exp (v - m)).sum = _
  induction x with
  | nil => simp
  | cons a l ih => simp only [List.map_cons, List.sum_cons]; rw [ih, Real.exp_sub, add_div]

theorem sum_exp_pos (x : List ℝ) (hne : x ≠ []) : 0 < (x.map Real.exp).sum := by
  apply List.sum_pos
  · intro v hv
    obtain ⟨w, _, rfl⟩ := List.mem_map.mp hv
    exact Real.exp_pos w
  · simpa using hne

/-- `utils::logsumexp` over ℝ for non-empty input: `ln Σ exp xᵢ` (the shift cancels exactly). -/
theorem logsumexpL_real (isNaN : ℝ → Bool) (nan : ℝ) (x : List ℝ) (hne : x ≠ []) :
    logsumexpL isNaN nan x = Real.log ((x.map Real.exp).sum) := by
  unfold logsumexpL
  simp only
  rw [shiftedExpSum_real]
  show Real.log (_ / _) + _ = _
  rw [Real.log_div (ne_of_gt (sum_exp_pos x hne)) (Real.exp_ne_zero _), Real.log_exp]
  ring

/-- `utils::logmeanexp` over ℝ for non-empty input: `ln ((Σ exp xᵢ) / n)`. -/
theorem logmeanexpL_real (isNaN : ℝ → Bool) (nan : ℝ) (x : List ℝ) (hne : x ≠ []) :
    logmeanexpL isNaN nan x = Real.log ((x.map Real.exp).sum / (x.length : ℝ)) := by
  have hn : (0 : ℝ) < (x.length : ℝ) := by
    have : 0 < x.length := List.length_pos_iff.mpr hne
    exact_mod_cast this
  have hS := sum_exp_pos x hne
  unfold logmeanexpL
  simp only
  rw [shiftedExpSum_real]
  show Real.log (_ / _ / _) + _ = _
  rw [Real.log_div (ne_of_gt (div_pos hS (Real.exp_pos _))) (ne_of_gt hn),
    Real.log_div (ne_of_gt hS) (Real.exp_ne_zero _), Real.log_exp,
    Real.log_div (ne_of_gt hS) (ne_of_gt hn)]
  ring

/-- No overflow for any magnitude: with the shift `m = max x` every exponent is `≤ 0` and the sum of
the shifted exponentials lies in `[1, n]`. -/
theorem shifted_bounds (isNaN : ℝ → Bool) (nan : ℝ) (x : List ℝ) (hn : isNaN nan = true)
    (hx : ∀ v ∈ x, isNaN v = false) (hne : x ≠ []) :
    (∀ v ∈ x, v - maxL isNaN nan x ≤ 0) ∧
    1 ≤ shiftedExpSum (maxL isNaN nan x) x ∧ shiftedExpSum (maxL isNaN nan x) x ≤ (x.length : ℝ) := by
  obtain ⟨hmem, hge⟩ := maxL_isGreatest isNaN nan x hn hx hne
  set m := maxL isNaN nan x with hm
  have hsum : shiftedExpSum m x = (x.map fun v => Real.exp (v - m)).sum := by
    unfold shiftedExpSum; rw [foldl_add_eq, zero_add]; rfl
  refine ⟨fun v hv => sub_nonpos.mpr (hge v hv), ?_, ?_⟩
  · rw [hsum]
    have h1 : Real.exp (m - m) ∈ x.map fun v => Real.exp (v - m) := List.mem_map.mpr ⟨m, hmem, rfl⟩
    have := List.single_le_sum (l := x.map fun v => Real.exp (v - m))
      (fun y hy => by obtain ⟨w, _, rfl⟩ := List.mem_map.mp hy; exact le_of_lt (Real.exp_pos _)) _ h1
    simpa using this
  · rw [hsum]
    have := List.sum_le_card_nsmul (x.map fun v => Real.exp (v - m)) 1
      (fun y hy => by
        obtain ⟨w, hw, rfl⟩ := List.mem_map.mp hy
        exact Real.exp_le_one_iff.mpr (sub_nonpos.mpr (hge w hw)))
    simpa using this

/-! ### `inf_norm` -/

/-- The greatest element of `(List.range r).map f` through `statistics::max`. -/
theorem maxL_range {α : Type} [LinearOrder α] (isNaN : α → Bool) (nan : α) (r : Nat) (f : Nat → α)
    (hr : 0 < r) (hn : isNaN nan = true) (hf : ∀ i < r, isNaN (f i) = false) :
    (∃ i < r, maxL isNaN nan ((List.range r).map f) = f i) ∧
    ∀ i < r, f i ≤ maxL isNaN nan ((List.range r).map f) := by
  have hne : (List.range r).map f ≠ [] := by
    intro h
    have := congrArg List.length h
    simp at this; omega
  obtain ⟨hmem, hge⟩ := maxL_isGreatest isNaN nan ((List.range r).map f) hn
    (fun v hv => by obtain ⟨i, hi, rfl⟩ := List.mem_map.mp hv; exact hf i (List.mem_range.mp hi)) hne
  refine ⟨?_, fun i hi => hge _ (List.mem_map.mpr ⟨i, List.mem_range.mpr hi, rfl⟩)⟩
  obtain ⟨i, hi, h⟩ := List.mem_map.mp hmem
  exact ⟨i, List.mem_range.mp hi, h.symm⟩

/-- absolute row sum `Σ_j |x[i·c + j]|` of row-major data with `c` columns -/
noncomputable def absRowSum (x : List ℝ) (c i : Nat) : ℝ :=
  ((List.range c).map fun j => |x[i * c + j]!|).sum

/-- `utils::inf_norm(x, nrows)` rejects `nrows = 0` and lengths not divisible by `nrows`. -/
theorem infNormL_panics {α : Type} [Add α] [Zero α] [LT α] [DecidableLT α] [Transc α] [Inhabited α]
    (isNaN : α → Bool) (nan : α) (x : List α) (r : Nat) (h : r = 0 ∨ r * (x.length / r) ≠ x.length) :
    infNormL isNaN nan x r = none := by
  unfold infNormL
  rcases h with h | h
  · simp [h]
  · by_cases h0 : r = 0
    · simp [h0]
    · simp [h0, h]

/-- `utils::inf_norm` over ℝ: the largest absolute row sum (`max_i Σ_j |x_ij|`). -/
theorem infNormL_real (isNaN : ℝ → Bool) (nan : ℝ) (x : List ℝ) (r : Nat) (hr : 0 < r)
    (hd : r * (x.length / r) = x.length) (hn : isNaN nan = true)
    (hrows : ∀ i < r, isNaN (absRowSum x (x.length / r) i) = false) :
    ∃ R, infNormL isNaN nan x r = some R ∧ (∃ i < r, R = absRowSum x (x.length / r) i) ∧
      ∀ i < r, absRowSum x (x.length / r) i ≤ R := by
  have hf : (fun i => ((List.range (x.length / r)).map fun j => Transc.abs x[i * (x.length / r) + j]!).foldl (· + ·) 0)
      = absRowSum x (x.length / r) := by
    funext i; rw [foldl_add_eq, zero_add]; rfl
  refine ⟨maxL isNaN nan ((List.range r).map (absRowSum x (x.length / r))), ?_, ?_⟩
  · unfold infNormL
    simp only [Nat.pos_iff_ne_zero.mp hr, if_false, hd, ne_eq, not_true_eq_false, hf]
  · exact maxL_range isNaN nan r _ hr hn hrows

/-- absolute sum of row `i` of a matrix -/
noncomputable def matAbsRowSum (m : Mat ℝ) (i : Nat) : ℝ :=
  (((m.data.drop (i * m.ncols)).take m.ncols).map fun v => |v|).sum

/-- `Matrix::inf_norm` (`self.abs().sum_rows().max()`) over ℝ: the largest absolute row sum. -/
theorem matInfNorm_real (I : Interp ℝ) (hI : I.ufn .abs = fun v => |v|) (isNaN : ℝ → Bool) (nan : ℝ)
    (m : Mat ℝ) (wf : m.WF) (hr : 0 < m.nrows) (hn : isNaN nan = true)
    (hrows : ∀ i < m.nrows, isNaN (matAbsRowSum m i) = false) :
    ∃ R, matInfNorm I isNaN nan m = some R ∧ (∃ i < m.nrows, R = matAbsRowSum m i) ∧
      ∀ i < m.nrows, matAbsRowSum m i ≤ R := by
  have hs : sumRows (⟨m.data.map (I.ufn .abs), m.nrows, m.ncols⟩ : Mat ℝ) = (List.range m.nrows).map (matAbsRowSum m) := by
    unfold sumRows
    apply List.map_congr_left
    intro i _
    simp only [sum8, sum8Go_eq, zero_add, matAbsRowSum, hI, List.map_drop, List.map_take]
  refine ⟨maxL isNaN nan ((List.range m.nrows).map (matAbsRowSum m)), ?_, ?_⟩
  · unfold matInfNorm
    rw [matMap_spec I .abs (by decide) m wf]
    simp only [Option.map_some, hs]
  · exact maxL_range isNaN nan m.nrows _ hr hn hrows

end Cv.C04
