import Compute.Lemmas.Rounding5
import Mathlib.Tactic.NormNum
/-
Worst-case rounding-error theorems, fifth batch: quadrature sums (C07), Horner / `predict` (C14), the AR
one-step forecast and `difference` (C13), the extrapolation branch of `interp1d` (C16), `logit` and
Box–Cox (C17), the scalar covariance kernels (C20) and the one-pass covariance (C08) — for the *same*
model terms that are tied bit for bit to the Rust code at `Float`, instantiated at the scalar type
`Fl M` of `Lemmas/FlModel.lean` (standard model `rnd x = x(1+δ)`, `|δ| ≤ u`).

TRUSTED LINK (stated, not proved), as in `Props/Rounding.lean`: IEEE-754 binary64 round-to-nearest
satisfies the standard model with `u = 2⁻⁵³` barring overflow/underflow; the platform `exp` / `ln` /
`powf` have relative error `≤ uf` (classes `ExpLnStd`, `PowStd`; `uf = 2⁻⁵²` for a libm accurate to
1 ulp).  The *bare* model is used throughout: literals (`2.`, `0.5`) and `n as f64` count as rounded
operations, so the constants are upper bounds for `f64` (where those are exact).

Headline theorems (namespace `Cv.Rounding5`; structure lemmas `*_pert` in `Lemmas/Rounding5.lean`):

* C07 quadrature: the computed value is `Σ wᵢ·f̂(x̂ᵢ)·(1+θᵢ)` over the rule's own (computed) nodes `x̂ᵢ`
  and the computed integrand values `f̂(x̂ᵢ)`, `|θᵢ| ≤ γ_k`, `k` from the source's operation order:
  - `trapz_error`             k = max (n+4) 8        (`trapzRule`: interior weight h, ends h/2, h = (b−a)/n)
  - `trapz_error_rel`         k + j  against `Σ wᵢ·F(x̂ᵢ)` for an integrand with `j`-fold relative accuracy
  - `trapz_node_error`        |x̂ₖ − (a + k·h)| ≤ γ₆·(|a| + k·|h|)
  - `trapezoid_error`, `trapezoidDx_error`   k = (n−1) + 5   (sample-based; panels (yᵢ₊₁+yᵢ)/2·(xᵢ₊₁−xᵢ))
  - `quad5_error`, `quad5_error_rel`         k = L + 7  (= 12 for the 5-node tables of the source)
  - `romberg00_error` (k = 5), `rombergCol0Next_error` (k = max 3 (2^(n−1)+1) + 1; first column)
* C14 `horner_error` (γ_{2n+1}, bare model), `horner_error_classical` (γ_{2n}, representable
  coefficients; Higham (5.3)), `horner_error_sum` (in `Σ|aᵢ||x|ⁱ` form), `predict_error`
* C13 `predictOne_error`  |ŷ − (c + Σφⱼ(xⱼ−c))| ≤ γ_{p+3}(|c| + Σ|φⱼ||xⱼ−c|);  `difference_error`
* C16 `extrapolate_left_error`, `extrapolate_right_error`   ≤ γ₆(|slope·(t−xₖ)| + |yₖ|), and
  `extrapolate_cancellation`: no bound relative to the exact value exists
* C17 `logit_error` (uf·|logit p| + (1+uf)·γ₂), `boxcox_zero_error`, `boxcox_error`
  (γ₂·|bc| + (1+γ₂)·uf·x^λ/|λ|), `boxcoxShifted_eq`
* C20 `rbf_near` / `rbf_error` / `rbf_error_explicit` / `rbf_pos_stdmodel`, `rq_near` / `rq_error` / `rq_pos_stdmodel`
        c·K ≤ K̂ ≤ K/c,  c = e^{−γ₉A}(1−uf)(1−u)  (RBF, A = (x−y)²/(2ℓ²)),  c = ((1−u)¹¹)^α(1−uf)(1−u)  (RQ)
* C08 `onepass_error` (γ_{n+6}·Σ|dxᵢdyᵢ| + γ_{2n+8}·(Σ|dxᵢ|)(Σ|dyᵢ|)/n, all over n−1),
  `onepass_exact_eq_comoment`; `online_error_partial` (structure of the online algorithm relative to
  its *computed* running means; the comparison with the exact means is not done)

* numeric corollaries at `u = 2⁻⁵³`: `f64_constants_note` (pure numerics), `stdmodel_trapz_note`
Non-vacuity: `namespace Examples` at the end.
-/
namespace Cv.Rounding5
open Cv Cv.FlModel Cv.Rounding

variable {M : FlModel}

/-! ### C07: quadrature sums -/

/-- from the structure `Σ wᵢ·f̂(x̂ᵢ)(1+θᵢ)` to the bound against the same rule applied to an integrand `F`
of which `f̂` is a `j`-fold relatively accurate evaluation -/
theorem rule_error_rel {k j : Nat} {v : ℝ} (rule : List (Fl M × ℝ)) (f : Fl M → Fl M) (F : ℝ → ℝ)
    (hp : M.Pert k v (ruleTerms rule fun x => (f x).val))
    (hF : ∀ x : Fl M, ∃ g, M.Fac j g ∧ (f x).val = F x.val * g)
    (h : ((j + k : Nat) : ℝ) * M.u < 1) :
    |v - (ruleTerms rule fun x => F x.val).sum| ≤
      M.γ (j + k) * ((ruleTerms rule fun x => F x.val).map (|·|)).sum :=
  (Pert.rel rule (fun p => p.2) (fun p => (f p.1).val) (fun p => F p.1.val)
    (fun p _ => hF p.1) hp).error h

/-- **composite trapezoid rule `trapz`** (standard model only):
`|trapz f a b n − Σ wᵢ·f̂(x̂ᵢ)| ≤ γ_k·Σ|wᵢ·f̂(x̂ᵢ)|`, `k = max (n+4) 8`, over the rule's computed nodes
`x̂ᵢ = a ⊕ i ⊗ dx` and the computed integrand values, with the exact weights `h`, `h/2`, `h = (b−a)/n`. -/
theorem trapz_error (f : Fl M → Fl M) (a b : Fl M) (n : Nat)
    (h : ((max (n + 4) 8 : Nat) : ℝ) * M.u < 1) :
    |(trapz f a b n).val - (ruleTerms (trapzRule a b n) fun x => (f x).val).sum| ≤
      M.γ (max (n + 4) 8) * ((ruleTerms (trapzRule a b n) fun x => (f x).val).map (|·|)).sum :=
  (trapz_pert f a b n).error h

/-- **… for a relatively accurate integrand**: if `f̂(x) = F(x)(1+θ)` with `j` rounding factors, the same
bound holds against `Σ wᵢ·F(x̂ᵢ)` with `γ_{j+k}`. -/
theorem trapz_error_rel (f : Fl M → Fl M) (F : ℝ → ℝ) (j : Nat) (a b : Fl M) (n : Nat)
    (hF : ∀ x : Fl M, ∃ g, M.Fac j g ∧ (f x).val = F x.val * g)
    (h : ((j + max (n + 4) 8 : Nat) : ℝ) * M.u < 1) :
    |(trapz f a b n).val - (ruleTerms (trapzRule a b n) fun x => F x.val).sum| ≤
      M.γ (j + max (n + 4) 8) * ((ruleTerms (trapzRule a b n) fun x => F x.val).map (|·|)).sum :=
  rule_error_rel _ f F (trapz_pert f a b n) hF h

/-- the computed nodes of `trapz` are within `γ₆·(|a| + k|h|)` of `a + k·h` -/
theorem trapz_node_error (a b : Fl M) (n k : Nat) (h : ((6 : Nat) : ℝ) * M.u < 1) :
    |(trapzNode a b n k).val - (a.val + k * ((b.val - a.val) / n))| ≤
      M.γ 6 * (|a.val| + |(k : ℝ) * ((b.val - a.val) / n)|) := by
  have := (trapzNode_pert a b n k).error h
  simpa using this

/-- **sample-based `trapezoid`, abscissae given**: `n − 1` panels, `γ_{(n−1)+5}` -/
theorem trapezoid_error (y x : List (Fl M)) (hxy : y.length = x.length)
    (h : ((y.length - 1 + 5 : Nat) : ℝ) * M.u < 1) :
    ∃ v, trapezoid y (some x) none = some v ∧
      |v.val - (panelTerms (vals y) (vals x)).sum| ≤
        M.γ (y.length - 1 + 5) * ((panelTerms (vals y) (vals x)).map (|·|)).sum := by
  obtain ⟨v, hv, hp⟩ := trapezoid_pert y x hxy
  exact ⟨v, hv, hp.error h⟩

/-- **sample-based `trapezoid`, uniform spacing** -/
theorem trapezoidDx_error (y : List (Fl M)) (d : Fl M) (hy : y ≠ [])
    (h : ((y.length - 1 + 5 : Nat) : ℝ) * M.u < 1) :
    ∃ v, trapezoid y none (some d) = some v ∧
      |v.val - (panelTermsDx (vals y) d.val).sum| ≤
        M.γ (y.length - 1 + 5) * ((panelTermsDx (vals y) d.val).map (|·|)).sum := by
  obtain ⟨v, hv, hp⟩ := trapezoidDx_pert y d hy
  exact ⟨v, hv, hp.error h⟩

/-- **fixed-node rule `quad5`**: `γ_{L+7}`, `L` the number of (node, weight) pairs -/
theorem quad5_error (nodes weights : List (Fl M)) (f : Fl M → Fl M) (a b : Fl M)
    (h : ((min nodes.length weights.length + 7 : Nat) : ℝ) * M.u < 1) :
    |(quad5 nodes weights f a b).val - (ruleTerms (quad5Rule nodes weights a b) fun x => (f x).val).sum| ≤
      M.γ (min nodes.length weights.length + 7) *
        ((ruleTerms (quad5Rule nodes weights a b) fun x => (f x).val).map (|·|)).sum :=
  (quad5_pert nodes weights f a b).error h

theorem quad5_error_rel (nodes weights : List (Fl M)) (f : Fl M → Fl M) (F : ℝ → ℝ) (j : Nat)
    (a b : Fl M) (hF : ∀ x : Fl M, ∃ g, M.Fac j g ∧ (f x).val = F x.val * g)
    (h : ((j + (min nodes.length weights.length + 7) : Nat) : ℝ) * M.u < 1) :
    |(quad5 nodes weights f a b).val - (ruleTerms (quad5Rule nodes weights a b) fun x => F x.val).sum| ≤
      M.γ (j + (min nodes.length weights.length + 7)) *
        ((ruleTerms (quad5Rule nodes weights a b) fun x => F x.val).map (|·|)).sum :=
  rule_error_rel _ f F (quad5_pert nodes weights f a b) hF h

/-- **Romberg, `r[0][0]`** (the two-point trapezoid rule): `γ₅` -/
theorem romberg00_error (f : Fl M → Fl M) (a b : Fl M) (h : ((5 : Nat) : ℝ) * M.u < 1) :
    |(romberg00 f a b).val - (ruleTerms (romberg00Rule a b) fun x => (f x).val).sum| ≤
      M.γ 5 * ((ruleTerms (romberg00Rule a b) fun x => (f x).val).map (|·|)).sum :=
  (romberg00_pert f a b).error h

/-- **Romberg, one refinement step of the first column** `r[n][0] = r[n-1][0]/2 + hn·Σ f(new nodes)`:
relative to the previous entry and to the *computed* step `ĥn` -/
theorem rombergCol0Next_error (f : Fl M → Fl M) (a b prev : Fl M) (n : Nat)
    (h : ((max 3 (2 ^ (n - 1) + 1) + 1 : Nat) : ℝ) * M.u < 1) :
    |(rombergCol0Next f a b prev n).val -
        (prev.val / 2 + (ruleTerms (rombergNewRule a b n) fun x => (f x).val).sum)| ≤
      M.γ (max 3 (2 ^ (n - 1) + 1) + 1) *
        (|prev.val / 2| + ((ruleTerms (rombergNewRule a b n) fun x => (f x).val).map (|·|)).sum) := by
  have := (rombergCol0Next_pert f a b prev n).error h
  simpa using this

/-! ### C14: Horner's rule and `predict` -/

/-- **Horner's rule, bare model**: `|p̂(v) − p(v)| ≤ γ_{2n+1}·p̃(|v|)`, `n = len − 1` the degree,
`p(v) = Σ aᵢvⁱ` (`Poly.horner` over `ℝ`, see `C14L.horner_eq_sum`), `p̃(|v|) = Σ|aᵢ||v|ⁱ`. -/
theorem horner_error (c : List (Fl M)) (v : Fl M) (hc : c ≠ [])
    (h : ((2 * (c.length - 1) + 1 : Nat) : ℝ) * M.u < 1) :
    |(Poly.horner c v).val - Poly.horner (vals c) v.val| ≤
      M.γ (2 * (c.length - 1) + 1) * Poly.horner ((vals c).map (|·|)) |v.val| := by
  have := (horner_pert_gen 1 c v (fun a _ => horner_first_step a v) hc).error h
  rwa [hornerTerms_sum, hornerTerms_abs, hornerTerms_sum] at this

/-- **Horner's rule, classical constant `γ_{2n}`** (Higham (5.3)): representable coefficients (the
leading step `0·v + aₙ` is then exact). -/
theorem horner_error_classical (c : List (Fl M)) (v : Fl M) (hc : c ≠ []) (hrep : ∀ a ∈ c, a.Rep)
    (h : ((2 * (c.length - 1) : Nat) : ℝ) * M.u < 1) :
    |(Poly.horner c v).val - Poly.horner (vals c) v.val| ≤
      M.γ (2 * (c.length - 1)) * Poly.horner ((vals c).map (|·|)) |v.val| := by
  have := (horner_pert_gen 0 c v (fun a ha => horner_first_step_exact a v (hrep a ha)) hc).error
    (by simpa using h)
  rw [hornerTerms_sum, hornerTerms_abs, hornerTerms_sum] at this
  simpa using this

/-- … in the textbook form `|p̂(v) − Σ aᵢvⁱ| ≤ γ_{2n}·Σ|aᵢ||v|ⁱ` -/
theorem horner_error_sum (c : List (Fl M)) (v : Fl M) (hc : c ≠ []) (hrep : ∀ a ∈ c, a.Rep)
    (h : ((2 * (c.length - 1) : Nat) : ℝ) * M.u < 1) :
    |(Poly.horner c v).val - ∑ i ∈ Finset.range c.length, (vals c).getD i 0 * v.val ^ i| ≤
      M.γ (2 * (c.length - 1)) *
        ∑ i ∈ Finset.range c.length, ((vals c).map (|·|)).getD i 0 * |v.val| ^ i := by
  have := horner_error_classical c v hc hrep h
  rw [C14L.horner_eq_sum, C14L.horner_eq_sum] at this
  simpa [vals] using this

/-- **`PolynomialRegressor::predict`**: every prediction obeys the Horner bound -/
theorem predict_error (c x : List (Fl M)) (hc : c ≠ [])
    (h : ((2 * (c.length - 1) + 1 : Nat) : ℝ) * M.u < 1) (i : Nat) (hi : i < x.length) :
    |((Poly.predict c x)[i]'(by simpa [Poly.predict] using hi)).val - Poly.horner (vals c) (x[i]).val| ≤
      M.γ (2 * (c.length - 1) + 1) * Poly.horner ((vals c).map (|·|)) |(x[i]).val| := by
  simp only [Poly.predict, List.getElem_map]
  exact horner_error c x[i] hc h

/-! ### C13: AR one-step forecast, `difference` -/

/-- **`AR::predict_one`**: `|ŷ − (c + Σ φⱼ(xⱼ−c))| ≤ γ_{p+3}·(|c| + Σ|φⱼ||xⱼ−c|)`, `p` the number of
terms of the recursion (`min` of history length and order) -/
theorem predictOne_error (coeffs : List (Fl M)) (ic : Fl M) (data : List (Fl M))
    (h : ((min data.length coeffs.length + 3 : Nat) : ℝ) * M.u < 1) :
    |(TS.predictOne coeffs ic data).val - (arTerms coeffs ic data).sum| ≤
      M.γ (min data.length coeffs.length + 3) * ((arTerms coeffs ic data).map (|·|)).sum :=
  (predictOne_pert coeffs ic data).error h

/-- the exact forecast in the usual notation -/
theorem arTerms_sum (coeffs : List (Fl M)) (ic : Fl M) (data : List (Fl M)) :
    (arTerms coeffs ic data).sum =
      (List.zipWith (fun d c : Fl M => (d.val - ic.val) * c.val) (arWindow coeffs data)
        (arCoeffs coeffs data)).sum + ic.val := by
  simp [arTerms]

/-- **`difference`**: one rounding per entry -/
theorem difference_error (v : List (Fl M)) (hv : v ≠ []) :
    ∃ d, TS.difference v = some d ∧ d.length = v.length - 1 ∧
      ∀ i (hi : i + 1 < v.length) (hd : i < d.length),
        |(d[i]).val - ((v[i + 1]).val - (v[i]).val)| ≤ M.u * |(v[i + 1]).val - (v[i]).val| := by
  refine ⟨List.zipWith (fun a b => b - a) v v.tail, ?_, ?_, ?_⟩
  · unfold TS.difference
    have : v.isEmpty = false := by cases v <;> simp_all
    simp [this]
  · simp
  · intro i hi hd
    simp only [List.getElem_zipWith, List.getElem_tail]
    obtain ⟨δ, hδ, hr⟩ := M.std ((v[i + 1]).val - (v[i]).val)
    show |M.rnd ((v[i + 1]).val - (v[i]).val) - _| ≤ _
    rw [hr]
    have : ((v[i + 1]).val - (v[i]).val) * (1 + δ) - ((v[i + 1]).val - (v[i]).val) =
        δ * ((v[i + 1]).val - (v[i]).val) := by ring
    rw [this, abs_mul]
    exact mul_le_mul_of_nonneg_right hδ (abs_nonneg _)

/-! ### C16: extrapolation -/

section interp
open Cv.Rounding2

/-- **left extrapolation**: for `t < x₀` the computed `(-slope)·(x₀−t) + y₀` is within
`γ₆·(|slope·(t−x₀)| + |y₀|)` of the line `y₀ + slope·(t − x₀)`, `slope = (y₁−y₀)/(x₁−x₀)` -/
theorem extrapolate_left_error (x y : List (Fl M)) (t : Fl M) (hn : 2 ≤ x.length)
    (ht : t.val < (x[0]!).val) (h : ((6 : Nat) : ℝ) * M.u < 1) :
    ∃ v, interpOne x y ExtrapMode.extrapolate t = some v ∧
      |v.val - (((y[1]!).val - (y[0]!).val) / ((x[1]!).val - (x[0]!).val) * (t.val - (x[0]!).val)
          + (y[0]!).val)| ≤
        M.γ 6 * (|((y[1]!).val - (y[0]!).val) / ((x[1]!).val - (x[0]!).val) * (t.val - (x[0]!).val)|
          + |(y[0]!).val|) := by
  refine ⟨_, interpOne_left x y t hn ht, ?_⟩
  have := (extrapLeftF_pert x[0]! x[1]! y[0]! y[1]! x[0]! y[0]! t).error h
  simpa using this

/-- **right extrapolation**: for `t > x_{n−1}` (and `t ≥ x₀`) -/
theorem extrapolate_right_error (x y : List (Fl M)) (t : Fl M) (hn : 2 ≤ x.length)
    (h0 : (x[0]!).val ≤ t.val) (ht : (x[x.length - 1]!).val < t.val) (h : ((6 : Nat) : ℝ) * M.u < 1) :
    ∃ v, interpOne x y ExtrapMode.extrapolate t = some v ∧
      |v.val - (((y[x.length - 1]!).val - (y[x.length - 2]!).val) /
            ((x[x.length - 1]!).val - (x[x.length - 2]!).val) * (t.val - (x[x.length - 1]!).val)
          + (y[x.length - 1]!).val)| ≤
        M.γ 6 * (|((y[x.length - 1]!).val - (y[x.length - 2]!).val) /
            ((x[x.length - 1]!).val - (x[x.length - 2]!).val) * (t.val - (x[x.length - 1]!).val)|
          + |(y[x.length - 1]!).val|) := by
  refine ⟨_, interpOne_right x y t hn h0 ht, ?_⟩
  have := (extrapRightF_pert x[x.length - 2]! x[x.length - 1]! y[x.length - 2]! y[x.length - 1]!
    x[x.length - 1]! y[x.length - 1]! t).error h
  simpa using this

end interp

/-! ### C17: `logit`, Box–Cox -/

section transc
open Cv.Rounding3

/-- **`logit`** for `0 < p < 1`: `|l̂ − logit p| ≤ uf·|logit p| + (1+uf)·γ₂` — relative in the library
error, absolute (`≈ 2u`) in the two roundings of the odds, which is all that can be said near `p = ½`
where `logit p → 0`. -/
theorem logit_error [ExpLnStd M] [PowStd M] (p : Fl M) (h0 : 0 < p.val) (h1 : p.val < 1)
    (h : ((2 : Nat) : ℝ) * M.u < 1) :
    ∃ v, logit p = some v ∧
      |v.val - Real.log (p.val / (1 - p.val))| ≤
        uF M * |Real.log (p.val / (1 - p.val))| + (1 + uF M) * M.γ 2 := by
  obtain ⟨g, hg, hq⟩ := odds_fac p
  refine ⟨_, logit_unfold p h0.le h1.le, ?_⟩
  have hqpos : 0 < p.val / (1 - p.val) := div_pos h0 (by linarith)
  have hnear : Near ((1 - M.u) ^ 2) (p.val / (1 - p.val)) ((p / (1 - p)).val) := by
    rw [hq]; exact Near.of_fac hqpos.le hg
  rw [fl5_ln_val]
  exact ln_near_error _ hqpos (M.pow_pos' 2) hnear (neg_log_pow_le M 2 h)

/-- **Box–Cox, `λ = 0`**: the relative error of the library logarithm -/
theorem boxcox_zero_error [ExpLnStd M] [PowStd M] (x l : Fl M) (hx : 0 < x.val) (hl : l.val = 0) :
    ∃ v, boxcox x l = some v ∧ |v.val - Real.log x.val| ≤ uF M * |Real.log x.val| := by
  refine ⟨_, boxcox_unfold_zero x l hx hl, ?_⟩
  obtain ⟨η, hη, hln⟩ := ExpLnStd.ln_std (M := M) x.val hx
  rw [fl5_ln_val, hln]
  have : Real.log x.val * (1 + η) - Real.log x.val = η * Real.log x.val := by ring
  rw [this, abs_mul]
  exact mul_le_mul_of_nonneg_right hη (abs_nonneg _)

/-- **Box–Cox, `λ ≠ 0`**: `|b̂ − (x^λ−1)/λ| ≤ γ₂·|(x^λ−1)/λ| + (1+γ₂)·uf·x^λ/|λ|` — the second term
exhibits the cancellation in `x^λ − 1` for `x^λ ≈ 1`. -/
theorem boxcox_error [ExpLnStd M] [PowStd M] (x l : Fl M) (hx : 0 < x.val) (hl : l.val ≠ 0)
    (h : ((2 : Nat) : ℝ) * M.u < 1) :
    ∃ v, boxcox x l = some v ∧
      |v.val - (x.val ^ l.val - 1) / l.val| ≤
        M.γ 2 * |(x.val ^ l.val - 1) / l.val| + (1 + M.γ 2) * (uF M * x.val ^ l.val / |l.val|) := by
  refine ⟨_, boxcox_unfold x l hx hl, ?_⟩
  obtain ⟨ε, g, hε, hg, hv⟩ := boxcox_struct x l hx
  rw [hv]
  set P := x.val ^ l.val with hP
  have hPpos : 0 < P := Real.rpow_pos_of_pos hx _
  have hg1 := hg.abs_sub_one_le h
  have hγ := M.γ_nonneg 2 h
  have hgabs : |g| ≤ 1 + M.γ 2 := by
    have : g = 1 + (g - 1) := by ring
    rw [this]
    exact le_trans (abs_add_le _ _) (by simpa using hg1)
  have e : (P * (1 + ε) - 1) / l.val * g - (P - 1) / l.val =
      (P - 1) / l.val * (g - 1) + P * ε / l.val * g := by ring
  rw [e]
  refine le_trans (abs_add_le _ _) ?_
  rw [abs_mul, abs_mul]
  have t1 : |(P - 1) / l.val| * |g - 1| ≤ |(P - 1) / l.val| * M.γ 2 :=
    mul_le_mul_of_nonneg_left hg1 (abs_nonneg _)
  have t2 : |P * ε / l.val| ≤ uF M * P / |l.val| := by
    rw [abs_div, abs_mul, abs_of_pos hPpos]
    have hlpos : 0 < |l.val| := abs_pos.mpr hl
    rw [div_le_div_iff_of_pos_right hlpos, mul_comm]
    exact mul_le_mul_of_nonneg_right hε hPpos.le
  have t3 : |P * ε / l.val| * |g| ≤ (uF M * P / |l.val|) * (1 + M.γ 2) :=
    mul_le_mul t2 hgabs (abs_nonneg _) (le_trans (abs_nonneg _) t2)
  linarith

/-- the shifted transform is the plain one at the computed sum `x ⊕ α` (so the bounds above apply with
`x ⊕ α` in place of `x`) -/
theorem boxcoxShifted_eq [ExpLnStd M] [PowStd M] (x l a : Fl M) :
    boxcoxShifted x l a = boxcox (x + a) l := rfl

/-! ### C20: the scalar kernels -/

/-- **RBF kernel**: the computed value is within the factor
`c = e^{−γ₉·A}·(1−uf)(1−u)`, `A = (x−y)²/(2ℓ²)`, of `σ²·e^{−A}`:  `c·K ≤ K̂ ≤ K/c`. -/
theorem rbf_near [ExpLnStd M] [PowStd M] (k : Gp.RBF (Fl M)) (x y : Fl M) (hv : 0 ≤ k.var.val)
    (h : ((9 : Nat) : ℝ) * M.u < 1) :
    Near (Real.exp (-(M.γ 9 * rbfArg k x y)) * ((1 - uF M) * (1 - M.u)))
      (rbfExact k x y) (k.fwd x y).val := by
  obtain ⟨g, hg, ha⟩ := rbfArg_fac k x y
  obtain ⟨ε, hε, he⟩ := ExpLnStd.exp_std (M := M) ((-(powi (x - y) 2)) / k.denom).val
  obtain ⟨δ, hδ, hr⟩ := M.std (ExpLnStd.expR (M := M) ((-(powi (x - y) 2)) / k.denom).val * k.var.val)
  set A := rbfArg k x y with hA
  have hA0 : 0 ≤ A := rbfArg_nonneg k x y
  have hτ : |(-A) * (g - 1)| ≤ M.γ 9 * A := by
    rw [abs_mul, abs_neg, abs_of_nonneg hA0, mul_comm]
    exact mul_le_mul_of_nonneg_right (hg.abs_sub_one_le h) hA0
  have n1 : Near (Real.exp (-(M.γ 9 * A))) (Real.exp (-A)) (Real.exp (-A + (-A) * (g - 1))) :=
    Near.exp hτ
  have n2 := Near.mul_right n1 hv
  have n3 : Near ((1 - uF M) * (1 - M.u)) (Real.exp (-A + (-A) * (g - 1)) * k.var.val)
      (Real.exp (-A + (-A) * (g - 1)) * k.var.val * ((1 + ε) * (1 + δ))) :=
    Near.libm_rnd (mul_nonneg (Real.exp_pos _).le hv) hε hδ
  have hc2 : 0 ≤ (1 - uF M) * (1 - M.u) :=
    mul_nonneg (by linarith [ExpLnStd.uf_lt_one (M := M)]) M.one_sub_u_pos.le
  have := Near.trans (Real.exp_pos _).le hc2 n2 n3
  have hval : (k.fwd x y).val = Real.exp (-A + (-A) * (g - 1)) * k.var.val * ((1 + ε) * (1 + δ)) := by
    rw [rbf_unfold]
    show M.rnd (ExpLnStd.expR (M := M) ((-(powi (x - y) 2)) / k.denom).val * k.var.val) = _
    rw [hr, he, ha]
    have : -A * g = -A + -A * (g - 1) := by ring
    rw [this]; ring
  rw [hval]
  exact this

/-- generic passage from multiplicative closeness to a relative error bound -/
theorem near_error {c s t : ℝ} (hc : 0 < c) (hs : 0 ≤ s) (h : Near c s t) :
    |t - s| ≤ (1 / c - 1) * s := Near.abs_sub_le hc hs h

/-- **RBF kernel, relative error**: `|K̂ − K| ≤ (1/c − 1)·K` -/
theorem rbf_error [ExpLnStd M] [PowStd M] (k : Gp.RBF (Fl M)) (x y : Fl M) (hv : 0 ≤ k.var.val)
    (h : ((9 : Nat) : ℝ) * M.u < 1) :
    |(k.fwd x y).val - rbfExact k x y| ≤
      (1 / (Real.exp (-(M.γ 9 * rbfArg k x y)) * ((1 - uF M) * (1 - M.u))) - 1) * rbfExact k x y := by
  refine near_error ?_ ?_ (rbf_near k x y hv h)
  · exact mul_pos (Real.exp_pos _)
      (mul_pos (by linarith [ExpLnStd.uf_lt_one (M := M)]) M.one_sub_u_pos)
  · exact mul_nonneg (Real.exp_pos _).le hv

/-- **RBF kernel, sign**: the computed value is positive (variance `> 0` as the constructor asserts) IN THE
IDEALISED MODEL.  PROVISO: `ExpLnStd` is an idealisation — no IEEE `exp` has relative error `≤ uf` below `−745.13` (underflow) or above `709.78` (overflow); at binary64 the computed value can be exactly `0` there.  The underflow-aware variants are in namespace `Cv.Rounding3U` (class `ExpLnUfl`).  (at binary64, `RBF(σ²=1, ℓ=0.01)(1000, −1000) = 0`; `Rounding3U.rbf_range_ufl`:
`0 ≤ k̂ ≤ σ²(1+u)`.) -/
theorem rbf_pos_stdmodel [ExpLnStd M] [PowStd M] (k : Gp.RBF (Fl M)) (x y : Fl M) (hv : 0 < k.var.val) :
    0 < (k.fwd x y).val := by
  rw [rbf_unfold]
  exact Rounding2.rnd_pos_of_pos (mul_pos (expR_pos_stdmodel _) hv)

/-- **rational-quadratic kernel**: the computed value is within the factor
`c = ((1−u)¹¹)^α·(1−uf)(1−u)` of `σ²·(1 + (x−y)²/(2αℓ²))^{−α}`. -/
theorem rq_near [ExpLnStd M] [PowStd M] (k : Gp.RQ (Fl M)) (x y : Fl M) (hv : 0 ≤ k.var.val)
    (hα : 0 ≤ k.alpha.val) :
    Near (((1 - M.u) ^ 11) ^ k.alpha.val * ((1 - uF M) * (1 - M.u)))
      (rqExact k x y) (k.fwd x y).val := by
  have nb := rqBase_near k x y hα
  set B := ((1 : Fl M) + powi (x - y) 2 / k.denom) with hB
  have hA0 := rqArg_nonneg k x y hα
  have hs : 0 < 1 + rqArg k x y := by linarith
  have hBpos : 0 < B.val := nb.pos (M.pow_pos' 11) hs
  obtain ⟨ε, hε, hp⟩ := PowStd.pow_std (M := M) B.val (-k.alpha).val hBpos
  obtain ⟨δ, hδ, hr⟩ := M.std (PowStd.powR (M := M) B.val (-k.alpha).val * k.var.val)
  have n1 := Near.rpow_neg (M.pow_pos' 11) hs hα nb
  have n2 := Near.mul_right n1 hv
  have n3 : Near ((1 - uF M) * (1 - M.u)) (B.val ^ (-k.alpha.val) * k.var.val)
      (B.val ^ (-k.alpha.val) * k.var.val * ((1 + ε) * (1 + δ))) :=
    Near.libm_rnd (mul_nonneg (Real.rpow_pos_of_pos hBpos _).le hv) hε hδ
  have hc1 : 0 ≤ ((1 - M.u) ^ 11) ^ k.alpha.val := (Real.rpow_pos_of_pos (M.pow_pos' 11) _).le
  have hc2 : 0 ≤ (1 - uF M) * (1 - M.u) :=
    mul_nonneg (by linarith [ExpLnStd.uf_lt_one (M := M)]) M.one_sub_u_pos.le
  have := Near.trans hc1 hc2 n2 n3
  have hval : (k.fwd x y).val = B.val ^ (-k.alpha.val) * k.var.val * ((1 + ε) * (1 + δ)) := by
    rw [rq_unfold]
    show M.rnd (PowStd.powR (M := M) B.val (-k.alpha).val * k.var.val) = _
    rw [hr, hp, Fl.neg_val]; ring
  rw [hval]
  exact this

/-- **rational-quadratic kernel, relative error** -/
theorem rq_error [ExpLnStd M] [PowStd M] (k : Gp.RQ (Fl M)) (x y : Fl M) (hv : 0 ≤ k.var.val)
    (hα : 0 ≤ k.alpha.val) :
    |(k.fwd x y).val - rqExact k x y| ≤
      (1 / (((1 - M.u) ^ 11) ^ k.alpha.val * ((1 - uF M) * (1 - M.u))) - 1) * rqExact k x y := by
  refine near_error ?_ ?_ (rq_near k x y hv hα)
  · exact mul_pos (Real.rpow_pos_of_pos (M.pow_pos' 11) _)
      (mul_pos (by linarith [ExpLnStd.uf_lt_one (M := M)]) M.one_sub_u_pos)
  · have := rqArg_nonneg k x y hα
    exact mul_nonneg (Real.rpow_pos_of_pos (by linarith) _).le hv

/-- **rational-quadratic kernel, sign** (idealised model; with an underflowing `powf` only `0 ≤ k̂`:
`Rounding3U.rq_nonneg_ufl`) -/
theorem rq_pos_stdmodel [ExpLnStd M] [PowStd M] (k : Gp.RQ (Fl M)) (x y : Fl M) (hv : 0 < k.var.val)
    (hα : 0 ≤ k.alpha.val) : 0 < (k.fwd x y).val := by
  have nb := rqBase_near k x y hα
  have hA0 := rqArg_nonneg k x y hα
  have hBpos : 0 < ((1 : Fl M) + powi (x - y) 2 / k.denom).val :=
    nb.pos (M.pow_pos' 11) (by linarith)
  obtain ⟨ε, hε, hp⟩ := PowStd.pow_std (M := M) _ (-k.alpha).val hBpos
  rw [rq_unfold]
  refine Rounding2.rnd_pos_of_pos (mul_pos ?_ hv)
  show 0 < PowStd.powR (M := M) _ (-k.alpha).val
  rw [hp]
  have := (abs_le.mp hε).1
  have := ExpLnStd.uf_lt_one (M := M)
  exact mul_pos (Real.rpow_pos_of_pos hBpos _) (by linarith)

end transc

/-! ### C08: one-pass covariance -/

/-- **`sample_covariance_onepass`** (sums of the data shifted by the first point, `dxᵢ = xᵢ − x₀`,
`dyᵢ = yᵢ − y₀`): with `n` points,
`|ĉ − (Σdxᵢdyᵢ − (Σdxᵢ)(Σdyᵢ)/n)/(n−1)| ≤ (γ_{n+6}·Σ|dxᵢdyᵢ| + γ_{2n+8}·(Σ|dxᵢ|)(Σ|dyᵢ|)/n)/(n−1)`.
The bound is in terms of the *sizes* of the two subtracted quantities, not of their difference: the
cancellation-sensitivity of the textbook formula, mitigated (not removed) by the shift.  At least two points
(`hn2`: `n − 1 ≥ 1`; for `n = 1` the code divides by zero and returns NaN). -/
theorem onepass_error (x0 y0 : Fl M) (xr yr : List (Fl M)) (hxy : xr.length = yr.length)
    (hn2 : 1 ≤ xr.length) (h : ((2 * (xr.length + 1) + 8 : Nat) : ℝ) * M.u < 1) :
    ∃ v, sampleCovarianceOnepass (x0 :: xr) (y0 :: yr) = some v ∧
      |v.val - ((Rounding2.cprods x0.val y0.val (x0 :: xr) (y0 :: yr)).sum
          - ((vals (x0 :: xr)).map (· - x0.val)).sum * ((vals (y0 :: yr)).map (· - y0.val)).sum
            / ((xr.length + 1 : Nat) : ℝ)) / ((xr.length : Nat) : ℝ)| ≤
        (M.γ (xr.length + 1 + 6) * ((Rounding2.cprods x0.val y0.val (x0 :: xr) (y0 :: yr)).map (|·|)).sum
          + M.γ (2 * (xr.length + 1) + 8) *
              ((((vals (x0 :: xr)).map (· - x0.val)).map (|·|)).sum
                * (((vals (y0 :: yr)).map (· - y0.val)).map (|·|)).sum)
            / ((xr.length + 1 : Nat) : ℝ)) / ((xr.length : Nat) : ℝ) := by
  have _ := hn2
  obtain ⟨v, sxy, sx, sy, G, H, hv, p1, p2, p3, hG, hH, hval⟩ := onepass_struct x0 y0 xr yr hxy
  refine ⟨v, hv, ?_⟩
  set T := Rounding2.cprods x0.val y0.val (x0 :: xr) (y0 :: yr) with hT
  set dX := (vals (x0 :: xr)).map (· - x0.val) with hdX
  set dY := (vals (y0 :: yr)).map (· - y0.val) with hdY
  set N : ℝ := ((xr.length + 1 : Nat) : ℝ) with hN
  set m : ℝ := ((xr.length : Nat) : ℝ) with hm
  have hu := M.u_nonneg
  have hN0 : 0 ≤ N := Nat.cast_nonneg _
  have hm0 : 0 ≤ m := Nat.cast_nonneg _
  have hle : ((xr.length + 1 + 6 : Nat) : ℝ) ≤ ((2 * (xr.length + 1) + 8 : Nat) : ℝ) :=
    Nat.cast_le.mpr (by omega)
  have h6 : ((xr.length + 1 + 3 + 3 : Nat) : ℝ) * M.u < 1 :=
    lt_of_le_of_lt (mul_le_mul_of_nonneg_right hle hu) h
  have e1 := (p1.scale hG).error h6
  have p3' := p3.scale (hH.mul hG)
  have h8 : ((xr.length + 1 + 1 + (xr.length + 1 + 1 + (3 + 3)) : Nat) : ℝ) * M.u < 1 := by
    rw [show xr.length + 1 + 1 + (xr.length + 1 + 1 + (3 + 3)) = 2 * (xr.length + 1) + 8 by omega]
    exact h
  have e2 := pert_mul_error p2 p3' h8
  rw [show xr.length + 1 + 1 + (xr.length + 1 + 1 + (3 + 3)) = 2 * (xr.length + 1) + 8 by omega] at e2
  rw [show xr.length + 1 + 3 + 3 = xr.length + 1 + 6 by omega] at e1
  have key : v.val - (T.sum - dX.sum * dY.sum / N) / m =
      ((sxy * G - T.sum) - (sx * (sy * (H * G)) - dX.sum * dY.sum) / N) / m := by
    rw [hval]; ring
  rw [key, abs_div, abs_of_nonneg hm0]
  refine div_le_div_of_nonneg_right ?_ hm0
  refine le_trans (abs_sub _ _) ?_
  rw [abs_div, abs_of_nonneg hN0]
  have : |sx * (sy * (H * G)) - dX.sum * dY.sum| / N ≤
      M.γ (2 * (xr.length + 1) + 8) * ((dX.map (|·|)).sum * (dY.map (|·|)).sum) / N :=
    div_le_div_of_nonneg_right e2 hN0
  linarith

/-- **`sample_covariance_online`, partial result** (`_partial`: the comparison of the computed running
means with the exact ones — a bivariate version of `Rounding2.welfordM2_invariant` — is not done).
With an exactly representable counter (`n < 2⁵³` at `f64`) the computed value is within
`γ_{n+4}·Σ|t̂ₖ|/(n−1)` of `Σ t̂ₖ/(n−1)`, where `t̂ₖ = (xₖ − m̂x_{k−1})·(yₖ − m̂y_k)` are the exact products of
the deviations from the *computed* running means: the accumulation itself is as stable as a plain sum;
what remains is the effect of the errors of the running means on the terms (first order in
`u·max|xᵢ|`, as for Welford's variance, cf. `Rounding2.welford_mean_term_necessary`). -/
theorem online_error_partial (x y : List (Fl M)) (hxy : x.length = y.length) (hn : 2 ≤ x.length)
    (hN : ∀ k : Nat, k ≤ x.length → M.rnd (k : ℝ) = k) (h : ((x.length + 4 : Nat) : ℝ) * M.u < 1) :
    ∃ v, sampleCovarianceOnline x y = some v ∧
      |v.val - (onlineTerms ((0 : Fl M), (0 : Fl M), (0 : Fl M), (0 : Fl M)) (List.zip x y)).sum
          / ((x.length - 1 : Nat) : ℝ)| ≤
        M.γ (x.length + 4) *
          (((onlineTerms ((0 : Fl M), (0 : Fl M), (0 : Fl M), (0 : Fl M)) (List.zip x y)).map (|·|)).sum
            / ((x.length - 1 : Nat) : ℝ)) := by
  obtain ⟨v, hv, hp⟩ := online_pert_partial x y hxy (by omega) hN
  refine ⟨v, hv, ?_⟩
  have := hp.error h
  rwa [sum_map_div, sum_map_abs_div _ _ (Nat.cast_nonneg _)] at this

/-- the exact quantity approximated by the one-pass formula is the co-moment `Σ(xᵢ−x̄)(yᵢ−ȳ)` whatever
the shift (so `onepass_error` bounds the distance to the sample covariance) -/
theorem onepass_exact_eq_comoment (x y : List ℝ) (hxy : x.length = y.length) (hn : x ≠ []) (a b : ℝ) :
    ((List.zip x y).map fun p => (p.1 - a) * (p.2 - b)).sum
        - (x.map (· - a)).sum * (y.map (· - b)).sum / (x.length : ℝ) = C08.comoment x y := by
  have h := Rounding2.shiftedCo_eq x y hxy a b
  unfold Rounding2.shiftedCo at h
  rw [h]
  have hn0 : (x.length : ℝ) ≠ 0 := by
    have : x.length ≠ 0 := by simpa using hn
    exact_mod_cast this
  have sx : (x.map (· - a)).sum = x.length * (C08.mu x - a) := by
    have : (x.map (· - a)).sum = x.sum - x.length * a := by
      clear h hn hxy hn0
      induction x with
      | nil => simp
      | cons t x ih => simp only [List.map_cons, List.sum_cons, List.length_cons, ih]; push_cast; ring
    rw [this]; unfold C08.mu; field_simp
  have sy : (y.map (· - b)).sum = x.length * (C08.mu y - b) := by
    have : (y.map (· - b)).sum = y.sum - y.length * b := by
      clear h hn hxy hn0 sx
      induction y with
      | nil => simp
      | cons t y ih => simp only [List.map_cons, List.sum_cons, List.length_cons, ih]; push_cast; ring
    have hyn : (y.length : ℝ) ≠ 0 := by rw [← hxy]; exact hn0
    rw [this]; unfold C08.mu; rw [hxy]; field_simp
  rw [sx, sy]
  field_simp
  ring

/-! ### explicit and numeric corollaries -/

section transc
open Cv.Rounding3

/-- **RBF kernel, explicit relative error** (no exponential in the constant): for `γ₉·A < 1`,
`|K̂ − K| ≤ (1/((1−γ₉A)(1−uf)(1−u)) − 1)·K ≈ (γ₉·A + uf + u)·K`, `A = (x−y)²/(2ℓ²)`. -/
theorem rbf_error_explicit [ExpLnStd M] [PowStd M] (k : Gp.RBF (Fl M)) (x y : Fl M)
    (hv : 0 ≤ k.var.val) (h : ((9 : Nat) : ℝ) * M.u < 1) (hA : M.γ 9 * rbfArg k x y < 1) :
    |(k.fwd x y).val - rbfExact k x y| ≤
      (1 / ((1 - M.γ 9 * rbfArg k x y) * ((1 - uF M) * (1 - M.u))) - 1) * rbfExact k x y := by
  refine le_trans (rbf_error k x y hv h) (mul_le_mul_of_nonneg_right ?_
    (mul_nonneg (Real.exp_pos _).le hv))
  have hc2 : 0 < (1 - uF M) * (1 - M.u) :=
    mul_pos (by linarith [ExpLnStd.uf_lt_one (M := M)]) M.one_sub_u_pos
  have h1 : 1 - M.γ 9 * rbfArg k x y ≤ Real.exp (-(M.γ 9 * rbfArg k x y)) := by
    have := Real.add_one_le_exp (-(M.γ 9 * rbfArg k x y))
    linarith
  have hpos : 0 < (1 - M.γ 9 * rbfArg k x y) * ((1 - uF M) * (1 - M.u)) :=
    mul_pos (by linarith) hc2
  have := one_div_le_one_div_of_le hpos (mul_le_mul_of_nonneg_right h1 hc2.le)
  linarith

end transc

/-- **`f64` constants** (`u = 2⁻⁵³`): `trapz` with `n ≤ 9996` panels and the sample-based `trapezoid`
with `≤ 9996` samples: `γ ≤ 1.12·10⁻¹²`; `quad5` with the 5-node tables: `γ₁₂ ≤ 1.34·10⁻¹⁵`;
extrapolation: `γ₆ ≤ 6.7·10⁻¹⁶`; Horner of degree `≤ 30`: `γ₆₁ ≤ 6.8·10⁻¹⁵`. -/
theorem f64_constants_note (M : FlModel) (hu : M.u = 1 / 2 ^ 53) :
    (∀ n : Nat, n ≤ 9996 → ((max (n + 4) 8 : Nat) : ℝ) * M.u < 1 ∧ M.γ (max (n + 4) 8) ≤ 1.12e-12) ∧
    (((12 : Nat) : ℝ) * M.u < 1 ∧ M.γ 12 ≤ 1.34e-15) ∧
    (((6 : Nat) : ℝ) * M.u < 1 ∧ M.γ 6 ≤ 6.7e-16) ∧
    (∀ d : Nat, d ≤ 30 → ((2 * d + 1 : Nat) : ℝ) * M.u < 1 ∧ M.γ (2 * d + 1) ≤ 6.8e-15) := by
  refine ⟨fun n hn => f64_instance_note M hu _ (by omega), ?_, ?_, fun d hd => ?_⟩
  · refine ⟨by rw [hu]; norm_num, ?_⟩
    unfold FlModel.γ; rw [hu]; norm_num
  · refine ⟨by rw [hu]; norm_num, ?_⟩
    unfold FlModel.γ; rw [hu]; norm_num
  · have h61 : ((61 : Nat) : ℝ) * M.u < 1 := by rw [hu]; norm_num
    have hle : 2 * d + 1 ≤ 61 := by omega
    refine ⟨lt_of_le_of_lt (mul_le_mul_of_nonneg_right (Nat.cast_le.mpr hle) M.u_nonneg) h61,
      le_trans (M.γ_mono hle h61) ?_⟩
    unfold FlModel.γ; rw [hu]; norm_num

/-- **`trapz` in a standard model with `u = 2⁻⁵³`** (PROVISO: a theorem of the idealised standard model (`fl(x) = x(1+δ)` for EVERY operation, library functions of relative error `≤ uf` for EVERY argument), instantiated at `u = 2⁻⁵³`; it is a statement about IEEE binary64 only where no operation overflows or underflows (for `exp`: arguments in `[−708.39, 709.78]`).): for `n ≤ 9996` the computed value is within `1.12·10⁻¹²·Σ|wᵢ f̂(x̂ᵢ)|` of the
rule's exact weighted sum of the computed integrand values. -/
theorem stdmodel_trapz_note (M : FlModel) (hu : M.u = 1 / 2 ^ 53) (f : Fl M → Fl M) (a b : Fl M) (n : Nat)
    (hn : n ≤ 9996) :
    |(trapz f a b n).val - (ruleTerms (trapzRule a b n) fun x => (f x).val).sum| ≤
      1.12e-12 * ((ruleTerms (trapzRule a b n) fun x => (f x).val).map (|·|)).sum := by
  obtain ⟨hlt, hγ⟩ := (f64_constants_note M hu).1 n hn
  refine le_trans (trapz_error f a b n hlt) (mul_le_mul_of_nonneg_right hγ ?_)
  exact List.sum_nonneg (by intro t ht; obtain ⟨s, _, rfl⟩ := List.mem_map.mp ht; exact abs_nonneg s)


/-! ### the relative error of an extrapolated value is unbounded -/

section interp
open Cv.Rounding2 Cv.Rounding.Examples

/-- **no cancellation-free bound exists for the extrapolation branch**: in the 1 % model the line through
`(0,1)`, `(1,2)` evaluated at `t = −1` is exactly `0`, the computed value is `(1 − 1.01³)·1.01 ≠ 0` — so
no bound of the form `K·u·|exact value|` can hold, whatever `K`; the bound of
`extrapolate_left_error` in terms of `|slope·(t−x₀)| + |y₀|` is the honest one. -/
theorem extrapolate_cancellation :
    ∃ (M : FlModel) (x y : List (Fl M)) (t v : Fl M),
      interpOne x y ExtrapMode.extrapolate t = some v ∧
      ((y[1]!).val - (y[0]!).val) / ((x[1]!).val - (x[0]!).val) * (t.val - (x[0]!).val) + (y[0]!).val = 0 ∧
      v.val ≠ 0 := by
  refine ⟨Minf, [⟨0⟩, ⟨1⟩], [⟨1⟩, ⟨2⟩], ⟨-1⟩, _,
    interpOne_left (M := Minf) [⟨0⟩, ⟨1⟩] [⟨1⟩, ⟨2⟩] ⟨-1⟩ (by simp) (by simp), by norm_num, ?_⟩
  simp only [extrapLeftF, Fl.add_val, Fl.mul_val, Fl.sub_val, Fl.div_val, Fl.neg_val, Minf_rnd]
  simp
  norm_num

end interp

/-! ### Non-vacuity: concrete models and concrete inputs -/

namespace Examples
open Cv.Rounding.Examples

/-- exact except that `3` is rounded to `3.03` (`u = 1/100`); idempotent -/
noncomputable abbrev Mb : FlModel := FlModel.bump 3 (1 / 100) (by norm_num) (by norm_num)
theorem Mb_u : Mb.u = 1 / 100 := rfl
theorem Mb_rnd (x : ℝ) : Mb.rnd x = if x = 3 then 3 * (1 + 1 / 100) else x := rfl

/-! #### C07 -/

/-- the integrand `x ↦ x·x`, one rounding: a `1`-fold relatively accurate evaluation of `t ↦ t·t` -/
noncomputable def sqF : Fl Minf → Fl Minf := fun x => x * x
theorem sqF_rel : ∀ x : Fl Minf, ∃ g, Minf.Fac 1 g ∧ (sqF x).val = (fun t : ℝ => t * t) x.val * g :=
  fun x => mul_fac x x

/-- `trapz_error`, `trapz_error_rel`, `trapz_node_error` on `∫₀¹ x² dx`, `n = 4`, in the 1 % model:
the hypotheses `8·u = 0.08 < 1`, `9·u < 1`, `6·u < 1` hold -/
example : |(trapz sqF ⟨0⟩ ⟨1⟩ 4).val - (ruleTerms (trapzRule (⟨0⟩ : Fl Minf) ⟨1⟩ 4) fun x => (sqF x).val).sum| ≤
    Minf.γ 8 * ((ruleTerms (trapzRule (⟨0⟩ : Fl Minf) ⟨1⟩ 4) fun x => (sqF x).val).map (|·|)).sum := by
  have := trapz_error sqF ⟨0⟩ ⟨1⟩ 4 (by rw [Minf_u]; norm_num)
  simpa using this
example : |(trapz sqF ⟨0⟩ ⟨1⟩ 4).val - (ruleTerms (trapzRule (⟨0⟩ : Fl Minf) ⟨1⟩ 4) fun x => x.val * x.val).sum| ≤
    Minf.γ 9 * ((ruleTerms (trapzRule (⟨0⟩ : Fl Minf) ⟨1⟩ 4) fun x => x.val * x.val).map (|·|)).sum := by
  have := trapz_error_rel sqF (fun t => t * t) 1 ⟨0⟩ ⟨1⟩ 4 sqF_rel (by rw [Minf_u]; norm_num)
  simpa using this
example : |(trapzNode (⟨0⟩ : Fl Minf) ⟨1⟩ 4 3).val - (0 + ((3 : Nat) : ℝ) * ((1 - 0) / ((4 : Nat) : ℝ)))| ≤
    Minf.γ 6 * (|(0 : ℝ)| + |((3 : Nat) : ℝ) * ((1 - 0) / ((4 : Nat) : ℝ))|) :=
  trapz_node_error (⟨0⟩ : Fl Minf) ⟨1⟩ 4 3 (by rw [Minf_u]; norm_num)

/-- … and rounding errors do occur: `r[0][0]` of Romberg for `∫₀¹ x dx` is `½·1.01³`, not `½`; it is within
the proved `γ₅` bound -/
example : (romberg00 (fun x : Fl Minf => x) ⟨0⟩ ⟨1⟩).val = 1 / 2 * (1 + 1 / 100) ^ 3 ∧
    (ruleTerms (romberg00Rule (⟨0⟩ : Fl Minf) ⟨1⟩) fun x => x.val).sum = 1 / 2 ∧
    |(romberg00 (fun x : Fl Minf => x) ⟨0⟩ ⟨1⟩).val
        - (ruleTerms (romberg00Rule (⟨0⟩ : Fl Minf) ⟨1⟩) fun x => x.val).sum| ≤
      Minf.γ 5 * ((ruleTerms (romberg00Rule (⟨0⟩ : Fl Minf) ⟨1⟩) fun x => x.val).map (|·|)).sum := by
  refine ⟨?_, ?_, romberg00_error (fun x : Fl Minf => x) ⟨0⟩ ⟨1⟩ (by rw [Minf_u]; norm_num)⟩
  · simp only [romberg00, two, Fl.add_val, Fl.mul_val, Fl.sub_val, Fl.div_val, Fl.natCast_val, Minf_rnd]
    norm_num
  · simp [ruleTerms, romberg00Rule]

example : |(rombergCol0Next sqF ⟨0⟩ ⟨1⟩ ⟨1 / 2⟩ 2).val -
      ((1 / 2 : ℝ) / 2 + (ruleTerms (rombergNewRule (⟨0⟩ : Fl Minf) ⟨1⟩ 2) fun x => (sqF x).val).sum)| ≤
    Minf.γ 4 * (|(1 / 2 : ℝ) / 2|
      + ((ruleTerms (rombergNewRule (⟨0⟩ : Fl Minf) ⟨1⟩ 2) fun x => (sqF x).val).map (|·|)).sum) := by
  have := rombergCol0Next_error sqF ⟨0⟩ ⟨1⟩ ⟨1 / 2⟩ 2 (by rw [Minf_u]; norm_num)
  simpa using this

noncomputable abbrev sy3 : List (Fl Minf) := [⟨1⟩, ⟨2⟩, ⟨4⟩]
noncomputable abbrev sx3 : List (Fl Minf) := [⟨0⟩, ⟨1⟩, ⟨3⟩]

/-- `trapezoid_error`, `trapezoidDx_error` on three samples: `(2+5)·u = 0.07 < 1`; the exact panel sum on
`x = [0,1,3]` is `3/2 + 6 = 15/2` -/
example : ∃ v, trapezoid sy3 (some sx3) none = some v ∧
    |v.val - (panelTerms (vals sy3) (vals sx3)).sum| ≤
      Minf.γ 7 * ((panelTerms (vals sy3) (vals sx3)).map (|·|)).sum := by
  have := trapezoid_error sy3 sx3 rfl (by rw [Minf_u]; norm_num)
  simpa using this
example : (panelTerms (vals sy3) (vals sx3)).sum = 15 / 2 := by
  simp [panelTerms, pairMeans, pairDiffs, two, vals]
  norm_num
example : ∃ v, trapezoid sy3 none (some ⟨1 / 2⟩) = some v ∧
    |v.val - (panelTermsDx (vals sy3) (1 / 2)).sum| ≤
      Minf.γ 7 * ((panelTermsDx (vals sy3) (1 / 2)).map (|·|)).sum := by
  have := trapezoidDx_error sy3 (⟨1 / 2⟩ : Fl Minf) (by simp) (by rw [Minf_u]; norm_num)
  simpa using this

/-- `quad5_error` / `quad5_error_rel` with a two-node table: `(2+7)·u < 1`, `(1+9)·u < 1` -/
example : |(quad5 [⟨1 / 4⟩, ⟨3 / 4⟩] [⟨1⟩, ⟨1⟩] sqF ⟨0⟩ ⟨1⟩).val
      - (ruleTerms (quad5Rule [⟨1 / 4⟩, ⟨3 / 4⟩] [⟨1⟩, ⟨1⟩] (⟨0⟩ : Fl Minf) ⟨1⟩) fun x => (sqF x).val).sum| ≤
    Minf.γ 9 * ((ruleTerms (quad5Rule [⟨1 / 4⟩, ⟨3 / 4⟩] [⟨1⟩, ⟨1⟩] (⟨0⟩ : Fl Minf) ⟨1⟩)
      fun x => (sqF x).val).map (|·|)).sum := by
  have := quad5_error [⟨1 / 4⟩, ⟨3 / 4⟩] [⟨1⟩, ⟨1⟩] sqF ⟨0⟩ ⟨1⟩ (by rw [Minf_u]; norm_num)
  simpa using this
example : |(quad5 [⟨1 / 4⟩, ⟨3 / 4⟩] [⟨1⟩, ⟨1⟩] sqF ⟨0⟩ ⟨1⟩).val
      - (ruleTerms (quad5Rule [⟨1 / 4⟩, ⟨3 / 4⟩] [⟨1⟩, ⟨1⟩] (⟨0⟩ : Fl Minf) ⟨1⟩) fun x => x.val * x.val).sum| ≤
    Minf.γ 10 * ((ruleTerms (quad5Rule [⟨1 / 4⟩, ⟨3 / 4⟩] [⟨1⟩, ⟨1⟩] (⟨0⟩ : Fl Minf) ⟨1⟩)
      fun x => x.val * x.val).map (|·|)).sum := by
  have := quad5_error_rel [⟨1 / 4⟩, ⟨3 / 4⟩] [⟨1⟩, ⟨1⟩] sqF (fun t => t * t) 1 ⟨0⟩ ⟨1⟩ sqF_rel
    (by rw [Minf_u]; norm_num)
  simpa using this

/-! #### C14 -/

noncomputable abbrev c123 : List (Fl Minf) := [⟨1⟩, ⟨2⟩, ⟨3⟩]

/-- `horner_error` on `1 + 2x + 3x²` at `x = 2` in the 1 % model: `(2·2+1)·u = 0.05 < 1`, the exact value
is `17`, `p̃(|x|) = 17` -/
example : Poly.horner (vals c123) 2 = 17 ∧
    |(Poly.horner c123 ⟨2⟩).val - Poly.horner (vals c123) 2| ≤
      Minf.γ 5 * Poly.horner ((vals c123).map (|·|)) |(2 : ℝ)| := by
  refine ⟨?_, ?_⟩
  · simp [Poly.horner, vals]; norm_num
  · have := horner_error c123 ⟨2⟩ (by simp) (by rw [Minf_u]; norm_num)
    simpa using this

/-- … where the computed value really is off: `((3·1.01)·2·1.01 + 2)·1.01·2·1.01 + 1)·1.01 ≠ 17` -/
example : (Poly.horner c123 ⟨2⟩).val ≠ 17 := by
  simp only [Poly.horner, c123, List.reverse_cons, List.reverse_nil, List.nil_append, List.cons_append,
    List.foldl_cons, List.foldl_nil, Fl.add_val, Fl.mul_val, Fl.zero_val, Minf_rnd]
  norm_num

noncomputable abbrev c124 : List (Fl Mb) := [⟨1⟩, ⟨2⟩, ⟨4⟩]
theorem c124_rep : ∀ a ∈ c124, a.Rep := by
  intro a ha
  simp only [c124, List.mem_cons, List.not_mem_nil, or_false] at ha
  rcases ha with rfl | rfl | rfl <;> simp [Fl.Rep, Mb_rnd]

/-- `horner_error_classical` / `horner_error_sum` (`γ_{2n}`) in the idempotent model: coefficients
representable, `4·u = 0.04 < 1` -/
example : |(Poly.horner c124 ⟨2⟩).val - Poly.horner (vals c124) 2| ≤
    Mb.γ 4 * Poly.horner ((vals c124).map (|·|)) |(2 : ℝ)| := by
  have := horner_error_classical c124 ⟨2⟩ (by simp) c124_rep (by rw [Mb_u]; norm_num)
  simpa using this
example : |(Poly.horner c124 ⟨2⟩).val - ∑ i ∈ Finset.range 3, (vals c124).getD i 0 * (2 : ℝ) ^ i| ≤
    Mb.γ 4 * ∑ i ∈ Finset.range 3, ((vals c124).map (|·|)).getD i 0 * |(2 : ℝ)| ^ i := by
  have := horner_error_sum c124 ⟨2⟩ (by simp) c124_rep (by rw [Mb_u]; norm_num)
  simpa using this

/-- `predict_error` on two inputs -/
example : |((Poly.predict c123 [⟨2⟩, ⟨5⟩])[1]'(by simp [Poly.predict])).val - Poly.horner (vals c123) 5| ≤
    Minf.γ 5 * Poly.horner ((vals c123).map (|·|)) |(5 : ℝ)| := by
  have := predict_error c123 [⟨2⟩, ⟨5⟩] (by simp) (by rw [Minf_u]; norm_num) 1 (by simp)
  simpa using this

/-! #### C13 -/

noncomputable abbrev phi2 : List (Fl Minf) := [⟨1 / 4⟩, ⟨1 / 2⟩]
noncomputable abbrev hist3 : List (Fl Minf) := [⟨1⟩, ⟨2⟩, ⟨3⟩]

/-- `predictOne_error` for an AR(2) with intercept `1` on the history `[1,2,3]`: `(2+3)·u = 0.05 < 1`;
the exact forecast is `1 + ¼·(2−1) + ½·(3−1) = 9/4` -/
example : (arTerms phi2 ⟨1⟩ hist3).sum = 9 / 4 ∧
    |(TS.predictOne phi2 ⟨1⟩ hist3).val - (arTerms phi2 ⟨1⟩ hist3).sum| ≤
      Minf.γ 5 * ((arTerms phi2 ⟨1⟩ hist3).map (|·|)).sum := by
  refine ⟨?_, ?_⟩
  · simp [arTerms, arWindow, arCoeffs]; norm_num
  · have := predictOne_error phi2 ⟨1⟩ hist3 (by rw [Minf_u]; norm_num)
    simpa using this

/-- `difference_error` on `[1,2,3]` -/
example : ∃ d, TS.difference hist3 = some d ∧ d.length = 2 := by
  obtain ⟨d, h1, h2, _⟩ := difference_error hist3 (by simp)
  exact ⟨d, h1, by simpa using h2⟩

/-! #### C16 -/

section interp
open Cv.Rounding2

noncomputable abbrev kx : List (Fl Minf) := [⟨0⟩, ⟨1⟩, ⟨2⟩]
noncomputable abbrev ky : List (Fl Minf) := [⟨0⟩, ⟨10⟩, ⟨25⟩]

/-- `extrapolate_left_error` at `t = −1` (line value `−10`) and `extrapolate_right_error` at `t = 3`
(line value `40`): `6·u = 0.06 < 1` -/
example : ∃ v, interpOne kx ky ExtrapMode.extrapolate (⟨-1⟩ : Fl Minf) = some v ∧
    |v.val - (-10)| ≤ Minf.γ 6 * (10 + 0) := by
  obtain ⟨v, h1, h2⟩ := extrapolate_left_error kx ky (⟨-1⟩ : Fl Minf) (by simp) (by simp)
    (by rw [Minf_u]; norm_num)
  refine ⟨v, h1, ?_⟩
  simp at h2
  rw [sub_neg_eq_add]
  linarith
example : ∃ v, interpOne kx ky ExtrapMode.extrapolate (⟨3⟩ : Fl Minf) = some v ∧
    |v.val - 40| ≤ Minf.γ 6 * (15 + 25) := by
  obtain ⟨v, h1, h2⟩ := extrapolate_right_error kx ky (⟨3⟩ : Fl Minf) (by simp) (by simp) (by simp; norm_num)
    (by rw [Minf_u]; norm_num)
  refine ⟨v, h1, ?_⟩
  simp at h2
  norm_num at h2
  linarith

end interp

/-! #### C17, C20 (correctly rounded libm in the 1 % model) -/

section transc
open Cv.Rounding3

noncomputable local instance : ExpLnStd Minf := ExpLnStd.ofRnd Minf
noncomputable local instance : PowStd Minf := PowStd.ofRnd Minf

/-- `logit_error` at `p = ¼` (`logit p = log(1/3)`), `2·u < 1` -/
example : ∃ v, logit (⟨1 / 4⟩ : Fl Minf) = some v ∧
    |v.val - Real.log ((1 / 4) / (1 - 1 / 4))| ≤
      uF Minf * |Real.log ((1 / 4) / (1 - 1 / 4))| + (1 + uF Minf) * Minf.γ 2 :=
  logit_error (⟨1 / 4⟩ : Fl Minf) (by norm_num) (by norm_num) (by rw [Minf_u]; norm_num)

/-- `boxcox_zero_error` (`λ = 0`) and `boxcox_error` (`λ = 2`, exact value `(2² − 1)/2`) at `x = 2` -/
example : ∃ v, boxcox (⟨2⟩ : Fl Minf) ⟨0⟩ = some v ∧ |v.val - Real.log 2| ≤ uF Minf * |Real.log 2| :=
  boxcox_zero_error (⟨2⟩ : Fl Minf) ⟨0⟩ (by norm_num) rfl
example : ∃ v, boxcox (⟨2⟩ : Fl Minf) ⟨2⟩ = some v ∧
    |v.val - ((2 : ℝ) ^ (2 : ℝ) - 1) / 2| ≤
      Minf.γ 2 * |((2 : ℝ) ^ (2 : ℝ) - 1) / 2| + (1 + Minf.γ 2) * (uF Minf * (2 : ℝ) ^ (2 : ℝ) / |(2 : ℝ)|) :=
  boxcox_error (⟨2⟩ : Fl Minf) ⟨2⟩ (by norm_num) (by norm_num) (by rw [Minf_u]; norm_num)

/-- `rbf_near`, `rbf_error_explicit`, `rbf_pos_stdmodel` for `σ² = 2`, `ℓ = 1`, `x − y = 1` (`A = ½`): `9·u < 1` -/
example : Near (Real.exp (-(Minf.γ 9 * rbfArg (⟨⟨2⟩, ⟨1⟩⟩ : Gp.RBF (Fl Minf)) ⟨1⟩ ⟨0⟩)) * ((1 - uF Minf) * (1 - Minf.u)))
    (rbfExact (⟨⟨2⟩, ⟨1⟩⟩ : Gp.RBF (Fl Minf)) ⟨1⟩ ⟨0⟩) ((⟨⟨2⟩, ⟨1⟩⟩ : Gp.RBF (Fl Minf)).fwd ⟨1⟩ ⟨0⟩).val :=
  rbf_near _ _ _ (by norm_num) (by rw [Minf_u]; norm_num)
example : rbfArg (⟨⟨2⟩, ⟨1⟩⟩ : Gp.RBF (Fl Minf)) ⟨1⟩ ⟨0⟩ = 1 / 2 := by
  simp [rbfArg]
example : 0 < ((⟨⟨2⟩, ⟨1⟩⟩ : Gp.RBF (Fl Minf)).fwd ⟨1⟩ ⟨0⟩).val := rbf_pos_stdmodel _ _ _ (by norm_num)
example : |((⟨⟨2⟩, ⟨1⟩⟩ : Gp.RBF (Fl Minf)).fwd ⟨1⟩ ⟨0⟩).val - rbfExact (⟨⟨2⟩, ⟨1⟩⟩ : Gp.RBF (Fl Minf)) ⟨1⟩ ⟨0⟩| ≤
    (1 / ((1 - Minf.γ 9 * rbfArg (⟨⟨2⟩, ⟨1⟩⟩ : Gp.RBF (Fl Minf)) ⟨1⟩ ⟨0⟩) * ((1 - uF Minf) * (1 - Minf.u))) - 1)
      * rbfExact (⟨⟨2⟩, ⟨1⟩⟩ : Gp.RBF (Fl Minf)) ⟨1⟩ ⟨0⟩ := by
  refine rbf_error_explicit _ _ _ (by norm_num) (by rw [Minf_u]; norm_num) ?_
  have : rbfArg (⟨⟨2⟩, ⟨1⟩⟩ : Gp.RBF (Fl Minf)) ⟨1⟩ ⟨0⟩ = 1 / 2 := by simp [rbfArg]
  rw [this]
  unfold FlModel.γ; rw [Minf_u]; norm_num

/-- `rq_near`, `rq_pos_stdmodel` for `σ² = 2`, `α = 1`, `ℓ = 1` -/
example : Near (((1 - Minf.u) ^ 11) ^ (1 : ℝ) * ((1 - uF Minf) * (1 - Minf.u)))
    (rqExact (⟨⟨2⟩, ⟨1⟩, ⟨1⟩⟩ : Gp.RQ (Fl Minf)) ⟨1⟩ ⟨0⟩)
    ((⟨⟨2⟩, ⟨1⟩, ⟨1⟩⟩ : Gp.RQ (Fl Minf)).fwd ⟨1⟩ ⟨0⟩).val :=
  rq_near (⟨⟨2⟩, ⟨1⟩, ⟨1⟩⟩ : Gp.RQ (Fl Minf)) ⟨1⟩ ⟨0⟩ (by norm_num) (by norm_num)
example : 0 < ((⟨⟨2⟩, ⟨1⟩, ⟨1⟩⟩ : Gp.RQ (Fl Minf)).fwd ⟨1⟩ ⟨0⟩).val :=
  rq_pos_stdmodel (⟨⟨2⟩, ⟨1⟩, ⟨1⟩⟩ : Gp.RQ (Fl Minf)) ⟨1⟩ ⟨0⟩ (by norm_num) (by norm_num)

/-- the `f64` hypotheses on the library functions are satisfiable -/
example : ∃ (M : FlModel) (_ : ExpLnStd M) (_ : PowStd M), M.u = 1 / 2 ^ 53 ∧ uF M = 1 / 2 ^ 52 := by
  let M0 : FlModel := FlModel.inflate (1 / 2 ^ 53) (by norm_num) (by norm_num)
  let E : ExpLnStd M0 :=
    { uf := 1 / 2 ^ 52, uf_nonneg := by norm_num, uf_lt_one := by norm_num,
      expR := Real.exp, lnR := Real.log,
      exp_std := fun x => ⟨0, by norm_num, by simp⟩,
      ln_std := fun x _ => ⟨0, by norm_num, by simp⟩ }
  exact ⟨M0, E, @PowStd.mk M0 E (fun x y => x ^ y)
    (fun x y _ => ⟨0, by simpa using (ExpLnStd.uf_nonneg (M := M0)), by simp⟩), rfl, rfl⟩

end transc

/-! #### C08 -/

/-- `onepass_error` on `x = [1,2,3]`, `y = [2,4,7]` in the 1 % model: `(2·3+8)·u = 0.14 < 1` -/
example : ∃ v, sampleCovarianceOnepass ([⟨1⟩, ⟨2⟩, ⟨3⟩] : List (Fl Minf)) [⟨2⟩, ⟨4⟩, ⟨7⟩] = some v := by
  obtain ⟨v, hv, _⟩ := onepass_error (⟨1⟩ : Fl Minf) ⟨2⟩ [⟨2⟩, ⟨3⟩] [⟨4⟩, ⟨7⟩] rfl (by simp)
    (by rw [Minf_u]; norm_num)
  exact ⟨v, hv⟩

/-- the shifted sums of that example: `Σdxdy = 12`, `Σdx = 3`, `Σdy = 7`, and `12 − 21/3 = 5` is the
co-moment about the means `(2, 13/3)` -/
example : ((List.zip [1, 2, 3] [2, 4, 7]).map fun p : ℝ × ℝ => (p.1 - 1) * (p.2 - 2)).sum
      - (([1, 2, 3] : List ℝ).map (· - 1)).sum * (([2, 4, 7] : List ℝ).map (· - 2)).sum / ((3 : Nat) : ℝ)
    = C08.comoment [1, 2, 3] [2, 4, 7] :=
  onepass_exact_eq_comoment [1, 2, 3] [2, 4, 7] rfl (by simp) 1 2

/-- `online_error_partial` in the idempotent model (`3 ↦ 3.03`) on two points: the counter values
`0, 1, 2` are representable, `(2+4)·u = 0.06 < 1` -/
example : ∃ v, sampleCovarianceOnline ([⟨1⟩, ⟨2⟩] : List (Fl Mb)) [⟨2⟩, ⟨5⟩] = some v := by
  obtain ⟨v, hv, _⟩ := online_error_partial ([⟨1⟩, ⟨2⟩] : List (Fl Mb)) [⟨2⟩, ⟨5⟩] rfl (by simp)
    (by
      intro k hk
      simp only [List.length_cons, List.length_nil] at hk
      have : k = 0 ∨ k = 1 ∨ k = 2 := by omega
      rcases this with rfl | rfl | rfl <;> simp [Mb_rnd])
    (by rw [Mb_u]; norm_num)
  exact ⟨v, hv⟩

end Examples

end Cv.Rounding5
