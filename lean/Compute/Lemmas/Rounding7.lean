import Compute.Lemmas.Rounding6
import Compute.Lemmas.C06Basic
import Compute.Model.Glm
import Mathlib.Algebra.QuadraticDiscriminant
/-
Helpers for `Props/Rounding7.lean` (seventh batch): one Fisher-scoring (IRLS) step of `Model/Glm.lean` as a
perturbed weighted normal system in the standard model of floating-point arithmetic (C06).

* `scoringStep`: the part of `loopBody` between the link functions and the new coefficients
  (`compute_dbeta`, `compute_ddbeta`, the penalty branch, `solve`, `coef - step`); `loopBody_scoringStep`
  (every scalar type) ties it to `loopBody`.
* `workingWeights_fl`, `workingResiduals_fl`, `dbetaCell_pert`, `computeDbeta_fl`, `computeDdbeta_fl`:
  the computed gradient and information matrix;  `solve_backward_W`: the backward error of the Newton solve
  with the route's weight matrix indexed by the row of the system.
-/
set_option linter.unusedSectionVars false
set_option linter.unusedVariables false
set_option linter.unusedSimpArgs false
namespace Cv.Rounding7
open Cv Cv.FlModel Cv.LA Cv.LA.Lu Cv.Rounding Cv.FactorRounding Cv.RoundingLU Cv.Rounding6 Cv.Glm Finset

/-! ### the scoring step, for every scalar type -/

section generic
variable {α : Type} [Add α] [Sub α] [Mul α] [Div α] [Neg α] [Zero α] [One α] [NatCast α]
  [LT α] [DecidableLT α] [BEq α] [Transc α] [GlmScalar α] [Inhabited α]

/-- the Newton/scoring step inside `loopBody`: gradient, information matrix, penalty branch, `solve`,
`coef - step`; returns the solved step and the new coefficients -/
def scoringStep (solve : List α → List α → Option (List α)) (x y w : List α) (alpha : α) (p : Nat)
    (coef mu dmu var : List α) : Option (List α × List α) := do
  let dbeta ← computeDbeta x y mu dmu var w
  let ddbeta ← computeDdbeta x dmu var w
  let gh := penalised alpha p coef dbeta ddbeta
  let s ← solve gh.2 gh.1
  let coef' ← Vops.vbin (· - ·) coef s
  pure (s, coef')

/-- `loopBody` performs exactly this step on the link-function values of the current linear predictor -/
theorem loopBody_scoringStep (solve : List α → List α → Option (List α)) (P : Problem α)
    (st st' : LoopState α) (h : loopBody solve P st = some st') :
    ∃ eta s, linearPredictor P.x st.coef P.n P.p P.offsets = some eta ∧
      st'.mu = invLink P.family eta ∧
      scoringStep solve P.x P.y P.weights P.alpha P.p st.coef (invLink P.family eta)
        (dInvLink P.family eta (invLink P.family eta)) (variance P.family (invLink P.family eta)) =
          some (s, st'.coef) := by
  unfold loopBody at h
  simp only [Option.bind_eq_bind] at h
  rcases he : linearPredictor P.x st.coef P.n P.p P.offsets with _ | eta
  · rw [he] at h; simp at h
  · rw [he, Option.bind_some] at h
    rcases hg : computeDbeta P.x P.y (invLink P.family eta) (dInvLink P.family eta (invLink P.family eta))
        (variance P.family (invLink P.family eta)) P.weights with _ | g
    · rw [hg] at h; simp at h
    · rw [hg, Option.bind_some] at h
      rcases hH : computeDdbeta P.x (dInvLink P.family eta (invLink P.family eta))
          (variance P.family (invLink P.family eta)) P.weights with _ | H
      · rw [hH] at h; simp at h
      · rw [hH, Option.bind_some] at h
        rcases hs : solve (penalised P.alpha P.p st.coef g H).2 (penalised P.alpha P.p st.coef g H).1 with _ | s
        · rw [hs] at h; simp at h
        · rw [hs, Option.bind_some] at h
          rcases hc : Vops.vbin (· - ·) st.coef s with _ | c
          · rw [hc] at h; simp at h
          · rw [hc, Option.bind_some] at h
            rcases hpd : penalizedDeviance P.family P.y (invLink P.family eta) P.alpha c with _ | pd
            · rw [hpd] at h; simp at h
            · rw [hpd, Option.bind_some] at h
              simp only [Option.pure_def, Option.some.injEq] at h
              subst h
              refine ⟨eta, s, rfl, rfl, ?_⟩
              simp only [scoringStep, hg, hH, hs, hc, Option.bind_eq_bind, Option.bind_some,
                Option.pure_def]

end generic

/-! ### the pieces in rounded arithmetic -/

section fl
open Cv.Rounding3 Cv.C06L
variable {M : FlModel} [FlSqrt M]

omit [FlSqrt M] in
theorem workingWeights_fl (dmu var w : List (Fl M)) (n : Nat)
    (hd : dmu.length = n) (hv : var.length = n) (hw : w.length = n) :
    ∃ r, workingWeights dmu var w = some r ∧ r.length = n ∧
      ∀ i, i < n → r[i]! = w[i]! * (dmu[i]! * dmu[i]!) / var[i]! := by
  refine ⟨List.zipWith (· / ·) (List.zipWith (· * ·) w (List.zipWith (· * ·) dmu dmu)) var, ?_, ?_, ?_⟩
  · unfold workingWeights
    rw [vbin_eq _ dmu dmu rfl]
    simp only [Option.bind_eq_bind, Option.bind_some]
    rw [vbin_eq _ w _ (by simp; omega)]
    simp only [Option.bind_some]
    rw [vbin_eq _ _ var (by simp; omega)]
  · simp; omega
  · intro i hi
    rw [getBang_zipWith _ _ _ i (by simp; omega) (by omega),
      getBang_zipWith _ _ _ i (by omega) (by simp; omega),
      getBang_zipWith _ _ _ i (by omega) (by omega)]

omit [FlSqrt M] in
theorem workingResiduals_fl (y mu dmu var w : List (Fl M)) (n : Nat)
    (hy : y.length = n) (hmu : mu.length = n) (hd : dmu.length = n) (hv : var.length = n) (hw : w.length = n) :
    ∃ r, workingResiduals y mu dmu var w = some r ∧ r.length = n ∧
      ∀ i, i < n → r[i]! = w[i]! * (y[i]! - mu[i]!) * (dmu[i]! / var[i]!) := by
  refine ⟨List.zipWith (· * ·) (List.zipWith (· * ·) w (List.zipWith (· - ·) y mu)) (List.zipWith (· / ·) dmu var), ?_, ?_, ?_⟩
  · unfold workingResiduals
    rw [vbin_eq _ y mu (by omega)]
    simp only [Option.bind_eq_bind, Option.bind_some]
    rw [vbin_eq _ w _ (by simp; omega)]
    simp only [Option.bind_some]
    rw [vbin_eq _ dmu var (by omega)]
    simp only [Option.bind_some]
    rw [vbin_eq _ _ _ (by simp; omega)]
  · simp; omega
  · intro i hi
    rw [getBang_zipWith _ _ _ i (by simp; omega) (by simp; omega),
      getBang_zipWith _ _ _ i (by omega) (by simp; omega),
      getBang_zipWith _ _ _ i (by omega) (by omega),
      getBang_zipWith _ _ _ i (by omega) (by omega)]

omit [FlSqrt M] in
/-- the computed working weight is `wᵢ·dμᵢ²/varᵢ` up to three roundings -/
theorem wwt_fac (w d v : Fl M) : ∃ g, M.Fac 3 g ∧ (w * (d * d) / v).val = w.val * (d.val * d.val) / v.val * g := by
  obtain ⟨g1, hg1, h1⟩ := Rounding5.mul_fac d d
  obtain ⟨g2, hg2, h2⟩ := Rounding5.mul_fac w (d * d)
  obtain ⟨g3, hg3, h3⟩ := Rounding5.div_fac (w * (d * d)) v
  refine ⟨g1 * g2 * g3, (hg1.mul hg2).mul hg3, ?_⟩
  rw [h3, h2, h1]; ring

omit [FlSqrt M] in
/-- the computed working residual is `wᵢ(yᵢ−μᵢ)·dμᵢ/varᵢ` up to four roundings -/
theorem wres_fac (w y m d v : Fl M) : ∃ g, M.Fac 4 g ∧
    (w * (y - m) * (d / v)).val = w.val * (y.val - m.val) * (d.val / v.val) * g := by
  obtain ⟨g1, hg1, h1⟩ := Rounding5.sub_fac y m
  obtain ⟨g2, hg2, h2⟩ := Rounding5.mul_fac w (y - m)
  obtain ⟨g3, hg3, h3⟩ := Rounding5.div_fac d v
  obtain ⟨g4, hg4, h4⟩ := Rounding5.mul_fac (w * (y - m)) (d / v)
  refine ⟨g1 * g2 * g3 * g4, ((hg1.mul hg2).mul hg3).mul hg4, ?_⟩
  rw [h4, h2, h1, h3]; ring

omit [FlSqrt M] in
/-- the gradient accumulation `dbeta[j] = 0.; dbeta[j] -= x[i*p+j]*r[i]`: `n + 1` roundings per term -/
theorem dbetaCell_pert (X R : Array (Fl M)) (n p j : Nat) :
    M.Pert (n + 1) (dbetaCell X R n p j).val
      ((List.range n).map fun i => -((X[i * p + j]!).val * (R[i]!).val)) := by
  have hfold : ∀ (L : List Nat) (s : Fl M),
      L.foldl (fun s i => s - X[i * p + j]! * R[i]!) s =
        (L.map fun i => -(X[i * p + j]! * R[i]!)).foldl (· + ·) s := by
    intro L
    induction L with
    | nil => intro s; rfl
    | cons i L ih =>
      intro s
      simp only [List.foldl_cons, List.map_cons]
      rw [ih]
      have : s - X[i * p + j]! * R[i]! = s + -(X[i * p + j]! * R[i]!) := by
        apply Fl.ext
        show M.rnd (s.val - (X[i * p + j]! * R[i]!).val) = M.rnd (s.val + -(X[i * p + j]! * R[i]!).val)
        rw [sub_eq_add_neg]
      rw [this]
  unfold dbetaCell
  rw [hfold]
  have hp := foldl_pert ((List.range n).map fun i => -(X[i * p + j]! * R[i]!)) (0 : Fl M) 0 []
    (Pert.nil 0)
  simp only [Nat.zero_add, List.nil_append, List.length_map, List.length_range] at hp
  have hfac : ∃ gs : List ℝ,
      gs.length = ((List.range n).map fun i => -((X[i * p + j]!).val * (R[i]!).val)).length ∧
      (∀ g ∈ gs, M.Fac 1 g) ∧
      vals ((List.range n).map fun i => -(X[i * p + j]! * R[i]!)) =
        List.zipWith (· * ·) ((List.range n).map fun i => -((X[i * p + j]!).val * (R[i]!).val)) gs := by
    generalize List.range n = L
    induction L with
    | nil => exact ⟨[], by simp, by simp, by simp⟩
    | cons i L ih =>
      obtain ⟨gs, hl, hg, he⟩ := ih
      obtain ⟨g1, hg1, h1⟩ := Rounding5.mul_fac X[i * p + j]! R[i]!
      refine ⟨g1 :: gs, by simpa using hl, ?_, ?_⟩
      · intro g hgm
        rcases List.mem_cons.mp hgm with rfl | hgm
        · exact hg1
        · exact hg g hgm
      · simp only [vals, List.map_cons, List.zipWith_cons_cons, Fl.neg_val] at he ⊢
        rw [he, h1]; congr 1; ring
  obtain ⟨gs, hl, hg, he⟩ := hfac
  rw [he] at hp
  rw [Nat.add_comm]
  exact Pert.comp _ gs _ hl hg hp

omit [FlSqrt M] in
theorem weightedX_length' (x ww : List (Fl M)) (p : Nat) : (weightedX x ww p).length = x.length := by
  simp [weightedX]

omit [FlSqrt M] in
theorem weightedX_get' (x ww : List (Fl M)) (n p i j : Nat) (hx : x.length = n * p) (hi : i < n) (hj : j < p) :
    (weightedX x ww p)[i * p + j]! = x[i * p + j]! * ww[i]! := by
  unfold weightedX
  rw [getBang_rangeMap _ _ _ (by rw [hx]; exact Cv.Mat.idx_lt hi hj), toArray_getBang, toArray_getBang,
    idx_div hj]

theorem computeDbeta_fl (x y mu dmu var w : List (Fl M)) (n p : Nat) (hn : 0 < n) (hx : x.length = n * p)
    (hy : y.length = n) (hmu : mu.length = n) (hd : dmu.length = n) (hv : var.length = n)
    (hw : w.length = n) :
    ∃ r g, workingResiduals y mu dmu var w = some r ∧ r.length = n ∧
      computeDbeta x y mu dmu var w = some g ∧ g.length = p ∧
      ∀ j, j < p → M.Pert (n + 1) (vv g j) ((List.range n).map fun i => -(ev p x i j * vv r i)) := by
  obtain ⟨r, hr, hrl, _⟩ := workingResiduals_fl y mu dmu var w n hy hmu hd hv hw
  refine ⟨r, (List.range p).map fun j => dbetaCell x.toArray r.toArray n p j, hr, hrl, ?_, by simp, ?_⟩
  · simp only [computeDbeta, hy, C05L.isMatrix_of_len hx hn, hr, Option.bind_eq_bind, Option.bind_some,
      Option.pure_def]
  · intro j hj
    have := dbetaCell_pert x.toArray r.toArray n p j
    refine this.congr ?_ ?_
    · unfold vv; rw [← bang_eq_rd, getBang_rangeMap _ _ _ hj]
    · apply List.map_congr_left
      intro i _
      simp only [toArray_getBang, bang_eq_rd, ev, vv]

/-- **`compute_ddbeta`**: `|Ĥ[a,b] − Σᵢ X[i,a]X[i,b]ŵᵢ| ≤ γ_{n+2}·Σᵢ |X[i,a]||X[i,b]||ŵᵢ|`, `ŵ` the computed
working weights (one rounding in `weighted_x`, `n + 1` in the product) -/
theorem computeDdbeta_fl (x dmu var w : List (Fl M)) (n p : Nat) (hn : 0 < n) (hx : x.length = n * p)
    (hd : dmu.length = n) (hv : var.length = n) (hw : w.length = n)
    (hu : ((n + 2 : Nat) : ℝ) * M.u < 1) :
    ∃ ww H, workingWeights dmu var w = some ww ∧ ww.length = n ∧
      computeDdbeta x dmu var w = some H ∧ H.length = p * p ∧
      ∀ a b, a < p → b < p →
        |ev p H a b - ∑ i ∈ range n, ev p x i a * (ev p x i b * vv ww i)| ≤
          M.γ (n + 2) * ∑ i ∈ range n, |ev p x i a| * (|ev p x i b| * |vv ww i|) := by
  obtain ⟨ww, hww, hwl, _⟩ := workingWeights_fl dmu var w n hd hv hw
  have hun := M.u_nonneg
  have hu1 : ((n + 1 : Nat) : ℝ) * M.u < 1 :=
    lt_of_le_of_lt (mul_le_mul_of_nonneg_right (Nat.cast_le.mpr (by omega)) hun) hu
  obtain ⟨H, h1, h2, h3⟩ := matmulTN_error x (weightedX x ww p) n p p hx
    (by rw [weightedX_length', hx]) hn hu1
  refine ⟨ww, H, hww, hwl, ?_, h2, ?_⟩
  · simp only [computeDdbeta, hd, C05L.isMatrix_of_len hx hn, hww, Option.bind_eq_bind, Option.bind_some]
    exact h1
  · intro a b ha hb
    have hWX : ∀ i, i < n → ∃ g, M.Fac 1 g ∧
        ev p (weightedX x ww p) i b = ev p x i b * vv ww i * g := by
      intro i hi
      obtain ⟨g, hg, h⟩ := Rounding5.mul_fac x[i * p + b]! ww[i]!
      refine ⟨g, hg, ?_⟩
      unfold ev vv
      rw [← bang_eq_rd, weightedX_get' x ww n p i b hx hi hb, h, bang_eq_rd, bang_eq_rd]
    have h1u : ((1 : Nat) : ℝ) * M.u < 1 :=
      lt_of_le_of_lt (mul_le_mul_of_nonneg_right (Nat.cast_le.mpr (by omega)) hun) hu
    have hγ1 := M.γ_nonneg 1 h1u
    have hγn := M.γ_nonneg (n + 1) hu1
    have hadd := M.γ_add_le (n + 1) 1 (by rw [show n + 1 + 1 = n + 2 by omega]; exact hu)
    rw [show n + 1 + 1 = n + 2 by omega] at hadd
    have hb3 := h3 a b ha hb
    -- termwise
    have t1 : |∑ i ∈ range n, ev p x i a * ev p (weightedX x ww p) i b
          - ∑ i ∈ range n, ev p x i a * (ev p x i b * vv ww i)| ≤
        M.γ 1 * ∑ i ∈ range n, |ev p x i a| * (|ev p x i b| * |vv ww i|) := by
      rw [← Finset.sum_sub_distrib, Finset.mul_sum]
      refine le_trans (Finset.abs_sum_le_sum_abs _ _) (Finset.sum_le_sum fun i hi => ?_)
      obtain ⟨g, hg, h⟩ := hWX i (Finset.mem_range.mp hi)
      rw [h]
      have : ev p x i a * (ev p x i b * vv ww i * g) - ev p x i a * (ev p x i b * vv ww i) =
          ev p x i a * (ev p x i b * vv ww i) * (g - 1) := by ring
      rw [this, abs_mul, abs_mul, abs_mul, mul_comm]
      exact mul_le_mul_of_nonneg_right (hg.abs_sub_one_le h1u) (by positivity)
    have t2 : ∑ i ∈ range n, |ev p x i a| * |ev p (weightedX x ww p) i b| ≤
        (1 + M.γ 1) * ∑ i ∈ range n, |ev p x i a| * (|ev p x i b| * |vv ww i|) := by
      rw [Finset.mul_sum]
      refine Finset.sum_le_sum fun i hi => ?_
      obtain ⟨g, hg, h⟩ := hWX i (Finset.mem_range.mp hi)
      rw [h, abs_mul, abs_mul]
      have hgabs : |g| ≤ 1 + M.γ 1 := by
        have : g = 1 + (g - 1) := by ring
        rw [this]
        exact le_trans (abs_add_le _ _) (by simpa using hg.abs_sub_one_le h1u)
      have h0 : 0 ≤ |ev p x i a| * (|ev p x i b| * |vv ww i|) := by positivity
      calc |ev p x i a| * (|ev p x i b| * |vv ww i| * |g|)
          = (|ev p x i a| * (|ev p x i b| * |vv ww i|)) * |g| := by ring
        _ ≤ (|ev p x i a| * (|ev p x i b| * |vv ww i|)) * (1 + M.γ 1) :=
            mul_le_mul_of_nonneg_left hgabs h0
        _ = _ := by ring
    set S := ∑ i ∈ range n, |ev p x i a| * (|ev p x i b| * |vv ww i|) with hS
    have hS0 : 0 ≤ S := Finset.sum_nonneg fun i _ => by positivity
    have e : ev p H a b - ∑ i ∈ range n, ev p x i a * (ev p x i b * vv ww i) =
        (ev p H a b - ∑ i ∈ range n, ev p x i a * ev p (weightedX x ww p) i b)
        + (∑ i ∈ range n, ev p x i a * ev p (weightedX x ww p) i b
            - ∑ i ∈ range n, ev p x i a * (ev p x i b * vv ww i)) := by ring
    rw [e]
    refine le_trans (abs_add_le _ _) ?_
    have h4 : M.γ (n + 1) * ∑ i ∈ range n, |ev p x i a| * |ev p (weightedX x ww p) i b| ≤
        M.γ (n + 1) * ((1 + M.γ 1) * S) := mul_le_mul_of_nonneg_left t2 hγn
    have h5 : (M.γ (n + 1) + M.γ 1 + M.γ (n + 1) * M.γ 1) * S ≤ M.γ (n + 2) * S :=
      mul_le_mul_of_nonneg_right hadd hS0
    nlinarith

/-- **backward error of one `solve`**, with the weight matrix of the route indexed by the row of the
system: `(A + ΔA)·x̂ = b`, `|ΔA| ≤ γ_{3n+1}·W` -/
theorem solve_backward_W (a b x : List (Fl M)) (n : Nat) (ha : a.length = n * n) (hn : 2 ≤ n)
    (h : solve a b = some x) (hu : ((3 * n + 1 : Nat) : ℝ) * M.u < 1)
    (hd : route a = some none → ∀ f piv, lu a = some (f, piv) → ∀ k, k < n → ev n f k k ≠ 0) :
    b.length = n ∧ x.length = n ∧ ∃ W ΔA : Nat → Nat → ℝ, SolverWeight n a W ∧
      (∀ r m, r < n → m < n → |ΔA r m| ≤ M.γ (3 * n + 1) * W r m) ∧
      ∀ r, r < n → ∑ m ∈ range n, (ev n a r m + ΔA r m) * (rd x m).val = (rd b r).val := by
  have hun := M.u_nonneg
  have hb : b.length = n := (solve_routes a b x n ha h).1
  refine ⟨hb, ?_⟩
  have hl : a.length = b.length * b.length := by rw [ha, hb]
  unfold solve at h
  simp only [hl, ne_eq, not_true_eq_false, if_false, Option.bind_eq_bind] at h
  rcases hr : route a with _ | l?
  · rw [hr] at h; simp at h
  rw [hr, Option.bind_some] at h
  cases l? with
  | some l =>
    obtain ⟨hc, hsym⟩ := route_some_chol a l n ha hr
    have hs : choleskySolve l b = some x := h
    have hle := cholK_le n hn
    have huK : ((cholK n : Nat) : ℝ) * M.u < 1 :=
      lt_of_le_of_lt (mul_le_mul_of_nonneg_right (Nat.cast_le.mpr hle) hun) hu
    obtain ⟨hxl, ΔA, hΔ, hsolve⟩ := choleskyRoute_backward_error_sharp a l b x n hc hsym hs huK
    refine ⟨hxl, fun i m => ∑ j ∈ range n, |ev n l i j| * |ev n l m j|, ΔA,
      Or.inl ⟨l, hc, hsym, fun _ _ => rfl⟩, fun r m hr' hm => le_trans (hΔ r m hr' hm) ?_, hsolve⟩
    exact mul_le_mul_of_nonneg_right (M.γ_mono hle hu)
      (Finset.sum_nonneg fun k _ => mul_nonneg (abs_nonneg _) (abs_nonneg _))
  | none =>
    simp only [solveWith] at h
    rcases hlu : lu a with _ | fp
    · rw [hlu] at h; simp at h
    obtain ⟨f, piv⟩ := fp
    rw [hlu] at h
    have hs : luSolve f piv b = some x := h
    have hu3 : ((3 * n : Nat) : ℝ) * M.u < 1 :=
      lt_of_le_of_lt (mul_le_mul_of_nonneg_right (Nat.cast_le.mpr (by omega)) hun) hu
    obtain ⟨hxl, hperm, ΔA, hΔ, hsolve⟩ := luRoute_backward_error a f b x piv n ha hb hlu
      (hd hr f piv hlu) hs hu3
    have hpl : piv.length = n := by have := hperm.length_eq; simpa using this
    have hnodup : piv.Nodup := hperm.nodup_iff.mpr List.nodup_range
    have hgetD : ∀ i (hi : i < n), piv.getD i 0 = piv[i]'(by omega) := by
      intro i hi
      simp [List.getD_eq_getElem?_getD, List.getElem?_eq_getElem (show i < piv.length by omega)]
    have hidx : ∀ r, r < n → piv.idxOf r < n ∧ piv.getD (piv.idxOf r) 0 = r := by
      intro r hr'
      have hmem : r ∈ piv := hperm.mem_iff.mpr (List.mem_range.mpr hr')
      have hlt : piv.idxOf r < piv.length := List.idxOf_lt_length_iff.mpr hmem
      refine ⟨by omega, ?_⟩
      rw [List.getD_eq_getElem?_getD, List.getElem?_eq_getElem hlt]
      simp
    refine ⟨hxl, fun r m => ∑ j ∈ range n, |Lv n f (piv.idxOf r) j| * |Uv n f j m|,
      fun r m => ΔA (piv.idxOf r) m, Or.inr ⟨f, piv, hlu, hperm, ?_⟩, ?_, ?_⟩
    · intro i m hi
      simp only [hgetD i hi, hnodup.idxOf_getElem]
    · intro r m hr' hm
      refine le_trans (hΔ _ m (hidx r hr').1 hm) (mul_le_mul_of_nonneg_right (M.γ_mono (by omega) hu) ?_)
      exact Finset.sum_nonneg fun k _ => mul_nonneg (abs_nonneg _) (abs_nonneg _)
    · intro r hr'
      have := hsolve _ (hidx r hr').1
      rw [(hidx r hr').2] at this
      exact this

end fl

/-! ### the penalty branch -/

section penalty
open Cv.Rounding3 Cv.C06L
variable {M : FlModel} [FlSqrt M]

/-- the effective ridge parameter: `α` if the branch `alpha > 0.` is taken, else `0` -/
noncomputable def alphaEff (alpha : Fl M) : ℝ := if 0 < alpha.val then alpha.val else 0

theorem alphaEff_nonneg (alpha : Fl M) : 0 ≤ alphaEff alpha := by
  unfold alphaEff; split <;> linarith

/-- the penalised information matrix, entry by entry -/
theorem penalised_H (alpha : Fl M) (p : Nat) (coef g H : List (Fl M)) (hH : H.length = p * p) :
    (penalised alpha p coef g H).2.length = p * p ∧
    ∀ a b, a < p → b < p → ∃ δ : ℝ, |δ| ≤ M.u ∧
      ev p (penalised alpha p coef g H).2 a b =
        if a = b then (ev p H a a + alphaEff alpha) * (1 + (if 0 < alpha.val then δ else 0))
        else ev p H a b := by
  unfold penalised alphaEff
  by_cases hα : 0 < alpha.val
  · rw [if_pos (show (0 : Fl M) < alpha from hα)]
    refine ⟨by simp [applyDdbetaPenalty, hH], fun a b ha hb => ?_⟩
    have hent : (applyDdbetaPenalty alpha H p)[a * p + b]! =
        if a = b then H[a * p + b]! + alpha else H[a * p + b]! := by
      unfold applyDdbetaPenalty
      rw [getBang_rangeMap _ _ _ (by rw [hH]; exact Cv.Mat.idx_lt ha hb), toArray_getBang, idx_div hb,
        idx_mod hb]
    obtain ⟨δ, hδ, hr⟩ := M.std ((H[a * p + b]!).val + alpha.val)
    refine ⟨δ, hδ, ?_⟩
    simp only [hα, if_true]
    unfold ev
    rw [← bang_eq_rd, hent]
    by_cases hab : a = b
    · subst hab
      simp only [if_true]
      show M.rnd ((H[a * p + a]!).val + alpha.val) = _
      rw [hr, bang_eq_rd]
    · simp only [hab, if_false, bang_eq_rd]
  · rw [if_neg (show ¬ (0 : Fl M) < alpha from hα)]
    refine ⟨hH, fun a b ha hb => ⟨0, by simpa using M.u_nonneg, ?_⟩⟩
    simp only [hα, if_false]
    by_cases hab : a = b
    · subst hab; simp
    · simp [hab]

/-- the penalised gradient, entry by entry -/
theorem penalised_g (alpha : Fl M) (p : Nat) (coef g H : List (Fl M)) :
    (penalised alpha p coef g H).1.length = g.length ∧
    ∀ a, a < g.length → ∃ f1 f2 : ℝ, M.Fac 1 f1 ∧ M.Fac 2 f2 ∧
      vv (penalised alpha p coef g H).1 a =
        if a = 0 then vv g a else vv g a * f1 + alphaEff alpha * vv coef a * f2 := by
  unfold penalised alphaEff
  by_cases hα : 0 < alpha.val
  · rw [if_pos (show (0 : Fl M) < alpha from hα)]
    refine ⟨by simp [applyDbetaPenalty], fun a ha => ?_⟩
    have hent : (applyDbetaPenalty alpha g coef)[a]! =
        if a = 0 then g[a]! else g[a]! + alpha * coef[a]! := by
      unfold applyDbetaPenalty
      rw [getBang_rangeMap _ _ _ ha, toArray_getBang, toArray_getBang]
    obtain ⟨δ1, hδ1, h1⟩ := M.std (alpha.val * (coef[a]!).val)
    obtain ⟨δ2, hδ2, h2⟩ := M.std ((g[a]!).val + M.rnd (alpha.val * (coef[a]!).val))
    refine ⟨1 + δ2, (1 + δ1) * (1 + δ2), Fac.one_add hδ2, (Fac.one_add hδ1).mul (Fac.one_add hδ2), ?_⟩
    simp only [hα, if_true]
    unfold vv
    rw [← bang_eq_rd, hent]
    by_cases ha0 : a = 0
    · simp only [ha0, if_true, bang_eq_rd]
    · simp only [ha0, if_false]
      show M.rnd ((g[a]!).val + M.rnd (alpha.val * (coef[a]!).val)) = _
      rw [h2, h1, bang_eq_rd, bang_eq_rd]; ring
  · rw [if_neg (show ¬ (0 : Fl M) < alpha from hα)]
    refine ⟨rfl, fun a ha => ⟨1, 1, Fac.one.mono (by omega), Fac.one.mono (by omega), ?_⟩⟩
    simp only [hα, if_false]
    split <;> ring

end penalty

/-! ### the link functions with a library `exp` of relative error `≤ uf` -/

section link
open Cv.Rounding3
variable {M : FlModel} [ExpLnStd M]

/-- the inverse link, entry by entry: identity, `logistic`, `exp` -/
noncomputable def invLinkF (f : Family) (η : Fl M) : Fl M :=
  match f with
  | .gaussian => η
  | .bernoulli => logistic η
  | _ => Transc.exp η

theorem invLink_map (f : Family) (eta : List (Fl M)) : invLink f eta = eta.map (invLinkF f) := by
  cases f
  · show eta = eta.map (fun η => η)
    simp
  all_goals simp [invLink, invLinkF, C04.vun_eq, C04.sv_eq, logistic, List.map_map, Function.comp_def]

/-- **accuracy of the computed mean `μ̂ᵢ` at the computed linear predictor `η̂ᵢ`**: exact for the identity
link, relative error `γ₂ + γ^f₁ + γ₂γ^f₁` for the logistic link (`Rounding3.logistic_error`), `uf` for the
log link -/
theorem invLinkF_error (f : Family) (η : Fl M) (h2 : ((2 : Nat) : ℝ) * M.u < 1)
    (hf1 : ((1 : Nat) : ℝ) * uF M < 1) :
    match f with
    | .gaussian => (invLinkF f η).val = η.val
    | .bernoulli => |(invLinkF f η).val - sigma η.val| ≤ (M.γ 2 + γf M 1 + M.γ 2 * γf M 1) * sigma η.val
    | _ => |(invLinkF f η).val - Real.exp η.val| ≤ uF M * Real.exp η.val := by
  have hexp : |(Transc.exp η : Fl M).val - Real.exp η.val| ≤ uF M * Real.exp η.val := by
    obtain ⟨ε, hε, he⟩ := ExpLnStd.exp_std (M := M) η.val
    rw [fl_exp_val, he]
    have : Real.exp η.val * (1 + ε) - Real.exp η.val = ε * Real.exp η.val := by ring
    rw [this, abs_mul, abs_of_pos (Real.exp_pos _)]
    exact mul_le_mul_of_nonneg_right hε (Real.exp_pos _).le
  cases f
  · rfl
  · exact logistic_error η h2 hf1
  all_goals exact hexp

end link

/-! ### C10: Levenberg–Marquardt on models linear in the parameters (exact arithmetic, ℝ)

`J : ℕ → ℕ → ℝ` is the constant `n × p` Jacobian (`J k j`, `k < n`, `j < p`), the model is `f(θ) = J·θ`, the
residual `r(θ) = y − J·θ`.  `A = JᵀJ`, `D = diag(A)` (the scaling `lmBody` uses: `damped[[i,i]] += mu*jtj[[i,i]]`).
The LM step `δ` is characterised by the damped normal equations `(A + λD)·δ = Jᵀr(θ)` (what `luSolveVec (damp p μ
jtj) jtr` returns when the solver is exact: `C10DeepLM.solveExact_of_nonsingular`, `damped_nonsingular`). -/

namespace LM
open Finset

variable (J : ℕ → ℕ → ℝ) (n p : ℕ)

/-- `(J·x)ₖ` -/
def Jv (x : ℕ → ℝ) (k : ℕ) : ℝ := ∑ j ∈ range p, J k j * x j
/-- `A = JᵀJ` -/
def A (i j : ℕ) : ℝ := ∑ k ∈ range n, J k i * J k j
/-- `xᵀAy = (Jx)·(Jy)` -/
def bA (x y : ℕ → ℝ) : ℝ := ∑ k ∈ range n, Jv J p x k * Jv J p y k
/-- `xᵀDy`, `D = diag(JᵀJ)` -/
def bD (x y : ℕ → ℝ) : ℝ := ∑ i ∈ range p, A J n i i * (x i * y i)
/-- the residual sum of squares `‖y − Jθ‖²` -/
def rss (y θ : ℕ → ℝ) : ℝ := ∑ k ∈ range n, (y k - Jv J p θ k) ^ 2
/-- `(Jᵀ(y − Jθ))ᵢ` -/
def grad (y θ : ℕ → ℝ) (i : ℕ) : ℝ := ∑ k ∈ range n, J k i * (y k - Jv J p θ k)

/-- `θ` satisfies the normal equations `JᵀJθ = Jᵀy` -/
def IsLS (y θ : ℕ → ℝ) : Prop := ∀ i, i < p → grad J n p y θ i = 0

/-- `δ` is the LM step at `θ` with damping `λ`: `(A + λ·diag A)·δ = Jᵀ(y − Jθ)` -/
def IsStep (lam : ℝ) (y θ δ : ℕ → ℝ) : Prop :=
  ∀ i, i < p → ∑ j ∈ range p, (A J n i j + (if i = j then lam * A J n i i else 0)) * δ j = grad J n p y θ i

variable {J n p}

theorem Jv_add (x y : ℕ → ℝ) (k : ℕ) : Jv J p (fun j => x j + y j) k = Jv J p x k + Jv J p y k := by
  unfold Jv; rw [← Finset.sum_add_distrib]; exact Finset.sum_congr rfl fun j _ => by ring

theorem Jv_smul (t : ℝ) (x : ℕ → ℝ) (k : ℕ) : Jv J p (fun j => t * x j) k = t * Jv J p x k := by
  unfold Jv; rw [Finset.mul_sum]; exact Finset.sum_congr rfl fun j _ => by ring

/-- `Σᵢ xᵢ·(A·y)ᵢ = (Jx)·(Jy)` -/
theorem sum_A (x y : ℕ → ℝ) :
    ∑ i ∈ range p, x i * ∑ j ∈ range p, A J n i j * y j = bA J n p x y := by
  have h1 : bA J n p x y =
      ∑ k ∈ range n, ∑ i ∈ range p, ∑ j ∈ range p, (J k i * x i) * (J k j * y j) := by
    unfold bA Jv
    exact Finset.sum_congr rfl fun k _ => Finset.sum_mul_sum _ _ _ _
  rw [h1, Finset.sum_comm]
  refine Finset.sum_congr rfl fun i _ => ?_
  rw [Finset.sum_comm, Finset.mul_sum]
  refine Finset.sum_congr rfl fun j _ => ?_
  unfold A
  rw [Finset.sum_mul, Finset.mul_sum]
  exact Finset.sum_congr rfl fun k _ => by ring

theorem bA_comm (x y : ℕ → ℝ) : bA J n p x y = bA J n p y x := by
  unfold bA; exact Finset.sum_congr rfl fun k _ => mul_comm _ _

theorem bA_self_nonneg (x : ℕ → ℝ) : 0 ≤ bA J n p x x := by
  unfold bA; exact Finset.sum_nonneg fun k _ => mul_self_nonneg _

theorem A_diag_nonneg (i : ℕ) : 0 ≤ A J n i i := by
  unfold A; exact Finset.sum_nonneg fun k _ => mul_self_nonneg _

theorem bD_self_nonneg (x : ℕ → ℝ) : 0 ≤ bD J n p x x := by
  unfold bD
  exact Finset.sum_nonneg fun i _ => mul_nonneg (A_diag_nonneg i) (mul_self_nonneg _)

/-- `Σᵢ xᵢ·((A + λD)·δ)ᵢ = xᵀAδ + λ·xᵀDδ` -/
theorem sum_damped (lam : ℝ) (x δ : ℕ → ℝ) :
    ∑ i ∈ range p, x i * ∑ j ∈ range p, (A J n i j + (if i = j then lam * A J n i i else 0)) * δ j =
      bA J n p x δ + lam * bD J n p x δ := by
  have h : ∀ i ∈ range p, x i * ∑ j ∈ range p, (A J n i j + (if i = j then lam * A J n i i else 0)) * δ j =
      x i * (∑ j ∈ range p, A J n i j * δ j) + lam * (A J n i i * (x i * δ i)) := by
    intro i hi
    simp only [add_mul, Finset.sum_add_distrib, mul_add]
    congr 1
    rw [Finset.sum_eq_single i]
    · simp; ring
    · intro j _ hj; simp [Ne.symm hj]
    · intro hni; exact absurd hi hni
  rw [Finset.sum_congr rfl h, Finset.sum_add_distrib, sum_A, ← Finset.mul_sum]
  rfl

/-- `Σᵢ xᵢ·(Jᵀ(y − Jθ))ᵢ = (Jx)·(y − Jθ)` -/
theorem sum_grad (y θ x : ℕ → ℝ) :
    ∑ i ∈ range p, x i * grad J n p y θ i = ∑ k ∈ range n, Jv J p x k * (y k - Jv J p θ k) := by
  unfold grad Jv
  simp only [Finset.mul_sum, Finset.sum_mul]
  rw [Finset.sum_comm]
  exact Finset.sum_congr rfl fun k _ => Finset.sum_congr rfl fun i _ => by ring

/-- the gradient of a linear model is affine: `Jᵀ(y − J(θ+e)) = Jᵀ(y − Jθ) − A·e` -/
theorem grad_add (y θ e : ℕ → ℝ) (i : ℕ) :
    grad J n p y (fun j => θ j + e j) i = grad J n p y θ i - ∑ j ∈ range p, A J n i j * e j := by
  unfold grad A
  simp only [Jv_add]
  have : ∑ j ∈ range p, (∑ k ∈ range n, J k i * J k j) * e j = ∑ k ∈ range n, J k i * Jv J p e k := by
    unfold Jv
    simp only [Finset.sum_mul, Finset.mul_sum]
    rw [Finset.sum_comm]
    exact Finset.sum_congr rfl fun k _ => Finset.sum_congr rfl fun j _ => by ring
  rw [this, ← Finset.sum_sub_distrib]
  exact Finset.sum_congr rfl fun k _ => by ring

/-- **the residual sum of squares after the step**: `‖r(θ+δ)‖² = ‖r(θ)‖² − δᵀAδ − 2λ·δᵀDδ` -/
theorem rss_step (lam : ℝ) (y θ δ : ℕ → ℝ) (h : IsStep J n p lam y θ δ) :
    rss J n p y (fun j => θ j + δ j) =
      rss J n p y θ - bA J n p δ δ - 2 * lam * bD J n p δ δ := by
  have h1 : ∑ i ∈ range p, δ i * grad J n p y θ i = bA J n p δ δ + lam * bD J n p δ δ := by
    rw [← sum_damped]
    exact Finset.sum_congr rfl fun i hi => by rw [h i (Finset.mem_range.mp hi)]
  rw [sum_grad] at h1
  unfold rss
  simp only [Jv_add]
  have : ∑ k ∈ range n, (y k - (Jv J p θ k + Jv J p δ k)) ^ 2 =
      ∑ k ∈ range n, (y k - Jv J p θ k) ^ 2 - 2 * ∑ k ∈ range n, Jv J p δ k * (y k - Jv J p θ k)
        + ∑ k ∈ range n, Jv J p δ k * Jv J p δ k := by
    rw [Finset.mul_sum, ← Finset.sum_sub_distrib, ← Finset.sum_add_distrib]
    exact Finset.sum_congr rfl fun k _ => by ring
  rw [this, h1]
  unfold bA
  ring

/-- with `λ > 0` and no vanishing column, `δᵀ(A+λD)δ = 0` forces `δ = 0` -/
theorem eq_zero_of_form (lam : ℝ) (hl : 0 < lam) (hcol : ∀ i, i < p → 0 < A J n i i) (δ : ℕ → ℝ)
    (h : bA J n p δ δ + lam * bD J n p δ δ ≤ 0) : ∀ i, i < p → δ i = 0 := by
  have h1 := bA_self_nonneg (J := J) (n := n) (p := p) δ
  have h2 := bD_self_nonneg (J := J) (n := n) (p := p) δ
  have h3 : bD J n p δ δ = 0 := by nlinarith
  unfold bD at h3
  intro i hi
  have := (Finset.sum_eq_zero_iff_of_nonneg (fun i _ =>
    mul_nonneg (A_diag_nonneg (J := J) (n := n) i) (mul_self_nonneg (δ i)))).mp h3 i (Finset.mem_range.mpr hi)
  rcases mul_eq_zero.mp this with h0 | h0
  · exact absurd h0 (hcol i hi).ne'
  · exact mul_self_eq_zero.mp h0

/-- Cauchy–Schwarz for the positive semi-definite form `xᵀ(A + λD)y`, `λ ≥ 0` -/
theorem cauchy_schwarz_B (lam : ℝ) (hl : 0 ≤ lam) (x y : ℕ → ℝ) :
    (bA J n p x y + lam * bD J n p x y) ^ 2 ≤
      (bA J n p x x + lam * bD J n p x x) * (bA J n p y y + lam * bD J n p y y) := by
  have hq : ∀ t : ℝ, 0 ≤ (bA J n p y y + lam * bD J n p y y) * (t * t)
      + (2 * (bA J n p x y + lam * bD J n p x y)) * t + (bA J n p x x + lam * bD J n p x x) := by
    intro t
    have hA : bA J n p (fun j => x j + t * y j) (fun j => x j + t * y j) =
        bA J n p x x + (2 * t) * bA J n p x y + (t * t) * bA J n p y y := by
      unfold bA
      simp only [Jv_add (J := J) (p := p) x (fun j => t * y j), Jv_smul]
      simp only [Finset.mul_sum, ← Finset.sum_add_distrib]
      exact Finset.sum_congr rfl fun k _ => by ring
    have hD : bD J n p (fun j => x j + t * y j) (fun j => x j + t * y j) =
        bD J n p x x + (2 * t) * bD J n p x y + (t * t) * bD J n p y y := by
      unfold bD
      simp only [Finset.mul_sum, ← Finset.sum_add_distrib]
      exact Finset.sum_congr rfl fun k _ => by ring
    have e : (bA J n p y y + lam * bD J n p y y) * (t * t)
        + (2 * (bA J n p x y + lam * bD J n p x y)) * t + (bA J n p x x + lam * bD J n p x x) =
        bA J n p (fun j => x j + t * y j) (fun j => x j + t * y j)
          + lam * bD J n p (fun j => x j + t * y j) (fun j => x j + t * y j) := by
      rw [hA, hD]; ring
    rw [e]
    have a1 := bA_self_nonneg (J := J) (n := n) (p := p) (fun j => x j + t * y j)
    have a2 := bD_self_nonneg (J := J) (n := n) (p := p) (fun j => x j + t * y j)
    nlinarith
  have := discrim_le_zero hq
  unfold discrim at this
  nlinarith

theorem bA_add_self (x y : ℕ → ℝ) :
    bA J n p (fun j => x j + y j) (fun j => x j + y j) = bA J n p x x + 2 * bA J n p x y + bA J n p y y := by
  unfold bA
  simp only [Jv_add]
  simp only [Finset.mul_sum, ← Finset.sum_add_distrib]
  exact Finset.sum_congr rfl fun k _ => by ring

/-- the quantities only depend on the first `p` coordinates -/
theorem Jv_congr (x x' : ℕ → ℝ) (h : ∀ j, j < p → x j = x' j) (k : ℕ) : Jv J p x k = Jv J p x' k := by
  unfold Jv
  exact Finset.sum_congr rfl fun j hj => by rw [h j (Finset.mem_range.mp hj)]

end LM

end Cv.Rounding7
