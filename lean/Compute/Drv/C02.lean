import Compute.Drv.Common
import Compute.Model.Scalar
import Compute.Model.Special
import Compute.Model.DistPdf
import Compute.Generated.C02Consts
/-
Driver for C02 (model at `Float`).  Requests (floats as 16 hex digits, integers decimal):
  `pdf   <dist> <params> n x1 … xn`   -> `= y1 … yn`      (continuous distributions)
  `lnpdf <dist> <params> n x1 … xn`   -> `= y1 … yn`
  `cdf   normal mu sigma n x1 … xn`   -> `= y1 … yn`      (a NaN `erf` argument gives `nan` since F56)
  `pmf   <dist> <params> n k1 … kn`   -> `= y1 … yn`      (discrete distributions, `k : i64`)
  `mean  <dist> <params>` | `var <dist> <params>` -> `= y`
  `mvn_pdf k mean[k] cov[k*k] m xs[m*k]` | `mvn_lnpdf …`  -> `= y1 … ym`
  `mvn_mean k mean[k] cov[k*k]` -> `= k m1 … mk`;  `mvn_var k mean[k] cov[k*k]` -> `= nrows ncols c11 … ckk`
`<dist> <params>`: `normal μ σ`, `gamma α β`, `beta α β`, `chi2 dof(nat)`, `t ν`, `pareto α xm`, `gumbel μ β`,
`exponential λ`, `uniform lo hi`, `poisson λ`, `binomial n(nat) p`, `bernoulli p`, `duniform lo(int) hi(int)`.
A constructor that panics gives `! panic`.
-/
open Cv Cv.Dist

/-- The special functions at `Float`: the C09 models, libm `log1p`, and the source constants. -/
def floatFns : Fns Float where
  pi := Float.ofBits C02T.piBits
  gamma := Cv.gammaFn
  lnGamma := Cv.lnGammaFn
  erf := Cv.erfFn
  ln1p := Cv.log1pF
  euler := Float.ofBits C02T.eulerBits

def F := floatFns

structure Obj where
  discrete : Bool
  pdf : Float → Float
  lnpdf : Float → Float
  cdf : Option (Float → Option Float) := none
  pmf : Int → Float := fun _ => 0
  mean : String
  var : String

def showMoment : Moment Float → String
  | .fin x => showFloat x
  | .inf => showFloat (1.0 / 0.0)
  | .nan => "nan"

def cont (pdf : Float → Float) (mean var : String) : Obj :=
  { discrete := false, pdf := pdf, lnpdf := fun x => Float.log (pdf x), mean := mean, var := var }

def disc (pmf : Int → Float) (mean var : String) : Obj :=
  { discrete := true, pdf := fun _ => 0, lnpdf := fun _ => 0, pmf := pmf, mean := mean, var := var }

def guard' (ok : Bool) (o : Obj) : Option Obj := if ok then some o else none

/-- Parser of `<dist> <params>`; inner `none` = the constructor panics. -/
def pObj : P (Option Obj) := do
  let d ← tok
  match d with
  | "normal" => do
    let mu ← pFloat; let s ← pFloat
    pure <| guard' (Normal.valid mu s)
      { cont (Normal.pdf F mu s) (showFloat (Normal.mean mu s)) (showFloat (Normal.var mu s)) with
        lnpdf := Normal.lnPdf F mu s
        cdf := some fun x => some (Normal.cdf F mu s x) }
  | "gamma" => do
    let a ← pFloat; let b ← pFloat
    pure <| guard' (Gamma.valid a b)
      (cont (Gamma.pdf F a b) (showFloat (Gamma.mean a b)) (showFloat (Gamma.var a b)))
  | "beta" => do
    let a ← pFloat; let b ← pFloat
    pure <| guard' (Beta.valid a b)
      (cont (Beta.pdf F a b) (showFloat (Beta.mean a b)) (showFloat (Beta.var a b)))
  | "chi2" => do
    let k ← pNat
    pure <| guard' (ChiSquared.valid k)
      (cont (ChiSquared.pdf F k) (showFloat (ChiSquared.mean k)) (showFloat (ChiSquared.var k)))
  | "t" => do
    let v ← pFloat
    pure <| guard' (T.valid v) (cont (T.pdf F v) (showMoment (T.mean v)) (showMoment (T.var v)))
  | "pareto" => do
    let a ← pFloat; let m ← pFloat
    pure <| guard' (Pareto.valid a m)
      (cont (Pareto.pdf a m) (showMoment (Pareto.mean a m)) (showMoment (Pareto.var a m)))
  | "gumbel" => do
    let mu ← pFloat; let b ← pFloat
    pure <| guard' (Gumbel.valid mu b)
      (cont (Gumbel.pdf mu b) (showFloat (Gumbel.mean F mu b)) (showFloat (Gumbel.var F mu b)))
  | "exponential" => do
    let l ← pFloat
    pure <| guard' (Exponential.valid l)
      (cont (Exponential.pdf l) (showFloat (Exponential.mean l)) (showFloat (Exponential.var l)))
  | "uniform" => do
    let lo ← pFloat; let hi ← pFloat
    pure <| guard' (Uniform.valid lo hi)
      (cont (Uniform.pdf lo hi) (showFloat (Uniform.mean lo hi)) (showFloat (Uniform.var lo hi)))
  | "poisson" => do
    let l ← pFloat
    pure <| guard' (Poisson.valid l)
      (disc (Poisson.pmf F l) (showFloat (Poisson.mean l)) (showFloat (Poisson.var l)))
  | "binomial" => do
    let n ← pNat; let p ← pFloat
    pure <| guard' (Binomial.valid n p)
      (disc (Binomial.pmf F n p) (showFloat (Binomial.mean n p)) (showFloat (Binomial.var n p)))
  | "bernoulli" => do
    let p ← pFloat
    pure <| guard' (Bernoulli.valid p)
      (disc (Bernoulli.pmf p) (showFloat (Bernoulli.mean p)) (showFloat (Bernoulli.var p)))
  | "duniform" => do
    let lo ← pInt; let hi ← pInt
    pure <| guard' (DiscreteUniform.valid lo hi)
      (disc (DiscreteUniform.pmf lo hi) (showFloat (DiscreteUniform.mean (α := Float) lo hi))
        (showFloat (DiscreteUniform.var (α := Float) lo hi)))
  | _ => failure

def chunks (k : Nat) : Nat → List Float → List (List Float)
  | 0, _ => []
  | m + 1, xs => xs.take k :: chunks k m (xs.drop k)

def allSome : List (Option Float) → Option (List Float)
  | [] => some []
  | none :: _ => none
  | some x :: rest => (allSome rest).map (x :: ·)

def c02Step (args : List String) : String :=
  match args with
  | "pdf" :: rest =>
    withArgs (do let o ← pObj; let xs ← pVec; pure (o, xs)) rest fun (o, xs) =>
      match o with
      | none => panicked
      | some o => if o.discrete then badOp else ok (showFloats (xs.map o.pdf))
  | "lnpdf" :: rest =>
    withArgs (do let o ← pObj; let xs ← pVec; pure (o, xs)) rest fun (o, xs) =>
      match o with
      | none => panicked
      | some o => if o.discrete then badOp else ok (showFloats (xs.map o.lnpdf))
  | "cdf" :: rest =>
    withArgs (do let o ← pObj; let xs ← pVec; pure (o, xs)) rest fun (o, xs) =>
      match o with
      | none => panicked
      | some o =>
        match o.cdf with
        | none => badOp
        | some f =>
          match allSome (xs.map f) with
          | none => diverged
          | some ys => ok (showFloats ys)
  | "pmf" :: rest =>
    withArgs (do let o ← pObj; let ks ← pIntVec; pure (o, ks)) rest fun (o, ks) =>
      match o with
      | none => panicked
      | some o => if o.discrete then ok (showFloats (ks.map o.pmf)) else badOp
  | "mean" :: rest =>
    withArgs pObj rest fun o => match o with | none => panicked | some o => ok o.mean
  | "var" :: rest =>
    withArgs pObj rest fun o => match o with | none => panicked | some o => ok o.var
  | "mvn_mean" :: rest | "mvn_var" :: rest =>
    withArgs (do
      let k ← pNat
      let mean ← pMany pFloat k
      let cov ← pMany pFloat (k * k)
      pure (k, mean, cov)) rest fun (k, mean, cov) =>
      match LA.M.new cov k k with
      | none => panicked
      | some c =>
        match MVN.new mean c with
        | none => panicked
        | some d =>
          if args.head? == some "mvn_mean" then ok (showVec (MVN.meanOf d))
          else
            let v := MVN.varOf d
            ok (toString v.nrows ++ " " ++ toString v.ncols ++ " " ++ showFloats v.data)
  | op :: rest =>
    if op == "mvn_pdf" || op == "mvn_lnpdf" then
      withArgs (do
        let k ← pNat
        let mean ← pMany pFloat k
        let cov ← pMany pFloat (k * k)
        let m ← pNat
        let xs ← pMany pFloat (m * k)
        pure (k, mean, cov, m, xs)) rest fun (k, mean, cov, m, xs) =>
        match LA.M.new cov k k with
        | none => panicked
        | some c =>
          match MVN.new mean c with
          | none => panicked
          | some d =>
            let f := if op == "mvn_pdf" then MVN.pdf F d else MVN.lnPdf F d
            match allSome ((chunks k m xs).map f) with
            | none => panicked
            | some ys => ok (showFloats ys)
    else badOp
  | _ => badOp

def main (args : List String) : IO UInt32 := mainWith () (fun _ t => ((), c02Step t)) args
