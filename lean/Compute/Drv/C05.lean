import Compute.Drv.Common
import Compute.Model.Scalar
import Compute.Model.Matmul
import Compute.Model.DotTrait
/-
Driver for C05.  Requests (data = hex floats, lengths explicit so that malformed matrices can be sent):
  tr  nrows len <data>                                  -> = len <data>
  mm  ta tb rowsA rowsB lenA lenB <a> <b>               -> = len <data>
  mb  ta tb rowsA rowsB bsize lenA lenB <a> <b>         -> = len <data>
  xtx k len <x>                                         -> = len <data>
  dmm meth r1 c1 r2 c2 <r1*c1> <r2*c2>                  -> = r c <data>
  dmv meth r1 c1 n <r1*c1> <n>                          -> = len <data>
  dvm meth n r2 c2 <n> <r2*c2>                          -> = len <data>
  dvv meth n1 n2 <n1> <n2>                              -> = <float>
(the Rust executor's lines carry one more token after `meth`: the ownership form.)
-/
open Cv Cv.DotT Cv.C05W

def c05Meth (s : String) : Option Meth :=
  match s with
  | "dot" => some .dot | "t_dot" => some .tDot | "dot_t" => some .dotT | "t_dot_t" => some .tDotT
  | _ => none

def c05Bool : P Bool := do let n ← pNat; if n = 0 then pure false else if n = 1 then pure true else failure

def c05Vec (r : Option (List Float)) : String :=
  match r with
  | none => panicked
  | some d => ok (showVec d)

def c05Mat (r : Option (Mat Float)) : String :=
  match r with
  | none => panicked
  | some m => ok s!"{m.nrows} {m.ncols} {showFloats m.data}"

def c05Step (args : List String) : String :=
  match args with
  | "tr" :: rest =>
    withArgs (do let r ← pNat; let a ← pVec; pure (r, a)) rest fun (r, a) => c05Vec (transpose a r)
  | "mm" :: rest =>
    withArgs (do
      let ta ← c05Bool; let tb ← c05Bool; let ra ← pNat; let rb ← pNat
      let la ← pNat; let lb ← pNat; let a ← pMany pFloat la; let b ← pMany pFloat lb
      pure (ta, tb, ra, rb, a, b)) rest fun (ta, tb, ra, rb, a, b) => c05Vec (matmul a b ra rb ta tb)
  | "mb" :: rest =>
    withArgs (do
      let ta ← c05Bool; let tb ← c05Bool; let ra ← pNat; let rb ← pNat; let bs ← pNat
      let la ← pNat; let lb ← pNat; let a ← pMany pFloat la; let b ← pMany pFloat lb
      pure (ta, tb, ra, rb, bs, a, b)) rest fun (ta, tb, ra, rb, bs, a, b) =>
        c05Vec (matmulBlocked a b ra rb ta tb bs)
  | "xtx" :: rest =>
    withArgs (do let k ← pNat; let x ← pVec; pure (k, x)) rest fun (k, x) => c05Vec (xtx x k)
  | "dmm" :: ms :: rest =>
    match c05Meth ms with
    | none => badOp
    | some meth =>
      withArgs (do
        let r1 ← pNat; let c1 ← pNat; let r2 ← pNat; let c2 ← pNat
        let d1 ← pMany pFloat (r1 * c1); let d2 ← pMany pFloat (r2 * c2)
        pure (r1, c1, r2, c2, d1, d2)) rest fun (r1, c1, r2, c2, d1, d2) =>
        c05Mat (dotMM meth ⟨d1, r1, c1⟩ ⟨d2, r2, c2⟩)
  | "dmv" :: ms :: rest =>
    match c05Meth ms with
    | none => badOp
    | some meth =>
      withArgs (do
        let r1 ← pNat; let c1 ← pNat; let n ← pNat
        let d1 ← pMany pFloat (r1 * c1); let d2 ← pMany pFloat n
        pure (r1, c1, d1, d2)) rest fun (r1, c1, d1, d2) => c05Vec (dotMV meth ⟨d1, r1, c1⟩ d2)
  | "dvm" :: ms :: rest =>
    match c05Meth ms with
    | none => badOp
    | some meth =>
      withArgs (do
        let n ← pNat; let r2 ← pNat; let c2 ← pNat
        let d1 ← pMany pFloat n; let d2 ← pMany pFloat (r2 * c2)
        pure (r2, c2, d1, d2)) rest fun (r2, c2, d1, d2) => c05Vec (dotVM meth d1 ⟨d2, r2, c2⟩)
  | "dvv" :: ms :: rest =>
    match c05Meth ms with
    | none => badOp
    | some meth =>
      withArgs (do
        let n1 ← pNat; let n2 ← pNat
        let d1 ← pMany pFloat n1; let d2 ← pMany pFloat n2
        pure (d1, d2)) rest fun (d1, d2) =>
        match dotVV meth d1 d2 with
        | none => panicked
        | some x => ok (showFloat x)
  | _ => badOp

/-! ### sessions: `ses cmd | cmd | …` — one state per line (buffers, `Matrix` and `Vector` objects in numbered slots).
The Rust side uses the slots to pass *the same object* as both operands, overlapping sub-slices of one buffer, operands
mutated in place between two calls, and operands re-allocated right after a drop; the model just sees values.
  v s len <data> | p s idx x | d s                      raw buffer: set (drop + allocate), poke in place, drop
  M s r c <data> | pM s idx x | dM s ; V s len <data> | pV s idx x | dV s     Matrix / Vector objects
  mm ta tb ra rb sa oa la sb ob lb | mb ta tb ra rb bs sa oa la sb ob lb | xtx k s o l | tr k s o l    (slot offset length)
  dmm meth own sa sb | dmv meth own sM sV | dvm meth own sV sM | dvv meth own sa sb
  dmd meth own sM  (m.meth(&m.data))  | ddm meth own sM  (m.data.meth(&m))
Reply `= r1 | r2 | …`, ri = `ok …` or `panic`. -/

structure C05Ses where
  bufs : List (Nat × List Float) := []
  mats : List (Nat × Mat Float) := []
  vecs : List (Nat × List Float) := []

def c05Set {β : Type} (l : List (Nat × β)) (k : Nat) (v : β) : List (Nat × β) := (k, v) :: l.filter (fun p => p.1 != k)
def c05Del {β : Type} (l : List (Nat × β)) (k : Nat) : List (Nat × β) := l.filter (fun p => p.1 != k)

def c05Slice (st : C05Ses) (s o l : Nat) : Option (List Float) :=
  match st.bufs.lookup s with
  | none => none
  | some b => if o + l ≤ b.length then some ((b.drop o).take l) else none

def c05Run {α : Type} (p : P α) (args : List String) : Option α :=
  match (do let a ← p; pEnd; pure a : P α).run args with
  | some (a, _) => some a
  | none => none

def c05Poke (b : List Float) (i : Nat) (x : Float) : Option (List Float) :=
  if i < b.length then some (b.set i x) else none

/-- One command; `none` = protocol error (unknown slot / malformed). -/
def c05Cmd (st : C05Ses) (args : List String) : Option (C05Ses × String) :=
  match args with
  | "v" :: rest => do
    let (s, d) ← c05Run (do let s ← pNat; let d ← pVec; pure (s, d)) rest
    pure ({ st with bufs := c05Set st.bufs s d }, ok "")
  | "p" :: rest => do
    let (s, i, x) ← c05Run (do let s ← pNat; let i ← pNat; let x ← pFloat; pure (s, i, x)) rest
    let b ← st.bufs.lookup s
    let b' ← c05Poke b i x
    pure ({ st with bufs := c05Set st.bufs s b' }, ok "")
  | "d" :: rest => do
    let s ← c05Run pNat rest
    pure ({ st with bufs := c05Del st.bufs s }, ok "")
  | "M" :: rest => do
    let (s, r, c, d) ← c05Run (do let s ← pNat; let r ← pNat; let c ← pNat; let d ← pMany pFloat (r * c); pure (s, r, c, d)) rest
    pure ({ st with mats := c05Set st.mats s ⟨d, r, c⟩ }, ok "")
  | "pM" :: rest => do
    let (s, i, x) ← c05Run (do let s ← pNat; let i ← pNat; let x ← pFloat; pure (s, i, x)) rest
    let m ← st.mats.lookup s
    let d' ← c05Poke m.data i x
    pure ({ st with mats := c05Set st.mats s ⟨d', m.nrows, m.ncols⟩ }, ok "")
  | "dM" :: rest => do
    let s ← c05Run pNat rest
    pure ({ st with mats := c05Del st.mats s }, ok "")
  | "V" :: rest => do
    let (s, d) ← c05Run (do let s ← pNat; let d ← pVec; pure (s, d)) rest
    pure ({ st with vecs := c05Set st.vecs s d }, ok "")
  | "pV" :: rest => do
    let (s, i, x) ← c05Run (do let s ← pNat; let i ← pNat; let x ← pFloat; pure (s, i, x)) rest
    let b ← st.vecs.lookup s
    let b' ← c05Poke b i x
    pure ({ st with vecs := c05Set st.vecs s b' }, ok "")
  | "dV" :: rest => do
    let s ← c05Run pNat rest
    pure ({ st with vecs := c05Del st.vecs s }, ok "")
  | "mm" :: rest => do
    let (ta, tb, ra, rb, sa, oa, la, sb, ob, lb) ← c05Run (do
      let ta ← c05Bool; let tb ← c05Bool; let ra ← pNat; let rb ← pNat
      let sa ← pNat; let oa ← pNat; let la ← pNat; let sb ← pNat; let ob ← pNat; let lb ← pNat
      pure (ta, tb, ra, rb, sa, oa, la, sb, ob, lb)) rest
    let a ← c05Slice st sa oa la
    let b ← c05Slice st sb ob lb
    pure (st, c05Vec (matmul a b ra rb ta tb))
  | "mb" :: rest => do
    let (ta, tb, ra, rb, bs, sa, oa, la, sb, ob, lb) ← c05Run (do
      let ta ← c05Bool; let tb ← c05Bool; let ra ← pNat; let rb ← pNat; let bs ← pNat
      let sa ← pNat; let oa ← pNat; let la ← pNat; let sb ← pNat; let ob ← pNat; let lb ← pNat
      pure (ta, tb, ra, rb, bs, sa, oa, la, sb, ob, lb)) rest
    let a ← c05Slice st sa oa la
    let b ← c05Slice st sb ob lb
    pure (st, c05Vec (matmulBlocked a b ra rb ta tb bs))
  | "xtx" :: rest => do
    let (k, s, o, l) ← c05Run (do let k ← pNat; let s ← pNat; let o ← pNat; let l ← pNat; pure (k, s, o, l)) rest
    let x ← c05Slice st s o l
    pure (st, c05Vec (xtx x k))
  | "tr" :: rest => do
    let (k, s, o, l) ← c05Run (do let k ← pNat; let s ← pNat; let o ← pNat; let l ← pNat; pure (k, s, o, l)) rest
    let x ← c05Slice st s o l
    pure (st, c05Vec (transpose x k))
  | "dmm" :: ms :: rest => do
    let meth ← c05Meth ms
    let (_, sa, sb) ← c05Run (do let o ← pNat; let a ← pNat; let b ← pNat; pure (o, a, b)) rest
    let a ← st.mats.lookup sa
    let b ← st.mats.lookup sb
    pure (st, c05Mat (dotMM meth a b))
  | "dmv" :: ms :: rest => do
    let meth ← c05Meth ms
    let (_, sa, sb) ← c05Run (do let o ← pNat; let a ← pNat; let b ← pNat; pure (o, a, b)) rest
    let a ← st.mats.lookup sa
    let b ← st.vecs.lookup sb
    pure (st, c05Vec (dotMV meth a b))
  | "dvm" :: ms :: rest => do
    let meth ← c05Meth ms
    let (_, sa, sb) ← c05Run (do let o ← pNat; let a ← pNat; let b ← pNat; pure (o, a, b)) rest
    let a ← st.vecs.lookup sa
    let b ← st.mats.lookup sb
    pure (st, c05Vec (dotVM meth a b))
  | "dvv" :: ms :: rest => do
    let meth ← c05Meth ms
    let (_, sa, sb) ← c05Run (do let o ← pNat; let a ← pNat; let b ← pNat; pure (o, a, b)) rest
    let a ← st.vecs.lookup sa
    let b ← st.vecs.lookup sb
    pure (st, match dotVV meth a b with | none => panicked | some x => ok (showFloat x))
  | "dmd" :: ms :: rest => do
    let meth ← c05Meth ms
    let (_, sa) ← c05Run (do let o ← pNat; let a ← pNat; pure (o, a)) rest
    let a ← st.mats.lookup sa
    pure (st, c05Vec (dotMV meth a a.data))
  | "ddm" :: ms :: rest => do
    let meth ← c05Meth ms
    let (_, sa) ← c05Run (do let o ← pNat; let a ← pNat; pure (o, a)) rest
    let a ← st.mats.lookup sa
    pure (st, c05Vec (dotVM meth a.data a))
  | _ => none

def c05SplitCmds (args : List String) : List (List String) :=
  let (cur, acc) := args.foldl (fun (p : List String × List (List String)) t =>
    if t == "|" then ([], p.1.reverse :: p.2) else (t :: p.1, p.2)) ([], [])
  (cur.reverse :: acc).reverse

def c05Sub (r : String) : String :=
  if r.startsWith "=" then "ok" ++ String.ofList (r.toList.drop 1) else "panic"

def c05Ses (args : List String) : String :=
  let rec go (st : C05Ses) (cmds : List (List String)) (acc : List String) : Option (List String) :=
    match cmds with
    | [] => some acc.reverse
    | c :: cs =>
      match c05Cmd st c with
      | none => none
      | some (st', r) => go st' cs (c05Sub r :: acc)
  match go {} (c05SplitCmds args) [] with
  | none => badOp
  | some rs => ok (" | ".intercalate rs)

def c05StepAll (args : List String) : String :=
  match args with
  | "ses" :: rest => c05Ses rest
  | _ => c05Step args

def main (args : List String) : IO UInt32 := mainWith () (fun _ t => ((), c05StepAll t)) args
