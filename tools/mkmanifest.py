#!/usr/bin/env python3
"""Regenerates /verif/MANIFEST.json from the table below (one entry per claimed property)."""
import json, os
VERIF = os.path.dirname(os.path.dirname(os.path.abspath(__file__)))
ALL = ["C%02d" % i for i in range(1, 21)]

NOTE = ("Trusted: Lean 4.33 kernel (axioms audited per theorem to lie within propext, Classical.choice, Quot.sound; "
        "no sorry/admit/own axioms/native_decide/bv_decide), Mathlib definitions used as specifications, the hand-written "
        "Lean model of the anchored Rust code, the bit-exact correspondence harness (generators, Rust executor, Lean driver, "
        "comparer), Lean's compiled Float arithmetic and glibc libm. Theorems are about exact arithmetic / arbitrary element "
        "types; IEEE rounding is covered by the bit-exact tie plus the exact-rational oracle, not by proof.")

CLAIMED = {
    "C16": dict(
        text=("Kernel-checked theorems over any linearly ordered field, for strictly increasing abscissae and n >= 2: the linear scan returns the unique bracketing index; at a knot the result is exactly that knot's ordinate in every mode; inside the range the result is the value on the line through the two neighbouring knots, hence between their ordinates; left of the first abscissa and right of the last the three modes give panic / the left resp. right fill value / the continuation of the first resp. last segment (the right-hand statements were false before repair F28); the checked variant rejects mismatched lengths and any descending step and otherwise agrees with the unchecked one; one outside target aborts the whole call in panic mode; totality otherwise. Tied bit for bit to the Rust code (knot counts 2..200, spacing ratios to 1e6, targets at knots, midpoints, +-1 ulp around knots and beyond both ends, all modes, both variants); exact-rational oracle (exact at knots and fills, derived forward-error bound inside). Rounding of the interior formula in the standard model: result within gamma_8 max|y| (<= 16u) of the line, exact at every knot (Props/Rounding2); the extrapolation branch is checked by the oracle only."
              " ROUNDING (Props/Rounding5): the extrapolation branch is within gamma_6(|slope (t - x_k)| + |y_k|) of the line, and no bound relative to the exact value exists (kernel-checked example)."),
        design='DESIGN.md §6 C16',
        technique='Lean 4 proof (scan invariant, segment algebra over ordered fields) + bit-exact correspondence + exact-rational oracle'),
    "C17": dict(
        text=("Kernel-checked theorems: binom_coeff's model on 64-bit arithmetic returns exactly C(n,k) for every k <= n with C(n,k) < 2^64 (invariant c = C(n,i), every split division exact, no intermediate overflow, the overflow guard provably never fires while the value fits), with symmetry and Pascal's rule, and any guard/overflow outcome implies C(n,k) >= 2^64; over R: logistic(-x) = 1 - logistic x, 0 < logistic < 1, strictly increasing, logit o logistic = id, logistic o logit = id on (0,1), logit defined exactly on [0,1]; softmax (max-shifted definition of the source): all exponent arguments <= 0, denominator >= 1, entries positive, sum 1, order preserving, = exp x_i / sum exp x_j, shift invariant; Box-Cox = (x^l - 1)/l (ln x at l = 0, the continuous extension) defined iff x > 0, shifted form iff x + shift > 0. Tied bit for bit to the Rust code (all (n,k), n <= 67, and the 64-bit threshold region up to n = 2^64-1 with outcome classes; stratified f32 grids for the transforms) with exact-integer and mpmath oracles; binom_coeff_alt is checked by the oracle only. Float-level claims in the standard model with libm error u_f: every computed softmax entry is > 0 and |sum - 1| <= gamma_(n+1); logistic lies in (0,1] with relative error <= gamma_2 + gamma^f_1. Rounding of logit and Box-Cox is checked, not proved."
              " ROUNDING (Props/Rounding5): logit and Box-Cox error bounds with libm ln/pow of relative error <= u_f."
              " binom_coeff_alt is inside the model and tied bit for bit (no implementation-only request remains); theorems: with the ideal log-gamma it returns C(n,k), and from a stated accuracy of the log-gamma it is exact below an explicit size (1.6e8 for the accuracy C09 enforces); symmetry only for commutative subtraction."),
        design='DESIGN.md §6 C17',
        technique='Lean 4 proof (Nat invariant with explicit u64 range checks, real analysis for logistic/softmax/Box-Cox) + bit-exact correspondence'),
    "C19": dict(
        text=("Kernel-checked theorems for every element type, data list, RNG state and fuel, about the model of resample.rs on top of an exact model of the alea wyrand generator (validated bit for bit, including the generator state after each call): bootstrap returns exactly the requested number of resamples, each of the original length, every element equal to data[i] for a drawn index i < n; jackknife = [d.eraseIdx i | i < n] in order; shuffle returns a permutation of its input; shuffle_two returns a permutation of the zipped input (one common permutation) and rejects unequal lengths; all four return on length-1 input; on non-empty input the only way not to return is Lemire's rejection loop running out of fuel (no index panic); generator range lemmas (f64 in [0,1), u64_less_than < m, i64_in_range in [a,b]); equal likelihood as a counting statement: for each v < m exactly floor(2^64/m) raw 64-bit words are accepted with output v. Not proved: termination of the rejection loop for every state and the statistical quality of wyrand (searched with the DKW band, alpha = 1e-12, on bootstrap index frequencies). Tied bit for bit (lengths 1..2000, 1..200 resamples, 100 / 1e4 seeds, special values); exact multiset/pairing oracle."
              " SOURCE TIE: jackknife is regenerated from resample.rs on every run and proved equal to the model (whose unwrap provably never fires)."),
        design='DESIGN.md §6 C19',
        technique='Lean 4 proof (List.Perm invariants over swap sequences, Lemire counting argument on Nat) + bit-exact correspondence incl. RNG state'),
    "C02": dict(
        text=("Kernel-checked theorems over R about the model of pdf/pmf, ln_pdf, cdf, mean and var of the 13 univariate laws and the multivariate normal, with the special functions as explicit parameters (hypotheses such as exp(lnGamma z) = Gamma z are stated and shown satisfiable): Normal, Gamma, Exponential, ChiSquared (= Gamma(k/2, 1/2)), Beta and Pareto densities equal Mathlib's gaussianPDFReal / gammaPDFReal / exponentialPDFReal / betaPDFReal / paretoPDFReal, whence non-negativity and total mass 1 are transferred; Poisson pmf = e^-l l^k / k! and sums to 1; Binomial pmf = C(n,k) p^k (1-p)^(n-k), 0 for negative and too-large counts, sums to 1 (binomial theorem); Bernoulli and DiscreteUniform: mass 1, first moment = mean(), second central moment = var() by exact finite sums; Uniform, Gumbel (density = derivative of its CDF), T via short specs; every density/mass is 0 outside the support (no panic outcome) and non-negative; the mean/var accessors equal the textbook formulas for all laws (with the infinite/undefined regimes of T and Pareto); Normal ln_pdf = log o pdf and the cdf formula; MVN pdf in terms of the cached inverse and determinant. MOMENTS AND MASSES AS INTEGRALS/SUMS of the density of the model itself (Props/C02Moments): total mass 1, integral of x pdf = mean(), integral of (x-mean)^2 pdf = var() for Exponential, Uniform, Gamma, ChiSquared, Beta, Normal, Pareto (with the infinite regimes: non-integrability exactly when the accessor says inf), Student t (mass 1 for every dof, mean/variance with complete NaN/inf case analysis), Gumbel (mass, CDF, mean = mu + beta gamma_Euler), Poisson and Binomial (sums); Normal cdf = integral of the density given erf = (2/sqrt pi) int_0^x e^(-t^2). PARTIAL: accuracy of Lanczos/erf (C09), the Gumbel variance as an integral, and that the MVN cache is the true inverse/determinant (C01/C11 prove the solver) are not proved; decided by the bit-exact tie (60k values quick) plus mpmath/scipy closed forms at every point and total mass / moments recomputed from the implementation's own values by quadrature or exact sums."),
        design='DESIGN.md §6 C02',
        technique="Lean 4 proof (identification with Mathlib's probability densities, finite-sum algebra) + bit-exact correspondence + mpmath/quadrature search"),
    "C18": dict(
        text=("Kernel-checked theorems over any linearly ordered field, for all 13 univariate distributions modelled as records with their cached sub-samplers and with new / every setter / update transcribed as the exact sequence of assignments (so a panic in mid-update leaves the partial state the code leaves): a constructor succeeds exactly on the documented domain; a setter accepts iff the constructor would accept the resulting parameters, and then yields exactly the fresh object, otherwise panics leaving the object untouched; update succeeds from every reachable state iff the constructor accepts the values (in particular bounds entirely above or below the old interval) and yields the fresh object; by induction over arbitrary histories (valid and invalid values interleaved) every reachable object has in-domain parameters, every cached sub-sampler equals the one a fresh constructor would build, and the whole record equals new(current params) - hence density, mean, variance and the sample stream from any RNG state coincide with the twin's. The tie compares, after every step of generated histories (13 kinds x 100/400 seeds, 1..20 mutations), the panic flag, the whole record, pdf/mean/var at probes and 32 seeded draws against the Lean model token for token, and the oracle demands equality with a freshly constructed Rust twin, also with unrelated objects created and sampled in between. NaN parameters are out of scope (stated)."
              " SOURCE TIE: the validating constructors of ten distributions are regenerated from the Rust text on every run and proved equal to the record model."
              " Every setter, update, integer-parameter constructor and Default impl is regenerated from the Rust text and proved equal to the record model, validation and assignment order included (Props/SrcTieC18Mut)."),
        design='DESIGN.md §6 C18',
        technique='Lean 4 proof (invariant `fresh d = some d` by induction over operation histories, 13 record state machines) + bit-exact stateful correspondence + twin-object oracle'),
    "C20": dict(
        text=("Kernel-checked theorems OVER THE REALS for valid parameters (Props/C20, Props/C20Psd): the constructors accept exactly positive parameters; the scalar "
              "RBF and rational-quadratic kernels are symmetric, equal the output variance at zero distance, are positive, never exceed the variance and are "
              "non-increasing in the distance; the matrix form (as repaired by F50; all four argument kinds, any r x c layout) never panics on non-empty point sets, "
              "has one row per first-argument point and one column per second-argument point and its (i,j) entry is the scalar form at (x_i, y_j) - proved for every "
              "scalar type in which powi(a,2) = a*a (hypothesis hp); Gram matrices are symmetric (for every scalar type with hp and hsq: (a-b)(a-b) = (b-a)(b-a)) "
              "with diagonal = variance; and every Gram matrix is positive semi-definite (Mathlib Matrix.PosSemidef): RBF through the power-series feature map of "
              "exp(xy/l^2), rational quadratic as a Gamma scale mixture of RBF kernels. Every implication has an instantiating example (matrix-form, Gram and PSD "
              "theorems included). UNDERFLOW PROVISO: positive is a statement over the reals; at f64 the value underflows to exactly 0 inside the quantified domain "
              "(RBF var 1, l 0.01: k(1000,-1000) = 0.0; RQ var 1, alpha 100, l 0.01: k(1000,-1000) = 0.0; both are corpus witness lines), so the oracle demands 0 <= "
              "k <= var, and k > 0 only where the exact value is at least 1e-290. ROUNDING, IN THE STANDARD MODEL ONLY (Props/Rounding5, Props/Rounding6: fl(a op b) "
              "= (a op b)(1+d) with |d| <= u, libm exp / pow of relative error at most u_f, no underflow or overflow): the computed scalar values and every "
              "matrix-form entry lie within an explicit two-sided multiplicative bound of the exact formula (RBF: c K <= computed <= K/c with c = e^(-gamma_9 "
              "A)(1-u_f)(1-u), A = (x-y)^2/(2 l^2); RQ: c = ((1-u)^11)^alpha (1-u_f)(1-u)), are positive in that model - that is, absent underflow, roughly |x - y| "
              "below 38 l for RBF; false of f64 beyond it - and, under the explicit extra hypothesis that libm exp is at most 1 on non-positive arguments, at most "
              "var(1+u); hp holds in that model when rounding is idempotent, hsq is not proved for any float model. NOT PROVED at f64 and decided per run instead: "
              "that IEEE doubles and glibc satisfy the standard model, hp and hsq for doubles (the oracle checks matrix entry = scalar forward token for token and "
              "K_ij = K_ji bit for bit), k <= var, k(x,x) = var and monotonicity (exact checks, monotone within 4 ulp), accuracy against mpmath at 120 bits within "
              "400 eps (1 + |exponent|) resp. 400 eps (1 + alpha), and positive semi-definiteness of the rounded Gram matrix (smallest eigenvalue >= -2.5 n max "
              "tolerance with a rigorous eigvalsh margin and an exact rational LDL^T certificate for n <= 10). SOURCE TIE: only the two scalar forward bodies are "
              "regenerated from kernels.rs on every run and proved equal to the model; constructors and matrix forms are hand-modelled on the C04 / C12 / C15 models "
              "and tied by bit-exact differential execution: scalar pairs in +-1e3, 1..60 points as Vector or Matrix, owned or borrowed, parameters in (1e-2, 1e2) "
              "log-uniform mixed with exact special values (alpha 1/2, 1/3, ...), invalid parameters (panic class), and a call-sequence stratum of consecutive calls "
              "on permuted, swapped, duplicated, one-ulp-moved, exchanged and in-place-mutated point sets with RBF and RQ interleaved."),
        design='DESIGN.md §6 C20',
        technique='Lean 4 proof (real analysis for monotonicity, power-series / Gamma-mixture PSD argument, table lemmas over the C04/C12/C15 models) + bit-exact correspondence'),
    "C01": dict(
        text=('Kernel-checked theorems about the executable model of solve / solve_sys / invert_matrix / Matrix::solve / Matrix::inv, over any linearly ordered field (and over R with Real.sqrt): END-TO-END CORRECTNESS in exact arithmetic - whenever `solve a b` answers, A.x = b (Cholesky route: L.L^T = A and two triangular solves; LU route: P.A = L.U for every input and luSolve solves); on every non-singular input of order n >= 1 solve / solve_sys / invert_matrix never panic and return A^-1 b resp. A^-1 (Mathlib Matrix inverse), A.inv = I and inv.A = I; ROUTE INDEPENDENCE: any two valid routes return the same x; routing = Cholesky iff exactly symmetric with positive diagonal and all pivots positive, else LU, and every exactly symmetric positive-definite matrix is routed to Cholesky and factored; multi-RHS column c = single-RHS solve of column c with one route for all; inverse = solve against the identity; Matrix::solve / inv always use LU and are correct; layout conversions are mutually inverse transposes; forward/backward substitution solve T.x = b. ROUNDING (standard model fl(a op b) = (a op b)(1+d), |d| <= 2^-53, the one trusted link to IEEE arithmetic): backward-error bounds (T+dT)x = b, |dT| <= gamma_n|T| for both substitutions and the Cholesky solve for every n. and for the factorisations and `solve` itself (Props/RoundingLU): whatever solve returns satisfies (A+dA)x = b with |dA| <= gamma_(3n)|L||U| (LU route; norm-wise gamma_(3n) n ||U||) resp. gamma_(3n+1)|L||L^T| (Cholesky route), with residual corollaries. Not proved: a bound on the pivoting growth factor, hence the residual in the ||A||-form of the property, which is decided per run by the bit-exact tie on all six entry points (orders 1..32, all matrix classes incl. adversarial-pivot and sparse-SPD classes, 1..6 right-hand sides) plus an exact big-integer residual oracle ||A X - B|| <= 200 n eps (||A|| ||X|| + ||B||), A.A^-1 = I, and route/entry-point agreement.'
              " SOURCE TIE: the substitution, LU and Cholesky routines under every solve route are regenerated from the Rust text on every run and proved equal to the hand model."
              " solve, solve_sys and invert_matrix (routing and per-column loop) are regenerated from utils.rs and proved equal to the model. ROUNDING (Props/Rounding6): norm-wise residual per component, LU route with the growth factor explicit and unbounded, Cholesky route unconditionally."),
        design='DESIGN.md §6 C01',
        technique='Lean 4 proof (loop invariants for LU and Cholesky, P.A = L.U, L.L^T = A, solve correctness and totality via Mathlib Matrix, standard-model rounding bounds) + bit-exact correspondence + exact residual oracle'),
    "C03": dict(
        text=("Kernel-checked theorems: inverse-CDF laws over R for Exponential, Pareto, Gumbel, Uniform (F(sample u) = u or 1-u for every u in (0,1)) and Bernoulli; exact characterisations of the Poisson multiplication method (returns k iff the running product of uniforms first drops to e^-lambda at k) and of binomial inversion (walks C(n,x)p^x q^(n-x), returns the generalised inverse CDF, result <= n, for every n); textbook compositions (ChiSquared = Gamma(k/2, 1/2), Beta = X/(X+Y) in draw order incl. the underflow branch, T formula, MVN = mu + L z via the C05 product theorem, binomial flip, regime routing, Gamma boost below shape 1); support and shape (Pareto >= x_m, Exponential >= 0, Uniform in [a,b], Gamma > 0, counts >= 0, sample_n length and consecutive draws, sample_matrix / MVN shapes); the three 128-entry Ziggurat tables regenerated from the source are exactly consistent (K, Y, W, R relations in rational arithmetic), so editing one entry breaks a proof. SUPPORT of the rejection samplers (Props/C03Support): Poisson draws (multiplication and PTRS) are naturals for every rate, Binomial draws (inversion, BTPE, flip) are naturals <= n for every n and p, Beta in [0,1], Ziggurat accepting branches return mu +- x sigma with real x >= 0. PARTIAL: the laws of the rejection samplers (Ziggurat, Marsaglia-Tsang and hence beta/chi-squared/t, PTRS, BTPE), loop termination and RNG quality are not provable here; they are decided by the bit-exact tie of 2000-draw streams + final RNG state for every distribution x regime x seed and by the property's own DKW criterion (alpha = 1e-12, n = 2e5 quick / 4e6 thorough) against scipy CDFs. Two open findings are listed in known_findings.txt."
              " SOURCE TIE: the sample() bodies of the exponential, Gumbel, Pareto and uniform samplers are regenerated from the Rust text on every run and proved equal to the model as functions of the draw."
              " The Poisson / Binomial routing conditions and the T / Beta compositions are regenerated from the Rust text and proved equal to the model; the DKW summary lines over long sample streams are reproduced byte for byte by the model driver (no implementation-only request remains)."),
        design='DESIGN.md §6 C03',
        technique='Lean 4 proof (inverse-CDF algebra over R, loop characterisations, exact table arithmetic) + bit-exact stream correspondence + DKW search'),
    "C09": dict(
        text=("Kernel-checked theorems about the model of gamma / ln_gamma / beta / digamma / erf with constants regenerated from the source (bits + exact rationals): gamma reflects at most once; the fuelled recursions equal their closed forms; digamma unfolds exactly ceil(6-x) times so psi(x+1) = psi(x) + 1/x holds by construction for x < 6, with series coefficients B_2k/(2k); beta is symmetric for any commutative * and +; erf is odd (x != 0), 0 <= erf x <= 1 for x >= 0 over R with the actual doubles, erf(0) = 18014399/2^54; the Lanczos sum is positive, ln_gamma = log(gamma) on z >= 1/2, the split power equals the legacy single power exactly while the latter overflows from z = 143; the reflection formula is exact and its divisor overflows below -171 (formal core of the open finding). PARTIAL by nature: the accuracy bounds 1e-13 / 1e-12 / 1e-10 / 1.5e-7 are approximation-theoretic and libm-dependent, not provable with what is installed; they are decided by the bit-exact tie (463k requests quick, 8.1M values thorough) plus a stratified search against mpmath at 50 digits with the property's own tolerances (pole-scaled for negative arguments) and the identities Gamma(x+1) = x Gamma(x), Gamma(n+1) = n!, psi(n) = H(n-1) - gamma."),
        design='DESIGN.md §6 C09',
        technique='Lean 4 proof (structure/recurrence/sign/positivity over ordered fields and R, exact table decoding) + bit-exact correspondence + mpmath-50 search'),
    "C10": dict(
        text=('Kernel-checked refinement theorems: for every gradient oracle, start, hyper-parameters and budget k < 2^31 the model of Adam returns iterate min(k, stopIdx) of the Kingma-Ba recurrence (bias correction with t from 1), and SGD (plain, momentum, Nesterov with the gradient at theta - mu u) likewise; prefix property and determinism; an early stop implies every parameter moved by less than eps relative (signed test); Levenberg-Marquardt (exact solve, ordered field): predicted reduction >= 0, an accepted step strictly decreases the residual sum of squares, rss(theta_t) <= rss(theta_0) for every budget, the stored J^T J / residual belong to the current parameters and the result is (theta, rss/(n-p) (J^T J)^-1) at the returned point; the model of the `reverse` tape returns the Frechet derivative of the objective for EVERY node kind of the catalogue (+ - x / neg powi exp sin) except `f64 / Var` nodes, for which the wrong weight of the dependency -1/x is itself a theorem (the open finding); hence Adam/SGD follow the published rule with the TRUE gradient; LM descent holds unconditionally for tau > 0 and no vanishing Jacobian column (damped normal matrix positive definite, LU solve exact). LM convergence and rounding are not proved. Tied to the Rust code by bit-exact replay of whole trajectories (maxsteps = 1..K) through an RPN objective catalogue interpreted with real reverse::Var on one side and the tape model on the other; interval-arithmetic recurrence oracle. One open finding (dependency `reverse`: f64 / Var derivative weight) is listed in known_findings.txt.'
              " SOURCE TIE: the five Adam and two SGD per-coordinate update formulas are regenerated from adam.rs / sgd.rs on every run and proved equal to the model step."
              " LM on models linear in the parameters (Props/Rounding7, Rounding8, exact arithmetic): fixed points are the least-squares solutions, every step is accepted and strictly descends, the damping stays below max(mu_0, 2), the iterates of the model loop converge geometrically unless a stop test fires, and a stop by eps1 / eps2 bounds the gradient."),
        design='DESIGN.md §6 C10',
        technique='Lean 4 proof (loop-to-iterate refinement, LM descent invariant, chain rule over commutative rings) + bit-exact trajectory correspondence'),
    "C11": dict(
        text=("Kernel-checked theorems about the models of lu / cholesky / substitutions / det (slice level and Matrix level): CHOLESKY - whenever cholesky returns l it is lower triangular with positive diagonal and L.L^T = A; every exactly symmetric positive-definite matrix is factored (completeness, uniqueness of the factor); the sweep rejects exactly at a diagonal cell whose pivot is <= 0 and non-symmetric input panics; LU - for EVERY square input over an ordered field the pivot vector is a permutation, P.A = L.U (with the exact residual identity and the necessary-and-sufficient condition over general fields), every multiplier satisfies |l_ij| <= 1 and is 0 under a zero pivot; prod diag U = det(P.A), pivots all non-zero iff det != 0; DETERMINANT - ipiv_parity returns Mathlib's Equiv.Perm.sign of the pivot permutation for every size (never diverges, panics exactly on non-permutations), so det = sign . prod diag U; Matrix-level lu, lu_solve, cholesky, substitutions equal the slice-level ones; triangular solves invert triangular systems. ROUNDING (standard model): |L L^T - A| <= gamma_(n+1)|L||L^T| and |L U - P A| <= gamma_n|L||U| for the computed factors, multipliers <= 1 under monotone rounding. Not proved: the growth factor behind the oracle's norm-wise tolerance - decided per run by the bit-exact tie and exact big-integer oracles (||PA - LU||, ||LL^T - A|| within c n eps ||A||, |L| <= 1, permutation, exact determinants of integer matrices by Bareiss, indefinite input rejected, Matrix = slice bit for bit)."
              " SOURCE TIE: forward/backward substitution, lu, lu_solve, try_cholesky, cholesky and cholesky_solve are regenerated from the Rust text on every run (in-place mutation loops translated to folds) and proved equal to the hand model."
              " ROUNDING (Props/Rounding6): every entry of |L||L^T| of the computed Cholesky factor is at most max a_ii/(1-gamma_(n+1))."),
        design='DESIGN.md §6 C11',
        technique='Lean 4 proof (column-loop invariant for P.A = L.U, Cholesky sweep invariant, cycle-shortening invariant for parity = Equiv.Perm.sign) + bit-exact correspondence + exact reconstruction oracle'),
    "C13": dict(
        text=('Kernel-checked theorems over an ordered field: acovf/acf equal the biased-estimator sums, are even in the lag (for any scalar type), acf(0) = 1 for non-zero variance, |acf k| <= 1 (Cauchy-Schwarz), lags |k| >= n give 0; difference o cumsum; AR fit: intercept = mean and, given an exact inverse of the Toeplitz matrix, the coefficients satisfy the Yule-Walker equations; predict_one / predict equal mean + the AR recursion on the mean-centred history for every history length; fit and forecasts are shift-equivariant (series + c gives every forecast + c). With the proved solver correctness the Yule-Walker statement holds unconditionally for a non-singular Toeplitz matrix. Forecasts converge to the series mean whenever sum|phi_j| < 1 (explicit geometric bound) and whenever all roots of the characteristic polynomial lie inside the unit disc (Gelfand formula on the companion matrix; Props/C13Conv). Float-level (standard model): acovf error bound with a provably necessary first-order mean term for lag k > 0, |acf| <= 1 + gamma, |acf(0) - 1| <= gamma_4. PARTIAL: that a fit is stationary, and convergence of forecasts to the mean and rounding are decided by the bit-exact tie plus exact-integer / 240-bit mpmath oracles with a-priori rounding bounds, paired shifted runs and a horizon-1000 convergence check.'
              " ROUNDING (Props/Rounding5): the one-step forecast is within gamma_(p+3)(|c| + sum|phi_j||x_j - c|) of the exact AR recursion; difference is exact up to one rounding per entry."
              " ROUNDING end to end (Props/Rounding6): residual bound of the Toeplitz Yule-Walker system of the computed autocorrelations."
              " SOURCE TIE: AR::predict_one with its short-history branch is regenerated from the Rust text and proved equal to the model."),
        design='DESIGN.md §6 C13',
        technique='Lean 4 proof (finite-sum algebra, Cauchy-Schwarz, recursion by induction over the horizon) + bit-exact correspondence'),
    "C14": dict(
        text=("Kernel-checked theorems over any (ordered) field: predict is Horner = sum c_i x^i for every coefficient list; vandermonde entry V[i,j] = x_i^j; given an exact inverse of V^T V the fitted coefficients satisfy the normal equations, i.e. the residual is orthogonal to every power x^0..x^d; rss c' = rss c + ||V(c' - c)||^2 >= rss c for every other c' (minimality); data generated by a polynomial of the degree are reproduced. With the proved solver correctness these hold unconditionally (and `fit` does not panic) whenever the normal matrix is non-singular. PARTIAL: rounding is decided by the bit-exact tie plus an exact-rational oracle (orthogonality residual scaled by cond(V^T V) eps, perturbation test, exact-integer reproduction)."
              " ROUNDING in the standard model (Props/Rounding5): every entry of predict is within gamma_(2n) sum|a_i||x|^i of the polynomial value (Horner)."
              " ROUNDING end to end (Props/Rounding6): the computed coefficients satisfy a residual bound of the computed normal system in terms of the computed Cholesky/LU factors and the computed Vandermonde matrix."
              " SOURCE TIE: PolynomialRegressor::fit as a whole function is regenerated from the Rust text and proved equal to the model."),
        design='DESIGN.md §6 C14',
        technique='Lean 4 proof (normal equations and Pythagoras over fields via Mathlib Matrix) + bit-exact correspondence + exact-rational oracle'),
    "C04": dict(
        text=("Kernel-checked theorems: each of the 8 unrolled kernel macros of vops.rs (8-at-a-time body + remainder) equals List.map / List.zipWith at every "
              "length, for every element type and operator, with `none` (panic) on length mismatch and the scalar on the correct side; vpowi's exponent-2/3 fast path "
              "in full chunks is consistent with powi = x^n in every commutative monoid (square-and-multiply = x^n for every i32 exponent); every one of the 44+44 "
              "Vector/Matrix operator impl rows and 62 map rows, re-extracted from the macro invocations in vec.rs/matrix.rs/vops.rs on every run, is proved by `decide` "
              "to call the kernel generated from its own operator token with arguments in order (self, other), the right shape source and (for matrix compound "
              "assignment) a shape assert, so each operator form computes the scalar op at each position with shape preserved; reductions in exact arithmetic: "
              "sum8 = sum, dot8 = sum of products, prod, norm = sqrt(sum x^2), max, inf_norm, logsumexp = log sum exp x_i and logmeanexp over R with all shifted "
              "exponents <= 0 and 1 <= sum exp(x_i - m) <= n (no overflow at any magnitude); WORST-CASE ROUNDING BOUNDS in the standard model of floating-point arithmetic (trusted link: IEEE binary64 satisfies fl(a op b) = (a op b)(1+d), |d| <= 2^-53 barring overflow/underflow): |sum8 x - sum x| <= gamma_(n-1) sum|x|, dot within gamma_n sum|x_i y_i|, prod within gamma_n relative, norm within gamma_(n/2+2) relative, inf_norm within gamma_ncols relative, logsumexp / logmeanexp with an explicit bound in u, the libm error u_f and the spread max - min (data magnitude enters only through one final rounding), for the exact 8-way unrolled association. Tied bit for bit to the Rust code on all lengths 0..40 and random lengths "
              "to 1e4 for every form, map and special value; exact element-wise oracle and worst-case gamma_n-bound oracles for the reductions (rounding bounds are "
              "checked, not proved)."),
        design="DESIGN.md §6 C04",
        technique="Lean 4 proof (functional induction over the 8-way pattern, decide over translated macro wiring, real analysis for logsumexp) + bit-exact correspondence"),
    "C05": dict(
        text=("Kernel-checked theorems over any commutative semiring: for each of the four transpose-flag pairs the model of `matmul` returns "
              "a value iff the inner dimensions agree, of length m*n, whose (i,j) entry is sum_k op(A)[i,k]*op(B)[k,j]; non-conformable or malformed "
              "operands give a panic; the blocked variant equals the plain one for every block size >= 1 (proved for every scalar type with only "
              "Add/Mul/Zero by projecting both loop nests onto one cell, so the k-order is identical and the Float instances coincide bit for bit for "
              "the non-TT flags); xtx = X^T X and symmetric; ROUNDING in the standard model: every entry of matmul / matmul_blocked / xtx / the Dot methods is within gamma_l sum_k|a_ik||b_kj| of the definition; the 16 Dot impls x 4 ownership forms are checked by `decide` over a wiring table regenerated "
              "from dot.rs on every run. The model is tied bit for bit to the Rust code on all shapes 1..9^3 x flags x block sizes (integer entries, exact "
              "equality oracle) and random real shapes to 64 (exact dyadic oracle with the rigorous l*2^-52*sum|a||b| bound)."
              " SOURCE TIE: the naive i/k/j product loops of matmul are regenerated from utils.rs on every run and proved equal to the model loop nest; sessions with aliased operands (same slice / same object on both sides, overlapping views, in-place mutation and re-allocation between calls) are part of the correspondence."
              " The whole matmul and matmul_blocked functions are likewise regenerated and proved equal to the model (cfg blocks resolved with the default features)."),
        design="DESIGN.md §6 C05",
        technique="Lean 4 proof (loop-nest projection, Finset sums over CommSemiring, decide over translated wiring) + bit-exact correspondence"),
    "C06": dict(
        text=("Kernel-checked theorems over any field with exp/ln/sqrt abstract: entry formulas of the score (compute_dbeta) and information (compute_ddbeta); the penalty step "
              "adds alpha*beta_j to components j >= 1 only (intercept unpenalised) and alpha to the information diagonal; for any exact solver one scoring pass leaves beta "
              "unchanged iff the ridge-penalised score equations hold at mu = g^-1(X beta + offset); the six family tables (link, derivative, variance, deviance terms), "
              "Gaussian deviance = residual sum of squares and Gaussian fixed points = weighted ridge normal equations; `fit` returns Err iff not converged within the budget "
              "and on Ok the last two penalised deviances differ relatively by < tolerance; accessor formulas (dispersion, covariance = dispersion * inverse information, "
              "standard errors, predict = inverse link of x.beta + offset, aic, bic); score, information, deviance, every iterate of the loop and the whole `fit` result (status, coefficients, deviance, information; predictions permuted accordingly) are invariant under any permutation of the observations; with the proved solver correctness the fixed-point and Gaussian normal-equation theorems hold for the model's own `solve` on non-singular information matrices. The deviances equal the textbook unit deviances (Poisson with 0 ln 0 = 0, Bernoulli, Gamma, Exponential, Gaussian) on the valid domain, are >= 0 and vanish iff y = mu (Props/C06Dev). PARTIAL: that the convergence test implies a small score, rounding, and solver correctness (hypothesis; C01) are not proved - "
              "they are decided per run by the bit-exact tie (all reply fields) plus a 50-digit mpmath stationarity/inference oracle."
              " Every public method of ExponentialFamily and GLM::set_coef are tied bit for bit and judged by mpmath oracles; theorems: d_inv_link is the derivative of inv_link for all six families, variance(inv_link eta) = d_inv_link eta for the canonical links, penalized_deviance >= deviance with its equality case, set_coef changes only the coefficient vector; object histories (several fits and setters on one object) are compared with fresh twins."
              " ROUNDING (Props/Rounding7, Rounding8): one scoring step is a perturbed penalised weighted normal system with explicit bounds, and for the canonical families a step that leaves beta unchanged in floating point implies an explicit bound on the exact penalised score."),
        design="DESIGN.md §6 C06",
        technique="Lean 4 proof (entry-wise sum algebra, fixed-point characterisation, induction over scoring iterations, permutation of Finset sums) + bit-exact correspondence"),
    "C07": dict(
        text=("Kernel-checked theorems: the model of `trapz` equals Mathlib's `trapezoidal_integral` for every n, hence is exact for affine integrands, linear, "
              "antisymmetric in the limits and obeys Mathlib's C2 error bound |b-a|^3 max|f''|/(12 n^2); quad5 is linear/antisymmetric for any table and, for the "
              "actual doubles of the node/weight tables regenerated from the source on every run, its odd moments are exactly 0 and even moments up to degree 18 "
              "are within 1e-16 of 2/(d+1) (exact rational arithmetic on the decoded bit patterns); Romberg levels 1-3 are the trapezoid/Simpson/Boole rules with "
              "cubic and quintic exactness for every tolerance; sampled `trapezoid` equals the piecewise-linear integral, is additive and agrees with the dx form on "
              "uniform grids. Romberg for EVERY level count: the model computes the textbook tableau, is linear, antisymmetric in the limits and vanishes for a = b, never exits early at eps = 0, its column 0 is the trapezoid rule with 2^n panels, and with k levels it integrates every polynomial of degree <= 2k-1 exactly (Euler-Maclaurin for monomials from Mathlib's Bernoulli/Faulhaber results + Richardson elimination). quad5 on ARBITRARY intervals: for every polynomial of degree <= 19, |quad5 - integral| <= 1e-16 |xr| sum|c_k|(|xm|+|xr|)^k with a genuine interval integral, exact when the shifted polynomial is odd (Props/C07Quad). PARTIAL: the order-of-tolerance clause for smooth integrands and all rounding are decided by the bit-exact tie plus an "
              "exact-rational/mpmath oracle (including the exactly decided stop rule), not by proof."
              " ROUNDING in the standard model (Props/Rounding5): accumulation error of trapz, trapezoid, quad5 and the Romberg first column bounded by gamma_k sum|w_i f(x_i)| with k read off the operation order."),
        design="DESIGN.md §6 C07",
        technique="Lean 4 proof (Mathlib trapezoidal rule transfer, exact dyadic table arithmetic, ring identities) + translated tables + bit-exact correspondence"),
    "C08": dict(
        text=("Kernel-checked theorems over any field of characteristic zero / linear order: Welford's aggregate after any list is (n, mean, sum of squared deviations), "
              "hence mean (through the 8-way unrolled sum), welford_mean, var, sample_var, std, sample_std equal their definitions and the two means agree; the four "
              "covariance algorithms (two-pass, sample, repaired one-pass and online) equal the textbook (sample) covariance and agree; shift invariance and "
              "quadratic/bilinear scaling; argmin/argmax return the first index of an extremum (guard: data within the f64::MAX/MIN seeds, the out-of-guard behaviour "
              "is a separate theorem); min/max equal List.minimum/maximum on NaN-free input; Matrix argmin = (i / ncols, i % ncols); histogram centres are midpoints of "
              "consecutive edges; rounding bounds in the standard model for both mean algorithms (mean within gamma_n, Welford mean ~ (n/2+6.5) u max|x|), for the two-pass covariance/variance (gamma_(n+5) times an exactly shift-invariant centred scale plus second-order terms in the means) and for the Welford M2 / var (whose bound provably must contain a mean term). PARTIAL: rounding of the one-pass and online covariance is decided by the bit-exact tie plus an exact-rational oracle with a "
              "condition-number-scaled bound, not by proof."
              " ROUNDING (Props/Rounding5): forward error bound of the one-pass covariance exhibiting its cancellation term; accumulation bound for the online algorithm."
              " The online covariance is bounded in full (Props/Rounding6 online_error)."),
        design="DESIGN.md §6 C08",
        technique="Lean 4 proof (loop invariants by induction over the data list, field_simp/ring) + bit-exact correspondence + exact-rational oracle"),
    "C12": dict(
        text=("Kernel-checked theorems about the model of broadcast_op (all element types, one abstract operator, all shapes >= 1x1): a value is returned iff the "
              "shapes are NumPy-compatible, it has the element-wise maximum shape, is well formed, and entry (i,j) is left[i|0][j|0] op right[i|0][j|0] with operand "
              "order preserved in every leaf of the classifier; a Vector operand is modelled as a single row. SOURCE TIE: the classifier calc_broadcast_shape is "
              "regenerated from broadcast.rs on every run; two unfoldings of its recursion equal the model classifier and the model is a fixed point of the source "
              "equation. The leaves of the macro, the 48 operator impls (4 operators x operand kinds x 4 ownership forms) and the Vector-to-row promotion are "
              "hand-modelled and tied at run time only: on every run all 1296 shape pairs with rows, cols in 1..6 are executed through the Rust code and the model "
              "and compared bit for bit with non-commuting data - Matrix op Matrix with each operator once per pair in the quick tier (ownership forms rotating) and "
              "all 16 (operator, form) combinations in the thorough tier, Matrix op Vector and Vector op Matrix with every operator for every eligible pair - plus a "
              "special-value stratum over every classifier leaf (NaN, infinities, signed zeros, subnormals in the data and as the 1x1 operand), size-boundary shapes "
              "and random shapes up to 40x40; an independent NumPy-rule oracle supplies the failing input. Zero-dimension operands are outside the theorems and the "
              "generator."),
        design="DESIGN.md §6 C12",
        technique="Lean 4 proof (case analysis over the classifier tree) + bit-exact model/implementation correspondence"),
    "C15": dict(
        text=("Kernel-checked theorems about the executable model of matrix.rs / vec.rs / utils.rs / rotations.rs: the matrix invariant (element count = rows x cols) "
              "is preserved by each of the 19 state-changing structural operations and, by induction, by every program of them (also for sessions that catch panics), "
              "and likewise for programs that add the six operations of the coverage extension (in-place sort and element writes through data_mut, with_shape, "
              "with_capacity, row / column sums as a new matrix); impossible shapes are rejected exactly (iff characterisations of reshape / reshape_mut / new incl. "
              "the inferred -1 dimension); every operation refines the plain row-major reference (transpose, layout conversion, hcat, vcat, repeats, row/column "
              "extraction and maps, indexing, reshape keeps the flat data) for all shapes with at least one row; diag (any shape), eye, diag_matrix, toeplitz, "
              "vandermonde (any monoid, n <= 2^31), design, linspace (field of characteristic 0, n >= 2: n points, first a, last b, constant step; n = 1 gives the "
              "start point; n = 0 panics) and arange (ordered field, step > 0 only: ceil count, all points < stop, next >= stop); rotations are orthogonal with "
              "determinant 1 and cw = ccw^T (through the model transposition) in any commutative ring with c^2+s^2=1 (instances (0,1) over Z and (3/5,4/5) over Q); "
              "the predicates is_square (Matrix and slice), is_symmetric, is_upper/lower_triangular (all shapes, tall included), is_design, is_matrix and the "
              "comparisons close_to and PartialEq (Vector and Matrix level) equal their definitions. OPPOSITE SIGNS, adopted reading: close_to (Vector and Matrix) "
              "never equates values of strictly opposite sign, at any tolerance and magnitude (proved); the absolute-epsilon PartialEq DOES equate opposite-signed "
              "values when both lie within f64::EPSILON of zero (1e-17 == -1e-17 is true by its definition |a-b| <= EPSILON; kernel-checked witness) - proved for "
              "PartialEq are its definition and that this is the only case. ONE SIMULATION THEOREM over whole programs (Props/C15Sim): every program of the 19 "
              "operations - panics included, also in sessions that catch them - commutes with an independent list-of-rows reference model (the Vec<Vec<f64>> model of "
              "the quantifier), for programs that never operate on a 0-row matrix (side condition shown necessary). Coverage extension: shape/size accessors, "
              "with_shape / Vector constructors, element writes through data_mut, row and column sums (= sum_j a_ij, sum_i a_ij, both adding up to the total, any "
              "commutative additive monoid) and Vector::sort (= Mathlib insertionSort: stable sorted permutation for a total preorder; panics exactly when the length "
              "is >= 2 and a NaN is present); Matrix::with_capacity returns only for an empty shape and panics otherwise (proved as is). The hand models that C11 and "
              "C13 carry of is_upper_triangular, slice is_square and toeplitz are proved equal to the C15 ones. NOT PROVED, decided per run by the oracle against "
              "exact rational references: IEEE rounding of linspace / arange / vandermonde / sum_rows / sum_cols, arange with non-positive step, the libm sin/cos "
              "residual of the rotations (<= 400 eps, every entry within 4 ulp of sin/cos at every magnitude), the f32 square root of slice is_square (modelled by "
              "Nat.sqrt, len < 2^24). TIE: bit for bit to the Rust code by stateful random programs (1..40 operations, loaded 1..8 rows/cols, grown up to 33x40, "
              "occasional zero dimensions where only the invariant is judged), constructor sweeps and directed strata (block-size boundaries, nearly symmetric "
              "squares, near-grid arange stops, tolerance boundaries +-1 ulp, opposite-sign pairs and scalar magnitudes over the whole exponent range); independent "
              "list-of-rows oracle. SOURCE TIE (translator, regenerated from the Rust text on every run and proved equal to the hand model): only linspace, arange, "
              "slice diag, vandermonde, transpose, row_to_col_major, col_to_row_major, diag_matrix, toeplitz, eye and the rotation matrices; every Matrix / Vector "
              "method of the mechanism list (new, reshape, reshape_mut, t, t_mut, hcat, vcat, hrepeat, vrepeat, apply_along_row/col, row/column extraction, indexing, "
              "Matrix::diag, is_symmetric, the triangular predicates, close_to, PartialEq, design, is_design, sort, sums, constructors) is hand-modelled and tied at "
              "run time only (listed in TRUSTED)."),
        design="DESIGN.md §6 C15",
        technique="Lean 4 proof (invariant by induction over operation lists, row-view refinement, ring/linear_combination) + bit-exact stateful correspondence"),
}

REASONS = {}

def main():
    checks = []
    for pid in ALL:
        if pid not in CLAIMED:
            continue
        c = CLAIMED[pid]
        checks.append({
            "property_id": pid,
            "quick_cmd": "./check %s --tier quick" % pid,
            "thorough_cmd": "./check %s --tier thorough" % pid,
            "evidence_file": "/verif/evidence/%s.json" % pid,
            "replay_cmd_template": "./check %s --replay {path}" % pid,
            "engine": "lean-proof+correspondence",
            "level_claimed": {"category": "proof", "text": c["text"], "design_ref": c["design"]},
            "level_note": NOTE + (" " + c["note"] if c.get("note") else ""),
            "technique": c["technique"],
        })
    na = [{"property_id": pid, "reason": REASONS.get(pid, "not claimed yet: model, theorems and correspondence for this property are still being built (see DESIGN.md §6 for the plan); no other technique is substituted")}
          for pid in ALL if pid not in CLAIMED]
    m = {
        "version": 1,
        "setup_cmd": "./setup.sh",
        "hooks": {
            "guard": "compute_verif",
            "enable": "none needed: every anchor is reachable through the public API; the executor crate /verif/exec depends on /repo by path",
            "baseline_off_cmd": "cd /repo && cargo test --workspace --no-fail-fast --offline",
            "source_commits": [],
            "add_only": True,
        },
        "engines": [
            {"name": "lean-proof+correspondence", "path": "/verif/check",
             "serves_properties": sorted(CLAIMED),
             "kind_free_text": "Lean 4 theorems over an executable model (lean/Compute), regenerated tables (tools/extract), bit-exact differential execution of model (lean_exe) vs. Rust (exec/), independent Python oracles as failing-input search"},
        ],
        "checks": checks,
        "not_applicable": na,
        "notes": "See DESIGN.md. known_findings.txt lists open findings and fixed defects.",
    }
    with open(os.path.join(VERIF, "MANIFEST.json"), "w") as f:
        json.dump(m, f, indent=1)
        f.write("\n")

if __name__ == "__main__":
    main()
