import Compute.Lemmas.MatmulRounding
import Compute.Lemmas.LogRounding
import Compute.Lemmas.AcovfRounding
import Compute.Lemmas.AcfRounding
import Mathlib.Tactic.NormNum
/-
Worst-case rounding-error theorems, third batch: matrix products (C05, and through `matmul` C14 / C06),
log-domain reductions (C04), `softmax` / `logistic` (C17), autocovariance (C13) — for the *same* model
terms that are tied bit for bit to the Rust code at `Float`, instantiated at the scalar type `Fl M` of
`Lemmas/FlModel.lean` (standard model `rnd x = x(1+δ)`, `|δ| ≤ u`).

TRUSTED LINK (stated, not proved), as in `Props/Rounding.lean`: IEEE-754 binary64 round-to-nearest
satisfies the standard model with `u = 2⁻⁵³` barring overflow/underflow, it is monotone and idempotent
and fixes `1`; the platform `exp` / `ln` have relative error `≤ uf` (class `ExpLnStd`, e.g. `uf = 2⁻⁵²`
for a libm accurate to 1 ulp).  These properties are used only where a theorem says so.

Headline theorems (proved in the `Lemmas/*Rounding.lean` files of this namespace, all in `Cv.Rounding3`):

* C05 matrix products (`Lemmas/MatmulRounding.lean`)
  - `matmul_error` (γ_l, idempotent rounding; Higham (3.13)), `matmul_error_succ` (γ_{l+1}, bare model;
    the leading `0 + p₀` of each cell is a rounded operation) — all four transpose-flag pairs;
    `matmul_error_NN/TN/NT/TT` spelled out on the stored operands
  - `matmulBlocked_error(_succ)`: the same bound for every block size
  - `xtx_error` (relative on the diagonal), `matmul_error_infnorm`
        |Ĉ − op(A)op(B)| ≤ γ_l·|op(A)||op(B)|,   ‖Ĉ − op(A)op(B)‖_∞ ≤ γ_l·‖op(A)‖_∞‖op(B)‖_∞
  - `matvec_error`, `matTvec_error` (the products `X·β`, `Xᵀy`, `G⁻¹·Xᵀy`, `R⁻¹·r` of C06 / C14 / C13),
    `dotMM_error` (the Matrix·Matrix methods of the `Dot` trait); `dotMV_error`, `dotVM_error`, `dotVV_error`
    (this file: the Matrix·Vector, Vector·Matrix and Vector·Vector methods)
* C04 log-domain reductions (`Lemmas/LogRounding.lean`)
  - `shiftedExpSum_near`  Ŝ ∈ [c·S, S/c], c = e^{−uD}(1−uf)(1−u)ⁿ
  - `logsumexp_error`, `logmeanexp_error`, `shifted_logsumexp_error` (arbitrary shift)
        |ŝ − log Σ exp xᵢ| ≤ (1+u)((1+uf)(u·D + γ^f_1 + γ_n) + uf·log n) + u·|log Σ exp xᵢ|
* C17 (`Lemmas/LogRounding.lean`)
  - `softmax_sum_error_stdmodel`   0 < ŷᵢ, |Σ ŷᵢ − 1| ≤ γ_{n+1}   (every `MaxBot` instance; only `exp > 0` used)
  - `softmax_entry_near`  ŷᵢ ∈ [c·yᵢ, yᵢ/c], c = e^{−2uD}(1−uf)²(1−u)^{n+1}
  - `logistic_error` (relative, γ₂ + γ^f_1 + γ₂γ^f_1), `logistic_pos_stdmodel`, `logistic_range_stdmodel` ((0,1], monotone
    rounding with fl(1) = 1)
* C13 autocovariance (`Lemmas/AcovfRounding.lean`)
  - `acovf_pert`, `acovf_error_eps`, `acovf_error`, `acovf_zero_error`
        |ĉ_k − c_k| ≤ (γ_{n−k+6}(Σ|x_{i+k}−x̄||x_i−x̄| + ε·lagS + Nε²) + ε·|lagD| + Nε²)/n,  ε = γ_{n+2}·mean|x|
  - `acovf_mean_term_first_order`: for a lag `k > 0` the term `ε·|lagD|/n`, *first* order in the error of
    the mean, is necessary (no bound "first order in the centred data + second order in the mean")
* C13 autocorrelation (`Lemmas/AcfRounding.lean`): the two normalisation facts of the property in
  rounded arithmetic, whatever the error of the computed mean
  - `acf_abs_le`            |acf(ts,k)| ≤ 1 + γ_{(n−k)+n+9}
  - `acf_zero_error`        |acf(ts,0) − 1| ≤ γ_{2n+9};   `acf_zero_error_idem`  ≤ γ_4 (idempotent rounding)

This file: numeric corollaries at `u = 2⁻⁵³` — `f64_gamma_note`, `f64_acovf_note` are pure evaluations of `γ`
constants; `stdmodel_*_note` are theorems of the IDEALISED standard model at `u = 2⁻⁵³`, `uf = 2⁻⁵²` (they say
nothing about IEEE binary64 where an operation or `exp` under/overflows: at `f64`, `logistic(−710) = 0` and
`softmax [0,−800,10⁴] = [0,0,1]`; see `Rounding3U.logistic_range_ufl`, `softmax_sum_error_ufl` for the honest
underflow-aware variants) — and the non-vacuity examples
(`namespace Examples`).
-/
namespace Cv.Rounding3
open Cv Cv.FlModel Cv.Rounding Cv.C05L Cv.C08

variable {M : FlModel}

/-! ### numeric instantiations at `f64` -/

/-- `γ_l ≤ 7.2·10⁻¹⁵` for inner dimensions `l ≤ 64` and `γ_l ≤ 1.12·10⁻¹³` for `l ≤ 1000`, at `u = 2⁻⁵³` -/
theorem f64_gamma_note (M : FlModel) (hu : M.u = 1 / 2 ^ 53) (l : Nat) :
    (l ≤ 64 → (l : ℝ) * M.u < 1 ∧ M.γ l ≤ 7.2e-15) ∧
    (l ≤ 1000 → (l : ℝ) * M.u < 1 ∧ M.γ l ≤ 1.12e-13) := by
  constructor
  · intro hl
    have h4 : ((64 : Nat) : ℝ) * M.u < 1 := by rw [hu]; norm_num
    have hlt : (l : ℝ) * M.u < 1 :=
      lt_of_le_of_lt (mul_le_mul_of_nonneg_right (Nat.cast_le.mpr hl) M.u_nonneg) h4
    refine ⟨hlt, le_trans (M.γ_mono hl h4) ?_⟩
    unfold FlModel.γ; rw [hu]; norm_num
  · intro hl
    have h4 : ((1000 : Nat) : ℝ) * M.u < 1 := by rw [hu]; norm_num
    have hlt : (l : ℝ) * M.u < 1 :=
      lt_of_le_of_lt (mul_le_mul_of_nonneg_right (Nat.cast_le.mpr hl) M.u_nonneg) h4
    refine ⟨hlt, le_trans (M.γ_mono hl h4) ?_⟩
    unfold FlModel.γ; rw [hu]; norm_num

/-- **`matmul` in a standard model with `u = 2⁻⁵³`** (PROVISO: a theorem of the idealised standard model (`fl(x) = x(1+δ)` for EVERY operation, library functions of relative error `≤ uf` for EVERY argument), instantiated at `u = 2⁻⁵³`; it is a statement about IEEE binary64 only where no operation overflows or underflows (for `exp`: arguments in `[−708.39, 709.78]`).), inner dimension `l ≤ 64` (the range of the C05 generator): every entry of the
computed product is within `7.2·10⁻¹⁵·(|op(A)||op(B)|)[i,j]` of the exact one, barring
overflow/underflow (the trusted link). -/
theorem stdmodel_matmul_note (M : FlModel) (hu : M.u = 1 / 2 ^ 53) (hid : M.Idem)
    (a b : List (Fl M)) (ra ca rb cb : Nat) (ta tb : Bool)
    (ha : a.length = ra * ca) (hb : b.length = rb * cb) (hra : 0 < ra) (hrb : 0 < rb)
    (hin : (if ta then ra else ca) = (if tb then cb else rb)) (hl : (if ta then ra else ca) ≤ 64) :
    ∃ c, matmul a b ra rb ta tb = some c ∧
      ∀ i j, i < (if ta then ca else ra) → j < (if tb then rb else cb) →
        |(c[i * (if tb then rb else cb) + j]!).val
            - exactCell a b ca cb ta tb (if ta then ra else ca) i j| ≤
          7.2e-15 * absCell a b ca cb ta tb (if ta then ra else ca) i j := by
  obtain ⟨hlt, hγ⟩ := (f64_gamma_note M hu _).1 hl
  obtain ⟨c, h1, _, h3⟩ := matmul_error hid a b ra ca rb cb ta tb ha hb hra hrb hin hlt
  exact ⟨c, h1, fun i j hi hj => le_trans (h3 i j hi hj)
    (mul_le_mul_of_nonneg_right hγ (absCell_nonneg _ _ _ _ _ _ _ _ _))⟩

/-- **`logsumexp` in a standard model with `u = 2⁻⁵³`** (PROVISO: a theorem of the idealised standard model (`fl(x) = x(1+δ)` for EVERY operation, library functions of relative error `≤ uf` for EVERY argument), instantiated at `u = 2⁻⁵³`; it is a statement about IEEE binary64 only where no operation overflows or underflows (for `exp`: arguments in `[−708.39, 709.78]`).) with a libm accurate to 1 ulp (`uf = 2⁻⁵²`): for `n ≤ 10⁴` values of
spread `max − min ≤ 700` (beyond `≈ 745` the smallest shifted exponential underflows):
`|ŝ − log Σ exp xᵢ| ≤ 1.2·10⁻¹² + 2.3·10⁻¹⁶·log n + 1.2·10⁻¹⁶·|log Σ exp xᵢ|`. -/
theorem stdmodel_logsumexp_note (M : FlModel) [ExpLnStd M] (hu : M.u = 1 / 2 ^ 53)
    (hf : uF M = 1 / 2 ^ 52) (isNaN : Fl M → Bool) (nan : Fl M) (hnan : isNaN nan = true)
    (x : List (Fl M)) (hne : x ≠ []) (hfin : ∀ a ∈ x, isNaN a = false) (hn : x.length ≤ 10000)
    (D : ℝ) (hD700 : D ≤ 700) (hD : ∀ a ∈ x, ∀ b ∈ x, |a.val - b.val| ≤ D) :
    |(VecOps.logsumexpL isNaN nan x).val - lse (vals x)| ≤
      1.2e-12 + 2.3e-16 * Real.log x.length + 1.2e-16 * |lse (vals x)| := by
  obtain ⟨hlt, hγ⟩ := f64_instance_note M hu x.length hn
  have h := logsumexp_error isNaN nan hnan x hne hfin D hD hlt
  have hγf : γf M 1 ≤ 2.3e-16 := by rw [γf_one, hf]; norm_num
  have hL : 0 ≤ Real.log x.length := Real.log_natCast_nonneg _
  have hA := abs_nonneg (lse (vals x))
  rw [hu, hf] at h
  refine le_trans h ?_
  have hAle : (1 : ℝ) / 2 ^ 53 * D + γf M 1 + M.γ x.length ≤ 1.199e-12 := by
    have : (1 : ℝ) / 2 ^ 53 * D ≤ 1 / 2 ^ 53 * 700 := mul_le_mul_of_nonneg_left hD700 (by norm_num)
    have h700 : (1 : ℝ) / 2 ^ 53 * 700 ≤ 7.78e-14 := by norm_num
    linarith
  have e : (1 + (1 : ℝ) / 2 ^ 53) * ((1 + 1 / 2 ^ 52) *
        (1 / 2 ^ 53 * D + γf M 1 + M.γ x.length) + 1 / 2 ^ 52 * Real.log x.length) =
      ((1 + (1 : ℝ) / 2 ^ 53) * (1 + 1 / 2 ^ 52)) * (1 / 2 ^ 53 * D + γf M 1 + M.γ x.length)
        + ((1 + (1 : ℝ) / 2 ^ 53) * (1 / 2 ^ 52)) * Real.log x.length := by ring
  rw [e]
  have c1 : (1 + (1 : ℝ) / 2 ^ 53) * (1 + 1 / 2 ^ 52) ≤ 1.0000001 := by norm_num
  have c2 : (1 + (1 : ℝ) / 2 ^ 53) * (1 / 2 ^ 52) ≤ 2.3e-16 := by norm_num
  have c3 : (1 : ℝ) / 2 ^ 53 ≤ 1.2e-16 := by norm_num
  have hA0 : 0 ≤ (1 : ℝ) / 2 ^ 53 * D + γf M 1 + M.γ x.length := by
    have hD0 : 0 ≤ D := by
      obtain ⟨a, ha⟩ := List.exists_mem_of_ne_nil x hne
      have := hD a ha a ha
      simpa using this
    have h1 : 0 ≤ γf M 1 := by rw [γf_one, hf]; norm_num
    have h2 := M.γ_nonneg x.length hlt
    positivity
  have t1 := mul_le_mul c1 hAle hA0 (by norm_num)
  have t2 := mul_le_mul_of_nonneg_right c2 hL
  have t3 := mul_le_mul_of_nonneg_right c3 hA
  have : (1.0000001 : ℝ) * 1.199e-12 ≤ 1.2e-12 := by norm_num
  linarith

/-- **`softmax` in a standard model with `u = 2⁻⁵³`**: for `1 ≤ n ≤ 1000` inputs the computed probabilities are
positive and their exact sum differs from `1` by at most `1.12·10⁻¹³`.  PROVISO: a theorem of the idealised standard model (`fl(x) = x(1+δ)` for EVERY operation, library functions of relative error `≤ uf` for EVERY argument), instantiated at `u = 2⁻⁵³`; it is a statement about IEEE binary64 only where no operation overflows or underflows (for `exp`: arguments in `[−708.39, 709.78]`).  At IEEE binary64 entries whose
shifted exponential underflows are exactly `0` (`≥ 0`, not `> 0`): `Rounding3U.softmax_sum_error_ufl`. -/
theorem stdmodel_softmax_note (M : FlModel) [ExpLnStd M] [MaxBot (Fl M)] (hu : M.u = 1 / 2 ^ 53)
    (x : List (Fl M)) (hne : x ≠ []) (hn : x.length ≤ 1000) :
    (∀ y ∈ softmax x, 0 < y.val) ∧ |(vals (softmax x)).sum - 1| ≤ 1.12e-13 := by
  have h1001 : ((1001 : Nat) : ℝ) * M.u < 1 := by rw [hu]; norm_num
  have hle : x.length + 1 ≤ 1001 := by omega
  have hlt : ((x.length + 1 : Nat) : ℝ) * M.u < 1 :=
    lt_of_le_of_lt (mul_le_mul_of_nonneg_right (Nat.cast_le.mpr hle) M.u_nonneg) h1001
  have hγ : M.γ (x.length + 1) ≤ 1.12e-13 := by
    refine le_trans (M.γ_mono hle h1001) ?_
    unfold FlModel.γ; rw [hu]; norm_num
  obtain ⟨_, h2, h3⟩ := softmax_sum_error_stdmodel x hne hlt
  exact ⟨h2, le_trans h3 hγ⟩

/-- **`logistic` in a standard model with `u = 2⁻⁵³`, `uf = 2⁻⁵²`**: relative error at most `4.5·10⁻¹⁶` for every
argument OF THE MODEL.  PROVISO: a theorem of the idealised standard model (`fl(x) = x(1+δ)` for EVERY operation, library functions of relative error `≤ uf` for EVERY argument), instantiated at `u = 2⁻⁵³`; it is a statement about IEEE binary64 only where no operation overflows or underflows (for `exp`: arguments in `[−708.39, 709.78]`).  At IEEE binary64 `logistic(x) = 0` for `x ≤ −709.79` (relative error 1):
only `0 ≤ logistic ≤ 1` survives there (`Rounding3U.logistic_range_ufl`). -/
theorem stdmodel_logistic_note (M : FlModel) [ExpLnStd M] (hu : M.u = 1 / 2 ^ 53)
    (hf : uF M = 1 / 2 ^ 52) (x : Fl M) :
    |(logistic x).val - sigma x.val| ≤ 4.5e-16 * sigma x.val := by
  have h2 : ((2 : Nat) : ℝ) * M.u < 1 := by rw [hu]; norm_num
  have hf1 : ((1 : Nat) : ℝ) * uF M < 1 := by rw [hf]; norm_num
  refine le_trans (logistic_error x h2 hf1) (mul_le_mul_of_nonneg_right ?_ (sigma_pos _).le)
  have hγ2 : M.γ 2 = 2 * (1 / 2 ^ 53) / (1 - 2 * (1 / 2 ^ 53)) := by
    unfold FlModel.γ; rw [hu]; norm_num
  rw [γf_one, hf, hγ2]
  norm_num

/-- **`acovf` at `f64`**: for series of length `n ≤ 9994` both constants of `acovf_error` are below
`1.12·10⁻¹²`. -/
theorem f64_acovf_note (M : FlModel) (hu : M.u = 1 / 2 ^ 53) (n k : Nat) (hn : n ≤ 9994) :
    ((n + 6 : Nat) : ℝ) * M.u < 1 ∧ M.γ (n - k + 6) ≤ 1.12e-12 ∧ M.γ (n + 2) ≤ 1.12e-12 :=
  ⟨(f64_instance_note M hu (n + 6) (by omega)).1, (f64_instance_note M hu (n - k + 6) (by omega)).2,
    (f64_instance_note M hu (n + 2) (by omega)).2⟩

/-- **`acf` in a standard model with `u = 2⁻⁵³`** (idempotent rounding; PROVISO: a theorem of the idealised standard model (`fl(x) = x(1+δ)` for EVERY operation, library functions of relative error `≤ uf` for EVERY argument), instantiated at `u = 2⁻⁵³`; it is a statement about IEEE binary64 only where no operation overflows or underflows (for `exp`: arguments in `[−708.39, 709.78]`).): for every non-constant series `|acf(ts,0) − 1| ≤ 4.5·10⁻¹⁶`,
and for `n ≤ 4995`, `|acf(ts,k)| ≤ 1 + 1.12·10⁻¹²` at every lag. -/
theorem stdmodel_acf_note (M : FlModel) (hu : M.u = 1 / 2 ^ 53) (hid : M.Idem) (ts : List (Fl M))
    (a b : Fl M) (ha : a ∈ ts) (hb : b ∈ ts) (hab : a.val ≠ b.val) :
    |(TS.acf ts 0).val - 1| ≤ 4.5e-16 ∧
      (ts.length ≤ 4995 → ∀ k : Int, |(TS.acf ts k).val| ≤ 1 + 1.12e-12) := by
  have hn : 0 < ts.length := List.length_pos_of_mem ha
  have hQ := devSq_pos_of_ne ts a b ha hb hab
  constructor
  · have h4 : ((4 : Nat) : ℝ) * M.u < 1 := by rw [hu]; norm_num
    refine le_trans (acf_zero_error_idem hid ts hn hQ h4) ?_
    unfold FlModel.γ; rw [hu]; norm_num
  · intro hlen k
    obtain ⟨hlt, hγ⟩ := f64_instance_note M hu (ts.length - k.natAbs + ts.length + 9) (by omega)
    have := acf_abs_le ts k hn hQ hlt
    linarith






/-! ### the Vector methods of the `Dot` trait -/

section dotvec
open Cv.DotT Cv.C05 Cv.C05W

/-- the Matrix·Matrix method a `Matrix.method(Vector)` call is wired to (`C05.dotMV_eq`) -/
def mvInner : Meth → Meth
  | .dot => .dot | .dotT => .dot | .tDot => .tDot | .tDotT => .tDot
/-- the Matrix·Matrix method a `Vector.method(Matrix)` call is wired to (`C05.dotVM_eq`) -/
def vmInner : Meth → Meth
  | .dot => .dot | .tDot => .dot | .dotT => .dotT | .tDotT => .dotT

/-- **Forward error of the Vector·Vector `Dot` methods** (all four names call `dot`): `γ_n` -/
theorem dotVV_error (hid : M.Idem) (meth : Meth) (x y : List (Fl M)) (hxy : x.length = y.length)
    (h : (x.length : ℝ) * M.u < 1) :
    ∃ r, dotVV meth x y = some r ∧
      |r.val - (prods x y).sum| ≤ M.γ x.length * ((prods x y).map (|·|)).sum := by
  refine ⟨dot8 x y, ?_, dot8_error hid x y hxy h⟩
  rw [dotVV_eq]; simp [dot?, hxy]

/-- **Forward error of the Matrix·Vector `Dot` methods**: the vector is promoted to the `n × 1` column and the
method is the Matrix·Matrix method `mvInner meth` (`C05.dotMV_eq`), hence the bound of `dotMM_error` with
`γ_l`, `l` the inner dimension -/
theorem dotMV_error (hid : M.Idem) (meth : Meth) (s : Mat (Fl M)) (v : List (Fl M)) (hs : s.WF)
    (hsr : 0 < s.nrows) (hv : 0 < v.length)
    (hin : (if flagA (mvInner meth) then s.nrows else s.ncols) =
      (if flagB (mvInner meth) then 1 else v.length))
    (h : ((if flagA (mvInner meth) then s.nrows else s.ncols : Nat) : ℝ) * M.u < 1) :
    ∃ d r, dotMV meth s v = some d ∧ dotMM (mvInner meth) s ⟨v, v.length, 1⟩ = some r ∧ d = r.data ∧
      r.nrows = (if flagA (mvInner meth) then s.ncols else s.nrows) ∧ r.WF ∧
      ∀ i j, i < r.nrows → j < r.ncols →
        |(r.get i j).val - exactCell s.data v s.ncols 1 (flagA (mvInner meth)) (flagB (mvInner meth))
            (if flagA (mvInner meth) then s.nrows else s.ncols) i j| ≤
          M.γ (if flagA (mvInner meth) then s.nrows else s.ncols) *
            absCell s.data v s.ncols 1 (flagA (mvInner meth)) (flagB (mvInner meth))
              (if flagA (mvInner meth) then s.nrows else s.ncols) i j := by
  obtain ⟨r, h1, h2, _, h4, h5⟩ := dotMM_error hid (mvInner meth) s ⟨v, v.length, 1⟩ hs
    (by show v.length = v.length * 1; simp) hsr hv hin h
  refine ⟨r.data, r, ?_, h1, rfl, h2, h4, h5⟩
  rw [dotMV_eq]
  cases meth <;> (simp only [mvInner] at h1; rw [h1]; rfl)

/-- **Forward error of the Vector·Matrix `Dot` methods**: the vector is promoted to the `1 × n` row, the method
is `vmInner meth` (`C05.dotVM_eq`) -/
theorem dotVM_error (hid : M.Idem) (meth : Meth) (v : List (Fl M)) (o : Mat (Fl M)) (ho : o.WF)
    (hor : 0 < o.nrows)
    (hin : (if flagA (vmInner meth) then 1 else v.length) =
      (if flagB (vmInner meth) then o.ncols else o.nrows))
    (h : ((if flagA (vmInner meth) then 1 else v.length : Nat) : ℝ) * M.u < 1) :
    ∃ d r, dotVM meth v o = some d ∧ dotMM (vmInner meth) ⟨v, 1, v.length⟩ o = some r ∧ d = r.data ∧
      r.ncols = (if flagB (vmInner meth) then o.nrows else o.ncols) ∧ r.WF ∧
      ∀ i j, i < r.nrows → j < r.ncols →
        |(r.get i j).val - exactCell v o.data v.length o.ncols (flagA (vmInner meth)) (flagB (vmInner meth))
            (if flagA (vmInner meth) then 1 else v.length) i j| ≤
          M.γ (if flagA (vmInner meth) then 1 else v.length) *
            absCell v o.data v.length o.ncols (flagA (vmInner meth)) (flagB (vmInner meth))
              (if flagA (vmInner meth) then 1 else v.length) i j := by
  obtain ⟨r, h1, _, h3, h4, h5⟩ := dotMM_error hid (vmInner meth) ⟨v, 1, v.length⟩ o
    (by show v.length = 1 * v.length; simp) ho (by norm_num) hor hin h
  refine ⟨r.data, r, ?_, h1, rfl, h3, h4, h5⟩
  rw [dotVM_eq]
  cases meth <;> (simp only [vmInner] at h1; rw [h1]; rfl)

end dotvec

/-! ### Non-vacuity: concrete models and concrete inputs -/

namespace Examples
open Cv.Rounding.Examples

/-! #### matrix products -/

noncomputable abbrev A22 : List (Fl Minf) := [⟨1⟩, ⟨2⟩, ⟨3⟩, ⟨4⟩]
noncomputable abbrev B22 : List (Fl Minf) := [⟨1⟩, ⟨1⟩, ⟨1⟩, ⟨1⟩]

/-- `matmul_error_succ` in the 1 % model: the hypothesis `(l+1)·u = 0.03 < 1` holds; entry `(0,0)` is
`1·1.01³ + 2·1.01²` — the first product carries `l + 1 = 3` roundings (the constant `γ_{l+1}` of the
bare model cannot be replaced by `γ_l` there), the exact value is `3`. -/
example : ∃ c, matmul A22 B22 2 2 false false = some c ∧
    (c[0]!).val = 1 * (1 + 1 / 100) ^ 3 + 2 * (1 + 1 / 100) ^ 2 ∧
    exactCell A22 B22 2 2 false false 2 0 0 = 3 ∧
    |(c[0]!).val - exactCell A22 B22 2 2 false false 2 0 0| ≤
      Minf.γ 3 * absCell A22 B22 2 2 false false 2 0 0 := by
  obtain ⟨c, h1, _, h3⟩ := matmul_error_succ A22 B22 2 2 2 2 false false rfl rfl (by norm_num)
    (by norm_num) rfl (by rw [Minf_u]; norm_num)
  obtain ⟨c', h1', _, h3'⟩ := matmul_entry A22 B22 2 2 2 2 false false rfl rfl (by norm_num)
    (by norm_num) rfl
  have hcc : c' = c := Option.some.inj (h1'.symm.trans h1)
  subst hcc
  refine ⟨c', h1, ?_, ?_, by simpa using h3 0 0 (by norm_num) (by norm_num)⟩
  · have := h3' 0 0 (by norm_num) (by norm_num)
    simp only [Nat.zero_mul, Nat.zero_add, Bool.false_eq_true, if_false, Bool.and_self] at this
    rw [this]
    simp [cellFold, opEntry, List.range_succ, Minf_rnd]
    ring
  · simp [exactCell, opEntry, Finset.sum_range_succ]
    norm_num

noncomputable abbrev A22b : List (Fl Mbump) := [⟨1⟩, ⟨2⟩, ⟨3⟩, ⟨4⟩]
noncomputable abbrev B22b : List (Fl Mbump) := [⟨1⟩, ⟨1⟩, ⟨1⟩, ⟨1⟩]

/-- `matmul_error` (γ_l) in the idempotent model (`3 ↦ 3.75`, `u = 1/4`): `l·u = 1/2 < 1`; entry `(0,0)`
is `1·1 + 2·1 = 3`, computed as `3.75` — within `γ₂·3 = 3`. -/
example : ∃ c, matmul A22b B22b 2 2 false false = some c ∧ (c[0]!).val = 15 / 4 ∧
    |(c[0]!).val - exactCell A22b B22b 2 2 false false 2 0 0| ≤
      Mbump.γ 2 * absCell A22b B22b 2 2 false false 2 0 0 := by
  obtain ⟨c, h1, _, h3⟩ := matmul_error (FlModel.bump_idem _ _ _ _) A22b B22b 2 2 2 2 false false
    rfl rfl (by norm_num) (by norm_num) rfl (by rw [Mbump_u]; norm_num)
  obtain ⟨c', h1', _, h3'⟩ := matmul_entry A22b B22b 2 2 2 2 false false rfl rfl (by norm_num)
    (by norm_num) rfl
  have hcc : c' = c := Option.some.inj (h1'.symm.trans h1)
  subst hcc
  have hb := h3 0 0 (by norm_num) (by norm_num)
  simp only [Nat.zero_mul, Nat.zero_add, Bool.false_eq_true, if_false] at hb
  refine ⟨c', h1, ?_, hb⟩
  have := h3' 0 0 (by norm_num) (by norm_num)
  simp only [Nat.zero_mul, Nat.zero_add, Bool.false_eq_true, if_false, Bool.and_self] at this
  rw [this]
  simp [cellFold, opEntry, List.range_succ, Mbump_rnd]
  norm_num

/-- all four flag pairs, the blocked kernel, `xtx` and the ∞-norm corollary: hypotheses hold -/
example : ∃ c, matmul A22b B22b 2 2 true true = some c ∧ c.length = 2 * 2 := by
  obtain ⟨c, h1, h2, _⟩ := matmul_error_TT (FlModel.bump_idem _ _ _ _) A22b B22b 2 2 2 rfl rfl
    (by norm_num) (by norm_num) (by rw [Mbump_u]; norm_num)
  exact ⟨c, h1, h2⟩
example : ∃ c, matmul A22b B22b 2 2 true false = some c ∧ c.length = 2 * 2 := by
  obtain ⟨c, h1, h2, _⟩ := matmul_error_TN (FlModel.bump_idem _ _ _ _) A22b B22b 2 2 2 rfl rfl
    (by norm_num) (by rw [Mbump_u]; norm_num)
  exact ⟨c, h1, h2⟩
example : ∃ c, matmul A22b B22b 2 2 false true = some c ∧ c.length = 2 * 2 := by
  obtain ⟨c, h1, h2, _⟩ := matmul_error_NT (FlModel.bump_idem _ _ _ _) A22b B22b 2 2 2 rfl rfl
    (by norm_num) (by norm_num) (by rw [Mbump_u]; norm_num)
  exact ⟨c, h1, h2⟩
example : ∃ c, matmulBlocked A22 B22 2 2 false false 1 = some c := by
  obtain ⟨c, h1, _⟩ := matmulBlocked_error_succ A22 B22 2 2 2 2 false false 1 (by norm_num) rfl rfl
    (by norm_num) (by norm_num) rfl (by rw [Minf_u]; norm_num)
  exact ⟨c, h1⟩
example : ∃ c, xtx A22b 2 = some c ∧ c.length = 2 * 2 := by
  obtain ⟨c, h1, h2, _⟩ := xtx_error (FlModel.bump_idem _ _ _ _) A22b 2 2 rfl (by norm_num)
    (by rw [Mbump_u]; norm_num)
  exact ⟨c, h1, h2⟩

/-- `matmul_error_infnorm`: `‖A‖_∞ = 7`, `‖B‖_∞ = 2` -/
example : ∃ c, matmul A22b B22b 2 2 false false = some c ∧
    ∀ i, i < 2 → ∑ j ∈ Finset.range 2,
      |(c[i * 2 + j]!).val - exactCell A22b B22b 2 2 false false 2 i j| ≤ Mbump.γ 2 * 7 * 2 := by
  have := matmul_error_infnorm (FlModel.bump_idem _ _ _ _) A22b B22b 2 2 2 2 false false rfl rfl
    (by norm_num) (by norm_num) rfl (by rw [Mbump_u]; norm_num) 7 2 (by norm_num)
    (by
      intro i hi
      have : i = 0 ∨ i = 1 := by simp at hi; omega
      rcases this with rfl | rfl <;> simp [opEntry, Finset.sum_range_succ] <;> norm_num)
    (by
      intro k hk
      have : k = 0 ∨ k = 1 := by simp at hk; omega
      rcases this with rfl | rfl <;> simp [opEntry, Finset.sum_range_succ] <;> norm_num)
  simp only [Bool.false_eq_true, if_false] at this
  exact this

/-! #### log-domain reductions, softmax, logistic (correctly rounded libm in the 1 % model) -/

noncomputable local instance : ExpLnStd Minf := ExpLnStd.ofRnd Minf

theorem Minf_uF : uF Minf = 1 / 100 := rfl

/-- a NaN test on `Fl Minf` that is true of the seed `-1` and false of every non-negative value -/
noncomputable def isNaNneg (a : Fl Minf) : Bool := @decide (a.val < 0) (Classical.propDecidable _)

noncomputable abbrev x01 : List (Fl Minf) := [⟨0⟩, ⟨1⟩]

theorem x01_fin : ∀ a ∈ x01, isNaNneg a = false := by
  intro a ha
  simp only [x01, List.mem_cons, List.not_mem_nil, or_false] at ha
  rcases ha with rfl | rfl <;> simp [isNaNneg]

theorem x01_spread : ∀ a ∈ x01, ∀ b ∈ x01, |a.val - b.val| ≤ 1 := by
  intro a ha b hb
  simp only [x01, List.mem_cons, List.not_mem_nil, or_false] at ha hb
  rcases ha with rfl | rfl <;> rcases hb with rfl | rfl <;> norm_num

/-- `logsumexp_error`, `logmeanexp_error`: the hypotheses hold on `[0, 1]` (spread `D = 1`) -/
example : |(VecOps.logsumexpL isNaNneg ⟨-1⟩ x01).val - lse (vals x01)| ≤
    (1 + Minf.u) * ((1 + uF Minf) * (Minf.u * 1 + γf Minf 1 + Minf.γ 2) + uF Minf * Real.log (2 : Nat))
      + Minf.u * |lse (vals x01)| :=
  logsumexp_error isNaNneg ⟨-1⟩ (by simp [isNaNneg]) x01 (by simp) x01_fin 1 x01_spread
    (by rw [Minf_u]; norm_num)
example : |(VecOps.logmeanexpL isNaNneg ⟨-1⟩ x01).val - lme (vals x01)| ≤
    (1 + Minf.u) * ((1 + uF Minf) * (Minf.u * 1 + γf Minf 1 + Minf.γ 4) + uF Minf * Real.log (2 : Nat))
      + Minf.u * |lme (vals x01)| :=
  logmeanexp_error isNaNneg ⟨-1⟩ (by simp [isNaNneg]) x01 (by simp) x01_fin 1 x01_spread
    (by rw [Minf_u]; norm_num)

/-- … and rounding errors do occur: on the single value `0` the exact result is `log(exp 0) = 0`, the
computed one is `log(1.0201)·1.01² > 0` -/
example : lse (vals ([⟨0⟩] : List (Fl Minf))) = 0 ∧
    0 < (VecOps.logsumexpL isNaNneg ⟨-1⟩ ([⟨0⟩] : List (Fl Minf))).val := by
  constructor
  · simp [lse, vals]
  · have hm : VecOps.maxL isNaNneg ⟨-1⟩ ([⟨0⟩] : List (Fl Minf)) = ⟨0⟩ := by
      simp [VecOps.maxL, VecOps.fmaxN, isNaNneg]
    have hv : (VecOps.logsumexpL isNaNneg ⟨-1⟩ ([⟨0⟩] : List (Fl Minf))).val =
        Real.log ((1 + 1 / 100) * (1 + 1 / 100)) * (1 + 1 / 100) * (1 + 1 / 100) := by
      unfold VecOps.logsumexpL
      rw [hm]
      simp [VecOps.shiftedExpSum, ExpLnStd.expR, ExpLnStd.lnR, Minf_rnd]
    rw [hv]
    have : 0 < Real.log ((1 + 1 / 100) * (1 + 1 / 100)) := Real.log_pos (by norm_num)
    positivity

/-- a `MaxBot` structure on `Fl Minf` (seed `-1000`; the softmax theorems hold for every instance) -/
noncomputable local instance : MaxBot (Fl Minf) :=
  ⟨fun a b => @ite _ (a.val < b.val) (Classical.propDecidable _) b a, ⟨-1000⟩⟩

noncomputable abbrev x00 : List (Fl Minf) := [⟨0⟩, ⟨0⟩]

/-- `softmax_sum_error_stdmodel` on `[0, 0]`: `(n+1)·u = 0.03 < 1` -/
example : (∀ y ∈ softmax x00, 0 < y.val) ∧ |(vals (softmax x00)).sum - 1| ≤ Minf.γ 3 := by
  obtain ⟨_, h2, h3⟩ := softmax_sum_error_stdmodel x00 (by simp) (by rw [Minf_u]; norm_num)
  exact ⟨h2, h3⟩

theorem softmaxMax_x00 : softmaxMax x00 = ⟨0⟩ := by
  simp [softmaxMax, MaxBot.fmax, MaxBot.negInf]

/-- … where the computed probabilities really do not sum to one: `Σ ŷ = 2.0402/2.050401` -/
example : (vals (softmax x00)).sum = 20402 / 20504.01 := by
  have h00 : ((⟨0⟩ : Fl Minf) - ⟨0⟩) = ⟨0⟩ := Fl.ext (by simp [Minf_rnd])
  have hargs : softmaxArgs x00 = [⟨0⟩, ⟨0⟩] := by
    unfold softmaxArgs
    rw [softmaxMax_x00]
    simp [h00]
  rw [softmax_unfold, softmaxSum_unfold, hargs]
  simp [vals, ExpLnStd.expR, Minf_rnd]
  norm_num

/-- `softmax_entry_near` on `[0, 0]` (`D = 0`) -/
example : ∃ y, (softmax x00)[0]? = some y ∧
    Near ((Real.exp (-(Minf.u * 0)) * (1 - uF Minf)) *
        (Real.exp (-(Minf.u * 0)) * (1 - uF Minf) * (1 - Minf.u) ^ 2) * (1 - Minf.u))
      (Real.exp 0 / ((vals x00).map Real.exp).sum) y.val := by
  have := softmax_entry_near x00 (by simp) 0 (by
    intro a ha
    rw [softmaxMax_x00]
    simp only [x00, List.mem_cons, List.not_mem_nil, or_false, or_self] at ha
    subst ha; simp) 0 (by simp)
  simpa using this

/-- `logistic_error` at `x = 0`: exact value `1/2`, computed value `1/2.01` -/
example : (logistic (⟨0⟩ : Fl Minf)).val = 1 / 2.01 ∧ sigma 0 = 1 / 2 ∧
    |(logistic (⟨0⟩ : Fl Minf)).val - sigma 0| ≤
      (Minf.γ 2 + γf Minf 1 + Minf.γ 2 * γf Minf 1) * sigma 0 := by
  refine ⟨?_, ?_, logistic_error (⟨0⟩ : Fl Minf) (by rw [Minf_u]; norm_num) (by rw [Minf_uF]; norm_num)⟩
  · simp [logistic, ExpLnStd.expR, Minf_rnd]
    norm_num
  · simp [sigma]; norm_num

/-- a monotone model with `rnd 1 = 1` in which rounding errors occur: exact up to `1`, results above `1`
are inflated by 1 % -/
noncomputable def Mstep : FlModel where
  rnd := fun x => if x ≤ 1 then x else x * (1 + 1 / 100)
  u := 1 / 100
  u_nonneg := by norm_num
  u_lt_one := by norm_num
  std := fun x => by
    by_cases hx : x ≤ 1
    · exact ⟨0, by norm_num, by simp [hx]⟩
    · exact ⟨1 / 100, by rw [abs_of_nonneg (by norm_num)], by simp [hx]⟩

theorem Mstep_mono : Monotone Mstep.rnd := by
  intro a b hab
  show (if a ≤ 1 then a else a * (1 + 1 / 100)) ≤ (if b ≤ 1 then b else b * (1 + 1 / 100))
  by_cases ha : a ≤ 1 <;> by_cases hb : b ≤ 1 <;> simp only [ha, hb, if_true, if_false]
  · exact hab
  · have hb' := not_le.mp hb; nlinarith
  · have ha' := not_le.mp ha; linarith
  · nlinarith [not_le.mp ha, not_le.mp hb]

theorem Mstep_one : Mstep.rnd 1 = 1 := by
  show (if (1 : ℝ) ≤ 1 then (1 : ℝ) else 1 * (1 + 1 / 100)) = 1
  simp

noncomputable local instance : ExpLnStd Mstep := ExpLnStd.ofRnd Mstep

/-- `logistic_range_stdmodel` in the monotone model: hypotheses hold, and the value at `0` is `1/2.02 ≠ 1/2` -/
example : (0 < (logistic (⟨0⟩ : Fl Mstep)).val ∧ (logistic (⟨0⟩ : Fl Mstep)).val ≤ 1) ∧
    (logistic (⟨0⟩ : Fl Mstep)).val = 1 / 2.02 := by
  refine ⟨logistic_range_stdmodel Mstep_mono Mstep_one _, ?_⟩
  have r1 : Mstep.rnd 1 = 1 := Mstep_one
  have r2 : Mstep.rnd 2 = 2 * (1 + 1 / 100) := by
    show (if (2 : ℝ) ≤ 1 then (2 : ℝ) else 2 * (1 + 1 / 100)) = _
    norm_num
  have r3 : Mstep.rnd (1 / (2 * (1 + 1 / 100))) = 1 / (2 * (1 + 1 / 100)) := by
    show (if (1 : ℝ) / (2 * (1 + 1 / 100)) ≤ 1 then (1 : ℝ) / (2 * (1 + 1 / 100)) else _) = _
    norm_num
  show Mstep.rnd (1 / Mstep.rnd (1 + Mstep.rnd (Real.exp (-(0 : ℝ))))) = _
  rw [neg_zero, Real.exp_zero, r1, show (1 : ℝ) + 1 = 2 by norm_num, r2, r3]
  norm_num

/-! #### autocovariance -/

noncomputable abbrev ts13 : List (Fl Minf) := [⟨1⟩, ⟨3⟩, ⟨2⟩]

/-- `acovf_error` at lag 1 and `acovf_zero_error`: `(n+6)·u = 0.09 < 1` -/
example : |(TS.acovf ts13 1).val - lagCo (vals ts13) 1 / 3| ≤
    (Minf.γ 8 * (lagAbs (vals ts13) 1
          + (Minf.γ 5 * Rounding2.meanAbs (vals ts13)) * lagS (vals ts13) 1
          + ((2 : Nat) : ℝ) * (Minf.γ 5 * Rounding2.meanAbs (vals ts13)) ^ 2)
      + (Minf.γ 5 * Rounding2.meanAbs (vals ts13)) * |lagD (vals ts13) 1|
      + ((2 : Nat) : ℝ) * (Minf.γ 5 * Rounding2.meanAbs (vals ts13)) ^ 2) / 3 := by
  have := acovf_error ts13 1 (by rw [Minf_u]; norm_num)
  simpa using this
example : |(TS.acovf ts13 0).val - m2 (vals ts13) / 3| ≤
    (Minf.γ 9 * (m2 (vals ts13)
          + (Minf.γ 5 * Rounding2.meanAbs (vals ts13)) * (2 * Rounding2.absDev (vals ts13))
          + 3 * (Minf.γ 5 * Rounding2.meanAbs (vals ts13)) ^ 2)
      + 3 * (Minf.γ 5 * Rounding2.meanAbs (vals ts13)) ^ 2) / 3 := by
  have := acovf_zero_error ts13 (by rw [Minf_u]; norm_num)
  simpa using this

/-- the exact quantities on this series: `x̄ = 2`, `lagCo 1 = −1`, `lagAbs 1 = 1` -/
example : mu (vals ts13) = 2 ∧ lagCo (vals ts13) 1 = -1 ∧ lagAbs (vals ts13) 1 = 1 := by
  have hmu : mu (vals ts13) = 2 := by simp [mu, vals]; norm_num
  refine ⟨hmu, ?_, ?_⟩
  · unfold lagCo; rw [hmu]; simp [lagPairs, vals]; norm_num
  · unfold lagAbs; rw [hmu]; simp [lagPairs, vals]; norm_num

/-- `acovf_mean_term_first_order` is a closed statement; its witness for `K = 1`: some model and series
with error above `u·(lagAbs + lagS) + n(u·mean|x|)²` -/
example : ∃ (M : FlModel) (ts : List (Fl M)), M.Idem ∧
    1 * (M.u * (lagAbs (vals ts) 1 + lagS (vals ts) 1)
          + ts.length * (M.u * Rounding2.meanAbs (vals ts)) ^ 2) <
      |(TS.acovf ts 1).val - lagCo (vals ts) 1 / ts.length| := by
  obtain ⟨M, ts, h1, _, _, h4⟩ := acovf_mean_term_first_order 1
  exact ⟨M, ts, h1, h4⟩

/-! #### autocorrelation -/

theorem ts13_devSq : 0 < devSq ts13 :=
  devSq_pos_of_ne ts13 ⟨1⟩ ⟨3⟩ (by simp) (by simp) (by norm_num)

/-- `acf_abs_le`, `acf_zero_error` on `[1, 3, 2]` in the 1 % model: `(2+3+9)·u = 0.14`, `(6+9)·u = 0.15` -/
example : |(TS.acf ts13 1).val| ≤ 1 + Minf.γ 14 := by
  have := acf_abs_le ts13 1 (by simp) ts13_devSq (by rw [Minf_u]; norm_num)
  simpa using this
example : |(TS.acf ts13 0).val - 1| ≤ Minf.γ 15 := by
  have := acf_zero_error ts13 (by simp) ts13_devSq (by rw [Minf_u]; norm_num)
  simpa using this

/-- `acf_zero_error_idem` in an idempotent model (`3 ↦ 3.03`, `u = 1/100`): hypotheses hold -/
noncomputable abbrev Mb100 : FlModel := FlModel.bump 3 (1 / 100) (by norm_num) (by norm_num)
noncomputable abbrev ts12 : List (Fl Mb100) := [⟨1⟩, ⟨2⟩]
example : |(TS.acf ts12 0).val - 1| ≤ Mb100.γ 4 :=
  acf_zero_error_idem (FlModel.bump_idem _ _ _ _) ts12 (by simp)
    (devSq_pos_of_ne ts12 ⟨1⟩ ⟨2⟩ (by simp) (by simp) (by norm_num))
    (by show ((4 : Nat) : ℝ) * (1 / 100) < 1; norm_num)

/-! #### matrix–vector products and the `Dot` trait -/

noncomputable abbrev v2b : List (Fl Mbump) := [⟨1⟩, ⟨1⟩]

example : ∃ c, matmul A22b v2b 2 2 false false = some c ∧ c.length = 2 := by
  obtain ⟨c, h1, h2, _⟩ := matvec_error (FlModel.bump_idem _ _ _ _) A22b v2b 2 2 rfl rfl
    (by norm_num) (by norm_num) (by rw [Mbump_u]; norm_num)
  exact ⟨c, h1, h2⟩
example : ∃ c, matmul A22b v2b 2 2 true false = some c ∧ c.length = 2 := by
  obtain ⟨c, h1, h2, _⟩ := matTvec_error (FlModel.bump_idem _ _ _ _) A22b v2b 2 2 rfl rfl
    (by norm_num) (by rw [Mbump_u]; norm_num)
  exact ⟨c, h1, h2⟩
example : ∃ r, DotT.dotMM .tDotT (⟨A22b, 2, 2⟩ : Mat (Fl Mbump)) ⟨B22b, 2, 2⟩ = some r ∧
    r.nrows = 2 ∧ r.ncols = 2 := by
  obtain ⟨r, h1, h2, h3, _⟩ := dotMM_error (FlModel.bump_idem _ _ _ _) .tDotT
    (⟨A22b, 2, 2⟩ : Mat (Fl Mbump)) ⟨B22b, 2, 2⟩ rfl rfl (by norm_num) (by norm_num) rfl
    (by rw [Mbump_u]; simp [C05.flagA]; norm_num)
  exact ⟨r, h1, h2, h3⟩

/-- the `f64` notes are about satisfiable hypotheses -/
example : ∃ (M : FlModel) (_ : ExpLnStd M), M.u = 1 / 2 ^ 53 ∧ uF M = 1 / 2 ^ 52 := by
  refine ⟨FlModel.inflate (1 / 2 ^ 53) (by norm_num) (by norm_num),
    { uf := 1 / 2 ^ 52, uf_nonneg := by norm_num, uf_lt_one := by norm_num,
      expR := Real.exp, lnR := Real.log,
      exp_std := fun x => ⟨0, by norm_num, by simp⟩,
      ln_std := fun x _ => ⟨0, by norm_num, by simp⟩ }, rfl, rfl⟩

end Examples

end Cv.Rounding3

/-! ### Non-vacuity of the Vector `Dot` methods -/

namespace Cv.Rounding3.ExamplesDot
open Cv Cv.FlModel Cv.Rounding Cv.C05L Cv.DotT Cv.C05 Cv.C05W
open Cv.Rounding.Examples (Mbump Mbump_u x12 y11)
open Cv.Rounding3.Examples (A22b v2b)

/-- `dotVV_error`, `dotMV_error`, `dotVM_error` in the idempotent model (`3 ↦ 3.75`, `u = 1/4`): the hypotheses hold -/
example : ∃ r, dotVV .tDot x12 y11 = some r ∧ |r.val - (prods x12 y11).sum| ≤ 3 := by
  obtain ⟨r, h1, h2⟩ := dotVV_error (FlModel.bump_idem _ _ _ _) .tDot x12 y11 rfl (by rw [Mbump_u]; norm_num)
  refine ⟨r, h1, h2.trans ?_⟩
  have : (x12 : List (Fl Mbump)).length = 2 := rfl
  rw [this]
  simp only [FlModel.γ, Mbump_u, prods, x12, y11, List.zipWith_cons_cons, List.zipWith_nil_right,
    List.map_cons, List.map_nil, List.sum_cons, List.sum_nil]
  norm_num
example : ∃ d, dotMV .dot (⟨A22b, 2, 2⟩ : Mat (Fl Mbump)) v2b = some d := by
  obtain ⟨d, _, h1, _⟩ := dotMV_error (FlModel.bump_idem _ _ _ _) .dot (⟨A22b, 2, 2⟩ : Mat (Fl Mbump)) v2b rfl
    (by norm_num) (by simp) (by simp [mvInner, flagA, flagB]) (by rw [Mbump_u]; simp [mvInner, flagA]; norm_num)
  exact ⟨d, h1⟩
example : ∃ d, dotVM .dotT v2b (⟨A22b, 2, 2⟩ : Mat (Fl Mbump)) = some d := by
  obtain ⟨d, _, h1, _⟩ := dotVM_error (FlModel.bump_idem _ _ _ _) .dotT v2b (⟨A22b, 2, 2⟩ : Mat (Fl Mbump)) rfl
    (by norm_num) (by simp [vmInner, flagA, flagB]) (by rw [Mbump_u]; simp [vmInner, flagA]; norm_num)
  exact ⟨d, h1⟩

end Cv.Rounding3.ExamplesDot

/-! ### Non-vacuity of the underflow-aware variants (`Cv.Rounding3U`) -/

namespace Cv.Rounding3U.Examples
open Cv Cv.FlModel Cv.Rounding Cv.Rounding3U
open Cv.Rounding3.Examples (Mstep Mstep_mono Mstep_one)

/-- a libm that flushes `exp` to zero below `−745` (as IEEE binary64 does), on the monotone 1 % model -/
noncomputable local instance : ExpLnUfl Mstep := ExpLnUfl.flush Mstep (-745) (by norm_num)

/-- `logistic_range_ufl`: hypotheses hold; at `x = 800` the exponential `exp(−800)` underflows to `0` and the
computed logistic is exactly `1` -/
example : (0 ≤ (logistic (⟨800⟩ : Fl Mstep)).val ∧ (logistic (⟨800⟩ : Fl Mstep)).val ≤ 1) ∧
    (logistic (⟨800⟩ : Fl Mstep)).val = 1 := by
  refine ⟨logistic_range_ufl Mstep_mono Mstep_one _, ?_⟩
  show Mstep.rnd (1 / Mstep.rnd (1 + (if (-(800 : ℝ)) < -745 then 0 else Real.exp (-(800 : ℝ))))) = 1
  rw [if_pos (by norm_num), add_zero, Mstep_one, div_one, Mstep_one]

noncomputable local instance : ExpLnUfl FlModel.exact := ExpLnUfl.flush FlModel.exact (-745) (by norm_num)

/-- **underflow really makes the RBF value `0`** (so `0 < k̂` cannot be a theorem about IEEE arithmetic):
`σ² = 1`, `ℓ = 1/100`, `x − y = 2000` gives the exponent `−2·10¹⁰ < −745`; `rbf_range_ufl` still applies -/
example : ((⟨⟨1⟩, ⟨1 / 100⟩⟩ : Gp.RBF (Fl FlModel.exact)).fwd ⟨1000⟩ ⟨-1000⟩).val = 0 ∧
    0 ≤ ((⟨⟨1⟩, ⟨1 / 100⟩⟩ : Gp.RBF (Fl FlModel.exact)).fwd ⟨1000⟩ ⟨-1000⟩).val := by
  refine ⟨?_, (rbf_range_ufl (⟨⟨1⟩, ⟨1 / 100⟩⟩ : Gp.RBF (Fl FlModel.exact)) ⟨1000⟩ ⟨-1000⟩ (by norm_num)).1⟩
  have harg : ((-(powi ((⟨1000⟩ : Fl FlModel.exact) - ⟨-1000⟩) 2)) /
      (⟨⟨1⟩, ⟨1 / 100⟩⟩ : Gp.RBF (Fl FlModel.exact)).denom).val = -20000000000 := by
    show FlModel.exact.rnd (-(FlModel.exact.rnd (1 * FlModel.exact.rnd
      (FlModel.exact.rnd (1000 - -1000) * FlModel.exact.rnd (1000 - -1000)))) /
      FlModel.exact.rnd (FlModel.exact.rnd ((2 : Nat) : ℝ) * FlModel.exact.rnd (1 * FlModel.exact.rnd
        ((1 / 100 : ℝ) * (1 / 100))))) = _
    simp only [FlModel.exact, id]
    norm_num
  rw [rbf_unfold_u]
  show FlModel.exact.rnd ((if _ < (-745 : ℝ) then 0 else Real.exp _) * 1) = 0
  rw [harg, if_pos (by norm_num)]
  simp [FlModel.exact]

end Cv.Rounding3U.Examples
