"""C06 — GLM fitting returns the (penalised) MLE with correct inference."""
import math
import os

from .common import Failure, f2h, h2f, parse_reply, vec, fs

ID = "C06"
BIN = "c06"
PROOF_MODULES = ["Compute.Props.C06", "Compute.Lemmas.C06Perm", "Compute.Lemmas.C06Spec", "Compute.Lemmas.C06Basic"]
REQUIRED_THEOREMS = [
    "Cv.C06.dbeta_spec", "Cv.C06.ddbeta_spec", "Cv.C06.penalty_spec",
    "Cv.C06.fixed_point_iff_score", "Cv.C06.family_tables", "Cv.C06.gaussian_deviance_eq_rss", "Cv.C06.gaussian_normal_equations",
    "Cv.C06.fit_result", "Cv.C06.fit_ok_converged", "Cv.C06.fit_stored", "Cv.C06.dispersion_spec", "Cv.C06.covariance_spec",
    "Cv.C06.standardError_spec", "Cv.C06.predict_spec", "Cv.C06.aic_spec", "Cv.C06.bic_spec",
    "Cv.C06.dbeta_perm", "Cv.C06.ddbeta_perm", "Cv.C06.deviance_perm", "Cv.C06.mean_perm",
    "Cv.C06.loopBody_perm", "Cv.C06.fitLoop_perm",
]
RULE = ("six families x designs n 20..120 (quick) / 20..500 (thorough), p 1..6 with standardised random, polynomial and "
        "indicator columns x {no weights, random weights, constant c in {2,3,.5,.25,7,10}, piecewise constant, all-equal-but-one} x {no offset, offset} x alpha in {0, 0.1, 1, 10} x tolerance "
        "1e-5..1e-14 x max_iter in {1..200}, responses simulated from the model with |beta| <= 1.5; every request "
        "followed (with probability 1/3) by the same problem with permuted rows; plus panic classes; "
        "non-trivial = distinct (family, p, weights?, offset?, alpha, tolerance decade, status)")
EXHAUSTIVE = {"quick": False, "thorough": False}
NOT_PROVED = [
    "that the convergence test (relative change of the penalised deviance below the tolerance) implies a small score: "
    "false in general; decided per run by the mpmath score-equation oracle on the returned coefficients",
    "floating-point rounding of the scoring iteration (tied bit-for-bit to the model at Float, not bounded by a theorem)",
    "permutation invariance is proved for gradient, information, mean of y, deviance and lifted to every iterate of the "
    "loop (fitLoop_perm); the pre-loop checks (is_design on permuted rows) and the post-loop stores are not assembled into "
    "one fit_perm theorem; at Float the invariance holds to rounding only (oracle re-runs permuted problems)",
    "the textbook closed forms of the Poisson / Bernoulli / Gamma deviances need ln(y/mu) = ln y - ln mu: with ln abstract "
    "the theorem states the source's formula term by term (devTermF)",
    "correctness of the linear solver / inverse used inside the step (C01's theorems; here a hypothesis H * solve H g = g)",
]
TRUSTED = [
    "mpmath (50 digits) for the score equations, the ridge normal equations, deviance, information inverse and predictions",
    "the shared models Cv.solve / Cv.invertMatrix (C01), Cv.matmul (C05), Cv.Vops kernels (C04), Cv.sum8 / Cv.dot8 / Cv.mean",
]
ASSUMPTIONS = ["default cargo features (no blas/lapack)", "Iterator::sum::<f64>() folds from -0.0 (Rust >= 1.83)"]
IMPL_TIMEOUT = 1800
MODEL_TIMEOUT = 1800

FAMILIES = ["gaussian", "bernoulli", "quasipoisson", "poisson", "gamma", "exponential"]
HAS_DISP = {"gaussian": True, "bernoulli": False, "quasipoisson": True, "poisson": False, "gamma": True, "exponential": False}
ALPHAS = [0.0, 0.1, 1.0, 10.0]
TOLS = [1e-5, 1e-6, 1e-8, 1e-10, 1e-12, 1e-14]
EPS = 2.0 ** -52

# ---- oracle constants.  Calibration: max observed ratio (C06_STATS=1) over VERIF_SEED=1..5 quick and one thorough run:
#      score 4.3, gauss 0.01, dev 0.94, cov 0.40, se 0.20, pred 1.3 (eps units), perm 1.15, bic 0.9 (eps units), score(x,y) 0.09
C_SCORE = 500.0      # Newton decrement^2 (g^T H^-1 g, mpmath) at the returned beta <= C_SCORE * tol * penalised deviance + floor
C_ROUND = 1.0e4      # multiplier of the double-precision rounding floors (n * eps * sum |terms|)
C_DEV = 100.0        # |reported deviance - deviance(mu(beta))| <= C_DEV * (|grad dev|_{H^-1} * last-step bound + tol * pd) + floor
C_COV = 1000.0       # covariance / std errors vs mpmath at the returned beta: C_COV * max_i |x_i|_{H^-1} * last-step bound + floor
C_PRED = 1.0e3       # predictions: error <= C_PRED * eps * (1 + sum_j |x_ij beta_j| + |off_i|) (relative for exp / logistic links)
C_PERM = 1000.0      # permuted re-run: coefficients agree to C_PERM * n * eps * cond(H) (+ twice the last-step bound)


# ---------------------------------------------------------------- request construction
def mkline(fam, n, p, x, y, w, off, alpha, tol, maxiter):
    return "glm %s %d %d %s %s %s %s %s %s %d" % (
        fam, n, p, fs(x), fs(y),
        "0" if w is None else "1 " + vec(w),
        "0" if off is None else "1 " + vec(off),
        f2h(alpha), f2h(tol), maxiter)


def _parse_problem(t, k):
    n, p = int(t[k]), int(t[k + 1])
    k += 2
    x = [h2f(s) for s in t[k:k + n * p]]
    k += n * p
    y = [h2f(s) for s in t[k:k + n]]
    k += n
    opt = []
    for _ in range(2):
        if t[k] == "0":
            opt.append(None)
            k += 1
        else:
            m = int(t[k + 1])
            opt.append([h2f(s) for s in t[k + 2:k + 2 + m]])
            k += 2 + m
    return (n, p, x, y, opt[0], opt[1]), k


def parse_line(line):
    """`glm` line, or `glm2` line reduced to the problem the second fit sees (weights / offsets of the first fit persist)"""
    t = line.split()
    fam = t[1]
    if t[0] == "glm2":
        alpha, tol, maxiter = h2f(t[2]), h2f(t[3]), int(t[4])
        (n1, p1, x1, y1, w1, o1), k = _parse_problem(t, 5)
        (n, p, x, y, w, off), k = _parse_problem(t, k)
        return fam, n, p, x, y, (w if w is not None else w1), (off if off is not None else o1), alpha, tol, maxiter
    (n, p, x, y, w, off), k = _parse_problem(t, 2)
    alpha, tol, maxiter = h2f(t[k]), h2f(t[k + 1]), int(t[k + 2])
    return fam, n, p, x, y, w, off, alpha, tol, maxiter


def probtoks(n, p, x, y, w, off):
    return "%d %d %s %s %s %s" % (n, p, fs(x), fs(y), "0" if w is None else "1 " + vec(w), "0" if off is None else "1 " + vec(off))


def mkline2(fam, alpha, tol, maxiter, prob1, prob2):
    return "glm2 %s %s %s %d %s %s" % (fam, f2h(alpha), f2h(tol), maxiter, probtoks(*prob1), probtoks(*prob2))


def sum8(xs):
    """`utils::sum`: the 8-way unrolled association of the source, in doubles"""
    s, k = 0.0, 0
    while k + 8 <= len(xs):
        s += ((((((xs[k] + xs[k + 1]) + xs[k + 2]) + xs[k + 3]) + xs[k + 4]) + xs[k + 5]) + xs[k + 6]) + xs[k + 7]
        k += 8
    for v in xs[k:]:
        s += v
    return s


def round_as_usize(v):
    """`v.round() as usize`: half away from zero, saturating, NaN -> 0"""
    if v != v or v <= 0:
        return 0
    return min(int(math.floor(v + 0.5)) if v < 2.0 ** 52 else int(v), 2 ** 64 - 1)


def parse_vec(toks, k):
    """-> (list | None, next index); `P` = accessor panicked"""
    if toks[k] == "P":
        return None, k + 1
    m = int(toks[k])
    return [h2f(s) for s in toks[k + 1:k + 1 + m]], k + 1 + m


def parse_result(toks):
    r = {}
    r["ok"] = toks[0] == "1"
    r["coef"], k = parse_vec(toks, 1)
    r["dev"] = h2f(toks[k])
    k += 1
    r["disp"] = None if toks[k] == "P" else h2f(toks[k])
    k += 1
    r["cov"], k = parse_vec(toks, k)
    r["se"], k = parse_vec(toks, k)
    r["pred"], k = parse_vec(toks, k)
    r["aic"] = h2f(toks[k])
    r["bic"] = h2f(toks[k + 1])
    r["score"] = None if (len(toks) <= k + 2 or toks[k + 2] == "P") else h2f(toks[k + 2])
    return r


# ---------------------------------------------------------------- generators
def standardise(col):
    n = len(col)
    m = sum(col) / n
    v = sum((c - m) ** 2 for c in col) / n
    s = math.sqrt(v) if v > 0 else 1.0
    return [(c - m) / s for c in col]


def poisson_draw(rng, lam):
    if lam < 30:
        L = math.exp(-lam)
        k, pr = 0, 1.0
        while True:
            pr *= rng.random()
            if pr <= L:
                return float(k)
            k += 1
    return float(max(0, round(lam + math.sqrt(lam) * rng.normal())))


def design_matrix(rng, n, p):
    """first column ones; the others standardised random / polynomial / indicator"""
    cols = [[1.0] * n]
    kinds = []
    t = [rng.uniform(-1, 1) for _ in range(n)]
    deg = 1
    for _ in range(p - 1):
        kind = rng.choice(["random", "random", "poly", "indicator"])
        kinds.append(kind)
        if kind == "random":
            cols.append(standardise([rng.normal() for _ in range(n)]))
        elif kind == "poly":
            cols.append(standardise([ti ** deg for ti in t]))
            deg += 1
        else:
            while True:
                q = rng.uniform(0.3, 0.7)
                c = [1.0 if rng.random() < q else 0.0 for _ in range(n)]
                if 2 <= sum(c) <= n - 2:
                    break
            cols.append(c)
    x = [cols[j][i] for i in range(n) for j in range(p)]
    return x, kinds


def simulate(rng, fam, eta):
    y = []
    for e in eta:
        if fam == "gaussian":
            y.append(e + 0.5 * rng.normal())
        elif fam == "bernoulli":
            y.append(1.0 if rng.random() < 1.0 / (1.0 + math.exp(-e)) else 0.0)
        elif fam in ("poisson", "quasipoisson"):
            y.append(poisson_draw(rng, math.exp(e)))
        elif fam == "gamma":
            k = rng.randint(2, 5)
            y.append(-(math.exp(e) / k) * sum(math.log(max(rng.random(), 1e-300)) for _ in range(k)))
        else:
            y.append(-math.exp(e) * math.log(max(rng.random(), 1e-300)))
    return y


def problem(rng, fam, n, p, has_w, has_off):
    x, kinds = design_matrix(rng, n, p)
    scale = 1.0 if rng.chance(0.5) else 1.0 / math.sqrt(p)
    beta = [rng.uniform(-1.5, 1.5) * scale for _ in range(p)]
    if fam in ("poisson", "quasipoisson", "gamma", "exponential") and rng.chance(0.5):
        beta[0] = rng.uniform(-1.0, 1.2)     # half of the log-link problems with moderate means, half with the full |beta| <= 1.5
    off = [0.3 * rng.normal() for _ in range(n)] if has_off else None
    eta = [sum(x[i * p + j] * beta[j] for j in range(p)) + (off[i] if off else 0.0) for i in range(n)]
    y = simulate(rng, fam, eta)
    if has_w:
        w = [float(rng.randint(1, 3)) for _ in range(n)] if rng.chance(0.5) else [rng.uniform(0.5, 2.0) for _ in range(n)]
    else:
        w = None
    return x, y, w, off, kinds


CONST_WEIGHTS = [2.0, 3.0, 0.5, 0.25, 7.0, 10.0]
WEIGHT_KINDS = ["constant", "piecewise", "all-but-one"]


def structured_weights(rng, n, kind, c):
    """constant c; two or three distinct values in blocks / interleaved; all equal to c except one entry"""
    if kind == "constant":
        return [c] * n
    if kind == "piecewise":
        vals = [c] + [v for v in rng.shuffle(list(CONST_WEIGHTS + [1.0])) if v != c][:rng.randint(1, 2)]
        if rng.chance(0.5):
            cuts = sorted(rng.randint(1, n - 1) for _ in range(len(vals) - 1))
            return [vals[sum(1 for ct in cuts if i >= ct)] for i in range(n)]
        return [vals[i % len(vals)] for i in range(n)]
    w = [c] * n
    w[rng.choice([0, n - 1, rng.randint(0, n - 1)])] = rng.choice([v for v in CONST_WEIGHTS + [1.0] if v != c])
    return w


def permuted(rng, n, p, x, y, w, off):
    perm = rng.shuffle(list(range(n)))
    xp = [x[i * p + j] for i in perm for j in range(p)]
    yp = [y[i] for i in perm]
    wp = [w[i] for i in perm] if w is not None else None
    op = [off[i] for i in perm] if off is not None else None
    return perm, xp, yp, wp, op


def corpus():
    """witnesses of the repaired defects F14 (penalty without alpha) and F15 (unsquared Gaussian deviance), panic classes"""
    L = []
    x = [1.0, -1.5, 1.0, -0.5, 1.0, 0.0, 1.0, 0.5, 1.0, 1.5, 1.0, 2.0]
    y = [0.1, 0.9, 1.6, 2.4, 3.7, 4.1]
    for a in (0.0, 0.1, 1.0, 10.0):
        L.append(mkline("gaussian", 6, 2, x, y, None, None, a, 1e-8, 50))
    L.append(mkline("gaussian", 6, 2, x, y, [1.0, 2.0, 1.0, 3.0, 1.0, 2.0], [0.1, 0.0, -0.1, 0.2, 0.0, 0.3], 10.0, 1e-10, 50))
    # the crate's own test (Wikipedia logistic example)
    hours = [0.50, 0.75, 1.00, 1.25, 1.50, 1.75, 1.75, 2.00, 2.25, 2.50, 2.75, 3.00, 3.25, 3.50, 4.00, 4.25, 4.50, 4.75, 5.00, 5.50]
    passed = [0., 0., 0., 0., 0., 0., 1., 0., 1., 0., 1., 0., 1., 0., 1., 1., 1., 1., 1., 1.]
    xd = [v for h in hours for v in (1.0, h)]
    L.append(mkline("bernoulli", 20, 2, xd, passed, None, None, 0.0, 1e-5, 50))
    L.append(mkline("bernoulli", 20, 2, xd, passed, None, None, 1.0, 1e-10, 50))
    L.append(mkline("bernoulli", 20, 2, xd, passed, None, None, 0.0, 1e-10, 3))   # Err: not converged
    # constant weights c != 1 (seeded change C06d: "uniform weights only rescale the likelihood" drops them): the Fisher
    # information, n = round(sum w) and the ridge balance all depend on c
    cnt = [0.0, 1.0, 0.0, 2.0, 1.0, 3.0, 2.0, 5.0, 4.0, 6.0, 9.0, 8.0]
    xc = [v for t in [-1.5, -1.2, -0.9, -0.6, -0.3, 0.0, 0.3, 0.6, 0.9, 1.2, 1.5, 1.8] for v in (1.0, t)]
    for c in (3.0, 0.25):
        for a in (0.0, 1.0):
            L.append(mkline("poisson", 12, 2, xc, cnt, [c] * 12, None, a, 1e-10, 200))
            L.append(mkline("gaussian", 12, 2, xc, [0.3 * v + 0.1 for v in cnt], [c] * 12, None, a, 1e-10, 200))
    L.append(mkline("bernoulli", 20, 2, xd, passed, [2.0] * 20, None, 0.1, 1e-10, 200))
    L.append(mkline("exponential", 12, 2, xc, [v + 0.5 for v in cnt], [7.0] * 12, None, 0.0, 1e-10, 200))
    # F51 (repaired): the log-link families used to start at eta = mean(y) on the LINK scale; for 354.9 < mean(y) <= 709.78
    # dmu*dmu overflowed, the step was 0 and `fit` reported success at the start value (witness: y in {399, 401} -> coef 400
    # instead of ln 400 = 5.99).  They start at ln(mean(y)) now: a stationary point or Err is demanded by the oracle.
    for m in (300.0, 400.0, 712.0, 1.0e6):
        for mi in (1000, 3):
            L.append(mkline("poisson", 20, 1, [1.0] * 20, [m - 1, m + 1] * 10, None, None, 0.0, 1e-8, mi))
    L.append(mkline("gamma", 20, 1, [1.0] * 20, [399.5, 400.5] * 10, None, None, 0.0, 1e-8, 100))
    # all-zero counts: ln(mean(y)) = -inf, the fit must end in Err (never Ok)
    L.append(mkline("poisson", 20, 1, [1.0] * 20, [0.0] * 20, None, None, 0.0, 1e-8, 50))
    L.append(mkline("quasipoisson", 20, 2, [v for t in range(20) for v in (1.0, t / 10.0 - 1.0)], [0.0] * 20, None, None, 0.1, 1e-8, 50))
    # panic classes
    L.append(mkline("gaussian", 6, 2, [2.0] + x[1:], y, None, None, 0.0, 1e-8, 50))          # not a design matrix
    L.append(mkline("gaussian", 6, 2, x, y, [1.0, 2.0], None, 0.0, 1e-8, 50))                 # wrong number of weights
    L.append(mkline("gaussian", 6, 2, x, y, None, [1.0], 0.0, 1e-8, 50))                      # wrong number of offsets
    L.append("glm gaussian 0 0 0 0 %s %s 5" % (f2h(0.0), f2h(1e-5)))                          # n = 0
    L.append(mkline("gaussian", 2, 3, [1.0, 0.5, 0.25, 1.0, -0.5, 0.25], [1.0, 2.0], None, None, 0.0, 1e-8, 5))  # n < p
    L.append(mkline("gaussian", 4, 3, [1.0, 1.0, 2.0, 1.0, 2.0, 4.0, 1.0, 3.0, 6.0, 1.0, 4.0, 8.0], [1.0, 2.0, 2.5, 4.0], None, None, 0.0, 1e-8, 5))  # collinear
    L.append(mkline("poisson", 6, 2, x, [0.0, 1.0, 0.0, 2.0, 3.0, 5.0], None, None, 0.0, 1e-8, 0))   # max_iter = 0
    return L


def gen(rng, tier):
    lines = []
    cover = {"family": {}, "status_hint": {}, "perm_pairs": 0, "weights": 0, "offsets": 0, "alpha": {}, "kinds": {}}
    nprob = 150 if tier == "quick" else 2400
    nmax = 120 if tier == "quick" else 500
    for k in range(nprob):
        fam = FAMILIES[k % 6]
        p = rng.randint(1, 6)
        n = rng.randint(max(20, 8 * p), nmax) if rng.chance(0.7) else rng.randint(20, 40)
        if fam == "bernoulli":
            n = max(n, 15 * p)   # keep away from separable samples (the MLE must exist)
        has_w, has_off = rng.chance(0.5), rng.chance(0.5)
        alpha = rng.choice(ALPHAS)
        tol = rng.choice(TOLS)
        maxiter = rng.choice([200, 200, 100, 50, 50, 25, 10, 5, 2, 1])
        x, y, w, off, kinds = problem(rng, fam, n, p, has_w, has_off)
        lines.append(mkline(fam, n, p, x, y, w, off, alpha, tol, maxiter))
        cover["family"][fam] = cover["family"].get(fam, 0) + 1
        cover["weights"] += has_w
        cover["offsets"] += has_off
        cover["alpha"][str(alpha)] = cover["alpha"].get(str(alpha), 0) + 1
        for kd in kinds:
            cover["kinds"][kd] = cover["kinds"].get(kd, 0) + 1
        if rng.chance(1 / 3):
            perm, xp, yp, wp, op = permuted(rng, n, p, x, y, w, off)
            lines.append("# perm " + " ".join(map(str, perm)))
            lines.append(mkline(fam, n, p, xp, yp, wp, op, alpha, tol, maxiter))
            cover["perm_pairs"] += 1
    # ---- structured weights: constant c != 1 (dyadic and non-dyadic), piecewise constant, all equal except one.
    #      Full grid family x alpha x offset for each structure; tolerances / budgets chosen so that the fits succeed and
    #      the oracle (weighted information, weighted ridge score, n = round(sum w)) decides them on the implementation alone.
    cover["weight_structure"] = {}
    reps = 1 if tier == "quick" else 4
    k = 0
    for _ in range(reps):
        for kind in WEIGHT_KINDS:
            for fam in FAMILIES:
                for alpha in ALPHAS:
                    for has_off in (False, True):
                        pp = rng.randint(1, 3) if kind == "constant" else rng.randint(1, 4)
                        n = rng.randint(max(20, 15 * pp), 60)
                        x, y, _, off, kinds = problem(rng, fam, n, pp, False, has_off)
                        w = structured_weights(rng, n, kind, CONST_WEIGHTS[k % len(CONST_WEIGHTS)])
                        k += 1
                        lines.append(mkline(fam, n, pp, x, y, w, off, alpha, rng.choice([1e-8, 1e-10, 1e-12]), 200))
                        cover["weight_structure"][kind] = cover["weight_structure"].get(kind, 0) + 1
    generic_strata(rng.fork("generic"), tier, lines, cover)
    return lines, cover


SPECIAL_ALPHAS = [-0.0, 0.5, 1.0 / 3.0, 2.0, 3.0, 1e-300, -1.0, 0.1 * (1 + EPS)]
SPECIAL_TOLS = [0.0, 1.0, 0.5, 1e-16, 1e-300, float("inf"), 1e-5 * (1 + EPS), 1e-14]
BOUNDARY_N = {"quick": [23, 24, 25, 31, 32, 33, 63, 64, 65, 127, 128, 129],
              "thorough": [23, 24, 25, 31, 32, 33, 39, 40, 41, 63, 64, 65, 127, 128, 129, 255, 256, 257, 499, 500]}


def raw_design(rng, n, p):
    """intercept + NON-centred columns (0/1 indicators, raw powers of t in [0, 2]): the intercept is coupled to every slope"""
    t = [rng.uniform(0.0, 2.0) for _ in range(n)]
    cols = [[1.0] * n]
    deg = 1
    for j in range(p - 1):
        if j % 2 == 0:
            while True:
                c = [1.0 if rng.random() < 0.4 else 0.0 for _ in range(n)]
                if 2 <= sum(c) <= n - 2:
                    break
            cols.append(c)
        else:
            cols.append([ti ** deg for ti in t])
            deg += 1
    return [cols[j][i] for i in range(n) for j in range(p)]


def respond(rng, fam, n, p, x, off, b0=None, bscale=0.7):
    beta = [rng.uniform(-1.5, 1.5) * bscale for _ in range(p)]
    beta[0] = rng.uniform(-1.0, 1.2) if b0 is None else b0
    eta = [sum(x[i * p + j] * beta[j] for j in range(p)) + (off[i] if off else 0.0) for i in range(n)]
    return simulate(rng, fam, eta)


def generic_strata(rng, tier, lines, cover):
    """tools/GENERIC_STRATA.md: exact special values, size boundaries, threshold bands, object reuse, extreme scale."""
    g = cover.setdefault("generic", {})

    def add(tag, line):
        lines.append(line)
        g[tag] = g.get(tag, 0) + 1

    def small(fam, p=None, nlo=20, nhi=48, has_w=None, has_off=None):
        pp = p or rng.randint(1, 3)
        n = rng.randint(max(nlo, 15 * pp if fam == "bernoulli" else nlo), max(nhi, 15 * pp + 5))
        x, y, w, off, _ = problem(rng, fam, n, pp, rng.chance(0.5) if has_w is None else has_w,
                                  rng.chance(0.5) if has_off is None else has_off)
        return n, pp, x, y, w, off

    reps = 1 if tier == "quick" else 3
    for rep in range(reps):
        # (2) size boundaries of n (8-way unrolled kernels: residues mod 8, powers of two and neighbours)
        for k, n in enumerate(BOUNDARY_N[tier]):
            fam = FAMILIES[(k + rep) % 6]
            pp = rng.randint(1, min(6, max(1, n // 15))) if fam == "bernoulli" else rng.randint(1, 6)
            x, y, w, off, _ = problem(rng, fam, n, pp, rng.chance(0.5), rng.chance(0.5))
            add("size-boundary", mkline(fam, n, pp, x, y, w, off, rng.choice(ALPHAS), rng.choice(TOLS), 100))
        # (1) special values of alpha and of the tolerance (outside the quantifier: tie + exact checks; inside: all checks)
        for k, a in enumerate(SPECIAL_ALPHAS):
            fam = FAMILIES[(k + rep) % 6]
            n, pp, x, y, w, off = small(fam)
            add("special-alpha", mkline(fam, n, pp, x, y, w, off, a, rng.choice([1e-8, 1e-10]), 100))
        for k, tl in enumerate(SPECIAL_TOLS):
            fam = FAMILIES[(k + 3 + rep) % 6]
            n, pp, x, y, w, off = small(fam)
            add("special-tol", mkline(fam, n, pp, x, y, w, off, rng.choice(ALPHAS), tl, 60))
        # (1)/(3) fractional weights: sum with fractional part exactly .5 / .75 / .25 (dyadic, exact), sums that are an integer in
        # exact arithmetic but not in doubles (0.1, 1.1, 0.7 ...), and a last weight tuned so that the sum lands next to k or k + .5
        for k, fam in enumerate(FAMILIES + ["gaussian", "gamma", "quasipoisson"]):
            n, pp, x, y, _, off = small(fam, has_w=False)
            kind = (k + rep) % 4
            if kind == 0:
                w = [rng.choice([0.25, 0.5, 0.75, 1.25, 1.5, 2.5]) for _ in range(n)]
                w[-1] += rng.choice([0.0, 0.25, 0.5])
            elif kind == 1:
                w = [rng.choice([0.1, 1.1, 0.7, 0.3, 2.3])] * n
            elif kind == 2:
                w = [rng.uniform(0.5, 2.0) for _ in range(n - 1)]
                target = math.floor(sum(w)) + 1 + rng.choice([0.0, 0.5])
                last = target - sum8(w)
                w.append(last * (1 + rng.choice([-2, -1, 0, 1, 2]) * EPS))
            else:
                w = [rng.uniform(0.0, 1.0) for _ in range(n)]
                w[rng.randint(0, n - 1)] = 0.0        # an observation with weight exactly zero
            add("fractional-weights", mkline(fam, n, pp, x, y, w, off, rng.choice([0.0, 0.0, 1.0]), 1e-10, 200))
        # (4) every family x kinds of offsets through fit, predict and score (Gaussian with offsets included)
        for fam in FAMILIES:
            for okind in ("random", "zeros", "negzeros", "integers"):
                pp = rng.randint(1, 3)
                n = rng.randint(max(20, 15 * pp), 50)
                x, _ = design_matrix(rng, n, pp)
                off = {"random": [0.5 * rng.normal() for _ in range(n)], "zeros": [0.0] * n, "negzeros": [-0.0] * n,
                       "integers": [float(rng.randint(-2, 2)) for _ in range(n)]}[okind]
                y = respond(rng, fam, n, pp, x, off)
                w = [rng.uniform(0.5, 2.0) for _ in range(n)] if rng.chance(0.3) else None
                add("offsets-" + okind, mkline(fam, n, pp, x, y, w, off, rng.choice(ALPHAS), 1e-10, 200))
        # (1) exact-zero / integer / half-integer responses
        for k in range(8):
            fam = ["gaussian", "poisson", "quasipoisson", "gaussian"][k % 4]
            pp = rng.randint(1, 3)
            n = rng.randint(20, 40)
            x, _ = design_matrix(rng, n, pp)
            if fam == "gaussian":
                y = [rng.choice([0.0, -0.0, 0.5, 1.0, -1.0, 2.0, 1.5, 1.0 / 3.0, 3.0]) for _ in range(n)]
            else:
                y = respond(rng, fam, n, pp, x, None, b0=rng.uniform(-1.5, -0.3))   # mostly zero counts
                if sum(y) == 0:
                    y[0] = 1.0
            add("exact-zero-responses", mkline(fam, n, pp, x, y, None, None, rng.choice(ALPHAS), 1e-8, 200))
        # (3) large and tiny means for the log-link families (F51: the start value is ln(mean(y)); before the repair
        # 354.9 < mean(y) <= 709.78 gave a false success and mean(y) > 709.78 NaN): counts in the hundreds .. 1e6 must converge
        # to a stationary point (or Err on a short budget); all-zero counts (ln 0 = -inf) must end in Err
        for k, m in enumerate([300.0, 354.0, 356.0, 600.0, 709.0, 709.78, 712.0, 1575.0, 1.0e4, 1.0e6, 0.0, 0.05]):
            fam = ["poisson", "quasipoisson", "gamma", "exponential"][(k + rep) % 4]
            pp = rng.randint(1, 2)
            n = rng.randint(20, 30)
            x, _ = design_matrix(rng, n, pp)
            if m == 0.0:
                fam = ["poisson", "quasipoisson"][k % 2]
                y = [0.0] * n
            elif m < 1:
                fam = ["poisson", "quasipoisson"][k % 2]
                y = [0.0] * n
                y[rng.randint(0, n - 1)] = 1.0
            else:
                y = [float(max(1, round(m * (1 + 0.05 * rng.normal())))) for _ in range(n)]
            off = [math.log(1000.0) + 0.1 * rng.normal() for _ in range(n)] if (m >= 1000 and rng.chance(0.5)) else None
            add("large-or-zero-mean", mkline(fam, n, pp, x, y, None, off, rng.choice([0.0, 0.1]), 1e-8, rng.choice([5, 50, 200])))
        # (3) iteration budget: max_iter = 0..9 on the same problem brackets the pass at which convergence is declared
        for fam in FAMILIES:
            n, pp, x, y, w, off = small(fam, nhi=30)
            a, tl = rng.choice(ALPHAS), rng.choice([1e-5, 1e-8, 1e-12])
            for mi in range(0, 10):
                add("max-iter-sweep", mkline(fam, n, pp, x, y, w, off, a, tl, mi))
        # (2) n = p - 1, p, p + 1, p + 2 (saturated / underdetermined; dispersion divides by n - p)
        for fam in FAMILIES:
            for pp in (1, 2, 3):
                for n in (max(1, pp - 1), pp, pp + 1, pp + 2):
                    x, _ = design_matrix(rng, max(n, 4), pp)
                    x = x[:n * pp]
                    y = respond(rng, fam, n, pp, x, None)
                    if fam in ("gamma", "exponential"):
                        y = [max(v, 0.01) for v in y]
                    add("n-near-p", mkline(fam, n, pp, x, y, None, None, rng.choice([0.0, 1.0]), 1e-8, 30))
        # (1) non-centred indicator / raw polynomial columns: the intercept is coupled to the slopes (ridge: the intercept
        # differs from mean(y)); every family x alpha > 0
        for fam in FAMILIES:
            for a in (0.1, 1.0, 10.0):
                pp = rng.randint(2, 4)
                n = rng.randint(max(24, 15 * pp), 70)
                x = raw_design(rng, n, pp)
                off = [0.3 * rng.normal() for _ in range(n)] if rng.chance(0.4) else None
                y = respond(rng, fam, n, pp, x, off, bscale=0.4)
                w = [rng.uniform(0.5, 2.0) for _ in range(n)] if rng.chance(0.4) else None
                add("coupled-intercept", mkline(fam, n, pp, x, y, w, off, a, rng.choice([1e-8, 1e-12]), 200))
        # (3) is_design: |x_i0 - 1| > EPSILON rejects; entries within one EPSILON of 1 are accepted and used as they are
        for d in (EPS, -EPS, EPS / 2, 2 * EPS, -2 * EPS, 1.5 * EPS):
            fam = rng.choice(FAMILIES)
            n, pp, x, y, w, off = small(fam, nhi=30)
            x = list(x)
            x[rng.randint(0, n - 1) * pp] = 1.0 + d
            add("design-threshold", mkline(fam, n, pp, x, y, w, off, 0.0, 1e-8, 100))
        # (4) one GLM object fitted twice: nothing of the first fit may leak into the second, except the weights / offsets that
        # were set and not set again.  Each `glm2` line is followed by the direct fit of the problem the second call sees.
        for k in range(12):
            fam = FAMILIES[(k + rep) % 6]
            a, tl = rng.choice(ALPHAS), rng.choice([1e-6, 1e-10])
            n1, p1, x1, y1, w1, o1 = small(fam, has_w=(k % 3 == 0), has_off=(k % 4 == 1))
            mode = k % 4
            if mode == 0:      # same size, fresh weights / offsets set again (or the old ones kept when none are given)
                n2, p2 = n1, rng.randint(1, 3)
                n2 = max(n2, 15 * p2) if fam == "bernoulli" else n2
                if n2 != n1:
                    n2, p2 = n1, 1
                x2, y2, w2, o2, _ = problem(rng, fam, n2, p2, rng.chance(0.5), rng.chance(0.5))
            elif mode == 1:    # long then short
                n2, p2, x2, y2, w2, o2 = small(fam, nlo=20, nhi=24, has_w=w1 is not None, has_off=o1 is not None)
            elif mode == 2:    # short then long, different column count
                n2, p2, x2, y2, w2, o2 = small(fam, p=rng.randint(2, 3), nlo=50, nhi=60, has_w=w1 is not None, has_off=o1 is not None)
            else:              # the first fit fails to converge (budget 1..2 passes); the second inherits nothing
                n2, p2, x2, y2, w2, o2 = small(fam, has_w=w1 is not None, has_off=o1 is not None)
            mi = rng.choice([1, 2]) if mode == 3 else 100
            add("refit", mkline2(fam, a, tl, mi, (n1, p1, x1, y1, w1, o1), (n2, p2, x2, y2, w2, o2)))
            if n2 == n1 or ((w2 is not None or w1 is None) and (o2 is not None or o1 is None)):
                lines.append("# same")
                lines.append(mkline(fam, n2, p2, x2, y2, w2 if w2 is not None else w1, o2 if o2 is not None else o1, a, tl, mi))
        # (5) extreme scale: the unpenalised Gaussian fit is exactly equivariant under y, offset -> 2^k y, 2^k offset
        for k in (1, -1, 52, -52, 100, -100, 200, -200):
            pp = rng.randint(1, 4)
            n = rng.randint(20, 40)
            x, y, w, off, _ = problem(rng, "gaussian", n, pp, rng.chance(0.5), rng.chance(0.5))
            tl, mi = rng.choice([1e-6, 1e-10]), rng.choice([2, 3, 50])
            add("scale", mkline("gaussian", n, pp, x, y, w, off, 0.0, tl, mi))
            lines.append("# scale %d" % k)
            lines.append(mkline("gaussian", n, pp, x, [math.ldexp(v, k) for v in y], w,
                                None if off is None else [math.ldexp(v, k) for v in off], 0.0, tl, mi))


def nontrivial(line, reply):
    if not line.startswith("glm") or not reply.startswith("="):
        return None
    try:
        fam, n, p, _, _, w, off, alpha, tol, _ = parse_line(line)
    except Exception:
        return None
    dec = round(-math.log10(tol)) if (tol > 0 and math.isfinite(tol)) else -1
    return "%s %s p=%d w=%d off=%d a=%g tol=%d st=%s" % (line.split()[0], fam, p, w is not None, off is not None, alpha,
                                                         dec, reply.split()[1])


# ---------------------------------------------------------------- oracle (mpmath)
def _mp():
    import mpmath
    mpmath.mp.dps = 50
    return mpmath


def fam_funcs(mp, fam):
    """(inv_link, d_inv_link(mu, eta), variance(mu), unit deviance(y, mu)) — textbook definitions"""
    one = mp.mpf(1)
    if fam == "gaussian":
        return (lambda e: e, lambda m, e: one, lambda m: one, lambda y, m: (y - m) ** 2)
    if fam == "bernoulli":
        def d(y, m):
            s = mp.mpf(0)
            if y != 0:
                s += y * mp.log(y / m)
            if y != 1:
                s += (1 - y) * mp.log((1 - y) / (1 - m))
            return 2 * s
        return (lambda e: one / (one + mp.exp(-e)), lambda m, e: m * (1 - m), lambda m: m * (1 - m), d)
    if fam in ("poisson", "quasipoisson"):
        def d(y, m):
            return 2 * ((y * mp.log(y / m) if y != 0 else 0) - (y - m))
        return (mp.exp, lambda m, e: m, lambda m: m, d)
    def d(y, m):
        return 2 * ((y - m) / m - mp.log(y / m))
    return (mp.exp, lambda m, e: m, lambda m: m * m, d)


def analyse(mp, fam, n, p, x, y, w, off, alpha, beta):
    """score, penalised information, deviance, predictions, eta scale at beta — all in mpmath"""
    inv, dinv, varf, udev = fam_funcs(mp, fam)
    X = [mp.mpf(v) for v in x]
    B = [mp.mpf(v) for v in beta]
    W = [mp.mpf(v) for v in w] if w is not None else [mp.mpf(1)] * n
    O = [mp.mpf(v) for v in off] if off is not None else [mp.mpf(0)] * n
    Y = [mp.mpf(v) for v in y]
    eta = [sum(X[i * p + j] * B[j] for j in range(p)) + O[i] for i in range(n)]
    eta_abs = [sum(abs(X[i * p + j] * B[j]) for j in range(p)) + abs(O[i]) for i in range(n)]
    mu = [inv(e) for e in eta]
    dmu = [dinv(m, e) for m, e in zip(mu, eta)]
    var = [varf(m) for m in mu]
    # penalised score: sum_i x_ij w_i (y_i - mu_i) dmu_i / var_i  -  alpha beta_j [j >= 1]
    score = []
    score_abs = []
    for j in range(p):
        terms = [X[i * p + j] * W[i] * (Y[i] - mu[i]) * dmu[i] / var[i] for i in range(n)]
        pen = alpha * B[j] if (j >= 1 and alpha > 0) else 0
        score.append(sum(terms) - pen)
        score_abs.append(sum(abs(t) for t in terms) + abs(pen))
    info = mp.matrix(p, p)
    for a in range(p):
        for b in range(p):
            info[a, b] = sum(X[i * p + a] * X[i * p + b] * W[i] * dmu[i] ** 2 / var[i] for i in range(n))
    H = info.copy()
    if alpha > 0:
        for a in range(p):
            H[a, a] += alpha     # the source adds alpha to every diagonal entry, the intercept's included
    dev = sum(udev(yy, m) for yy, m in zip(Y, mu))
    return {"eta": eta, "eta_abs": eta_abs, "mu": mu, "score": score, "score_abs": score_abs, "info": info, "H": H, "dev": dev}


def cond_est(mp, M, p):
    try:
        Mi = M ** -1
    except ZeroDivisionError:
        return mp.inf, None
    nrm = lambda A: max(sum(abs(A[i, j]) for j in range(p)) for i in range(p))
    return nrm(M) * nrm(Mi), Mi


STATS = {"score": 0.0, "dev": 0.0, "cov": 0.0, "se": 0.0, "pred": 0.0, "gauss": 0.0, "perm": 0.0, "bic": 0.0, "scoreacc": 0.0}
WHERE = {}


def stat(name, value, key):
    if value > STATS[name]:
        STATS[name] = value
        WHERE[name] = key



def check_fit(mp, i, line, rep, fails):
    fam, n, p, x, y, w, off, alpha, tol, maxiter = parse_line(line)
    key0 = "%s:n%d:p%d:w%d:o%d:a%g:t%g:m%d" % (fam, n, p, w is not None, off is not None, alpha, tol, maxiter)
    st, toks = parse_reply(rep)
    if st != "ok":
        return None
    r = parse_result(toks)
    beta = r["coef"]
    if beta is None or len(beta) != p:
        fails.append(Failure(i, "shape:" + key0, "coef has %s entries, expected %d" % (None if beta is None else len(beta), p)))
        return None
    finite = all(math.isfinite(b) for b in beta) and math.isfinite(r["dev"])
    tiny = mp.mpf(10) ** -300
    # ---- 4. exact accessor formulas (whatever the status): dispersion = deviance / (n_w - p) with n_w = round(sum8(w)) for the
    #         dispersion families, 1 otherwise;  aic = dev + 2p;  bic = dev + p ln n_w;  se = sqrt(diag(cov))
    nw = round_as_usize(sum8(w)) if w is not None else n
    if math.isfinite(r["dev"]):
        if HAS_DISP[fam]:
            if nw < p:
                if r["disp"] is not None:
                    fails.append(Failure(i, "dispersion:" + key0, "n - p underflows but dispersion returned a value"))
            elif nw != p:
                exp = r["dev"] / float(nw - p)
                if r["disp"] is None or f2h(r["disp"]) != f2h(exp):
                    fails.append(Failure(i, "dispersion:" + key0, "dispersion %r, expected deviance/(n-p) = %r with n = round(sum w) = %d" % (r["disp"], exp, nw), f2h(exp)))
        elif r["disp"] is None or r["disp"] != 1.0:
            fails.append(Failure(i, "dispersion:" + key0, "dispersion %r, expected 1 for a family without dispersion" % (r["disp"],)))
        aic = r["dev"] + 2.0 * float(p)
        if f2h(aic) != f2h(r["aic"]):
            fails.append(Failure(i, "aic:" + key0, "aic %r, expected deviance + 2p = %r" % (r["aic"], aic), f2h(aic)))
        if nw > 0:
            bic = mp.mpf(r["dev"]) + p * mp.log(nw)
            berr = abs(mp.mpf(r["bic"]) - bic)
            bsc = EPS * (abs(mp.mpf(r["dev"])) + p * abs(mp.log(nw))) + tiny
            stat("bic", float(berr / bsc), key0)
            if berr > 4 * bsc:
                fails.append(Failure(i, "bic:" + key0, "bic %r, expected deviance + p ln n = %r (n = %d)" % (r["bic"], float(bic), nw), f2h(float(bic))))
    if r["cov"] is not None and r["se"] is not None and len(r["cov"]) == p * p and len(r["se"]) == p:
        for a in range(p):
            v = r["cov"][a * p + a]
            e = math.sqrt(v) if v >= 0 else float("nan")
            if f2h(e) != f2h(r["se"][a]) and not (e == 0 and r["se"][a] == 0):
                fails.append(Failure(i, "stderr:" + key0, "standard error %d is %r, expected sqrt of the covariance diagonal %r" % (a, r["se"][a], e), f2h(e)))
                break
    if not r["ok"]:
        return r      # an error was reported: nothing more is promised about the stored values
    if not finite:
        fails.append(Failure(i, "nonfinite-success:" + key0, "fit reported success with non-finite coefficients/deviance"))
        return r
    if not (1e-15 <= tol <= 1e-4) or n <= p + 1 or not all(math.isfinite(v) for v in y):
        return r      # outside the quantifier (tolerance 1e-5..1e-14, more observations than parameters): exact checks only
    A = analyse(mp, fam, n, p, x, y, w, off, alpha, beta)
    kH, Hi = cond_est(mp, A["H"], p)
    r["_kH"], r["_tol"], r["_n"] = float(kH), tol, n
    if Hi is None or float(kH) > 1e13:
        return r      # numerically singular information at the returned point: outside the quantifier (the MLE must exist)
    aHi = lambda u, v: sum(abs(Hi[a, b]) * abs(u[a]) * abs(v[b]) for a in range(p) for b in range(p))
    qHi = lambda u: sum(Hi[a, b] * u[a] * u[b] for a in range(p) for b in range(p))
    # the quantity the convergence test of the source bounds: tol * (deviance + alpha * |beta_1..|)
    pd = abs(A["dev"]) + alpha * mp.sqrt(sum(mp.mpf(b) ** 2 for b in beta[1:]))
    T = tol * pd
    # rounding floor of an n-term double-precision score sum, in the H^-1 (Newton decrement) metric
    gfl = [n * EPS * sa for sa in A["score_abs"]]
    F = aHi(gfl, gfl)
    # ---- 1. stationarity.  lam2 = g^T H^-1 g is the Newton decrement^2: the decrease of the penalised deviance that one
    #         further exact scoring step would achieve; "score equations hold within the convergence tolerance" is
    #         lam2 <= C * tol * penalised deviance (+ rounding floor).
    lam2 = qHi(A["score"])
    bound = C_SCORE * T + C_ROUND ** 2 * F
    stat("score", float(lam2 / (T + F + tiny)), key0)
    if lam2 > bound:
        fails.append(Failure(i, "not-stationary:" + key0,
                             "fit reported success but the returned coefficients are not a stationary point of the penalised "
                             "likelihood: Newton decrement^2 %.3e > %.3e (tol %.0e, penalised deviance %.3e); score %s" % (
                                 float(lam2), float(bound), tol, float(pd), [float(s) for s in A["score"]])))
    # ---- 2. Gaussian: weighted ridge least squares solved independently, compared in the energy norm of the normal matrix
    if fam == "gaussian":
        W = [mp.mpf(v) for v in w] if w is not None else [mp.mpf(1)] * n
        O = [mp.mpf(v) for v in off] if off is not None else [mp.mpf(0)] * n
        rhs = mp.matrix([sum(mp.mpf(x[ii * p + j]) * W[ii] * (mp.mpf(y[ii]) - O[ii]) for ii in range(n)) for j in range(p)])
        M = A["info"].copy()
        if alpha > 0:
            for a in range(1, p):
                M[a, a] += alpha     # ridge: intercept unpenalised
        try:
            bstar = mp.lu_solve(M, rhs)
        except ZeroDivisionError:
            bstar = None
        if bstar is not None:
            d = [mp.mpf(beta[j]) - bstar[j] for j in range(p)]
            e2 = sum(M[a, b] * d[a] * d[b] for a in range(p) for b in range(p))
            stat("gauss", float(e2 / (T + F + tiny)), key0)
            if e2 > bound:
                fails.append(Failure(i, "gaussian-ridge:" + key0,
                                     "Gaussian fit differs from the weighted ridge least-squares solution: energy-norm error^2 %.3e > %.3e; got %s, expected %s" % (
                                         float(e2), float(bound), beta, [float(b) for b in bstar])))
    # ---- 3. deviance at the fitted means.  The source evaluates it one scoring step before the returned beta; that step has
    #         H-norm^2 <= ~T, so the deviance moves by at most |grad dev|_{H^-1} sqrt(T) + T (grad dev != 0 at the optimum when
    #         alpha > 0 or weights != 1).
    inv, dinv, varf, udev = fam_funcs(mp, fam)
    Xm = [mp.mpf(v) for v in x]
    gd = [-2 * sum(Xm[ii * p + j] * (mp.mpf(y[ii]) - A["mu"][ii]) * dinv(A["mu"][ii], A["eta"][ii]) / varf(A["mu"][ii]) for ii in range(n)) for j in range(p)]
    gdn = mp.sqrt(abs(qHi(gd)))
    step = mp.sqrt(C_SCORE * T + C_ROUND ** 2 * F)          # what check 1 allows for the last step
    derr = abs(mp.mpf(r["dev"]) - A["dev"])
    dev_abs = sum(abs(udev(mp.mpf(yy), m)) + abs(mp.mpf(yy)) + abs(m) for yy, m in zip(y, A["mu"]))
    dfloor = n * EPS * dev_abs * (1 + max(A["eta_abs"]))
    dbound = C_DEV * (gdn * step + T) + C_ROUND * dfloor
    stat("dev", float(derr / (gdn * mp.sqrt(T + F) + T + dfloor + tiny)), key0)
    if derr > dbound:
        fails.append(Failure(i, "deviance:" + key0, "reported deviance %r differs from the family deviance at the fitted means %r by %.3e > %.3e" % (
            r["dev"], float(A["dev"]), float(derr), float(dbound)), f2h(float(A["dev"]))))
    # ---- 3b. (opt-in, C06_WEIGHTED_DEVIANCE=1; see the report) with prior weights the deviance that is consistent with the
    #          weighted score equations and with n = round(sum w) is sum_i w_i d(y_i, mu_i); the source sums unweighted terms.
    if os.environ.get("C06_WEIGHTED_DEVIANCE") and w is not None and any(v != 1.0 for v in w):
        wdev = sum(mp.mpf(wi) * udev(mp.mpf(yy), m) for wi, yy, m in zip(w, y, A["mu"]))
        if abs(mp.mpf(r["dev"]) - wdev) > dbound + mp.mpf("1e-6") * abs(wdev):
            fails.append(Failure(i, "glm:weights:unweighted-deviance",
                                 "with weights the stored deviance %r is the unweighted sum; the weighted deviance sum w_i d_i is %r "
                                 "(dispersion = deviance/(sum w - p) and the standard errors inherit the mismatch)" % (r["dev"], float(wdev)),
                                 f2h(float(wdev))))
    # ---- 5. covariance = dispersion * inverse(Fisher information), standard errors = sqrt(diag).  The stored information is
    #         evaluated one scoring step before the returned beta; the working weights move by a relative
    #         exp(|x_i . step|) - 1 <= ~ max_i |x_i|_{H^-1} * sqrt(T)  (zero for the Gaussian family).
    kI, Ii = cond_est(mp, A["info"], p)
    if Ii is not None and r["disp"] is not None and math.isfinite(r["disp"]) and float(kI) < 1e12:
        xh = max(mp.sqrt(abs(qHi([Xm[ii * p + j] for j in range(p)]))) for ii in range(n))
        stale = xh * step
        rel = C_COV * float(stale) + C_ROUND * n * EPS * float(kI)
        unit = float(xh * mp.sqrt(T + F)) + n * EPS * float(kI)
        if r["cov"] is None or len(r["cov"]) != p * p:
            fails.append(Failure(i, "covariance:" + key0, "covariance accessor panicked or has the wrong size on an invertible information matrix"))
        else:
            worst = 0.0
            for a in range(p):
                for b in range(p):
                    e = mp.mpf(r["disp"]) * Ii[a, b]
                    sc = abs(mp.mpf(r["disp"])) * mp.sqrt(abs(Ii[a, a] * Ii[b, b])) + tiny
                    worst = max(worst, float(abs(mp.mpf(r["cov"][a * p + b]) - e) / sc))
            stat("cov", worst / unit, key0)
            if worst > rel:
                fails.append(Failure(i, "covariance:" + key0, "covariance differs from dispersion * inverse information: scaled error %.3e > %.3e" % (worst, rel)))
        if r["se"] is None or len(r["se"]) != p:
            fails.append(Failure(i, "stderr:" + key0, "standard errors accessor panicked or has the wrong size"))
        elif r["cov"] is not None and len(r["cov"]) == p * p:
            worst = 0.0
            for a in range(p):
                e = mp.sqrt(abs(mp.mpf(r["disp"]) * Ii[a, a]))
                worst = max(worst, float(abs(mp.mpf(r["se"][a]) - e) / (e + tiny)))
            stat("se", worst / unit, key0)
            if worst > rel:
                fails.append(Failure(i, "stderr:" + key0, "standard errors differ from sqrt(diag(dispersion * inverse information)): rel err %.3e > %.3e" % (worst, rel)))
    # ---- 6. predictions = inv_link(x beta + offset)
    if r["pred"] is None or len(r["pred"]) != n:
        fails.append(Failure(i, "predict:" + key0, "predict on the training design panicked or has the wrong length"))
    else:
        worst = 0.0
        for ii in range(n):
            m = A["mu"][ii]
            if fam == "gaussian":    # identity link: absolute error of the dot product
                e = abs(mp.mpf(r["pred"][ii]) - m) / (A["eta_abs"][ii] + tiny)
            else:                    # exp / logistic: relative error (1 + |eta|) eps
                e = abs(mp.mpf(r["pred"][ii]) - m) / (abs(m) + tiny) / (1 + A["eta_abs"][ii])
            worst = max(worst, float(e))
        stat("pred", worst / EPS, key0)
        if worst > C_PRED * EPS:
            fails.append(Failure(i, "predict:" + key0, "a prediction differs from inv_link(x.beta + offset): scaled rel err %.3e > %.3e" % (worst, C_PRED * EPS)))
    # ---- 6b. score(x, y) = family deviance at predict(x): rounding only
    if r["score"] is None:
        fails.append(Failure(i, "score:" + key0, "score on the training data panicked"))
    else:
        serr = abs(mp.mpf(r["score"]) - A["dev"])
        stat("scoreacc", float(serr / (dfloor + tiny)), key0)
        if serr > C_ROUND * dfloor:
            fails.append(Failure(i, "score:" + key0, "score(x, y) = %r differs from the family deviance at inv_link(x.beta + offset) = %r by %.3e > %.3e" % (
                r["score"], float(A["dev"]), float(serr), float(C_ROUND * dfloor)), f2h(float(A["dev"]))))
    r["_step"] = float(step * mp.sqrt(max(abs(Hi[a, a]) for a in range(p))))
    return r


def oracle(lines, impl):
    mp = _mp()
    fails = []
    results = {}
    for i, (l, rep) in enumerate(zip(lines, impl)):
        if not l.startswith("glm"):
            continue
        st, toks = parse_reply(rep)
        t = l.split()
        if st == "panic":
            # panics are legitimate only for malformed requests / singular information; flag a panic on a well-formed problem
            continue
        if st != "ok":
            if st not in ("skip",):
                fails.append(Failure(i, "crash:%s" % " ".join(t[:4]), "executor reply %r" % rep[:80]))
            continue
        try:
            results[i] = check_fit(mp, i, l, rep, fails)
        except Exception as e:   # malformed corpus line etc.: never a false alarm
            if os.environ.get("C06_DEBUG"):
                raise
            results[i] = None
    # ---- 7. permutation invariance: request i+2 is request i with rows permuted by the `# perm` line i+1
    for i, l in enumerate(lines):
        if not l.startswith("# perm") or i == 0 or i + 1 >= len(lines):
            continue
        a, b = results.get(i - 1), results.get(i + 1)
        if not a or not b or not a["ok"] or not b["ok"]:
            continue
        perm = [int(s) for s in l.split()[2:]]
        t = lines[i - 1].split()
        key0 = "perm:%s:n%s:p%s" % (t[1], t[2], t[3])
        tol, kH, n = a["_tol"], a["_kH"], a["_n"]
        sc = max(abs(v) for v in a["coef"]) + 1e-300
        # rounding-level agreement; should the two runs stop one pass apart they differ by at most the last step (check 1)
        bnd = C_PERM * n * EPS * kH + 2 * (a.get("_step", 0.0) + b.get("_step", 0.0)) / sc
        err = max(abs(u - v) for u, v in zip(a["coef"], b["coef"])) / sc
        stat("perm", err / (n * EPS * kH), key0)
        if err > bnd:
            fails.append(Failure(i + 1, key0, "fit changes under a permutation of the observations: coefficients differ by rel %.3e > %.3e" % (err, bnd)))
            continue
        derr = abs(a["dev"] - b["dev"]) / (abs(a["dev"]) + 1e-300)
        if derr > bnd:
            fails.append(Failure(i + 1, key0, "deviance changes under a permutation of the observations: rel %.3e > %.3e" % (derr, bnd)))
            continue
        if a["pred"] and b["pred"] and len(a["pred"]) == len(perm) == len(b["pred"]):
            perr = max(abs(b["pred"][k] - a["pred"][perm[k]]) / (abs(a["pred"][perm[k]]) + 1e-300) for k in range(len(perm)))
            if perr > bnd * 10:
                fails.append(Failure(i + 1, key0, "predictions are not permuted along with the observations: rel %.3e > %.3e" % (perr, bnd * 10)))
    # ---- 8. one object fitted twice == the direct fit (`# same`); exact scale equivariance of the Gaussian fit (`# scale k`)
    for i, l in enumerate(lines):
        if i == 0 or i + 1 >= len(lines):
            continue
        if l.startswith("# same"):
            if impl[i - 1].strip() != impl[i + 1].strip():
                fails.append(Failure(i - 1, "refit:" + " ".join(lines[i + 1].split()[1:4]),
                                     "a GLM object fitted a second time gives a different result than a fresh object on the same data: %s vs %s" % (
                                         impl[i - 1][:120], impl[i + 1][:120]), impl[i + 1].strip()))
        elif l.startswith("# scale"):
            k = int(l.split()[2])
            sa, ta = parse_reply(impl[i - 1])
            sb, tb = parse_reply(impl[i + 1])
            key0 = "scale:%s:k%d" % (" ".join(lines[i - 1].split()[1:4]), k)
            if sa != sb:
                fails.append(Failure(i + 1, key0, "status changes under an exact power-of-two rescaling of the responses: %s vs %s" % (sa, sb)))
                continue
            if sa != "ok":
                continue
            a, b = parse_result(ta), parse_result(tb)
            sc = lambda v, e: None if v is None else [math.ldexp(u, e) for u in v]
            exp = {"ok": a["ok"], "coef": sc(a["coef"], k), "dev": math.ldexp(a["dev"], 2 * k),
                   "disp": None if a["disp"] is None else math.ldexp(a["disp"], 2 * k), "cov": sc(a["cov"], 2 * k),
                   "se": sc(a["se"], k), "pred": sc(a["pred"], k),
                   "score": None if a["score"] is None else math.ldexp(a["score"], 2 * k)}
            hx = lambda v: v if isinstance(v, bool) or v is None else (fs(v) if isinstance(v, list) else f2h(v))
            for name, e in exp.items():
                if hx(e) != hx(b[name]):
                    fails.append(Failure(i + 1, key0, "%s is not exactly rescaled by 2^%d: got %s, expected %s" % (name, k, hx(b[name])[:80], hx(e)[:80]), hx(e)))
                    break
    if os.environ.get("C06_STATS"):
        print("[C06 oracle ratios] " + " ".join("%s=%.3g@%s" % (k, v, WHERE.get(k)) for k, v in sorted(STATS.items())), flush=True)
    return fails

# --- deep theorems (second pass; modules written in their own files, wired here by the lead)
PROOF_MODULES = PROOF_MODULES + ['Compute.Props.C06Perm']
REQUIRED_THEOREMS = REQUIRED_THEOREMS + ['Cv.C06P.fit_perm', 'Cv.C06P.fit_perm_none', 'Cv.C06P.fit_perm_coef', 'Cv.C06P.fit_perm_deviance', 'Cv.C06P.isDesign_perm', 'Cv.C06P.predict_perm']
_np = list(NOT_PROVED)
_np[2] = None
NOT_PROVED = [x for x in _np if x is not None]

# --- deep theorems (2: solver hypothesis discharged)
PROOF_MODULES = PROOF_MODULES + ['Compute.Props.C01SolveApps']
REQUIRED_THEOREMS = REQUIRED_THEOREMS + ['Cv.C01Solve.glm_solver_exact', 'Cv.C01Solve.glm_fixed_point_unconditional', 'Cv.C01Solve.glm_gaussian_normal_equations_unconditional']
_np = list(NOT_PROVED)
_np = [('the solver hypothesis is discharged for regular (non-singular) information matrices: Props/C01SolveApps instantiates the fixed-point and Gaussian normal-equation theorems with the model of `solve` itself; on a singular information matrix the model (like a field) divides by a zero pivot and the theorems do not apply' if 'correctness of the linear solver' in str(x) else x) for x in _np]
NOT_PROVED = [x for x in _np if x is not None]

# --- deep theorems (C06Dev)
PROOF_MODULES = PROOF_MODULES + ['Compute.Props.C06Dev']
REQUIRED_THEOREMS = REQUIRED_THEOREMS + ['Cv.C06D.deviance_textbook', 'Cv.C06D.poisson_deviance', 'Cv.C06D.bernoulli_deviance', 'Cv.C06D.gamma_deviance', 'Cv.C06D.gamma_deviance_split', 'Cv.C06D.unitDev_eq_zero_iff', 'Cv.C06D.deviance_nonneg', 'Cv.C06D.bernoulli_fractional_gap']
NOT_PROVED = [x for x in NOT_PROVED if not any(k in str(x) for k in ('textbook closed forms',))]
NOT_PROVED = NOT_PROVED + ["for fractional Bernoulli responses 0 < y < 1 (outside the property's quantifier: responses are 0/1) the source omits the saturated-model term of the textbook binomial deviance (bernoulli_fractional_gap)"]

# --- source tie (translator tools/rs2lean.py: the straight-line functions of this property are regenerated from /repo/src on every run
# into lean/Compute/Generated/SrcC06.lean and proved equal to the hand model in Props/SrcTieC06.lean)
from . import srctie
srctie.wire(globals(), 'C06')
