import Compute.Model.Mat
/-
Model of the matrix-product kernels of `src/linalg/utils.rs` (default features: no BLAS):
`is_matrix`, `transpose`, `matmul` (four flag paths, the both-transposed shortcut
`AᵀBᵀ = (B·A)ᵀ` as repaired by F12, the inner-dimension assert added by F13), `matmul_blocked`
(tile loops `jj / kk / i / k / j` with `min` edges) and `xtx`.

Matrices are flat row-major `List α`; `none` = panic.  The loop nests are mirrored literally
(same loop order, the accumulator array `c` is updated in place with `c[i*n+j] += temp * b[k*n+j]`),
so the `Float` instance performs the very same sequence of IEEE operations as the Rust code.
Generic in the scalar: only `Add`, `Mul`, `Zero` are used.  Core Lean only.
-/
namespace Cv
variable {α : Type}

/-- `is_matrix(m, nrows)`: `m.len() / nrows` panics for `nrows = 0`; `Err(..).unwrap()` panics when
`nrows` does not divide the length. -/
def isMatrix (a : List α) (nrows : Nat) : Option Nat :=
  if nrows = 0 then none
  else
    let ncols := a.length / nrows
    if nrows * ncols = a.length then some ncols else none

/-- The loop of `transpose` once `ncols` is known:
`for j in 0..ncols { for i in 0..nrows { at.push(a[i * ncols + j]) } }`
(pushes fill the `ncols × nrows` result in row-major order). -/
def transposeCore [Inhabited α] (a : List α) (nrows ncols : Nat) : List α :=
  let A := a.toArray
  (Mat.build ncols nrows fun j i => A[i * ncols + j]!).data

/-- `transpose(a, nrows)`. -/
def transpose [Inhabited α] (a : List α) (nrows : Nat) : Option (List α) :=
  match isMatrix a nrows with
  | none => none
  | some ncols => some (transposeCore a nrows ncols)

section kernels
variable [Inhabited α] [Add α] [Mul α] [Zero α]

/-- The plain triple loop of `matmul` on the (already transposed) operands `A : m×l`, `B : l×n`:
```
for i in 0..m { for k in 0..l { let temp = a[i*l+k]; for j in 0..n { c[i*n+j] += temp * b[k*n+j]; } } }
```
-/
def mmLoop (A B : Array α) (m l n : Nat) : Array α :=
  (List.range m).foldl (fun c i =>
    (List.range l).foldl (fun c k =>
      let temp := A[i * l + k]!
      (List.range n).foldl (fun c j => c.modify (i * n + j) (· + temp * B[k * n + j]!)) c) c)
    (Array.replicate (m * n) 0)

/-- The tile loops of `matmul_blocked`:
```
for jj in 0..(n / bsize + 1) { for kk in 0..(l / bsize + 1) { for i in 0..m {
  for k in (kk*bsize)..min(kk*bsize + bsize, l) { let temp = a[i*l+k];
    for j in (jj*bsize)..min(jj*bsize + bsize, n) { c[i*n+j] += temp * b[k*n+j]; } } } } }
```
(`bsize ≠ 0` is checked by the caller: `n / 0` panics.) -/
def mmBlockedLoop (A B : Array α) (m l n bsize : Nat) : Array α :=
  (List.range (n / bsize + 1)).foldl (fun c jj =>
    (List.range (l / bsize + 1)).foldl (fun c kk =>
      (List.range m).foldl (fun c i =>
        (List.range' (kk * bsize) (min (kk * bsize + bsize) l - kk * bsize)).foldl (fun c k =>
          let temp := A[i * l + k]!
          (List.range' (jj * bsize) (min (jj * bsize + bsize) n - jj * bsize)).foldl
            (fun c j => c.modify (i * n + j) (· + temp * B[k * n + j]!)) c) c) c) c)
    (Array.replicate (m * n) 0)

/-- `is_matrix(a, rows_a).unwrap()`, `is_matrix(b, rows_b).unwrap()` and the `assert_eq!` on the inner
dimensions (F13) that open both `matmul` and `matmul_blocked`.  Returns `(cols_a, cols_b)`. -/
def matmulChecks (a b : List α) (rowsA rowsB : Nat) (ta tb : Bool) : Option (Nat × Nat) :=
  match isMatrix a rowsA, isMatrix b rowsB with
  | some colsA, some colsB =>
    if (if ta then rowsA else colsA) = (if tb then colsB else rowsB) then some (colsA, colsB) else none
  | _, _ => none

/-- `if transpose_x { transpose(x, rows_x) } else { x.to_vec() }`. -/
def maybeTranspose (x : List α) (rows : Nat) (t : Bool) : Option (List α) :=
  if t then transpose x rows else some x

/-- Body of `matmul` below the both-transposed shortcut. -/
def matmulBody (a b : List α) (rowsA colsA rowsB colsB : Nat) (ta tb : Bool) : Option (List α) :=
  let m := if ta then colsA else rowsA
  let l := if ta then rowsA else colsA
  let n := if tb then rowsB else colsB
  match maybeTranspose a rowsA ta, maybeTranspose b rowsB tb with
  | some a', some b' => some (mmLoop a'.toArray b'.toArray m l n).toList
  | _, _ => none

/-- `matmul(a, b, rows_a, rows_b, transpose_a, transpose_b)`, `#[cfg(not(feature = "blas"))]`.
The recursive call of the both-transposed branch is unfolded (it runs with both flags false). -/
def matmul (a b : List α) (rowsA rowsB : Nat) (ta tb : Bool) : Option (List α) :=
  match matmulChecks a b rowsA rowsB ta tb with
  | none => none
  | some (colsA, colsB) =>
    if ta && tb then
      -- return transpose(&matmul(b, a, rows_b, rows_a, false, false), rows_b);
      match matmulChecks b a rowsB rowsA false false with
      | none => none
      | some (colsB', colsA') =>
        match matmulBody b a rowsB colsB' rowsA colsA' false false with
        | none => none
        | some r => transpose r rowsB
    else matmulBody a b rowsA colsA rowsB colsB ta tb

/-- `matmul_blocked(a, b, rows_a, rows_b, transpose_a, transpose_b, bsize)`. -/
def matmulBlocked (a b : List α) (rowsA rowsB : Nat) (ta tb : Bool) (bsize : Nat) : Option (List α) :=
  match matmulChecks a b rowsA rowsB ta tb with
  | none => none
  | some (colsA, colsB) =>
    let m := if ta then colsA else rowsA
    let l := if ta then rowsA else colsA
    let n := if tb then rowsB else colsB
    match maybeTranspose a rowsA ta, maybeTranspose b rowsB tb with
    | some a', some b' =>
      if bsize = 0 then none   -- `n / bsize`: division by zero
      else some (mmBlockedLoop a'.toArray b'.toArray m l n bsize).toList
    | _, _ => none

/-- `xtx(x, k) = matmul(x, x, k, k, true, false)`. -/
def xtx (x : List α) (k : Nat) : Option (List α) := matmul x x k k true false

end kernels
end Cv
