import Compute.Drv.Common
import Compute.Model.Scalar
import Compute.Model.Kernels
import Compute.Model.Stats
/-
Driver for C08 (model at `Float`).  Requests (the implementation-side `form` and `tag` tokens are
dropped by `model_line` in tools/cv/c08.py; the three call forms — free function, `Vector` method,
`Matrix` method — are one-line forwards in the source and share this one model):
  `<op> <vec>`            op ∈ mean wmean var svar std sstd min max argmin argmax hbc
  `<op> <vec x> <vec y>`  op ∈ cov scov scov1 scovo
  `margmin|margmax r c <r*c floats>`
-/
open Cv

def c08OptF (r : Option Float) : String :=
  match r with
  | none => panicked
  | some v => ok (showFloat v)

def c08Step (args : List String) : String :=
  match args with
  | op :: rest =>
    if op == "margmin" || op == "margmax" then
      withArgs (do
        let r ← pNat; let c ← pNat
        let d ← pMany pFloat (r * c)
        pure (c, d)) rest fun (c, d) =>
        match (if op == "margmin" then matArgmin f64Max d c else matArgmax f64Min d c) with
        | none => panicked
        | some (i, j) => ok s!"{i} {j}"
    else if op == "cov" || op == "scov" || op == "scov1" || op == "scovo" then
      withArgs (do let x ← pVec; let y ← pVec; pure (x, y)) rest fun (x, y) =>
        c08OptF (match op with
          | "cov" => covariance x y
          | "scov" => sampleCovariance x y
          | "scov1" => sampleCovarianceOnepass x y
          | _ => sampleCovarianceOnline x y)
    else
      withArgs pVec rest fun v =>
        match op with
        | "mean" => ok (showFloat (mean v))
        | "wmean" => ok (showFloat (welfordMean v))
        | "var" => ok (showFloat (var v))
        | "svar" => c08OptF (sampleVar v)
        | "std" => ok (showFloat (std v))
        | "sstd" => c08OptF (sampleStd v)
        | "min" => ok (showFloat (minFold v))
        | "max" => ok (showFloat (maxFold v))
        | "argmin" => ok (toString (argmin f64Max v))
        | "argmax" => ok (toString (argmax f64Min v))
        | "hbc" => ok (showVec (histBinCenters v))
        | _ => badOp
  | _ => badOp

def main (args : List String) : IO UInt32 := mainWith () (fun _ t => ((), c08Step t)) args
