import Compute.Props.C07Romberg
/-
C07 — review pass (review-b: A1, B1, B2, C1, C2, C4).  Theorems that make the reading of the property
precise where the first passes were silent:

* A1  `romberg_stop_level`, `romberg_exact_at_stop_level`, `romberg_exact_of_no_stop`: for every tolerance the
      result is the diagonal entry of the FIRST level whose stop test fires (or of the last level), and it is exact
      to degree `2s + 1` for that level `s`; `romberg_early_exit_witness` is the reviewer's witness that the degree
      `2k − 1` of a `k`-level budget is NOT reached after an early exit (the tolerance clause holds there instead).
* B2  `romberg_swap_any`, `romberg_self_any` for every tolerance; `romberg_not_additive_witness`: additivity in the
      integrand is false at a positive tolerance.
* B1  `panel_integral`, `panelSum_eq_integrals`, `panelSum_eq_integral_pwl`: the sampled rule is the integral of
      the piecewise-linear interpolant (sum of the panel integrals for any abscissae; one interval integral of the
      interpolant for strictly increasing abscissae).
* C2  `trapz_zero_panels`;  C4 `trapezoid_default`, `trapezoid_dx_eq`;  C1 examples.
-/
set_option linter.unusedSectionVars false
set_option linter.unusedSimpArgs false
set_option linter.unnecessarySeqFocus false
namespace Cv.C07V
open Cv Cv.C07 Cv.C07R Cv.C08

section AnyEps
variable {α : Type} [Field α] [LinearOrder α] [HasNaN α] [Transc α]

/-- **What `romberg` returns, for every tolerance.**  With `1 ≤ k ≤ 31` levels allowed the result is a
diagonal entry `R s s` of the textbook tableau, where either no stop test fired at any level `2 ≤ j < k`
and `s = k − 1` (budget exhausted), or `s` is the FIRST level `2 ≤ s < k` whose stop test fires (levels
above `s` are never computed). -/
theorem romberg_stop_level (f : α → α) (a b eps : α) (k : ℕ) (h1 : 1 ≤ k) (h31 : k ≤ 31) :
    ∃ s, s < k ∧ romberg f a b eps k = some (R f a b s s) ∧
      ((s = k - 1 ∧ ∀ j, 2 ≤ j → j < k → stopAt f a b eps j = false) ∨
       (2 ≤ s ∧ stopAt f a b eps s = true ∧ ∀ j, 2 ≤ j → j < s → stopAt f a b eps j = false)) := by
  classical
  by_cases h : ∃ j, 2 ≤ j ∧ j < k ∧ stopAt f a b eps j = true
  · have hmin : ∀ j, 2 ≤ j → j < Nat.find h → stopAt f a b eps j = false := by
      intro j hj2 hjs
      have hm := Nat.find_min h hjs
      have hjk : j < k := lt_trans hjs (Nat.find_spec h).2.1
      cases hst : stopAt f a b eps j with
      | false => rfl
      | true => exact absurd ⟨hj2, hjk, hst⟩ hm
    exact ⟨Nat.find h, (Nat.find_spec h).2.1,
      romberg_of_first_stop f a b eps k _ h31 (Nat.find_spec h).1 (Nat.find_spec h).2.1 (Nat.find_spec h).2.2 hmin,
      Or.inr ⟨(Nat.find_spec h).1, (Nat.find_spec h).2.2, hmin⟩⟩
  · have hno : ∀ j, 2 ≤ j → j < k → stopAt f a b eps j = false := by
      intro j hj2 hjk
      cases hst : stopAt f a b eps j with
      | false => rfl
      | true => exact absurd ⟨j, hj2, hjk, hst⟩ h
    exact ⟨k - 1, by omega, romberg_of_no_stop f a b eps k h1 h31 hno, Or.inl ⟨rfl, hno⟩⟩

end AnyEps

section ExactAtStop
open Polynomial
variable {α : Type} [Field α] [CharZero α] [LinearOrder α] [HasNaN α] [Transc α]

/-- **Polynomial exactness for every tolerance, at the level actually reached** (generalises
`romberg_exact_any_eps`): the returned value is `R s s` for the stop level `s` of `romberg_stop_level`,
and it is the exact integral of every polynomial of degree `≤ 2s + 1`.  The degree `2k − 1` of the
property statement is reached exactly when the budget is exhausted (`s = k − 1`, e.g. at `eps = 0`);
after an early exit at `s < k − 1` only degree `2s + 1 (≥ 5)` is guaranteed — see `romberg_early_exit_witness`. -/
theorem romberg_exact_at_stop_level (P : α[X]) (a b eps : α) (k : ℕ) (h1 : 1 ≤ k) (h31 : k ≤ 31) :
    ∃ s, s < k ∧ (3 ≤ k → 2 ≤ s) ∧
      ((s = k - 1 ∧ ∀ j, 2 ≤ j → j < k → stopAt (fun x => (derivative P).eval x) a b eps j = false) ∨
       (2 ≤ s ∧ stopAt (fun x => (derivative P).eval x) a b eps s = true ∧
          ∀ j, 2 ≤ j → j < s → stopAt (fun x => (derivative P).eval x) a b eps j = false)) ∧
      (P.natDegree ≤ 2 * s + 2 →
        romberg (fun x => (derivative P).eval x) a b eps k = some (P.eval b - P.eval a)) := by
  obtain ⟨s, hsk, hr, hcase⟩ := romberg_stop_level (fun x => (derivative P).eval x) a b eps k h1 h31
  refine ⟨s, hsk, ?_, hcase, fun hP => ?_⟩
  · intro h3
    rcases hcase with ⟨hs, _⟩ | ⟨hs, _⟩ <;> omega
  · rw [hr, R_exact P a b s s le_rfl hP]

/-- If no stop test fires below the budget (in particular at `eps = 0`), the full degree `2k − 1` holds,
whatever the tolerance. -/
theorem romberg_exact_of_no_stop (P : α[X]) (a b eps : α) (k : ℕ) (h1 : 1 ≤ k) (h31 : k ≤ 31)
    (hP : P.natDegree ≤ 2 * k)
    (hno : ∀ j, 2 ≤ j → j < k → stopAt (fun x => (derivative P).eval x) a b eps j = false) :
    romberg (fun x => (derivative P).eval x) a b eps k = some (P.eval b - P.eval a) := by
  rw [romberg_of_no_stop _ a b eps k h1 h31 hno, R_exact P a b (k - 1) (k - 1) le_rfl (by omega)]

end ExactAtStop

section SwapAny
variable {α : Type} [Field α] [CharZero α] [LinearOrder α] [IsStrictOrderedRing α] [HasNaN α] [Transc α]

theorem stopAt_swap (habs : ∀ x : α, Transc.abs x = |x|) (f : α → α) (a b eps : α) (j : ℕ) :
    stopAt f b a eps j = stopAt f a b eps j := by
  simp only [stopAt, R_swap f a b, rombergStop, habs, abs_neg]
  have : -R f a b j j - -R f a b (j - 1) (j - 1) = -(R f a b j j - R f a b (j - 1) (j - 1)) := by ring
  rw [this, abs_neg]

/-- **Sign change under swapping the limits, for EVERY tolerance** (the stop test only sees absolute
values, so both orientations stop at the same level). -/
theorem romberg_swap_any (habs : ∀ x : α, Transc.abs x = |x|) (f : α → α) (a b eps : α) (k : ℕ) :
    romberg f b a eps k = (romberg f a b eps k).map Neg.neg := by
  by_cases h : 1 ≤ k ∧ k ≤ 31
  · obtain ⟨s, hsk, hr, hcase⟩ := romberg_stop_level f a b eps k h.1 h.2
    rw [hr]
    rcases hcase with ⟨hs, hno⟩ | ⟨hs2, hst, hmin⟩
    · rw [romberg_of_no_stop f b a eps k h.1 h.2 (fun j h2 h3 => by rw [stopAt_swap habs]; exact hno j h2 h3),
        ← hs, R_swap]; rfl
    · rw [romberg_of_first_stop f b a eps k s h.2 hs2 hsk (by rw [stopAt_swap habs]; exact hst)
        (fun j h2 h3 => by rw [stopAt_swap habs]; exact hmin j h2 h3), R_swap]; rfl
  · have : k = 0 ∨ 31 < k := by omega
    simp [romberg, this]

end SwapAny

section SelfAny
variable {α : Type} [Field α] [LinearOrder α] [HasNaN α] [Transc α]

/-- **A degenerate interval integrates to `0` for EVERY tolerance** (and every `abs`, `HasNaN`). -/
theorem romberg_self_any (f : α → α) (a eps : α) (k : ℕ) (h1 : 1 ≤ k) (h31 : k ≤ 31) :
    romberg f a a eps k = some 0 := by
  obtain ⟨s, _, _, hr⟩ := romberg_diag f a a eps k h1 h31
  rw [hr, R_self]

end SelfAny

section Witness
local instance instTranscRatC07V : Transc ℚ := ⟨id, id, id, fun a _ => a, id, id, id, abs, id, id⟩
local instance instHasNaNRatC07V : HasNaN ℚ := ⟨fun _ => false, 0⟩

/-- the reviewer's integrand `1 + x⁶/100` (degree 6 ≤ 2·5 − 1) -/
def w (x : ℚ) : ℚ := 1 + x ^ 6 / 100

theorem R_w_11 : R w 0 1 1 1 = 1 + 17 / 9600 := by
  simp [w, R, rich, col0, hN, Finset.sum_range_succ]; norm_num
theorem R_w_22 : R w 0 1 2 2 = 7691 / 7680 := by
  simp [w, R, rich, col0, hN, Finset.sum_range_succ]; norm_num

theorem stop_w_2 : stopAt w 0 1 (1 / 1000) 2 = true := by
  have e : ∀ x : ℚ, Transc.abs x = |x| := fun _ => rfl
  have hn : ∀ x : ℚ, HasNaN.isNaN x = false := fun _ => rfl
  simp only [stopAt, R_w_22, show 2 - 1 = 1 from rfl, R_w_11, rombergStop, fminG, e]
  have h1 : |(7691 / 7680 - (1 + 17 / 9600) : ℚ)| = 13 / 38400 := by norm_num [abs_of_neg]
  have h2 : |(7691 / 7680 : ℚ)| = 7691 / 7680 := abs_of_pos (by norm_num)
  have h3 : |(1 + 17 / 9600 : ℚ)| = 1 + 17 / 9600 := abs_of_pos (by norm_num)
  rw [h1, h2, h3]
  simp only [hn, Bool.false_eq_true, if_false]
  norm_num

/-- **Early exit inside the property's quantifier (reviewer's witness A1).**  `romberg` with a budget of
`k = 5` levels (exact to degree 9 when exhausted) and `eps = 10⁻³` stops at level 2 on the degree-6
polynomial `1 + x⁶/100` over `[0,1]` and returns Boole's value `7691/7680`, not the integral `701/700`;
the error `13/2150400·… = 1/268800 ≈ 3.7·10⁻⁶` is below the tolerance — the tolerance clause, not the
exactness clause, is what holds after an early exit. -/
theorem romberg_early_exit_witness :
    romberg w 0 1 (1 / 1000) 5 = some (7691 / 7680) ∧
    (7691 / 7680 : ℚ) ≠ 701 / 700 ∧ |(7691 / 7680 : ℚ) - 701 / 700| < 1 / 1000 ∧
    romberg w 0 1 0 5 = some (701 / 700) := by
  have habs : ∀ x : ℚ, Transc.abs x = |x| := fun _ => rfl
  refine ⟨?_, by norm_num, by norm_num [abs_lt], ?_⟩
  · rw [romberg_of_first_stop w 0 1 (1 / 1000) 5 2 (by norm_num) le_rfl (by norm_num) stop_w_2
      (fun j h2 h3 => by omega)]
    exact congrArg some R_w_22
  · open Polynomial in
    have hP : (fun x : ℚ => (derivative (X + C (1 / 700) * X ^ 7 : ℚ[X])).eval x) = w := by
      funext x; simp [w]; ring
    have := romberg_exact habs (X + C (1 / 700) * X ^ 7 : ℚ[X]) 0 1 5 (by norm_num) (by norm_num)
      (by
        have h : (X + C (1 / 700) * X ^ 7 : ℚ[X]).natDegree ≤ 10 := by compute_degree <;> norm_num
        exact h)
    rw [hP] at this
    rw [this]; norm_num

end Witness

section NonAdditive
local instance instTranscRatC07V' : Transc ℚ := ⟨id, id, id, fun a _ => a, id, id, id, abs, id, id⟩
local instance instHasNaNRatC07V' : HasNaN ℚ := ⟨fun _ => false, 0⟩

def w3 (x : ℚ) : ℚ := 1 + x ^ 6 / 100
def g6 (x : ℚ) : ℚ := x ^ 6
def wg (x : ℚ) : ℚ := w3 x + g6 x

theorem R_g_11 : R g6 0 1 1 1 = 17 / 96 := by
  simp [g6, R, rich, col0, hN, Finset.sum_range_succ]; norm_num
theorem R_g_22 : R g6 0 1 2 2 = 55 / 384 := by
  simp [g6, R, rich, col0, hN, Finset.sum_range_succ]; norm_num
theorem R_g_33 : R g6 0 1 3 3 = 1 / 7 := by
  have := R_exact_monomial (0 : ℚ) 1 6 3 3 le_rfl (by norm_num)
  have e : g6 = fun x : ℚ => x ^ 6 := rfl
  rw [e, this]; norm_num
theorem R_wg_11 : R wg 0 1 1 1 = 1 + 101 / 100 * (17 / 96) := by
  simp [wg, w3, g6, R, rich, col0, hN, Finset.sum_range_succ]; norm_num
theorem R_wg_22 : R wg 0 1 2 2 = 1 + 101 / 100 * (55 / 384) := by
  simp [wg, w3, g6, R, rich, col0, hN, Finset.sum_range_succ]; norm_num
theorem R_wg_33 : R wg 0 1 3 3 = 801 / 700 := by
  have e : wg = fun x => (fun _ : ℚ => (1 : ℚ)) x + (101 / 100) * g6 x := by
    funext x; simp [wg, w3, g6]; ring
  have h0 := R_exact_monomial (0 : ℚ) 1 0 3 3 le_rfl (by norm_num)
  simp only [pow_zero] at h0
  rw [e, R_add, R_smul, R_g_33, h0]; norm_num

private theorem hnQ : ∀ x : ℚ, HasNaN.isNaN x = false := fun _ => rfl
private theorem eQ : ∀ x : ℚ, Transc.abs x = |x| := fun _ => rfl

theorem stop_g_2 : stopAt g6 0 1 (1 / 1000) 2 = false := by
  simp only [stopAt, R_g_22, show 2 - 1 = 1 from rfl, R_g_11, rombergStop, fminG, eQ]
  rw [show |(55 / 384 - 17 / 96 : ℚ)| = 13 / 384 by norm_num [abs_of_neg],
    show |(55 / 384 : ℚ)| = 55 / 384 from abs_of_pos (by norm_num),
    show |(17 / 96 : ℚ)| = 17 / 96 from abs_of_pos (by norm_num)]
  simp only [hnQ, Bool.false_eq_true, if_false]
  norm_num
theorem stop_g_3 : stopAt g6 0 1 (1 / 1000) 3 = true := by
  simp only [stopAt, R_g_33, show 3 - 1 = 2 from rfl, R_g_22, rombergStop, eQ]
  rw [show |(1 / 7 - 55 / 384 : ℚ)| = 1 / 2688 by norm_num [abs_of_neg]]
  norm_num
theorem stop_wg_2 : stopAt wg 0 1 (1 / 1000) 2 = false := by
  simp only [stopAt, R_wg_22, show 2 - 1 = 1 from rfl, R_wg_11, rombergStop, fminG, eQ]
  rw [show |(1 + 101 / 100 * (55 / 384) - (1 + 101 / 100 * (17 / 96)) : ℚ)| = 1313 / 38400 by norm_num [abs_of_neg],
    show |(1 + 101 / 100 * (55 / 384) : ℚ)| = 1 + 101 / 100 * (55 / 384) from abs_of_pos (by norm_num),
    show |(1 + 101 / 100 * (17 / 96) : ℚ)| = 1 + 101 / 100 * (17 / 96) from abs_of_pos (by norm_num)]
  simp only [hnQ, Bool.false_eq_true, if_false]
  norm_num
theorem stop_wg_3 : stopAt wg 0 1 (1 / 1000) 3 = true := by
  simp only [stopAt, R_wg_33, show 3 - 1 = 2 from rfl, R_wg_22, rombergStop, fminG, eQ]
  rw [show |(801 / 700 - (1 + 101 / 100 * (55 / 384)) : ℚ)| = 101 / 268800 by norm_num [abs_of_neg],
    show |(801 / 700 : ℚ)| = 801 / 700 from abs_of_pos (by norm_num),
    show |(1 + 101 / 100 * (55 / 384) : ℚ)| = 1 + 101 / 100 * (55 / 384) from abs_of_pos (by norm_num)]
  simp only [hnQ, Bool.false_eq_true, if_false]
  norm_num

/-- **`romberg` is NOT additive in the integrand at a positive tolerance** (it is at `eps = 0`, and the
tableau `R` always is): the summands and the sum stop at different levels.  On `[0,1]`, `eps = 10⁻³`,
5 levels: `romberg(1 + x⁶/100) = 7691/7680` (level 2), `romberg(x⁶) = 1/7` (level 3),
`romberg(their sum) = 801/700` (level 3) `≠ 7691/7680 + 1/7`. -/
theorem romberg_not_additive_witness :
    romberg g6 0 1 (1 / 1000) 5 = some (1 / 7) ∧ romberg wg 0 1 (1 / 1000) 5 = some (801 / 700) ∧
    (7691 / 7680 + 1 / 7 : ℚ) ≠ 801 / 700 := by
  refine ⟨?_, ?_, by norm_num⟩
  · rw [romberg_of_first_stop g6 0 1 (1 / 1000) 5 3 (by norm_num) (by norm_num) (by norm_num) stop_g_3
      (fun j h2 h3 => by
        have : j = 2 := by omega
        subst this; exact stop_g_2)]
    exact congrArg some R_g_33
  · rw [romberg_of_first_stop wg 0 1 (1 / 1000) 5 3 (by norm_num) (by norm_num) (by norm_num) stop_wg_3
      (fun j h2 h3 => by
        have : j = 2 := by omega
        subst this; exact stop_wg_2)]
    exact congrArg some R_wg_33

end NonAdditive

section PanelIntegral
open intervalIntegral

/-- The linear interpolant through `(x0, y0)` and `(x1, y1)`. -/
noncomputable def lin (x0 x1 y0 y1 : ℝ) (t : ℝ) : ℝ := y0 + (y1 - y0) / (x1 - x0) * (t - x0)

/-- **One panel is the integral of the linear interpolant** (also for `x1 < x0`; for `x0 = x1` both
sides are `0`). -/
theorem panel_integral (x0 x1 y0 y1 : ℝ) :
    (y1 + y0) / 2 * (x1 - x0) = ∫ t in x0..x1, lin x0 x1 y0 y1 t := by
  by_cases h : x0 = x1
  · subst h; simp
  have hne : x1 - x0 ≠ 0 := sub_ne_zero.mpr (Ne.symm h)
  unfold lin
  rw [intervalIntegral.integral_add (by apply Continuous.intervalIntegrable; continuity)
      (by apply Continuous.intervalIntegrable; continuity)]
  rw [intervalIntegral.integral_const, intervalIntegral.integral_const_mul]
  rw [intervalIntegral.integral_sub (by apply Continuous.intervalIntegrable; continuity)
      (by apply Continuous.intervalIntegrable; continuity)]
  rw [integral_id, intervalIntegral.integral_const]
  simp only [smul_eq_mul]
  field_simp
  ring

/-- Sum over the panels of the integrals of the linear pieces. -/
noncomputable def panelIntegrals : List ℝ → List ℝ → ℝ
  | y0 :: y1 :: ys, x0 :: x1 :: xs =>
    (∫ t in x0..x1, lin x0 x1 y0 y1 t) + panelIntegrals (y1 :: ys) (x1 :: xs)
  | _, _ => 0

/-- **`panelSum` is the sum of the integrals of the linear pieces**, for any abscissae. -/
theorem panelSum_eq_integrals (y x : List ℝ) : panelSum y x = panelIntegrals y x := by
  fun_induction panelSum y x with
  | case1 y0 y1 ys x0 x1 xs ih => rw [panelIntegrals, ← ih, panel_integral]
  | case2 y x h =>
    unfold panelIntegrals
    split
    · rename_i y0 y1 ys x0 x1 xs
      exact (h y0 y1 ys x0 x1 xs rfl rfl).elim
    · rfl

/-- **Sampled integration returns the sum of the exact integrals of the linear pieces.** -/
theorem trapezoid_eq_integrals (y x : List ℝ) (h : y.length = x.length) :
    trapezoid y (some x) none = some (panelIntegrals y x) := by
  rw [trapezoid_eq y x h, panelSum_eq_integrals]

example : trapezoid ([2, 4, 5] : List ℝ) (some [1, 2, 4]) none
    = some ((∫ t in (1:ℝ)..2, lin 1 2 2 4 t) + ((∫ t in (2:ℝ)..4, lin 2 4 4 5 t) + 0)) := by
  rw [trapezoid_eq_integrals [2, 4, 5] [1, 2, 4] rfl]; simp [panelIntegrals]


/-- The piecewise-linear interpolant of the samples `(xᵢ, yᵢ)` (left-most piece whose right end is `≥ t`). -/
noncomputable def pwl : List ℝ → List ℝ → ℝ → ℝ
  | y0 :: y1 :: ys, x0 :: x1 :: xs, t =>
    if t ≤ x1 then lin x0 x1 y0 y1 t else pwl (y1 :: ys) (x1 :: xs) t
  | _, _, _ => 0

open MeasureTheory in
theorem pwl_intervalIntegrable (y x : List ℝ) (a b : ℝ) : IntervalIntegrable (pwl y x) volume a b := by
  induction x generalizing y with
  | nil =>
    have : pwl y [] = fun _ => 0 := by funext t; unfold pwl; split <;> simp_all
    rw [this]; exact intervalIntegrable_const
  | cons x0 xs ih =>
    cases xs with
    | nil =>
      have : pwl y [x0] = fun _ => 0 := by funext t; unfold pwl; split <;> simp_all
      rw [this]; exact intervalIntegrable_const
    | cons x1 xs =>
      match y with
      | [] =>
        have : pwl [] (x0 :: x1 :: xs) = fun _ => 0 := by funext t; simp [pwl]
        rw [this]; exact intervalIntegrable_const
      | [y0] =>
        have : pwl [y0] (x0 :: x1 :: xs) = fun _ => 0 := by funext t; simp [pwl]
        rw [this]; exact intervalIntegrable_const
      | y0 :: y1 :: ys =>
        have hl : IntervalIntegrable (lin x0 x1 y0 y1) volume a b := by
          apply Continuous.intervalIntegrable; unfold lin; continuity
        have e : pwl (y0 :: y1 :: ys) (x0 :: x1 :: xs)
            = (Set.Iic x1).piecewise (lin x0 x1 y0 y1) (pwl (y1 :: ys) (x1 :: xs)) := by
          funext t; simp [pwl, Set.piecewise]
        have ih' := ih (y1 :: ys)
        rw [e]
        rw [intervalIntegrable_iff] at hl ih' ⊢
        exact Integrable.piecewise measurableSet_Iic hl.integrableOn ih'.integrableOn

/-- last abscissa -/
def lastD (x : List ℝ) : ℝ := x.getLastD 0

/-- **Sorted abscissae: the sampled rule is the integral of the piecewise-linear interpolant over the
whole range** `∫_{x₀}^{xₙ₋₁} pwl`. -/
theorem panelSum_eq_integral_pwl (y x : List ℝ) (h : y.length = x.length)
    (hs : x.Pairwise (· < ·)) (hne : x ≠ []) :
    panelSum y x = ∫ t in x.head hne..x.getLast hne, pwl y x t := by
  induction x generalizing y with
  | nil => exact absurd rfl hne
  | cons x0 xs ih =>
    match y, h with
    | y0 :: ys, h =>
      cases xs with
      | nil =>
        have : ys = [] := List.eq_nil_of_length_eq_zero (by simpa using h)
        subst this; simp [panelSum]
      | cons x1 xs =>
        match ys, h with
        | y1 :: ys, h =>
          have hs' : (x1 :: xs).Pairwise (· < ·) := (List.pairwise_cons.mp hs).2
          have h01 : x0 < x1 := (List.pairwise_cons.mp hs).1 x1 (by simp)
          have hlast : x1 ≤ (x1 :: xs).getLast (by simp) := by
            rcases List.getLast_mem (l := x1 :: xs) (by simp) with hm
            rcases List.mem_cons.mp hm with he | hm'
            · exact le_of_eq he.symm
            · exact le_of_lt ((List.pairwise_cons.mp hs').1 _ hm')
          have ih' := ih (y1 :: ys) (by simpa using h) hs' (by simp)
          simp only [List.head_cons, List.getLast_cons (by simp : x1 :: xs ≠ [])] at ih' ⊢
          rw [panelSum, ih', panel_integral,
            ← intervalIntegral.integral_add_adjacent_intervals (pwl_intervalIntegrable _ _ x0 x1)
              (pwl_intervalIntegrable _ _ x1 _)]
          congr 1
          · apply intervalIntegral.integral_congr
            intro t ht
            rw [Set.uIcc_of_le (le_of_lt h01)] at ht
            simp [pwl, ht.2]
          · apply intervalIntegral.integral_congr_ae
            refine Filter.Eventually.of_forall fun t ht => ?_
            rw [Set.uIoc_of_le hlast] at ht
            simp [pwl, not_le.mpr ht.1]

theorem trapezoid_eq_integral_pwl (y x : List ℝ) (h : y.length = x.length)
    (hs : x.Pairwise (· < ·)) (hne : x ≠ []) :
    trapezoid y (some x) none = some (∫ t in x.head hne..x.getLast hne, pwl y x t) := by
  rw [trapezoid_eq y x h, panelSum_eq_integral_pwl y x h hs hne]

end PanelIntegral

section Small
variable {α : Type} [Field α]

/-- **`n = 0` panels** (outside the property's quantifier `1..4096`): the code divides `b − a` by `0`; the
`f64` result is `±inf` or NaN (`a = b`), and the algebraic theorems `trapz_add`, `trapz_smul`, `trapz_self`,
`trapz_eq_mathlib` hold at `n = 0` only through Lean's `x / 0 = 0` (both sides are `0`). -/
theorem trapz_zero_panels (f : α → α) (a b : α) :
    trapz f a b 0 = (b - a) / 0 * ((f b + f a) / 2) ∧ trapz f a b 0 = 0 := by
  constructor <;> simp [trapz_def]

/-- Default spacing: no abscissae and no `dx` is `dx = 1`. -/
theorem trapezoid_default (y : List α) : trapezoid y none none = trapezoid y none (some 1) := by
  simp [trapezoid]

/-- The `dx` form in closed form: `dx · Σ (yᵢ + yᵢ₋₁)/2` for non-empty samples. -/
theorem trapezoid_dx_eq (y : List α) (d : α) (hy : y ≠ []) :
    trapezoid y none (some d) = some (((pairMeans y).map fun m => m * d).sum) := by
  have hlen : y.length ≠ 0 := fun h => hy (List.eq_nil_of_length_eq_zero h)
  simp [trapezoid, hlen, iterSum_eq]

example : trapezoid ([2, 4, 5, 6] : List ℚ) (some [1, 2, 3, 5]) none = some (37 / 2) := by
  rw [trapezoid_eq [2, 4, 5, 6] [1, 2, 3, 5] rfl]; norm_num [panelSum]
example : trapezoid ([2, 4, 5] : List ℚ) none none = some (15 / 2) := by
  rw [trapezoid_default, trapezoid_dx_eq _ _ (by simp)]; norm_num [pairMeans, two]
example : trapezoid ([2, 4] : List ℚ) (some [1, 2]) (some 1) = none ∧ trapezoid ([2, 4] : List ℚ) (some [1]) none = none :=
  ⟨(trapezoid_panics _ _ _).2.1, (trapezoid_panics [2, 4] [1] 0).1 (by decide)⟩
example : trapezoid ([1, 2, 3] : List ℚ) (some ((List.range' 0 3).map fun i : ℕ => 5 + (i : ℚ) * 2)) none
    = trapezoid [1, 2, 3] none (some 2) := trapezoid_uniform [1, 2, 3] 5 2 (by simp)
example : trapz (fun x : ℝ => x ^ 2) 1 0 4 = -trapz (fun x : ℝ => x ^ 2) 0 1 4 := trapz_swap _ _ _ (by norm_num)
example : |moment 4 - 2 / ((4 : ℕ) + 1 : ℚ)| ≤ 1 / 10 ^ 16 := quad5_moment_even 4 (by norm_num) ⟨2, rfl⟩

end Small

section Review2
open Polynomial
local instance instTranscRatC07V2 : Transc ℚ := ⟨id, id, id, fun a _ => a, id, id, id, abs, id, id⟩
local instance instHasNaNRatC07V2 : HasNaN ℚ := ⟨fun _ => false, 0⟩
private theorem habsQ2 : ∀ x : ℚ, Transc.abs x = |x| := fun _ => rfl

theorem w_eq_w3 : w = w3 := rfl

/-- **Non-additivity at a positive tolerance, all three runs in one statement**: on `[0,1]`, `eps = 10⁻³`,
5 levels, `romberg(1 + x⁶/100) = 7691/7680`, `romberg(x⁶) = 1/7`, `romberg(their sum) = 801/700`, and
`7691/7680 + 1/7 ≠ 801/700`. -/
theorem romberg_not_additive :
    ∃ v1 v2 v3 : ℚ, romberg w3 0 1 (1 / 1000) 5 = some v1 ∧ romberg g6 0 1 (1 / 1000) 5 = some v2 ∧
      romberg (fun x => w3 x + g6 x) 0 1 (1 / 1000) 5 = some v3 ∧ v1 + v2 ≠ v3 := by
  refine ⟨_, _, _, ?_, romberg_not_additive_witness.1, romberg_not_additive_witness.2.1,
    romberg_not_additive_witness.2.2⟩
  rw [← w_eq_w3]; exact romberg_early_exit_witness.1

/-- `romberg_stop_level` instantiated at `eps > 0`. -/
example : ∃ s, s < 5 ∧ romberg w 0 1 (1 / 1000) 5 = some (R w 0 1 s s) ∧
      ((s = 5 - 1 ∧ ∀ j, 2 ≤ j → j < 5 → stopAt w 0 1 (1 / 1000) j = false) ∨
       (2 ≤ s ∧ stopAt w 0 1 (1 / 1000) s = true ∧ ∀ j, 2 ≤ j → j < s → stopAt w 0 1 (1 / 1000) j = false)) :=
  romberg_stop_level w 0 1 (1 / 1000) 5 (by norm_num) (by norm_num)

/-- `romberg_swap_any`, `romberg_self_any` at `eps > 0` on the witness integrand, `a > b` and `a = b`. -/
example : romberg w 1 0 (1 / 1000) 5 = some (-(7691 / 7680)) := by
  rw [romberg_swap_any habsQ2 w 0 1 (1 / 1000) 5, romberg_early_exit_witness.1]; rfl
example : romberg w 3 3 (1 / 1000) 5 = some 0 :=
  romberg_self_any w 3 (1 / 1000) 5 (by norm_num) (by norm_num)

/-- `romberg_exact_at_stop_level` on the witness: the stop level is `s = 2`, so the premise
`natDegree ≤ 2s + 2 = 6` fails for the degree-7 antiderivative — consistent with the inexact result. -/
example : ∃ s, s < 5 ∧ ((X + C (1 / 700) * X ^ 7 : ℚ[X]).natDegree ≤ 2 * s + 2 →
    romberg (fun x => (derivative (X + C (1 / 700) * X ^ 7 : ℚ[X])).eval x) 0 1 (1 / 1000) 5
      = some ((X + C (1 / 700) * X ^ 7 : ℚ[X]).eval 1 - (X + C (1 / 700) * X ^ 7 : ℚ[X]).eval 0)) := by
  obtain ⟨s, hs, _, _, hex⟩ := romberg_exact_at_stop_level (X + C (1 / 700) * X ^ 7 : ℚ[X]) 0 1 (1 / 1000) 5
    (by norm_num) (by norm_num)
  exact ⟨s, hs, hex⟩

/-- `romberg_exact_of_no_stop` at `eps > 0`: `x⁴`, 3 levels, `eps = 10⁻¹⁰` (no test fires, degree 4 ≤ 5). -/
theorem R44_11 : R (fun x : ℚ => x ^ 4) 0 1 1 1 = 5 / 24 := by
  simp [R, rich, col0, hN, Finset.sum_range_succ]; norm_num
theorem R44_22 : R (fun x : ℚ => x ^ 4) 0 1 2 2 = 1 / 5 := by
  simp [R, rich, col0, hN, Finset.sum_range_succ]; norm_num
theorem stop44 : stopAt (fun x : ℚ => x ^ 4) 0 1 (1 / 10000000000) 2 = false := by
  have hn : ∀ x : ℚ, HasNaN.isNaN x = false := fun _ => rfl
  simp only [stopAt, R44_22, show 2 - 1 = 1 from rfl, R44_11, rombergStop, fminG, habsQ2]
  rw [show |(1 / 5 - 5 / 24 : ℚ)| = 1 / 120 by norm_num [abs_of_neg],
    show |(1 / 5 : ℚ)| = 1 / 5 from abs_of_pos (by norm_num),
    show |(5 / 24 : ℚ)| = 5 / 24 from abs_of_pos (by norm_num)]
  simp only [hn, Bool.false_eq_true, if_false]
  norm_num
example : romberg (fun x : ℚ => x ^ 4) 0 1 (1 / 10000000000) 3 = some (1 / 5) := by
  have hP : (fun x : ℚ => (derivative (C (1 / 5) * X ^ 5 : ℚ[X])).eval x) = fun x => x ^ 4 := by
    funext x; simp; ring
  have := romberg_exact_of_no_stop (C (1 / 5) * X ^ 5 : ℚ[X]) 0 1 (1 / 10000000000) 3 (by norm_num) (by norm_num)
    (by
      have h : (C (1 / 5) * X ^ 5 : ℚ[X]).natDegree ≤ 6 := by compute_degree <;> norm_num
      exact h)
    (by
      intro j h2 h3
      have : j = 2 := by omega
      subst this; rw [hP]; exact stop44)
  rw [hP] at this; rw [this]; norm_num

/-- `trapezoid_eq_integral_pwl` / `panelSum_eq_integral_pwl` on `x = [0,1,3]`, `y = [1,2,0]`: value `7/2`. -/
example : trapezoid ([1, 2, 0] : List ℝ) (some [0, 1, 3]) none
    = some (∫ t in (0:ℝ)..3, pwl [1, 2, 0] [0, 1, 3] t) := by
  have := trapezoid_eq_integral_pwl ([1, 2, 0] : List ℝ) [0, 1, 3] rfl (by simp) (by simp)
  simpa using this
example : (∫ t in (0:ℝ)..3, pwl [1, 2, 0] [0, 1, 3] t) = 7 / 2 := by
  have := panelSum_eq_integral_pwl ([1, 2, 0] : List ℝ) [0, 1, 3] rfl (by simp) (by simp)
  simp only [List.head_cons, List.getLast_cons_cons, List.getLast_singleton] at this
  rw [← this]; norm_num [panelSum]
example : pwl [1, 2, 0] [0, 1, 3] (2 : ℝ) = 1 := by norm_num [pwl, lin]

end Review2

end Cv.C07V
