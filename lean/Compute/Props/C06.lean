import Compute.Model.Glm
import Compute.Lemmas.C06Basic
import Compute.Lemmas.C06Spec
import Mathlib.Tactic.Ring
import Mathlib.Tactic.Linarith
import Mathlib.Tactic.LinearCombination
import Mathlib.Tactic.FieldSimp
/-
C06 — GLM fitting returns the (penalised) MLE with correct inference.

Theorems about the model `Compute/Model/Glm.lean` of `src/predict/glms/{glm.rs,families.rs}` in exact
arithmetic: the scalar is an arbitrary field, `exp`, `ln`, `sqrt`, `abs` are abstract (any `Transc`
instance), the linear solver is a parameter.  The float gap is covered by the bit-exact tie of the same
model at `Float` and by the mpmath oracle (tools/cv/c06.py).
-/
set_option linter.unusedSectionVars false
namespace Cv.C06
open Cv Cv.Vops Cv.Glm Cv.C06L

/-- instances used only by the non-vacuity `example`s over `ℚ` (the theorems hold for every instance) -/
local instance : Transc ℚ := ⟨id, id, id, fun a _ => a, id, id, id, abs, id, id⟩
local instance : GlmScalar ℚ := ⟨fun _ => false, fun q => q.floor.toNat⟩

variable {α : Type} [Field α] [LT α] [DecidableLT α] [BEq α] [Transc α] [GlmScalar α] [Inhabited α]

/-! ## 1. gradient and information -/

/-- **dbeta_spec.** `compute_dbeta` component `j` is `−Σ_i x_ij · w_i (y_i − μ_i) dμ_i / var_i`. -/
theorem dbeta_spec (x y mu dmu var w : List α) (n p : Nat) (hn : 0 < n) (hx : x.length = n * p)
    (hy : y.length = n) (hmu : mu.length = n) (hd : dmu.length = n) (hv : var.length = n) (hw : w.length = n) :
    ∃ g, computeDbeta x y mu dmu var w = some g ∧ g.length = p ∧
      ∀ j, j < p → g[j]! = - ∑ i ∈ Finset.range n, x[i * p + j]! * (w[i]! * (y[i]! - mu[i]!) * (dmu[i]! / var[i]!)) :=
  computeDbeta_spec x y mu dmu var w n p hn hx hy hmu hd hv hw

/-- **ddbeta_spec.** `compute_ddbeta = Xᵀ diag(w_i dμ_i² / var_i) X` (entry formula). -/
theorem ddbeta_spec (x dmu var w : List α) (n p : Nat) (hn : 0 < n) (hx : x.length = n * p)
    (hd : dmu.length = n) (hv : var.length = n) (hw : w.length = n) :
    ∃ H, computeDdbeta x dmu var w = some H ∧ H.length = p * p ∧
      ∀ a b, a < p → b < p →
        H[a * p + b]! = ∑ i ∈ Finset.range n, x[i * p + a]! * (x[i * p + b]! * (w[i]! * (dmu[i]! * dmu[i]!) / var[i]!)) :=
  computeDdbeta_spec x dmu var w n p hn hx hd hv hw

/-- the length asserts: a weight vector of the wrong length makes `compute_dbeta` panic -/
theorem dbeta_rejects (x y mu dmu var w : List α) (hy : y.length = mu.length) (hw : w.length ≠ y.length) :
    computeDbeta x y mu dmu var w = none := by
  have hwr : workingResiduals y mu dmu var w = none := by
    unfold workingResiduals
    rw [vbin_eq _ y mu hy]
    simp only [Option.bind_eq_bind, Option.bind_some]
    rw [vbin_none _ w _ (by simp; omega)]
    rfl
  simp only [computeDbeta, hwr, Option.bind_eq_bind]
  cases isMatrix x y.length <;> rfl

example : computeDbeta ([1, 2, 1, 3] : List ℚ) [1, 0] [1, 1] [1, 1] [1, 1] [1, 1] = some [1, 3] := by decide +kernel

/-! ## 2. the penalty step (F14 repaired: the gradient penalty carries the factor α) -/

/-- **penalty_spec.** With `α > 0` the gradient becomes `dbeta_j + α·β_j` on the components `j ≥ 1` and stays unchanged on
the intercept; the information gets `+ α` on every diagonal entry; with `α ≤ 0` nothing changes. -/
theorem penalty_spec (alpha : α) (p : Nat) (coef g H : List α) (hg : g.length = p) (hH : H.length = p * p) :
    (penalised alpha p coef g H).1.length = p ∧ (penalised alpha p coef g H).2.length = p * p ∧
    (∀ j, j < p → (penalised alpha p coef g H).1[j]! =
        if 0 < alpha ∧ 1 ≤ j then g[j]! + alpha * coef[j]! else g[j]!) ∧
    (∀ a b, a < p → b < p → (penalised alpha p coef g H).2[a * p + b]! =
        if 0 < alpha ∧ a = b then H[a * p + b]! + alpha else H[a * p + b]!) := by
  unfold penalised
  by_cases ha : 0 < alpha
  · simp only [ha, if_true, true_and]
    obtain ⟨l1, e1⟩ := applyDbetaPenalty_spec alpha g coef
    obtain ⟨l2, e2⟩ := applyDdbetaPenalty_spec alpha H p hH
    refine ⟨by rw [l1, hg], l2, ?_, e2⟩
    intro j hj
    rw [e1 j (by omega)]
    by_cases h0 : j = 0
    · simp [h0]
    · simp [h0, Nat.one_le_iff_ne_zero]
  · simp [ha, hg, hH]

/-! ## 3. one scoring step is a fixed point exactly at the penalised score equations -/

/-- `H·v` for a flat `p × p` matrix. -/
def mulVecL (H v : List α) (p : Nat) : List α :=
  (List.range p).map fun a => ∑ b ∈ Finset.range p, H[a * p + b]! * v[b]!

/-- The hypothesis on the linear solver: whenever it answers, the answer has the right length, solves the system exactly,
and the matrix is nonsingular (`H v = 0 → v = 0`). -/
def SolvesExactly (solve : List α → List α → Option (List α)) (p : Nat) : Prop :=
  ∀ H g s, g.length = p → solve H g = some s →
    s.length = p ∧ mulVecL H s p = g ∧
    ∀ v : List α, v.length = p → mulVecL H v p = List.replicate p 0 → v = List.replicate p 0

/-- what one pass of the loop computes, step by step -/
theorem loopBody_some {solve : List α → List α → Option (List α)} {P : Problem α} {st st' : LoopState α}
    (h : loopBody solve P st = some st') :
    ∃ eta dbeta ddbeta s coef pd,
      linearPredictor P.x st.coef P.n P.p P.offsets = some eta ∧
      computeDbeta P.x P.y (invLink P.family eta) (dInvLink P.family eta (invLink P.family eta))
        (variance P.family (invLink P.family eta)) P.weights = some dbeta ∧
      computeDdbeta P.x (dInvLink P.family eta (invLink P.family eta))
        (variance P.family (invLink P.family eta)) P.weights = some ddbeta ∧
      solve (penalised P.alpha P.p st.coef dbeta ddbeta).2 (penalised P.alpha P.p st.coef dbeta ddbeta).1 = some s ∧
      Vops.vbin (· - ·) st.coef s = some coef ∧
      penalizedDeviance P.family P.y (invLink P.family eta) P.alpha coef = some pd ∧
      st' = { coef := coef, pd := some pd, pdPrev := st.pd, mu := invLink P.family eta,
              dmu := dInvLink P.family eta (invLink P.family eta),
              var := variance P.family (invLink P.family eta),
              nIter := st.nIter + 1, converged := hasConverged pd st.pd P.tol } := by
  unfold loopBody at h
  simp only [Option.bind_eq_bind, Option.bind_eq_some_iff, Option.pure_def, Option.some.injEq] at h
  obtain ⟨eta, h1, dbeta, h2, ddbeta, h3, s, h4, coef, h5, pd, h6, h7⟩ := h
  exact ⟨eta, dbeta, ddbeta, s, coef, pd, h1, h2, h3, h4, h5, h6, h7.symm⟩

theorem mulVecL_zero (H : List α) (p : Nat) : mulVecL H (List.replicate p 0) p = List.replicate p 0 := by
  apply ext_getBang
  · simp [mulVecL]
  · intro a ha
    have ha' : a < p := by simpa [mulVecL] using ha
    unfold mulVecL
    rw [getBang_rangeMap _ _ _ ha', getBang_replicate _ _ _ ha']
    apply Finset.sum_eq_zero
    intro b hb
    rw [getBang_replicate _ _ _ (Finset.mem_range.mp hb), mul_zero]

theorem sub_eq_self_iff (b s : List α) (p : Nat) (hb : b.length = p) (hs : s.length = p) :
    List.zipWith (· - ·) b s = b ↔ s = List.replicate p 0 := by
  constructor
  · intro h
    apply ext_getBang (by simp [hs])
    intro i hi
    have hi' : i < p := by omega
    have this : (List.zipWith (· - ·) b s)[i]! = b[i]! := by rw [h]
    rw [getBang_zipWith _ _ _ i (by omega) (by omega)] at this
    rw [getBang_replicate _ _ _ hi']
    have h2 : b[i]! - s[i]! = b[i]! - 0 := by rw [this, sub_zero]
    exact sub_right_injective h2
  · intro h
    subst h
    apply ext_getBang (by simp [hb])
    intro i hi
    have hi' : i < p := by simpa [hb] using hi
    rw [getBang_zipWith _ _ _ i (by omega) (by simpa using hi'), getBang_replicate _ _ _ hi', sub_zero]

/-- **fixed_point_iff_score.** For any solver that solves exactly (and only answers on nonsingular matrices), one pass of
the scoring loop leaves `β` unchanged iff the penalised score equations
`Σ_i x_ij · w_i (y_i − μ_i) dμ_i / var_i = α β_j [j ≥ 1]` hold at `μ = g⁻¹(Xβ + offset)`. -/
theorem fixed_point_iff_score (solve : List α → List α → Option (List α)) (P : Problem α) (st st' : LoopState α)
    (hn : 0 < P.n) (hp : 0 < P.p) (hx : P.x.length = P.n * P.p) (hy : P.y.length = P.n)
    (hw : P.weights.length = P.n) (hc : st.coef.length = P.p) (ho : ∀ o, P.offsets = some o → o.length = P.n)
    (hsolve : SolvesExactly solve P.p) (h : loopBody solve P st = some st') :
    ∃ eta, linearPredictor P.x st.coef P.n P.p P.offsets = some eta ∧ eta.length = P.n ∧
      (∀ i, i < P.n → eta[i]! = (∑ j ∈ Finset.range P.p, P.x[i * P.p + j]! * st.coef[j]!) + offAt P.offsets i) ∧
      (st'.coef = st.coef ↔
        ∀ j, j < P.p →
          ∑ i ∈ Finset.range P.n, P.x[i * P.p + j]! *
              wres P.y (invLink P.family eta) (dInvLink P.family eta (invLink P.family eta))
                (variance P.family (invLink P.family eta)) P.weights i =
            if 0 < P.alpha ∧ 1 ≤ j then P.alpha * st.coef[j]! else 0) := by
  obtain ⟨eta, dbeta, ddbeta, s, coef, pd, h1, h2, h3, h4, h5, _, h7⟩ := loopBody_some h
  obtain ⟨eta', he1, hel, hee⟩ := linearPredictor_spec P.x st.coef P.n P.p P.offsets hn hp hx hc ho
  rw [h1] at he1
  obtain rfl := Option.some.inj he1
  refine ⟨eta, h1, hel, hee, ?_⟩
  have hmu : (invLink P.family eta).length = P.n := by rw [invLink_length, hel]
  have hdm : (dInvLink P.family eta (invLink P.family eta)).length = P.n := by
    rw [dInvLink_length _ _ _ (by rw [hmu, hel]), hmu]
  have hvr : (variance P.family (invLink P.family eta)).length = P.n := by rw [variance_length, hmu]
  obtain ⟨g, hg, hgl, hge⟩ := computeDbeta_spec P.x P.y _ _ _ P.weights P.n P.p hn hx hy hmu hdm hvr hw
  rw [h2] at hg
  obtain rfl := Option.some.inj hg
  obtain ⟨H, hH, hHl, _⟩ := computeDdbeta_spec P.x _ _ P.weights P.n P.p hn hx hdm hvr hw
  rw [h3] at hH
  obtain rfl := Option.some.inj hH
  obtain ⟨pl1, pl2, pe1, _⟩ := penalty_spec P.alpha P.p st.coef dbeta ddbeta hgl hHl
  obtain ⟨hsl, hmul, hinj⟩ := hsolve _ _ s pl1 h4
  obtain ⟨_, hcoef⟩ := vbin_some h5
  have hst : st'.coef = coef := by rw [h7]
  rw [hst, hcoef, sub_eq_self_iff st.coef s P.p hc hsl]
  -- s = 0 ↔ penalised gradient = 0
  have hs0 : s = List.replicate P.p 0 ↔ (penalised P.alpha P.p st.coef dbeta ddbeta).1 = List.replicate P.p 0 := by
    constructor
    · intro hs; rw [← hmul, hs, mulVecL_zero]
    · intro hg0; exact hinj s hsl (by rw [hmul, hg0])
  rw [hs0]
  constructor
  · intro hg0 j hj
    have this : (penalised P.alpha P.p st.coef dbeta ddbeta).1[j]! = (List.replicate P.p (0 : α))[j]! := by rw [hg0]
    rw [pe1 j hj, getBang_replicate _ _ _ hj, hge j hj] at this
    by_cases hc2 : 0 < P.alpha ∧ 1 ≤ j
    · rw [if_pos hc2] at this ⊢
      linear_combination -this
    · rw [if_neg hc2] at this ⊢
      linear_combination -this
  · intro hsc
    apply ext_getBang (by simp [pl1])
    intro j hj
    have hj' : j < P.p := by omega
    rw [pe1 j hj', getBang_replicate _ _ _ hj', hge j hj']
    have := hsc j hj'
    by_cases hc2 : 0 < P.alpha ∧ 1 ≤ j
    · rw [if_pos hc2] at this ⊢
      linear_combination -this
    · rw [if_neg hc2] at this ⊢
      linear_combination -this

/-! ## 4. the family tables; the Gaussian specialisation -/

/-- **family_tables.** The six families' inverse link, derivative of the inverse link (through the mean), variance
function and deviance are the textbook ones (`invLinkF`, `dInvLinkF`, `varianceF`, `devTermF`/`devScale` in
`Lemmas/C06Spec.lean` spell them out: identity / logistic / exp; `1`, `μ(1−μ)`, `μ`; `1`, `μ(1−μ)`, `μ`, `μ²`;
`Σ(y−μ)²`, `−2Σ[y ln μ + (1−y) ln(1−μ)]`, `2Σ[μ − y − y ln μ + y ln y]`, `2Σ[(y−μ)/μ − ln(y/μ)]`). -/
theorem family_tables (f : Family) (eta y mu : List α) (h : y.length = mu.length) (he : eta.length = mu.length) :
    invLink f eta = eta.map (invLinkF f) ∧
    dInvLink f eta mu = mu.map (dInvLinkF f) ∧
    variance f mu = mu.map (varianceF f) ∧
    deviance f y mu = some (devScale f (∑ i ∈ Finset.range y.length, devTermF f y[i]! mu[i]!)) :=
  ⟨invLink_eq f eta, dInvLink_eq f eta mu he, variance_eq f mu, deviance_spec f y mu h⟩

/-- the mismatched-length panic of `deviance` -/
theorem deviance_rejects (f : Family) (y mu : List α) (h : y.length ≠ mu.length) : deviance f y mu = none :=
  deviance_none f y mu h

/-- **gaussian_deviance_eq_rss** (F15 repaired): the Gaussian deviance is the residual sum of squares. -/
theorem gaussian_deviance_eq_rss (y mu : List α) (h : y.length = mu.length) :
    deviance .gaussian y mu = some (∑ i ∈ Finset.range y.length, (y[i]! - mu[i]!) ^ 2) := by
  rw [deviance_spec .gaussian y mu h]
  simp only [devScale, devTermF, pow_two]

example : deviance .gaussian ([1, 2, 4] : List ℚ) [0, 2, 2] = some 5 := by decide +kernel
example : deviance .gaussian ([1, 2, 4] : List ℚ) [0, 2] = none := by decide +kernel

theorem gaussian_wres (y eta w : List α) (n i : Nat) (he : eta.length = n) (hi : i < n) :
    wres y (invLink .gaussian eta) (dInvLink .gaussian eta (invLink .gaussian eta))
      (variance .gaussian (invLink .gaussian eta)) w i = w[i]! * (y[i]! - eta[i]!) := by
  have e1 : invLink Family.gaussian eta = eta := rfl
  rw [e1]
  unfold wres
  have e2 : (dInvLink Family.gaussian eta eta)[i]! = 1 := by
    show (List.replicate eta.length (1 : α))[i]! = 1
    exact getBang_replicate _ _ _ (by omega)
  have e3 : (variance Family.gaussian eta)[i]! = 1 := by
    show (List.replicate eta.length (1 : α))[i]! = 1
    exact getBang_replicate _ _ _ (by omega)
  rw [e2, e3]; ring

/-- **gaussian_normal_equations.** For the Gaussian family the fixed points of the scoring step are exactly the solutions of
the weighted ridge normal equations `(XᵀWX + αI₀)β = XᵀW(y − offset)` (`I₀`: identity with a zero in the intercept
position), i.e. weighted ridge least squares. -/
theorem gaussian_normal_equations (solve : List α → List α → Option (List α)) (P : Problem α) (st st' : LoopState α)
    (hf : P.family = .gaussian)
    (hn : 0 < P.n) (hp : 0 < P.p) (hx : P.x.length = P.n * P.p) (hy : P.y.length = P.n)
    (hw : P.weights.length = P.n) (hc : st.coef.length = P.p) (ho : ∀ o, P.offsets = some o → o.length = P.n)
    (hsolve : SolvesExactly solve P.p) (h : loopBody solve P st = some st') :
    st'.coef = st.coef ↔
      ∀ j, j < P.p →
        (∑ k ∈ Finset.range P.p,
            (∑ i ∈ Finset.range P.n, P.x[i * P.p + j]! * P.weights[i]! * P.x[i * P.p + k]!) * st.coef[k]!) +
          (if 0 < P.alpha ∧ 1 ≤ j then P.alpha * st.coef[j]! else 0) =
        ∑ i ∈ Finset.range P.n, P.x[i * P.p + j]! * P.weights[i]! * (P.y[i]! - offAt P.offsets i) := by
  obtain ⟨eta, _, hel, hee, hiff⟩ := fixed_point_iff_score solve P st st' hn hp hx hy hw hc ho hsolve h
  rw [hiff]
  have key : ∀ j, ∑ i ∈ Finset.range P.n, P.x[i * P.p + j]! *
        wres P.y (invLink P.family eta) (dInvLink P.family eta (invLink P.family eta))
          (variance P.family (invLink P.family eta)) P.weights i =
      (∑ i ∈ Finset.range P.n, P.x[i * P.p + j]! * P.weights[i]! * (P.y[i]! - offAt P.offsets i)) -
      ∑ k ∈ Finset.range P.p,
        (∑ i ∈ Finset.range P.n, P.x[i * P.p + j]! * P.weights[i]! * P.x[i * P.p + k]!) * st.coef[k]! := by
    intro j
    rw [hf]
    have : ∀ i ∈ Finset.range P.n, P.x[i * P.p + j]! *
        wres P.y (invLink .gaussian eta) (dInvLink .gaussian eta (invLink .gaussian eta))
          (variance .gaussian (invLink .gaussian eta)) P.weights i =
        P.x[i * P.p + j]! * P.weights[i]! * (P.y[i]! - offAt P.offsets i) -
        ∑ k ∈ Finset.range P.p, P.x[i * P.p + j]! * P.weights[i]! * P.x[i * P.p + k]! * st.coef[k]! := by
      intro i hi
      have hi' := Finset.mem_range.mp hi
      rw [gaussian_wres P.y eta P.weights P.n i hel hi', hee i hi']
      have : ∑ k ∈ Finset.range P.p, P.x[i * P.p + j]! * P.weights[i]! * P.x[i * P.p + k]! * st.coef[k]! =
          P.x[i * P.p + j]! * P.weights[i]! * ∑ k ∈ Finset.range P.p, P.x[i * P.p + k]! * st.coef[k]! := by
        rw [Finset.mul_sum]; apply Finset.sum_congr rfl; intro k _; ring
      rw [this]; ring
    rw [Finset.sum_congr rfl this, Finset.sum_sub_distrib, Finset.sum_comm]
    congr 1
    apply Finset.sum_congr rfl
    intro k _
    rw [Finset.sum_mul]
  constructor
  · intro hs j hj
    have := hs j hj
    rw [key j] at this
    linear_combination -this
  · intro hs j hj
    have := hs j hj
    rw [key j]
    linear_combination -this

/-! ## 5. the result of `fit` -/

theorem hasConverged_true {loss : α} {prev : Option α} {tol : α} (h : hasConverged loss prev tol = true) :
    ∃ lp, prev = some lp ∧ GlmScalar.isInfinite lp = false ∧ (lp == 0) = false ∧
      Transc.abs (loss - lp) / lp < tol := by
  unfold hasConverged at h
  cases prev with
  | none => simp at h
  | some lp =>
    refine ⟨lp, rfl, ?_⟩
    by_cases hi : GlmScalar.isInfinite lp = true
    · simp [hi] at h
    · by_cases hz : (lp == 0) = true
      · simp [hi, hz] at h
      · simp only [hi, hz] at h
        exact ⟨by simpa using hi, by simpa using hz, by simpa using h⟩

/-- what the code does at `loss_previous = 0` (a perfect fit on the previous pass): `|Δ|/0` is `inf`/`NaN`, the test is
false, so the loop runs on and `fit` ends in `Err` unless a later pass has a non-zero previous deviance -/
theorem hasConverged_zero (loss lp tol : α) (hz : (lp == 0) = true) : hasConverged loss (some lp) tol = false := by
  unfold hasConverged
  by_cases hi : GlmScalar.isInfinite lp = true
  · simp [hi]
  · simp [hi, hz]

theorem loopBody_facts {solve : List α → List α → Option (List α)} {P : Problem α} {st st' : LoopState α}
    (h : loopBody solve P st = some st') :
    st'.nIter = st.nIter + 1 ∧ st'.pdPrev = st.pd ∧
      ∃ pd, st'.pd = some pd ∧ st'.converged = hasConverged pd st'.pdPrev P.tol := by
  obtain ⟨eta, dbeta, ddbeta, s, coef, pd, _, _, _, _, _, _, h7⟩ := loopBody_some h
  subst h7
  exact ⟨rfl, rfl, pd, rfl, rfl⟩

/-- the loop invariant: the loop stops at the first converged pass, or after exactly `k + 1` passes -/
theorem fitLoop_facts (solve : List α → List α → Option (List α)) (P : Problem α) :
    ∀ (k : Nat) (st st' : LoopState α), fitLoop solve P k st = some st' →
      (st'.converged = true ∧ st'.nIter ≤ st.nIter + k + 1 ∨ st'.converged = false ∧ st'.nIter = st.nIter + k + 1) ∧
      (∃ pd, st'.pd = some pd ∧ st'.converged = hasConverged pd st'.pdPrev P.tol) ∧ 1 ≤ st'.nIter := by
  intro k
  induction k with
  | zero =>
    intro st st' h
    have h' : loopBody solve P st = some st' := h
    obtain ⟨h1, _, h3⟩ := loopBody_facts h'
    refine ⟨?_, h3, by omega⟩
    cases hc : st'.converged
    · right; exact ⟨rfl, by omega⟩
    · left; exact ⟨rfl, by omega⟩
  | succ k ih =>
    intro st st' h
    unfold fitLoop at h
    cases hb : loopBody solve P st with
    | none => rw [hb] at h; cases h
    | some st1 =>
      rw [hb] at h
      simp only at h
      obtain ⟨h1, _, h3⟩ := loopBody_facts hb
      by_cases hc : st1.converged = true
      · rw [if_pos hc] at h
        obtain rfl := Option.some.inj h
        exact ⟨Or.inl ⟨hc, by omega⟩, h3, by omega⟩
      · rw [if_neg hc] at h
        obtain ⟨a, b, c⟩ := ih st1 st' h
        refine ⟨?_, b, c⟩
        rcases a with ⟨a1, a2⟩ | ⟨a1, a2⟩
        · left; exact ⟨a1, by omega⟩
        · right; exact ⟨a1, by omega⟩

theorem fitInit_some {family : Family} {x y : List α} {weights offsets : Option (List α)} {alpha tol : α}
    {maxIter : Nat} {P : Problem α} {st0 : LoopState α}
    (h : fitInit family x y weights offsets alpha tol maxIter = some (P, st0)) :
    P.maxIter = maxIter ∧ P.tol = tol ∧ P.alpha = alpha ∧ P.family = family ∧ P.offsets = offsets ∧
    P.x = x ∧ P.y = y ∧ P.n = y.length ∧ isMatrix x y.length = some P.p ∧ isDesign x y.length = some true ∧
    P.weights.length = y.length ∧ (∀ w, weights = some w → P.weights = w) ∧
    (weights = none → P.weights = List.replicate y.length 1) ∧
    st0.nIter = 0 ∧ st0.pd = none ∧ st0.coef = initialIntercept family y :: List.replicate (P.p - 1) 0 := by
  unfold fitInit at h
  simp only [Option.bind_eq_bind, Option.bind_eq_some_iff] at h
  obtain ⟨p, hp, d, hd, h⟩ := h
  cases d with
  | false => simp at h
  | true =>
    simp only [Bool.not_true, Bool.false_eq_true, if_false, Option.bind_eq_some_iff] at h
    obtain ⟨w, hw, h⟩ := h
    simp only [Option.pure_def, Option.some.injEq, Prod.mk.injEq] at h
    obtain ⟨rfl, rfl⟩ := h
    refine ⟨rfl, rfl, rfl, rfl, rfl, rfl, rfl, rfl, hp, hd, ?_, ?_, ?_, rfl, rfl, rfl⟩
    · cases weights with
      | none => simp [resolveWeights] at hw; subst hw; simp
      | some w' =>
        by_cases hl : w'.length = y.length
        · simp [resolveWeights, hl] at hw; subst hw; exact hl
        · simp [resolveWeights, hl] at hw
    · intro w' hw'
      subst hw'
      by_cases hl : w'.length = y.length
      · simp [resolveWeights, hl] at hw; exact hw.symm
      · simp [resolveWeights, hl] at hw
    · intro hw'
      subst hw'
      simp [resolveWeights] at hw; exact hw.symm

theorem fit_some {solve : List α → List α → Option (List α)} {family : Family} {x y : List α}
    {weights offsets : Option (List α)} {alpha tol : α} {maxIter : Nat} {r : Fit α}
    (h : fit solve family x y weights offsets alpha tol maxIter = some r) :
    ∃ P st0 st, fitInit family x y weights offsets alpha tol maxIter = some (P, st0) ∧
      fitLoop solve P (maxIter - 1) st0 = some st ∧ fitFinish P st = some r := by
  unfold fit at h
  simp only [Option.bind_eq_bind, Option.bind_eq_some_iff] at h
  obtain ⟨⟨P, st0⟩, h1, st, h2, h3⟩ := h
  exact ⟨P, st0, st, h1, h2, h3⟩

theorem fitFinish_some {P : Problem α} {st : LoopState α} {r : Fit α} (h : fitFinish P st = some r) :
    r.ok = !(decide (st.nIter ≥ P.maxIter) && !st.converged) ∧ r.coef = st.coef ∧
    deviance P.family P.y st.mu = some r.deviance ∧
    computeDdbeta P.x st.dmu st.var P.weights = some r.information ∧
    r.n = GlmScalar.roundToNat (sum8 P.weights) ∧ r.p = P.p ∧ r.family = P.family ∧ r.offsets = P.offsets ∧
    r.nIter = st.nIter ∧ r.converged = st.converged ∧ r.pd = st.pd ∧ r.pdPrev = st.pdPrev := by
  unfold fitFinish at h
  simp only [Option.bind_eq_bind, Option.bind_eq_some_iff, Option.pure_def, Option.some.injEq] at h
  obtain ⟨dev, hd, info, hi, rfl⟩ := h
  exact ⟨rfl, rfl, hd, hi, rfl, rfl, rfl, rfl, rfl, rfl, rfl, rfl⟩

/-- **fit_result.** `fit` returns `Err` iff the iteration budget is exhausted without convergence
(`n_iter ≥ max_iter ∧ ¬converged`); and that happens exactly when the last pass did not converge. -/
theorem fit_result (solve : List α → List α → Option (List α)) (family : Family) (x y : List α)
    (weights offsets : Option (List α)) (alpha tol : α) (maxIter : Nat) (r : Fit α)
    (h : fit solve family x y weights offsets alpha tol maxIter = some r) :
    (r.ok = false ↔ (r.nIter ≥ maxIter ∧ r.converged = false)) ∧ (r.ok = false ↔ r.converged = false) ∧
    1 ≤ r.nIter ∧ r.nIter ≤ max maxIter 1 := by
  obtain ⟨P, st0, st, h1, h2, h3⟩ := fit_some h
  obtain ⟨hm, _, _, _, _, _, _, _, _, _, _, _, _, h0, _, _⟩ := fitInit_some h1
  obtain ⟨hok, _, _, _, _, _, _, _, hni, hcv, _, _⟩ := fitFinish_some h3
  obtain ⟨hl, _, hge⟩ := fitLoop_facts solve P (maxIter - 1) st0 st h2
  rw [hok, hni, hcv, hm]
  rw [h0] at hl
  rcases hl with ⟨c1, c2⟩ | ⟨c1, c2⟩
  · simp [c1]; omega
  · have : maxIter ≤ st.nIter := by omega
    simp [c1, this]; omega

/-- **fit_ok_converged.** On `Ok` the last two penalised deviances differ relatively by less than the tolerance:
`|pd − pd_prev| / pd_prev < tol` with a finite, NON-ZERO `pd_prev` (`(lp == 0) = false`; with a lawful `==` that is
`lp ≠ 0`, see `fit_ok_converged_ne_zero`), so the quotient is a genuine quotient and not a totalised `x/0`. -/
theorem fit_ok_converged (solve : List α → List α → Option (List α)) (family : Family) (x y : List α)
    (weights offsets : Option (List α)) (alpha tol : α) (maxIter : Nat) (r : Fit α)
    (h : fit solve family x y weights offsets alpha tol maxIter = some r) (hok : r.ok = true) :
    ∃ pd lp, r.pd = some pd ∧ r.pdPrev = some lp ∧ GlmScalar.isInfinite lp = false ∧ (lp == 0) = false ∧
      Transc.abs (pd - lp) / lp < tol := by
  obtain ⟨_, hiff, _⟩ := fit_result solve family x y weights offsets alpha tol maxIter r h
  have hconv : r.converged = true := by
    cases hc : r.converged
    · have := hiff.mpr hc; rw [hok] at this; cases this
    · rfl
  obtain ⟨P, st0, st, h1, h2, h3⟩ := fit_some h
  obtain ⟨_, htol, _⟩ := fitInit_some h1
  obtain ⟨_, _, _, _, _, _, _, _, _, hcv, hpd, hpp⟩ := fitFinish_some h3
  obtain ⟨_, ⟨pd, hp1, hp2⟩, _⟩ := fitLoop_facts solve P (maxIter - 1) st0 st h2
  rw [hcv] at hconv
  rw [hconv] at hp2
  obtain ⟨lp, e1, e2, ez, e3⟩ := hasConverged_true hp2.symm
  exact ⟨pd, lp, by rw [hpd, hp1], by rw [hpp, e1], e2, ez, by rw [← htol]; exact e3⟩

/-- `fit_ok_converged` with a lawful `==`: the previous penalised deviance is not zero -/
theorem fit_ok_converged_ne_zero [LawfulBEq α] (solve : List α → List α → Option (List α)) (family : Family)
    (x y : List α) (weights offsets : Option (List α)) (alpha tol : α) (maxIter : Nat) (r : Fit α)
    (h : fit solve family x y weights offsets alpha tol maxIter = some r) (hok : r.ok = true) :
    ∃ pd lp, r.pd = some pd ∧ r.pdPrev = some lp ∧ lp ≠ 0 ∧ Transc.abs (pd - lp) / lp < tol := by
  obtain ⟨pd, lp, h1, h2, _, hz, h3⟩ := fit_ok_converged solve family x y weights offsets alpha tol maxIter r h hok
  exact ⟨pd, lp, h1, h2, by simpa using hz, h3⟩

/-! ## 6. the stored results and the accessors -/

/-- **fit_stored.** The shape part of what `fit` stores: `p` = number of columns, `n = round(Σ w)`, family, offsets.  (What the
stored deviance and information matrix ARE — the deviance and the unpenalised information at the linear predictor of the
last pass, one scoring step BEFORE the returned coefficients — is `fit_last_pass` in `Props/C06Review.lean`.) -/
theorem fit_stored (solve : List α → List α → Option (List α)) (family : Family) (x y : List α)
    (weights offsets : Option (List α)) (alpha tol : α) (maxIter : Nat) (r : Fit α)
    (h : fit solve family x y weights offsets alpha tol maxIter = some r) :
    isMatrix x y.length = some r.p ∧ isDesign x y.length = some true ∧ r.family = family ∧ r.offsets = offsets ∧
    (∀ w, weights = some w → w.length = y.length ∧ r.n = GlmScalar.roundToNat w.sum) ∧
    (weights = none → r.n = GlmScalar.roundToNat ((List.replicate y.length (1 : α)).sum)) := by
  obtain ⟨P, st0, st, h1, h2, h3⟩ := fit_some h
  obtain ⟨_, _, _, hf, hoff, hx, hy, _, hp, hd, hwl, hw1, hw2, _, _, _⟩ := fitInit_some h1
  obtain ⟨_, _, hdev, hinfo, hn, hpp, hfam, hoffs, _, _, _, _⟩ := fitFinish_some h3
  refine ⟨by rw [hpp]; exact hp, hd, by rw [hfam, hf], by rw [hoffs, hoff], ?_, ?_⟩
  · intro w hw
    have := hw1 w hw
    rw [this] at hwl hn
    exact ⟨hwl, by rw [hn, sum8_eq]⟩
  · intro hw
    rw [hn, hw2 hw, sum8_eq]

/-- **dispersion_spec.** `deviance / (n − p)` for the dispersion families (a panic when `n < p`), `1` otherwise. -/
theorem dispersion_spec (r : Fit α) :
    (r.family.hasDispersion = true → r.p ≤ r.n → dispersion r = some (r.deviance / ((r.n - r.p : Nat) : α))) ∧
    (r.family.hasDispersion = true → r.n < r.p → dispersion r = none) ∧
    (r.family.hasDispersion = false → dispersion r = some 1) := by
  refine ⟨fun h1 h2 => ?_, fun h1 h2 => ?_, fun h1 => ?_⟩
  · simp [dispersion, h1, Nat.not_lt.mpr h2]
  · simp [dispersion, h1, h2]
  · simp [dispersion, h1]

theorem hasDispersion_table : Family.hasDispersion .gaussian = true ∧ Family.hasDispersion .bernoulli = false ∧
    Family.hasDispersion .quasiPoisson = true ∧ Family.hasDispersion .poisson = false ∧
    Family.hasDispersion .gamma = true ∧ Family.hasDispersion .exponential = false := by decide

/-- **covariance_spec.** `coef_covariance_matrix = dispersion · invert(information)`; it panics iff one of the two does. -/
theorem covariance_spec (invert : List α → Option (List α)) (r : Fit α) :
    (∀ d inv, dispersion r = some d → invert r.information = some inv →
      coefCovariance invert r = some (inv.map (d * ·))) ∧
    (dispersion r = none ∨ invert r.information = none → coefCovariance invert r = none) := by
  constructor
  · intro d inv hd hi
    simp [coefCovariance, hd, hi, Cv.C04.sv_eq]
  · rintro (h | h)
    · simp [coefCovariance, h]
    · cases hd : dispersion r <;> simp [coefCovariance, hd, h]

theorem isSquare_sq (p : Nat) : LA.isSquare (p * p) = some p := by
  unfold LA.isSquare
  cases h : (List.range (p * p + 1)).find? (fun n => n * n == p * p) with
  | none =>
    rw [List.find?_eq_none] at h
    have hm : p ∈ List.range (p * p + 1) := by
      rw [List.mem_range]
      rcases Nat.eq_zero_or_pos p with h0 | h0
      · subst h0; simp
      · have := Nat.le_mul_of_pos_left p h0; omega
    have := h p hm
    simp at this
  | some k =>
    have := List.find?_some h
    simp only [beq_iff_eq] at this
    rw [Nat.mul_self_inj.mp this]

/-- **standardError_spec.** `coef_standard_error = √diag(covariance)`. -/
theorem standardError_spec (invert : List α → Option (List α)) (r : Fit α) (cov : List α) (p : Nat)
    (hc : coefCovariance invert r = some cov) (hl : cov.length = p * p) :
    ∃ se, coefStandardError invert r = some se ∧ se.length = p ∧
      ∀ a, a < p → se[a]! = Transc.sqrt (cov[a * p + a]!) := by
  refine ⟨((List.range p).map fun i => cov[i * p + i]!).map Transc.sqrt, ?_, by simp, ?_⟩
  · simp only [coefStandardError, hc, diagFlat, hl, isSquare_sq, Option.bind_eq_bind, Option.bind_some,
      Option.pure_def, Cv.C04.vun_eq, toArray_getBang]
  · intro a ha
    rw [getBang_map _ _ _ (by simpa using ha), getBang_rangeMap _ _ _ ha]

/-- **predict_spec.** `predict x = inv_link(x·β + offset)`, entry by entry. -/
theorem predict_spec (r : Fit α) (x : List α) (n : Nat) (hn : 0 < n) (hp : 0 < r.p) (hx : x.length = n * r.p)
    (hc : r.coef.length = r.p) (hd : isDesign x n = some true) (ho : ∀ o, r.offsets = some o → o.length = n) :
    ∃ e : List α, predict r x = some (e.map (invLinkF r.family)) ∧ e.length = n ∧
      ∀ i, i < n → e[i]! = (∑ j ∈ Finset.range r.p, x[i * r.p + j]! * r.coef[j]!) + offAt r.offsets i := by
  obtain ⟨c, hcm, hcl, hce⟩ := Cv.C05.matmul_spec_NN x r.coef n r.p 1 hx (by simpa using hc) hn hp
  have hce' : ∀ i, i < n → c[i]! = ∑ j ∈ Finset.range r.p, x[i * r.p + j]! * r.coef[j]! := by
    intro i hi
    have := hce i 0 hi (by omega)
    simpa using this
  have hm : isMatrix x r.p = some n := Cv.C05L.isMatrix_of_len (by rw [hx, Nat.mul_comm]) hp
  cases hoff : r.offsets with
  | none =>
    refine ⟨c, ?_, by simpa using hcl, ?_⟩
    · simp [predict, hm, hd, hcm, hoff, invLink_eq]
    · intro i hi; rw [hce' i hi]; simp [offAt]
  | some o =>
    have hol := ho o hoff
    refine ⟨List.zipWith (· + ·) c o, ?_, by simp; omega, ?_⟩
    · simp only [predict, hm, hd, hcm, hoff, Option.bind_eq_bind, Option.bind_some, Bool.not_true,
        Bool.false_eq_true, if_false]
      rw [vbin_eq _ c o (by omega)]
      simp [invLink_eq]
    · intro i hi
      rw [getBang_zipWith _ _ _ i (by omega) (by omega), hce' i hi]; rfl

/-- `predict` rejects a matrix whose first column is not all ones -/
theorem predict_rejects (r : Fit α) (x : List α) (n : Nat) (hm : isMatrix x r.p = some n)
    (hd : isDesign x n = some false) : predict r x = none := by
  simp [predict, hm, hd]

/-- **aic_spec.** `aic = deviance + 2p`. -/
theorem aic_spec (r : Fit α) : aic r = r.deviance + 2 * (r.p : α) := by
  simp [aic, two_eq]

/-- **bic_spec.** `bic = deviance + p · ln n`. -/
theorem bic_spec (r : Fit α) : bic r = r.deviance + (r.p : α) * Transc.ln (r.n : α) := rfl

/-! ## 7. invariance under permutations of the observations -/

section perm
variable {n : Nat} (σ : Equiv.Perm (Fin n))

theorem wres_perm (y mu dmu var w : List α) (i : Nat) (hi : i < n) :
    wres (permVec σ y) (permVec σ mu) (permVec σ dmu) (permVec σ var) (permVec σ w) i =
      wres y mu dmu var w (permIdx σ i) := by
  unfold wres
  simp only [permVec_get σ _ i hi]

theorem wwt_perm (dmu var w : List α) (i : Nat) (hi : i < n) :
    wwt (permVec σ dmu) (permVec σ var) (permVec σ w) i = wwt dmu var w (permIdx σ i) := by
  unfold wwt
  simp only [permVec_get σ _ i hi]

/-- **dbeta_perm.** The gradient does not depend on the order of the observations. -/
theorem dbeta_perm (x y mu dmu var w : List α) (p : Nat) (hn : 0 < n) (hx : x.length = n * p)
    (hy : y.length = n) (hmu : mu.length = n) (hd : dmu.length = n) (hv : var.length = n) (hw : w.length = n) :
    computeDbeta (permRows σ x p) (permVec σ y) (permVec σ mu) (permVec σ dmu) (permVec σ var) (permVec σ w) =
      computeDbeta x y mu dmu var w := by
  obtain ⟨g, hg, hgl, hge⟩ := computeDbeta_spec x y mu dmu var w n p hn hx hy hmu hd hv hw
  obtain ⟨g', hg', hgl', hge'⟩ := computeDbeta_spec (permRows σ x p) (permVec σ y) (permVec σ mu) (permVec σ dmu)
    (permVec σ var) (permVec σ w) n p hn (permRows_length σ x p) (permVec_length σ y) (permVec_length σ mu)
    (permVec_length σ dmu) (permVec_length σ var) (permVec_length σ w)
  rw [hg, hg']
  congr 1
  apply ext_getBang (by rw [hgl, hgl'])
  intro j hj
  have hj' : j < p := by omega
  rw [hge j hj', hge' j hj', ← sum_permIdx σ (fun i => x[i * p + j]! * wres y mu dmu var w i)]
  congr 1
  apply Finset.sum_congr rfl
  intro i hi
  have hi' := Finset.mem_range.mp hi
  rw [permRows_get σ x p i j hi' hj', wres_perm σ y mu dmu var w i hi']

/-- **ddbeta_perm.** The information matrix does not depend on the order of the observations. -/
theorem ddbeta_perm (x dmu var w : List α) (p : Nat) (hn : 0 < n) (hx : x.length = n * p)
    (hd : dmu.length = n) (hv : var.length = n) (hw : w.length = n) :
    computeDdbeta (permRows σ x p) (permVec σ dmu) (permVec σ var) (permVec σ w) = computeDdbeta x dmu var w := by
  obtain ⟨H, hH, hHl, hHe⟩ := computeDdbeta_spec x dmu var w n p hn hx hd hv hw
  obtain ⟨H', hH', hHl', hHe'⟩ := computeDdbeta_spec (permRows σ x p) (permVec σ dmu) (permVec σ var) (permVec σ w)
    n p hn (permRows_length σ x p) (permVec_length σ dmu) (permVec_length σ var) (permVec_length σ w)
  rw [hH, hH']
  congr 1
  apply ext_getBang (by rw [hHl, hHl'])
  intro k hk
  have hp : 0 < p := by
    rcases Nat.eq_zero_or_pos p with h0 | h0
    · subst h0; rw [hHl'] at hk; simp at hk
    · exact h0
  have hk' : k < p * p := by omega
  have ha : k / p < p := Nat.div_lt_of_lt_mul hk'
  have hb : k % p < p := Nat.mod_lt _ hp
  have hkk : k = k / p * p + k % p := by rw [Nat.mul_comm]; exact (Nat.div_add_mod k p).symm
  rw [hkk, hHe _ _ ha hb, hHe' _ _ ha hb,
    ← sum_permIdx σ (fun i => x[i * p + k / p]! * (x[i * p + k % p]! * wwt dmu var w i))]
  apply Finset.sum_congr rfl
  intro i hi
  have hi' := Finset.mem_range.mp hi
  rw [permRows_get σ x p i _ hi' ha, permRows_get σ x p i _ hi' hb, wwt_perm σ dmu var w i hi']

/-- **deviance_perm.** The deviance does not depend on the order of the observations. -/
theorem deviance_perm (f : Family) (y mu : List α) (hy : y.length = n) (hmu : mu.length = n) :
    deviance f (permVec σ y) (permVec σ mu) = deviance f y mu := by
  rw [deviance_spec f y mu (by omega),
    deviance_spec f (permVec σ y) (permVec σ mu) (by rw [permVec_length, permVec_length]),
    permVec_length, hy, ← sum_permIdx σ (fun i => devTermF f y[i]! mu[i]!)]
  congr 2
  apply Finset.sum_congr rfl
  intro i hi
  have hi' := Finset.mem_range.mp hi
  rw [permVec_get σ y i hi', permVec_get σ mu i hi']

/-- **mean_perm.** The starting intercept `mean(y)` does not depend on the order of the observations. -/
theorem mean_perm (y : List α) (hy : y.length = n) : mean (permVec σ y) = mean y := by
  unfold mean
  rw [sum8_eq, sum8_eq, permVec_sum σ y hy, permVec_length, hy]

/-- **initialIntercept_perm.** The start value (F51: `mean(y)` resp. `ln(mean(y))`) does not depend on the order of the
observations. -/
theorem initialIntercept_perm (f : Family) (y : List α) (hy : y.length = n) :
    initialIntercept f (permVec σ y) = initialIntercept f y := by
  unfold initialIntercept
  rw [mean_perm σ y hy]

/-- the start value is the link of the mean response for the identity and the log link -/
theorem initialIntercept_table (y : List α) :
    initialIntercept .gaussian y = mean y ∧ initialIntercept .bernoulli y = mean y ∧
    initialIntercept .poisson y = Transc.ln (mean y) ∧ initialIntercept .quasiPoisson y = Transc.ln (mean y) ∧
    initialIntercept .gamma y = Transc.ln (mean y) ∧ initialIntercept .exponential y = Transc.ln (mean y) :=
  ⟨rfl, rfl, rfl, rfl, rfl, rfl⟩

end perm

end Cv.C06
