import Compute.Drv.Common
import Compute.Model.Scalar
import Compute.Model.Interp
/-
Driver for C16.  Request: `interp <chk|unc> <panic|fill l r|extrap> <xvec> <yvec> <tvec>`.
Reply: `= <vec>` or `! panic`.
-/
open Cv

def c16Mode : P (ExtrapMode Float) := do
  let m ← tok
  match m with
  | "panic" => pure .panic
  | "extrap" => pure .extrapolate
  | "fill" => do let l ← pFloat; let r ← pFloat; pure (.fill l r)
  | _ => failure

def c16Step (args : List String) : String :=
  match args with
  | "interp" :: variant :: rest =>
    if variant != "chk" && variant != "unc" then badOp else
    withArgs (do
      let m ← c16Mode
      let x ← pVec; let y ← pVec; let t ← pVec
      pure (m, x, y, t)) rest fun (m, x, y, t) =>
      let r := if variant == "chk" then interpChecked x y t m else interpUnchecked x y t m
      match r with
      | none => panicked
      | some v => ok (showVec v)
  | _ => badOp

def main (args : List String) : IO UInt32 := mainWith () (fun _ t => ((), c16Step t)) args
