import Compute.Props.C03
import Compute.Props.C01Solve
/-
C03 — multivariate normal: what `MVN::new` guarantees about the object `MVN::sample` reads (review finding B3).

`mvn_sample_spec` (Props/C03.lean) is about an arbitrary record `d` with a well-formed `dim × dim` factor.  Here the record
is the one `MVN.new mean cov` builds: the mean is stored unchanged, its length is the order of `cov`, the cached factor `L` is
`dim × dim`, well formed, and — by C01's `cholesky_correct_real` — `L·Lᵀ = cov` in exact arithmetic whenever `cov` is exactly
symmetric (`MVN::new` itself only asserts symmetry up to `ε = 2⁻⁵²`; on the lower triangle the identity holds without that
hypothesis).  Together with `mvn_sample_spec`: a returned draw is `μ + L z` with `L Lᵀ = Σ`, `z` the `dim` normal draws.
NOT proved: that `z` is standard normal (the Ziggurat law) — hence not that the draw has covariance `Σ` in distribution.
-/
set_option linter.unusedSectionVars false
set_option linter.unusedSimpArgs false
set_option linter.unusedVariables false

namespace Cv.C03Mvn
open Cv Cv.C03L Cv.C03 Cv.LA
open scoped Cv.C09 Cv.C03L

theorem mvn_new_spec (mean : List ℝ) (cov : Mat ℝ) (hwf : cov.WF) (d : MVN.Dist ℝ) (h : MVN.new mean cov = some d) :
    d.mean = mean ∧ cov.nrows = cov.ncols ∧ mean.length = cov.ncols ∧
    d.chol.nrows = cov.ncols ∧ d.chol.ncols = cov.ncols ∧ d.chol.WF ∧
    (∀ i j, j ≤ i → i < cov.ncols →
      ∑ k ∈ Finset.range cov.ncols, rd d.chol.data (i * cov.ncols + k) * rd d.chol.data (j * cov.ncols + k)
        = rd cov.data (i * cov.ncols + j)) ∧
    ((∀ i j, i < cov.ncols → j < cov.ncols → rd cov.data (i * cov.ncols + j) = rd cov.data (j * cov.ncols + i)) →
      ∀ i j, i < cov.ncols → j < cov.ncols →
        ∑ k ∈ Finset.range cov.ncols, rd d.chol.data (i * cov.ncols + k) * rd d.chol.data (j * cov.ncols + k)
          = rd cov.data (i * cov.ncols + j)) := by
  unfold MVN.new at h
  by_cases hsym : LA.M.isSymmetric cov = true
  · have hsq : cov.nrows = cov.ncols := by
      unfold LA.M.isSymmetric at hsym
      by_contra hne
      simp [hne] at hsym
    by_cases hlen : mean.length = cov.ncols
    · simp only [hsym, Bool.not_true, Bool.false_eq_true, if_false, hlen, ne_eq, not_true_eq_false] at h
      cases hc : LA.M.cholesky cov with
      | none => simp [hc] at h
      | some l =>
        cases hi : LA.M.inv cov with
        | none => simp [hc, hi] at h
        | some iv =>
          cases hd : LA.M.det cov with
          | none => simp [hc, hi, hd] at h
          | some dt =>
            simp [hc, hi, hd] at h
            subst h
            unfold LA.M.cholesky at hc
            split_ifs at hc with hpd
            cases hl : LA.cholesky cov.data with
            | none => simp [hl] at hc
            | some ld =>
              simp only [hl, LA.M.new] at hc
              simp at hc
              obtain ⟨hdim, hc⟩ := hc
              subst hc
              have ha : cov.data.length = cov.ncols * cov.ncols := by
                have := hwf; unfold Mat.WF at this; rw [hsq] at this; exact this
              have hs : ∀ x : ℝ, Transc.sqrt x = Real.sqrt x := fun _ => rfl
              have hsqx := C01Solve.real_sqrtExactOn hs cov.ncols cov.data ld
                fun r hr => ((C01Solve.cholesky_cells cov.data ld cov.ncols ha hl).1 r hr).1
              obtain ⟨h1, _, _, h4, h5⟩ :=
                C01Solve.cholesky_correct (C01Solve.real_sqrt_pos hs) cov.data ld cov.ncols ha hl hsqx
              refine ⟨rfl, hsq, hlen, hsq, rfl, ?_, h4, h5⟩
              show ld.length = cov.nrows * cov.ncols
              rw [hsq]; exact h1
    · simp [hsym, hlen] at h
  · simp [hsym] at h

end Cv.C03Mvn
