import Compute.Model.Decomp
import Compute.Generated.SrcC11Mut
import Compute.Lemmas.SrcMut
import Compute.Lemmas.SrcLoops
/-
Source tie for C11 (and the solve routines C01 uses), third pass: in-place mutation, nested loops, early exit.
`src/linalg/decomposition/{substitution,lu,cholesky}.rs` — `forward_substitution`, `backward_substitution`, `lu`,
`lu_solve`, `try_cholesky`, `cholesky`, `cholesky_solve` as WHOLE functions.

`Compute/Generated/SrcC11Mut.lean` is regenerated from the Rust source on every run (`tools/rs2lean.py`, option `mut`):
every `for` loop is a `List.foldl` over `List.range` / `List.range'` / `(List.range n).reverse` whose state is the tuple of
the `let mut` variables the body assigns, `v[i] = e` is `List.set`, `v[i]` is `Cv.LA.rd`, `v.swap` is `Cv.LA.swapIdx`, an
`if` statement that only mutates is an `if` on the state, the early `return None` of `try_cholesky` is a `List.foldlM` in
`Option`.  Each definition is proved equal to the hand model of `Compute/Model/Decomp.lean`, for every scalar type, without
any algebra on the scalar (unfolding, `if`/`Option` case splits, `Nat` arithmetic on slice bounds, and the list lemmas of
`Compute/Lemmas/SrcMut.lean`).

Where the hand model is NOT syntactically the source:
* `forward_substitution` / `backward_substitution`: the source allocates `n` UNINITIALISED cells
  (`Vec::with_capacity(n)` + `set_len(n)`) and writes `x[i]` in place, reading the slice `x[..i]` (resp. `x[i+1..]`) of cells
  already written; the model builds the vector by appending (resp. consing).  The generated definition takes the
  uninitialised contents as an ARBITRARY parameter `junk`; `forwardSubstitution_eq` / `backwardSubstitution_eq` hold for
  every `junk` (lemmas `foldl_set_take_eq_push`, `foldl_rev_set_drop_eq_cons`), i.e. the result does not depend on it.
  Slice lengths are written `(i*n + i) - i*n` in the source and `i` in the model (`Nat` arithmetic).
* `lu`: the pivots are `Vec<i32>` in the source (`List Int`) and `List Nat` in the model: `lu_eq` says the generated function
  is the model's with the pivots cast (`Int.ofNat`); the loop body is the model's `luStep` piece by piece (`luColumn`,
  `luPivot` with the same strict `>`, `swapRows`, `luScale`) — the source's single `if p != j { swap rows; swap pivots }` is two
  `if`s in the model.
* `lu_solve`: the permutation loop `x[i] = b[pivots[i] as usize]` is `piv.map (rd b) ++ zeros` in the model, whose `luPermute`
  returns `none` (panic) for an out-of-range pivot or too many pivots.  Index panics are not modelled on the generated side,
  so `luSolve_eq` carries exactly these two range hypotheses (`piv.length ≤ b.length`, every pivot `< b.length`), under
  which `luPermute` is `some` (`luPermute_some`); the elimination and back-substitution loops are the model's by `rfl`.
Shape tolerance (robustness pass): the translator's normal form makes a hoisted row offset / row slice in the substitutions
generate the same text; `lu_eq` and `luSolve_eq` additionally accept (`first | .. | ..`) the form in which a loop-invariant cell
is read once before a loop (`let pivot = lu[j*n+j]`, `let xk = x[k]`: bridging lemmas `hoist_read`, `scale_hoist`, `luFwd_hoist`,
`luBwd_hoist` — the cell is never written by that loop), the always-true test `j < n` is dropped (`j` ranges over `0..n`), and the
permutation loop is written with `enumerate` (`foldl_zipIdx_eq_foldl_range`).  A changed formula, bound, index or operand
order still fails every alternative.
* `try_cholesky`: `Option (Option _)` — outer `none` = panic (`assert!(is_symmetric)`, `is_square().unwrap()`), inner `none` =
  the function's `None`; the nested loops with early exit are the model's `cholLoops` / `cholRow` / `cholCell` (`foldlM`).
-/
set_option linter.unusedSectionVars false
namespace Cv.SrcTie.C11Mut

variable {α : Type} [Add α] [Sub α] [Mul α] [Div α] [Neg α] [Zero α] [One α] [NatCast α] [IntCast α]
  [LT α] [DecidableLT α] [LE α] [DecidableLE α] [BEq α] [Cv.Transc α] [Inhabited α]

open Cv.LA

/-- slice lengths as the source writes them: `(i*n + i) - i*n = i` -/
theorem slice_len (a i : Nat) : a + i - a = i := Nat.add_sub_cancel_left ..

/-- `forward_substitution`: in-place writes into uninitialised cells = the model's append-built vector, for every
content `junk` of the uninitialised memory. -/
theorem forwardSubstitution_eq (junk : Nat → α) (l b : List α) :
    Cv.Src.C11Mut.forwardSubstitution junk l b = Cv.LA.forwardSubstitution l b := by
  unfold Cv.Src.C11Mut.forwardSubstitution Cv.LA.forwardSubstitution
  cases h : isSquare l.length with
  | none => rfl
  | some n =>
    simp only [Option.bind_some, Option.bind_eq_bind]
    by_cases hb : b.length = n
    · rw [if_pos hb, if_neg (by simpa using hb)]
      simp only [slice_len]
      rw [Cv.SrcMut.foldl_set_take_eq_push
        (fun i x => (rd b i - Cv.dot8 (List.take i (List.drop (i * n) l)) x) / rd l (i * n + i)) _ n (by simp)]
      rfl
    · rw [if_neg hb, if_pos (by simpa using hb)]

/-- `(i*n + n) - (i*n + i + 1) = n - (i + 1)` -/
theorem slice_len2 (a n i : Nat) : a + n - (a + i + 1) = n - (i + 1) := by omega

/-- `backward_substitution`: in-place writes from the last cell down = the model's cons-built vector. -/
theorem backwardSubstitution_eq (junk : Nat → α) (u b : List α) :
    Cv.Src.C11Mut.backwardSubstitution junk u b = Cv.LA.backwardSubstitution u b := by
  unfold Cv.Src.C11Mut.backwardSubstitution Cv.LA.backwardSubstitution
  cases h : isSquare u.length with
  | none => rfl
  | some n =>
    simp only [Option.bind_some, Option.bind_eq_bind]
    by_cases hb : b.length = n
    · rw [if_pos hb, if_neg (by simpa using hb)]
      simp only [slice_len2]
      rw [Cv.SrcMut.foldl_rev_set_drop_eq_cons
        (fun i x => (rd b i - Cv.dot8 (List.take (n - (i + 1)) (List.drop (i * n + i + 1) u)) x) / rd u (i * n + i))
        _ n (by simp)]
      rfl
    · rw [if_neg hb, if_pos (by simpa using hb)]

/-- `swap` commutes with a cast of the elements. -/
theorem swapIdx_map {β γ : Type} (f : β → γ) (l : List β) (i j : Nat) :
    swapIdx (l.map f) i j = (swapIdx l i j).map f := by
  unfold swapIdx
  simp only [List.getElem?_map]
  cases l[i]? <;> cases l[j]? <;> simp [List.map_set]

/-- a write to another cell does not change a read -/
theorem rd_set_ne (x : List α) (i c : Nat) (v : α) (h : i ≠ c) : rd (x.set i v) c = rd x c := by
  unfold rd
  rw [List.getD_eq_getElem?_getD, List.getD_eq_getElem?_getD, List.getElem?_set_ne h]

/-- Bridging lemma (loop-invariant read hoisted out of a loop): in `for i in l { x[idx(i)] = F(i, x, x[c]) }` with `idx(i) ≠ c` the
cell `c` is never written, so `x[c]` may be read once before the loop. -/
theorem hoist_read (l : List Nat) (idx : Nat → Nat) (c : Nat) (hne : ∀ i ∈ l, idx i ≠ c) (F : Nat → List α → α → α)
    (x0 : List α) :
    l.foldl (fun x i => x.set (idx i) (F i x (rd x c))) x0 = l.foldl (fun x i => x.set (idx i) (F i x (rd x0 c))) x0 := by
  apply Cv.SrcMut.foldl_congr_inv (fun x => rd x c = rd x0 c)
  · intro x i hi hx
    refine ⟨by rw [hx], ?_⟩
    rw [rd_set_ne _ _ _ _ (hne i hi)]
    exact hx
  · rfl

/-- the scaling loop of `lu` with the pivot read once (`let pivot = lu[j*n+j]`) -/
theorem scale_hoist (n j : Nat) (lu0 : List α) :
    (List.range' (j + 1) (n - (j + 1))).foldl (fun lu i => lu.set (i * n + j) (rd lu (i * n + j) / rd lu (j * n + j))) lu0 =
      (List.range' (j + 1) (n - (j + 1))).foldl (fun lu i => lu.set (i * n + j) (rd lu (i * n + j) / rd lu0 (j * n + j))) lu0 := by
  refine hoist_read _ (fun i => i * n + j) (j * n + j) ?_ (fun i lu p => rd lu (i * n + j) / p) lu0
  intro i hi e
  have hi' := List.mem_range'_1.mp hi
  have hn : 0 < n := by omega
  have : i * n = j * n := by omega
  have := Nat.eq_of_mul_eq_mul_right hn this
  omega

/-- the elimination loops of `lu_solve` with `let xk = x[k]` read once per `k` -/
theorem luFwd_hoist (n : Nat) (lu x : List α) :
    luFwd n lu x = (List.range n).foldl (fun x k =>
      (List.range' (k + 1) (n - (k + 1))).foldl (fun x' i => x'.set i (rd x' i - rd x k * rd lu (i * n + k))) x) x := by
  unfold luFwd
  congr 1
  funext x k
  refine hoist_read _ (fun i => i) k ?_ (fun i x' p => rd x' i - p * rd lu (i * n + k)) x
  intro i hi
  have := List.mem_range'_1.mp hi
  omega

theorem luBwd_hoist (n : Nat) (lu x : List α) :
    luBwd n lu x = (List.range n).reverse.foldl (fun x k =>
      let x := x.set k (rd x k / rd lu (k * n + k))
      (List.range k).foldl (fun x' i => x'.set i (rd x' i - rd x k * rd lu (i * n + k))) x) x := by
  unfold luBwd
  congr 1
  funext x k
  refine hoist_read _ (fun i => i) k ?_ (fun i x' p => rd x' i - p * rd lu (i * n + k)) _
  intro i hi
  have := List.mem_range.mp hi
  omega

/-- `lu`: the generated function is the model's, with the `i32` pivots as casts of the model's `Nat` pivots. -/
theorem lu_eq (a : List α) :
    Cv.Src.C11Mut.lu a = (Cv.LA.lu a).map (fun r => (r.1, r.2.map Int.ofNat)) := by
  unfold Cv.Src.C11Mut.lu Cv.LA.lu
  cases h : isSquare a.length with
  | none => rfl
  | some n =>
    simp only [Option.bind_some, Option.bind_eq_bind, Option.pure_def, Option.map_some]
    refine congrArg some ?_
    refine Cv.SrcMut.foldl_rel_mem (fun (s : List α × List Int) (t : List α × List Nat) => s = (t.1, t.2.map Int.ofNat))
      _ (luStep n) (List.range n) ?_ _ (a, List.range n) rfl
    intro s t j hj hR
    subst hR
    have hjn : j < n := List.mem_range.mp hj
    -- the generated step, folded back into the model's named pieces (definitional unfolding only); shape-tolerant:
    -- (A) the source's own form, (B) the pivot read once before the scaling loop and the (always true) test `j < n` dropped
    first
      | (show (let lu := luColumn n j t.1
               let p := luPivot n j lu
               let st3 : List α × List Int :=
                 if p ≠ j then (swapRows n p j lu, swapIdx (t.2.map Int.ofNat) p j) else (lu, t.2.map Int.ofNat)
               ((if j < n ∧ (rd st3.1 (j * n + j) != 0) = true then
                   (List.range' (j + 1) (n - (j + 1))).foldl
                     (fun lu i => lu.set (i * n + j) (rd lu (i * n + j) / rd lu (j * n + j))) st3.1
                 else st3.1), st3.2)) = _
         simp only [luStep, luScale, bne_iff_ne, ne_eq, Bool.and_eq_true, decide_eq_true_eq, swapIdx_map]
         by_cases hp : luPivot n j (luColumn n j t.1) = j
         · simp only [hp, not_true_eq_false, if_false]
         · simp only [hp, not_false_eq_true, if_true])
      | (show (let lu := luColumn n j t.1
               let p := luPivot n j lu
               let st3 : List α × List Int :=
                 if p ≠ j then (swapRows n p j lu, swapIdx (t.2.map Int.ofNat) p j) else (lu, t.2.map Int.ofNat)
               let pivot := rd st3.1 (j * n + j)
               ((if (pivot != 0) = true then
                   (List.range' (j + 1) (n - (j + 1))).foldl
                     (fun lu i => lu.set (i * n + j) (rd lu (i * n + j) / pivot)) st3.1
                 else st3.1), st3.2)) = _
         simp only [luStep, luScale, bne_iff_ne, ne_eq, Bool.and_eq_true, decide_eq_true_eq, swapIdx_map, hjn, true_and,
           scale_hoist]
         by_cases hp : luPivot n j (luColumn n j t.1) = j
         · simp only [hp, not_true_eq_false, if_false]
         · simp only [hp, not_false_eq_true, if_true])

/-- With in-range pivots the model's permutation step does not panic. -/
theorem luPermute_some (piv : List Nat) (b : List α) (hlen : piv.length ≤ b.length) (hp : ∀ p ∈ piv, p < b.length) :
    luPermute piv b = some (piv.map (rd b) ++ List.replicate (b.length - piv.length) 0) := by
  unfold luPermute
  have h1 : ¬ b.length < piv.length := by omega
  have h2 : ¬ (piv.any (fun p => decide (b.length ≤ p)) = true) := by
    simp only [List.any_eq_true, decide_eq_true_eq, not_exists, not_and]
    intro p hpm
    have := hp p hpm
    omega
  simp only [h1, h2, if_false, Bool.false_eq_true]

/-- `lu_solve` on in-range pivots (the only case in which the source does not panic on an index). -/
theorem luSolve_eq (lu : List α) (piv : List Nat) (b : List α)
    (hlen : piv.length ≤ b.length) (hp : ∀ p ∈ piv, p < b.length) :
    Cv.Src.C11Mut.luSolve lu (piv.map Int.ofNat) b = Cv.LA.luSolve lu piv b := by
  unfold Cv.Src.C11Mut.luSolve Cv.LA.luSolve
  by_cases hl : lu.length = b.length * b.length
  · simp only [hl, if_true, ne_eq, not_true_eq_false, if_false, luPermute_some piv b hlen hp, Option.bind_some,
      Option.bind_eq_bind, Option.pure_def]
    have hperm : (List.range (piv.map Int.ofNat).length).foldl
        (fun (x : List α) (i : Nat) => x.set i (rd b (Int.toNat (piv.map Int.ofNat)[i]!))) (List.replicate b.length 0)
          = piv.map (rd b) ++ List.replicate (b.length - piv.length) 0 := by
      rw [Cv.SrcMut.foldl_set_range_eq_map _ _ _ (by simpa using hlen)]
      rw [Cv.SrcLoops.map_range_idx (fun z : Int => rd b z.toNat) (piv.map Int.ofNat)]
      simp only [List.map_map, List.drop_replicate, List.length_map]
      congr 1
    have hpermZ : (List.zipIdx (piv.map Int.ofNat)).foldl
        (fun (x : List α) (p : Int × Nat) => x.set p.2 (rd b (Int.toNat p.1))) (List.replicate b.length 0)
          = piv.map (rd b) ++ List.replicate (b.length - piv.length) 0 := by
      rw [Cv.SrcMut.foldl_zipIdx_eq_foldl_range (fun (x : List α) (p : Int) (i : Nat) => x.set i (rd b (Int.toNat p)))]
      exact hperm
    -- shape-tolerant: (A) the source's own form, (B) `enumerate` for the permutation loop and `let xk = x[k]` read once
    first
      | (show some (luBwd b.length lu (luFwd b.length lu _)) = _
         rw [hperm])
      | (rw [luBwd_hoist, luFwd_hoist, ← hpermZ])
      | (rw [luBwd_hoist, luFwd_hoist, ← hperm])
      | (rw [← hpermZ]; rfl)
  · simp only [hl, if_false, ne_eq, not_false_eq_true, if_true]

/-- `try_cholesky`: asserts, `vec![0.; n * n]`, the row sweep with early `return None`. -/
theorem tryCholesky_eq (a : List α) :
    Cv.Src.C11Mut.tryCholesky a = Cv.LA.tryCholesky a := by
  unfold Cv.Src.C11Mut.tryCholesky Cv.LA.tryCholesky
  cases hs : isSymmetric a with
  | none => rfl
  | some sym =>
    cases sym with
    | false => rfl
    | true =>
      cases hq : isSquare a.length with
      | none => rfl
      | some n =>
        simp only [Option.bind_some, Option.bind_eq_bind, Option.pure_def, if_true, Bool.not_true, Bool.false_eq_true,
          if_false]
        have key : ∀ (F : List α → Nat → Option (List α)), F = (fun l i => cholRow n a l i) →
            (match List.foldlM F (List.replicate (n * n) 0) (List.range n) with
              | none => some none
              | some l => some (some l)) = some (cholLoops n a) := by
          intro F hF
          subst hF
          unfold cholLoops
          cases List.foldlM (fun l i => cholRow n a l i) (List.replicate (n * n) (0 : α)) (List.range n) <;> rfl
        apply key
        funext l i
        unfold cholRow
        rw [Option.bind_fun_some]
        simp only [slice_len]
        rfl

/-- `cholesky` = `try_cholesky(a).expect(..)`. -/
theorem cholesky_eq (a : List α) :
    Cv.Src.C11Mut.cholesky a = Cv.LA.cholesky a := by
  unfold Cv.Src.C11Mut.cholesky Cv.LA.cholesky
  rw [tryCholesky_eq]
  cases Cv.LA.tryCholesky a with
  | none => rfl
  | some r => cases r <;> rfl

/-- `cholesky_solve`: forward solve, transpose, backward solve (each call can panic: `bind`). -/
theorem choleskySolve_eq (junk : Nat → α) (l b : List α) :
    Cv.Src.C11Mut.choleskySolve junk l b = Cv.LA.choleskySolve l b := by
  unfold Cv.Src.C11Mut.choleskySolve Cv.LA.choleskySolve
  cases h : isSquare l.length with
  | none => rfl
  | some n =>
    simp only [Option.bind_some, Option.bind_eq_bind, forwardSubstitution_eq, backwardSubstitution_eq,
      Option.bind_fun_some]
    by_cases hb : b.length = n
    · rw [if_pos hb, if_neg (by simpa using hb)]
    · rw [if_neg hb, if_pos (by simpa using hb)]

/-- non-vacuity of the hypotheses of `luSolve_eq`: the identity pivots of a 2×2 system -/
example : ([0, 1] : List Nat).length ≤ ([1, 2] : List Nat).length ∧ ∀ p ∈ ([0, 1] : List Nat), p < 2 := by decide

end Cv.SrcTie.C11Mut
