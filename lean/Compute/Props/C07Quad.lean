import Mathlib.Tactic.Ring
import Mathlib.Tactic.Linarith
import Mathlib.Tactic.NormNum
import Mathlib.Algebra.Polynomial.Eval.Degree
import Mathlib.Algebra.Polynomial.Degree.Lemmas
import Mathlib.Algebra.Polynomial.Coeff
import Mathlib.Data.Rat.BigOperators
import Mathlib.Analysis.SpecialFunctions.Integrals.Basic
import Compute.Model.Integrate
import Compute.Generated.C07Tables
import Compute.Props.C07
/-
C07 (deep) — `quad5` exactness lifted from the moment residuals of the table to arbitrary polynomials of degree ≤ 19
on arbitrary intervals, over ℝ.

`Q f a b` is the model's `quad5` over the *actual doubles* of `GAUSS_QUAD_NODES/WEIGHTS` (their exact dyadic values,
`C07.nodesQ/weightsQ`, cast to ℝ).  With `xm = (b+a)/2`, `xr = (b−a)/2` (the model's own change of variables) and
`ĉ_d` the coefficients of `t ↦ p(xm + xr·t)`:

* `quad5_poly_error`:  `|Q p a b − ∫_a^b p| ≤ |xr| · (Σ_{d even, d ≤ 18} |ĉ_d|) · 10⁻¹⁶` for `natDegree p ≤ 19`
  — odd `d` contribute exactly 0;
* `quad5_poly_error_coeffs`:  `… ≤ 10⁻¹⁶ · |xr| · Σ_k |c_k| (|xm| + |xr|)^k` in terms of the coefficients of `p` itself;
* `quad5_poly_exact_of_odd`: no error at all when `t ↦ p(xm + xr t)` is odd.
-/
namespace Cv.C07Q
open Cv Cv.C07 Cv.C08 Polynomial

/-! ## structure of `quad5`: affine change of variables, finite sums (any field, any table) -/

section Field
variable {α : Type} [Field α]

/-- `quad5` on `[a,b]` is `xr` times `quad5` on `[-1,1]` of the integrand composed with the model's change of variables
`t ↦ xm + xr t`, `xm = (b+a)/2`, `xr = (b−a)/2`. -/
theorem quad5_affine [CharZero α] (nodes weights : List α) (f : α → α) (a b : α) :
    quad5 nodes weights f a b =
      quad5 nodes weights (fun t => f (1 / 2 * (b + a) + 1 / 2 * (b - a) * t)) (-1) 1 * (1 / 2 * (b - a)) := by
  simp only [quad5_def]
  have e : ∀ p : α × α,
      p.2 * (f (1 / 2 * (b + a) + 1 / 2 * (b - a) * (1 / 2 * (1 + -1) + 1 / 2 * (1 - -1) * p.1)) +
        f (1 / 2 * (b + a) + 1 / 2 * (b - a) * (1 / 2 * (1 + -1) - 1 / 2 * (1 - -1) * p.1)))
      = p.2 * (f (1 / 2 * (b + a) + 1 / 2 * (b - a) * p.1) + f (1 / 2 * (b + a) - 1 / 2 * (b - a) * p.1)) := by
    intro p
    have h1 : (1 / 2 * (1 + -1) + 1 / 2 * (1 - -1) * p.1 : α) = p.1 := by field_simp; ring
    have h2 : (1 / 2 * (b + a) + 1 / 2 * (b - a) * (1 / 2 * (1 + -1) - 1 / 2 * (1 - -1) * p.1) : α)
        = 1 / 2 * (b + a) - 1 / 2 * (b - a) * p.1 := by field_simp; ring
    rw [h1, h2]
  simp only [e]
  have h3 : (1 / 2 * (1 - -1) : α) = 1 := by field_simp; ring
  rw [h3, mul_one]

theorem quad5_zero (nodes weights : List α) (a b : α) : quad5 nodes weights (fun _ => 0) a b = 0 := by
  have := quad5_smul nodes weights 0 (fun _ => (0 : α)) a b
  simpa using this

/-- `quad5` is additive over finite sums of integrands. -/
theorem quad5_finset_sum {ι : Type} (s : Finset ι) (nodes weights : List α) (f : ι → α → α) (a b : α) :
    quad5 nodes weights (fun x => ∑ i ∈ s, f i x) a b = ∑ i ∈ s, quad5 nodes weights (f i) a b := by
  classical
  induction s using Finset.induction_on with
  | empty => simpa using quad5_zero nodes weights a b
  | insert i s hi ih =>
    simp only [Finset.sum_insert hi]
    rw [quad5_add nodes weights (f i) (fun x => ∑ j ∈ s, f j x) a b, ih]

/-- linear combinations of monomials on `[-1,1]` -/
theorem quad5_lincomb (nodes weights : List α) (n : ℕ) (c : ℕ → α) :
    quad5 nodes weights (fun t => ∑ d ∈ Finset.range n, c d * t ^ d) (-1) 1 =
      ∑ d ∈ Finset.range n, c d * quad5 nodes weights (fun t => t ^ d) (-1) 1 := by
  rw [quad5_finset_sum]
  exact Finset.sum_congr rfl fun d _ => quad5_smul nodes weights (c d) (fun t => t ^ d) (-1) 1

end Field

/-! ## the table actually used, over ℝ -/

noncomputable section Real

/-- the doubles of `GAUSS_QUAD_NODES` / `GAUSS_QUAD_WEIGHTS` as real numbers -/
def nodesR : List ℝ := nodesQ.map (fun q : ℚ => (q : ℝ))
def weightsR : List ℝ := weightsQ.map (fun q : ℚ => (q : ℝ))

/-- the model's `quad5` over the source's table, at `ℝ` -/
def Q (f : ℝ → ℝ) (a b : ℝ) : ℝ := quad5 nodesR weightsR f a b

/-- on `[-1,1]` the rule returns the rational moment of the table for the monomial `t^d` -/
theorem Q_monomial (d : ℕ) : Q (fun t => t ^ d) (-1) 1 = ((moment d : ℚ) : ℝ) := by
  rw [Q, quad5_def, moment, Rat.cast_list_sum, nodesR, weightsR, List.zip_map, List.map_map, List.map_map]
  have : (List.map ((fun p : ℝ × ℝ => p.2 * ((1 / 2 * (1 + -1) + 1 / 2 * (1 - -1) * p.1) ^ d +
      (1 / 2 * (1 + -1) - 1 / 2 * (1 - -1) * p.1) ^ d)) ∘ Prod.map (fun q : ℚ => (q : ℝ)) (fun q : ℚ => (q : ℝ)))
      (nodesQ.zip weightsQ)) =
      List.map (Rat.cast ∘ fun p : ℚ × ℚ => p.2 * (p.1 ^ d + (-p.1) ^ d)) (nodesQ.zip weightsQ) := by
    apply List.map_congr_left
    intro p _
    simp only [Function.comp, Prod.map]
    push_cast
    have h1 : (1 / 2 * (1 + -1) + 1 / 2 * (1 - -1) * (p.1 : ℝ)) = p.1 := by ring
    have h2 : (1 / 2 * (1 + -1) - 1 / 2 * (1 - -1) * (p.1 : ℝ)) = -p.1 := by ring
    rw [h1, h2]
  rw [this]
  norm_num

/-- the exact integral of `t^d` over `[-1,1]` -/
def mono (d : ℕ) : ℝ := ∫ t in (-1 : ℝ)..1, t ^ d

theorem mono_odd (d : ℕ) (hd : Odd d) : mono d = 0 := by
  rw [mono, integral_pow]
  have : Even (d + 1) := hd.add_one
  rw [this.neg_pow]; simp

theorem mono_even (d : ℕ) (hd : Even d) : mono d = 2 / ((d : ℝ) + 1) := by
  rw [mono, integral_pow]
  have : Odd (d + 1) := hd.add_one
  rw [this.neg_pow]; norm_num

/-- **residual of the table on monomials**: exactly 0 in odd degree, at most `10⁻¹⁶` in even degree ≤ 18. -/
theorem Q_monomial_residual (d : ℕ) (hd : d < 20) :
    |Q (fun t => t ^ d) (-1) 1 - mono d| ≤ if Even d then 1 / 10 ^ 16 else 0 := by
  rw [Q_monomial]
  split
  · rename_i he
    rw [mono_even d he]
    have h18 : d ≤ 18 := by
      obtain ⟨k, rfl⟩ := he
      omega
    have := quad5_moment_even d h18 he
    have hc : ((|moment d - 2 / ((d : ℚ) + 1)| : ℚ) : ℝ) ≤ ((1 / 10 ^ 16 : ℚ) : ℝ) := Rat.cast_le.mpr this
    push_cast at hc
    exact hc
  · rename_i he
    have ho : Odd d := Nat.not_even_iff_odd.mp he
    rw [mono_odd d ho, quad5_moment_odd d ho]
    simp

/-- the affinely transformed polynomial `t ↦ p(xm + xr·t)` -/
def shifted (p : ℝ[X]) (a b : ℝ) : ℝ[X] := p.comp (C (1 / 2 * (b + a)) + C (1 / 2 * (b - a)) * X)

theorem shifted_eval (p : ℝ[X]) (a b t : ℝ) :
    (shifted p a b).eval t = p.eval (1 / 2 * (b + a) + 1 / 2 * (b - a) * t) := by
  simp [shifted, eval_comp]

theorem shifted_natDegree_le (p : ℝ[X]) (a b : ℝ) : (shifted p a b).natDegree ≤ p.natDegree := by
  refine le_trans natDegree_comp_le ?_
  have : (C (1 / 2 * (b + a)) + C (1 / 2 * (b - a)) * X : ℝ[X]).natDegree ≤ 1 := by
    refine le_trans (natDegree_add_le _ _) (max_le ?_ ?_)
    · rw [natDegree_C]; omega
    · exact le_trans natDegree_mul_le (by rw [natDegree_C, natDegree_X])
  calc p.natDegree * _ ≤ p.natDegree * 1 := Nat.mul_le_mul_left _ this
    _ = p.natDegree := Nat.mul_one _

/-- the exact integral of a polynomial over `[-1,1]` through its coefficients -/
theorem integral_poly (q : ℝ[X]) (n : ℕ) (hn : q.natDegree < n) :
    ∫ t in (-1 : ℝ)..1, q.eval t = ∑ d ∈ Finset.range n, q.coeff d * mono d := by
  simp only [eval_eq_sum_range' hn, mono]
  rw [intervalIntegral.integral_finsetSum]
  · exact Finset.sum_congr rfl fun d _ => intervalIntegral.integral_const_mul _ _
  · intro d _
    exact (Continuous.intervalIntegrable (by continuity) _ _)

/-- `∫_a^b p = xr · ∫_{-1}^{1} p(xm + xr t) dt` -/
theorem integral_shift (p : ℝ[X]) (a b : ℝ) :
    ∫ x in a..b, p.eval x = 1 / 2 * (b - a) * ∫ t in (-1 : ℝ)..1, (shifted p a b).eval t := by
  simp only [shifted_eval]
  have := intervalIntegral.mul_integral_comp_add_mul (a := -1) (b := 1) (f := fun x => p.eval x)
    (1 / 2 * (b - a)) (1 / 2 * (b + a))
  rw [this]
  congr 1 <;> ring

/-- the error of the rule on a polynomial of degree ≤ 19, as an exact expression in the moment residuals -/
theorem quad5_poly_error_eq (p : ℝ[X]) (hp : p.natDegree ≤ 19) (a b : ℝ) :
    Q p.eval a b - ∫ x in a..b, p.eval x =
      1 / 2 * (b - a) * ∑ d ∈ Finset.range 20, (shifted p a b).coeff d * (Q (fun t => t ^ d) (-1) 1 - mono d) := by
  have hq : (shifted p a b).natDegree < 20 := lt_of_le_of_lt (shifted_natDegree_le p a b) (by omega)
  rw [integral_shift, integral_poly _ 20 hq, Q, quad5_affine]
  have : (fun t => p.eval (1 / 2 * (b + a) + 1 / 2 * (b - a) * t)) =
      fun t => ∑ d ∈ Finset.range 20, (shifted p a b).coeff d * t ^ d := by
    funext t
    rw [← shifted_eval, eval_eq_sum_range' hq]
  rw [this, quad5_lincomb]
  simp only [Q, mul_sub, Finset.sum_sub_distrib]
  ring

/-- **quad5_poly_error.**  For every real polynomial of degree ≤ 19 and every interval, the model's `quad5` over the
source's table differs from the integral by at most `|xr| · Σ_{d even} |ĉ_d| · 10⁻¹⁶`, `ĉ_d` the coefficients of
`t ↦ p(xm + xr t)`: the odd part is integrated exactly, each even coefficient contributes its moment residual. -/
theorem quad5_poly_error (p : ℝ[X]) (hp : p.natDegree ≤ 19) (a b : ℝ) :
    |Q p.eval a b - ∫ x in a..b, p.eval x| ≤
      |1 / 2 * (b - a)| * (∑ d ∈ (Finset.range 20).filter Even, |(shifted p a b).coeff d|) * (1 / 10 ^ 16) := by
  rw [quad5_poly_error_eq p hp, abs_mul, mul_assoc]
  refine mul_le_mul_of_nonneg_left ?_ (abs_nonneg _)
  refine le_trans (Finset.abs_sum_le_sum_abs _ _) ?_
  rw [Finset.sum_filter, Finset.sum_mul]
  refine Finset.sum_le_sum fun d hd => ?_
  have hr := Q_monomial_residual d (Finset.mem_range.mp hd)
  rw [abs_mul]
  split
  · rename_i he
    rw [if_pos he] at hr
    exact mul_le_mul_of_nonneg_left hr (abs_nonneg _)
  · rename_i he
    rw [if_neg he] at hr
    have : |Q (fun t => t ^ d) (-1) 1 - mono d| = 0 := le_antisymm hr (abs_nonneg _)
    rw [this]; simp

/-- the bound with all coefficients of the transformed polynomial -/
theorem quad5_poly_error_all (p : ℝ[X]) (hp : p.natDegree ≤ 19) (a b : ℝ) :
    |Q p.eval a b - ∫ x in a..b, p.eval x| ≤
      |1 / 2 * (b - a)| * (∑ d ∈ Finset.range 20, |(shifted p a b).coeff d|) * (1 / 10 ^ 16) := by
  refine le_trans (quad5_poly_error p hp a b) ?_
  refine mul_le_mul_of_nonneg_right (mul_le_mul_of_nonneg_left ?_ (abs_nonneg _)) (by norm_num)
  exact Finset.sum_le_sum_of_subset_of_nonneg (Finset.filter_subset _ _) fun _ _ _ => abs_nonneg _

/-- **quad5_poly_exact_of_odd.**  If `t ↦ p(xm + xr t)` has no even-degree terms (the integrand is odd about the
midpoint), `quad5` returns the integral exactly — which is 0. -/
theorem quad5_poly_exact_of_odd (p : ℝ[X]) (hp : p.natDegree ≤ 19) (a b : ℝ)
    (hodd : ∀ d, Even d → (shifted p a b).coeff d = 0) :
    Q p.eval a b = ∫ x in a..b, p.eval x := by
  have h := quad5_poly_error p hp a b
  have h0 : ∑ d ∈ (Finset.range 20).filter Even, |(shifted p a b).coeff d| = 0 :=
    Finset.sum_eq_zero fun d hd => by rw [hodd d (Finset.mem_filter.mp hd).2, abs_zero]
  rw [h0, mul_zero, zero_mul] at h
  exact sub_eq_zero.mp (abs_nonpos_iff.mp h)

/-! ### the coefficients of the transformed polynomial (binomial expansion) -/

theorem lin_pow_coeff (xm xr : ℝ) (k d : ℕ) :
    ((C xm + C xr * X : ℝ[X]) ^ k).coeff d = xm ^ (k - d) * (k.choose d : ℝ) * xr ^ d := by
  have : (C xm + C xr * X : ℝ[X]) ^ k = ((X + C xm) ^ k).comp (C xr * X) := by
    rw [pow_comp, add_comp, X_comp, C_comp, add_comm]
  rw [this, comp_C_mul_X_coeff, coeff_X_add_C_pow]

theorem shifted_coeff (p : ℝ[X]) (n : ℕ) (hn : p.natDegree < n) (a b : ℝ) (d : ℕ) :
    (shifted p a b).coeff d = ∑ k ∈ Finset.range n,
      p.coeff k * ((1 / 2 * (b + a)) ^ (k - d) * (k.choose d : ℝ) * (1 / 2 * (b - a)) ^ d) := by
  rw [shifted, comp_eq_sum_left, p.sum_over_range' (by simp) n hn, finsetSum_coeff]
  refine Finset.sum_congr rfl fun k _ => ?_
  rw [coeff_C_mul, lin_pow_coeff]

/-- `Σ_d |ĉ_d| ≤ Σ_k |c_k| (|xm| + |xr|)^k` -/
theorem shifted_coeff_abs_sum_le (p : ℝ[X]) (n : ℕ) (hn : p.natDegree < n) (a b : ℝ) :
    ∑ d ∈ Finset.range n, |(shifted p a b).coeff d| ≤
      ∑ k ∈ Finset.range n, |p.coeff k| * (|1 / 2 * (b + a)| + |1 / 2 * (b - a)|) ^ k := by
  set xm := 1 / 2 * (b + a)
  set xr := 1 / 2 * (b - a)
  calc ∑ d ∈ Finset.range n, |(shifted p a b).coeff d|
      ≤ ∑ d ∈ Finset.range n, ∑ k ∈ Finset.range n,
          |p.coeff k| * (|xm| ^ (k - d) * (k.choose d : ℝ) * |xr| ^ d) := by
        refine Finset.sum_le_sum fun d _ => ?_
        rw [shifted_coeff p n hn a b d]
        refine le_trans (Finset.abs_sum_le_sum_abs _ _) (le_of_eq ?_)
        refine Finset.sum_congr rfl fun k _ => ?_
        rw [abs_mul, abs_mul, abs_mul, abs_pow, abs_pow, Nat.abs_cast]
    _ = ∑ k ∈ Finset.range n, |p.coeff k| * ∑ d ∈ Finset.range n, |xm| ^ (k - d) * (k.choose d : ℝ) * |xr| ^ d := by
        rw [Finset.sum_comm]
        exact Finset.sum_congr rfl fun k _ => (Finset.mul_sum _ _ _).symm
    _ = ∑ k ∈ Finset.range n, |p.coeff k| * (|xm| + |xr|) ^ k := by
        refine Finset.sum_congr rfl fun k hk => ?_
        congr 1
        have hk' : k + 1 ≤ n := Finset.mem_range.mp hk
        rw [add_comm |xm| |xr|, add_pow]
        rw [← Finset.sum_subset (Finset.range_subset_range.mpr hk')]
        · exact Finset.sum_congr rfl fun d _ => by ring
        · intro d _ hd
          have : k < d := by
            by_contra h
            exact hd (Finset.mem_range.mpr (by omega))
          rw [Nat.choose_eq_zero_of_lt this]; simp

/-- **quad5_poly_error_coeffs.**  The error bound in terms of the coefficients `c_k` of `p` itself:
`|quad5 p a b − ∫_a^b p| ≤ 10⁻¹⁶ · |xr| · Σ_k |c_k| (|xm| + |xr|)^k` for every polynomial of degree ≤ 19. -/
theorem quad5_poly_error_coeffs (p : ℝ[X]) (hp : p.natDegree ≤ 19) (a b : ℝ) :
    |Q p.eval a b - ∫ x in a..b, p.eval x| ≤
      1 / 10 ^ 16 * |1 / 2 * (b - a)| *
        ∑ k ∈ Finset.range 20, |p.coeff k| * (|1 / 2 * (b + a)| + |1 / 2 * (b - a)|) ^ k := by
  have h1 := quad5_poly_error_all p hp a b
  have h2 := shifted_coeff_abs_sum_le p 20 (by omega) a b
  have h3 : |1 / 2 * (b - a)| * (∑ d ∈ Finset.range 20, |(shifted p a b).coeff d|) ≤
      |1 / 2 * (b - a)| * ∑ k ∈ Finset.range 20, |p.coeff k| * (|1 / 2 * (b + a)| + |1 / 2 * (b - a)|) ^ k :=
    mul_le_mul_of_nonneg_left h2 (abs_nonneg _)
  have h4 := mul_le_mul_of_nonneg_right h3 (by norm_num : (0 : ℝ) ≤ 1 / 10 ^ 16)
  calc _ ≤ _ := h1
    _ ≤ _ := h4
    _ = _ := by ring

/-! ### the model's polynomial integrand (Horner over a coefficient list) -/

/-- the polynomial with coefficient list `c` (constant term first) -/
def ofList : List ℝ → ℝ[X]
  | [] => 0
  | c :: cs => C c + X * ofList cs

theorem ofList_eval (c : List ℝ) (x : ℝ) : (ofList c).eval x = horner c x := by
  induction c with
  | nil => simp [ofList, horner]
  | cons c cs ih =>
    simp only [ofList, eval_add, eval_C, eval_mul, eval_X, ih, horner, List.foldr_cons]
    ring

theorem ofList_natDegree_lt (c : List ℝ) (h : c ≠ []) : (ofList c).natDegree < c.length := by
  induction c with
  | nil => exact absurd rfl h
  | cons c cs ih =>
    simp only [ofList, List.length_cons]
    refine lt_of_le_of_lt (natDegree_add_le _ _) (max_lt (by simp) ?_)
    by_cases hcs : cs = []
    · subst hcs; simp [ofList]
    · refine lt_of_le_of_lt natDegree_mul_le ?_
      have := ih hcs
      simp only [natDegree_X]
      omega

theorem ofList_coeff (c : List ℝ) (k : ℕ) : (ofList c).coeff k = c.getD k 0 := by
  induction c generalizing k with
  | nil => simp [ofList]
  | cons c cs ih =>
    cases k with
    | zero => simp [ofList]
    | succ k => simp [ofList, coeff_X_mul, ih]

/-- **quad5_horner_error.**  The same bound for the integrand the drivers run: Horner evaluation of a coefficient
list of length ≤ 20. -/
theorem quad5_horner_error (c : List ℝ) (hc : c.length ≤ 20) (a b : ℝ) :
    |Q (horner c) a b - ∫ x in a..b, horner c x| ≤
      1 / 10 ^ 16 * |1 / 2 * (b - a)| *
        ∑ k ∈ Finset.range 20, |c.getD k 0| * (|1 / 2 * (b + a)| + |1 / 2 * (b - a)|) ^ k := by
  have hd : (ofList c).natDegree ≤ 19 := by
    by_cases h : c = []
    · subst h; simp [ofList]
    · have := ofList_natDegree_lt c h; omega
  have := quad5_poly_error_coeffs (ofList c) hd a b
  simp only [ofList_coeff] at this
  simpa only [ofList_eval] using this

/-! ### non-vacuity -/

/-- `p = 1 + 2x + 3x⁴` on `[0, 2]`: `xm = xr = 1`, `Σ|c_k| 2^k = 1 + 4 + 48 = 53`, the rule is within `53·10⁻¹⁶` of
`∫_0^2 p = 2 + 4 + 96/5`. -/
example : |Q (horner [1, 2, 0, 0, 3]) 0 2 - ∫ x in (0 : ℝ)..2, horner [1, 2, 0, 0, 3] x| ≤ 53 / 10 ^ 16 := by
  refine le_trans (quad5_horner_error [1, 2, 0, 0, 3] (by simp) 0 2) (le_of_eq ?_)
  simp [Finset.sum_range_succ]
  norm_num

/-- an odd integrand about the midpoint: `p = (x − 1)³` on `[0, 2]` is integrated exactly -/
example : Q ((X - C 1 : ℝ[X]) ^ 3).eval 0 2 = ∫ x in (0 : ℝ)..2, ((X - C 1 : ℝ[X]) ^ 3).eval x := by
  refine quad5_poly_exact_of_odd _ ?_ 0 2 ?_
  · refine le_trans natDegree_pow_le ?_
    have : (X - C 1 : ℝ[X]).natDegree ≤ 1 := natDegree_X_sub_C_le _
    omega
  · intro d hd
    have : shifted ((X - C 1 : ℝ[X]) ^ 3) 0 2 = X ^ 3 := by
      simp only [shifted]
      norm_num
    rw [this, coeff_X_pow]
    rw [if_neg]
    rintro rfl
    exact absurd hd (by decide)

end Real

end Cv.C07Q
