import Compute.Props.C11
import Mathlib.Algebra.BigOperators.Ring.List
import Mathlib.Tactic.FieldSimp
import Mathlib.Analysis.SpecialFunctions.Sqrt
/-
C11 — scale equivariance of the Cholesky sweep (round-10 seed C11w: an absolute threshold on the diagonal).

Over an ordered field, for `c > 0` and a `sqrt` with `sqrt (c²·x) = c·sqrt x` on positives (true for the real
square root, and for binary64 when `c` is a power of two and nothing under/overflows), the loops of
`try_cholesky` satisfy   `cholLoops n (c²·A) = (cholLoops n A).map (c·)`   — the factor of the scaled matrix is
the scaled factor, and the scaled matrix is rejected iff the unscaled one is.  No absolute magnitude enters.
-/
set_option linter.unusedSectionVars false
namespace Cv.C11Scale
open Cv Cv.LA

section
variable {F : Type} [Field F] [LinearOrder F] [IsStrictOrderedRing F] [Transc F] [BEq F] [LawfulBEq F]

/-- entrywise scaling of a flat array -/
def sc (c : F) (l : List F) : List F := l.map (c * ·)

theorem rd_sc (c : F) (l : List F) (i : Nat) : rd (sc c l) i = c * rd l i := by
  simp only [rd, sc, List.getD_eq_getElem?_getD, List.getElem?_map]
  cases l[i]? <;> simp

theorem sc_set (c : F) (l : List F) (i : Nat) (v : F) : sc c (l.set i v) = (sc c l).set i (c * v) := by
  simp [sc, List.map_set]

theorem dot8_sc (c : F) (u v : List F) : dot8 (sc c u) (sc c v) = c * c * dot8 u v := by
  rw [dot8_eq_sum, dot8_eq_sum, sc, sc, List.zipWith_map]
  have : List.zipWith (fun a b => c * a * (c * b)) u v = (List.zipWith (· * ·) u v).map (c * c * ·) := by
    rw [List.map_zipWith]; congr 1; funext a b; ring
  rw [this, List.sum_map_mul_left]
  simp

theorem sc_drop_take (c : F) (l : List F) (a b : Nat) : ((sc c l).drop a).take b = sc c ((l.drop a).take b) := by
  simp [sc, List.map_drop, List.map_take]

theorem isNan_false (x : F) : isNan x = false := by simp [isNan]

/-- one cell of the sweep commutes with scaling -/
theorem cholCell_sc (c : F) (hc : 0 < c) (hsq : ∀ x : F, 0 < x → Transc.sqrt (c * c * x) = c * Transc.sqrt x)
    (n : Nat) (a l : List F) (i j : Nat) :
    cholCell n (sc (c * c) a) (sc c l) i j = (cholCell n a l i j).map (sc c) := by
  unfold cholCell
  simp only [sc_drop_take, dot8_sc, rd_sc, isNan_false, Bool.false_eq_true, or_false]
  have hcc : 0 < c * c := mul_pos hc hc
  by_cases hij : i = j
  · subst hij
    simp only [if_true]
    set p := rd a (i * n + i) - dot8 ((l.drop (i * n)).take i) ((l.drop (i * n)).take i) with hp
    have hpe : c * c * rd a (i * n + i) - c * c * dot8 ((l.drop (i * n)).take i) ((l.drop (i * n)).take i) = c * c * p := by
      rw [hp]; ring
    rw [hpe]
    by_cases hle : p ≤ 0
    · have : c * c * p ≤ 0 := mul_nonpos_of_nonneg_of_nonpos (le_of_lt hcc) hle
      simp [hle, this]
    · have hpos : 0 < p := not_le.mp hle
      have : ¬ c * c * p ≤ 0 := not_le.mpr (mul_pos hcc hpos)
      simp only [hle, this, if_false, Option.map_some, Option.some.injEq]
      rw [sc_set, hsq p hpos]
  · simp only [hij, if_false, Option.map_some, Option.some.injEq]
    rw [sc_set]
    congr 1
    have hc0 : c ≠ 0 := ne_of_gt hc
    by_cases hl : rd l (j * n + j) = 0
    · simp [hl]
    · field_simp

/-- a monadic left fold commutes with a map that commutes with every step -/
theorem foldlM_map {β : Type} (g : List F → List F) (f f' : List F → β → Option (List F))
    (h : ∀ l x, f' (g l) x = (f l x).map g) (xs : List β) (l : List F) :
    xs.foldlM f' (g l) = (xs.foldlM f l).map g := by
  induction xs generalizing l with
  | nil => simp
  | cons x xs ih =>
    simp only [List.foldlM_cons, h]
    cases hfx : f l x with
    | none => simp
    | some l1 => simp [ih]

theorem cholRow_sc (c : F) (hc : 0 < c) (hsq : ∀ x : F, 0 < x → Transc.sqrt (c * c * x) = c * Transc.sqrt x)
    (n : Nat) (a l : List F) (i : Nat) :
    cholRow n (sc (c * c) a) (sc c l) i = (cholRow n a l i).map (sc c) := by
  unfold cholRow
  exact foldlM_map (sc c) _ _ (fun l j => cholCell_sc c hc hsq n a l i j) _ l

/-- **Scale equivariance of the Cholesky sweep**: `L(c²A) = c·L(A)`, rejection included. -/
theorem cholLoops_scale (c : F) (hc : 0 < c) (hsq : ∀ x : F, 0 < x → Transc.sqrt (c * c * x) = c * Transc.sqrt x)
    (n : Nat) (a : List F) : cholLoops n (sc (c * c) a) = (cholLoops n a).map (sc c) := by
  unfold cholLoops
  have h0 : List.replicate (n * n) (0 : F) = sc c (List.replicate (n * n) 0) := by simp [sc]
  have := foldlM_map (sc c) (fun l i => cholRow n a l i) (fun l i => cholRow n (sc (c * c) a) l i)
    (fun l i => cholRow_sc c hc hsq n a l i) (List.range n) (List.replicate (n * n) 0)
  rw [← h0] at this
  exact this

/-- the scaled matrix is rejected iff the unscaled one is — whatever its absolute magnitude -/
theorem cholLoops_scale_none_iff (c : F) (hc : 0 < c)
    (hsq : ∀ x : F, 0 < x → Transc.sqrt (c * c * x) = c * Transc.sqrt x) (n : Nat) (a : List F) :
    cholLoops n (sc (c * c) a) = none ↔ cholLoops n a = none := by
  rw [cholLoops_scale c hc hsq n a]
  cases cholLoops n a <;> simp

end

/-- over `ℝ` with the real square root the hypothesis on `sqrt` holds for every `c > 0` -/
theorem cholLoops_scale_real [Transc ℝ] [BEq ℝ] [LawfulBEq ℝ] (hs : ∀ x : ℝ, Transc.sqrt x = Real.sqrt x)
    (c : ℝ) (hc : 0 < c) (n : Nat) (a : List ℝ) :
    cholLoops n (sc (c * c) a) = (cholLoops n a).map (sc c) :=
  cholLoops_scale c hc (fun x _ => by
    rw [hs, hs, Real.sqrt_mul (mul_self_nonneg c), Real.sqrt_mul_self (le_of_lt hc)]) n a

/-! non-vacuity over ℚ with the exact `ratSqrt`: `c = 1/2` on `[[4,2],[2,2]]` (`sqrt 4 = 2`, `sqrt 1 = 1`, and on the
scaled pivots `sqrt 1 = 1`, `sqrt (1/4) = 1/2`) — both sides evaluated -/
section examples
open Cv.C01

example : cholLoops 2 (sc ((1 / 2 : ℚ) * (1 / 2)) [4, 2, 2, 2]) = some [1, 0, 1 / 2, 1 / 2] ∧
    (cholLoops 2 ([4, 2, 2, 2] : List ℚ)).map (sc (1 / 2)) = some [1, 0, 1 / 2, 1 / 2] := by
  refine ⟨by decide +kernel, by decide +kernel⟩

/-- and a rejected one stays rejected at scale `(1/1024)²` -/
example : cholLoops 2 (sc ((1 / 1024 : ℚ) * (1 / 1024)) [1, 2, 2, 1]) = none ∧ cholLoops 2 ([1, 2, 2, 1] : List ℚ) = none := by
  refine ⟨by decide +kernel, by decide +kernel⟩

end examples
end Cv.C11Scale
