import Compute.Model.DistPdf
import Compute.Lemmas.C02
import Compute.Lemmas.C02Mvn
import Mathlib.Probability.Distributions.Gaussian.Real
import Mathlib.Probability.Distributions.Gamma
import Mathlib.Probability.Distributions.Beta
import Mathlib.Probability.Distributions.Exponential
import Mathlib.Probability.Distributions.Pareto
import Mathlib.Probability.Distributions.Poisson.Basic
import Mathlib.Data.Nat.Choose.Sum
/-
C02 — densities and mass functions are proper and match the stated mean and variance.

Theorems about the model `Compute/Model/DistPdf.lean` of `/repo/src/distributions/*.rs` instantiated at `ℝ`, with the
special functions the code calls replaced by the ideal ones (`realFns`: `π`, `Real.Gamma`, `log ∘ Real.Gamma`,
`log (1 + ·)`, Euler–Mascheroni) or constrained by explicit hypotheses.  Independent specifications are Mathlib's
`gaussianPDFReal`, `gammaPDFReal`, `betaPDFReal`, `exponentialPDFReal`, `paretoPDFReal`, the Poisson series
`hasSum_one_poissonMeasure`, `Nat.choose`, and short `Spec` definitions for the laws Mathlib has no density for.

Masses, means and variances of the 13 univariate laws as integrals / sums are in `Props/C02Moments.lean`; review follow-ups
(stability under an inexact `ln_gamma`, MVN constructor facts and accessors, non-vacuity examples) in `Props/C02Review.lean`.
Not proved (see `NOT_PROVED` in tools/cv/c02.py): floating-point rounding; accuracy of the Lanczos / erf approximations (C09,
no theorem bridges `LnGammaOK` / `herf` to the code's approximations); the boundary points Beta at {0, 1} and ChiSquared(k > 2)
at 0 (theorems suffixed `_partial`); for the MVN: total mass, moments, and that the cached inverse / determinant are those of
the covariance.
-/
open scoped Cv.C02
open Cv Cv.Dist ProbabilityTheory

namespace Cv.C02

variable (erf : ℝ → ℝ)

local notation "RF" => realFns erf

/-! ## Normal -/

/-- **Normal density = Mathlib's Gaussian density** with mean `μ` and variance `σ²`, for every `σ > 0` and every `x`. -/
theorem normal_pdf_eq_gaussianPDFReal (μ σ x : ℝ) (hσ : 0 < σ) :
    Normal.pdf RF μ σ x = gaussianPDFReal μ (sqNN σ) x := by
  simp only [Normal.pdf, gaussianPDFReal, realFns, powi_two, transc_sqrt, transc_exp, two_real, half_real, coe_sqNN]
  have h1 : Real.sqrt (2 * Real.pi * σ ^ 2) = σ * Real.sqrt (2 * Real.pi) := by
    rw [Real.sqrt_mul (by positivity), Real.sqrt_sq hσ.le]; ring
  rw [h1]
  congr 1
  · rw [one_div]
  · congr 1
    field_simp

/-- The Gaussian density integrates to one (transferred from Mathlib through the identity above). -/
theorem normal_pdf_integral_eq_one (μ σ : ℝ) (hσ : 0 < σ) :
    ∫ x, Normal.pdf RF μ σ x = 1 := by
  have : (fun x => Normal.pdf RF μ σ x) = gaussianPDFReal μ (sqNN σ) := by
    funext x; exact normal_pdf_eq_gaussianPDFReal erf μ σ x hσ
  rw [this]
  exact integral_gaussianPDFReal_eq_one μ (sqNN_ne_zero hσ)

theorem normal_pdf_pos (μ σ x : ℝ) (hσ : 0 < σ) : 0 < Normal.pdf RF μ σ x := by
  rw [normal_pdf_eq_gaussianPDFReal erf μ σ x hσ]
  exact gaussianPDFReal_pos μ _ x (sqNN_ne_zero hσ)

/-- **`Normal::ln_pdf` is the logarithm of `Normal::pdf`** for `σ > 0`. -/
theorem normal_lnPdf_eq_log_pdf (μ σ x : ℝ) (hσ : 0 < σ) :
    Normal.lnPdf RF μ σ x = Real.log (Normal.pdf RF μ σ x) := by
  simp only [Normal.pdf, Normal.lnPdf, realFns, transc_sqrt, transc_exp, transc_ln, two_real, half_real]
  have hs : 0 < σ * Real.sqrt (2 * Real.pi) := by positivity
  rw [Real.log_mul (one_div_pos.mpr hs).ne' (Real.exp_pos _).ne', Real.log_exp, Real.log_div one_ne_zero hs.ne',
    Real.log_one]
  ring

/-- The default `ln_pdf` of the `Continuous` trait is `ln ∘ pdf` by definition (this is how the driver evaluates it for
the eight other continuous laws); **`Normal::cdf`** is `½ (1 + erf ((x - μ) / (σ √2)))`. -/
theorem normal_cdf_formula (μ σ x : ℝ) :
    Normal.cdf RF μ σ x = 1 / 2 * (1 + erf ((x - μ) / (σ * Real.sqrt 2))) := by
  simp [Normal.cdf, realFns]

/-- For an odd error function the CDF is `½` at the mean and `cdf (μ + d) + cdf (μ - d) = 1`. -/
theorem normal_cdf_symm (herf : ∀ z, erf (-z) = -erf z) (μ σ d : ℝ) :
    Normal.cdf RF μ σ (μ + d) + Normal.cdf RF μ σ (μ - d) = 1 := by
  simp only [Normal.cdf, realFns, half_real, two_real, transc_sqrt]
  have : (μ - d - μ) / (σ * Real.sqrt 2) = -((μ + d - μ) / (σ * Real.sqrt 2)) := by ring
  rw [this, herf]; ring

/-- Mean and variance accessors are the mean and variance of Mathlib's Gaussian measure with that density. -/
theorem normal_mean_var (μ σ : ℝ) :
    Normal.mean μ σ = ∫ x, x ∂(gaussianReal μ (sqNN σ)) ∧
    Normal.var μ σ = Var[id; gaussianReal μ (sqNN σ)] := by
  refine ⟨?_, ?_⟩
  · rw [integral_id_gaussianReal]; rfl
  · rw [variance_id_gaussianReal]; simp [Normal.var, sq, coe_sqNN]

example : Normal.pdf RF 0 1 0 = gaussianPDFReal 0 (sqNN 1) 0 := normal_pdf_eq_gaussianPDFReal erf 0 1 0 one_pos

/-! ## Gamma, Exponential, ChiSquared

Since F47–F49 the Gamma, Beta and ChiSquared densities are evaluated in log space, `exp (… - ln_gamma …)`.  As for Poisson and
Binomial the special function is an arbitrary `F : Fns ℝ` with the explicit hypothesis `LnGammaOK F`
(`exp (F.lnGamma z) = Γ z` for `z > 0`); `realFns` satisfies it (`realFns_lnGammaOK`). -/

/-- **Gamma density = Mathlib's `gammaPDFReal α β`** (shape `α`, rate `β`) at every `x ≠ 0`, given `exp (lnΓ z) = Γ z`.  (At
`x = 0` the code returns `0`; Mathlib's convention there is `β^α/Γ(α) · 0^(α-1)`, which is `β` for `α = 1`: a null set.) -/
theorem gamma_pdf_eq_gammaPDFReal (F : Fns ℝ) (hG : LnGammaOK F) (α β x : ℝ) (hα : 0 < α) (hβ : 0 < β) (hx : x ≠ 0) :
    Gamma.pdf F α β x = gammaPDFReal α β x := by
  simp only [Gamma.pdf, gammaPDFReal, transc_ln, transc_exp]
  rcases lt_or_gt_of_ne hx with h | h
  · rw [if_pos h.le, if_neg (not_le.mpr h)]
  · rw [if_neg (not_le.mpr h), if_pos h.le, Real.exp_sub, Real.exp_add, Real.exp_sub, hG α hα, exp_mul_log α β hβ,
      exp_mul_log (α - 1) x h, Real.exp_neg]
    ring

theorem gamma_pdf_zero_of_nonpos (F : Fns ℝ) (α β x : ℝ) (hx : x ≤ 0) : Gamma.pdf F α β x = 0 := by
  simp [Gamma.pdf, hx]

theorem gamma_pdf_nonneg (F : Fns ℝ) (α β x : ℝ) : 0 ≤ Gamma.pdf F α β x := by
  simp only [Gamma.pdf, transc_exp]
  split
  · exact le_rfl
  · exact (Real.exp_pos _).le

/-- Total mass one: the code's density agrees with Mathlib's off the null set `{0}`. -/
theorem gamma_pdf_lintegral_eq_one (F : Fns ℝ) (hG : LnGammaOK F) (α β : ℝ) (hα : 0 < α) (hβ : 0 < β) :
    ∫⁻ x, ENNReal.ofReal (Gamma.pdf F α β x) = 1 := by
  rw [← lintegral_gammaPDF_eq_one hα hβ]
  apply MeasureTheory.lintegral_congr_ae
  have : ∀ᵐ x : ℝ, x ≠ 0 := MeasureTheory.compl_mem_ae_iff.mpr (MeasureTheory.measure_singleton 0)
  filter_upwards [this] with x hx
  rw [gamma_pdf_eq_gammaPDFReal F hG α β x hα hβ hx, gammaPDF]

example : ∫⁻ x, ENNReal.ofReal (Gamma.pdf RF 2 3 x) = 1 :=
  gamma_pdf_lintegral_eq_one RF (realFns_lnGammaOK erf) 2 3 (by norm_num) (by norm_num)

/-- **Exponential density = Mathlib's `exponentialPDFReal λ`** at every `x`. -/
theorem exponential_pdf_eq_exponentialPDFReal (l x : ℝ) :
    Exponential.pdf l x = exponentialPDFReal l x := by
  simp only [Exponential.pdf, exponentialPDFReal, gammaPDFReal, transc_exp]
  by_cases h : x < 0
  · rw [if_pos h, if_neg (not_le.mpr h)]
  · rw [if_neg h, if_pos (not_lt.mp h)]
    simp [Real.Gamma_one, neg_mul]

theorem exponential_pdf_nonneg (l x : ℝ) (hl : 0 < l) : 0 ≤ Exponential.pdf l x := by
  rw [exponential_pdf_eq_exponentialPDFReal]; exact gammaPDFReal_nonneg one_pos hl x

theorem exponential_pdf_lintegral_eq_one (l : ℝ) (hl : 0 < l) :
    ∫⁻ x, ENNReal.ofReal (Exponential.pdf l x) = 1 := by
  simp_rw [exponential_pdf_eq_exponentialPDFReal]
  exact lintegral_exponentialPDF_eq_one hl

/-- **ChiSquared(k) density = Gamma(k/2, 1/2) density** (`gammaPDFReal (k/2) (1/2)`) at every `x ≠ 0`, for every `k ≥ 1`, given
`exp (lnΓ z) = Γ z`.  PARTIAL: `x = 0` with `k > 2` is missing.  (At `x = 0`: `k = 1` gives `0` on both sides (`chiSquared_pdf_zero_of_neg` / the guard), `k = 2` gives `½` on
both sides (`chiSquared_pdf_two_zero`); for `k > 2` the code computes `exp (c · ln 0) = exp (-∞) = 0` in IEEE arithmetic, while
`Real.log 0 = 0` is a junk value over `ℝ` — that single point is covered by the bit-exact tie and the oracle, not by a theorem.) -/
theorem chiSquared_pdf_eq_gammaPDFReal_partial (F : Fns ℝ) (hG : LnGammaOK F) (k : ℕ) (hk : 0 < k) (x : ℝ) (hx : x ≠ 0) :
    ChiSquared.pdf F k x = gammaPDFReal ((k : ℝ) / 2) (1 / 2) x := by
  simp only [ChiSquared.pdf, gammaPDFReal, transc_ln, transc_exp, two_real, xlogy_real]
  have hk2 : (0 : ℝ) < (k : ℝ) / 2 := by positivity
  have hpow : ((1 : ℝ) / 2) ^ ((k : ℝ) / 2) = ((2 : ℝ) ^ ((k : ℝ) / 2))⁻¹ := by
    rw [one_div, Real.inv_rpow (by norm_num)]
  rcases lt_or_gt_of_ne hx with h | h
  · rw [if_pos (Or.inr h), if_neg (not_le.mpr h)]
  · rw [if_neg (by rintro (⟨_, h'⟩ | h') <;> linarith), if_pos h.le, Real.exp_sub, Real.exp_sub, Real.exp_sub,
      hG _ hk2, exp_mul_log _ x h, exp_mul_log _ 2 (by norm_num), hpow]
    have : Real.exp (-(1 / 2 * x)) = (Real.exp (x / 2))⁻¹ := by rw [← Real.exp_neg]; congr 1; ring
    rw [this]
    ring

/-- `k = 2` at the boundary point: both the code and the Gamma(1, ½) density give `½`. -/
theorem chiSquared_pdf_two_zero (F : Fns ℝ) (hG : LnGammaOK F) :
    ChiSquared.pdf F 2 0 = gammaPDFReal ((2 : ℕ) / 2) (1 / 2) 0 := by
  have h1 : F.lnGamma 1 = 0 := by
    have := hG 1 one_pos
    rw [Real.Gamma_one] at this
    have h := congrArg Real.log this
    rwa [Real.log_exp, Real.log_one] at h
  simp only [ChiSquared.pdf, gammaPDFReal, transc_ln, transc_exp, two_real, xlogy_real]
  norm_num [h1, Real.Gamma_one, Real.exp_neg, Real.exp_log]

theorem chiSquared_pdf_nonneg (F : Fns ℝ) (k : ℕ) (x : ℝ) : 0 ≤ ChiSquared.pdf F k x := by
  simp only [ChiSquared.pdf, transc_exp]
  split
  · exact le_rfl
  · exact (Real.exp_pos _).le

theorem chiSquared_pdf_lintegral_eq_one (F : Fns ℝ) (hG : LnGammaOK F) (k : ℕ) (hk : 0 < k) :
    ∫⁻ x, ENNReal.ofReal (ChiSquared.pdf F k x) = 1 := by
  rw [← lintegral_gammaPDF_eq_one (a := (k : ℝ) / 2) (r := 1 / 2) (by positivity) (by norm_num)]
  apply MeasureTheory.lintegral_congr_ae
  have : ∀ᵐ x : ℝ, x ≠ 0 := MeasureTheory.compl_mem_ae_iff.mpr (MeasureTheory.measure_singleton 0)
  filter_upwards [this] with x hx
  rw [chiSquared_pdf_eq_gammaPDFReal_partial F hG k hk x hx, gammaPDF]

theorem chiSquared_pdf_zero_of_neg (F : Fns ℝ) (k : ℕ) (x : ℝ) (hx : x < 0) : ChiSquared.pdf F k x = 0 := by
  simp [ChiSquared.pdf, hx]

/-- `dof = 1`: the density is `0` at `x = 0` as well (open support). -/
theorem chiSquared_pdf_one_zero (F : Fns ℝ) : ChiSquared.pdf F 1 0 = 0 := by
  simp [ChiSquared.pdf]

/-! ## Beta -/

/-- `functions::beta` with the ideal `Γ` is Mathlib's normalising constant of the Beta law. -/
theorem betaOf_eq (a b : ℝ) : betaOf RF a b = ProbabilityTheory.beta a b := rfl

/-- **Beta density = Mathlib's `betaPDFReal α β`** at every `x` other than the two end points of the support, given
`exp (lnΓ z) = Γ z`.  PARTIAL: the full statement would cover `x ∈ {0, 1}` with the values the code returns there
(`exp (c · ln 0)`, i.e. `0`, `1/B` or `+∞` according to the sign of `c`); over `ℝ` the model is junk at those two points
(`Real.log 0 = 0`, e.g. `Beta.pdf RF 2 2 0 = 6`), so they are covered by the bit-exact tie and the oracle only. -/
theorem beta_pdf_eq_betaPDFReal_partial (F : Fns ℝ) (hG : LnGammaOK F) (α β x : ℝ) (hα : 0 < α) (hβ : 0 < β)
    (h0 : x ≠ 0) (h1 : x ≠ 1) :
    Beta.pdf F α β x = betaPDFReal α β x := by
  simp only [Beta.pdf, betaPDFReal, ProbabilityTheory.beta, transc_exp, xlogy_real]
  by_cases h : 0 < x ∧ x < 1
  · have hx1 : 0 < 1 - x := by linarith [h.2]
    have g1 := (Real.Gamma_pos_of_pos hα).ne'
    have g2 := (Real.Gamma_pos_of_pos hβ).ne'
    have g3 := (Real.Gamma_pos_of_pos (add_pos hα hβ)).ne'
    rw [if_pos ⟨h.1.le, h.2.le⟩, if_pos h, Real.exp_sub, Real.exp_sub, Real.exp_add, Real.exp_add, hG α hα, hG β hβ,
      hG (α + β) (add_pos hα hβ), exp_mul_log _ x h.1, exp_mul_log _ (1 - x) hx1]
    field_simp
  · rw [if_neg h, if_neg]
    rintro ⟨ha, hb⟩
    exact h ⟨lt_of_le_of_ne ha (Ne.symm h0), lt_of_le_of_ne hb h1⟩

theorem beta_pdf_zero_outside (F : Fns ℝ) (α β x : ℝ) (hx : x < 0 ∨ 1 < x) : Beta.pdf F α β x = 0 := by
  simp only [Beta.pdf]
  rw [if_neg]
  rintro ⟨ha, hb⟩
  rcases hx with h | h <;> linarith

theorem beta_pdf_nonneg (F : Fns ℝ) (α β x : ℝ) : 0 ≤ Beta.pdf F α β x := by
  simp only [Beta.pdf, transc_exp]
  split
  · exact (Real.exp_pos _).le
  · exact le_rfl

theorem beta_pdf_lintegral_eq_one (F : Fns ℝ) (hG : LnGammaOK F) (α β : ℝ) (hα : 0 < α) (hβ : 0 < β) :
    ∫⁻ x, ENNReal.ofReal (Beta.pdf F α β x) = 1 := by
  rw [← lintegral_betaPDF_eq_one hα hβ]
  apply MeasureTheory.lintegral_congr_ae
  have h0 : ∀ᵐ x : ℝ, x ≠ 0 := MeasureTheory.compl_mem_ae_iff.mpr (MeasureTheory.measure_singleton 0)
  have h1 : ∀ᵐ x : ℝ, x ≠ 1 := MeasureTheory.compl_mem_ae_iff.mpr (MeasureTheory.measure_singleton 1)
  filter_upwards [h0, h1] with x hx0 hx1
  rw [beta_pdf_eq_betaPDFReal_partial F hG α β x hα hβ hx0 hx1, betaPDF]

example : ∫⁻ x, ENNReal.ofReal (Beta.pdf RF 100 100 x) = 1 :=
  beta_pdf_lintegral_eq_one RF (realFns_lnGammaOK erf) 100 100 (by norm_num) (by norm_num)

/-! ## Pareto -/

/-- **Pareto density = Mathlib's `paretoPDFReal x_m α`** (scale `x_m`, shape `α`) at every `x`, for `x_m > 0`. -/
theorem pareto_pdf_eq_paretoPDFReal (α xm x : ℝ) (hm : 0 < xm) :
    Pareto.pdf α xm x = paretoPDFReal xm α x := by
  simp only [Pareto.pdf, paretoPDFReal, transc_pow]
  by_cases h : x < xm
  · rw [if_pos h, if_neg (not_le.mpr h)]
  · have hx : xm ≤ x := not_lt.mp h
    rw [if_neg h, if_pos hx, Real.rpow_neg (hm.le.trans hx), div_eq_mul_inv]

theorem pareto_pdf_zero_below (α xm x : ℝ) (hx : x < xm) : Pareto.pdf α xm x = 0 := by
  simp [Pareto.pdf, hx]

theorem pareto_pdf_nonneg (α xm x : ℝ) (hα : 0 < α) (hm : 0 < xm) : 0 ≤ Pareto.pdf α xm x := by
  rw [pareto_pdf_eq_paretoPDFReal α xm x hm]; exact paretoPDFReal_nonneg hm.le hα.le x

theorem pareto_pdf_lintegral_eq_one (α xm : ℝ) (hα : 0 < α) (hm : 0 < xm) :
    ∫⁻ x, ENNReal.ofReal (Pareto.pdf α xm x) = 1 := by
  simp_rw [pareto_pdf_eq_paretoPDFReal α xm _ hm]
  exact lintegral_paretoPDF_eq_one hm hα

/-! ## Uniform, Gumbel, Student's t: short specifications -/

namespace Spec
/-- Uniform density on `[a, b]`. -/
noncomputable def uniformPdf (a b x : ℝ) : ℝ := if a ≤ x ∧ x ≤ b then 1 / (b - a) else 0
/-- Gumbel CDF `exp (-exp (-(x - μ)/β))`. -/
noncomputable def gumbelCdf (μ β x : ℝ) : ℝ := Real.exp (-Real.exp (-((x - μ) / β)))
/-- Student's t density `Γ((ν+1)/2) / (√(νπ) Γ(ν/2)) · (1 + x²/ν)^(-(ν+1)/2)`. -/
noncomputable def tPdf (ν x : ℝ) : ℝ :=
  Real.Gamma ((ν + 1) / 2) / (Real.sqrt (ν * Real.pi) * Real.Gamma (ν / 2)) * (1 + x ^ 2 / ν) ^ (-(ν + 1) / 2)
end Spec

/-- **Uniform density**: `1/(b-a)` on `[a,b]`, `0` outside. -/
theorem uniform_pdf_eq (a b x : ℝ) : Uniform.pdf a b x = Spec.uniformPdf a b x := by
  simp only [Uniform.pdf, Spec.uniformPdf]
  by_cases h : a ≤ x ∧ x ≤ b
  · rw [if_pos h, if_neg]; rintro (h' | h') <;> linarith [h.1, h.2]
  · rw [if_neg h, if_pos]
    by_contra hc
    push Not at hc
    exact h ⟨hc.1, hc.2⟩

theorem uniform_pdf_nonneg (a b x : ℝ) (hab : a ≤ b) : 0 ≤ Uniform.pdf a b x := by
  rw [uniform_pdf_eq, Spec.uniformPdf]
  split
  · exact div_nonneg zero_le_one (by linarith)
  · exact le_rfl

/-- Total mass of the uniform density over its support, for `a < b`. -/
theorem uniform_pdf_integral (a b : ℝ) (hab : a < b) : ∫ x in a..b, Uniform.pdf a b x = 1 := by
  have : ∀ x ∈ Set.uIcc a b, Uniform.pdf a b x = 1 / (b - a) := by
    intro x hx
    rw [Set.uIcc_of_le hab.le] at hx
    rw [uniform_pdf_eq, Spec.uniformPdf, if_pos ⟨hx.1, hx.2⟩]
  rw [intervalIntegral.integral_congr this, intervalIntegral.integral_const, smul_eq_mul]
  field_simp [sub_ne_zero.mpr hab.ne']

/-- **Gumbel density is the derivative of the Gumbel CDF** `exp (-exp (-(x-μ)/β))` at every `x`. -/
theorem gumbel_pdf_hasDerivAt (μ β x : ℝ) :
    HasDerivAt (Spec.gumbelCdf μ β) (Gumbel.pdf μ β x) x := by
  unfold Spec.gumbelCdf
  have h1 : HasDerivAt (fun y : ℝ => -((y - μ) / β)) (-(1 / β)) x := by
    have h := (((hasDerivAt_id x).sub_const μ).div_const β).neg
    simp only [id] at h
    exact h
  have h2 : HasDerivAt (fun y : ℝ => Real.exp (-((y - μ) / β))) (Real.exp (-((x - μ) / β)) * -(1 / β)) x := h1.exp
  have h3 : HasDerivAt (fun y : ℝ => -Real.exp (-((y - μ) / β))) (-(Real.exp (-((x - μ) / β)) * -(1 / β))) x := h2.neg
  have h4 := h3.exp
  convert h4 using 1
  simp only [Gumbel.pdf, transc_exp]
  rw [neg_add, Real.exp_add]
  ring

theorem gumbel_pdf_pos (μ β x : ℝ) (hβ : 0 < β) : 0 < Gumbel.pdf μ β x := by
  simp only [Gumbel.pdf, transc_exp]; positivity

/-- **Student's t density** is the textbook formula. -/
theorem t_pdf_eq (ν x : ℝ) : T.pdf RF ν x = Spec.tPdf ν x := by
  simp only [T.pdf, Spec.tPdf, realFns, powi_two, transc_sqrt, transc_pow, two_real]

theorem t_pdf_pos (ν x : ℝ) (hν : 0 < ν) : 0 < T.pdf RF ν x := by
  rw [t_pdf_eq, Spec.tPdf]
  have h1 : 0 < Real.Gamma ((ν + 1) / 2) := Real.Gamma_pos_of_pos (by positivity)
  have h2 : 0 < Real.Gamma (ν / 2) := Real.Gamma_pos_of_pos (by positivity)
  have h3 : 0 < 1 + x ^ 2 / ν := by positivity
  have h4 : 0 < Real.sqrt (ν * Real.pi) := Real.sqrt_pos.mpr (by positivity)
  exact mul_pos (div_pos h1 (mul_pos h4 h2)) (Real.rpow_pos_of_pos h3 _)

/-- The density is symmetric (so the mean, when it exists, is `0`). -/
theorem t_pdf_symm (ν x : ℝ) : T.pdf RF ν (-x) = T.pdf RF ν x := by
  simp [t_pdf_eq, Spec.tPdf]

/-! ## Poisson and Binomial: log-space mass functions

The repaired code evaluates `exp (… - ln_gamma (k + 1))`.  The theorems take the special function as an arbitrary
`F : Fns ℝ` with the explicit hypothesis `exp (F.lnGamma (n + 1)) = n!` (and `F.ln1p x = log (1 + x)`); `realFns`
satisfies it (`realFns_lnGamma_factorial`).  How well the Lanczos `ln_gamma` satisfies it is C09's accuracy property. -/

/-- **Poisson pmf = `e^{-λ} λ^k / k!`**, given `exp (lnΓ(k+1)) = k!`. -/
theorem poisson_pmf_eq (F : Fns ℝ) (hF : ∀ n : ℕ, Real.exp (F.lnGamma ((n : ℝ) + 1)) = (n.factorial : ℝ))
    (l : ℝ) (hl : 0 < l) (k : ℕ) :
    Poisson.pmf F l (k : ℤ) = Real.exp (-l) * l ^ k / (k.factorial : ℝ) := by
  simp only [Poisson.pmf, transc_exp, transc_ln]
  rw [if_neg (by omega)]
  have hk : ((k : ℤ) : ℝ) = (k : ℝ) := by norm_cast
  rw [hk, Real.exp_sub, Real.exp_sub, hF k, Real.exp_nat_mul, Real.exp_log hl, Real.exp_neg]
  field_simp

theorem poisson_pmf_zero_of_neg (F : Fns ℝ) (l : ℝ) (k : ℤ) (hk : k < 0) : Poisson.pmf F l k = 0 := by
  simp [Poisson.pmf, hk]

theorem poisson_pmf_nonneg (F : Fns ℝ) (l : ℝ) (k : ℤ) : 0 ≤ Poisson.pmf F l k := by
  simp only [Poisson.pmf, transc_exp]
  split
  · exact le_rfl
  · exact (Real.exp_pos _).le

/-- Total mass one over `k = 0, 1, 2, …` (Mathlib's Poisson series), with the ideal special functions. -/
theorem poisson_pmf_hasSum (l : ℝ) (hl : 0 < l) :
    HasSum (fun k : ℕ => Poisson.pmf RF l (k : ℤ)) 1 := by
  have := hasSum_one_poissonMeasure ⟨l, hl.le⟩
  convert this using 2 with k
  rw [poisson_pmf_eq RF (realFns_lnGamma_factorial erf) l hl k]
  rfl

/-- **Binomial pmf = `C(n,k) p^k (1-p)^(n-k)`** for `0 < p < 1`, `0 ≤ k ≤ n`, given `exp (lnΓ(m+1)) = m!` and
`ln1p x = log (1 + x)`. -/
theorem binomial_pmf_eq (F : Fns ℝ) (hF : ∀ n : ℕ, Real.exp (F.lnGamma ((n : ℝ) + 1)) = (n.factorial : ℝ))
    (hL : ∀ x : ℝ, F.ln1p x = Real.log (1 + x))
    (n k : ℕ) (hk : k ≤ n) (p : ℝ) (hp0 : 0 < p) (hp1 : p < 1) :
    Binomial.pmf F n p (k : ℤ) = (n.choose k : ℝ) * p ^ k * (1 - p) ^ (n - k) := by
  simp only [Binomial.pmf, transc_exp, transc_ln]
  rw [if_neg (by omega)]
  have hk' : ((k : ℤ) : ℝ) = (k : ℝ) := by norm_cast
  have hne0 : (p == 0) = false := by simpa using hp0.ne'
  have hne1 : (p == 1) = false := by simpa using hp1.ne
  simp only [hne0, hne1, Bool.false_eq_true, if_false, hk']
  have hnk : (n : ℝ) - (k : ℝ) = ((n - k : ℕ) : ℝ) := by rw [Nat.cast_sub hk]
  rw [hnk, hL, Real.exp_add, Real.exp_add, Real.exp_sub, Real.exp_sub, hF n, hF k, hF (n - k),
    Real.exp_nat_mul, Real.exp_nat_mul, Real.exp_log hp0, ← sub_eq_add_neg, Real.exp_log (by linarith),
    Nat.cast_choose ℝ hk]
  have h1 : ((k.factorial : ℕ) : ℝ) ≠ 0 := by exact_mod_cast (Nat.factorial_pos k).ne'
  have h2 : (((n - k).factorial : ℕ) : ℝ) ≠ 0 := by exact_mod_cast (Nat.factorial_pos (n - k)).ne'
  field_simp

/-- `p = 0`: all mass at `0`; `p = 1`: all mass at `n` (the two special cases of the code) — again the textbook value. -/
theorem binomial_pmf_p_zero (F : Fns ℝ) (n k : ℕ) (hk : k ≤ n) :
    Binomial.pmf F n 0 (k : ℤ) = (n.choose k : ℝ) * (0 : ℝ) ^ k * (1 - 0) ^ (n - k) := by
  simp only [Binomial.pmf]
  rw [if_neg (by omega)]
  rcases Nat.eq_zero_or_pos k with h | h
  · subst h; simp
  · have : (k : ℝ) ≠ 0 := by exact_mod_cast h.ne'
    simp [this, h.ne']

theorem binomial_pmf_p_one (F : Fns ℝ) (n k : ℕ) (hk : k ≤ n) :
    Binomial.pmf F n 1 (k : ℤ) = (n.choose k : ℝ) * (1 : ℝ) ^ k * (1 - 1) ^ (n - k) := by
  simp only [Binomial.pmf]
  rw [if_neg (by omega)]
  rcases Nat.lt_or_ge k n with h | h
  · have hne : ((k : ℤ) : ℝ) ≠ (n : ℝ) := by
      have : (k : ℝ) ≠ (n : ℝ) := by exact_mod_cast h.ne
      simpa using this
    have : n - k ≠ 0 := by omega
    simp [this, h.ne]
  · have : k = n := le_antisymm hk h
    subst this; simp

/-- **Outside `[0, n]` the mass is `0`** — negative and too-large counts included; there is no failing outcome. -/
theorem binomial_pmf_zero_outside (F : Fns ℝ) (n : ℕ) (p : ℝ) (k : ℤ) (hk : k < 0 ∨ (n : ℤ) < k) :
    Binomial.pmf F n p k = 0 := by
  simp [Binomial.pmf, hk]

theorem binomial_pmf_nonneg (F : Fns ℝ) (n : ℕ) (p : ℝ) (k : ℤ) : 0 ≤ Binomial.pmf F n p k := by
  simp only [Binomial.pmf, transc_exp]
  split
  · exact le_rfl
  · split
    · split <;> norm_num
    · split
      · split <;> norm_num
      · exact (Real.exp_pos _).le

/-- **Binomial total mass one** (binomial theorem), `0 < p < 1`. -/
theorem binomial_pmf_sum (F : Fns ℝ) (hF : ∀ n : ℕ, Real.exp (F.lnGamma ((n : ℝ) + 1)) = (n.factorial : ℝ))
    (hL : ∀ x : ℝ, F.ln1p x = Real.log (1 + x)) (n : ℕ) (p : ℝ) (hp0 : 0 < p) (hp1 : p < 1) :
    ∑ k ∈ Finset.range (n + 1), Binomial.pmf F n p (k : ℤ) = 1 := by
  have : ∀ k ∈ Finset.range (n + 1), Binomial.pmf F n p (k : ℤ) = p ^ k * (1 - p) ^ (n - k) * (n.choose k : ℝ) := by
    intro k hk
    rw [binomial_pmf_eq F hF hL n k (by simpa [Nat.lt_succ_iff] using hk) p hp0 hp1]; ring
  rw [Finset.sum_congr rfl this, ← add_pow]
  simp

/-- Non-vacuity: the hypotheses on the special functions are met by the ideal ones (`Real.Gamma`, `Real.log (1 + ·)`). -/
example : ∑ k ∈ Finset.range (5 + 1), Binomial.pmf RF 5 (1 / 2) (k : ℤ) = 1 :=
  binomial_pmf_sum RF (realFns_lnGamma_factorial erf) (fun _ => rfl) 5 (1 / 2) (by norm_num) (by norm_num)

example : Poisson.pmf RF 3 ((2 : ℕ) : ℤ) = Real.exp (-3) * 3 ^ 2 / ((2 : ℕ).factorial : ℝ) :=
  poisson_pmf_eq RF (realFns_lnGamma_factorial erf) 3 (by norm_num) 2

/-! ## Bernoulli and DiscreteUniform: finite laws in closed form (any `p`, any bounds) -/

/-- **Bernoulli**: total mass, first moment and second central moment of the pmf are `1`, `mean()`, `var()`. -/
theorem bernoulli_moments (p : ℝ) :
    (∑ k ∈ Finset.range 2, Bernoulli.pmf p (k : ℤ) = 1) ∧
    (∑ k ∈ Finset.range 2, (k : ℝ) * Bernoulli.pmf p (k : ℤ) = Bernoulli.mean p) ∧
    (∑ k ∈ Finset.range 2, ((k : ℝ) - Bernoulli.mean p) ^ 2 * Bernoulli.pmf p (k : ℤ) = Bernoulli.var p) := by
  simp only [Finset.sum_range_succ, Finset.sum_range_zero, Bernoulli.pmf, Bernoulli.mean, Bernoulli.var]
  refine ⟨?_, ?_, ?_⟩ <;> (norm_num; try ring)

theorem bernoulli_pmf_zero_outside (p : ℝ) (k : ℤ) (h0 : k ≠ 0) (h1 : k ≠ 1) : Bernoulli.pmf p k = 0 := by
  simp [Bernoulli.pmf, h0, h1]

theorem bernoulli_pmf_nonneg (p : ℝ) (hp0 : 0 ≤ p) (hp1 : p ≤ 1) (k : ℤ) : 0 ≤ Bernoulli.pmf p k := by
  simp only [Bernoulli.pmf]
  split
  · linarith
  · split
    · exact hp0
    · exact le_rfl

/-- On the support `lo, lo+1, …, lo+n` the mass is `1/(n+1)`. -/
theorem discreteUniform_pmf_on (lo : ℤ) (n i : ℕ) (hi : i ≤ n) :
    (DiscreteUniform.pmf lo (lo + n) (lo + i) : ℝ) = 1 / ((n : ℝ) + 1) := by
  simp only [DiscreteUniform.pmf]
  rw [if_neg (by omega)]
  have : lo + (n : ℤ) - lo + 1 = ((n + 1 : ℕ) : ℤ) := by push_cast; ring
  rw [this]; push_cast; ring

/-- **DiscreteUniform on `{lo, …, lo+n}`** (every valid pair of bounds has this form): total mass, first moment and second
central moment of the pmf are `1`, `mean()`, `var()` (Gauss sums).  The range guard is the one under which the `i64` expressions
`upper - lower + 1` and `lower + upper` of the code cannot overflow (outside it the checked build panics: not modelled). -/
theorem discreteUniform_moments (lo : ℤ) (n : ℕ) (_hlo : -2 ^ 62 ≤ lo) (_hhi : lo + n < 2 ^ 62) :
    (∑ i ∈ Finset.range (n + 1), (DiscreteUniform.pmf lo (lo + n) (lo + i) : ℝ) = 1) ∧
    (∑ i ∈ Finset.range (n + 1), ((lo + i : ℤ) : ℝ) * (DiscreteUniform.pmf lo (lo + n) (lo + i) : ℝ)
      = DiscreteUniform.mean lo (lo + n)) ∧
    (∑ i ∈ Finset.range (n + 1), (((lo + i : ℤ) : ℝ) - DiscreteUniform.mean lo (lo + n)) ^ 2 *
        (DiscreteUniform.pmf lo (lo + n) (lo + i) : ℝ) = DiscreteUniform.var lo (lo + n)) := by
  have hpm : ∀ i ∈ Finset.range (n + 1), (DiscreteUniform.pmf lo (lo + n) (lo + i) : ℝ) = 1 / ((n : ℝ) + 1) := by
    intro i hi
    exact discreteUniform_pmf_on lo n i (by simpa [Nat.lt_succ_iff] using hi)
  have hn : ((n : ℝ) + 1) ≠ 0 := by positivity
  have hmean : (DiscreteUniform.mean lo (lo + n) : ℝ) = (lo : ℝ) + (n : ℝ) / 2 := by
    simp only [DiscreteUniform.mean, two_real]; push_cast; ring
  have hvar : (DiscreteUniform.var lo (lo + n) : ℝ) = (((n : ℝ) + 1) ^ 2 - 1) / 12 := by
    simp only [DiscreteUniform.var, powi_two]
    have : lo + (n : ℤ) - lo + 1 = ((n + 1 : ℕ) : ℤ) := by push_cast; ring
    rw [this]; push_cast; ring
  have s1 := sum_range_id n
  have s2 := sum_range_sq n
  refine ⟨?_, ?_, ?_⟩
  · rw [Finset.sum_congr rfl hpm, Finset.sum_const, Finset.card_range]
    simp only [nsmul_eq_mul]; push_cast; field_simp
  · rw [Finset.sum_congr rfl (fun i hi => by rw [hpm i hi]), hmean]
    have : ∀ i ∈ Finset.range (n + 1), ((lo + i : ℤ) : ℝ) * (1 / ((n : ℝ) + 1)) =
        ((lo : ℝ) + (i : ℝ)) * (1 / ((n : ℝ) + 1)) := by
      intro i _; push_cast; ring
    rw [Finset.sum_congr rfl this, ← Finset.sum_mul, Finset.sum_add_distrib, s1, Finset.sum_const, Finset.card_range]
    simp only [nsmul_eq_mul]; push_cast; field_simp
  · rw [Finset.sum_congr rfl (fun i hi => by rw [hpm i hi]), hmean, hvar]
    have : ∀ i ∈ Finset.range (n + 1), (((lo + i : ℤ) : ℝ) - ((lo : ℝ) + (n : ℝ) / 2)) ^ 2 * (1 / ((n : ℝ) + 1)) =
        ((i : ℝ) ^ 2 - (n : ℝ) * (i : ℝ) + (n : ℝ) ^ 2 / 4) * (1 / ((n : ℝ) + 1)) := by
      intro i _; push_cast; ring
    rw [Finset.sum_congr rfl this, ← Finset.sum_mul, Finset.sum_add_distrib, Finset.sum_sub_distrib, s2,
      ← Finset.mul_sum, s1, Finset.sum_const, Finset.card_range]
    simp only [nsmul_eq_mul]; push_cast; field_simp; ring

theorem discreteUniform_pmf_zero_outside (lo hi x : ℤ) (hx : x < lo ∨ hi < x) :
    (DiscreteUniform.pmf lo hi x : ℝ) = 0 := by
  simp [DiscreteUniform.pmf, hx]

theorem discreteUniform_pmf_nonneg (lo hi x : ℤ) (h : lo ≤ hi) : 0 ≤ (DiscreteUniform.pmf lo hi x : ℝ) := by
  simp only [DiscreteUniform.pmf]
  split
  · exact le_rfl
  · apply div_nonneg zero_le_one
    have : (0 : ℤ) ≤ hi - lo + 1 := by omega
    exact_mod_cast this

/-! ## Moment formulas are the textbook ones -/

/-- Closed-form means and variances of the 13 laws, as printed in the textbooks (`γ` = Euler–Mascheroni). -/
theorem moments_textbook (a b : ℝ) (k n : ℕ) (lo hi : ℤ) :
    Normal.mean a b = a ∧ Normal.var a b = b ^ 2 ∧
    Gamma.mean a b = a / b ∧ Gamma.var a b = a / b ^ 2 ∧
    Beta.mean a b = a / (a + b) ∧ Beta.var a b = a * b / ((a + b) ^ 2 * (a + b + 1)) ∧
    (ChiSquared.mean k : ℝ) = k ∧ (ChiSquared.var k : ℝ) = 2 * k ∧
    Gumbel.mean RF a b = a + b * Real.eulerMascheroniConstant ∧ Gumbel.var RF a b = Real.pi ^ 2 / 6 * b ^ 2 ∧
    Exponential.mean a = 1 / a ∧ Exponential.var a = 1 / a ^ 2 ∧
    Uniform.mean a b = (a + b) / 2 ∧ Uniform.var a b = (b - a) ^ 2 / 12 ∧
    Poisson.mean a = a ∧ Poisson.var a = a ∧
    Binomial.mean n a = n * a ∧ Binomial.var n a = n * a * (1 - a) ∧
    Bernoulli.mean a = a ∧ Bernoulli.var a = a * (1 - a) ∧
    (DiscreteUniform.mean lo hi : ℝ) = ((lo : ℝ) + hi) / 2 ∧
    (DiscreteUniform.var lo hi : ℝ) = (((hi : ℝ) - lo + 1) ^ 2 - 1) / 12 := by
  simp only [Normal.mean, Normal.var, Gamma.mean, Gamma.var, Beta.mean, Beta.var, ChiSquared.mean, ChiSquared.var,
    Gumbel.mean, Gumbel.var, Exponential.mean, Exponential.var, Uniform.mean, Uniform.var, Poisson.mean, Poisson.var,
    Binomial.mean, Binomial.var, Bernoulli.mean, Bernoulli.var, DiscreteUniform.mean, DiscreteUniform.var,
    powi_two, two_real, realFns]
  refine ⟨?_, ?_, ?_, ?_, ?_, ?_, ?_, ?_, ?_, ?_, ?_, ?_, ?_, ?_, ?_, ?_, ?_, ?_, ?_, ?_, ?_, ?_⟩ <;> push_cast <;> ring

/-- Student's t: mean `0` for `ν > 1`, undefined (`NaN`) otherwise; variance `ν/(ν-2)` for `ν > 2`, `∞` for
`1 < ν ≤ 2`, undefined otherwise. -/
theorem t_moments (ν : ℝ) :
    (1 < ν → T.mean ν = .fin 0) ∧ (ν ≤ 1 → T.mean ν = .nan) ∧
    (2 < ν → T.var ν = .fin (ν / (ν - 2))) ∧ (1 < ν → ν ≤ 2 → T.var ν = .inf) ∧ (ν ≤ 1 → T.var ν = .nan) := by
  simp only [T.mean, T.var, two_real]
  refine ⟨fun h => if_pos h, fun h => if_neg (not_lt.mpr h), fun h => if_pos h, fun h1 h2 => ?_, fun h => ?_⟩
  · rw [if_neg (not_lt.mpr h2), if_pos ⟨h1, h2⟩]
  · rw [if_neg (by linarith), if_neg (by rintro ⟨h1, _⟩; linarith)]

/-- Pareto: mean `α x_m/(α-1)` for `α > 1`, `∞` otherwise; variance `x_m² α / ((α-1)² (α-2))` for `α > 2`, `∞` otherwise. -/
theorem pareto_moments (α xm : ℝ) :
    (1 < α → Pareto.mean α xm = .fin (α * xm / (α - 1))) ∧ (α ≤ 1 → Pareto.mean α xm = .inf) ∧
    (2 < α → Pareto.var α xm = .fin (xm ^ 2 * α / ((α - 1) ^ 2 * (α - 2)))) ∧ (α ≤ 2 → Pareto.var α xm = .inf) := by
  simp only [Pareto.mean, Pareto.var, two_real, powi_two]
  exact ⟨fun h => if_neg (not_le.mpr h), fun h => if_pos h, fun h => if_neg (not_le.mpr h), fun h => if_pos h⟩

/-! ## Multivariate normal -/

/-- **MVN density formula** in terms of the cached inverse `P` and cached determinant `D` of the covariance:
`pdf x = exp (-½ Σᵢ Σⱼ (x-μ)ᵢ Pᵢⱼ (x-μ)ⱼ) / √((2π)^k D)` whenever the two asserts of `pdf` pass (`k = dim ≥ 1`).  With
`P = Σ⁻¹` and `D = det Σ` this is the textbook density.  The guard `0 < D` is needed: for `D < 0` Rust returns NaN while
`Real.sqrt` of a negative is `0`.  PARTIAL / conditional: no theorem shows that an object built by `MVN::new` has a well-formed
`k × k` inverse, `0 < D`, or that `P`, `D` are the inverse and determinant of the covariance (`Matrix::inv` / `Matrix::det` go
through the `Matrix`-level LU route, for which C01/C11 prove structure but not correctness); `mvn_new_facts` (Props/C02Review)
proves what the constructor does guarantee. -/
theorem mvn_pdf_formula_partial (d : MVN ℝ) (x : List ℝ) (k : ℕ) (hk : 0 < k) (hk64 : k < 2 ^ 64)
    (hpd : LA.M.isPositiveDefinite d.cov = true) (hx : x.length = k) (hm : d.mean.length = k)
    (hP : d.inv.WF) (hPr : d.inv.nrows = k) (hPc : d.inv.ncols = k) (_hD : 0 < d.det) :
    MVN.pdf RF d x = some (Real.exp (-(1 / 2) * mvnQuad d x k) / Real.sqrt ((2 * Real.pi) ^ k * d.det)) := by
  obtain ⟨q, hq, hqv⟩ := mvn_quadForm d x k hk hx hm hP hPr hPc
  simp only [MVN.pdf, hpd, hx, hm, hq]
  simp [realFns, powi_nat _ k hk64, hqv]

/-- `pdf` panics (no value) when the positive-definiteness assert or the length assert fails. -/
theorem mvn_pdf_rejects (F : Fns ℝ) (d : MVN ℝ) (x : List ℝ)
    (h : LA.M.isPositiveDefinite d.cov = false ∨ x.length ≠ d.mean.length) : MVN.pdf F d x = none := by
  rcases h with h | h
  · simp [MVN.pdf, h]
  · simp only [MVN.pdf]
    split <;> rfl

/-- **`ln_pdf` of the MVN is the logarithm of its `pdf`** when the cached determinant is positive. -/
theorem mvn_lnPdf_eq_log_pdf (d : MVN ℝ) (x : List ℝ) (hD : 0 < d.det) (hlen : x.length < 2 ^ 64) :
    MVN.lnPdf RF d x = (MVN.pdf RF d x).map Real.log := by
  simp only [MVN.lnPdf, MVN.pdf]
  split
  · rfl
  · split
    · rfl
    · cases hq : MVN.quadForm d x with
      | none => rfl
      | some q =>
        simp only [Option.bind_eq_bind, Option.bind_some, Option.map_some, Option.pure_def, realFns,
          transc_exp, transc_sqrt, transc_ln, half_real, two_real]
        congr 1
        rw [powi_nat _ _ hlen]
        have h2pi : (0 : ℝ) < 2 * Real.pi := by positivity
        have hpow : (0 : ℝ) < (2 * Real.pi) ^ x.length := pow_pos h2pi _
        rw [Real.log_div (Real.exp_pos _).ne' (Real.sqrt_pos.mpr (mul_pos hpow hD)).ne', Real.log_exp,
          Real.log_sqrt (mul_pos hpow hD).le, Real.log_mul hpow.ne' hD.ne', Real.log_pow]
        ring

end Cv.C02
