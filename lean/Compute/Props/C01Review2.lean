import Compute.Props.C01Review
import Compute.Props.SrcTieC15Mut
/-
C01 (second review round)

* `rowToColMajor_eq_shape`, `colToRowMajor_eq_shape`, `rowToColMajor_src`, `colToRowMajor_src`: the layout
  conversions called by the (regenerated) `solve_sys` are `Cv.LA.*`; the source tie of `row_to_col_major` /
  `col_to_row_major` is stated against `Cv.Shape.*` (C15).  The two models are the same function, so the
  regenerated Rust text equals `Cv.LA.rowToColMajor` / `Cv.LA.colToRowMajor` as well.
* `solveSys_column_backward_error`: in the standard model every column of what `solve_sys` returns is what
  `solve` returns on that column (`C01.solveSys_column` holds at every scalar type), hence satisfies the
  backward-error statement of `RoundingLU.solve_backward_error`; `invertMatrix_column_backward_error` likewise.
-/
set_option linter.unusedSectionVars false
namespace Cv.C01Review
open Cv Cv.LA Finset

section bridge
variable {α : Type} [Inhabited α] [Zero α]

theorem isMatrix_eq_shape (len r : Nat) : LA.isMatrix len r = Shape.isMatrixU len r := by
  unfold LA.isMatrix Shape.isMatrixU Shape.isMatrix
  by_cases hr : r = 0
  · simp [hr]
  · by_cases h : r * (len / r) = len <;> simp [hr, h]

theorem rd_eq_getBang (a : List α) (i : Nat) (h : i < a.length) : rd a i = a[i]! := by
  rw [rd_eq_getElem a i h, getElem!_pos a i h]

/-- `Cv.LA.rowToColMajor` (used by `solve_sys`) and `Cv.Shape.rowToColMajor` (source-tied under C15) agree. -/
theorem rowToColMajor_eq_shape (a : List α) (r : Nat) : LA.rowToColMajor a r = Shape.rowToColMajor a r := by
  unfold LA.rowToColMajor Shape.rowToColMajor
  rw [← isMatrix_eq_shape]
  cases hm : LA.isMatrix a.length r with
  | none => rfl
  | some c =>
    obtain ⟨hr, hrc⟩ := isMatrix_eq_some_iff.mp hm
    simp only [Option.bind_eq_bind, Option.bind_some, Option.pure_def, Option.map_some, Option.some.injEq]
    apply List.map_congr_left
    intro k hk
    have hk' : k < c * r := by rw [Nat.mul_comm, hrc]; exact List.mem_range.mp hk
    obtain ⟨d1, d2, -⟩ := C01.kdecomp hk'
    exact rd_eq_getBang a _ (by rw [← hrc, Nat.mul_comm r c]; exact C01.idx_lt d1 d2)

theorem colToRowMajor_eq_shape (a : List α) (r : Nat) : LA.colToRowMajor a r = Shape.colToRowMajor a r := by
  unfold LA.colToRowMajor Shape.colToRowMajor
  rw [← isMatrix_eq_shape]
  cases hm : LA.isMatrix a.length r with
  | none => rfl
  | some c =>
    obtain ⟨hr, hrc⟩ := isMatrix_eq_some_iff.mp hm
    simp only [Option.bind_eq_bind, Option.bind_some, Option.pure_def, Option.map_some, Option.some.injEq]
    apply List.map_congr_left
    intro k hk
    have hk' : k < r * c := by rw [hrc]; exact List.mem_range.mp hk
    obtain ⟨d1, d2, -⟩ := C01.kdecomp hk'
    exact rd_eq_getBang a _ (by rw [← hrc]; exact C01.idx_lt d1 d2)

end bridge

section srctie
variable {α : Type} [Add α] [Sub α] [Mul α] [Div α] [Neg α] [Zero α] [One α] [NatCast α] [IntCast α]
  [LT α] [DecidableLT α] [LE α] [DecidableLE α] [BEq α] [Cv.Transc α] [Inhabited α]

/-- the Rust text of `row_to_col_major`, regenerated on every run, is the function `solve_sys`'s model calls -/
theorem rowToColMajor_src (a : List α) (r : Nat) :
    Cv.Src.C15Mut.rowToColMajor a r = LA.rowToColMajor a r := by
  rw [Cv.SrcTie.C15Mut.rowToColMajor_eq, rowToColMajor_eq_shape]

theorem colToRowMajor_src (a : List α) (r : Nat) :
    Cv.Src.C15Mut.colToRowMajor a r = LA.colToRowMajor a r := by
  rw [Cv.SrcTie.C15Mut.colToRowMajor_eq, colToRowMajor_eq_shape]

example : LA.rowToColMajor ([1, 2, 3, 4, 5, 6] : List ℚ) 2 = some [1, 4, 2, 5, 3, 6] ∧
    Shape.rowToColMajor ([1, 2, 3, 4, 5, 6] : List ℚ) 2 = some [1, 4, 2, 5, 3, 6] :=
  ⟨by decide +kernel, by rw [← rowToColMajor_eq_shape]; decide +kernel⟩

example : M.solveV (⟨[1, 2, 3, 4, 5, 6], 2, 3⟩ : Mat ℚ) [1, 1] = none :=
  matrix_solveV_nonsquare _ _ (by decide)

end srctie

/-! ### rounded model: the multi-right-hand-side slice solvers, column by column -/
section rounded
open Cv.FlModel Cv.RoundingLU Cv.FactorRounding Cv.LA.Lu
variable {Mo : FlModel} [FlSqrt Mo]

/-- **`solve_sys` column by column in the standard model.**  If `solve_sys a b = some x` (any number of
right-hand sides) then for every column `c`, `solve a b[·,c] = some x[·,c]` — exactly, as lists of rounded
numbers — and therefore `x[·,c]` satisfies the backward-error statement of `solve_backward_error`
(same provisos: `n ≥ 2`, `(3n+1)u < 1`, LU branch only when no computed pivot is zero, no overflow/underflow). -/
theorem solveSys_column_backward_error (a b x : List (Fl Mo)) (n : Nat) (ha : a.length = n * n) (hn : 2 ≤ n)
    (h : solveSys a b = some x) (hu : ((3 * n + 1 : Nat) : ℝ) * Mo.u < 1) :
    ∃ nsys, n * nsys = b.length ∧ ∀ c, c < nsys →
      solve a (C01.column b n nsys c) = some (C01.column x n nsys c) ∧
      ((∃ l, cholLoops n a = some l ∧ Symm n a ∧ (C01.column x n nsys c).length = n ∧ ∃ ΔA : Nat → Nat → ℝ,
          (∀ i m, i < n → m < n →
            |ΔA i m| ≤ Mo.γ (3 * n + 1) * ∑ j ∈ range n, |ev n l i j| * |ev n l m j|) ∧
          ∀ i, i < n → ∑ m ∈ range n, (ev n a i m + ΔA i m) * (rd (C01.column x n nsys c) m).val =
            (rd (C01.column b n nsys c) i).val) ∨
       (∃ f piv, lu a = some (f, piv) ∧ ((∀ k, k < n → ev n f k k ≠ 0) →
          (C01.column x n nsys c).length = n ∧ piv.Perm (List.range n) ∧ ∃ ΔA : Nat → Nat → ℝ,
          (∀ i m, i < n → m < n →
            |ΔA i m| ≤ Mo.γ (3 * n) * ∑ j ∈ range n, |Lv n f i j| * |Uv n f j m|) ∧
          ∀ i, i < n → ∑ m ∈ range n, (ev n a (piv.getD i 0) m + ΔA i m) * (rd (C01.column x n nsys c) m).val =
            (rd (C01.column b n nsys c) (piv.getD i 0)).val))) := by
  obtain ⟨n', nsys, l?, hn', -, hnb, -, -, hcols⟩ := C01.solveSys_column a b x h
  have e : n' = n := Nat.mul_self_inj.mp (by rw [hn', ha])
  subst e
  refine ⟨nsys, hnb, fun c hc => ?_⟩
  have hs := (hcols c hc).2
  exact ⟨hs, (solve_backward_error a _ _ n' ha hn hs hu).2⟩

/-- `invert_matrix` is `solve_sys` against the identity, so each column of the computed inverse is `solve a e_c` -/
theorem invertMatrix_column (a x : List (Fl Mo)) (n : Nat) (ha : a.length = n * n)
    (h : invertMatrix a = some x) :
    ∀ c, c < n → solve a (C01.column (identity n) n n c) = some (C01.column x n n c) := by
  rw [C01.invertMatrix_eq_solveSys, ha, isSquare_sq] at h
  simp only [Option.bind_some] at h
  obtain ⟨n', nsys, l?, hn', hn0, hnb, -, -, hcols⟩ := C01.solveSys_column a (identity n) x h
  have e : n' = n := Nat.mul_self_inj.mp (by rw [hn', ha])
  subst e
  have hns : nsys = n' := by
    have : n' * nsys = n' * n' := by rw [hnb]; simp [identity]
    exact Nat.eq_of_mul_eq_mul_left (Nat.pos_of_ne_zero hn0) this
  subst hns
  intro c hc
  exact (hcols c hc).2

end rounded

/-! non-vacuity: two right-hand sides in the model where every operation is 1 % off -/
section examples
open Cv.RoundingLU.Examples Cv.RoundingLU

example : ∀ x, solveSys A3 [⟨1⟩, ⟨2⟩, ⟨1⟩, ⟨0⟩] = some x →
    ∀ c, c < 2 → solve A3 (C01.column [⟨1⟩, ⟨2⟩, ⟨1⟩, ⟨0⟩] 2 2 c) = some (C01.column x 2 2 c) := by
  intro x h c hc
  obtain ⟨nsys, hnb, hcols⟩ := solveSys_column_backward_error A3 _ x 2 rfl (by omega) h (by rw [Minf_u]; norm_num)
  have : nsys = 2 := by simp at hnb; omega
  subst this
  exact (hcols c hc).1

-- (the hypothesis `solveSys … = some x` is satisfiable at the scalar types where it can be evaluated:
-- `C01.solveSys_column`'s example `solveSys [2,1,0,3] [5,3,9,3] = some [1,1,3,1]` over ℚ; `solveSys_column`
-- itself is stated for every scalar type, which is what carries it to `Fl`)

end examples
end Cv.C01Review
