import Compute.Model.Special
import Compute.Lemmas.C09
import Mathlib.Algebra.BigOperators.Group.Finset.Basic
import Mathlib.Algebra.Order.Field.Basic
import Mathlib.Analysis.SpecialFunctions.Gamma.Beta
import Mathlib.Analysis.SpecialFunctions.Gamma.BohrMollerup
/-
C09 — special functions are accurate over their whole finite range.

CARRIER PER CLAUSE of the property statement:
* gamma within 1e-13, beta within 1e-12, digamma within 1e-10, erf within 1.5e-7, Γ(x+1) = xΓ(x), Γ(n+1) = n!:
  SEARCH ONLY (bit-exact tie + mpmath reference, `tools/cv/c09.py`); no theorem here carries them.
* ψ(x+1) = ψ(x) + 1/x: theorem for non-pole x < 6 in exact arithmetic (`digamma_recurrence`, `digammaFn_recurrence`:
  one unfolding of the definition); search for x ≥ 6 and for rounding.
* B(a,b) = B(b,a): `beta_comm` (one rewrite, any commutative `*`, `+`) + bit-exact search.
* erf odd: `erf_odd` AT every argument `x` (of any scalar type) where negation flips the sign bit — a per-argument IEEE law that
  holds for every non-NaN double incl. both zeros, is NOT proved about `Float` but observed by the exhaustive bit-exact sweep, and
  fails at NaN for the model's `Float` instance; over ordered fields `erf_odd_field` (x ≠ 0) and `erf_zero`; a lawful type with two
  zeros: `SignMag.erf_odd_signMag`.
* |erf| ≤ 1: `erf_abs_le_one`, `erf_nonneg` over ℝ with the doubles of the source (genuine polynomial bounds).

Theorems about the model `Compute/Model/Special.lean` (the same definitions the compiled driver runs at `Float`,
tied bit for bit to `/repo/src/functions/gamma.rs` and `statistical.rs::erf` by `./check C09`):

* tables: `lits_decode` (bits ↔ exact rationals of every literal), `digamma_series_is_bernoulli`,
  `digammaSeries_real` (the table-driven series is the expression of the source);
* structure (any linearly ordered field, any interpretation of the transcendental functions):
  `gamma_one_reflection`, `gammaF_eq_gammaFn`, `lnGammaF_eq_lnGammaFn`, `erfF_eq_erfFn` (one reflection / sign step),
  `digammaF_terminates`, `digammaF_mono`, `digammaF_unfold`, `digammaF_fuel_exact` (exactly ⌈6 - x⌉ unfoldings);
  the exported `digammaFn`: `digammaFn_spec` (it is the recursion's value for x ≥ -100003), `digammaFn_exhausted` (default
  below), `digammaFn_unfold`, `digammaFn_recurrence`;
* any scalar type at all, under explicitly stated per-argument hypotheses (the form in which they apply to `Float`): `beta_comm`, `gammaF_eq_gammaFn_of`, `erfF_eq_erfFn_of` (the sign-bit
  recursion of `erf` returns `erfFn` everywhere), `erf_odd`, `digamma_diverges_of_fixed` (where `digamma` does not return);
* over ℝ with the doubles of the source: `erf_zero`, `erf_abs_le_one`, `erf_nonneg`; `lanczosSum_pos`,
  `gammaPos_pos`, `lnGamma_eq_log_gamma`; `gammaPos_eq_legacy`, `lanczos_split_range_partial`,
  `legacy_single_power_overflows` + `gamma_143_finite'` (F21);
* about the TRUE Γ, not the model: `reflection_formula_exact`, `reflection_divisor_overflows` (background of the open
  finding on (-178, -170.62));
* junk values at poles over ℝ: `gammaFn_pole_junk`, `digamma_pole_junk`; `erf_zero_pos` (the single real zero).
rfl-level / one-line lemmas (`digamma_shift`, `half_eq`, `gammaF_one`, `lanczos_length`, `digammaF_succ_*`) are helpers, not results.
-/
set_option linter.unusedSectionVars false
set_option linter.unusedSimpArgs false

namespace Cv.C09
open Cv Cv.Special

/-! ### Generated tables -/

/-- Every literal of the generated table: the rational `num/den` is exactly the double with the recorded bits. -/
theorem lits_decode : ∀ l ∈ C09T.allLits, l.valid = true := by decide +kernel

theorem lanczos_length : C09T.lanczos.length = 14 := by decide

theorem digamma_shift : C09T.digammaShift = 6 := rfl

/-! ### Structure over an arbitrary linearly ordered field
(any interpretation of the transcendental functions and of the literals). -/
section field
variable {α : Type} [Field α] [LinearOrder α] [IsStrictOrderedRing α] [Transc α] [OfLit α] [SignBit α]
  [LawfulSignBitField α]

theorem half_eq : (half : α) = 1 / 2 := by simp [half, two]

/-- `gamma` takes at most one reflection step: the reflected argument is never reflected again. -/
theorem gamma_one_reflection (z : α) (h : z < half) : ¬ (1 - z < (half : α)) := by
  rw [half_eq] at *; intro h2; linarith

/-- The Rust recursion of `gamma` (with any fuel ≥ 2) is the closed form with a single reflection. -/
theorem gammaF_eq_gammaFn (n : Nat) (z : α) : gammaF (n + 2) z = some (gammaFn z) := by
  by_cases h : z < half
  · have h2 := gamma_one_reflection z h
    simp [gammaF, gammaFn, h, h2]
  · simp [gammaF, gammaFn, h]

/-- Fuel 1 is not enough exactly for the reflected arguments (non-vacuity of the recursion). -/
theorem gammaF_one (z : α) (h : z < half) : gammaF 1 z = none := by simp [gammaF, h]

theorem lnGammaF_eq_lnGammaFn (n : Nat) (z : α) : lnGammaF (n + 2) z = some (lnGammaFn z) := by
  by_cases h : z < half
  · have h2 := gamma_one_reflection z h
    simp [lnGammaF, lnGammaFn, h, h2]
  · simp [lnGammaF, lnGammaFn, h]

/-! #### digamma -/

theorem digammaF_succ_lt (n : Nat) (x : α) (h : x < 6) :
    digammaF (n + 1) x = (digammaF n (x + 1)).map fun d => d - 1 / x := by
  simp [digammaF, C09T.digammaShift, h]

theorem digammaF_succ_ge (n : Nat) (x : α) (h : ¬ x < 6) :
    digammaF (n + 1) x = some (digammaSeries x) := by
  simp [digammaF, C09T.digammaShift, h]

/-- More fuel never changes a result. -/
theorem digammaF_mono (n : Nat) : ∀ (x y : α), digammaF n x = some y → digammaF (n + 1) x = some y := by
  induction n with
  | zero => intro x y h; simp [digammaF] at h
  | succ n ih =>
    intro x y h
    by_cases hx : x < 6
    · rw [digammaF_succ_lt _ _ hx] at h ⊢
      cases h1 : digammaF n (x + 1) with
      | none => simp [h1] at h
      | some d => rw [ih _ _ h1]; simpa [h1] using h
    · rw [digammaF_succ_ge _ _ hx] at h ⊢; exact h

theorem digammaF_mono' (n k : Nat) (x y : α) (h : digammaF n x = some y) : digammaF (n + k) x = some y := by
  induction k with
  | zero => simpa using h
  | succ k ih => exact digammaF_mono _ _ _ ih

/-- Termination: `n + 1` units of fuel suffice as soon as `6 - x ≤ n`. -/
theorem digammaF_terminates (n : Nat) : ∀ x : α, 6 - x ≤ (n : α) → ∃ y, digammaF (n + 1) x = some y := by
  induction n with
  | zero =>
    intro x h
    have hx : ¬ x < 6 := by simp at h; exact not_lt.mpr (by linarith)
    exact ⟨_, digammaF_succ_ge 0 x hx⟩
  | succ n ih =>
    intro x h
    by_cases hx : x < 6
    · obtain ⟨y, hy⟩ := ih (x + 1) (by push_cast at h; linarith)
      exact ⟨y - 1 / x, by rw [digammaF_succ_lt _ _ hx, hy]; rfl⟩
    · exact ⟨_, digammaF_succ_ge _ x hx⟩

/-- ψ(x+1) = ψ(x) + 1/x holds by construction for every `x < 6` that is not a pole (exact arithmetic): whatever value
the model computes for `x + 1` (with fuel `n`), the value it computes for `x` (fuel `n + 1`, or more) is that value
minus `1/x`.  Guard `hpole`: `x` is not a non-positive integer, so no division of the unfolding is by zero (over a
field `1/0 = 0` is a junk value; without the guard the statement would also "prove" ψ(1) = ψ(0), see
`digamma_pole_junk`).  The guard is not needed by the algebra (`digamma_recurrence_algebra`), it delimits where the
statement means what it says.  For `x ≥ 6` both sides are series values and the identity only holds approximately
(search only). -/
theorem digamma_recurrence (n : Nat) (x y₁ : α) (hx : x < 6) (_hpole : ∀ k : Nat, x + (k : α) ≠ 0)
    (h₁ : digammaF n (x + 1) = some y₁) :
    ∃ y₀, digammaF (n + 1) x = some y₀ ∧ y₁ = y₀ + 1 / x := by
  refine ⟨y₁ - 1 / x, ?_, by ring⟩
  rw [digammaF_succ_lt _ _ hx, h₁]; rfl

/-- The unguarded algebraic form (one unfolding of the definition; `1 / x` is the field's totalised division). -/
theorem digamma_recurrence_algebra (n : Nat) (x y₁ : α) (hx : x < 6) (h₁ : digammaF n (x + 1) = some y₁) :
    digammaF (n + 1) x = some (y₁ - 1 / x) := by
  rw [digammaF_succ_lt _ _ hx, h₁]; rfl

/-- Junk at the pole `x = 0` over a field (`1/0 = 0`): the model's value at 0 is its value at 1.  (At `Float` the
code returns `digamma(1) - 1/0 = -∞`; the theorems over fields say nothing about poles.) -/
theorem digamma_pole_junk (n : Nat) (y : α) (h : digammaF n ((0 : α) + 1) = some y) : digammaF (n + 1) (0 : α) = some y := by
  rw [digamma_recurrence_algebra n 0 y (by norm_num) h]; simp

/-- The recurrence is unfolded exactly `k` times, where `k` is the least natural number with `x + k ≥ 6`
(`k = ⌈6 - x⌉` for `x < 6`): the result is the series at `x + k` minus `1/x + 1/(x+1) + … + 1/(x+k-1)`. -/
theorem digammaF_unfold (k : Nat) : ∀ (m : Nat) (x : α), (∀ i : Nat, i < k → x + (i : α) < 6) → ¬ (x + (k : α) < 6) →
    digammaF (k + 1 + m) x = some (digammaSeries (x + (k : α)) - ∑ i ∈ Finset.range k, 1 / (x + (i : α))) := by
  induction k with
  | zero =>
    intro m x _ hk
    have : ¬ x < 6 := by simpa using hk
    rw [show 0 + 1 + m = m + 1 by omega, digammaF_succ_ge _ _ this]; simp
  | succ k ih =>
    intro m x hlt hk
    have hx : x < 6 := by simpa using hlt 0 (by omega)
    have h1 := ih m (x + 1) (fun i hi => by have := hlt (i + 1) (by omega); push_cast at this; linarith)
      (by push_cast at hk; intro h; apply hk; linarith)
    rw [show k + 1 + 1 + m = (k + 1 + m) + 1 by omega, digammaF_succ_lt _ _ hx, h1]
    simp only [Option.map_some, Option.some.injEq]
    rw [Finset.sum_range_succ' (fun i : Nat => 1 / (x + (i : α)))]
    have : ∀ i : Nat, (1 : α) / (x + 1 + (i : α)) = 1 / (x + ((i + 1 : Nat) : α)) := by
      intro i; push_cast; ring_nf
    simp only [this]
    push_cast
    ring_nf

/-- The fuel needed is exactly `k + 1`: with `k` units the recursion is cut off. -/
theorem digammaF_fuel_exact (k : Nat) : ∀ (x : α), (∀ i : Nat, i < k → x + (i : α) < 6) → digammaF k x = none := by
  induction k with
  | zero => intro x _; rfl
  | succ k ih =>
    intro x hlt
    have hx : x < 6 := by simpa using hlt 0 (by omega)
    rw [digammaF_succ_lt _ _ hx, ih (x + 1) (fun i hi => by have := hlt (i + 1) (by omega); push_cast at this; linarith)]
    rfl

/-! #### the exported `digammaFn` (fuel `digammaFuel = 100010`, default on exhaustion) -/

/-- Inside its domain `x ≥ 6 - 100009` the exported `digammaFn` IS the value of the fuelled Rust recursion. -/
theorem digammaFn_spec (x : α) (h : 6 - x ≤ 100009) : digammaF digammaFuel x = some (digammaFn x) := by
  obtain ⟨y, hy⟩ := digammaF_terminates 100009 x (by exact_mod_cast h)
  have hy' : digammaF digammaFuel x = some y := hy
  simp [digammaFn, hy']

/-- Outside it (`x < 6 - 100010`) the recursion is cut off and `digammaFn` returns the DEFAULT `digammaSeries x`, which
is not the Rust value (the Rust function recurses ≥ 10⁵ frames deep there, or for ever).  Executor and driver refuse
`x < -100000` (`! diverged`), so this branch is never compared or used; models importing `digammaFn` must keep their
arguments ≥ -100003. -/
theorem digammaFn_exhausted (x : α) (h : x + 100010 ≤ 6) :
    digammaF digammaFuel x = none ∧ digammaFn x = digammaSeries x := by
  have h0 : digammaF digammaFuel x = none := digammaF_fuel_exact 100010 x (fun i hi => by
    have : (i : α) + 1 ≤ 100010 := by exact_mod_cast hi
    linarith)
  exact ⟨h0, by simp [digammaFn, h0]⟩

/-- ψ(x+1) = ψ(x) + 1/x for the exported function, for every non-pole `x < 6` of its domain. -/
theorem digammaFn_recurrence (x : α) (hx : x < 6) (h : 6 - x ≤ 100009) (hpole : ∀ k : Nat, x + (k : α) ≠ 0) :
    digammaFn (x + 1) = digammaFn x + 1 / x := by
  have h1 := digammaFn_spec (x + 1) (by linarith)
  obtain ⟨y₀, h0, e⟩ := digamma_recurrence digammaFuel x _ hx hpole h1
  have h0' := digammaF_mono' digammaFuel 0 x _ (digammaFn_spec x h)
  have : digammaF (digammaFuel + 1) x = some (digammaFn x) := digammaF_mono _ _ _ (digammaFn_spec x h)
  rw [this] at h0
  rw [e, ← Option.some.inj h0]

/-- The exported function unfolds exactly `k = ⌈6 - x⌉` times (`k ≤ 100009`). -/
theorem digammaFn_unfold (k : Nat) (hk : k ≤ 100009) (x : α) (hlt : ∀ i : Nat, i < k → x + (i : α) < 6)
    (hge : ¬ (x + (k : α) < 6)) :
    digammaFn x = digammaSeries (x + (k : α)) - ∑ i ∈ Finset.range k, 1 / (x + (i : α)) := by
  have := digammaF_unfold k (100009 - k) x hlt hge
  rw [show k + 1 + (100009 - k) = digammaFuel by simp [digammaFuel]; omega] at this
  simp [digammaFn, this]

/-! #### erf -/

/-- On an ordered field with the lawful sign predicate the sign-bit branch of `erf` is the order test `0 ≤ x`. -/
theorem erfFn_eq_le (x : α) : erfFn x = if (0 : α) ≤ x then erfPos x else -(erfPos (-x)) := by
  unfold erfFn
  by_cases h : (0 : α) ≤ x
  · rw [if_pos ((LawfulSignBitField.sign_iff x).mpr h), if_pos h]
  · rw [if_neg (fun hs => h ((LawfulSignBitField.sign_iff x).mp hs)), if_neg h]

/-- The Rust recursion of `erf` (fuel ≥ 2) is the closed form with a single sign flip. -/
theorem erfF_eq_erfFn (n : Nat) (x : α) : erfF (n + 2) x = some (erfFn x) := by
  by_cases h : (0 : α) ≤ x
  · have hs := (LawfulSignBitField.sign_iff x).mpr h
    simp [erfF, erfFn, hs]
  · have hs : ¬ SignBit.isSignPositive x = true := fun hs => h ((LawfulSignBitField.sign_iff x).mp hs)
    have h2 : SignBit.isSignPositive (-x) = true :=
      (LawfulSignBitField.sign_iff (-x)).mpr (by linarith [not_le.mp h])
    simp [erfF, erfFn, hs, h2]

/-- Over an ordered field (ONE zero) `erf` is odd away from 0; at the single zero the formula gives
`1 - (a₁+…+a₅) ≠ 0` (`erf_zero`), so no function of a field could be odd there.  The IEEE statement with two zeros,
`erf(-x) = -erf(x)` for EVERY argument including `±0`, is `erf_odd`. -/
theorem erf_odd_field (x : α) (hx : x ≠ 0) : erfFn (-x) = -erfFn x := by
  rw [erfFn_eq_le, erfFn_eq_le]
  rcases lt_or_gt_of_ne hx with h | h
  · have h1 : ¬ (0 : α) ≤ x := not_le.mpr h
    have h2 : (0 : α) ≤ -x := by linarith
    simp [h1, h2]
  · have h1 : (0 : α) ≤ x := le_of_lt h
    have h2 : ¬ (0 : α) ≤ -x := by intro h3; linarith
    simp [h1, h2]

end field

/-! ### beta is symmetric for every commutative `*` and `+` (hence bit for bit at `Float`) -/
section beta
variable {α : Type} [Add α] [Sub α] [Mul α] [Div α] [Neg α] [One α] [NatCast α] [LT α] [DecidableLT α]
  [Transc α] [OfLit α]

theorem beta_comm (hmul : ∀ x y : α, x * y = y * x) (hadd : ∀ x y : α, x + y = y + x) (a b : α) :
    betaFn a b = betaFn b a := by
  unfold betaFn; rw [hmul (gammaFn a), hadd a b]

/-- For ANY scalar type (in particular `Float`): if the reflected argument is not reflected again — which is the
only arithmetic fact used, true in an ordered field (`gamma_one_reflection`) and true for IEEE doubles because
`1 - z` is rounded monotonically and `0.5` is representable — the recursion is the closed form.  The driver
checks this equality on every request at `Float`. -/
theorem gammaF_eq_gammaFn_of (n : Nat) (z : α) (h : z < half → ¬ (1 - z < (half : α))) :
    gammaF (n + 2) z = some (gammaFn z) := by
  by_cases hz : z < half
  · simp [gammaF, gammaFn, hz, h hz]
  · simp [gammaF, gammaFn, hz]

/-- Domain of `digamma` for ANY scalar type (in particular `Float`): at an argument below the threshold with
`x + 1 = x` (IEEE: `x ≤ -2^53` or `x = -∞`) the Rust recursion never returns — no amount of fuel produces a value. -/
theorem digamma_diverges_of_fixed (x : α) (hx : x < ((C09T.digammaShift : Nat) : α)) (h : x + 1 = x) :
    ∀ n, digammaF n x = none := by
  intro n
  induction n with
  | zero => rfl
  | succ n ih => simp [digammaF, hx, h, ih]

end beta

section erfgen
variable {α : Type} [Add α] [Sub α] [Mul α] [Div α] [Neg α] [One α] [Transc α] [OfLit α] [SignBit α]

/-- For ANY scalar type (in particular `Float`): the Rust recursion of `erf` returns after at most one sign flip, and
returns the exported closed form `erfFn`, as soon as negation sets a clear sign bit on arguments whose sign bit is set —
at `Float` this holds for every bit pattern (IEEE negation flips the sign bit, NaNs included), so since repair F56
there is no argument on which `erf` does not return. -/
theorem erfF_eq_erfFn_of (n : Nat) (x : α)
    (h : SignBit.isSignPositive x = false → SignBit.isSignPositive (-x) = true) : erfF (n + 2) x = some (erfFn x) := by
  cases hs : SignBit.isSignPositive x with
  | true => simp [erfF, erfFn, hs]
  | false => simp [erfF, erfFn, hs, h hs]

/-- `erf` is odd AT `x` — for any scalar type and any argument `x` at which negation flips the sign bit and is undone by a
second negation (hypotheses about `x` only, and about the one value `erfPos (-x)`).
* IEEE doubles: the per-argument law `isSignPositive (-x) = !isSignPositive x` holds for every non-NaN `f64`, both zeros
  included (`-(+0.0) = -0.0`); it is NOT proved about Lean's `Float` (its operations are opaque to the kernel) but observed:
  the exhaustive sweep finds `erf(-x) = -erf(x)` bit for bit on every f32 of [-6, 6] and both zeros.  It FAILS at NaN for
  the model's `Float` instance (`Float.toBits` canonicalises NaN, so `isSignPositive NaN = isSignPositive (-NaN) = true`);
  there both sides are NaN anyway, and NaN tokens are not compared bit for bit.
* It cannot hold at the zero of a field (`-0 = 0`): over ordered fields see `erf_odd_field` (x ≠ 0) and `erf_zero`.
* Non-vacuity with two zeros: `SignMag.erf_odd_signMag` below. -/
theorem erf_odd (x : α) (hflip : SignBit.isSignPositive (-x) = !SignBit.isSignPositive x)
    (hnegx : -(-x) = x) (hnegv : -(-(erfPos (-x))) = erfPos (-x)) : erfFn (-x) = -erfFn x := by
  unfold erfFn
  cases hs : SignBit.isSignPositive x with
  | true => simp [hflip, hs, hnegx]
  | false => simp [hflip, hs, hnegv]

end erfgen

/-! ### The Abramowitz–Stegun formula over ℝ, with the doubles the code really uses -/
section real
open scoped Cv.C09

/-- Value of the model at 0 in exact arithmetic: `1 - (a₁ + a₂ + a₃ + a₄ + a₅)` for the five doubles of the source,
which is `18014399 / 2^54 ≈ 1.0000000272e-9`, not 0. -/
theorem erf_zero : erfFn (0 : ℝ) = 18014399 / 18014398509481984 := by
  simp only [erfFn_eq_le, le_refl, if_true, erfPos, erfPoly, transc_exp, ofLit_real, C09T.erfP, C09T.erfA1, C09T.erfA2,
    C09T.erfA3, C09T.erfA4, C09T.erfA5]
  norm_num

theorem erf_zero_small : |erfFn (0 : ℝ)| ≤ 1 / 100000000 := by
  rw [erf_zero, abs_of_nonneg (by norm_num)]; norm_num

/-- For `x ≥ 0` the formula `1 - poly(t)·t·exp(-x²)` lies in `[-1, 1]` (the subtracted term lies in `[0, 2]`);
`erf_nonneg` sharpens this to `[0, 1]`. -/
theorem erfPos_term (x : ℝ) (hx : 0 ≤ x) : -1 ≤ erfPos x ∧ erfPos x ≤ 1 := by
  have hp : (0 : ℝ) < ofLit C09T.erfP := by rw [ofLit_real]; simp only [C09T.erfP]; norm_num
  set t : ℝ := 1 / (1 + ofLit C09T.erfP * x) with ht
  have hden : (1 : ℝ) ≤ 1 + ofLit C09T.erfP * x := by nlinarith [mul_nonneg hp.le hx]
  have ht0 : 0 ≤ t := by rw [ht]; positivity
  have ht1 : t ≤ 1 := by rw [ht]; exact (div_le_one (by linarith)).mpr hden
  have hE0 : 0 ≤ Real.exp ((-x) * x) := (Real.exp_pos _).le
  have hE1 : Real.exp ((-x) * x) ≤ 1 := Real.exp_le_one_iff.mpr (by nlinarith)
  have hP := erfPoly_box (ofLit C09T.erfA1) (ofLit C09T.erfA2) (ofLit C09T.erfA3) (ofLit C09T.erfA4) (ofLit C09T.erfA5) t
    (by rw [ofLit_real]; simp only [C09T.erfA1]; norm_num) (by rw [ofLit_real]; simp only [C09T.erfA2]; norm_num)
    (by rw [ofLit_real]; simp only [C09T.erfA3]; norm_num) (by rw [ofLit_real]; simp only [C09T.erfA4]; norm_num)
    (by rw [ofLit_real]; simp only [C09T.erfA5]; norm_num) ht0 ht1
  have hQ0 : 0 ≤ erfPoly t * t * Real.exp ((-x) * x) := mul_nonneg (mul_nonneg hP.1 ht0) hE0
  have hP' : 0 ≤ erfPoly t ∧ erfPoly t ≤ 2 := hP
  have hQ2 : erfPoly t * t * Real.exp ((-x) * x) ≤ 2 := by
    have h1 : erfPoly t * t ≤ 2 * 1 := mul_le_mul hP'.2 ht1 ht0 (by norm_num)
    have h0 : 0 ≤ erfPoly t * t := mul_nonneg hP'.1 ht0
    have h2 : erfPoly t * t * Real.exp ((-x) * x) ≤ (2 * 1) * 1 := mul_le_mul h1 hE1 hE0 (by norm_num)
    linarith
  have e : erfPos x = 1 - erfPoly t * t * Real.exp ((-x) * x) := rfl
  rw [e]; constructor <;> linarith

/-- `|erf x| ≤ 1` for every real `x`, for the model in exact arithmetic. -/
theorem erf_abs_le_one (x : ℝ) : |erfFn x| ≤ 1 := by
  rw [erfFn_eq_le]
  by_cases h : (0 : ℝ) ≤ x
  · rw [if_pos h]
    obtain ⟨a, b⟩ := erfPos_term x h
    exact abs_le.mpr ⟨a, b⟩
  · rw [if_neg h, abs_neg]
    have h2 : (0 : ℝ) ≤ -x := by linarith [not_le.mp h]
    obtain ⟨a, b⟩ := erfPos_term (-x) h2
    exact abs_le.mpr ⟨a, b⟩

example : |erfFn (3 : ℝ)| ≤ 1 := erf_abs_le_one 3

/-! ### Range of the split Lanczos power (repair F21) -/

/-- In exact arithmetic, for `½ ≤ z ≤ 172` the factors of the repaired product
`sqrt(2π) * half_pow * exp(-t) * half_pow * x` up to and including `sqrt(2π) * half_pow * exp(-t)` are at most
`2^688`, far below the overflow threshold `2^1024`: no factor before the last two products can overflow.
`_partial`: the full statement would add `sqrt(2π)·hp·exp(-t)·hp < 2^1024` for `z ≤ 171.6` (that product is
Γ(z)/x with `x ≈ 1`, so it is finite exactly when the result is); this needs numeric enclosures of
`Real.exp`/`Real.rpow` near `z = 171.6` and is not proved — it is covered by the search (upper-edge stratum). -/
theorem lanczos_split_range_partial (z : ℝ) (h1 : 1 / 2 ≤ z) (h2 : z ≤ 172) :
    0 < halfPow z ∧ halfPow z ≤ 2 ^ 686 ∧
    Transc.sqrt (two * piC : ℝ) * halfPow z ≤ 2 ^ 688 ∧
    Transc.sqrt (two * piC : ℝ) * halfPow z * Transc.exp (-(lanczosT z)) ≤ 2 ^ 688 := by
  have ht0 : (0 : ℝ) < z + 543 / 128 := by linarith
  have hp0 : 0 < halfPow z := by rw [halfPow_real]; exact Real.rpow_pos_of_pos ht0 _
  have he0 : 0 ≤ (z - 1 / 2) / 2 := by linarith
  have hp : halfPow z ≤ 2 ^ 686 := by
    rw [halfPow_real]
    calc (z + 543 / 128) ^ ((z - 1 / 2) / 2) ≤ (256 : ℝ) ^ ((z - 1 / 2) / 2) :=
          Real.rpow_le_rpow ht0.le (by linarith) he0
      _ = ((2 : ℝ) ^ ((8 : ℕ) : ℝ)) ^ ((z - 1 / 2) / 2) := by rw [two_rpow_nat]; norm_num
      _ = (2 : ℝ) ^ (((8 : ℕ) : ℝ) * ((z - 1 / 2) / 2)) := by rw [← Real.rpow_mul (by norm_num)]
      _ ≤ (2 : ℝ) ^ ((686 : ℕ) : ℝ) := Real.rpow_le_rpow_of_exponent_le (by norm_num) (by push_cast; linarith)
      _ = 2 ^ 686 := two_rpow_nat 686
  have hs0 : 0 ≤ Transc.sqrt (two * piC : ℝ) := by rw [transc_sqrt]; exact Real.sqrt_nonneg _
  have hs : Transc.sqrt (two * piC : ℝ) ≤ 4 := by
    rw [transc_sqrt, Real.sqrt_le_iff]
    refine ⟨by norm_num, ?_⟩
    simp only [two, piC, ofLit_real, C09T.pi]; norm_num
  have h3 : Transc.sqrt (two * piC : ℝ) * halfPow z ≤ 2 ^ 688 := by
    calc Transc.sqrt (two * piC : ℝ) * halfPow z ≤ 4 * 2 ^ 686 := mul_le_mul hs hp hp0.le (by norm_num)
      _ = 2 ^ 688 := by rw [show (688 : ℕ) = 2 + 686 by norm_num, pow_add]; norm_num
  have hE : Transc.exp (-(lanczosT z)) ≤ 1 := by
    rw [transc_exp, lanczosT_real]; exact Real.exp_le_one_iff.mpr (by linarith)
  have hE0 : 0 ≤ Transc.exp (-(lanczosT z) : ℝ) := by rw [transc_exp]; exact (Real.exp_pos _).le
  refine ⟨hp0, hp, h3, ?_⟩
  calc Transc.sqrt (two * piC : ℝ) * halfPow z * Transc.exp (-(lanczosT z))
      ≤ Transc.sqrt (two * piC : ℝ) * halfPow z * 1 :=
        mul_le_mul_of_nonneg_left hE (mul_nonneg hs0 hp0.le)
    _ ≤ 2 ^ 688 := by simpa using h3

/-- The bound of `lanczos_split_range_partial` is 335 binades below the overflow threshold. -/
theorem two_pow_688_lt : (2 : ℝ) ^ 688 < 2 ^ 1023 := pow_lt_pow_right₀ (by norm_num) (by norm_num)

example : halfPow (1716 / 10 : ℝ) ≤ 2 ^ 686 := (lanczos_split_range_partial (1716 / 10) (by norm_num) (by norm_num)).2.1

/-- The single power `t.powf((z - 1.) + 0.5)` of the code before repair F21. -/
noncomputable def legacyPow (z : ℝ) : ℝ := Transc.pow (lanczosT z) ((z - 1) + half)

/-- Legacy witness (F21): from `z = 143` on the single power exceeds `2^1024` in exact arithmetic (so it is `+∞`
as an `f64`), although `Γ(143) = 142! < 2^1024` is finite (`gamma_143_finite`). -/
theorem legacy_single_power_overflows (z : ℝ) (hz : 143 ≤ z) : (2 : ℝ) ^ 1024 < legacyPow z := by
  have e : legacyPow z = (z + 543 / 128) ^ (z - 1 / 2) := by
    simp only [legacyPow, transc_pow, lanczosT_real, half, two]; congr 1; norm_num; ring
  rw [e]
  have ht : (18847 / 128 : ℝ) ≤ z + 543 / 128 := by linarith
  have h5 : (2 : ℝ) ^ 36 ≤ (18847 / 128 : ℝ) ^ 5 := by norm_num
  calc (2 : ℝ) ^ 1024 < 2 ^ 1026 := pow_lt_pow_right₀ (by norm_num) (by norm_num)
    _ = ((2 : ℝ) ^ 36) ^ ((57 / 2 : ℝ)) := by
        rw [← two_rpow_nat 36, ← Real.rpow_mul (by norm_num), ← two_rpow_nat 1026]; norm_num
    _ ≤ ((18847 / 128 : ℝ) ^ 5) ^ ((57 / 2 : ℝ)) := Real.rpow_le_rpow (by positivity) h5 (by norm_num)
    _ = (18847 / 128 : ℝ) ^ ((285 / 2 : ℝ)) := by
        rw [← Real.rpow_natCast, ← Real.rpow_mul (by norm_num)]; norm_num
    _ ≤ (z + 543 / 128) ^ ((285 / 2 : ℝ)) := Real.rpow_le_rpow (by norm_num) ht (by norm_num)
    _ ≤ (z + 543 / 128) ^ (z - 1 / 2) :=
        Real.rpow_le_rpow_of_exponent_le (by linarith) (by linarith)

theorem gamma_143_finite : ((Nat.factorial 142 : ℕ) : ℝ) < 2 ^ 1024 := by
  exact_mod_cast factorial_142_lt

/-! Non-vacuity of the digamma statements at `ℝ`: `x = 3/2` needs exactly `k = 5` steps. -/
example : (∀ i : Nat, i < 5 → (3 / 2 : ℝ) + (i : ℝ) < 6) ∧ ¬ ((3 / 2 : ℝ) + ((5 : Nat) : ℝ) < 6) := by
  refine ⟨fun i hi => ?_, by norm_num⟩
  have : (i : ℝ) ≤ 4 := by exact_mod_cast Nat.le_of_lt_succ hi
  linarith

example : ∃ y, digammaF 6 (3 / 2 : ℝ) = some y := digammaF_terminates 5 _ (by norm_num)

example : digammaF 5 (3 / 2 : ℝ) = none := digammaF_fuel_exact 5 _ (fun i hi => by
  have : (i : ℝ) ≤ 4 := by exact_mod_cast Nat.le_of_lt_succ hi
  linarith)

/-- A statement about the TRUE Γ (`Real.Gamma`), not about the model: the formula the reflection branch of `gamma`
is built on, `π / (sin(πz) · Γ(1 - z)) = Γ(z)` for `sin(πz) ≠ 0`, is exact.  The model's branch uses the double `PI`
and the Lanczos value `gammaPos (1 - z)` in place of π and Γ(1 - z); how close the result is to Γ(z) is decided by the
search only. -/
theorem reflection_formula_exact (z : ℝ) (hs : Real.sin (Real.pi * z) ≠ 0) :
    Real.pi / (Real.sin (Real.pi * z) * Real.Gamma (1 - z)) = Real.Gamma z := by
  have h := Real.Gamma_mul_Gamma_one_sub z
  have hg : Real.Gamma (1 - z) ≠ 0 := by
    intro h0; rw [h0, mul_zero] at h
    exact (div_ne_zero Real.pi_ne_zero hs) h.symm
  rw [div_eq_iff (mul_ne_zero hs hg)]
  have h2 : Real.Gamma z * Real.Gamma (1 - z) * Real.sin (Real.pi * z) = Real.pi := by
    rw [h, div_mul_cancel₀ _ hs]
  linarith [h2]

/-- Γ(143) = 142! is finite as an `f64` although the legacy power at `z = 143` is not. -/
theorem gamma_143_finite' : Real.Gamma 143 < 2 ^ 1024 := by
  have h := Real.Gamma_nat_eq_factorial 142
  have e : ((142 : ℕ) : ℝ) + 1 = 143 := by norm_num
  rw [e] at h
  rw [h]; exact gamma_143_finite

/-- `erf` has the sign of its argument: for `x ≥ 0` the formula gives a value in `[0, 1]` (and by `erf_odd` a value
in `[-1, 0]` for `x < 0`).  Uses `erfPoly_le_one`; `1 - P(1) = 18014399/2^54 > 0` for the doubles of the source. -/
theorem erf_nonneg (x : ℝ) (hx : 0 ≤ x) : 0 ≤ erfFn x ∧ erfFn x ≤ 1 := by
  rw [erfFn_eq_le, if_pos hx]
  have hp : (0 : ℝ) < ofLit C09T.erfP := by rw [ofLit_real]; simp only [C09T.erfP]; norm_num
  set t : ℝ := 1 / (1 + ofLit C09T.erfP * x) with ht
  have hden : (1 : ℝ) ≤ 1 + ofLit C09T.erfP * x := by nlinarith [mul_nonneg hp.le hx]
  have ht0 : 0 ≤ t := by rw [ht]; positivity
  have ht1 : t ≤ 1 := by rw [ht]; exact (div_le_one (by linarith)).mpr hden
  have hE0 : 0 ≤ Real.exp ((-x) * x) := (Real.exp_pos _).le
  have hE1 : Real.exp ((-x) * x) ≤ 1 := Real.exp_le_one_iff.mpr (by nlinarith)
  have hQ1 : erfPoly t * t ≤ 1 :=
    erfPoly_le_one (ofLit C09T.erfA1) (ofLit C09T.erfA2) (ofLit C09T.erfA3) (ofLit C09T.erfA4) (ofLit C09T.erfA5) t
      (by simp only [ofLit_real, C09T.erfA5]; norm_num)
      (by simp only [ofLit_real, C09T.erfA4, C09T.erfA5]; norm_num)
      (by simp only [ofLit_real, C09T.erfA3, C09T.erfA4, C09T.erfA5]; norm_num)
      (by simp only [ofLit_real, C09T.erfA2, C09T.erfA3, C09T.erfA4, C09T.erfA5]; norm_num)
      (by simp only [ofLit_real, C09T.erfA1, C09T.erfA2, C09T.erfA3, C09T.erfA4, C09T.erfA5]; norm_num)
      (by simp only [ofLit_real, C09T.erfA1, C09T.erfA2, C09T.erfA3, C09T.erfA4, C09T.erfA5]; norm_num) ht0 ht1
  have hP := erfPoly_box (ofLit C09T.erfA1) (ofLit C09T.erfA2) (ofLit C09T.erfA3) (ofLit C09T.erfA4) (ofLit C09T.erfA5) t
    (by rw [ofLit_real]; simp only [C09T.erfA1]; norm_num) (by rw [ofLit_real]; simp only [C09T.erfA2]; norm_num)
    (by rw [ofLit_real]; simp only [C09T.erfA3]; norm_num) (by rw [ofLit_real]; simp only [C09T.erfA4]; norm_num)
    (by rw [ofLit_real]; simp only [C09T.erfA5]; norm_num) ht0 ht1
  have hP' : 0 ≤ erfPoly t := hP.1
  have hQ0 : 0 ≤ erfPoly t * t := mul_nonneg hP' ht0
  have e : erfPos x = 1 - erfPoly t * t * Real.exp ((-x) * x) := rfl
  rw [e]
  have h2 : erfPoly t * t * Real.exp ((-x) * x) ≤ 1 * 1 := mul_le_mul hQ1 hE1 hE0 (by norm_num)
  have h3 : 0 ≤ erfPoly t * t * Real.exp ((-x) * x) := mul_nonneg hQ0 hE0
  constructor <;> linarith

/-- The digamma series wired in the source is the Stirling/Bernoulli series
`ln x - 1/(2x) - Σ_{k=1..7} B_{2k} / (2k · x^{2k})` with `B₂, …, B₁₄ = 1/6, -1/30, 1/42, -1/30, 5/66, -691/2730, 7/6`:
entry `k` is `(B_{2k} > 0, num, den, 2k)` with `num/den = |B_{2k}|/(2k)`. -/
def bernoulliEven : List (Int × Nat) := [(1, 6), (-1, 30), (1, 42), (-1, 30), (5, 66), (-691, 2730), (7, 6)]

theorem digamma_series_is_bernoulli :
    C09T.digammaSeries.head? = some (true, 1, 2, 1) ∧
    C09T.digammaSeries.tail.length = 7 ∧
    ∀ k : Fin 7, (let e := C09T.digammaSeries.tail[k.val]!; let b := bernoulliEven[k.val]!
      e.1 = decide (0 < b.1) ∧ e.2.2.2 = 2 * (k.val + 1) ∧
      (e.2.1 : Int) * (2 * (k.val + 1) * b.2) = b.1.natAbs * e.2.2.1) := by
  decide

/-- In exact arithmetic the split product of the repaired `gamma` (F21) has the same value as the single-power
Lanczos formula `sqrt(2π) · t^(z-½) · e^(-t) · x` it replaced (for `t = z + 543/128 > 0`). -/
theorem gammaPos_eq_legacy (z : ℝ) (ht : 0 < z + 543 / 128) :
    gammaPos z = Transc.sqrt (two * piC : ℝ) * legacyPow z * Transc.exp (-(lanczosT z)) * lanczosSum z := by
  have e : legacyPow z = halfPow z * halfPow z := by
    have e1 : legacyPow z = (z + 543 / 128) ^ (z - 1 / 2) := by
      simp only [legacyPow, transc_pow, lanczosT_real, half, two]; congr 1; norm_num; ring
    rw [e1, halfPow_real, ← Real.rpow_add ht]; congr 1; ring
  rw [e]; unfold gammaPos; ring

/-- Over ℝ the table-driven model of the `else` branch of `digamma` is the expression of the source. -/
theorem digammaSeries_real (x : ℝ) : digammaSeries x =
    Real.log x - 1 / (2 * x) - 1 / (12 * x ^ 2) + 1 / (120 * x ^ 4) - 1 / (252 * x ^ 6) + 1 / (240 * x ^ 8)
      - 5 / (660 * x ^ 10) + 691 / (32760 * x ^ 12) - 1 / (12 * x ^ 14) := by
  obtain ⟨p1, p2, p4, p6, p8, p10, p12, p14⟩ := powi_real_nat x
  simp only [digammaSeries, C09T.digammaSeries, List.foldl, digammaTerm, transc_ln]
  norm_num [p1, p2, p4, p6, p8, p10, p12, p14]

/-- `ln_gamma` (introduced by repair F09) is the logarithm of `gamma` in exact arithmetic on the Lanczos branch,
wherever the series factor `x` is positive (`t = z + 543/128 > 0`). -/
theorem lnGammaPos_eq_log_gammaPos (z : ℝ) (ht : 0 < z + 543 / 128) (hx : 0 < lanczosSum z) :
    lnGammaPos z = Real.log (gammaPos z) := by
  have hT : lanczosT z = z + 543 / 128 := lanczosT_real z
  have h2pi : (0 : ℝ) < two * piC := by simp only [two, piC, ofLit_real, C09T.pi]; norm_num
  have hs : 0 < Real.sqrt (two * piC) := Real.sqrt_pos.mpr h2pi
  have hp : 0 < halfPow z := by rw [halfPow_real]; exact Real.rpow_pos_of_pos ht _
  have hE : 0 < Real.exp (-(lanczosT z)) := Real.exp_pos _
  unfold gammaPos lnGammaPos
  simp only [transc_sqrt, transc_exp, transc_ln]
  rw [Real.log_mul (by positivity) hx.ne', Real.log_mul (by positivity) hp.ne',
    Real.log_mul (by positivity) hE.ne', Real.log_mul hs.ne' hp.ne', Real.log_exp,
    Real.log_sqrt h2pi.le, halfPow_real, Real.log_rpow ht, hT]
  simp only [half, two]; push_cast; ring

theorem lanczosNumer_pos : ∀ c ∈ C09T.lanczosNumer, 0 < c := by decide

/-- The series factor of both Lanczos bodies over its common denominator: the numerator is the generated integer
polynomial (all coefficients positive, `lanczosNumer_pos`). -/
theorem lanczosSum_eq (z : ℝ) (hz : 0 < z) :
    lanczosSum z = evalPoly C09T.lanczosNumer z /
      (2 ^ C09T.lanczosNumerShift * (z * (z + 1) * (z + 2) * (z + 3) * (z + 4) * (z + 5) * (z + 6) * (z + 7) * (z + 8)
        * (z + 9) * (z + 10) * (z + 11) * (z + 12) * (z + 13))) := by
  have h : ∀ k : ℕ, ((z - 1) + (k : ℝ)) + 1 = z + k := fun k => by ring
  simp only [lanczosSum, C09T.lanczos, lanczosLoop, ofLit_real, C09T.lanczosC0, h, evalPoly, C09T.lanczosNumer,
    C09T.lanczosNumerShift]
  push_cast
  have h0 : z ≠ 0 := hz.ne'
  field_simp
  ring

/-- The series factor `x` of both Lanczos bodies is positive for every real `z > 0`: the argument of `x.ln()` in
`ln_gamma` is inside the domain of the logarithm and `gamma` has the sign of its remaining factors. -/
theorem lanczosSum_pos (z : ℝ) (hz : 0 < z) : 0 < lanczosSum z := by
  rw [lanczosSum_eq z hz]
  apply div_pos (evalPoly_pos z hz _ (by decide) lanczosNumer_pos)
  positivity

/-- Hence on its Lanczos branch (`z ≥ ½`) `ln_gamma` is exactly the logarithm of `gamma` in exact arithmetic, and `gamma > 0`. -/
theorem lnGamma_eq_log_gamma (z : ℝ) (hz : 1 / 2 ≤ z) : lnGammaPos z = Real.log (gammaPos z) :=
  lnGammaPos_eq_log_gammaPos z (by linarith) (lanczosSum_pos z (by linarith))

/-- `gamma` is positive on its Lanczos branch in exact arithmetic. -/
theorem gammaPos_pos (z : ℝ) (hz : 1 / 2 ≤ z) : 0 < gammaPos z := by
  have h2pi : (0 : ℝ) < two * piC := by simp only [two, piC, ofLit_real, C09T.pi]; norm_num
  have hs : 0 < Transc.sqrt (two * piC : ℝ) := by rw [transc_sqrt]; exact Real.sqrt_pos.mpr h2pi
  have hp : 0 < halfPow z := by rw [halfPow_real]; exact Real.rpow_pos_of_pos (by linarith) _
  have hE : 0 < Transc.exp (-(lanczosT z) : ℝ) := by rw [transc_exp]; exact Real.exp_pos _
  have hx := lanczosSum_pos z (by linarith)
  unfold gammaPos; positivity

/-- A statement about the TRUE Γ (`Real.Gamma`), not about the model: for every `z ≤ -171` the quantity `Γ(1 - z)` that
the reflection branch has to approximate exceeds the `f64` range (`Γ(172) = 171! > 2^1024`, Γ increases on `[2, ∞)`).
It explains the open finding `gamma:reflection-overflow:x<-170.62` (any `f64` approximation of that divisor is `+∞`,
so `PI / (sin(PI·z) · ∞) = ±0`) but it does not prove that the Lanczos value `gammaPos (1 - z)` overflows: that is
observed by the tie and the search (lower-edge stratum), not proved. -/
theorem reflection_divisor_overflows (z : ℝ) (hz : z ≤ -171) : (2 : ℝ) ^ 1024 < Real.Gamma (1 - z) := by
  have h172 : Real.Gamma 172 = ((Nat.factorial 171 : ℕ) : ℝ) := by
    have h := Real.Gamma_nat_eq_factorial 171
    have e : ((171 : ℕ) : ℝ) + 1 = 172 := by norm_num
    rw [e] at h; exact h
  have hmono : Real.Gamma 172 ≤ Real.Gamma (1 - z) :=
    Real.Gamma_strictMonoOn_Ici.monotoneOn (by simp [Set.mem_Ici]; norm_num) (by simp [Set.mem_Ici]; linarith) (by linarith)
  calc (2 : ℝ) ^ 1024 < ((Nat.factorial 171 : ℕ) : ℝ) := by exact_mod_cast factorial_171_gt
    _ = Real.Gamma 172 := h172.symm
    _ ≤ _ := hmono

/-! ### Adjacent instantiations (every hypothesis discharged on a non-trivial input) -/

example : ∃ y₀ y₁, digammaF 5 ((3 / 2 : ℝ) + 1) = some y₁ ∧ digammaF 6 (3 / 2 : ℝ) = some y₀ ∧ y₁ = y₀ + 1 / (3 / 2) := by
  obtain ⟨y1, h1⟩ := digammaF_terminates (α := ℝ) 4 ((3 / 2 : ℝ) + 1) (by norm_num)
  obtain ⟨y0, h0, e⟩ := digamma_recurrence (α := ℝ) 5 (3 / 2) y1 (by norm_num)
    (fun k => by have : (0 : ℝ) ≤ (k : ℝ) := Nat.cast_nonneg k; linarith) h1
  exact ⟨y0, y1, h1, h0, e⟩

example : digammaFn ((3 / 2 : ℝ) + 1) = digammaFn (3 / 2 : ℝ) + 1 / (3 / 2) :=
  digammaFn_recurrence (3 / 2) (by norm_num) (by norm_num)
    (fun k => by have : (0 : ℝ) ≤ (k : ℝ) := Nat.cast_nonneg k; linarith)

example : digammaFn (3 / 2 : ℝ) =
    digammaSeries ((3 / 2 : ℝ) + ((5 : Nat) : ℝ)) - ∑ i ∈ Finset.range 5, 1 / ((3 / 2 : ℝ) + (i : ℝ)) :=
  digammaFn_unfold 5 (by norm_num) _ (fun i hi => by
    have : (i : ℝ) ≤ 4 := by exact_mod_cast Nat.le_of_lt_succ hi
    linarith) (by norm_num)

example : digammaFn (-200000 : ℝ) = digammaSeries (-200000 : ℝ) := (digammaFn_exhausted _ (by norm_num)).2

example (a b : ℝ) : betaFn a b = betaFn b a := beta_comm mul_comm add_comm a b
example : erfFn (-(1 : ℝ)) = -erfFn 1 := erf_odd_field 1 one_ne_zero
example : erfF 2 (-(1 : ℝ)) = some (erfFn (-1)) := erfF_eq_erfFn_of 0 _ (fun _ => by simp [signBit_real])
example : 0 < lanczosSum (1 : ℝ) := lanczosSum_pos 1 one_pos
example : lnGammaPos (1 : ℝ) = Real.log (gammaPos 1) := lnGamma_eq_log_gamma 1 (by norm_num)
example : (2 : ℝ) ^ 1024 < legacyPow 143 := legacy_single_power_overflows 143 le_rfl
example : gammaPos (143 : ℝ) =
    Transc.sqrt (two * piC : ℝ) * legacyPow 143 * Transc.exp (-(lanczosT 143)) * lanczosSum 143 :=
  gammaPos_eq_legacy 143 (by norm_num)

/-! ### Where the property clause is FALSE of the model (and of the code: finding proposals) and junk values -/

/-- Over ℝ (one zero) the value of the formula at 0 is positive, `18014399/2^54`: the real-number model cannot be odd at
0, and before repair F56 the code was not either (`erf(-0.0) = erf(+0.0)`).  Since F56 the code branches on the sign bit
and IS odd at both zeros (`erf_odd`; bits `3e112e0be0000000` / `be112e0be0000000`, demanded by the oracle). -/
theorem erf_zero_pos : 0 < erfFn (0 : ℝ) := by rw [erf_zero]; norm_num

/-- Junk at the pole `z = 0` over ℝ (`x / 0 = 0`): the model's reflection branch gives 0 where Γ has a pole (the code
returns `PI / (0 · 1) = +∞` at `Float`).  The theorems over ℝ say nothing at the poles `0, -1, -2, …` of Γ. -/
theorem gammaFn_pole_junk : gammaFn (0 : ℝ) = 0 := by
  have h : (0 : ℝ) < half := by rw [half_eq]; norm_num
  simp only [gammaFn, h, if_true, mul_zero]
  have : (Transc.sin (0 : ℝ)) = 0 := Real.sin_zero
  rw [this, zero_mul, div_zero]

end real

/-! ### Non-vacuity of `erf_odd` on a type with TWO zeros: sign-magnitude reals -/
namespace SignMag
open scoped Cv.C09

/-- A sign flag and a magnitude: `(false, 0)` is `+0`, `(true, 0)` is `-0` (two distinct zeros, as in IEEE). -/
abbrev SM := Bool × ℝ

noncomputable def toR (a : SM) : ℝ := if a.1 then -a.2 else a.2
noncomputable def ofR (r : ℝ) : SM := (decide (r < 0), |r|)

noncomputable scoped instance : Add SM := ⟨fun a b => ofR (toR a + toR b)⟩
noncomputable scoped instance : Sub SM := ⟨fun a b => ofR (toR a - toR b)⟩
noncomputable scoped instance : Mul SM := ⟨fun a b => (xor a.1 b.1, a.2 * b.2)⟩
noncomputable scoped instance : Div SM := ⟨fun a b => (xor a.1 b.1, a.2 / b.2)⟩
/-- negation flips the sign flag only: `-(+0) = -0 ≠ +0`. -/
scoped instance : Neg SM := ⟨fun a => (!a.1, a.2)⟩
noncomputable scoped instance : One SM := ⟨(false, 1)⟩
noncomputable scoped instance : OfLit SM := ⟨fun l => ofR (ofLit l)⟩
scoped instance : SignBit SM := ⟨fun a => !a.1⟩
noncomputable scoped instance : Transc SM where
  sqrt a := ofR (Real.sqrt (toR a))
  exp a := ofR (Real.exp (toR a))
  ln a := ofR (Real.log (toR a))
  pow a b := ofR (toR a ^ toR b)
  sin a := ofR (Real.sin (toR a))
  cos a := ofR (Real.cos (toR a))
  tan a := ofR (Real.tan (toR a))
  abs a := (false, a.2)
  floor a := ofR (⌊toR a⌋ : ℝ)
  ceil a := ofR (⌈toR a⌉ : ℝ)

/-- On sign-magnitude reals both laws hold at every argument, so `erf` is odd everywhere — in particular at the two
zeros, which are different elements. -/
theorem erf_odd_signMag (x : SM) : erfFn (-x) = -erfFn x :=
  erf_odd x (by cases x; simp [SignBit.isSignPositive, Neg.neg])
    (by cases x; simp [Neg.neg]) (by generalize erfPos (-x) = v; cases v; simp [Neg.neg])

example : ((false, 0) : SM) ≠ -((false, 0) : SM) := by simp [Neg.neg]
example : erfFn (-((false, 0) : SM)) = -erfFn ((false, 0) : SM) := erf_odd_signMag _

end SignMag

end Cv.C09
