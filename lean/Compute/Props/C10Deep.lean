import Compute.Lemmas.C10DeepDiff
import Compute.Lemmas.C10DeepLM
import Compute.Lemmas.C10DeepOpt
import Compute.Props.C10
/-
C10 (deep) — headline theorems (namespace `Cv.C10D`).

1. `tape_gradient_correct`: over `ℝ`, for every RPN program without an `f64 / Var` node, inside the
   domain of differentiability, the reverse sweep of the modelled `reverse` tape returns the Fréchet
   derivative / the partial derivatives of the program's real-valued function `denote prog`;
   `tape_const_div_var_wrong`: the formal statement of finding `reverse:f64-div-var-weight`.
2. `tapeEval_laws` (re-exported from `Lemmas/C10DeepEval.lean`), `tapeEval_not_evalLaws`,
   `lm_descends_of_nonsingular`, `lm_descends_unconditional`: Levenberg–Marquardt on the evaluator of
   the source never returns a larger residual sum of squares, assuming only non-singularity of the
   damped normal matrices, resp. `tau > 0` and no vanishing Jacobian column.
3. `adam_follows_published_rule`, `sgd_follows_published_rule`: whenever the optimizer returns, what it
   returns is the iterate of the published recurrence driven by the TRUE gradient `∇f`.
-/
namespace Cv.C10D
open Cv Cv.AD
open Cv.C09

set_option linter.unusedSectionVars false
set_option linter.unusedVariables false
set_option linter.unusedSimpArgs false

/-! ## 1. the reverse sweep computes the gradient of the program's real-valued function -/

theorem gradCLM_of_row {n : Nat} (F' : Pt n →L[ℝ] ℝ) (g : List ℝ) (d : Nat → ℝ)
    (hg : g = (List.range n).map d) (hF : ∀ j : Fin n, F' (Pi.single j 1) = d j) :
    F' = gradCLM n g := by
  rw [clm_eq_sum F']
  unfold gradCLM
  apply Finset.sum_congr rfl
  intro j _
  have : g.getD j 0 = d j := by
    subst hg
    simp [List.getD_eq_getElem?_getD, List.getElem?_map, List.getElem?_range j.isLt]
  rw [hF j, this]

/-- **tape_gradient_correct.**  Over `ℝ` with `exp = Real.exp`, `sin = Real.sin`, `cos = Real.cos`:
for EVERY program of the RPN objective language (`param const x + − × ÷ neg powi exp sin`) that
creates no `f64 / Var` node, whose `powi` exponents fit an `i32`, and whose evaluation at `θ` stays in
the domain of differentiability (divisors `≠ 0`, bases of negative powers `≠ 0`): whenever the model
of the `reverse` tape returns the value `v` and the gradient `g`,

* the program denotes a function `f : ℝⁿ → ℝ` (`n = θ.length`) and `v = f θ`,
* `g` has `n` entries, `f` is Fréchet differentiable at `θ` with derivative `h ↦ Σⱼ gⱼ·hⱼ`,
* in particular `gⱼ` is the partial derivative of `f` at `θ` along coordinate `j`. -/
theorem tape_gradient_correct (prog : List (Op ℝ)) (θ : List ℝ) (x? : Option ℝ) (v : ℝ) (g : List ℝ)
    (h : valGradAt prog θ x? = some (v, g))
    (hN : NoConstDivVar prog) (hP : PowiRange prog) (hD : InDomain prog θ.length x? (vec θ)) :
    ∃ f, denote prog θ.length x? = some f ∧ f (vec θ) = v ∧ g.length = θ.length ∧
      HasFDerivAt f (gradCLM θ.length g) (vec θ) ∧
      ∀ j : Fin θ.length,
        HasDerivAt (fun s => f (Function.update (vec θ) j s)) (g.getD j 0) (θ[j]) := by
  obtain ⟨d, hs, hg⟩ := valGradAt_sem prog θ x? v g h
  obtain ⟨f, hf, hv, F', hF, hrow⟩ := sEval_diff prog θ x? v d hs hN hP hD
  have hF' : F' = gradCLM θ.length g := gradCLM_of_row F' g d hg hrow
  refine ⟨f, hf, hv, by rw [hg]; simp, hF' ▸ hF, fun j => ?_⟩
  have hu := hasDerivAt_update (vec θ) j (θ[j])
  have e : Function.update (vec θ) j (θ[j]) = vec θ := Function.update_eq_self j (vec θ)
  have hc := (hF.comp_hasDerivAt_of_eq (θ[j]) hu e.symm)
  have hval : g.getD j 0 = F' (Pi.single j 1) := by
    rw [hrow j, hg]
    simp [List.getD_eq_getElem?_getD, List.getElem?_map, List.getElem?_range j.isLt]
  rw [hval]
  exact hc

/-- the same for the gradient `Adam` and `SGD` use (`gradAt`, no data point) -/
theorem tape_gradient_correct_gradAt (prog : List (Op ℝ)) (θ : List ℝ) (g : List ℝ)
    (h : gradAt prog θ = some g)
    (hN : NoConstDivVar prog) (hP : PowiRange prog) (hD : InDomain prog θ.length none (vec θ)) :
    ∃ f, denote prog θ.length none = some f ∧ g.length = θ.length ∧
      HasFDerivAt f (gradCLM θ.length g) (vec θ) ∧
      ∀ j : Fin θ.length,
        HasDerivAt (fun s => f (Function.update (vec θ) j s)) (g.getD j 0) (θ[j]) := by
  have hv : ∃ v, valGradAt prog θ none = some (v, g) := by
    unfold gradAt at h
    unfold valGradAt
    simp only at h ⊢
    split at h
    · exact absurd h (by simp)
    next r t' he =>
      simp only [Option.some.injEq] at h
      exact ⟨r.val, by rw [h]⟩
  obtain ⟨v, hv⟩ := hv
  obtain ⟨f, h1, _, h3, h4, h5⟩ := tape_gradient_correct prog θ none v g hv hN hP hD
  exact ⟨f, h1, h3, h4, h5⟩

/-! ### example: `f(p₀, p₁) = exp(p₀)·p₁ + sin(p₀)/p₁` at `(1/2, 3)` -/

/-- `exp(p0) * p1 + sin(p0) / p1` -/
def exProg : List (Op ℝ) :=
  [.param 0, .exp, .param 1, .mul, .param 0, .sin, .param 1, .div, .add]

theorem exProg_ncdv : NoConstDivVar exProg := by decide

theorem exProg_powi : PowiRange exProg := by
  intro o ho
  simp only [exProg, List.mem_cons, List.not_mem_nil, or_false] at ho
  rcases ho with rfl | rfl | rfl | rfl | rfl | rfl | rfl | rfl | rfl <;> trivial

theorem exProg_denote :
    denote exProg 2 none = some (fun v => Real.exp (v 0) * v 1 + Real.sin (v 0) / v 1) := by
  simp [denote, exProg, fRun, fStep]

theorem exProg_dom : InDomain exProg 2 none (vec [1/2, 3]) := by
  simp [InDomain, DomRun, domStep, exProg, fStep, vec]

/-- the model succeeds on the example (the tape is run by the kernel) … -/
theorem exProg_runs : ∃ v g, valGradAt exProg [1/2, 3] none = some (v, g) := ⟨_, _, rfl⟩

/-- … and what it returns is, symbolically, the value and the two partial derivatives
`exp(p₀)p₁ + cos(p₀)/p₁` and `exp(p₀) − sin(p₀)/p₁²` at `(1/2, 3)`. -/
theorem exProg_value (v : ℝ) (g : List ℝ) (h : valGradAt exProg [1/2, 3] none = some (v, g)) :
    v = Real.exp (1/2) * 3 + Real.sin (1/2) / 3 ∧
    g = [Real.exp (1/2) * 3 + Real.cos (1/2) / 3, Real.exp (1/2) - Real.sin (1/2) / 9] := by
  obtain ⟨d, hs, hg⟩ := valGradAt_sem exProg [1/2, 3] none v g h
  simp [sEval, sRun, sStep, exProg, sMul, sExp, sSin, sDiv, sAdd] at hs
  obtain ⟨rfl, rfl⟩ := hs
  have e1 : ∀ x : ℝ, Transc.exp x = Real.exp x := fun _ => rfl
  have e2 : ∀ x : ℝ, Transc.sin x = Real.sin x := fun _ => rfl
  have e3 : ∀ x : ℝ, Transc.cos x = Real.cos x := fun _ => rfl
  refine ⟨by simp only [e1, e2, e3, one_div]; ring, ?_⟩
  rw [hg]
  simp [List.range_succ, powi_two]
  constructor
  · simp only [e1, e2, e3, one_div]; ring
  · simp only [e1, e2, e3, one_div]; ring

/-- the theorem applies to it (non-vacuity of all hypotheses together) -/
example : ∃ v g f, valGradAt exProg [1/2, 3] none = some (v, g) ∧
    denote exProg 2 none = some f ∧ f (vec [1/2, 3]) = v ∧
    HasFDerivAt f (gradCLM 2 g) (vec [1/2, 3]) := by
  obtain ⟨v, g, h⟩ := exProg_runs
  obtain ⟨f, h1, h2, _, h4, _⟩ :=
    tape_gradient_correct exProg [1/2, 3] none v g h exProg_ncdv exProg_powi exProg_dom
  exact ⟨v, g, f, h, h1, h2, h4⟩

/-- the partial derivative along `p₀` in closed form, obtained from the theorem and the tape run:
`d/ds (exp(s)·3 + sin(s)/3) = exp(s)·3 + cos(s)/3` at `s = 1/2` -/
theorem exProg_partial0 :
    HasDerivAt (fun s : ℝ => Real.exp s * 3 + Real.sin s / 3)
      (Real.exp (1/2) * 3 + Real.cos (1/2) / 3) (1/2) := by
  obtain ⟨v, g, h⟩ := exProg_runs
  obtain ⟨_, hg⟩ := exProg_value v g h
  obtain ⟨f, h1, _, _, _, h5⟩ :=
    tape_gradient_correct exProg [1/2, 3] none v g h exProg_ncdv exProg_powi exProg_dom
  have hf : f = fun v => Real.exp (v 0) * v 1 + Real.sin (v 0) / v 1 :=
    Option.some.inj (h1.symm.trans exProg_denote)
  have := h5 ⟨0, by simp⟩
  subst hf hg
  simpa [Function.update, vec] using this

/-! ### second example, the remaining instruction kinds:
`f(p₀, p₁; x) = −(3·(p₀ − x)²) / p₁⁻¹` at `(2, 5)`, `x = 1` (`x const sub powi neg`, `Var ÷ Var`,
a negative power) -/

def exProg2 : List (Op ℝ) :=
  [.param 0, .x, .sub, .powi 2, .const 3, .mul, .param 1, .powi (-1), .div, .neg]

theorem exProg2_ncdv : NoConstDivVar exProg2 := by decide

theorem exProg2_powi : PowiRange exProg2 := by
  intro o ho
  simp only [exProg2, List.mem_cons, List.not_mem_nil, or_false] at ho
  rcases ho with rfl | rfl | rfl | rfl | rfl | rfl | rfl | rfl | rfl | rfl <;> trivial

theorem exProg2_dom : InDomain exProg2 2 (some 1) (vec [2, 5]) := by
  simp [InDomain, DomRun, domStep, exProg2, fStep, vec]

example : ∃ v g f, valGradAt exProg2 [2, 5] (some 1) = some (v, g) ∧
    denote exProg2 2 (some 1) = some f ∧ f (vec [2, 5]) = v ∧
    HasFDerivAt f (gradCLM 2 g) (vec [2, 5]) := by
  obtain ⟨v, g, h⟩ : ∃ v g, valGradAt exProg2 [2, 5] (some 1) = some (v, g) := ⟨_, _, rfl⟩
  obtain ⟨f, h1, h2, _, h4, _⟩ :=
    tape_gradient_correct exProg2 [2, 5] (some 1) v g h exProg2_ncdv exProg2_powi exProg2_dom
  exact ⟨v, g, f, h, h1, h2, h4⟩

/-! ### the finding `reverse:f64-div-var-weight`, formally -/

/-- `c / p0` -/
def cdvProg (c : ℝ) : List (Op ℝ) := [.const c, .param 0, .div]

/-- the program is rejected by `NoConstDivVar` … -/
theorem cdvProg_excluded (c : ℝ) : ¬ NoConstDivVar (cdvProg c) := by
  simp [NoConstDivVar, cdvProg, ncdv, badDiv, kStep]

/-- **tape_const_div_var_wrong.**  For the objective `c / p₀` the `reverse` tape (as modelled, weight
for weight) returns the "gradient" `-1/x` at `p₀ = x`, whereas the derivative of `s ↦ c/s` at `x ≠ 0`
is `-c/x²`; the two differ whenever `x ≠ 0` and `c ≠ x`.  (Witness of the open finding: `c = 3`,
`x = 2`: `-1/2` instead of `-3/4`.) -/
theorem tape_const_div_var_wrong (c x : ℝ) :
    gradAt (cdvProg c) [x] = some [(-1) / x] ∧
    (x ≠ 0 → HasDerivAt (fun s => c / s) (-c / x ^ 2) x) ∧
    (x ≠ 0 → c ≠ x → (-1) / x ≠ -c / x ^ 2) := by
  refine ⟨?_, fun hx => ?_, fun hx hc => ?_⟩
  · obtain ⟨g, hg⟩ : ∃ g, gradAt (cdvProg c) [x] = some g := ⟨_, rfl⟩
    obtain ⟨v, d, hs, hd⟩ := gradAt_sem (cdvProg c) [x] g hg
    simp [sEval, sRun, sStep, cdvProg, sDiv] at hs
    obtain ⟨_, rfl⟩ := hs
    rw [hg, hd]
    simp [List.range_succ]
  · have := (hasDerivAt_inv hx).const_mul c
    have e : (fun s => c / s) = fun s => c * s⁻¹ := by funext s; rw [div_eq_mul_inv]
    have e2 : -c / x ^ 2 = c * -(x ^ 2)⁻¹ := by ring
    rw [e, e2]
    exact this
  · intro h
    apply hc
    field_simp at h
    linarith

example : gradAt (cdvProg 3) [2] = some [(-1) / 2] ∧ ((-1 : ℝ) / 2 ≠ -3 / 2 ^ 2) :=
  ⟨(tape_const_div_var_wrong 3 2).1,
    (tape_const_div_var_wrong 3 2).2.2 (by norm_num) (by norm_num)⟩

/-! ## 2. Levenberg–Marquardt on the evaluator of the source -/
section lm
open Cv.Opt Cv.C10
variable {α : Type} [Field α] [LinearOrder α] [IsStrictOrderedRing α] [Inhabited α] [BEq α]
  [LawfulBEq α] [Transc α] [FMax α]

/-- the residual sum of squares `Σᵢ (yᵢ − f(θ, xᵢ))²` (summed as the code does, `dot8`) -/
def rssAt (prog : List (Op α)) (xs ys θ : List α) : α :=
  dot8 (resOf prog xs ys θ) (resOf prog xs ys θ)

theorem lmFinish_out {σ : Type} (E : LMEval σ α) (s : LMSt σ α) (θ cov : List α)
    (hr : lmFinish E s = some (θ, cov)) :
    θ = E.vals s.tp ∧ θ.length ≤ E.n ∧ ∃ inv, invOf θ.length s.jtj = some inv ∧
      cov = inv.map ((dot8 s.res s.res / ((E.n - θ.length : Nat) : α)) * ·) := by
  unfold lmFinish at hr
  simp only at hr
  split at hr
  · exact absurd hr (by simp)
  next hnp =>
    split at hr
    · exact absurd hr (by simp)
    next inv hinv =>
      simp only [Option.some.injEq, Prod.mk.injEq] at hr
      obtain ⟨h1, h2⟩ := hr
      subst h1
      exact ⟨rfl, not_lt.mp hnp, inv, hinv, h2.symm⟩

/-- common part of the two LM theorems: `Pm` is the property of the damping parameter the
non-singularity hypothesis may rely on -/
theorem lm_descends_aux (prog : List (Op α)) (h : LMHP α) (θ0 xs ys : List α) (k : Nat)
    (θ cov : List α) (habs : ∀ x : α, Transc.abs x = |x|) (hF : FMaxLaw α) (hn : 0 < xs.length)
    {Pm : α → Prop} (hPm : MuPred Pm)
    (hmu0 : ∀ jtj, jtjOf xs.length (jacOf prog xs θ0) = some jtj →
      Pm (h.tau * (statMax (diagOf θ0.length jtj)).getD (0 / 0)))
    (hns : ∀ θ' jtj mu, θ'.length = θ0.length →
      jtjOf xs.length (jacOf prog xs θ') = some jtj → Pm mu →
      NonSingular θ0.length (damp θ0.length mu jtj))
    (hr : lm prog h θ0 xs ys k = some (θ, cov)) :
    rssAt prog xs ys θ ≤ rssAt prog xs ys θ0 ∧ θ.length = θ0.length ∧ θ.length ≤ xs.length ∧
      ∃ jtj inv, jtjOf xs.length (jacOf prog xs θ) = some jtj ∧ invOf θ.length jtj = some inv ∧
        cov = inv.map ((rssAt prog xs ys θ / ((xs.length - θ.length : Nat) : α)) * ·) := by
  unfold lm at hr
  split at hr
  · exact absurd hr (by simp)
  next hlen =>
    have hlen : xs.length = ys.length := not_not.mp hlen
    have L := tapeEval_laws prog xs ys hlen
    have hshape : ∀ θ', (jacOf prog xs θ').length = (tapeEval prog xs ys).n * θ'.length ∧
        (resOf prog xs ys θ').length = (tapeEval prog xs ys).n :=
      fun θ' => ⟨jacOf_length prog xs θ', resOf_length prog xs ys θ' hlen⟩
    unfold lmG at hr
    split at hr
    · exact absurd hr (by simp)
    next s0 hs0 =>
      split at hr
      · exact absurd hr (by simp)
      next s hl =>
        obtain ⟨_, hB0, hv0, _, hmu⟩ := invW_start _ WFSt _ _ L h θ0 s0 hs0
        have hex : ∀ s1, InvW (tapeEval prog xs ys) WFSt (resOf prog xs ys) (jacOf prog xs) Pm
            θ0.length s1 → SolveExactAt (tapeEval prog xs ys) s1 := by
          intro s1 h1
          obtain ⟨_, hB1, hm1, _, hl1⟩ := h1
          apply solveExactAt_of_nonsingular _ _ _ habs hn hshape s1 hB1
          rw [hl1]
          exact hns _ _ _ hl1 hB1.2.1 hm1
        have hmu0' : Pm s0.mu := by
          rw [hmu]
          exact hmu0 _ (by have := hB0.2.1; rw [hv0] at this; exact this)
        obtain ⟨d1, d2, d3, hB, d5⟩ := lm_core _ WFSt _ _ L hPm hF hn hshape h θ0 hex k s0 s hs0
          hmu0' hl
        obtain ⟨f1, f2, inv, f3, f4⟩ := lmFinish_out _ s θ cov hr
        have e1 : rssAt prog xs ys θ = rss s := by rw [d3, ← f1]; rfl
        refine ⟨?_, by rw [f1]; exact d5, f2, s.jtj, inv, by rw [f1]; exact hB.2.1, f3, ?_⟩
        · rw [e1]; exact le_trans d1 (le_of_eq d2)
        · rw [f4, e1]; rfl

/-- **LM descends, assuming only non-singularity.**  For the model of `LM::optimize` on the evaluator
of the source (shared `reverse` tape), over any linearly ordered field with `abs = |·|` and
`max = max`: if `tau ≥ 0` and the damped normal matrix `JᵀJ + μ·diag(JᵀJ)` is non-singular at every
parameter vector for every `μ ≥ 0`, then whatever `LM::optimize` returns after any number of
iterations has a residual sum of squares `≤` the initial one, the same number of parameters, and the
reported covariance is `rss/(n−p)·(JᵀJ)⁻¹` at the returned point.  No assumption on the evaluator, no
assumption on the linear solver. -/
theorem lm_descends_of_nonsingular (prog : List (Op α)) (h : LMHP α) (θ0 xs ys : List α) (k : Nat)
    (θ cov : List α) (habs : ∀ x : α, Transc.abs x = |x|) (hF : FMaxLaw α) (hn : 0 < xs.length)
    (htau : 0 ≤ h.tau)
    (hns : ∀ θ' jtj mu, θ'.length = θ0.length →
      jtjOf xs.length (jacOf prog xs θ') = some jtj → 0 ≤ mu →
      NonSingular θ0.length (damp θ0.length mu jtj))
    (hr : lm prog h θ0 xs ys k = some (θ, cov)) :
    rssAt prog xs ys θ ≤ rssAt prog xs ys θ0 ∧ θ.length = θ0.length ∧ θ.length ≤ xs.length ∧
      ∃ jtj inv, jtjOf xs.length (jacOf prog xs θ) = some jtj ∧ invOf θ.length jtj = some inv ∧
        cov = inv.map ((rssAt prog xs ys θ / ((xs.length - θ.length : Nat) : α)) * ·) :=
  lm_descends_aux prog h θ0 xs ys k θ cov habs hF hn muPred_nonneg
    (fun jtj hj => mul_nonneg htau
      (statMax_diag_nonneg hF xs.length θ0.length hn _ jtj (jacOf_length prog xs θ0) hj))
    hns hr

/-- **lm_descends_unconditional.**  If `tau > 0`, there is at least one parameter, and no column of
the Jacobian vanishes at any parameter vector, the damped normal matrices met by the loop are positive
definite, hence non-singular, hence solved exactly by the pivoted LU of the source; so
`LM::optimize` never returns a larger residual sum of squares than it started with. -/
theorem lm_descends_unconditional (prog : List (Op α)) (h : LMHP α) (θ0 xs ys : List α) (k : Nat)
    (θ cov : List α) (habs : ∀ x : α, Transc.abs x = |x|) (hF : FMaxLaw α) (hn : 0 < xs.length)
    (hp : 0 < θ0.length) (htau : 0 < h.tau)
    (hcol : ∀ θ', θ'.length = θ0.length → ∀ i, i < θ0.length →
      ∃ k, k < xs.length ∧ nth (jacOf prog xs θ') (k * θ0.length + i) ≠ 0)
    (hr : lm prog h θ0 xs ys k = some (θ, cov)) :
    rssAt prog xs ys θ ≤ rssAt prog xs ys θ0 ∧ θ.length = θ0.length ∧ θ.length ≤ xs.length ∧
      ∃ jtj inv, jtjOf xs.length (jacOf prog xs θ) = some jtj ∧ invOf θ.length jtj = some inv ∧
        cov = inv.map ((rssAt prog xs ys θ / ((xs.length - θ.length : Nat) : α)) * ·) :=
  lm_descends_aux prog h θ0 xs ys k θ cov habs hF hn muPred_pos
    (fun jtj hj => mul_pos htau
      (statMax_diag_pos hF xs.length θ0.length hn hp _ jtj (jacOf_length prog xs θ0) hj
        (hcol θ0 rfl)))
    (fun θ' jtj mu hl hj hmu =>
      damped_nonsingular xs.length θ0.length hn _ jtj mu
        (by rw [jacOf_length, hl]) hj hmu (hcol θ' hl))
    hr

end lm

/-! ### examples over `ℚ` -/
section lmex
open Cv.Opt Cv.C10

local instance : Transc ℚ := ⟨id, id, id, fun a _ => a, id, id, id, abs, id, id⟩
local instance : FMax ℚ := ⟨max⟩

/-- `EvalLaws` as stated in `Lemmas/C10LM.lean` (for ALL tape states) is not satisfiable by the
evaluator of the source: on the ill-formed state whose two parameter `Var`s share node `0` the sweep
returns `[4, 4]`, on the well-formed state with the same parameter values `[1, 1]`.  Hence the
relativised `EvalLawsOn … WFSt` of `tapeEval_laws`. -/
theorem tapeEval_not_evalLaws :
    ¬ ∃ R Jf, EvalLaws (tapeEval ([.param 0, .param 1, .mul] : List (Op ℚ)) [0] [0]) R Jf := by
  rintro ⟨R, Jf, L⟩
  have h1 := L.jac ((#[] : Tape ℚ), [⟨1, 0⟩, ⟨1, 0⟩]) [4, 4] (by decide +kernel)
  have h2 := L.jac ((tapeEval ([.param 0, .param 1, .mul] : List (Op ℚ)) [0] [0]).fresh
    ((#[] : Tape ℚ), [⟨1, 0⟩, ⟨1, 0⟩])) [1, 1] (by decide +kernel)
  rw [L.fresh] at h2
  rw [← h2] at h1
  exact absurd h1 (by decide)

/-- the model function `p0 · x` -/
def lmProg : List (Op ℚ) := [.param 0, .x, .mul]

theorem lmProg_jac (a : ℚ) : jacOf lmProg [1, 2] [a] = [1, 2] := by
  simp [jacOf, rowOf, sEval, sRun, sStep, lmProg, sMul]

/-- the hypotheses of `lm_descends_unconditional` hold for fitting `y = p0·x` to `(1,2), (2,5)` … -/
theorem lmProg_descends (k : Nat) (θ cov : List ℚ)
    (hr : lm lmProg ⟨1/1000000, 1/1000000, 1/1000⟩ [1] [1, 2] [2, 5] k = some (θ, cov)) :
    rssAt lmProg [1, 2] [2, 5] θ ≤ rssAt lmProg [1, 2] [2, 5] [1] :=
  (lm_descends_unconditional lmProg ⟨1/1000000, 1/1000000, 1/1000⟩ [1] [1, 2] [2, 5] k θ cov
    (fun _ => rfl) (fun _ _ => rfl) (by decide) (by decide) (by norm_num)
    (fun θ' hl i hi => by
      obtain ⟨a, rfl⟩ : ∃ a, θ' = [a] := by
        match θ', hl with
        | [a], _ => exact ⟨a, rfl⟩
      have : i = 0 := by simpa using hi
      subst this
      exact ⟨0, by decide, by rw [lmProg_jac]; decide⟩)
    hr).1

/-- … and the run does return (three iterations, executed by the kernel): `rss` went from `10` down. -/
example : lm lmProg ⟨1/1000000, 1/1000000, 1/1000⟩ [1] [1, 2] [2, 5] 3
    = some ([9641 / 4020], [129293 / 3232080]) := by decide +kernel

example : rssAt lmProg [1, 2] [2, 5] [1] = 10 ∧
    rssAt lmProg [1, 2] [2, 5] [9641 / 4020] = 129293 / 646416 := by
  constructor <;> simp [rssAt, resOf, valOf, sEval, sRun, sStep, lmProg, sMul, dot8, dot8Go] <;> norm_num

end lmex

/-! ## 3. Adam and SGD follow the published rules with the TRUE gradient -/
section opt
open Cv.Opt Cv.C10
variable [BEq ℝ] [FMax ℝ]

/-- **adam_follows_published_rule.**  For every RPN objective without `f64 / Var` node whose
evaluation is everywhere inside the domain of differentiability, every start, hyper-parameters and
budget `k < 2³¹`: whenever the model of `Adam::optimize` (driven by the gradients the `reverse` tape
produces) returns `θ`, then `θ` is the parameter vector of iterate `min(k, stopIdx)` of Kingma–Ba's
recurrence `kbStep` driven by the TRUE gradient `∇f` (`gradTrue`: the partial derivatives
`fderiv f θ eⱼ` of the program's real-valued function). -/
theorem adam_follows_published_rule (prog : List (Op ℝ)) (h : AdamHP ℝ) (θ0 : List ℝ) (k : Nat)
    (hk : k < 2 ^ 31) (θ : List ℝ) (hN : NoConstDivVar prog) (hP : PowiRange prog)
    (hD : ∀ θ' : List ℝ, InDomain prog θ'.length none (vec θ'))
    (hr : adam prog h θ0 k = some θ) :
    (iter (kbStep (gradTrue prog) h) (adamInit θ0)
      (stopIdx (kbStep (gradTrue prog) h) adamStopped (adamInit θ0) k)).map (·.θ) = some θ := by
  unfold adam at hr
  split at hr
  · rw [← adam_refines (gradTrue prog) h θ0 k hk]
    unfold adamG at hr ⊢
    obtain ⟨r, hr1, hr2⟩ := Option.map_eq_some_iff.mp hr
    have := runLoop_agree_on (adamStep (gradAt prog) h) (adamStep (gradTrue prog) h)
      (fun s' s => converged s'.θ s.θ) (fun t s s' hs => by
        unfold adamStep at hs ⊢
        cases hg : gradAt prog s.θ with
        | none => simp [hg] at hs
        | some gr =>
          rw [gradAt_true prog s.θ gr hg hN hP (hD s.θ)]
          simpa [hg] using hs) k 0 _ r hr1
    rw [this]
    simp [hr2]
  · exact absurd hr (by simp)

/-- **sgd_follows_published_rule** (plain, momentum and Nesterov): whenever the model of
`SGD::optimize` returns `θ`, it is the iterate of the published momentum rule `pubSgdStep` driven by
the TRUE gradient, taken at `θ` (plain / momentum) or at the look-ahead point `θ − μ·u` (Nesterov —
there the tape differentiates w.r.t. look-ahead nodes that are not leaves). -/
theorem sgd_follows_published_rule (prog : List (Op ℝ)) (h : SgdHP ℝ) (θ0 : List ℝ) (k : Nat)
    (θ : List ℝ) (hN : NoConstDivVar prog) (hP : PowiRange prog)
    (hD : ∀ θ' : List ℝ, InDomain prog θ'.length none (vec θ'))
    (hr : sgd prog h θ0 k = some θ) :
    (iter (pubSgdStep (gradTrue prog) h) (sgdInit θ0)
      (stopIdx (pubSgdStep (gradTrue prog) h) sgdStopped (sgdInit θ0) k)).map (·.θ) = some θ := by
  rw [← sgd_refines (gradTrue prog) h θ0 k]
  unfold sgd at hr
  unfold sgdG at hr ⊢
  obtain ⟨r, hr1, hr2⟩ := Option.map_eq_some_iff.mp hr
  have := runLoop_agree_on (sgdStep (sgdTapeOracle prog h) h) (sgdStep (sgdOracle (gradTrue prog) h) h)
    (fun s' s => converged s'.θ s.θ) (fun t s s' hs => by
      unfold sgdStep at hs ⊢
      cases hg : sgdTapeOracle prog h s.θ s.u with
      | none => simp [hg] at hs
      | some gr =>
        have e : sgdOracle (gradTrue prog) h s.θ s.u = some gr := by
          unfold sgdTapeOracle at hg
          unfold sgdOracle
          cases hn : h.nesterov
          · simp only [hn, Bool.false_eq_true, if_false] at hg ⊢
            exact gradAt_true prog s.θ gr hg hN hP (hD s.θ)
          · simp only [hn, if_true] at hg ⊢
            exact gradAtLookAhead_true prog h.momentum s.θ s.u gr hg hN hP (hD _)
        rw [e]
        simpa [hg] using hs) k 0 _ r hr1
  rw [this]
  simp [hr2]

/-! ### example: `f(p₀, p₁) = exp(p₀)·p₁ + sin(p₀)` (differentiable everywhere) -/

/-- `exp(p0) * p1 + sin(p0)` -/
def adProg : List (Op ℝ) := [.param 0, .exp, .param 1, .mul, .param 0, .sin, .add]

theorem adProg_ncdv : NoConstDivVar adProg := by decide

theorem adProg_powi : PowiRange adProg := by
  intro o ho
  simp only [adProg, List.mem_cons, List.not_mem_nil, or_false] at ho
  rcases ho with rfl | rfl | rfl | rfl | rfl | rfl | rfl <;> trivial

/-- instructions that are differentiable on all of `ℝ`: everything except `÷` and negative powers -/
def smoothOp : Op ℝ → Prop
  | .div => False
  | .powi k => 0 ≤ k
  | _ => True

/-- a program without `÷` and without negative powers is inside the domain everywhere -/
theorem domRun_of_smooth {n : Nat} (x? : Option ℝ) (v0 : Pt n) :
    ∀ (prog : List (Op ℝ)) (st : List (Pt n → ℝ)), (∀ o ∈ prog, smoothOp o) → DomRun x? v0 prog st
  | [], st, _ => trivial
  | o :: os, st, h => by
    refine ⟨?_, ?_⟩
    · have ho := h o (List.mem_cons_self ..)
      cases o with
      | div => exact ho.elim
      | powi k =>
        simp only [domStep]
        split
        · exact Or.inr ho
        · trivial
      | _ => trivial
    · split
      · trivial
      · exact domRun_of_smooth x? v0 os _ (fun o ho => h o (List.mem_cons_of_mem _ ho))

theorem adProg_dom (θ' : List ℝ) : InDomain adProg θ'.length none (vec θ') := by
  apply domRun_of_smooth
  intro o ho
  simp only [adProg, List.mem_cons, List.not_mem_nil, or_false] at ho
  rcases ho with rfl | rfl | rfl | rfl | rfl | rfl | rfl <;> trivial

/-- the true gradient of the example at `(a, b)`, symbolically -/
theorem adProg_gradTrue (a b : ℝ) :
    gradTrue adProg [a, b] = some [Real.exp a * b + Real.cos a, Real.exp a] := by
  have hs : sEval adProg [a, b] none = some (Real.exp a * b + Real.sin a,
      fun j => (b * (Real.exp a * if j = 0 then 1 else 0) + Real.exp a * if j = 1 then 1 else 0)
        + Real.cos a * if j = 0 then 1 else 0) := by
    simp [sEval, sRun, sStep, adProg, sMul, sExp, sSin, sAdd]
    constructor <;> rfl
  rw [sEval_true adProg [a, b] _ _ hs adProg_ncdv adProg_powi (adProg_dom _)]
  simp [List.range_succ]
  ring

/-- the premise "Adam returns" is satisfiable beyond the trivial budget `0`: one step from `(1/2, 3)` -/
example : ∃ θ, adam adProg ⟨1/1000, 9/10, 999/1000, 1/100000000⟩ [1/2, 3] 1 = some θ := by
  obtain ⟨g, hg⟩ : ∃ g, gradAt adProg [1/2, 3] = some g := ⟨_, rfl⟩
  have hl : g.length = 2 := by
    obtain ⟨v, d, _, hd⟩ := gradAt_sem adProg [1/2, 3] g hg
    rw [hd]; simp
  have hok : adamNewOk (⟨1/1000, 9/10, 999/1000, 1/100000000⟩ : AdamHP ℝ) = true := by
    simp [adamNewOk]
  simp only [adam, hok, if_true, adamG, runLoop, adamStep, hg]
  simp only [hl, List.length_cons, List.length_nil, Nat.zero_add, if_true]
  split <;> simp

/-- the corollaries apply to the example: for every start, hyper-parameters and budget -/
example (h : AdamHP ℝ) (θ0 θ : List ℝ) (k : Nat) (hk : k < 2 ^ 31) (hr : adam adProg h θ0 k = some θ) :
    (iter (kbStep (gradTrue adProg) h) (adamInit θ0)
      (stopIdx (kbStep (gradTrue adProg) h) adamStopped (adamInit θ0) k)).map (·.θ) = some θ :=
  adam_follows_published_rule adProg h θ0 k hk θ adProg_ncdv adProg_powi adProg_dom hr

example (h : SgdHP ℝ) (θ0 θ : List ℝ) (k : Nat) (hr : sgd adProg h θ0 k = some θ) :
    (iter (pubSgdStep (gradTrue adProg) h) (sgdInit θ0)
      (stopIdx (pubSgdStep (gradTrue adProg) h) sgdStopped (sgdInit θ0) k)).map (·.θ) = some θ :=
  sgd_follows_published_rule adProg h θ0 k θ adProg_ncdv adProg_powi adProg_dom hr

end opt

end Cv.C10D
