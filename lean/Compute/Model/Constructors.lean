import Compute.Model.Mat
import Compute.Model.Scalar
import Compute.Model.Shape
/-
Model of the constructors and slice-level predicates of `src/linalg/utils.rs` and of
`Matrix::{zeros, ones, eye}` (`src/linalg/array/matrix.rs`).  `none` = panic.  No Mathlib imports.
-/
namespace Cv
namespace Ctor
open Cv.Shape
variable {α : Type}

/-- `x.ceil() as usize` (saturating cast: NaN and negatives give 0). -/
class CeilNat (α : Type) where
  ceilNat : α → Nat

instance : CeilNat Float := ⟨fun x => (Float.ceil x).toUInt64.toNat⟩

/-! ### `Matrix::{zeros, ones, eye}` -/

/-- `Matrix::zeros(r, c)` = `Matrix::new(vec![0; r*c], r, c)`. -/
def zeros [Zero α] (r c : Nat) : Option (Mat α) := mnewN (List.replicate (r * c) (0 : α)) r c

/-- `Matrix::ones`. -/
def ones [One α] (r c : Nat) : Option (Mat α) := mnewN (List.replicate (r * c) (1 : α)) r c

/-- `Matrix::eye(d)`: zeros, then `data[i*d + i] = 1`. -/
def eye [Zero α] [One α] (d : Nat) : Option (Mat α) :=
  mnewN (Mat.build d d fun i j => if i = j then (1 : α) else 0).data d d

/-! ### grids -/

/-- `arange(start, stop, step)`: `n = ceil((stop-start)/step) as usize` points `start + i*step` (F26). -/
def arange [Add α] [Sub α] [Mul α] [Div α] [NatCast α] [CeilNat α] (start stop step : α) : List α :=
  let n := CeilNat.ceilNat ((stop - start) / step)
  (List.range n).map fun (i : Nat) => start + (i : α) * step

/-- `linspace(start, stop, num)`: a single point is the start point (F39); otherwise
`width = (stop-start)/(num-1)`; `num - 1` underflows (panics) for `num = 0`. -/
def linspace [Add α] [Sub α] [Mul α] [Div α] [NatCast α] (start stop : α) (num : Nat) : Option (List α) :=
  if num = 1 then some [start]
  else if num = 0 then none
  else
    let width := (stop - start) / ((num - 1 : Nat) : α)
    some ((List.range num).map fun (i : Nat) => start + (i : α) * width)

/-! ### slice predicates -/

/-- `is_square(m)` (slice version): `n = sqrt(len as f32)`, `Ok(n)` iff `n` is integral.  For
`len < 2²⁴` the `f32` conversion is exact and the correctly rounded root of a non-square is never
integral, so this is `Nat.sqrt`.  `none` = `Err`. -/
def isSquareLen (len : Nat) : Option Nat :=
  let s := Nat.sqrt len
  if s * s = len then some s else none

section pred
variable [Sub α] [One α] [LT α] [DecidableLT α] [HasAbs α] [Inhabited α]

/-- `is_design(m, nrows)`: `is_matrix(..).unwrap()`, then every `m[i*ncols]` within `eps` of 1
(the read panics when `ncols = 0`). -/
def isDesign (eps : α) (m : List α) (nrows : Nat) : Option Bool :=
  (isMatrixU m.length nrows).bind fun ncols =>
    if ncols = 0 then none
    else some ((List.range nrows).all fun i => !(decide (eps < HasAbs.abs (m[i * ncols]! - 1))))

/-- `is_symmetric(m)` (slice version): `is_square(m).unwrap()`. -/
def isSymmetricU (eps : α) (m : List α) : Option Bool :=
  (isSquareLen m.length).map fun n =>
    (List.range n).all fun i => (List.range n).all fun j =>
      if i ≤ j then !(decide (eps < HasAbs.abs (m[i * n + j]! - m[j * n + i]!))) else true

end pred

/-- `diag(a)` (slice version). -/
def diagU [Inhabited α] (a : List α) : Option (List α) :=
  (isSquareLen a.length).map fun n => (List.range n).map fun i => a[i * n + i]!

/-! ### pattern constructors -/

/-- `diag_matrix(a)`. -/
def diagMatrix [Zero α] [Inhabited α] (a : List α) : List α :=
  (Mat.build a.length a.length fun i j => if i = j then a[i]! else 0).data

/-- `toeplitz(x)`: `v[i*n + j] = x[|i - j|]`. -/
def toeplitz [Inhabited α] (x : List α) : List α :=
  (Mat.build x.length x.length fun i j => x[if j ≤ i then i - j else j - i]!).data

/-- `vandermonde(x, n)`: for each `v`, the powers `v.powi(0), …, v.powi(n-1)`. -/
def vandermonde [Mul α] [Div α] [One α] (x : List α) (n : Nat) : List α :=
  x.flatMap fun v => (List.range n).map fun (i : Nat) => powi v (i : Int)

/-- `design(x, rows)`: `col_to_row_major([1; rows] ++ x, rows)`. -/
def design [One α] [Inhabited α] (x : List α) (rows : Nat) : Option (List α) :=
  colToRowMajor (List.replicate rows (1 : α) ++ x) rows

end Ctor
end Cv
