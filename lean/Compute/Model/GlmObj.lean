import Compute.Model.Glm
/-
The `GLM` OBJECT of `src/predict/glms/glm.rs` as a state machine over the functional model `Model/Glm.lean`:
configuration (`family`, `alpha`, `tolerance`, `weights`, `offsets` — the first four are `pub` fields and can also be
assigned directly), the coefficient vector (`set_coef` / `fit`), and what the last `fit` stored.  Every accessor is a
function of the current state only; `fit` overwrites everything it stores, so a read after a `fit` does not depend on
the object's earlier history (theorems: `Props/C06History.lean`).  Core Lean only.
-/
namespace Cv.Glm

structure Obj (α : Type) where
  family : Family
  alpha : α
  tol : α
  weights : Option (List α)
  offsets : Option (List α)
  coef : Option (List α)        -- `self.coef`
  last : Option (Fit α)         -- deviance, information_matrix, n, p (and status) of the last `fit`

namespace Obj
variable {α : Type}

/-- `GLM::new(family)`: `alpha = 0`, `tolerance = 1e-5` (passed as `tol0`), nothing set, nothing fitted. -/
def new [Zero α] (family : Family) (tol0 : α) : Obj α :=
  { family := family, alpha := 0, tol := tol0, weights := none, offsets := none, coef := none, last := none }

/-- `set_penalty` (or the assignment `glm.alpha = a`) -/
def setPenalty (o : Obj α) (a : α) : Obj α := { o with alpha := a }
/-- `set_tolerance` (or `glm.tolerance = t`) -/
def setTolerance (o : Obj α) (t : α) : Obj α := { o with tol := t }
/-- `set_weights` (or `glm.weights = Some(w)`) -/
def setWeights (o : Obj α) (w : List α) : Obj α := { o with weights := some w }
/-- `set_offset` -/
def setOffset (o : Obj α) (off : List α) : Obj α := { o with offsets := some off }
/-- `set_coef` -/
def setCoef (o : Obj α) (c : List α) : Obj α := { o with coef := some c }

section
variable [Add α] [Sub α] [Mul α] [Div α] [Neg α] [Zero α] [One α] [NatCast α]
  [LT α] [DecidableLT α] [BEq α] [Transc α] [GlmScalar α] [Inhabited α]

/-- `fit(x, y, max_iter)` with the object's current configuration (`none` = panic) -/
def fit (solve : List α → List α → Option (List α)) (o : Obj α) (x y : List α) (maxIter : Nat) : Option (Obj α) :=
  match Glm.fit solve o.family x y o.weights o.offsets o.alpha o.tol maxIter with
  | none => none
  | some r => some { o with coef := some r.coef, last := some r }

/-- What the accessors see: the stored results of the last `fit`, with the CURRENT coefficient vector and offsets
(`predict` reads `self.coef`, `self.offsets`, `self.p`); `none` = never fitted (`deviance()` is `Err`, `p.unwrap()` panics). -/
def view (o : Obj α) : Option (Fit α) :=
  o.last.map fun r => { r with coef := o.coef.getD r.coef, offsets := o.offsets }

end
end Obj
end Cv.Glm
