import Compute.Model.Decomp
/-
General "loop with in-place writes" lemmas for the third pass of the source tie
(`Compute/Props/SrcTieCxxMut.lean`, generated side `Compute/Generated/SrcCxxMut.lean`).

The translator `tools/rs2lean.py` (option `mut`) spells a Rust loop that updates a `let mut` vector in place the way the
source writes it: a fold over `List.range n` / `(List.range n).reverse` whose state is the vector, written with `List.set`
and read with `getD` (`Cv.LA.rd`), slices as `take`/`drop`.  Some hand models build the same vector functionally
(append / cons / `map`).  The lemmas below say that the two spellings produce the same list.  They are statements about
list combinators only: nothing about the scalar operations is used (no algebra), so they hold for every element type,
in particular at `Float`.  Core Lean only (no Mathlib).
-/
namespace Cv.SrcMut

variable {α β γ : Type}

/-! ### folds related step by step -/

/-- Two folds over the same list whose states stay related: if `R` holds initially and every step preserves it,
it holds at the end (used with `R s t := s = (t.1, t.2.map Int.ofNat)` for the `Vec<i32>` pivots of `lu`). -/
theorem foldl_rel {σ τ : Type} (R : σ → τ → Prop) (f : σ → α → σ) (g : τ → α → τ)
    (h : ∀ s t a, R s t → R (f s a) (g t a)) (l : List α) (s : σ) (t : τ) (h0 : R s t) :
    R (l.foldl f s) (l.foldl g t) := by
  induction l generalizing s t with
  | nil => exact h0
  | cons a r ih => exact ih _ _ (h s t a h0)

/-- The same with the item known to be in the list. -/
theorem foldl_rel_mem {σ τ : Type} (R : σ → τ → Prop) (f : σ → α → σ) (g : τ → α → τ) (l : List α)
    (h : ∀ s t a, a ∈ l → R s t → R (f s a) (g t a)) (s : σ) (t : τ) (h0 : R s t) :
    R (l.foldl f s) (l.foldl g t) := by
  induction l generalizing s t with
  | nil => exact h0
  | cons a r ih =>
    exact ih (fun s t b hb => h s t b (List.mem_cons_of_mem _ hb)) _ _ (h s t a (List.mem_cons_self ..) h0)

/-- Two folds whose steps agree on the states satisfying an invariant that the steps preserve (used for a loop-invariant
read hoisted out of a loop: `let p = v[c]; for i in .. { v[idx(i)] = f(.., p) }` with `idx(i) ≠ c`). -/
theorem foldl_congr_inv {σ : Type} (P : σ → Prop) (f g : σ → α → σ) (l : List α)
    (h : ∀ s a, a ∈ l → P s → f s a = g s a ∧ P (g s a)) (s : σ) (h0 : P s) :
    l.foldl f s = l.foldl g s := by
  induction l generalizing s with
  | nil => rfl
  | cons a r ih =>
    simp only [List.foldl_cons]
    have ha := h s a (List.mem_cons_self ..) h0
    rw [ha.1]
    exact ih (fun s b hb => h s b (List.mem_cons_of_mem _ hb)) _ ha.2

/-- `for (i, &p) in v.iter().enumerate() { s = f(s, p, i) }` is the index loop `for i in 0..v.len() { s = f(s, v[i], i) }`. -/
theorem foldl_zipIdx_eq_foldl_range [Inhabited α] {σ : Type} (f : σ → α → Nat → σ) (l : List α) (s : σ) :
    (l.zipIdx).foldl (fun s p => f s p.1 p.2) s = (List.range l.length).foldl (fun s i => f s l[i]! i) s := by
  have h : l.zipIdx = (List.range l.length).map (fun i => (l[i]!, i)) := by
    apply List.ext_getElem
    · simp
    · intro i h1 h2
      simp only [List.length_zipIdx] at h1
      simp [h1]
  rw [h, List.foldl_map]

/-- Two folds whose step functions agree on the items of the list. -/
theorem foldl_congr_mem {σ : Type} (f g : σ → α → σ) (l : List α) (h : ∀ s a, a ∈ l → f s a = g s a) (s : σ) :
    l.foldl f s = l.foldl g s := by
  induction l generalizing s with
  | nil => rfl
  | cons a r ih =>
    simp only [List.foldl_cons]
    rw [h s a (List.mem_cons_self ..)]
    exact ih (fun s b hb => h s b (List.mem_cons_of_mem _ hb)) _

/-- The same for `foldlM` in `Option`. -/
theorem foldlM_congr_mem {σ : Type} (f g : σ → α → Option σ) (l : List α) (h : ∀ s a, a ∈ l → f s a = g s a) (s : σ) :
    l.foldlM f s = l.foldlM g s := by
  induction l generalizing s with
  | nil => rfl
  | cons a r ih =>
    simp only [List.foldlM_cons]
    rw [h s a (List.mem_cons_self ..)]
    congr 1
    funext s'
    exact ih (fun s b hb => h s b (List.mem_cons_of_mem _ hb)) _

/-- `for i in it { v.push(f(i)) }` is `v ++ it.map(f)`. -/
theorem foldl_push_map (f : α → β) (init : List β) (l : List α) :
    l.foldl (fun acc i => acc ++ [f i]) init = init ++ l.map f := by
  induction l generalizing init with
  | nil => simp
  | cons a t ih => simp [ih]

/-! ### `for i in 0..n { x[i] = g(i, &x[..i]) }` builds `x` left to right -/

/-- `x[i] = g(i, &x[..i])` for `i = 0, .., k-1` on a vector of length `≥ k`: the first `k` cells are the list built by
appending, the rest is untouched (whatever it was: uninitialised memory). -/
theorem foldl_set_take_eq_push_append (g : Nat → List β → β) (x0 : List β) (k : Nat) (hk : k ≤ x0.length) :
    (List.range k).foldl (fun x i => x.set i (g i (x.take i))) x0 =
      (List.range k).foldl (fun acc i => acc ++ [g i acc]) [] ++ x0.drop k ∧
    ((List.range k).foldl (fun acc i => acc ++ [g i acc]) ([] : List β)).length = k := by
  induction k with
  | zero => simp
  | succ k ih =>
    have ⟨h1, h2⟩ := ih (by omega)
    rw [List.range_succ, List.foldl_append, List.foldl_append]
    simp only [List.foldl_cons, List.foldl_nil]
    rw [h1]
    constructor
    · have hd : x0.drop k = x0[k] :: x0.drop (k + 1) := by
        rw [List.drop_eq_getElem_cons (by omega)]
      rw [List.take_append_of_le_length (by omega), List.take_of_length_le (by omega)]
      rw [List.set_append_right _ _ (by omega), h2, Nat.sub_self, hd, List.set_cons_zero,
        List.append_assoc, List.singleton_append]
    · simp [h2]

/-- `let mut x = <n cells>; for i in 0..n { x[i] = g(i, &x[..i]) }` is the list built by `n` appends. -/
theorem foldl_set_take_eq_push (g : Nat → List β → β) (x0 : List β) (n : Nat) (hn : x0.length = n) :
    (List.range n).foldl (fun x i => x.set i (g i (x.take i))) x0 =
      (List.range n).foldl (fun acc i => acc ++ [g i acc]) [] := by
  have h := (foldl_set_take_eq_push_append g x0 n (by omega)).1
  rw [h, List.drop_of_length_le (by omega), List.append_nil]

/-! ### `for i in (0..n).rev() { x[i] = g(i, &x[i+1..]) }` builds `x` right to left -/

/-- After the cells `m-1, .., 0` have been written (those above `m` already hold `acc`), the vector is the list built by
consing. -/
theorem foldl_rev_set_drop_eq_cons_gen (g : Nat → List β → β) (m : Nat) :
    ∀ (x acc : List β), x.length = m + acc.length → x.drop m = acc →
      (List.range m).reverse.foldl (fun x i => x.set i (g i (x.drop (i + 1)))) x =
        (List.range m).reverse.foldl (fun acc i => g i acc :: acc) acc := by
  induction m with
  | zero =>
    intro x acc _ hd
    simpa using hd
  | succ m ih =>
    intro x acc hl hd
    rw [List.range_succ, List.reverse_append]
    simp only [List.reverse_cons, List.reverse_nil, List.nil_append, List.singleton_append, List.foldl_cons]
    rw [hd]
    apply ih
    · simp only [List.length_set, List.length_cons]; omega
    · have hm : m < x.length := by omega
      rw [List.drop_set, if_neg (by omega), Nat.sub_self, List.drop_eq_getElem_cons hm, List.set_cons_zero]
      have hd' : x.drop (m + 1) = acc := hd
      rw [hd']

/-- `let mut x = <n cells>; for i in (0..n).rev() { x[i] = g(i, &x[i+1..]) }` is the list built by `n` conses. -/
theorem foldl_rev_set_drop_eq_cons (g : Nat → List β → β) (x0 : List β) (n : Nat) (hn : x0.length = n) :
    (List.range n).reverse.foldl (fun x i => x.set i (g i (x.drop (i + 1)))) x0 =
      (List.range n).reverse.foldl (fun acc i => g i acc :: acc) [] :=
  foldl_rev_set_drop_eq_cons_gen g n x0 [] (by simp [hn]) (List.drop_of_length_le (by omega))

/-! ### `for i in 0..m { x[i] = f(i) }` -/

/-- Writing `f 0, .., f (m-1)` into the first `m` cells. -/
theorem foldl_set_range_eq_map (f : Nat → β) (x0 : List β) (m : Nat) (hm : m ≤ x0.length) :
    (List.range m).foldl (fun x i => x.set i (f i)) x0 = (List.range m).map f ++ x0.drop m := by
  have h := (foldl_set_take_eq_push_append (fun i _ => f i) x0 m hm).1
  rw [h]
  congr 1
  have := Cv.SrcMut.foldl_push_map f [] (List.range m)
  simpa using this

/-! ### nested `push` loops -/

/-- `for a in l { for b in g(a) { v.push(f(a, b)) } }` is `v ++ l.flatMap(|a| g(a).map(|b| f(a, b)))`. -/
theorem foldl_foldl_push_eq_flatMap (g : α → List γ) (f : α → γ → β) (init : List β) (l : List α) :
    l.foldl (fun acc a => (g a).foldl (fun acc b => acc ++ [f a b]) acc) init =
      init ++ l.flatMap (fun a => (g a).map (f a)) := by
  induction l generalizing init with
  | nil => simp
  | cons a t ih =>
    simp only [List.foldl_cons, List.flatMap_cons]
    rw [foldl_push_map, ih, List.append_assoc]

/-! ### scattered writes: `for b in l { x[idx(b)] = val(b) }` — each cell written (at most) once -/

section scatter
variable (idx : α → Nat) (val : α → β)

theorem foldl_set_length (l : List α) (x0 : List β) :
    (l.foldl (fun x b => x.set (idx b) (val b)) x0).length = x0.length := by
  induction l generalizing x0 with
  | nil => rfl
  | cons a t ih => simp only [List.foldl_cons]; rw [ih, List.length_set]

/-- A cell no item writes to keeps its initial content. -/
theorem foldl_set_getElem?_of_not_mem (l : List α) (x0 : List β) (p : Nat) (h : ∀ b ∈ l, idx b ≠ p) :
    (l.foldl (fun x b => x.set (idx b) (val b)) x0)[p]? = x0[p]? := by
  induction l generalizing x0 with
  | nil => rfl
  | cons a t ih =>
    simp only [List.foldl_cons]
    rw [ih _ (fun b hb => h b (List.mem_cons_of_mem _ hb)),
      List.getElem?_set_ne (h a (List.mem_cons_self ..))]

/-- If the index map is injective on the items, the cell of an item holds that item's value at the end (it is written
exactly once). -/
theorem foldl_set_getElem?_of_mem (l : List α) (hinj : ∀ b ∈ l, ∀ b' ∈ l, idx b = idx b' → b = b')
    (x0 : List β) (b : α) (hb : b ∈ l) (hlt : idx b < x0.length) :
    (l.foldl (fun x b => x.set (idx b) (val b)) x0)[idx b]? = some (val b) := by
  induction l generalizing x0 with
  | nil => cases hb
  | cons a t ih =>
    simp only [List.foldl_cons]
    have hinj' : ∀ c ∈ t, ∀ c' ∈ t, idx c = idx c' → c = c' :=
      fun c hc c' hc' => hinj c (List.mem_cons_of_mem _ hc) c' (List.mem_cons_of_mem _ hc')
    by_cases hbt : b ∈ t
    · exact ih hinj' _ hbt (by rw [List.length_set]; exact hlt)
    · have hba : b = a := by
        cases List.mem_cons.mp hb with
        | inl h => exact h
        | inr h => exact absurd h hbt
      subst hba
      rw [foldl_set_getElem?_of_not_mem idx val t _ (idx b)]
      · rw [List.getElem?_set_self hlt]
      · intro c hc hcb
        have := hinj c (List.mem_cons_of_mem _ hc) b (List.mem_cons_self ..) hcb
        exact hbt (this ▸ hc)

/-- **Each cell written exactly once.**  If the items of `l` are sent injectively to indices and `inv` enumerates, for every
cell `p < n`, an item of `l` written to `p`, then the loop `for b in l { x[idx(b)] = val(b) }` on a vector of length `n`
produces `p ↦ val (inv p)` — whatever the vector held before. -/
theorem foldl_set_bij_eq_map (l : List α) (hinj : ∀ b ∈ l, ∀ b' ∈ l, idx b = idx b' → b = b')
    (n : Nat) (inv : Nat → α) (hinv : ∀ p, p < n → inv p ∈ l ∧ idx (inv p) = p) (x0 : List β) (hn : x0.length = n) :
    l.foldl (fun x b => x.set (idx b) (val b)) x0 = (List.range n).map (fun p => val (inv p)) := by
  apply List.ext_getElem?
  intro p
  by_cases hp : p < n
  · have ⟨hm, hi⟩ := hinv p hp
    have := foldl_set_getElem?_of_mem idx val l hinj x0 (inv p) hm (by rw [hi, hn]; exact hp)
    rw [hi] at this
    rw [this, List.getElem?_map, List.getElem?_range hp]
    rfl
  · rw [List.getElem?_eq_none (by rw [foldl_set_length, hn]; omega),
      List.getElem?_eq_none (by simp only [List.length_map, List.length_range]; omega)]

end scatter

/-! ### nested loops = one loop over the pairs -/

/-- `for i in l { for j in m(i) { x = f(x, i, j) } }` is one fold over the pairs `(i, j)` in loop order. -/
theorem foldl_foldl_eq_foldl_pairs {σ : Type} (f : σ → α → γ → σ) (m : α → List γ) (l : List α) (x0 : σ) :
    l.foldl (fun x i => (m i).foldl (fun x j => f x i j) x) x0 =
      (l.flatMap fun i => (m i).map fun j => (i, j)).foldl (fun x q => f x q.1 q.2) x0 := by
  induction l generalizing x0 with
  | nil => rfl
  | cons a t ih =>
    simp only [List.foldl_cons, List.flatMap_cons, List.foldl_append, List.foldl_map]
    exact ih _

/-- `for a in l { v.extend(g(a)) }` is `v ++ l.flat_map(g)` (bridge between the fold-with-append and the `flatMap` spelling of a
loop that only extends). -/
theorem foldl_append_eq_flatMap (g : α → List β) (init : List β) (l : List α) :
    l.foldl (fun acc a => acc ++ g a) init = init ++ l.flatMap g := by
  induction l generalizing init with
  | nil => simp
  | cons a t ih => simp only [List.foldl_cons, List.flatMap_cons]; rw [ih, List.append_assoc]

/-- membership in the pair list of two ranges -/
theorem mem_pairs_range (r c : Nat) (q : Nat × Nat) :
    q ∈ ((List.range r).flatMap fun i => (List.range c).map fun j => (i, j)) ↔ q.1 < r ∧ q.2 < c := by
  simp only [List.mem_flatMap, List.mem_range, List.mem_map]
  constructor
  · rintro ⟨i, hi, j, hj, rfl⟩; exact ⟨hi, hj⟩
  · rintro ⟨h1, h2⟩; exact ⟨q.1, h1, q.2, h2, rfl⟩

/-- `(0..r).flat_map(|i| (0..c).map(|j| f(i, j)))` is the row-major enumeration `k ↦ f (k / c) (k % c)` of `r * c` cells. -/
theorem flatMap_range_map_range (f : Nat → Nat → β) (r c : Nat) :
    ((List.range r).flatMap fun i => (List.range c).map (f i)) =
      (List.range (r * c)).map fun k => f (k / c) (k % c) := by
  induction r with
  | zero => simp
  | succ r ih =>
    rw [List.range_succ, List.flatMap_append, ih, Nat.succ_mul, List.range_add, List.map_append]
    congr 1
    simp only [List.flatMap_cons, List.flatMap_nil, List.append_nil, List.map_map]
    apply List.map_congr_left
    intro k hk
    have hk' : k < c := List.mem_range.mp hk
    have hc : 0 < c := by omega
    simp only [Function.comp_apply]
    rw [Nat.mul_comm r c, Nat.mul_add_div hc, Nat.div_eq_of_lt hk', Nat.add_zero, Nat.mul_add_mod, Nat.mod_eq_of_lt hk']

end Cv.SrcMut
