import Compute.Drv.Common
import Compute.Model.Scalar
import Compute.Model.Transforms
import Compute.Model.Binom
import Compute.Model.BinomAlt
/-
Driver for C17.  Requests
  logisticv <vec> | logit p | rt1 x (logistic then logit) | rt2 p (logit then logistic)
  boxcox x lambda | boxcoxs x lambda alpha | softmax2 c <vec> (softmax x, softmax (x .+ c)) | binom n k | binomalt n k
Replies: `= h`, `= p r`, `= <vec>`, `= c`, `! panic`.
`binom`: the guard replies `= 0` (the source returns 0); overflow/underflow of a 64-bit operation
replies `! panic` (the executor is built with overflow checks).
-/
open Cv

def c17Opt (r : Option Float) : String :=
  match r with
  | some v => ok (showFloat v)
  | none => panicked

def c17Step (args : List String) : String :=
  match args with
  | "logisticv" :: rest => withArgs pVec rest fun x => ok (showVec (x.map logistic))
  | "logit" :: rest => withArgs pFloat rest fun p => c17Opt (logit p)
  | "rt1" :: rest => withArgs pFloat rest fun x =>
      let p := logistic x
      match logit p with
      | some r => ok s!"{showFloat p} {showFloat r}"
      | none => panicked
  | "rt2" :: rest => withArgs pFloat rest fun p =>
      match logit p with
      | some q => ok s!"{showFloat q} {showFloat (logistic q)}"
      | none => panicked
  | "boxcox" :: rest => withArgs (do let x ← pFloat; let l ← pFloat; pure (x, l)) rest fun (x, l) =>
      c17Opt (boxcox x l)
  | "boxcoxs" :: rest =>
      withArgs (do let x ← pFloat; let l ← pFloat; let a ← pFloat; pure (x, l, a)) rest fun (x, l, a) =>
      c17Opt (boxcoxShifted x l a)
  | "softmax2" :: rest => withArgs (do let c ← pFloat; let x ← pVec; pure (c, x)) rest fun (c, x) =>
      ok s!"{showVec (softmax x)} {showVec (softmax (x.map fun v => v + c))}"
  | "binom" :: rest => withArgs (do let n ← pNat; let k ← pNat; pure (n, k)) rest fun (n, k) =>
      if n ≥ 2 ^ 64 ∨ k ≥ 2 ^ 64 then badOp
      else match binomCoeff n k with
        | .val c => ok (toString c)
        | .guard => ok "0"
        | .overflow => panicked
        | .underflow => panicked
  | "binomalt" :: rest => withArgs (do let n ← pNat; let k ← pNat; pure (n, k)) rest fun (n, k) =>
      if n ≥ 2 ^ 64 ∨ k ≥ 2 ^ 64 then badOp
      else match binomCoeffAlt Float n k with
        | some c => ok (toString c)
        | none => panicked
  | _ => badOp

def main (args : List String) : IO UInt32 := mainWith () (fun _ t => ((), c17Step t)) args
