import Compute.Lemmas.Rounding7
import Compute.Lemmas.C10DeepLM
import Compute.Props.Rounding6
import Mathlib.Tactic.NormNum
/-
Worst-case rounding-error theorems, seventh batch.

C06 — one Fisher-scoring (IRLS) step of `GLM::fit` (`Model/Glm.lean`, `loopBody`) as a PERTURBED WEIGHTED
NORMAL SYSTEM in the standard model of floating-point arithmetic.  `scoringStep` (Lemmas) is the part of
`loopBody` after the link functions: `ĝ = compute_dbeta`, `Ĥ = compute_ddbeta`, the penalty branch
(`alpha > 0.`), `δ̂ = solve(Ĥ', ĝ')`, `β⁺ = β ⊖ δ̂` (`loopBody_scoringStep`, every scalar type).

* `scoringStep_system`:  `(XᵀŴX + α_e·I + E)·δ̂ = −Xᵀr̂ + α_e·P₁β + e`  with
      |E[a,b]| ≤ γ_{n+2}·(|X|ᵀ|Ŵ||X|)[a,b] + [a=b]·u·(|Ĥ[a,a]| + α_e) + γ_{3p+1}·W[a,b]
      |e[a]|   ≤ γ_{n+1}·(|X|ᵀ|r̂|)[a] + [a≠0]·γ₂·(|ĝ[a]| + α_e·|β[a]|)
  `Ŵ = diag(ŵ)`, `r̂` the COMPUTED working weights / residuals (`wwt_fac`, `wres_fac`: three resp. four
  roundings on `wᵢdμᵢ²/vᵢ`, `wᵢ(yᵢ−μᵢ)dμᵢ/vᵢ`), `W` the weight of the route of `solve` (a true solve: a genuine
  backward error, `RoundingLU.solve_backward_error`), `α_e = α` if the branch `alpha > 0.` is taken, else 0,
  `P₁` = identity without the intercept.
* `scoring_fixed_point`: CONVERGED IN FLOATS ⇒ SCORE SMALL.  If `β ⊖ δ̂ = β` entrywise then `|δ̂_b| ≤ γ₁|β_b|` and
      |(−Xᵀr̂ + α_e·P₁β)[a]| ≤ γ₁·Σ_b (|XᵀŴX + α_e·I|[a,b] + |E[a,b]|)·|β_b| + |e[a]|.
  The score is the one built from the computed working residuals `r̂` (i.e. from the computed `μ̂`, `dμ̂`,
  `v̂`); its distance to the score at the exact link values is not analysed (`_partial`, see the report).

* `invLinkF_error` (Lemmas): accuracy of the computed means `μ̂ᵢ` at the computed linear predictor with a library
  `exp` of relative error `≤ uf` (`ExpLnStd`): exact / `γ₂+γ^f₁+γ₂γ^f₁` / `uf` for identity / logistic / log link.

C10 — Levenberg–Marquardt on models LINEAR in the parameters (`r(θ) = y − Jθ`), over ℝ with the exact solver
(namespace `Cv.Rounding7.LM`; `step_of_model` ties the step of `lmBody` — `luSolveVec (damp p μ jtj) jtr` — to the
damped normal equations `IsStep` via `C10DeepLM.solveExact_of_nonsingular` / `damped_nonsingular`):
* `lm_fixed_iff`         (a) the step vanishes iff `JᵀJθ = Jᵀy`
* `lm_rss_decrease`      (b) `‖r⁺‖² = ‖r‖² − δᵀAδ − 2λδᵀDδ`: strictly smaller unless `θ` is a least-squares solution
* `lm_linear_rho_pos`, `lm_mu_update_lt_two`: every step is accepted and the damping stays in `[1/3, 2)` after the
  first step — the honest `λ ≤ Λ = max(μ₀, 2)`
* `lm_error_recursion`   (c) `(A+λD)(θ⁺−θ*) = λD(θ−θ*)`
* `lm_contraction`, `lm_geometric`, `lm_rate_lt_one`   (c) `‖θ_k−θ*‖²_A ≤ (Λκ/(1+Λκ))^k·‖θ_0−θ*‖²_A` for `D ⪯ κ·JᵀJ`
NOT DONE: C17 `binom_coeff_alt`.

TRUSTED LINK as in `Props/RoundingLU.lean`.  Bare model.
Non-vacuity: `namespace Examples`, `Examples2`, `LM.Examples` at the end; `namespace Examples3` is a complete scoring
step evaluated in the 1 % model (`u = 1/100 > 0`) whose nonzero step is absorbed (`β ⊖ δ̂ = β`, `δ̂ = (1,2)`).
`scoringStep_system` and `scoring_fixed_point` are stated for `p ≥ 2` coefficients (`hp`); `p = 1` is not covered.
-/
set_option linter.unusedSectionVars false
set_option linter.unusedVariables false
namespace Cv.Rounding7
open Cv Cv.FlModel Cv.LA Cv.LA.Lu Cv.Rounding Cv.FactorRounding Cv.RoundingLU Cv.Rounding3 Cv.Rounding6 Cv.Glm Finset

variable {M : FlModel} [FlSqrt M]

/-- **one scoring step as a perturbed weighted normal system** (see the file header).  Stated for `p ≥ 2`
coefficients (`hp`: the backward-error theorem of the solver, `solve_backward_W`, needs order `≥ 2`); the
one-coefficient case is not covered. -/
theorem scoringStep_system (x y w coef mu dmu var : List (Fl M)) (alpha : Fl M) (n p : Nat)
    (hn : 0 < n) (hp : 2 ≤ p) (hx : x.length = n * p) (hy : y.length = n) (hmu : mu.length = n)
    (hdm : dmu.length = n) (hv : var.length = n) (hw : w.length = n)
    (s coef' : List (Fl M))
    (h : scoringStep solve x y w alpha p coef mu dmu var = some (s, coef'))
    (hu1 : ((3 * p + 1 : Nat) : ℝ) * M.u < 1) (hu2 : ((n + 2 : Nat) : ℝ) * M.u < 1)
    (hd : ∀ g H, computeDbeta x y mu dmu var w = some g → computeDdbeta x dmu var w = some H →
      route (penalised alpha p coef g H).2 = some none →
      ∀ f piv, lu (penalised alpha p coef g H).2 = some (f, piv) → ∀ k, k < p → ev p f k k ≠ 0) :
    ∃ (ww r g H : List (Fl M)) (W E : Nat → Nat → ℝ) (e : Nat → ℝ),
      workingWeights dmu var w = some ww ∧ workingResiduals y mu dmu var w = some r ∧
      computeDbeta x y mu dmu var w = some g ∧ computeDdbeta x dmu var w = some H ∧
      SolverWeight p (penalised alpha p coef g H).2 W ∧ s.length = p ∧
      (∀ a b, a < p → b < p → |E a b| ≤
        M.γ (n + 2) * ∑ i ∈ range n, |ev p x i a| * (|ev p x i b| * |vv ww i|)
          + (if a = b then M.u * (|ev p H a a| + alphaEff alpha) else 0)
          + M.γ (3 * p + 1) * W a b) ∧
      (∀ a, a < p → |e a| ≤
        M.γ (n + 1) * ∑ i ∈ range n, |ev p x i a| * |vv r i|
          + (if a = 0 then 0 else M.γ 2 * (|vv g a| + alphaEff alpha * |vv coef a|))) ∧
      ∀ a, a < p →
        ∑ b ∈ range p, (∑ i ∈ range n, ev p x i a * (ev p x i b * vv ww i)
            + (if a = b then alphaEff alpha else 0) + E a b) * vv s b =
          -(∑ i ∈ range n, ev p x i a * vv r i) + (if a = 0 then 0 else alphaEff alpha * vv coef a) + e a := by
  have hun := M.u_nonneg
  obtain ⟨r, g, hr, hrl, hg, hgl, hgP⟩ := computeDbeta_fl x y mu dmu var w n p hn hx hy hmu hdm hv hw
  obtain ⟨ww, H, hww, hwl, hH, hHl, hHb⟩ := computeDdbeta_fl x dmu var w n p hn hx hdm hv hw hu2
  -- unfold the step
  unfold scoringStep at h
  simp only [hg, hH, Option.bind_eq_bind, Option.bind_some] at h
  rcases hs : solve (penalised alpha p coef g H).2 (penalised alpha p coef g H).1 with _ | s'
  · rw [hs] at h; simp at h
  rw [hs, Option.bind_some] at h
  rcases hc : Vops.vbin (· - ·) coef s' with _ | c'
  · rw [hc] at h; simp at h
  rw [hc, Option.bind_some] at h
  simp only [Option.pure_def, Option.some.injEq, Prod.mk.injEq] at h
  obtain ⟨hss, _⟩ := h
  subst hss
  obtain ⟨hH'l, hH'e⟩ := penalised_H alpha p coef g H hHl
  obtain ⟨hg'l, hg'e⟩ := penalised_g alpha p coef g H
  obtain ⟨_, hsl, W, ΔA, hW, hΔ, hsolve⟩ := solve_backward_W _ _ s' p hH'l hp hs hu1 (hd g H hg hH)
  set H' := (penalised alpha p coef g H).2 with hH'
  set g' := (penalised alpha p coef g H).1 with hg'
  set αe := alphaEff alpha with hαe
  have hαe0 : 0 ≤ αe := alphaEff_nonneg alpha
  set Hx : Nat → Nat → ℝ := fun a b => ∑ i ∈ range n, ev p x i a * (ev p x i b * vv ww i) with hHx
  set gx : Nat → ℝ := fun a => -(∑ i ∈ range n, ev p x i a * vv r i)
    + (if a = 0 then 0 else αe * vv coef a) with hgx
  refine ⟨ww, r, g, H, W,
    fun a b => (ev p H' a b - Hx a b - (if a = b then αe else 0)) + ΔA a b,
    fun a => vv g' a - gx a, hww, hr, hg, hH, hW, hsl, ?_, ?_, ?_⟩
  · -- the bound on E
    intro a b ha hb
    refine le_trans (abs_add_le _ _) (add_le_add ?_ (hΔ a b ha hb))
    obtain ⟨δ, hδ, hent⟩ := hH'e a b ha hb
    rw [hent]
    by_cases hab : a = b
    · subst hab
      simp only [if_true]
      have hb' := hHb a a ha ha
      set δ' : ℝ := if 0 < alpha.val then δ else 0 with hδ'
      have hδ'u : |δ'| ≤ M.u := by
        rw [hδ']; split
        · exact hδ
        · simpa using hun
      have e1 : (ev p H a a + αe) * (1 + δ') - Hx a a - αe =
          (ev p H a a - Hx a a) + δ' * (ev p H a a + αe) := by ring
      rw [e1]
      refine le_trans (abs_add_le _ _) (add_le_add hb' ?_)
      rw [abs_mul]
      have hfin : |δ'| * |ev p H a a + αe| ≤ M.u * (|ev p H a a| + αe) := by
        refine mul_le_mul hδ'u ?_ (abs_nonneg _) hun
        refine le_trans (abs_add_le _ _) ?_
        rw [abs_of_nonneg hαe0]
      exact hfin
    · simp only [hab, if_false, sub_zero, add_zero]
      exact hHb a b ha hb
  · -- the bound on e
    intro a ha
    have hPa := (hgP a ha)
    have hu1' : ((n + 1 : Nat) : ℝ) * M.u < 1 :=
      lt_of_le_of_lt (mul_le_mul_of_nonneg_right (Nat.cast_le.mpr (by omega)) hun) hu2
    have herr := hPa.error hu1'
    have hsum : ((List.range n).map fun i => -(ev p x i a * vv r i)).sum =
        -(∑ i ∈ range n, ev p x i a * vv r i) := by
      rw [Rounding3.sum_map_range]; simp
    have habs : (((List.range n).map fun i => -(ev p x i a * vv r i)).map (|·|)).sum =
        ∑ i ∈ range n, |ev p x i a| * |vv r i| := by
      rw [List.map_map, Rounding3.sum_map_range]
      exact Finset.sum_congr rfl fun i _ => by simp [abs_mul]
    rw [hsum, habs] at herr
    obtain ⟨f1, f2, hf1, hf2, hent⟩ := hg'e a (by rw [hgl]; exact ha)
    beta_reduce
    rw [hent]
    have h2u : ((2 : Nat) : ℝ) * M.u < 1 :=
      lt_of_le_of_lt (mul_le_mul_of_nonneg_right (Nat.cast_le.mpr (by omega)) hun) hu1
    by_cases ha0 : a = 0
    · simp only [hgx, ha0, if_true, add_zero]
      have : vv g 0 - -(∑ i ∈ range n, ev p x i 0 * vv r i) =
          vv g 0 - -(∑ i ∈ range n, ev p x i 0 * vv r i) := rfl
      subst ha0
      simpa using herr
    · simp only [hgx, ha0, if_false]
      have e1 : vv g a * f1 + αe * vv coef a * f2 - (-(∑ i ∈ range n, ev p x i a * vv r i) + αe * vv coef a) =
          (vv g a - -(∑ i ∈ range n, ev p x i a * vv r i)) + (vv g a * (f1 - 1) + αe * vv coef a * (f2 - 1)) := by
        ring
      rw [e1]
      refine le_trans (abs_add_le _ _) (add_le_add herr ?_)
      have hf1' := (hf1.mono (by omega : 1 ≤ 2)).abs_sub_one_le h2u
      have hf2' := hf2.abs_sub_one_le h2u
      refine le_trans (abs_add_le _ _) ?_
      rw [abs_mul, abs_mul, abs_mul, abs_of_nonneg hαe0, mul_add]
      have t1 : |vv g a| * |f1 - 1| ≤ M.γ 2 * |vv g a| := by
        rw [mul_comm]; exact mul_le_mul_of_nonneg_right hf1' (abs_nonneg _)
      have t2 : αe * |vv coef a| * |f2 - 1| ≤ M.γ 2 * (αe * |vv coef a|) := by
        rw [mul_comm]; exact mul_le_mul_of_nonneg_right hf2' (by positivity)
      linarith
  · -- the equation
    intro a ha
    have := hsolve a ha
    beta_reduce
    have lhs : ∑ b ∈ range p, (Hx a b + (if a = b then αe else 0)
          + ((ev p H' a b - Hx a b - (if a = b then αe else 0)) + ΔA a b)) * vv s' b =
        ∑ b ∈ range p, (ev p H' a b + ΔA a b) * vv s' b :=
      Finset.sum_congr rfl (fun b _ => by ring)
    rw [lhs, show gx a + (vv g' a - gx a) = vv g' a by ring]
    exact this

/-- the last operation of the step -/
theorem scoringStep_coef {α : Type} [Add α] [Sub α] [Mul α] [Div α] [Zero α]
    [LT α] [DecidableLT α] [Inhabited α]
    (solve : List α → List α → Option (List α)) (x y w : List α) (alpha : α) (p : Nat)
    (coef mu dmu var s coef' : List α)
    (h : scoringStep solve x y w alpha p coef mu dmu var = some (s, coef')) :
    Vops.vbin (· - ·) coef s = some coef' := by
  unfold scoringStep at h
  simp only [Option.bind_eq_bind] at h
  rcases hg : computeDbeta x y mu dmu var w with _ | g
  · rw [hg] at h; simp at h
  rw [hg, Option.bind_some] at h
  rcases hH : computeDdbeta x dmu var w with _ | H
  · rw [hH] at h; simp at h
  rw [hH, Option.bind_some] at h
  rcases hs : solve (penalised alpha p coef g H).2 (penalised alpha p coef g H).1 with _ | s'
  · rw [hs] at h; simp at h
  rw [hs, Option.bind_some] at h
  rcases hc : Vops.vbin (· - ·) coef s' with _ | c'
  · rw [hc] at h; simp at h
  rw [hc, Option.bind_some] at h
  simp only [Option.pure_def, Option.some.injEq, Prod.mk.injEq] at h
  obtain ⟨h1, h2⟩ := h
  subst h1; subst h2
  exact hc

omit [FlSqrt M] in
/-- a step that does not change a coefficient in floating point is tiny: `β ⊖ s = β ⇒ |s| ≤ γ₁·|β|` -/
theorem step_small (β s : Fl M) (h : β - s = β) : |s.val| ≤ M.γ 1 * |β.val| := by
  obtain ⟨δ, hδ, hr⟩ := M.std (β.val - s.val)
  have hv : (β.val - s.val) * (1 + δ) = β.val := by
    have := congrArg Fl.val h
    rw [Fl.sub_val, hr] at this
    exact this
  have hf := Fac.one_add hδ
  have hpos := hf.pos
  have h1u : ((1 : Nat) : ℝ) * M.u < 1 := by simpa using M.u_lt_one
  have hinv := hf.inv.abs_sub_one_le h1u
  have hs : s.val = -(β.val * ((1 + δ)⁻¹ - 1)) := by
    have : β.val - s.val = β.val * (1 + δ)⁻¹ := by
      rw [eq_mul_inv_iff_mul_eq₀ hpos.ne']; exact hv
    linarith
  rw [hs, abs_neg, abs_mul, mul_comm]
  exact mul_le_mul_of_nonneg_right hinv (abs_nonneg _)

/-- **converged in floats ⇒ score small.**  If the scoring step leaves every coefficient unchanged in floating
point (`β ⊖ δ̂ = β`), then `|δ̂_b| ≤ γ₁|β_b|` and the penalised score built from the computed working residuals
satisfies, with `E`, `e` bounded exactly as in `scoringStep_system`,

  `|(−Xᵀr̂ + α_e·P₁β)[a]| ≤ γ₁·Σ_b (|(XᵀŴX + α_e·I)[a,b]| + |E[a,b]|)·|β_b| + |e[a]|`.

Stated for `p ≥ 2` coefficients (`hp`); `p = 1` is not covered.  `Examples3` below runs it with `u = 1/100` on a
step `δ̂ ≠ 0` that is absorbed. -/
theorem scoring_fixed_point (x y w coef mu dmu var : List (Fl M)) (alpha : Fl M) (n p : Nat)
    (hn : 0 < n) (hp : 2 ≤ p) (hx : x.length = n * p) (hy : y.length = n) (hmu : mu.length = n)
    (hdm : dmu.length = n) (hv : var.length = n) (hw : w.length = n) (hcl : coef.length = p)
    (s : List (Fl M))
    (h : scoringStep solve x y w alpha p coef mu dmu var = some (s, coef))
    (hu1 : ((3 * p + 1 : Nat) : ℝ) * M.u < 1) (hu2 : ((n + 2 : Nat) : ℝ) * M.u < 1)
    (hd : ∀ g H, computeDbeta x y mu dmu var w = some g → computeDdbeta x dmu var w = some H →
      route (penalised alpha p coef g H).2 = some none →
      ∀ f piv, lu (penalised alpha p coef g H).2 = some (f, piv) → ∀ k, k < p → ev p f k k ≠ 0) :
    ∃ (ww r g H : List (Fl M)) (W E : Nat → Nat → ℝ) (e : Nat → ℝ),
      workingWeights dmu var w = some ww ∧ workingResiduals y mu dmu var w = some r ∧
      computeDbeta x y mu dmu var w = some g ∧ computeDdbeta x dmu var w = some H ∧
      SolverWeight p (penalised alpha p coef g H).2 W ∧
      (∀ a b, a < p → b < p → |E a b| ≤
        M.γ (n + 2) * ∑ i ∈ range n, |ev p x i a| * (|ev p x i b| * |vv ww i|)
          + (if a = b then M.u * (|ev p H a a| + alphaEff alpha) else 0)
          + M.γ (3 * p + 1) * W a b) ∧
      (∀ a, a < p → |e a| ≤
        M.γ (n + 1) * ∑ i ∈ range n, |ev p x i a| * |vv r i|
          + (if a = 0 then 0 else M.γ 2 * (|vv g a| + alphaEff alpha * |vv coef a|))) ∧
      (∀ b, b < p → |vv s b| ≤ M.γ 1 * |vv coef b|) ∧
      ∀ a, a < p →
        |-(∑ i ∈ range n, ev p x i a * vv r i) + (if a = 0 then 0 else alphaEff alpha * vv coef a)| ≤
          M.γ 1 * ∑ b ∈ range p, (|∑ i ∈ range n, ev p x i a * (ev p x i b * vv ww i)
              + (if a = b then alphaEff alpha else 0)| + |E a b|) * |vv coef b|
            + |e a| := by
  obtain ⟨ww, r, g, H, W, E, e, h1, h2, h3, h4, h5, hsl, hE, he, heq⟩ :=
    scoringStep_system x y w coef mu dmu var alpha n p hn hp hx hy hmu hdm hv hw s coef h hu1 hu2 hd
  have hvb := scoringStep_coef solve x y w alpha p coef mu dmu var s coef h
  obtain ⟨_, hzip⟩ := C06L.vbin_some hvb
  have hsmall : ∀ b, b < p → |vv s b| ≤ M.γ 1 * |vv coef b| := by
    intro b hb
    have hb1 : b < coef.length := by omega
    have hb2 : b < s.length := by omega
    have hent : coef[b]! - s[b]! = coef[b]! := by
      have hzb : coef[b]! = (List.zipWith (· - ·) coef s)[b]! := congrArg (fun l : List (Fl M) => l[b]!) hzip
      rw [C06L.getBang_zipWith _ _ _ b hb1 hb2] at hzb
      exact hzb.symm
    have := step_small coef[b]! s[b]! hent
    simpa only [vv, bang_eq_rd] using this
  refine ⟨ww, r, g, H, W, E, e, h1, h2, h3, h4, h5, hE, he, hsmall, fun a ha => ?_⟩
  have hγ1 : 0 ≤ M.γ 1 := M.γ_nonneg 1 (by simpa using M.u_lt_one)
  have := heq a ha
  have e1 : -(∑ i ∈ range n, ev p x i a * vv r i) + (if a = 0 then 0 else alphaEff alpha * vv coef a) =
      ∑ b ∈ range p, (∑ i ∈ range n, ev p x i a * (ev p x i b * vv ww i)
        + (if a = b then alphaEff alpha else 0) + E a b) * vv s b - e a := by
    rw [this]; ring
  rw [e1]
  refine le_trans (abs_sub _ _) (add_le_add ?_ (le_refl _))
  refine le_trans (Finset.abs_sum_le_sum_abs _ _) ?_
  rw [Finset.mul_sum]
  refine Finset.sum_le_sum fun b hb => ?_
  rw [abs_mul]
  have hb' := Finset.mem_range.mp hb
  have t1 := abs_add_le (∑ i ∈ range n, ev p x i a * (ev p x i b * vv ww i)
    + (if a = b then alphaEff alpha else 0)) (E a b)
  have t2 := hsmall b hb'
  calc |∑ i ∈ range n, ev p x i a * (ev p x i b * vv ww i) + (if a = b then alphaEff alpha else 0) + E a b|
        * |vv s b|
      ≤ (|∑ i ∈ range n, ev p x i a * (ev p x i b * vv ww i) + (if a = b then alphaEff alpha else 0)|
          + |E a b|) * (M.γ 1 * |vv coef b|) :=
        mul_le_mul t1 t2 (abs_nonneg _) (by positivity)
    _ = _ := by ring

end Cv.Rounding7

/-! ### C10: Levenberg–Marquardt on models linear in the parameters (ℝ, exact solver) -/

namespace Cv.Rounding7.LM
open Finset

variable {J : ℕ → ℕ → ℝ} {n p : ℕ}

/-- **(a) the fixed points of an LM step are exactly the least-squares solutions**: for `λ > 0` and a Jacobian
without vanishing column, the step vanishes iff `JᵀJθ = Jᵀy`. -/
theorem lm_fixed_iff (lam : ℝ) (hl : 0 < lam) (hcol : ∀ i, i < p → 0 < A J n i i) (y θ δ : ℕ → ℝ)
    (h : IsStep J n p lam y θ δ) : (∀ j, j < p → δ j = 0) ↔ IsLS J n p y θ := by
  constructor
  · intro h0 i hi
    rw [← h i hi]
    exact Finset.sum_eq_zero fun j hj => by rw [h0 j (Finset.mem_range.mp hj), mul_zero]
  · intro hls
    apply eq_zero_of_form lam hl hcol
    rw [← sum_damped]
    refine le_of_eq (Finset.sum_eq_zero fun i hi => ?_)
    rw [h i (Finset.mem_range.mp hi), hls i (Finset.mem_range.mp hi), mul_zero]

/-- **(b) every LM step on a linear model decreases the residual**, by exactly `δᵀAδ + 2λ·δᵀDδ`, strictly
unless `θ` already is a least-squares solution — whether or not the gain-ratio test accepts it. -/
theorem lm_rss_decrease (lam : ℝ) (hl : 0 < lam) (hcol : ∀ i, i < p → 0 < A J n i i) (y θ δ : ℕ → ℝ)
    (h : IsStep J n p lam y θ δ) :
    rss J n p y (fun j => θ j + δ j) ≤ rss J n p y θ ∧
    (¬ IsLS J n p y θ → rss J n p y (fun j => θ j + δ j) < rss J n p y θ) := by
  have hs := rss_step lam y θ δ h
  have h1 := bA_self_nonneg (J := J) (n := n) (p := p) δ
  have h2 := bD_self_nonneg (J := J) (n := n) (p := p) δ
  refine ⟨by nlinarith, fun hnls => ?_⟩
  by_contra hge
  apply hnls
  rw [← lm_fixed_iff lam hl hcol y θ δ h]
  apply eq_zero_of_form lam hl hcol
  nlinarith

/-- **… and is accepted**: the gain ratio `ρ = (‖r‖² − ‖r⁺‖²)/(½·δᵀ(λδ + Jᵀr))` of `lmBody` is positive unless
`θ` is a least-squares solution (so on a linear model, in exact arithmetic, no step is ever rejected and the
damping never grows). -/
theorem lm_linear_rho_pos (lam : ℝ) (hl : 0 < lam) (hcol : ∀ i, i < p → 0 < A J n i i) (y θ δ : ℕ → ℝ)
    (h : IsStep J n p lam y θ δ) (hnls : ¬ IsLS J n p y θ) :
    0 < (rss J n p y θ - rss J n p y (fun j => θ j + δ j)) /
      (1 / 2 * ∑ i ∈ range p, δ i * (lam * δ i + grad J n p y θ i)) := by
  have hdec := (lm_rss_decrease lam hl hcol y θ δ h).2 hnls
  have hpred : ∑ i ∈ range p, δ i * (lam * δ i + grad J n p y θ i) =
      lam * ∑ i ∈ range p, δ i * δ i + (bA J n p δ δ + lam * bD J n p δ δ) := by
    rw [← sum_damped, Finset.mul_sum, ← Finset.sum_add_distrib]
    exact Finset.sum_congr rfl fun i hi => by rw [h i (Finset.mem_range.mp hi)]; ring
  have h1 := bA_self_nonneg (J := J) (n := n) (p := p) δ
  have h2 := bD_self_nonneg (J := J) (n := n) (p := p) δ
  have h3 : 0 ≤ ∑ i ∈ range p, δ i * δ i := Finset.sum_nonneg fun i _ => mul_self_nonneg _
  have hform : 0 < bA J n p δ δ + lam * bD J n p δ δ := by
    by_contra hle
    apply hnls
    rw [← lm_fixed_iff lam hl hcol y θ δ h]
    exact eq_zero_of_form lam hl hcol δ (not_lt.mp hle)
  refine div_pos (by linarith) ?_
  rw [hpred]
  have : 0 ≤ lam * ∑ i ∈ range p, δ i * δ i := mul_nonneg hl.le h3
  linarith

/-- the damping after an accepted step, `μ⁺ = max(1/3, 1 − (2ρ−1)³)`, lies in `[1/3, 2)` for `ρ > 0`: together
with `lm_linear_rho_pos` this is the honest bound `λ ≤ Λ := max(μ₀, 2)` along a run on a linear model -/
theorem lm_mu_update_lt_two (rho : ℝ) (h : 0 < rho) :
    1 / 3 ≤ max (1 / 3 : ℝ) (1 - (2 * rho - 1) ^ 3) ∧ max (1 / 3 : ℝ) (1 - (2 * rho - 1) ^ 3) < 2 := by
  refine ⟨le_max_left _ _, max_lt (by norm_num) ?_⟩
  have : -1 < (2 * rho - 1) ^ 3 := by
    set t := 2 * rho - 1 with ht
    have h1 : 0 < t + 1 := by rw [ht]; linarith
    have h2 : 0 < t ^ 2 - t + 1 := by nlinarith [sq_nonneg (t - 1 / 2)]
    have h3 := mul_pos h1 h2
    nlinarith
  linarith

/-- **(c) error recursion**: for any least-squares solution `θ*`, with `e = θ − θ*` and `e⁺ = e + δ`,
`(A + λD)·e⁺ = λ·D·e`, i.e. `θ⁺ − θ* = (I − (JᵀJ+λD)⁻¹JᵀJ)(θ − θ*)` written without the inverse. -/
theorem lm_error_recursion (lam : ℝ) (y θ θs δ : ℕ → ℝ) (hs : IsLS J n p y θs)
    (h : IsStep J n p lam y θ δ) :
    ∀ i, i < p → ∑ j ∈ range p, (A J n i j + (if i = j then lam * A J n i i else 0)) *
      ((θ j - θs j) + δ j) = lam * A J n i i * (θ i - θs i) := by
  intro i hi
  have hg : grad J n p y θ i = -∑ j ∈ range p, A J n i j * (θ j - θs j) := by
    have : θ = fun j => θs j + (θ j - θs j) := by funext j; ring
    rw [this, grad_add, hs i hi]
    simp
  simp only [mul_add, Finset.sum_add_distrib]
  rw [h i hi, hg]
  have : ∑ j ∈ range p, (A J n i j + (if i = j then lam * A J n i i else 0)) * (θ j - θs j) =
      ∑ j ∈ range p, A J n i j * (θ j - θs j) + lam * A J n i i * (θ i - θs i) := by
    simp only [add_mul, Finset.sum_add_distrib]
    congr 1
    rw [Finset.sum_eq_single i]
    · simp
    · intro j _ hj; simp [Ne.symm hj]
    · intro hni; exact absurd (Finset.mem_range.mpr hi) hni
  rw [this]; ring

/-- **(c) contraction in the `JᵀJ`-norm**: if `D ⪯ κ·JᵀJ` as quadratic forms (`κ` exists iff `J` has full column
rank; `κ = max dᵢ/λ_min(JᵀJ)`) and `0 < λ ≤ Λ`, then
`‖θ⁺ − θ*‖²_A ≤ q²·‖θ − θ*‖²_A`, `q² = Λκ/(1+Λκ) < 1`. -/
theorem lm_contraction (lam Lam κ : ℝ) (hl : 0 < lam) (hL : lam ≤ Lam) (hκ : 0 ≤ κ)
    (hκD : ∀ x : ℕ → ℝ, bD J n p x x ≤ κ * bA J n p x x)
    (y θ θs δ : ℕ → ℝ) (hs : IsLS J n p y θs) (h : IsStep J n p lam y θ δ) :
    bA J n p (fun j => (θ j - θs j) + δ j) (fun j => (θ j - θs j) + δ j) ≤
      Lam * κ / (1 + Lam * κ) * bA J n p (fun j => θ j - θs j) (fun j => θ j - θs j) := by
  set e : ℕ → ℝ := fun j => θ j - θs j with he
  -- `B·δ = −A·e`
  have hBδ : ∀ i, i < p → ∑ j ∈ range p, (A J n i j + (if i = j then lam * A J n i i else 0)) * δ j =
      -∑ j ∈ range p, A J n i j * e j := by
    intro i hi
    rw [h i hi]
    have : θ = fun j => θs j + (θ j - θs j) := by funext j; ring
    rw [this, grad_add, hs i hi]
    simp [he]
  have h1 : bA J n p e δ + lam * bD J n p e δ = -bA J n p e e := by
    rw [← sum_damped, ← sum_A, ← Finset.sum_neg_distrib]
    exact Finset.sum_congr rfl fun i hi => by rw [hBδ i (Finset.mem_range.mp hi)]; ring
  have h2 : bA J n p δ δ + lam * bD J n p δ δ = -bA J n p e δ := by
    rw [← sum_damped, bA_comm e δ, ← sum_A, ← Finset.sum_neg_distrib]
    exact Finset.sum_congr rfl fun i hi => by rw [hBδ i (Finset.mem_range.mp hi)]; ring
  have hexp := bA_add_self (J := J) (n := n) (p := p) e δ
  have hcs := cauchy_schwarz_B (J := J) (n := n) (p := p) lam hl.le e δ
  rw [h1] at hcs
  have a1 := bA_self_nonneg (J := J) (n := n) (p := p) e
  have a2 := bA_self_nonneg (J := J) (n := n) (p := p) δ
  have a3 := bD_self_nonneg (J := J) (n := n) (p := p) δ
  have a4 := bD_self_nonneg (J := J) (n := n) (p := p) e
  have a5 := hκD e
  set E := bA J n p e e with hE
  set Q := bA J n p δ δ + lam * bD J n p δ δ with hQ
  have hQ0 : 0 ≤ Q := by rw [hQ]; nlinarith
  have hLam : 0 < Lam := lt_of_lt_of_le hl hL
  have hden : 0 < 1 + lam * κ := by nlinarith
  have hdenL : 0 < 1 + Lam * κ := by nlinarith
  -- `E ≤ (1+λκ)·Q`
  have hEQ : E ≤ (1 + lam * κ) * Q := by
    by_cases hE0 : E = 0
    · rw [hE0]; exact mul_nonneg hden.le hQ0
    · have hEpos : 0 < E := lt_of_le_of_ne a1 (Ne.symm hE0)
      have hBe : bA J n p e e + lam * bD J n p e e ≤ (1 + lam * κ) * E := by nlinarith
      have : E * E ≤ ((1 + lam * κ) * E) * Q := by
        calc E * E = (-E) ^ 2 := by ring
          _ ≤ (bA J n p e e + lam * bD J n p e e) * Q := hcs
          _ ≤ ((1 + lam * κ) * E) * Q := mul_le_mul_of_nonneg_right hBe hQ0
      have : E * E ≤ E * ((1 + lam * κ) * Q) := by linarith [this, mul_comm ((1 + lam * κ) * E) Q]
      exact le_of_mul_le_mul_left (by nlinarith) hEpos
  -- the new error
  have hnew : bA J n p (fun j => e j + δ j) (fun j => e j + δ j) ≤ E - Q := by
    rw [hexp]
    have : bA J n p e δ = -Q := by rw [hQ]; linarith
    rw [this]
    nlinarith
  refine le_trans hnew ?_
  have hq : E - Q ≤ lam * κ / (1 + lam * κ) * E := by
    rw [div_mul_eq_mul_div, le_div_iff₀ hden]
    nlinarith
  refine le_trans hq (mul_le_mul_of_nonneg_right ?_ a1)
  rw [div_le_div_iff₀ hden hdenL]
  nlinarith [mul_le_mul_of_nonneg_right hL hκ]

/-- **(c) geometric convergence**: along any run `θ_{k+1} = θ_k + δ_k` of LM steps with dampings
`0 < λ_k ≤ Λ` on a linear model with `D ⪯ κ·JᵀJ`,
`‖θ_k − θ*‖²_A ≤ (Λκ/(1+Λκ))^k·‖θ_0 − θ*‖²_A` for every least-squares solution `θ*`. -/
theorem lm_geometric (Lam κ : ℝ) (hκ : 0 ≤ κ) (hκD : ∀ x : ℕ → ℝ, bD J n p x x ≤ κ * bA J n p x x)
    (y θs : ℕ → ℝ) (hs : IsLS J n p y θs) (θ δ : ℕ → ℕ → ℝ) (lam : ℕ → ℝ)
    (hlam : ∀ k, 0 < lam k ∧ lam k ≤ Lam)
    (hstep : ∀ k, IsStep J n p (lam k) y (θ k) (δ k))
    (hnext : ∀ k j, θ (k + 1) j = θ k j + δ k j) (k : ℕ) :
    bA J n p (fun j => θ k j - θs j) (fun j => θ k j - θs j) ≤
      (Lam * κ / (1 + Lam * κ)) ^ k * bA J n p (fun j => θ 0 j - θs j) (fun j => θ 0 j - θs j) := by
  induction k with
  | zero => simp
  | succ k ih =>
    have hc := lm_contraction (lam k) Lam κ (hlam k).1 (hlam k).2 hκ hκD y (θ k) θs (δ k) hs (hstep k)
    have hfun : (fun j => θ (k + 1) j - θs j) = fun j => (θ k j - θs j) + δ k j := by
      funext j; rw [hnext]; ring
    rw [hfun]
    have hL : 0 < Lam := lt_of_lt_of_le (hlam k).1 (hlam k).2
    have hq0 : 0 ≤ Lam * κ / (1 + Lam * κ) := div_nonneg (by positivity) (by positivity)
    calc _ ≤ Lam * κ / (1 + Lam * κ) * bA J n p (fun j => θ k j - θs j) (fun j => θ k j - θs j) := hc
      _ ≤ Lam * κ / (1 + Lam * κ) * ((Lam * κ / (1 + Lam * κ)) ^ k *
            bA J n p (fun j => θ 0 j - θs j) (fun j => θ 0 j - θs j)) :=
          mul_le_mul_of_nonneg_left ih hq0
      _ = _ := by rw [pow_succ]; ring

/-- the contraction factor is `< 1` -/
theorem lm_rate_lt_one (Lam κ : ℝ) (hL : 0 ≤ Lam) (hκ : 0 ≤ κ) : Lam * κ / (1 + Lam * κ) < 1 := by
  have : 0 ≤ Lam * κ := mul_nonneg hL hκ
  rw [div_lt_one (by linarith)]; linarith

end Cv.Rounding7.LM

/-! #### the tie to the model: what `lmBody` solves is `IsStep` -/

namespace Cv.Rounding7.LM
open Finset Cv.Opt Cv.C10 Cv.C10D

section bridge
variable [Inhabited ℝ] [BEq ℝ] [LawfulBEq ℝ] [Transc ℝ] [FMax ℝ]

/-- entries of `Jᵀr` as the model computes it (`Matrix::t_dot`) -/
theorem jtr_entry (n p : Nat) (hn : 0 < n) (Jl r jtr : List ℝ) (hJ : Jl.length = n * p) (hr : r.length = n)
    (h : jtrOf n Jl r = some jtr) :
    jtr.length = p ∧ ∀ i, i < p → nth jtr i = ∑ k ∈ range n, nth Jl (k * p + i) * nth r k := by
  obtain ⟨c, hc, hlen, hent⟩ := C05L.matmul_entry Jl r n p n 1 true false hJ (by simpa using hr) hn hn (by simp)
  unfold jtrOf at h
  rw [hc] at h
  simp only [Option.some.injEq] at h
  subst h
  simp only [if_true, Bool.false_eq_true, if_false, Nat.mul_one] at hlen hent
  refine ⟨hlen, fun i hi => ?_⟩
  have hk : i < c.length := by rw [hlen]; exact hi
  have := hent i 0 hi (by norm_num)
  simp only [Nat.add_zero] at this
  rw [← getBang_eq_nth c _ hk, this]
  unfold C05L.cellFold
  rw [foldl_range_sum]
  apply sum_congr rfl
  intro k hk'
  have hkn : k < n := mem_range.mp hk'
  have b1 : k * p + i < Jl.length := by
    rw [hJ]
    calc k * p + i < k * p + p := by omega
      _ = (k + 1) * p := by ring
      _ ≤ n * p := Nat.mul_le_mul_right p hkn
  simp only [Bool.and_false, Bool.false_eq_true, if_false, C05L.opEntry, if_true, Nat.mul_one, Nat.add_zero]
  rw [getBang_eq_nth Jl _ b1, getBang_eq_nth r _ (by omega)]

/-- **the step `lmBody` takes is the LM step of the math layer**: with the Jacobian list `Jl` (`n × p`), the
residual list `r`, `jtj = J.t_dot(J)`, `jtr = J.t_dot(r)`, `μ > 0`, no vanishing column and an `abs` that is the
absolute value, whatever `damped.solve(jtr)` returns satisfies `(A + μ·diag A)·δ = Jᵀr` -/
theorem step_of_model (n p : Nat) (hn : 0 < n) (Jl r jtj jtr δ : List ℝ) (mu : ℝ)
    (habs : ∀ x : ℝ, Transc.abs x = |x|)
    (hJ : Jl.length = n * p) (hr : r.length = n) (hjtj : jtjOf n Jl = some jtj)
    (hjtr : jtrOf n Jl r = some jtr) (hmu : 0 < mu)
    (hcol : ∀ i, i < p → ∃ k, k < n ∧ nth Jl (k * p + i) ≠ 0)
    (hsol : luSolveVec (damp p mu jtj) jtr = some δ) :
    δ.length = p ∧ ∀ i, i < p →
      ∑ j ∈ range p, (A (fun k j => nth Jl (k * p + j)) n i j
          + (if i = j then mu * A (fun k j => nth Jl (k * p + j)) n i i else 0)) * nth δ j =
        ∑ k ∈ range n, nth Jl (k * p + i) * nth r k := by
  obtain ⟨_, hA⟩ := jtj_entry n p hn Jl jtj hJ hjtj
  obtain ⟨hbl, hb⟩ := jtr_entry n p hn Jl r jtr hJ hr hjtr
  have hns := damped_nonsingular n p hn Jl jtj mu hJ hjtj hmu hcol
  obtain ⟨hδl, hsolv⟩ := solveExact_of_nonsingular habs p (damp p mu jtj) jtr δ (damp_length p mu jtj) hbl
    hns hsol
  refine ⟨hδl, fun i hi => ?_⟩
  rw [← hb i hi, ← hsolv i hi]
  refine Finset.sum_congr rfl fun j hj => ?_
  have hj' := Finset.mem_range.mp hj
  rw [nth_damp p mu jtj i j hi hj']
  by_cases hij : i = j
  · subst hij
    simp only [if_true, A]
    rw [hA i i hi hi]
  · simp only [hij, if_false, add_zero, A]
    rw [hA i j hi hj']

end bridge

end Cv.Rounding7.LM

/-! ### Non-vacuity: concrete runs -/

namespace Cv.Rounding7.Examples
open Cv Cv.FlModel Cv.LA Cv.LA.Lu Cv.Rounding Cv.FactorRounding Cv.RoundingLU Cv.Rounding3 Cv.Rounding6 Cv.Glm Finset
open Cv.Rounding6.Examples (M0 M0_rnd M0_u M0_γ G4 G4_chol G4_pred)

noncomputable abbrev X4 : List (Fl M0) := [⟨1⟩, ⟨-1⟩, ⟨1⟩, ⟨1⟩, ⟨1⟩, ⟨-1⟩, ⟨1⟩, ⟨1⟩]
noncomputable abbrev ones4 : List (Fl M0) := [⟨1⟩, ⟨1⟩, ⟨1⟩, ⟨1⟩]
noncomputable abbrev y4 : List (Fl M0) := [⟨1⟩, ⟨2⟩, ⟨3⟩, ⟨4⟩]
noncomputable abbrev b2 : List (Fl M0) := [⟨5⟩, ⟨7⟩]

theorem pert_exact {k : Nat} {v : ℝ} {xs : List ℝ} (h : M0.Pert k v xs) : v = xs.sum := by
  have := h.error (by rw [M0_u]; norm_num)
  rw [M0_γ, zero_mul] at this
  have := abs_nonpos_iff.mp this
  linarith

theorem ext4 (H : List (Fl M0)) (hl : H.length = 2 * 2) (h00 : ev 2 H 0 0 = 4) (h01 : ev 2 H 0 1 = 0)
    (h10 : ev 2 H 1 0 = 0) (h11 : ev 2 H 1 1 = 4) : H = G4 := by
  rcases H with _ | ⟨g0, _ | ⟨g1, _ | ⟨g2, _ | ⟨g3, _ | _⟩⟩⟩⟩ <;> simp at hl
  simp [ev, rd] at h00 h01 h10 h11
  simp only [G4, List.cons.injEq, and_true]
  exact ⟨Fl.ext h00, Fl.ext h01, Fl.ext h10, Fl.ext h11⟩

theorem H4 : computeDdbeta X4 ones4 ones4 ones4 = some G4 := by
  obtain ⟨ww, H, hww, hwl, hH, hHl, hHb⟩ := computeDdbeta_fl X4 ones4 ones4 ones4 4 2 (by norm_num) rfl rfl rfl
    rfl (by rw [M0_u]; norm_num)
  obtain ⟨ww', hww', _, hwe⟩ := workingWeights_fl ones4 ones4 ones4 4 rfl rfl rfl
  have : ww' = ww := Option.some.inj (hww'.symm.trans hww)
  subst this
  have hw1 : ∀ i, i < 4 → vv ww' i = 1 := by
    intro i hi
    have := hwe i hi
    unfold vv
    rw [← bang_eq_rd, this]
    have : i = 0 ∨ i = 1 ∨ i = 2 ∨ i = 3 := by omega
    rcases this with rfl | rfl | rfl | rfl <;> simp [M0_rnd]
  have e : ∀ a b, a < 2 → b < 2 → ev 2 H a b = ∑ i ∈ range 4, ev 2 X4 i a * (ev 2 X4 i b * vv ww' i) := by
    intro a b ha hb
    have := hHb a b ha hb
    rw [M0_γ, zero_mul] at this
    have := abs_nonpos_iff.mp this
    linarith
  have e00 := e 0 0 (by norm_num) (by norm_num)
  have e01 := e 0 1 (by norm_num) (by norm_num)
  have e10 := e 1 0 (by norm_num) (by norm_num)
  have e11 := e 1 1 (by norm_num) (by norm_num)
  simp only [Finset.sum_range_succ, Finset.sum_range_zero, hw1 0 (by norm_num), hw1 1 (by norm_num),
    hw1 2 (by norm_num), hw1 3 (by norm_num)] at e00 e01 e10 e11
  norm_num [ev, rd] at e00 e01 e10 e11
  rw [hH, ext4 H hHl (by simpa [ev, rd] using e00) (by simpa [ev, rd] using e01)
    (by simpa [ev, rd] using e10) (by simpa [ev, rd] using e11)]

theorem g4 : computeDbeta X4 y4 y4 ones4 ones4 ones4 = some [⟨0⟩, ⟨0⟩] := by
  obtain ⟨r, g, hr, hrl, hg, hgl, hgP⟩ := computeDbeta_fl X4 y4 y4 ones4 ones4 ones4 4 2 (by norm_num) rfl rfl
    rfl rfl rfl rfl
  obtain ⟨r', hr', _, hre⟩ := workingResiduals_fl y4 y4 ones4 ones4 ones4 4 rfl rfl rfl rfl rfl
  have : r' = r := Option.some.inj (hr'.symm.trans hr)
  subst this
  have hr0 : ∀ i, i < 4 → vv r' i = 0 := by
    intro i hi
    have := hre i hi
    unfold vv
    rw [← bang_eq_rd, this]
    have : i = 0 ∨ i = 1 ∨ i = 2 ∨ i = 3 := by omega
    rcases this with rfl | rfl | rfl | rfl <;> simp [M0_rnd]
  have hg0 : ∀ j, j < 2 → vv g j = 0 := by
    intro j hj
    rw [pert_exact (hgP j hj)]
    apply List.sum_eq_zero
    intro t ht
    obtain ⟨i, hi, rfl⟩ := List.mem_map.mp ht
    rw [hr0 i (List.mem_range.mp hi)]; simp
  rw [hg]
  rcases g with _ | ⟨g0, _ | ⟨g1, _ | _⟩⟩ <;> simp at hgl
  have h0 := hg0 0 (by norm_num)
  have h1 := hg0 1 (by norm_num)
  simp [vv, rd] at h0 h1
  simp only [Option.some.injEq, List.cons.injEq, and_true]
  exact ⟨Fl.ext h0, Fl.ext h1⟩

theorem route4 : ∃ l, route G4 = some (some l) ∧ l.length = 2 * 2 := by
  obtain ⟨l, hl, hll⟩ := G4_chol
  exact ⟨l, by simp [route, G4_pred, hl], hll⟩

theorem solve4 : ∃ s, solve G4 ([⟨0⟩, ⟨0⟩] : List (Fl M0)) = some s := by
  obtain ⟨l, hr, hll⟩ := route4
  obtain ⟨s, hs⟩ := RoundingLU.Examples.choleskySolve_isSome l ([⟨0⟩, ⟨0⟩] : List (Fl M0)) 2 (by norm_num) hll rfl
  refine ⟨s, ?_⟩
  unfold solve
  simp only [show G4.length = 2 * 2 from rfl]
  simp [hr, solveWith, hs]

/-- the step returns on this input: in exact arithmetic `y = μ` gives a zero gradient and a zero step -/
theorem step4 : ∃ s, scoringStep solve X4 y4 ones4 (⟨0⟩ : Fl M0) 2 b2 y4 ones4 ones4 = some (s, b2) := by
  obtain ⟨s, hs⟩ := solve4
  obtain ⟨l, hr, _⟩ := route4
  have hpen : penalised (⟨0⟩ : Fl M0) 2 b2 [⟨0⟩, ⟨0⟩] G4 = ([⟨0⟩, ⟨0⟩], G4) := by
    unfold penalised
    rw [if_neg (show ¬ (0 : Fl M0) < ⟨0⟩ from lt_irrefl (0 : ℝ))]
  obtain ⟨_, hsl, W, ΔA, _, hΔ, hsolve⟩ := solve_backward_W G4 _ s 2 rfl (le_refl 2) hs (by rw [M0_u]; norm_num)
    (fun h => by rw [hr] at h; simp at h)
  -- the solution is zero
  have hs0 : ∀ m, m < 2 → (rd s m).val = 0 := by
    have hΔ0 : ∀ r m, r < 2 → m < 2 → ΔA r m = 0 := by
      intro r m hr' hm
      have := hΔ r m hr' hm
      rw [M0_γ, zero_mul] at this
      exact abs_nonpos_iff.mp this
    have e0 := hsolve 0 (by norm_num)
    have e1 := hsolve 1 (by norm_num)
    simp only [Finset.sum_range_succ, Finset.sum_range_zero, hΔ0 0 0 (by norm_num) (by norm_num),
      hΔ0 0 1 (by norm_num) (by norm_num), hΔ0 1 0 (by norm_num) (by norm_num),
      hΔ0 1 1 (by norm_num) (by norm_num)] at e0 e1
    norm_num [ev, rd] at e0 e1
    intro m hm
    have : m = 0 ∨ m = 1 := by omega
    rcases this with rfl | rfl
    · simpa [rd] using e0
    · simpa [rd] using e1
  have hsz : s = [⟨0⟩, ⟨0⟩] := by
    rcases s with _ | ⟨s0, _ | ⟨s1, _ | _⟩⟩ <;> simp at hsl
    have h0 := hs0 0 (by norm_num)
    have h1 := hs0 1 (by norm_num)
    simp [rd] at h0 h1
    simp only [List.cons.injEq, and_true]
    exact ⟨Fl.ext h0, Fl.ext h1⟩
  refine ⟨s, ?_⟩
  unfold scoringStep
  simp only [g4, H4, hpen, hs, Option.bind_eq_bind, Option.bind_some]
  rw [hsz]
  have : Vops.vbin (· - ·) b2 ([⟨0⟩, ⟨0⟩] : List (Fl M0)) = some b2 := by
    rw [C06L.vbin_eq (· - ·) b2 ([⟨0⟩, ⟨0⟩] : List (Fl M0)) rfl]
    simp only [b2, List.zipWith_cons_cons, List.zipWith_nil_right, Option.some.injEq, List.cons.injEq, and_true]
    exact ⟨Fl.ext (by show M0.rnd (5 - 0) = 5; rw [M0_rnd]; norm_num),
      Fl.ext (by show M0.rnd (7 - 0) = 7; rw [M0_rnd]; norm_num)⟩
  simp [this]

/-- `scoringStep_system` and `scoring_fixed_point` on that run: every hypothesis holds (`n = 4`, `p = 2`,
Cholesky route, so the LU hypothesis is void) -/
example : ∃ s, scoringStep solve X4 y4 ones4 (⟨0⟩ : Fl M0) 2 b2 y4 ones4 ones4 = some (s, b2) ∧
    ∀ b, b < 2 → |vv s b| ≤ M0.γ 1 * |vv b2 b| := by
  obtain ⟨s, hs⟩ := step4
  obtain ⟨l, hr, _⟩ := route4
  have hd : ∀ g H, computeDbeta X4 y4 y4 ones4 ones4 ones4 = some g →
      computeDdbeta X4 ones4 ones4 ones4 = some H →
      route (penalised (⟨0⟩ : Fl M0) 2 b2 g H).2 = some none →
      ∀ f piv, lu (penalised (⟨0⟩ : Fl M0) 2 b2 g H).2 = some (f, piv) → ∀ k, k < 2 → ev 2 f k k ≠ 0 := by
    intro g H hg hH hroute
    have e1 : H = G4 := Option.some.inj (hH.symm.trans H4)
    have : (penalised (⟨0⟩ : Fl M0) 2 b2 g H).2 = G4 := by
      unfold penalised
      rw [if_neg (show ¬ (0 : Fl M0) < ⟨0⟩ from lt_irrefl (0 : ℝ)), e1]
    rw [this, hr] at hroute
    simp at hroute
  obtain ⟨_, _, _, _, _, _, _, _, _, _, _, _, _, _, hsm, _⟩ :=
    scoring_fixed_point X4 y4 ones4 b2 y4 ones4 ones4 (⟨0⟩ : Fl M0) 4 2 (by norm_num) (le_refl 2) rfl rfl rfl
      rfl rfl rfl rfl s hs (by rw [M0_u]; norm_num) (by rw [M0_u]; norm_num) hd
  exact ⟨s, hs, hsm⟩

end Cv.Rounding7.Examples

namespace Cv.Rounding7.Examples2
open Cv Cv.FlModel Cv.LA Cv.Rounding Cv.FactorRounding Cv.RoundingLU Cv.Rounding3 Cv.Rounding6 Cv.Glm Finset
open Cv.RoundingLU.Examples (Minf Minf_u)

noncomputable abbrev X2 : List (Fl Minf) := [⟨1⟩, ⟨2⟩, ⟨1⟩, ⟨3⟩, ⟨1⟩, ⟨5⟩]
noncomputable abbrev o3 : List (Fl Minf) := [⟨1⟩, ⟨1⟩, ⟨1⟩]
noncomputable abbrev m3 : List (Fl Minf) := [⟨2⟩, ⟨3⟩, ⟨4⟩]

/-- `computeDdbeta_fl`, `computeDbeta_fl` in the 1 % model (`n = 3`, `p = 2`): `(3+2)·u < 1`; rounding errors
occur in every operation -/
example : ∃ ww H, workingWeights m3 m3 o3 = some ww ∧ computeDdbeta X2 m3 m3 o3 = some H ∧
    ∀ a b, a < 2 → b < 2 →
      |ev 2 H a b - ∑ i ∈ range 3, ev 2 X2 i a * (ev 2 X2 i b * vv ww i)| ≤
        Minf.γ (3 + 2) * ∑ i ∈ range 3, |ev 2 X2 i a| * (|ev 2 X2 i b| * |vv ww i|) := by
  obtain ⟨ww, H, h1, _, h2, _, h3⟩ := computeDdbeta_fl X2 m3 m3 o3 3 2 (by norm_num) rfl rfl rfl rfl
    (by rw [Minf_u]; norm_num)
  exact ⟨ww, H, h1, h2, h3⟩
example : ∃ r g, workingResiduals o3 m3 m3 m3 o3 = some r ∧ computeDbeta X2 o3 m3 m3 m3 o3 = some g ∧
    ∀ j, j < 2 → Minf.Pert (3 + 1) (vv g j) ((List.range 3).map fun i => -(ev 2 X2 i j * vv r i)) := by
  obtain ⟨r, g, h1, _, h2, _, h3⟩ := computeDbeta_fl X2 o3 m3 m3 m3 o3 3 2 (by norm_num) rfl rfl rfl rfl rfl rfl
  exact ⟨r, g, h1, h2, h3⟩

/-- `step_small`: in the 1 % model `β ⊖ s = β` does happen for a non-zero step (`β = 101`, `s = 1`:
`(101 − 1)·1.01 = 101`), and then `|s| ≤ γ₁·|β|` -/
example : ((⟨101⟩ : Fl Minf) - ⟨1⟩ = ⟨101⟩) ∧ |(1 : ℝ)| ≤ Minf.γ 1 * |(101 : ℝ)| := by
  have h : (⟨101⟩ : Fl Minf) - ⟨1⟩ = ⟨101⟩ := by
    apply Fl.ext
    show Minf.rnd (101 - 1) = 101
    rw [RoundingLU.Examples.Minf_rnd]; norm_num
  exact ⟨h, step_small (⟨101⟩ : Fl Minf) ⟨1⟩ h⟩

section link
noncomputable local instance : ExpLnStd Minf := ExpLnStd.ofRnd Minf

/-- `invLinkF_error` for the three kinds of link -/
example : |(invLinkF Family.poisson (⟨1⟩ : Fl Minf)).val - Real.exp 1| ≤ uF Minf * Real.exp 1 :=
  invLinkF_error Family.poisson (⟨1⟩ : Fl Minf) (by rw [Minf_u]; norm_num)
    (by show ((1 : Nat) : ℝ) * (1 / 100) < 1; norm_num)
example : |(invLinkF Family.bernoulli (⟨1⟩ : Fl Minf)).val - sigma 1| ≤
    (Minf.γ 2 + γf Minf 1 + Minf.γ 2 * γf Minf 1) * sigma 1 :=
  invLinkF_error Family.bernoulli (⟨1⟩ : Fl Minf) (by rw [Minf_u]; norm_num)
    (by show ((1 : Nat) : ℝ) * (1 / 100) < 1; norm_num)
end link

end Cv.Rounding7.Examples2

/-! ### Non-vacuity with `u > 0`: a complete scoring step in the 1 % model whose nonzero step is absorbed

Gaussian-type data on the identity design (`n = p = 2`): every operation inflates by 1 %, all computed quantities
are evaluated exactly (`ŵ`, `r̂`, `ĝ`, `Ĥ = (400/101)·I`, Cholesky factor `2.02·I`, both triangular solves), the
step is `δ̂ = (1, 2)` and `β ⊖ δ̂ = 1.01·(β − δ̂) = β` at `β = (101, 202)`; `μ = η̂` is the computed linear
predictor at that `β` (`etaIv`). -/

namespace Cv.Rounding7.Examples3
open Cv Cv.FlModel Cv.LA Cv.LA.Lu Cv.Rounding Cv.FactorRounding Cv.RoundingLU Cv.Rounding3 Cv.Rounding6 Cv.Glm Finset
open Cv.RoundingLU.Examples

noncomputable abbrev Xi : List (Fl Minf) := [⟨1⟩, ⟨0⟩, ⟨0⟩, ⟨1⟩]
noncomputable abbrev wI : List (Fl Minf) := [⟨4 * 100 ^ 8 / 101 ^ 8⟩, ⟨4 * 100 ^ 7 / 101 ^ 7⟩]
noncomputable abbrev oI : List (Fl Minf) := [⟨1⟩, ⟨1⟩]
noncomputable abbrev muI : List (Fl Minf) := [⟨101 ^ 4 / 100 ^ 3⟩, ⟨2 * 101 ^ 3 / 100 ^ 2⟩]
noncomputable abbrev yI : List (Fl Minf) := [⟨101 ^ 4 / 100 ^ 3 - 100 / 101⟩, ⟨2 * 101 ^ 3 / 100 ^ 2 - 200 / 101⟩]
noncomputable abbrev bI : List (Fl Minf) := [⟨101⟩, ⟨202⟩]
noncomputable abbrev sI : List (Fl Minf) := [⟨1⟩, ⟨2⟩]
noncomputable abbrev HI : List (Fl Minf) := [⟨400 / 101⟩, ⟨0⟩, ⟨0⟩, ⟨400 / 101⟩]
noncomputable abbrev gI : List (Fl Minf) := [⟨40000 / 10201⟩, ⟨80000 / 10201⟩]

theorem wwI : workingWeights oI oI wI = some [⟨4 * 100 ^ 5 / 101 ^ 5⟩, ⟨4 * 100 ^ 4 / 101 ^ 4⟩] := by
  unfold workingWeights
  rw [C06L.vbin_eq _ oI oI rfl]
  simp only [Option.bind_eq_bind, Option.bind_some]
  rw [C06L.vbin_eq _ wI _ (by simp)]
  simp only [Option.bind_some]
  rw [C06L.vbin_eq _ _ oI (by simp)]
  simp only [List.zipWith_cons_cons, List.zipWith_nil_right, mk_mul, mk_div, Minf_rnd, Option.some.injEq,
    List.cons.injEq, and_true, Fl.mk.injEq]
  constructor <;> norm_num

theorem rI : workingResiduals yI muI oI oI wI = some [⟨-4 * 100 ^ 5 / 101 ^ 5⟩, ⟨-8 * 100 ^ 4 / 101 ^ 4⟩] := by
  unfold workingResiduals
  rw [C06L.vbin_eq _ yI muI rfl]
  simp only [Option.bind_eq_bind, Option.bind_some]
  rw [C06L.vbin_eq _ wI _ (by simp)]
  simp only [Option.bind_some]
  rw [C06L.vbin_eq _ oI oI rfl]
  simp only [Option.bind_some]
  rw [C06L.vbin_eq _ _ _ (by simp)]
  simp only [List.zipWith_cons_cons, List.zipWith_nil_right, mk_mul, mk_div, mk_sub, Minf_rnd, Option.some.injEq,
    List.cons.injEq, and_true, Fl.mk.injEq]
  constructor <;> norm_num

theorem gIv : computeDbeta Xi yI muI oI oI wI = some gI := by
  simp only [computeDbeta, show yI.length = 2 from rfl, C05L.isMatrix_of_len (show Xi.length = 2 * 2 from rfl) (by norm_num),
    rI, Option.bind_eq_bind, Option.bind_some, Option.pure_def]
  simp only [dbetaCell, List.range_succ, List.range_zero, List.nil_append, List.cons_append, List.map_cons, List.map_nil,
    List.foldl_cons, List.foldl_nil]
  simp
  constructor <;> (apply Fl.ext; simp only [Fl.sub_val, Fl.mul_val, Fl.zero_val, Minf_rnd]; norm_num)

theorem wxI : weightedX Xi [⟨4 * 100 ^ 5 / 101 ^ 5⟩, ⟨4 * 100 ^ 4 / 101 ^ 4⟩] 2 =
    ([⟨4 * 100 ^ 4 / 101 ^ 4⟩, ⟨0⟩, ⟨0⟩, ⟨4 * 100 ^ 3 / 101 ^ 3⟩] : List (Fl Minf)) := by
  simp only [weightedX, show Xi.length = 4 from rfl, List.range_succ, List.range_zero, List.nil_append, List.cons_append,
    List.map_cons, List.map_nil]
  simp
  refine ⟨?_, ?_, ?_, ?_⟩ <;> (apply Fl.ext; simp only [Fl.mul_val, Minf_rnd]; norm_num)

theorem ext4 (H : List (Fl Minf)) (a b c d : ℝ) (hl : H.length = 2 * 2) (h00 : (H[0]!).val = a) (h01 : (H[1]!).val = b)
    (h10 : (H[2]!).val = c) (h11 : (H[3]!).val = d) : H = [⟨a⟩, ⟨b⟩, ⟨c⟩, ⟨d⟩] := by
  rcases H with _ | ⟨g0, _ | ⟨g1, _ | ⟨g2, _ | ⟨g3, _ | _⟩⟩⟩⟩ <;> simp at hl
  simp at h00 h01 h10 h11
  simp only [List.cons.injEq, and_true]
  exact ⟨Fl.ext h00, Fl.ext h01, Fl.ext h10, Fl.ext h11⟩

theorem HIv : computeDdbeta Xi oI oI wI = some HI := by
  simp only [computeDdbeta, show oI.length = 2 from rfl, C05L.isMatrix_of_len (show Xi.length = 2 * 2 from rfl) (by norm_num),
    wwI, Option.bind_eq_bind, Option.bind_some, wxI]
  obtain ⟨c, h1, h2, h3⟩ := C05L.matmul_entry Xi ([⟨4 * 100 ^ 4 / 101 ^ 4⟩, ⟨0⟩, ⟨0⟩, ⟨4 * 100 ^ 3 / 101 ^ 3⟩] : List (Fl Minf))
    2 2 2 2 true false rfl rfl (by norm_num) (by norm_num) rfl
  rw [h1]
  have e00 := h3 0 0 (by norm_num) (by norm_num)
  have e01 := h3 0 1 (by norm_num) (by norm_num)
  have e10 := h3 1 0 (by norm_num) (by norm_num)
  have e11 := h3 1 1 (by norm_num) (by norm_num)
  simp [C05L.cellFold, C05L.opEntry, List.range_succ] at e00 e01 e10 e11
  congr 1
  refine ext4 c _ _ _ _ (by simpa using h2) (by simp; rw [e00]; simp [Minf_rnd]; norm_num) (by simp; rw [e01]; simp [Minf_rnd])
    (by simp; rw [e10]; simp [Minf_rnd]) (by simp; rw [e11]; simp [Minf_rnd]; norm_num)

noncomputable abbrev LI : List (Fl Minf) := [⟨101 / 50⟩, ⟨0⟩, ⟨0⟩, ⟨101 / 50⟩]

theorem bigE : (4503599627370496 : Fl Minf).val = 4503599627370496 * (1 + 1 / 100) := by
  show Minf.rnd ((4503599627370496 : ℕ) : ℝ) = _
  rw [Minf_rnd]; norm_num

theorem sqrt_mk (a : ℝ) : Transc.sqrt (⟨a⟩ : Fl Minf) = ⟨Real.sqrt a * (1 + 1 / 100)⟩ := rfl
theorem zero_mk : (0 : Fl Minf) = ⟨0⟩ := rfl
theorem isM42 : LA.isMatrix 4 2 = some 2 := by decide

theorem HI_pred : routePredicate HI = some true := by
  unfold routePredicate isPositiveDefinite isSymmetric isExactlySymmetric
  simp only [show HI.length = 2 * 2 from rfl, isSquare_sq]
  norm_num [List.range_succ, List.range', rd, eps, Fl.lt_def, Fl.le_def, Minf_rnd, bigE]

theorem HI_chol : tryCholesky HI = some (some LI) := by
  have hE : ¬ (4503599627370496 : Fl Minf).val < 0 := by rw [bigE]; norm_num
  unfold tryCholesky isSymmetric
  simp only [show HI.length = 2 * 2 from rfl, isSquare_sq]
  norm_num [cholLoops, cholRow, List.range_succ, List.foldlM_cons, List.foldlM_nil, cholCell, List.replicate,
    Fl.isNan_false, Fl.le_def, Fl.lt_def, rd, dot8, dot8Go, Minf_rnd, List.set, List.take, List.drop,
    sqrtR_def, sqrt4, eps, List.range', ev, hE]
  simp only [zero_mk, mk_sub, mk_div, mk_mul, mk_add, sqrt_mk, Minf_rnd, Fl.mk.injEq]
  have e4 : ((400 : ℝ) / 101 - 0) * (1 + 1 / 100) = 4 := by norm_num
  norm_num [e4, sqrt4]

theorem LI_t : LA.transpose LI 2 = some LI := by
  unfold LA.transpose
  simp only [show LI.length = 4 from rfl, isM42, Option.bind_eq_bind, Option.bind_some, Option.pure_def]
  norm_num [List.range_succ, rd]

theorem LI_fwd : forwardSubstitution LI gI = some [⟨200 / 101⟩, ⟨400 / 101⟩] := by
  unfold forwardSubstitution
  simp only [show LI.length = 2 * 2 from rfl, isSquare_sq, Option.bind_eq_bind, Option.bind_some, Option.pure_def]
  norm_num [List.range_succ, rd, dot8, dot8Go, List.take, List.drop]
  simp only [zero_mk, mk_sub, mk_div, mk_mul, mk_add, Minf_rnd, Fl.mk.injEq]
  constructor <;> norm_num

theorem LI_bwd : backwardSubstitution LI [⟨200 / 101⟩, ⟨400 / 101⟩] = some sI := by
  unfold backwardSubstitution
  simp only [show LI.length = 2 * 2 from rfl, isSquare_sq, Option.bind_eq_bind, Option.bind_some, Option.pure_def]
  norm_num [List.range_succ, rd, dot8, dot8Go, List.take, List.drop]
  simp only [zero_mk, mk_sub, mk_div, mk_mul, mk_add, Minf_rnd, Fl.mk.injEq]
  constructor <;> norm_num

theorem LI_solve : choleskySolve LI gI = some sI := by
  unfold choleskySolve
  simp only [show LI.length = 2 * 2 from rfl, isSquare_sq, Option.bind_eq_bind, Option.bind_some, LI_fwd, LI_t, LI_bwd]
  simp

theorem HI_solve : solve HI gI = some sI := by
  unfold solve
  simp [route, HI_pred, HI_chol, solveWith, LI_solve]

theorem ext2 (H : List (Fl Minf)) (a b : ℝ) (hl : H.length = 2) (h0 : (H[0]!).val = a) (h1 : (H[1]!).val = b) :
    H = [⟨a⟩, ⟨b⟩] := by
  rcases H with _ | ⟨g0, _ | ⟨g1, _ | _⟩⟩ <;> simp at hl
  simp at h0 h1
  simp only [List.cons.injEq, and_true]
  exact ⟨Fl.ext h0, Fl.ext h1⟩

/-- the computed linear predictor at `β = (101, 202)` -/
theorem etaIv : linearPredictor Xi bI 2 2 none = some muI := by
  obtain ⟨c, h1, h2, h3⟩ := C05L.matmul_entry Xi bI 2 2 2 1 false false rfl rfl (by norm_num) (by norm_num) rfl
  simp only [linearPredictor, h1, Option.bind_eq_bind, Option.bind_some, Option.pure_def]
  have e0 := h3 0 0 (by norm_num) (by norm_num)
  have e1 := h3 1 0 (by norm_num) (by norm_num)
  simp [C05L.cellFold, C05L.opEntry, List.range_succ] at e0 e1
  congr 1
  exact ext2 c _ _ (by simpa using h2) (by simp; rw [e0]; simp [Minf_rnd]; norm_num)
    (by simp; rw [e1]; simp [Minf_rnd]; norm_num)

/-- **a scoring step in a model with `u = 1/100 > 0` that leaves `β` unchanged although the step is not zero**:
`δ̂ = (1, 2)`, `β = (101, 202)`, `β ⊖ δ̂ = 1.01·(β − δ̂) = β` -/
theorem stepI : scoringStep solve Xi yI wI (⟨0⟩ : Fl Minf) 2 bI muI oI oI = some (sI, bI) := by
  have hpen : penalised (⟨0⟩ : Fl Minf) 2 bI gI HI = (gI, HI) := by
    unfold penalised
    rw [if_neg (show ¬ (0 : Fl Minf) < ⟨0⟩ from lt_irrefl (0 : ℝ))]
  unfold scoringStep
  simp only [gIv, HIv, hpen, HI_solve, Option.bind_eq_bind, Option.bind_some]
  rw [C06L.vbin_eq (· - ·) bI sI rfl]
  simp only [List.zipWith_cons_cons, List.zipWith_nil_right, mk_sub, Minf_rnd, Option.pure_def, Option.bind_some,
    Option.some.injEq, Prod.mk.injEq, List.cons.injEq, and_true, true_and, Fl.mk.injEq]
  constructor <;> norm_num

theorem routeI : route HI = some (some LI) := by simp [route, HI_pred, HI_chol]

/-- the Newton solve runs on the Cholesky route, so the hypothesis on the LU pivots is void -/
theorem hdI : ∀ g H, computeDbeta Xi yI muI oI oI wI = some g → computeDdbeta Xi oI oI wI = some H →
    route (penalised (⟨0⟩ : Fl Minf) 2 bI g H).2 = some none →
    ∀ f piv, lu (penalised (⟨0⟩ : Fl Minf) 2 bI g H).2 = some (f, piv) → ∀ k, k < 2 → ev 2 f k k ≠ 0 := by
  intro g H _ hH hroute
  have e1 : H = HI := Option.some.inj (hH.symm.trans HIv)
  have : (penalised (⟨0⟩ : Fl Minf) 2 bI g H).2 = HI := by
    unfold penalised
    rw [if_neg (show ¬ (0 : Fl Minf) < ⟨0⟩ from lt_irrefl (0 : ℝ)), e1]
  rw [this, routeI] at hroute
  simp at hroute

/-- `scoringStep_system` with every hypothesis discharged in the 1 % model (`u = 1/100`, `n = p = 2`): the whole
conclusion holds for the run `stepI`, whose step `δ̂ = (1, 2)` is NOT zero -/
example := scoringStep_system Xi yI wI bI muI oI oI (⟨0⟩ : Fl Minf) 2 2 (by norm_num) (le_refl 2) rfl rfl rfl rfl rfl
  rfl sI bI stepI (by rw [Minf_u]; norm_num) (by rw [Minf_u]; norm_num) hdI

/-- `scoring_fixed_point` likewise: `β ⊖ δ̂ = β` with `δ̂ ≠ 0` and `u > 0` -/
example := scoring_fixed_point Xi yI wI bI muI oI oI (⟨0⟩ : Fl Minf) 2 2 (by norm_num) (le_refl 2) rfl rfl rfl rfl rfl
  rfl rfl sI stepI (by rw [Minf_u]; norm_num) (by rw [Minf_u]; norm_num) hdI

/-- the absorbed step is as large as `scoring_fixed_point` allows up to 1 %: `|δ̂_b| = |β_b|/101 ≤ γ₁·|β_b| = |β_b|/99` -/
example : vv sI 0 = 1 ∧ vv sI 1 = 2 ∧ Minf.γ 1 * |vv bI 0| = 101 / 99 ∧ Minf.γ 1 * |vv bI 1| = 202 / 99 := by
  unfold FlModel.γ
  rw [Minf_u]
  norm_num [vv, rd]

end Cv.Rounding7.Examples3

namespace Cv.Rounding7.LM.Examples
open Finset

/-- the one-parameter model `f(θ) = θ·(1,1)ᵀ`, data `y = (1,3)`: `A = 2`, least-squares solution `θ* = 2` -/
def J1 : ℕ → ℕ → ℝ := fun _ _ => 1
def y13 : ℕ → ℝ := fun k => if k = 0 then 1 else 3

theorem A1 : A J1 2 0 0 = 2 := by simp [A, J1]

/-- the LM step at `θ = 0` with `λ = 1` is `δ = 1` (`(2 + 2)·δ = 4`) -/
theorem step1 : IsStep J1 2 1 1 y13 (fun _ => 0) (fun _ => 1) := by
  intro i hi
  have : i = 0 := by omega
  subst this
  simp [A, grad, Jv, J1, y13, Finset.sum_range_succ]
  norm_num

theorem ls2 : IsLS J1 2 1 y13 (fun _ => 2) := by
  intro i hi
  simp [grad, Jv, J1, y13, Finset.sum_range_succ]
  norm_num

/-- `lm_fixed_iff`, `lm_rss_decrease`, `lm_linear_rho_pos` on this step: `θ = 0` is not a least-squares
solution, the step is non-zero, the residual drops from `10` to `4` -/
example : ¬ IsLS J1 2 1 y13 (fun _ => 0) ∧
    rss J1 2 1 y13 (fun j => (fun _ => (0 : ℝ)) j + (fun _ => (1 : ℝ)) j) < rss J1 2 1 y13 (fun _ => 0) := by
  have hcol : ∀ i, i < 1 → 0 < A J1 2 i i := by
    intro i hi; have : i = 0 := by omega
    subst this; rw [A1]; norm_num
  have hn : ¬ IsLS J1 2 1 y13 (fun _ => 0) := by
    rw [← lm_fixed_iff 1 one_pos hcol y13 _ _ step1]
    intro h; have := h 0 (by norm_num); norm_num at this
  exact ⟨hn, (lm_rss_decrease 1 one_pos hcol y13 _ _ step1).2 hn⟩

/-- `lm_contraction` / `lm_error_recursion` with `κ = 1` (`D = A` for one parameter), `Λ = 1`: `q² = ½`,
and indeed `‖e⁺‖²_A = 2·(−1)² = 2 ≤ ½·2·(−2)² = 4` -/
example : bA J1 2 1 (fun j => ((fun _ => (0 : ℝ)) j - (fun _ => (2 : ℝ)) j) + (fun _ => (1 : ℝ)) j)
      (fun j => ((fun _ => (0 : ℝ)) j - (fun _ => (2 : ℝ)) j) + (fun _ => (1 : ℝ)) j) ≤
    1 * 1 / (1 + 1 * 1) * bA J1 2 1 (fun j => (fun _ => (0 : ℝ)) j - (fun _ => (2 : ℝ)) j)
      (fun j => (fun _ => (0 : ℝ)) j - (fun _ => (2 : ℝ)) j) :=
  lm_contraction 1 1 1 one_pos (le_refl 1) zero_le_one
    (by
      intro x
      simp [bD, bA, Jv, A, J1])
    y13 _ _ _ ls2 step1

end Cv.Rounding7.LM.Examples
