"""C04 scalar sweep: `python3-vt tools/cv/c04_sweep.py <fn> model <n-per-rep> <reps>` compares the Rust scalar method (executor op `scal`)
with the model's Float spelling (driver op `scal`) on random bit patterns + special arguments; prints (#differences, max ulp
distance, smallest-magnitude counterexample).  Measured 2026-09-27: asinh/acosh/atanh 0 of 1200051 each, cbrt 0 of 10000170."""
import numpy as np, subprocess, sys, os, struct
D='/verif/out/C04/sweep'
os.makedirs(D, exist_ok=True)
RUST='/verif/exec/target/debug/c04'; LEAN='/verif/lean/.lake/build/bin/cv_c04'
def gen(fn, n, rs):
    parts=[]
    parts.append(rs.randint(0, 2**64, size=n//2, dtype=np.uint64))            # all bit patterns: every exponent, subnormals, NaN, inf
    x = rs.standard_normal(n//8) * 10.0**rs.randint(-3,4,size=n//8)
    parts.append(x.view(np.uint64))
    if fn in ('atanh','acosh','asinh'):
        k = rs.randint(1,60,size=n//8)
        near1 = (1.0 + rs.choice([-1,1],size=n//8)*rs.random_sample(n//8)*2.0**(-k))
        if fn=='atanh': near1 *= rs.choice([-1.0,1.0],size=n//8)
        parts.append(near1.view(np.uint64))
        parts.append(rs.uniform(-1,1,size=n//8).view(np.uint64))
        parts.append((1.0+np.abs(rs.standard_normal(n//8))*10.0**rs.randint(-8,300,size=n//8)).view(np.uint64))
    else:
        parts.append((rs.standard_normal(n//4)*10.0**rs.randint(-300,300,size=n//4)).view(np.uint64))
        parts.append((rs.randint(-1000,1000,size=n//8).astype(np.float64)**3).view(np.uint64))   # perfect cubes
    sp=np.array([0.0,-0.0,np.inf,-np.inf,np.nan,1.0,-1.0,5e-324,-5e-324,2.2250738585072014e-308,1.7976931348623157e308,0.5,2.0,8.0,27.0,1-2**-53,1+2**-52],dtype=np.float64)
    parts.append(sp.view(np.uint64))
    return np.concatenate(parts)
def run(fn, variants, n, seed):
    rs=np.random.RandomState(seed)
    bits=gen(fn,n,rs)
    toks=['%016x'%b for b in bits.tolist()]
    fl=bits.view(np.float64)
    toks=[t if not (f!=f) else 'nan' for t,f in zip(toks,fl.tolist())]
    CH=20000
    chunks=[toks[i:i+CH] for i in range(0,len(toks),CH)]
    def exe(binp, op, tag):
        req=os.path.join(D,'req_%s.txt'%tag); out=os.path.join(D,'out_%s.txt'%tag)
        with open(req,'w') as f:
            for c in chunks: f.write('%s %d %s\n'%(op,len(c),' '.join(c)))
        subprocess.run([binp,req,out],check=True)
        res=[]
        for l in open(out):
            t=l.split(); assert t[0]=='=', l[:80]; res+=t[2:]
        os.remove(req); os.remove(out)
        return res
    r=exe(RUST,'scal '+fn,'rust')
    assert len(r)==len(toks)
    res={}
    for v in variants:
        m=exe(LEAN,'scal '+fn,'lean')
        diff=[i for i in range(len(toks)) if r[i]!=m[i]]
        maxulp=0; 
        for i in diff:
            if r[i]=='nan' or m[i]=='nan': maxulp=max(maxulp,10**9); continue
            a=int(r[i],16); b=int(m[i],16)
            if (a>>63)!=(b>>63): maxulp=max(maxulp,10**9); continue
            maxulp=max(maxulp,abs(a-b))
        smallest=None
        if diff:
            i=min(diff,key=lambda i: (abs(fl[i]) if fl[i]==fl[i] else 1e400))
            smallest=(toks[i],repr(float(fl[i])),r[i],m[i])
        res[v]=(len(diff),maxulp,smallest)
    return len(toks),res
if __name__=='__main__':
    fn=sys.argv[1]; variants=sys.argv[2].split(','); n=int(sys.argv[3]); reps=int(sys.argv[4])
    tot=0; agg={v:[0,0,None] for v in variants}
    for s in range(reps):
        k,res=run(fn,variants,n,1000+s); tot+=k
        for v,(d,u,sm) in res.items():
            agg[v][0]+=d; agg[v][1]=max(agg[v][1],u)
            if sm and agg[v][2] is None: agg[v][2]=sm
    print(fn,'args',tot,{v:tuple(a) for v,a in agg.items()})
