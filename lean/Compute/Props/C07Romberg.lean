import Mathlib.Tactic.Ring
import Mathlib.Tactic.FieldSimp
import Mathlib.Tactic.Linarith
import Mathlib.Tactic.NormNum
import Mathlib.Algebra.BigOperators.Intervals
import Mathlib.Algebra.Order.Field.Basic
import Mathlib.NumberTheory.Bernoulli
import Mathlib.Algebra.Polynomial.Taylor
import Mathlib.Tactic.ComputeDegree
import Mathlib.Analysis.SpecialFunctions.Integrals.Basic
import Compute.Lemmas.C04Powi
import Compute.Props.C07
/-
C07 (deep) — Romberg integration for every level count.

* `R f a b n m`: the textbook Romberg tableau over a field (column 0 = trapezoid refinement, Richardson
  extrapolation along the rows).
* `rombergRow_eq`: the model's row `n` is `[R n 0, …, R n n]`.
* `romberg_eps0`, `romberg_of_no_stop`, `romberg_of_first_stop`: the model's `romberg` returns the
  diagonal entry `R n* n*` where `n*` is the first level `≥ 2` at which the early-stop test fires
  (`nmax - 1` if none; never at `eps = 0`).
* linearity in the integrand, antisymmetry under swapping the limits, vanishing for `a = b`, for the
  whole tableau and for the model at `eps = 0`.
* `R_exact` / `R_exact_monomial` / `R_exact_eval` / `R_exact_real`: `R n m` integrates polynomials of
  degree `≤ 2m+1` exactly (`m ≤ n`, all `n`, `m`), via Faulhaber / Bernoulli (`col0_monomial`:
  Euler–Maclaurin for monomials), the closed form of column 0 (`col0_closed`, `col0_eq_trapz`) and the
  Richardson elimination lemma `rich_expansion` / `rich_exact`.
* `romberg_exact`, `romberg_exact_horner` (tolerance `0`, degree `≤ 2k−1`), `romberg_exact_any_eps`
  (every tolerance, degree `≤ 5`, `k ≥ 3`): the same for the model's `romberg`.
All statements are in exact arithmetic over a field of characteristic `0`; level counts `k ≤ 31` as in
the model (`powi` is the power for exponents `< 2^64`).
-/
set_option linter.unusedSectionVars false
set_option linter.unusedSimpArgs false
namespace Cv.C07R
open Cv Cv.C08 Cv.C07 Finset

/-! ### 1. The pure tableau -/
section Pure
variable {α : Type} [Field α]

/-- Step size at level `n`: `hₙ = (b − a) / 2ⁿ`. -/
def hN (a b : α) (n : ℕ) : α := (b - a) / 2 ^ n

/-- Column 0 of the tableau (trapezoid refinement):
`R 0 0 = (b−a)/2 (f a + f b)`, `R (n+1) 0 = ½ R n 0 + hₙ₊₁ Σ_{k=1}^{2ⁿ} f(a + (2k−1) hₙ₊₁)`
(the sum is indexed from `0`: `2(k+1) − 1 = 2k + 1`). -/
def col0 (f : α → α) (a b : α) : ℕ → α
  | 0 => (b - a) / 2 * (f a + f b)
  | n + 1 => 1 / 2 * col0 f a b n
      + hN a b (n + 1) * ∑ k ∈ range (2 ^ n), f (a + (2 * (k : α) + 1) * hN a b (n + 1))

/-- Richardson extrapolation of a sequence `T` (column 0):
`rich T n (m+1) = rich T n m + (rich T n m − rich T (n−1) m) / (4^(m+1) − 1)`. -/
def rich (T : ℕ → α) : ℕ → ℕ → α
  | n, 0 => T n
  | n, m + 1 => rich T n m + (rich T n m - rich T (n - 1) m) / (4 ^ (m + 1) - 1)

/-- The Romberg tableau `R n m` (meaningful for `m ≤ n`). -/
def R (f : α → α) (a b : α) (n m : ℕ) : α := rich (col0 f a b) n m

theorem R_zero_col (f : α → α) (a b : α) (n : ℕ) : R f a b n 0 = col0 f a b n := rfl

theorem R_succ (f : α → α) (a b : α) (n m : ℕ) :
    R f a b (n + 1) (m + 1)
      = R f a b (n + 1) m + (R f a b (n + 1) m - R f a b n m) / (4 ^ (m + 1) - 1) := by
  simp [R, rich]

theorem R_zero_zero (f : α → α) (a b : α) : R f a b 0 0 = (b - a) / 2 * (f a + f b) := rfl

theorem R_succ_zero (f : α → α) (a b : α) (n : ℕ) :
    R f a b (n + 1) 0 = 1 / 2 * R f a b n 0
      + hN a b (n + 1) * ∑ k ∈ range (2 ^ n), f (a + (2 * (k : α) + 1) * hN a b (n + 1)) := rfl

/-- The textbook indexing of the midpoint sum, `k = 1 … 2ⁿ`, nodes `a + (2k − 1) hₙ₊₁`. -/
theorem R_succ_zero_textbook (f : α → α) (a b : α) (n : ℕ) :
    R f a b (n + 1) 0 = 1 / 2 * R f a b n 0
      + hN a b (n + 1) * ∑ k ∈ Finset.Icc (1 : ℕ) (2 ^ n), f (a + (2 * (k : α) - 1) * hN a b (n + 1)) := by
  rw [R_succ_zero]
  congr 2
  have : Finset.Icc (1 : ℕ) (2 ^ n) = Finset.Ico (0 + 1) (2 ^ n + 1) := by
    ext x; simp [Finset.mem_Ico, Finset.mem_Icc]
  rw [this, ← Finset.sum_Ico_add' (fun k : ℕ => f (a + (2 * (k : α) - 1) * hN a b (n + 1))) 0 (2 ^ n) 1,
    Finset.range_eq_Ico]
  apply Finset.sum_congr rfl
  intro k _
  congr 2
  push_cast; ring

end Pure

/-! ### 2. The model computes the tableau -/
section Refine
variable {α : Type} [Field α]

theorem powi_nat (x : α) (k : ℕ) (h : k < 2 ^ 64) : powi x ((k : ℕ) : Int) = x ^ k := by
  rw [Cv.C04.powi_eq_zpow x _ (by simpa using h), zpow_natCast]

theorem col0Next_eq (f : α → α) (a b : α) (n : ℕ) (hn : n + 1 < 2 ^ 64) :
    rombergCol0Next f a b (col0 f a b n) (n + 1) = col0 f a b (n + 1) := by
  simp only [rombergCol0Next, col0, iterSum_eq, half_eq, two_eq, sum_range'_one, powi_nat _ _ hn,
    Nat.add_sub_cancel, hN]
  congr 2
  apply Finset.sum_congr rfl
  intro k _
  have : 2 * (k + 1) - 1 = 2 * k + 1 := by omega
  rw [this]; push_cast; rfl

/-- Row `n` of the pure tableau as a list. -/
def row (f : α → α) (a b : α) (n : ℕ) : List α := (List.range (n + 1)).map (R f a b n)

theorem richRow_eq (f : α → α) (a b : α) (n : ℕ) : ∀ (len m : ℕ), m + len < 2 ^ 64 →
    richRow (R f a b (n + 1) m) (m + 1) ((List.range' m len).map (R f a b n))
      = (List.range' m (len + 1)).map (R f a b (n + 1)) := by
  intro len
  induction len with
  | zero => intro m _; simp [richRow]
  | succ len ih =>
    intro m hm
    rw [show List.range' m (len + 1) = m :: List.range' (m + 1) len from List.range'_succ,
      show List.range' m (len + 1 + 1) = m :: List.range' (m + 1) (len + 1) from List.range'_succ,
      List.map_cons, List.map_cons, richRow]
    congr 1
    have h4 : (two * two : α) = 4 := by rw [two_eq]; norm_num
    rw [powi_nat _ _ (by omega : m + 1 < 2 ^ 64), h4, ← R_succ]
    exact ih (m + 1) (by omega)

theorem row_step (f : α → α) (a b : α) (n : ℕ) (hn : n + 1 < 2 ^ 64) :
    richRow (rombergCol0Next f a b ((row f a b n).headD 0) (n + 1)) 1 (row f a b n)
      = row f a b (n + 1) := by
  have hh : (row f a b n).headD 0 = col0 f a b n := by
    simp [row, List.range_succ_eq_map, R_zero_col]
  rw [hh, col0Next_eq f a b n hn]
  have := richRow_eq f a b n (n + 1) 0 (by omega)
  simpa [row, List.range_eq_range', R_zero_col] using this

/-- **The model's tableau row is the textbook tableau row**, `[R n 0, …, R n n]`, for every level. -/
theorem rombergRow_eq (f : α → α) (a b : α) (n : ℕ) (hn : n < 2 ^ 64) :
    rombergRow f a b n = (List.range (n + 1)).map (R f a b n) := by
  induction n with
  | zero => simp [rombergRow, romberg00, two_eq, R_zero_zero]
  | succ n ih =>
    have := row_step f a b n hn
    rw [row, ← ih (by omega)] at this
    simpa [rombergRow, row] using this

theorem row_getLastD (f : α → α) (a b : α) (n : ℕ) : (row f a b n).getLastD 0 = R f a b n n := by
  simp [row, List.range_succ (n := n), List.getLastD_eq_getLast?]

example : rombergRow (fun x : ℚ => x ^ 2) 0 1 2 = [11 / 32, 1 / 3, 1 / 3] := by
  rw [rombergRow_eq _ _ _ _ (by norm_num)]
  simp [List.range_succ, R, rich, col0, hN, Finset.sum_range_succ]
  norm_num

end Refine

/-! ### 3. The model's `romberg`: which tableau entry is returned -/
section Loop
variable {α : Type} [Field α] [LinearOrder α] [HasNaN α] [Transc α]

/-- The early-stop test between the diagonal entries of levels `j` and `j − 1`. -/
def stopAt (f : α → α) (a b eps : α) (j : ℕ) : Bool :=
  rombergStop eps (R f a b j j) (R f a b (j - 1) (j - 1))

theorem loop_no_stop (f : α → α) (a b eps : α) (nmax : ℕ) (hmax : nmax < 2 ^ 64) :
    ∀ (fuel n : ℕ), 1 ≤ n → n ≤ nmax → nmax ≤ n + fuel →
      (∀ j, n ≤ j → j < nmax → 2 ≤ j → stopAt f a b eps j = false) →
      rombergLoop f a b eps nmax fuel n (row f a b (n - 1)) = R f a b (nmax - 1) (nmax - 1) := by
  intro fuel
  induction fuel with
  | zero =>
    intro n _ h2 h3 _
    have : n = nmax := by omega
    subst this
    rw [rombergLoop, row_getLastD]
  | succ fuel ih =>
    intro n h1 h2 h3 hs
    obtain ⟨n', rfl⟩ : ∃ n', n = n' + 1 := ⟨n - 1, by omega⟩
    rw [rombergLoop]
    by_cases hlt : n' + 1 < nmax
    · simp only [hlt, if_true, Nat.add_sub_cancel]
      rw [row_step f a b n' (by omega), row_getLastD, row_getLastD]
      have hc : (decide (1 < n' + 1) && rombergStop eps (R f a b (n' + 1) (n' + 1)) (R f a b n' n')) = false := by
        by_cases h0 : 2 ≤ n' + 1
        · have := hs (n' + 1) le_rfl hlt h0
          simp only [stopAt, Nat.add_sub_cancel] at this
          simp [this]
        · have : ¬ (1 < n' + 1) := by omega
          simp [this]
      simp only [hc, Bool.false_eq_true, if_false]
      have := ih (n' + 1 + 1) (by omega) (by omega) (by omega)
        (fun j hj1 hj2 hj3 => hs j (by omega) hj2 hj3)
      simpa using this
    · have : n' + 1 = nmax := by omega
      subst this
      rw [if_neg hlt, Nat.add_sub_cancel, row_getLastD]

theorem loop_first_stop (f : α → α) (a b eps : α) (nmax s : ℕ) (hmax : nmax < 2 ^ 64)
    (hs2 : 2 ≤ s) (hsn : s < nmax) (hstop : stopAt f a b eps s = true) :
    ∀ (fuel n : ℕ), 1 ≤ n → n ≤ s → nmax ≤ n + fuel →
      (∀ j, n ≤ j → j < s → 2 ≤ j → stopAt f a b eps j = false) →
      rombergLoop f a b eps nmax fuel n (row f a b (n - 1)) = R f a b s s := by
  intro fuel
  induction fuel with
  | zero => intro n _ h2 h3 _; omega
  | succ fuel ih =>
    intro n h1 h2 h3 hs
    obtain ⟨n', rfl⟩ : ∃ n', n = n' + 1 := ⟨n - 1, by omega⟩
    rw [rombergLoop]
    have hlt : n' + 1 < nmax := by omega
    simp only [hlt, if_true, Nat.add_sub_cancel]
    rw [row_step f a b n' (by omega), row_getLastD, row_getLastD]
    by_cases he : n' + 1 = s
    · subst he
      have h1' : 1 < n' + 1 := by omega
      simp only [stopAt, Nat.add_sub_cancel] at hstop
      simp [h1', hstop]
    · have hc : (decide (1 < n' + 1) && rombergStop eps (R f a b (n' + 1) (n' + 1)) (R f a b n' n')) = false := by
        by_cases h0 : 2 ≤ n' + 1
        · have := hs (n' + 1) le_rfl (by omega) h0
          simp only [stopAt, Nat.add_sub_cancel] at this
          simp [this]
        · have : ¬ (1 < n' + 1) := by omega
          simp [this]
      simp only [hc, Bool.false_eq_true, if_false]
      have := ih (n' + 1 + 1) (by omega) (by omega) (by omega)
        (fun j hj1 hj2 hj3 => hs j (by omega) hj2 hj3)
      simpa using this

theorem romberg_unfold (f : α → α) (a b eps : α) (k : ℕ) (h1 : 1 ≤ k) (h31 : k ≤ 31) :
    romberg f a b eps k = some (rombergLoop f a b eps k k 1 (row f a b (1 - 1))) := by
  have : ¬ (k = 0 ∨ 31 < k) := by omega
  simp [romberg, this, row, romberg00, two_eq, R_zero_zero]

/-- **No early exit**: if the stop test is false at every level `2 ≤ j < k`, `romberg` with `k` levels
returns the last diagonal entry `R (k−1) (k−1)`. -/
theorem romberg_of_no_stop (f : α → α) (a b eps : α) (k : ℕ) (h1 : 1 ≤ k) (h31 : k ≤ 31)
    (hs : ∀ j, 2 ≤ j → j < k → stopAt f a b eps j = false) :
    romberg f a b eps k = some (R f a b (k - 1) (k - 1)) := by
  rw [romberg_unfold f a b eps k h1 h31,
    loop_no_stop f a b eps k (by omega) k 1 le_rfl h1 (by omega) (fun j _ h2 h3 => hs j h3 h2)]

/-- **Early exit**: if the stop test first fires at level `s` (`2 ≤ s < k`), `romberg` returns `R s s`. -/
theorem romberg_of_first_stop (f : α → α) (a b eps : α) (k s : ℕ) (h31 : k ≤ 31)
    (hs2 : 2 ≤ s) (hsk : s < k) (hstop : stopAt f a b eps s = true)
    (hs : ∀ j, 2 ≤ j → j < s → stopAt f a b eps j = false) :
    romberg f a b eps k = some (R f a b s s) := by
  rw [romberg_unfold f a b eps k (by omega) h31,
    loop_first_stop f a b eps k s (by omega) hs2 hsk hstop k 1 le_rfl (by omega) (by omega)
      (fun j _ h2 h3 => hs j h3 h2)]

/-- Error branches: no level at all, or more than 31 levels. -/
theorem romberg_none (f : α → α) (a b eps : α) :
    romberg f a b eps 0 = none ∧ ∀ k, 31 < k → romberg f a b eps k = none := by
  refine ⟨by simp [romberg], fun k hk => by simp [romberg, hk]⟩

/-- In every case the result is a diagonal entry `R s s` with `s < k`, and `s ≥ 2` from three levels on. -/
theorem romberg_diag (f : α → α) (a b eps : α) (k : ℕ) (h1 : 1 ≤ k) (h31 : k ≤ 31) :
    ∃ s, s < k ∧ (3 ≤ k → 2 ≤ s) ∧ romberg f a b eps k = some (R f a b s s) := by
  classical
  by_cases h : ∃ j, 2 ≤ j ∧ j < k ∧ stopAt f a b eps j = true
  · refine ⟨Nat.find h, (Nat.find_spec h).2.1, fun _ => (Nat.find_spec h).1, ?_⟩
    apply romberg_of_first_stop f a b eps k _ h31 (Nat.find_spec h).1 (Nat.find_spec h).2.1
      (Nat.find_spec h).2.2
    intro j hj2 hjs
    have hmin := Nat.find_min h hjs
    have hjk : j < k := lt_trans hjs (Nat.find_spec h).2.1
    cases hst : stopAt f a b eps j with
    | false => rfl
    | true => exact absurd ⟨hj2, hjk, hst⟩ hmin
  · refine ⟨k - 1, by omega, fun _ => by omega, ?_⟩
    apply romberg_of_no_stop f a b eps k h1 h31
    intro j hj2 hjk
    cases hst : stopAt f a b eps j with
    | false => rfl
    | true => exact absurd ⟨j, hj2, hjk, hst⟩ h

end Loop

section Eps0
variable {α : Type} [Field α] [LinearOrder α] [IsStrictOrderedRing α] [HasNaN α] [Transc α]

/-- With tolerance `0` the stop test never fires (`|x| < 0 · min(…) = 0` and `|x| < 0` are false),
whatever `HasNaN` says. -/
theorem rombergStop_zero (habs : ∀ x : α, Transc.abs x = |x|) (cur prev : α) :
    rombergStop 0 cur prev = false := by
  have h : ∀ x : α, ¬ |x| < 0 := fun x => not_lt.mpr (abs_nonneg x)
  simp [rombergStop, habs, h]

/-- **`romberg` at `eps = 0` returns `R (k−1) (k−1)`**, for every admissible level count. -/
theorem romberg_eps0 (habs : ∀ x : α, Transc.abs x = |x|) (f : α → α) (a b : α) (k : ℕ)
    (h1 : 1 ≤ k) (h31 : k ≤ 31) :
    romberg f a b 0 k = some (R f a b (k - 1) (k - 1)) :=
  romberg_of_no_stop f a b 0 k h1 h31 (fun _ _ _ => rombergStop_zero habs _ _)

end Eps0

/-! ### 4. Linearity, antisymmetry, degenerate interval — for the whole tableau -/
section Algebra
variable {α : Type} [Field α]

theorem col0_add (f g : α → α) (a b : α) (n : ℕ) :
    col0 (fun x => f x + g x) a b n = col0 f a b n + col0 g a b n := by
  induction n with
  | zero => simp only [col0]; ring
  | succ n ih => simp only [col0, ih, Finset.sum_add_distrib]; ring

theorem col0_smul (c : α) (f : α → α) (a b : α) (n : ℕ) :
    col0 (fun x => c * f x) a b n = c * col0 f a b n := by
  induction n with
  | zero => simp only [col0]; ring
  | succ n ih => simp only [col0, ih, ← Finset.mul_sum]; ring

theorem col0_self (f : α → α) (a : α) (n : ℕ) : col0 f a a n = 0 := by
  induction n with
  | zero => simp [col0]
  | succ n ih => simp [col0, ih, hN]

theorem rich_add (S T : ℕ → α) (m : ℕ) : ∀ n, rich (fun i => S i + T i) n m = rich S n m + rich T n m := by
  induction m with
  | zero => intro n; rfl
  | succ m ih => intro n; simp only [rich, ih]; ring

theorem rich_smul (c : α) (T : ℕ → α) (m : ℕ) : ∀ n, rich (fun i => c * T i) n m = c * rich T n m := by
  induction m with
  | zero => intro n; rfl
  | succ m ih => intro n; simp only [rich, ih]; ring

theorem rich_neg (T : ℕ → α) (m : ℕ) : ∀ n, rich (fun i => - T i) n m = - rich T n m := by
  induction m with
  | zero => intro n; rfl
  | succ m ih => intro n; simp only [rich, ih]; ring

theorem rich_zero (m : ℕ) : ∀ n, rich (fun _ => (0 : α)) n m = 0 := by
  induction m with
  | zero => intro n; rfl
  | succ m ih => intro n; simp only [rich, ih]; simp

/-- **Additivity in the integrand**, every entry of the tableau. -/
theorem R_add (f g : α → α) (a b : α) (n m : ℕ) :
    R (fun x => f x + g x) a b n m = R f a b n m + R g a b n m := by
  rw [R, R, R, ← rich_add]; congr 1; funext i; exact col0_add f g a b i

/-- **Homogeneity in the integrand**, every entry of the tableau. -/
theorem R_smul (c : α) (f : α → α) (a b : α) (n m : ℕ) :
    R (fun x => c * f x) a b n m = c * R f a b n m := by
  rw [R, R, ← rich_smul]; congr 1; funext i; exact col0_smul c f a b i

theorem R_zero_fun (a b : α) (n m : ℕ) : R (fun _ => (0 : α)) a b n m = 0 := by
  have := R_smul 0 (fun _ => (0 : α)) a b n m
  simpa using this

/-- Linearity over finite sums. -/
theorem R_sum {ι : Type} (s : Finset ι) (c : ι → α) (g : ι → α → α) (a b : α) (n m : ℕ) :
    R (fun x => ∑ i ∈ s, c i * g i x) a b n m = ∑ i ∈ s, c i * R (g i) a b n m := by
  classical
  induction s using Finset.induction_on with
  | empty => simp [R_zero_fun]
  | insert i s hi ih =>
    simp only [Finset.sum_insert hi]
    rw [R_add (fun x => c i * g i x) (fun x => ∑ j ∈ s, c j * g j x), R_smul, ih]

/-- **The tableau vanishes on a degenerate interval**, every entry. -/
theorem R_self (f : α → α) (a : α) (n m : ℕ) : R f a a n m = 0 := by
  rw [R, show col0 f a a = fun _ => (0 : α) from funext (col0_self f a), rich_zero]

variable [CharZero α]

/-- Column 0 changes sign when the limits are swapped: the midpoint sums are reindexed by
`k ↦ 2ⁿ − 1 − k`, i.e. `b − (2k+1) h = a + (2(2ⁿ−1−k)+1) h`. -/
theorem col0_swap (f : α → α) (a b : α) (n : ℕ) : col0 f b a n = - col0 f a b n := by
  induction n with
  | zero => simp only [col0]; ring
  | succ n ih =>
    simp only [col0, ih]
    have hs : ∑ k ∈ range (2 ^ n), f (b + (2 * (k : α) + 1) * hN b a (n + 1))
        = ∑ k ∈ range (2 ^ n), f (a + (2 * (k : α) + 1) * hN a b (n + 1)) := by
      rw [← Finset.sum_range_reflect (fun k => f (a + (2 * (k : α) + 1) * hN a b (n + 1)))]
      apply Finset.sum_congr rfl
      intro k hk
      have hk' : k < 2 ^ n := Finset.mem_range.mp hk
      have hc : ((2 ^ n - 1 - k : ℕ) : α) = 2 ^ n - 1 - (k : α) := by
        rw [Nat.sub_sub, Nat.cast_sub (by omega)]; push_cast; ring
      rw [hc]
      congr 1
      have h2 : (2 : α) ^ n ≠ 0 := pow_ne_zero _ two_ne_zero
      simp only [hN, pow_succ]
      field_simp
      ring
    rw [hs]
    simp only [hN]
    ring

/-- **Antisymmetry under swapping the limits**, every entry of the tableau. -/
theorem R_swap (f : α → α) (a b : α) (n m : ℕ) : R f b a n m = - R f a b n m := by
  rw [R, R, ← rich_neg]; congr 1; funext i; exact col0_swap f a b i

end Algebra

/-! ### 5. The same for the model's `romberg` at tolerance `0` -/
section ModelAlgebra
variable {α : Type} [Field α] [LinearOrder α] [IsStrictOrderedRing α] [HasNaN α] [Transc α]

theorem romberg_eps0_none (f : α → α) (a b : α) (k : ℕ) (h : ¬ (1 ≤ k ∧ k ≤ 31)) :
    romberg f a b 0 k = none := by
  have : k = 0 ∨ 31 < k := by omega
  simp [romberg, this]

/-- `romberg` at `eps = 0` is additive in the integrand (both sides panic together). -/
theorem romberg_add (habs : ∀ x : α, Transc.abs x = |x|) (f g : α → α) (a b : α) (k : ℕ) :
    romberg (fun x => f x + g x) a b 0 k
      = (romberg f a b 0 k).bind fun u => (romberg g a b 0 k).map fun v => u + v := by
  by_cases h : 1 ≤ k ∧ k ≤ 31
  · rw [romberg_eps0 habs _ a b k h.1 h.2, romberg_eps0 habs f a b k h.1 h.2,
      romberg_eps0 habs g a b k h.1 h.2, R_add]; rfl
  · simp [romberg_eps0_none _ a b k h]

/-- `romberg` at `eps = 0` is homogeneous in the integrand. -/
theorem romberg_smul (habs : ∀ x : α, Transc.abs x = |x|) (c : α) (f : α → α) (a b : α) (k : ℕ) :
    romberg (fun x => c * f x) a b 0 k = (romberg f a b 0 k).map fun u => c * u := by
  by_cases h : 1 ≤ k ∧ k ≤ 31
  · rw [romberg_eps0 habs _ a b k h.1 h.2, romberg_eps0 habs f a b k h.1 h.2, R_smul]; rfl
  · simp [romberg_eps0_none _ a b k h]

/-- `romberg` at `eps = 0` changes sign when the limits are swapped. -/
theorem romberg_swap (habs : ∀ x : α, Transc.abs x = |x|) (f : α → α) (a b : α) (k : ℕ) :
    romberg f b a 0 k = (romberg f a b 0 k).map Neg.neg := by
  by_cases h : 1 ≤ k ∧ k ≤ 31
  · rw [romberg_eps0 habs f b a k h.1 h.2, romberg_eps0 habs f a b k h.1 h.2, R_swap]; rfl
  · simp [romberg_eps0_none _ _ _ k h]

/-- `romberg` at `eps = 0` over a degenerate interval is `0`. -/
theorem romberg_self (habs : ∀ x : α, Transc.abs x = |x|) (f : α → α) (a : α) (k : ℕ)
    (h1 : 1 ≤ k) (h31 : k ≤ 31) : romberg f a a 0 k = some 0 := by
  rw [romberg_eps0 habs f a a k h1 h31, R_self]

end ModelAlgebra

/-! ### 6. Richardson elimination: what extrapolation does to an error expansion -/
section Richardson
variable {α : Type} [Field α] [CharZero α]

theorem four_pow_sub_one_ne (m : ℕ) : (4 : α) ^ (m + 1) - 1 ≠ 0 := by
  have h : ((4 ^ (m + 1) : ℕ) : α) ≠ ((1 : ℕ) : α) := by
    apply Nat.cast_injective.ne
    have := Nat.one_lt_pow (n := m + 1) (a := 4) (by omega) (by norm_num)
    omega
  push_cast at h
  exact sub_ne_zero.mpr h

/-- **Richardson elimination** (the induction skeleton of Romberg's method).  If column 0 has an
expansion `T n = Σ_{i<K} cᵢ (2⁻ⁱ)ⁿ` in powers of the step (coefficients independent of `n`), then every
entry `m ≤ n` of the extrapolated tableau has the expansion with the explicit transformed coefficients
`cᵢ · Π_{l<m} (4^(l+1) − 2ⁱ)/(4^(l+1) − 1)`: the `l`-th extrapolation removes the term `i = 2(l+1)`
and leaves the constant term `i = 0` alone. -/
theorem rich_expansion (T : ℕ → α) (K : ℕ) (c : ℕ → α)
    (hT : ∀ n, T n = ∑ i ∈ range K, c i * (1 / 2 ^ i) ^ n) :
    ∀ m n, m ≤ n → rich T n m
      = ∑ i ∈ range K, c i * (∏ l ∈ range m, (4 ^ (l + 1) - 2 ^ i) / (4 ^ (l + 1) - 1)) * (1 / 2 ^ i) ^ n := by
  intro m
  induction m with
  | zero => intro n _; simp [rich, hT]
  | succ m ih =>
    intro n hn
    obtain ⟨n', rfl⟩ : ∃ n', n = n' + 1 := ⟨n - 1, by omega⟩
    simp only [rich, Nat.add_sub_cancel]
    rw [ih (n' + 1) (by omega), ih n' (by omega), ← Finset.sum_sub_distrib, Finset.sum_div,
      ← Finset.sum_add_distrib]
    apply Finset.sum_congr rfl
    intro i _
    rw [Finset.prod_range_succ, pow_succ (1 / 2 ^ i : α) n']
    have hD := four_pow_sub_one_ne (α := α) m
    have hY : (2 : α) ^ i ≠ 0 := pow_ne_zero _ two_ne_zero
    generalize (∏ l ∈ range m, ((4 : α) ^ (l + 1) - 2 ^ i) / (4 ^ (l + 1) - 1)) = P
    generalize ((1 : α) / 2 ^ i) ^ n' = Q
    generalize (4 : α) ^ (m + 1) = X at hD ⊢
    generalize (2 : α) ^ i = Y at hY ⊢
    field_simp
    ring

/-- Consequence: if every non-constant term of the expansion of column 0 either is absent or is an
even power `2(l+1)` with `l < m`, then `rich T n m` is exactly the constant term. -/
theorem rich_exact (T : ℕ → α) (K : ℕ) (c : ℕ → α)
    (hT : ∀ n, T n = ∑ i ∈ range (K + 1), c i * (1 / 2 ^ i) ^ n) (m n : ℕ) (hmn : m ≤ n)
    (hc : ∀ i, 1 ≤ i → i ≤ K → c i = 0 ∨ ∃ l, l < m ∧ i = 2 * (l + 1)) :
    rich T n m = c 0 := by
  rw [rich_expansion T (K + 1) c hT m n hmn, Finset.sum_range_succ']
  have h0 : ∏ l ∈ range m, ((4 : α) ^ (l + 1) - 2 ^ 0) / (4 ^ (l + 1) - 1) = 1 := by
    apply Finset.prod_eq_one
    intro l _
    rw [pow_zero]
    exact div_self (four_pow_sub_one_ne l)
  rw [h0]
  have hz : ∑ i ∈ range K, c (i + 1) * (∏ l ∈ range m, ((4 : α) ^ (l + 1) - 2 ^ (i + 1)) / (4 ^ (l + 1) - 1))
      * (1 / 2 ^ (i + 1)) ^ n = 0 := by
    apply Finset.sum_eq_zero
    intro i hi
    have hi' : i < K := Finset.mem_range.mp hi
    rcases hc (i + 1) (by omega) (by omega) with h | ⟨l, hl, hil⟩
    · rw [h]; ring
    · have : ∏ l ∈ range m, ((4 : α) ^ (l + 1) - 2 ^ (i + 1)) / (4 ^ (l + 1) - 1) = 0 := by
        apply Finset.prod_eq_zero (Finset.mem_range.mpr hl)
        rw [hil, pow_mul]
        norm_num
      rw [this]; ring
  rw [hz]
  simp

/-- A concrete instance: an `h²`-and-`h⁴` expansion is removed by two extrapolations. -/
example (n : ℕ) (hn : 2 ≤ n) :
    rich (fun n => (7 : ℚ) + 3 * (1 / 2 ^ 2) ^ n + 5 * (1 / 2 ^ 4) ^ n) n 2 = 7 := by
  have := rich_exact (fun n => (7 : ℚ) + 3 * (1 / 2 ^ 2) ^ n + 5 * (1 / 2 ^ 4) ^ n) 4
    (fun i => if i = 0 then 7 else if i = 2 then 3 else if i = 4 then 5 else 0)
    (fun n => by simp [Finset.sum_range_succ]) 2 n hn
    (fun i h1 h4 => by
      have : i = 1 ∨ i = 2 ∨ i = 3 ∨ i = 4 := by omega
      rcases this with rfl | rfl | rfl | rfl
      · left; simp
      · right; exact ⟨0, by norm_num, rfl⟩
      · left; simp
      · right; exact ⟨1, by norm_num, rfl⟩)
  simpa using this

end Richardson

/-! ### 7. Column 0 is the composite trapezoid rule; its expansion for monomials (Faulhaber) -/
section Trapezoid
variable {α : Type} [Field α] [CharZero α]

theorem sum_even_odd (g : ℕ → α) (N : ℕ) :
    ∑ k ∈ range (2 * N), g k = ∑ k ∈ range N, g (2 * k) + ∑ k ∈ range N, g (2 * k + 1) := by
  induction N with
  | zero => simp
  | succ N ih =>
    rw [show 2 * (N + 1) = 2 * N + 1 + 1 from by ring, Finset.sum_range_succ, Finset.sum_range_succ, ih,
      Finset.sum_range_succ, Finset.sum_range_succ]
    ring

/-- **Column 0 in closed form**: the composite trapezoid rule with `2ⁿ` panels,
`hₙ (Σ_{k<2ⁿ} f(a + k hₙ) + (f b − f a)/2) = hₙ (Σ_{k=1}^{2ⁿ−1} f(a + k hₙ) + (f a + f b)/2)`. -/
theorem col0_closed (f : α → α) (a b : α) (n : ℕ) :
    col0 f a b n = hN a b n * (∑ k ∈ range (2 ^ n), f (a + (k : α) * hN a b n) + (f b - f a) / 2) := by
  induction n with
  | zero => simp [col0, hN]; ring
  | succ n ih =>
    rw [col0, ih, show 2 ^ (n + 1) = 2 * 2 ^ n from by ring, sum_even_odd]
    have h2 : (2 : α) ^ n ≠ 0 := pow_ne_zero _ two_ne_zero
    have hh : hN a b n = 2 * hN a b (n + 1) := by
      simp only [hN, pow_succ]; field_simp
    have e1 : ∀ k : ℕ, f (a + ((2 * k : ℕ) : α) * hN a b (n + 1)) = f (a + (k : α) * hN a b n) := by
      intro k; congr 1; rw [hh]; push_cast; ring
    have e2 : ∀ k : ℕ, f (a + ((2 * k + 1 : ℕ) : α) * hN a b (n + 1))
        = f (a + (2 * (k : α) + 1) * hN a b (n + 1)) := by
      intro k; congr 2; push_cast; ring
    simp only [e1, e2]
    rw [hh]
    ring

/-- Column 0 is the model's (and Mathlib's, see `C07.trapz_eq_mathlib`) `trapz` with `2ⁿ` panels. -/
theorem col0_eq_trapz (f : α → α) (a b : α) (n : ℕ) : col0 f a b n = trapz f a b (2 ^ n) := by
  rw [col0_closed, trapz_def, sum_range'_one]
  obtain ⟨M, hM⟩ : ∃ M, 2 ^ n = M + 1 := ⟨2 ^ n - 1, by have := Nat.one_le_two_pow (n := n); omega⟩
  have hc : hN a b n = (b - a) / ((2 ^ n : ℕ) : α) := by simp [hN]
  rw [← hc, hM, Nat.add_sub_cancel, Finset.sum_range_succ']
  simp only [Nat.cast_zero, zero_mul, add_zero]
  ring

/-- Faulhaber's formula in any field of characteristic `0`. -/
theorem faulhaber (N d : ℕ) :
    ∑ k ∈ range N, (k : α) ^ d
      = ∑ i ∈ range (d + 1), ((bernoulli i : ℚ) : α) * ((d + 1).choose i : α) * (N : α) ^ (d + 1 - i)
          / ((d : α) + 1) := by
  have := congrArg (Rat.cast : ℚ → α) (sum_range_pow N d)
  push_cast at this
  exact this

/-- Coefficients of the expansion of the trapezoid rule for `(x − a)ᵈ` in powers of `2⁻ⁿ`. -/
noncomputable def ecoef (α : Type) [Field α] (d i : ℕ) : α :=
  ((bernoulli i : ℚ) : α) * ((d + 1).choose i : α) / ((d : α) + 1) + if i = 1 then 1 / 2 else 0

/-- **Euler–Maclaurin for monomials**: the composite trapezoid value of `(x − a)ᵈ` on `[a, b]` with
`2ⁿ` panels is `(b − a)^(d+1) Σ_{i ≤ d} eᵢ (2⁻ⁱ)ⁿ` with `eᵢ` independent of `n`. -/
theorem col0_monomial (a b : α) (d n : ℕ) :
    col0 (fun x => (x - a) ^ d) a b n
      = ∑ i ∈ range (d + 1), ((b - a) ^ (d + 1) * ecoef α d i) * (1 / 2 ^ i) ^ n := by
  rw [col0_closed]
  have h2 : (2 : α) ^ n ≠ 0 := pow_ne_zero _ two_ne_zero
  have hd1 : (d : α) + 1 ≠ 0 := by exact_mod_cast Nat.succ_ne_zero d
  have e1 : ∀ k : ℕ, (a + (k : α) * hN a b n - a) ^ d = hN a b n ^ d * (k : α) ^ d := by
    intro k; rw [add_sub_cancel_left, mul_pow, mul_comm]
  simp only [e1, ← Finset.mul_sum, faulhaber, sub_self]
  simp only [ecoef, mul_add, add_mul, Finset.sum_add_distrib]
  congr 1
  · rw [Finset.mul_sum, Finset.mul_sum]
    apply Finset.sum_congr rfl
    intro i hi
    have hi' : i ≤ d := Nat.lt_succ_iff.mp (Finset.mem_range.mp hi)
    have hp : ((2 ^ n : ℕ) : α) ^ (d + 1) = ((2 ^ n : ℕ) : α) ^ (d + 1 - i) * ((2 : α) ^ i) ^ n := by
      rw [← pow_mul, mul_comm i n, pow_mul]
      push_cast
      rw [← pow_add]
      congr 1; omega
    have hN' : hN a b n = (b - a) / ((2 ^ n : ℕ) : α) := by simp [hN]
    have h3 : ((2 ^ n : ℕ) : α) ^ (d + 1 - i) ≠ 0 := by
      apply pow_ne_zero; push_cast; exact h2
    have h4 : ((2 : α) ^ i) ^ n ≠ 0 := pow_ne_zero _ (pow_ne_zero _ two_ne_zero)
    have key : hN a b n ^ (d + 1) * ((2 ^ n : ℕ) : α) ^ (d + 1 - i)
        = (b - a) ^ (d + 1) * (1 / 2 ^ i) ^ n := by
      rw [hN', div_pow, hp, one_div, inv_pow]
      field_simp
    linear_combination (((bernoulli i : ℚ) : α) * ((d + 1).choose i : α) / ((d : α) + 1)) * key
  · rcases Nat.eq_zero_or_pos d with hd | hd
    · subst hd; simp
    · rw [zero_pow (by omega), sub_zero]
      have : ∀ i, (b - a) ^ (d + 1) * (if i = 1 then (1 : α) / 2 else 0) * (1 / 2 ^ i) ^ n
          = if i = 1 then (b - a) ^ (d + 1) * (1 / 2) * (1 / 2 ^ 1) ^ n else 0 := by
        intro i; split_ifs with h
        · subst h; rfl
        · simp
      simp only [this]
      rw [Finset.sum_ite_eq' (range (d + 1)) 1, if_pos (Finset.mem_range.mpr (by omega))]
      simp only [hN, pow_succ, pow_one, one_div, inv_pow]
      field_simp

/-- **Exactness on shifted monomials**: `R n m` integrates `(x − a)ᵈ`, `d ≤ 2m+1`, exactly. -/
theorem R_monomial_shift (a b : α) (d n m : ℕ) (hmn : m ≤ n) (hd : d ≤ 2 * m + 1) :
    R (fun x => (x - a) ^ d) a b n m = (b - a) ^ (d + 1) / ((d : α) + 1) := by
  have hd1 : (d : α) + 1 ≠ 0 := by exact_mod_cast Nat.succ_ne_zero d
  rw [R, rich_exact _ d (fun i => (b - a) ^ (d + 1) * ecoef α d i) (col0_monomial a b d) m n hmn]
  · simp [ecoef, bernoulli_zero]; ring
  · intro i h1 hid
    rcases Nat.even_or_odd i with he | ho
    · right
      obtain ⟨r, hr⟩ := he
      exact ⟨r - 1, by omega, by omega⟩
    · left
      rcases Nat.eq_or_lt_of_le h1 with h | h
      · subst h
        simp only [ecoef, bernoulli_one, Nat.choose_one_right, if_true]
        push_cast
        field_simp
        ring
      · have hb := bernoulli_eq_zero_of_odd ho h
        have hne : i ≠ 1 := by omega
        simp [ecoef, hb, hne]

end Trapezoid

/-! ### 8. Exactness for polynomials of degree `≤ 2m + 1` -/
section Exact
open Polynomial
variable {α : Type} [Field α] [CharZero α]

/-- **Romberg's tableau is exact on polynomials of degree `≤ 2m+1`** (fundamental-theorem form):
for every polynomial `P` of degree `≤ 2m+2` and all `m ≤ n`, `R n m` of `P′` over `[a, b]` is
`P(b) − P(a)`; also for `a > b` and `a = b`. -/
theorem R_exact (P : α[X]) (a b : α) (n m : ℕ) (hmn : m ≤ n) (hP : P.natDegree ≤ 2 * m + 2) :
    R (fun x => (derivative P).eval x) a b n m = P.eval b - P.eval a := by
  set Q := taylor a P with hQ
  have hQd : derivative Q = taylor a (derivative P) := by
    simp [hQ, taylor_apply, derivative_comp]
  have hdeg : (derivative Q).natDegree < 2 * m + 2 := by
    have h1 := natDegree_derivative_le Q
    have h2 : Q.natDegree = P.natDegree := natDegree_taylor P a
    by_cases h0 : Q.natDegree = 0
    · rw [h0] at h1; omega
    · have := natDegree_derivative_lt h0; omega
  have hf : (fun x => (derivative P).eval x)
      = fun x => ∑ i ∈ range (2 * m + 2), (Q.coeff (i + 1) * ((i : α) + 1)) * (x - a) ^ i := by
    funext x
    rw [← taylor_eval_sub (r := a) (f := derivative P) x, ← hQd, eval_eq_sum_range' hdeg]
    apply Finset.sum_congr rfl
    intro i _
    rw [coeff_derivative]
  rw [hf, R_sum]
  have hb : P.eval b = ∑ i ∈ range (2 * m + 2 + 1), Q.coeff i * (b - a) ^ i := by
    have hQn : Q.natDegree < 2 * m + 2 + 1 := by
      have : Q.natDegree = P.natDegree := natDegree_taylor P a
      omega
    rw [← taylor_eval_sub (r := a) (f := P) b, ← hQ, eval_eq_sum_range' hQn]
  have h0 : Q.coeff 0 = P.eval a := by rw [hQ, taylor_coeff_zero]
  rw [hb, Finset.sum_range_succ' (fun i => Q.coeff i * (b - a) ^ i) (2 * m + 2)]
  simp only [h0, pow_zero, mul_one, add_sub_cancel_right]
  apply Finset.sum_congr rfl
  intro i hi
  have hi' : i < 2 * m + 2 := Finset.mem_range.mp hi
  rw [R_monomial_shift a b i n m hmn (by omega)]
  have hd1 : (i : α) + 1 ≠ 0 := by exact_mod_cast Nat.succ_ne_zero i
  field_simp

/-- Monomials: `R n m` of `xᵈ` over `[a, b]` is `(b^(d+1) − a^(d+1))/(d+1)` for `d ≤ 2m+1`, `m ≤ n`. -/
theorem R_exact_monomial (a b : α) (d n m : ℕ) (hmn : m ≤ n) (hd : d ≤ 2 * m + 1) :
    R (fun x => x ^ d) a b n m = (b ^ (d + 1) - a ^ (d + 1)) / ((d : α) + 1) := by
  have hd1 : (d : α) + 1 ≠ 0 := by exact_mod_cast Nat.succ_ne_zero d
  have := R_exact (C (1 / ((d : α) + 1)) * X ^ (d + 1)) a b n m hmn (by
    refine (natDegree_C_mul_le _ _).trans ?_
    rw [natDegree_X_pow]; omega)
  have hf : (fun x => (derivative (C (1 / ((d : α) + 1)) * X ^ (d + 1))).eval x) = fun x : α => x ^ d := by
    funext x
    simp only [derivative_C_mul, derivative_X_pow, eval_mul, eval_C, eval_pow, eval_X, Nat.add_sub_cancel]
    push_cast
    field_simp
  rw [hf] at this
  rw [this]
  simp only [eval_mul, eval_C, eval_pow, eval_X]
  field_simp

example : R (fun x : ℚ => x ^ 7) 1 3 5 3 = 820 := by
  rw [R_exact_monomial _ _ _ _ _ (by norm_num) (by norm_num)]; norm_num

/-- `R_exact` on a concrete quintic antiderivative, limits in decreasing order. -/
example : R (fun x : ℚ => (derivative (X ^ 6 - 2 * X ^ 3 + X : ℚ[X])).eval x) 2 (-1) 4 2 = -48 := by
  rw [R_exact _ _ _ _ _ (by norm_num) (by
    have h : (X ^ 6 - 2 * X ^ 3 + X : ℚ[X]).natDegree ≤ 6 := by compute_degree
    omega)]
  norm_num

/-- **Exactness, coefficient form**: for `p` of degree `≤ 2m+1`, `R n m` of `p` over `[a,b]` is the
term-wise integral `Σᵢ pᵢ (b^(i+1) − a^(i+1))/(i+1)`. -/
theorem R_exact_eval (p : α[X]) (a b : α) (n m : ℕ) (hmn : m ≤ n) (hp : p.natDegree ≤ 2 * m + 1) :
    R (fun x => p.eval x) a b n m
      = ∑ i ∈ range (2 * m + 2), p.coeff i * ((b ^ (i + 1) - a ^ (i + 1)) / ((i : α) + 1)) := by
  have hf : (fun x => p.eval x) = fun x => ∑ i ∈ range (2 * m + 2), p.coeff i * x ^ i := by
    funext x; exact eval_eq_sum_range' (by omega) x
  rw [hf, R_sum]
  apply Finset.sum_congr rfl
  intro i hi
  rw [R_exact_monomial a b i n m hmn (by have := Finset.mem_range.mp hi; omega)]

/-- **Over `ℝ`: the tableau entry `R n m` equals the integral** for every polynomial of degree `≤ 2m+1`. -/
theorem R_exact_real (p : ℝ[X]) (a b : ℝ) (n m : ℕ) (hmn : m ≤ n) (hp : p.natDegree ≤ 2 * m + 1) :
    R (fun x => p.eval x) a b n m = ∫ x in a..b, p.eval x := by
  rw [R_exact_eval p a b n m hmn hp]
  have hf : ∀ x, p.eval x = ∑ i ∈ range (2 * m + 2), p.coeff i * x ^ i :=
    fun x => eval_eq_sum_range' (by omega) x
  simp only [hf]
  rw [intervalIntegral.integral_finsetSum
    (fun i _ => (intervalIntegral.intervalIntegrable_pow i).const_mul _)]
  apply Finset.sum_congr rfl
  intro i _
  rw [intervalIntegral.integral_const_mul, integral_pow]

end Exact

section ExactModel
open Polynomial
variable {α : Type} [Field α] [CharZero α] [LinearOrder α] [IsStrictOrderedRing α] [HasNaN α] [Transc α]

/-- **`romberg` with `k` levels and tolerance `0` is exact on polynomials of degree `≤ 2k − 1`**. -/
theorem romberg_exact (habs : ∀ x : α, Transc.abs x = |x|) (P : α[X]) (a b : α) (k : ℕ)
    (h1 : 1 ≤ k) (h31 : k ≤ 31) (hP : P.natDegree ≤ 2 * k) :
    romberg (fun x => (derivative P).eval x) a b 0 k = some (P.eval b - P.eval a) := by
  rw [romberg_eps0 habs _ a b k h1 h31, R_exact P a b (k - 1) (k - 1) le_rfl (by omega)]

/-- The model's Horner evaluation of a coefficient list (`Integrand.poly`) is the coefficient sum. -/
theorem horner_eq_sum (c : List α) (x : α) :
    horner c x = ∑ i ∈ range c.length, c.getD i 0 * x ^ i := by
  induction c with
  | nil => simp [horner]
  | cons ci t ih =>
    have h : horner (ci :: t) x = horner t x * x + ci := by simp [horner]
    rw [h, ih, List.length_cons, Finset.sum_range_succ', Finset.sum_mul]
    simp [pow_succ, mul_assoc]

/-- **The catalogue integrand `poly c`** (Horner form, as run by both executors): `romberg` with `k`
levels and tolerance `0` returns the exact integral whenever `c` has at most `2k` coefficients. -/
theorem romberg_exact_horner (habs : ∀ x : α, Transc.abs x = |x|) (c : List α) (a b : α) (k : ℕ)
    (h1 : 1 ≤ k) (h31 : k ≤ 31) (hc : c.length ≤ 2 * k) :
    romberg (Integrand.eval (.poly c)) a b 0 k
      = some (∑ i ∈ range c.length, c.getD i 0 * ((b ^ (i + 1) - a ^ (i + 1)) / ((i : α) + 1))) := by
  have hf : Integrand.eval (.poly c) = fun x : α => ∑ i ∈ range c.length, c.getD i 0 * x ^ i := by
    funext x; exact horner_eq_sum c x
  rw [romberg_eps0 habs _ a b k h1 h31, hf, R_sum]
  congr 1
  apply Finset.sum_congr rfl
  intro i hi
  rw [R_exact_monomial a b i (k - 1) (k - 1) le_rfl (by have := Finset.mem_range.mp hi; omega)]

end ExactModel

section ExactAnyEps
open Polynomial
variable {α : Type} [Field α] [CharZero α] [LinearOrder α] [HasNaN α] [Transc α]

/-- **For every tolerance** (whatever `Transc.abs`, `HasNaN` are): with at least three levels `romberg`
is exact on polynomials of degree `≤ 5`, because an early exit can only return `R s s` with `s ≥ 2`. -/
theorem romberg_exact_any_eps (P : α[X]) (a b eps : α) (k : ℕ) (h3 : 3 ≤ k) (h31 : k ≤ 31)
    (hP : P.natDegree ≤ 6) :
    romberg (fun x => (derivative P).eval x) a b eps k = some (P.eval b - P.eval a) := by
  obtain ⟨s, _, hs2, hr⟩ := romberg_diag (fun x => (derivative P).eval x) a b eps k (by omega) h31
  have := hs2 h3
  rw [hr, R_exact P a b s s le_rfl (by omega)]

end ExactAnyEps

/-! ### Instances at `ℚ` for the examples -/
section RatExamples

/-- exact rationals: only `abs` is used by `romberg` -/
local instance instTranscRatC07R : Transc ℚ := ⟨id, id, id, fun a _ => a, id, id, id, abs, id, id⟩
local instance instHasNaNRatC07R : HasNaN ℚ := ⟨fun _ => false, 0⟩

theorem habsQ : ∀ x : ℚ, Transc.abs x = |x| := fun _ => rfl

theorem R_q_22 : R (fun x : ℚ => x ^ 4) 0 1 2 2 = 1 / 5 := by
  simp [R, rich, col0, hN, Finset.sum_range_succ]; norm_num

/-- `romberg_eps0` on `x⁴` over `[0,1]` with 3 levels: Boole's value `1/5`. -/
example : romberg (fun x : ℚ => x ^ 4) 0 1 0 3 = some (1 / 5) := by
  rw [romberg_eps0 habsQ _ _ _ 3 (by norm_num) (by norm_num)]
  exact congrArg some R_q_22

/-- `romberg_of_no_stop` with a positive tolerance: `x⁶`, `eps = 1/1000`, 3 levels — the test at level 2
is false, the result is Boole's value `R 2 2 = 55/384` (not the integral `1/7`). -/
theorem R_q6_11 : R (fun x : ℚ => x ^ 6) 0 1 1 1 = 17 / 96 := by
  simp [R, rich, col0, hN, Finset.sum_range_succ]; norm_num
theorem R_q6_22 : R (fun x : ℚ => x ^ 6) 0 1 2 2 = 55 / 384 := by
  simp [R, rich, col0, hN, Finset.sum_range_succ]; norm_num
theorem R_q6_33 : R (fun x : ℚ => x ^ 6) 0 1 3 3 = 1 / 7 := by
  rw [R_exact_monomial _ _ _ _ _ le_rfl (by norm_num)]; norm_num

theorem stop_q6_2 (eps : ℚ) (h : eps ≤ 1 / 100) : stopAt (fun x : ℚ => x ^ 6) 0 1 eps 2 = false := by
  have e : ∀ x : ℚ, Transc.abs x = |x| := habsQ
  simp only [stopAt, R_q6_22, show 2 - 1 = 1 from rfl, R_q6_11, rombergStop, fminG, e]
  have h1 : |(55 / 384 - 17 / 96 : ℚ)| = 13 / 384 := by norm_num [abs_of_neg]
  have h2 : |(55 / 384 : ℚ)| = 55 / 384 := abs_of_pos (by norm_num)
  have h3 : |(17 / 96 : ℚ)| = 17 / 96 := abs_of_pos (by norm_num)
  have hn : ∀ x : ℚ, HasNaN.isNaN x = false := fun _ => rfl
  rw [h1, h2, h3]
  simp only [hn, Bool.false_eq_true, if_false]
  norm_num
  constructor <;> linarith

example : romberg (fun x : ℚ => x ^ 6) 0 1 (1 / 1000) 3 = some (55 / 384) := by
  rw [romberg_of_no_stop _ _ _ _ 3 (by norm_num) (by norm_num) (fun j h2 h3 => by
    have : j = 2 := by omega
    subst this; exact stop_q6_2 _ (by norm_num))]
  exact congrArg some R_q6_22

/-- `romberg_of_first_stop`: `x⁶`, `eps = 1/100`, 5 levels allowed — the test is false at level 2, fires at
level 3, and `R 3 3 = 1/7` is returned (levels 4 is never computed). -/
example : romberg (fun x : ℚ => x ^ 6) 0 1 (1 / 100) 5 = some (1 / 7) := by
  have e : ∀ x : ℚ, Transc.abs x = |x| := habsQ
  have h3 : stopAt (fun x : ℚ => x ^ 6) 0 1 (1 / 100) 3 = true := by
    simp only [stopAt, R_q6_33, show 3 - 1 = 2 from rfl, R_q6_22, rombergStop, e]
    have h1 : |(1 / 7 - 55 / 384 : ℚ)| = 1 / 2688 := by norm_num [abs_of_neg]
    rw [h1]
    norm_num
  rw [romberg_of_first_stop _ _ _ _ 5 3 (by norm_num) (by norm_num) (by norm_num) h3 (fun j h2 h3 => by
    have : j = 2 := by omega
    subst this; exact stop_q6_2 _ (by norm_num))]
  exact congrArg some R_q6_33

example : rombergStop (0 : ℚ) (1 / 7) (1 / 7) = false := rombergStop_zero habsQ _ _

example : romberg (fun x : ℚ => x ^ 6) 0 1 0 0 = none ∧ romberg (fun x : ℚ => x ^ 6) 0 1 0 32 = none :=
  ⟨(romberg_none _ _ _ _).1, (romberg_none _ _ _ _).2 32 (by norm_num)⟩

/-- additivity / homogeneity / swap / degenerate interval on concrete inputs -/
example : romberg (fun x : ℚ => x ^ 4 + x ^ 6) 0 1 0 4 = some (1 / 5 + 1 / 7) := by
  rw [romberg_add habsQ (fun x => x ^ 4) (fun x => x ^ 6),
    romberg_eps0 habsQ _ _ _ 4 (by norm_num) (by norm_num),
    romberg_eps0 habsQ _ _ _ 4 (by norm_num) (by norm_num),
    R_exact_monomial _ _ _ _ _ le_rfl (by norm_num), R_exact_monomial _ _ _ _ _ le_rfl (by norm_num)]
  norm_num

example : romberg (fun x : ℚ => 3 * x ^ 6) 0 1 0 3 = some (3 * (55 / 384)) := by
  rw [romberg_smul habsQ 3 (fun x => x ^ 6), romberg_eps0 habsQ _ _ _ 3 (by norm_num) (by norm_num)]
  exact congrArg (fun t => some (3 * t)) R_q6_22

example : romberg (fun x : ℚ => x ^ 6) 1 0 0 3 = some (-(55 / 384)) := by
  rw [romberg_swap habsQ, romberg_eps0 habsQ _ _ _ 3 (by norm_num) (by norm_num)]
  exact congrArg (fun t => some (-t)) R_q6_22

example : romberg (fun x : ℚ => 1 / x) 5 5 0 7 = some 0 :=
  romberg_self habsQ _ _ 7 (by norm_num) (by norm_num)

example : R (fun x : ℚ => x ^ 6) 1 0 2 2 = -(55 / 384) := by rw [R_swap, R_q6_22]

open Polynomial in
/-- `romberg_exact`: degree 7 with 4 levels, on `[1, 3]`. -/
example : romberg (fun x : ℚ => (derivative (X ^ 8 : ℚ[X])).eval x) 1 3 0 4 = some 6560 := by
  rw [romberg_exact habsQ _ _ _ 4 (by norm_num) (by norm_num) (by simp)]
  norm_num

open Polynomial in
/-- `romberg_exact_any_eps`: a quintic, a large tolerance, 9 levels allowed. -/
example : romberg (fun x : ℚ => (derivative (X ^ 6 + X ^ 2 : ℚ[X])).eval x) 0 2 (1 / 2) 9 = some 68 := by
  rw [romberg_exact_any_eps _ _ _ _ 9 (by norm_num) (by norm_num) (by
    have h : (X ^ 6 + X ^ 2 : ℚ[X]).natDegree ≤ 6 := by compute_degree
    exact h)]
  norm_num

/-- `romberg_exact_horner`: `1 + 2x + 3x² + 4x³ + 5x⁴ + 6x⁵` on `[0, 2]`, three levels. -/
example : romberg (Integrand.eval (.poly [1, 2, 3, 4, 5, 6])) (0 : ℚ) 2 0 3 = some 126 := by
  rw [romberg_exact_horner habsQ _ _ _ 3 (by norm_num) (by norm_num) (by simp)]
  simp [Finset.sum_range_succ]
  norm_num

/-- Sharpness at `m = 2`: degree `2m + 2 = 6` is not integrated exactly by `R 2 2`. -/
example : R (fun x : ℚ => x ^ 6) 0 1 2 2 ≠ 1 / 7 := by rw [R_q6_22]; norm_num

end RatExamples

end Cv.C07R
