#!/bin/sh
# tools/seedtest.sh <seed-dir> <Cxx> [tier]  — apply a seeded change to a scratch worktree of /repo, run the
# check against that worktree (CV_REPO), remove the worktree.  Never touches /repo's working tree.
# One at a time (flock); the alternative executor build under out/altexec-* is reused incrementally.
set -u
SEED="$(cd "$1" && pwd)"; PID="$2"; TIER="${3:-quick}"
mkdir -p /tmp/seedwt
exec 9>/tmp/seedwt/.lock; flock 9
WT="/tmp/seedwt/wt"
git -C /repo worktree remove --force "$WT" >/dev/null 2>&1; rm -rf "$WT"; git -C /repo worktree prune
git -C /repo worktree add --detach "$WT" HEAD >/dev/null 2>&1 || exit 3
if ! git -C "$WT" apply "$SEED/patch.diff" 2>/dev/null && ! (cd "$WT" && patch -p1 -F3 -s < "$SEED/patch.diff"); then echo "PATCH-DOES-NOT-APPLY $SEED"; git -C /repo worktree remove --force "$WT"; exit 3; fi
cd /verif && CV_REPO="$WT" ./check "$PID" --tier "$TIER"; RC=$?
echo "seedtest $(basename "$SEED") property=$PID exit=$RC"
git -C /repo worktree remove --force "$WT"
exit $RC
